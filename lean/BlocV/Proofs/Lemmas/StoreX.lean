/-
  Lemmas for the extended storage model (Model/StoreX.lean): the frame discipline of every primitive and of the
  monadic glue, so that the frame theorem of Proofs/C05.lean is one induction on the fuel.
-/
import BlocV.Model.StoreX

namespace BlocV.LemmasX
open BlocV

def NonTmp : Loc → Prop
  | .tmp _ => False
  | _ => True

/-- The flag invariant read through `root?`. -/
theorem flagInv_root {σ : Store} (h : FlagInv σ) {r : Loc} {c : Cell} (hr : NonTmp r) (hc : σ.root? r = some c) : c.lv = true := by
  cases r with
  | var i => exact h.1 c (List.mem_of_getElem? hc)
  | cst i => exact h.2 c (List.mem_of_getElem? hc)
  | tmp i => exact hr.elim

theorem flagInv_of_root {σ : Store} (h : ∀ r c, NonTmp r → σ.root? r = some c → c.lv = true) : FlagInv σ := by
  constructor
  · intro c hc
    obtain ⟨i, hi, rfl⟩ := List.getElem_of_mem hc
    exact h (.var i) _ trivial (by simp [Store.root?, hi])
  · intro c hc
    obtain ⟨i, hi, rfl⟩ := List.getElem_of_mem hc
    exact h (.cst i) _ trivial (by simp [Store.root?, hi])

/-- What one evaluation step guarantees about the cells that are not temporaries: the log only grows, no slot
appears or disappears, no flag changes, and a root that is not in the log afterwards is untouched. -/
structure Frame (s s' : XS) : Prop where
  log : ∃ l, s'.log = l ++ s.log
  flag : ∀ r, NonTmp r → (s'.st.root? r).map (·.lv) = (s.st.root? r).map (·.lv)
  keep : ∀ r, NonTmp r → r ∉ s'.log → s'.st.root? r = s.st.root? r

theorem Frame.refl (s : XS) : Frame s s := ⟨⟨[], rfl⟩, fun _ _ => rfl, fun _ _ _ => rfl⟩

theorem Frame.trans {a b c : XS} (h1 : Frame a b) (h2 : Frame b c) : Frame a c := by
  obtain ⟨l1, e1⟩ := h1.log
  obtain ⟨l2, e2⟩ := h2.log
  refine ⟨⟨l2 ++ l1, by rw [e2, e1, List.append_assoc]⟩, fun r hr => (h2.flag r hr).trans (h1.flag r hr), ?_⟩
  intro r hr hn
  have hb : r ∉ b.log := fun hm => hn (by rw [e2]; exact List.mem_append_right _ hm)
  exact (h2.keep r hr hn).trans (h1.keep r hr hb)

theorem Frame.flagInv {s s' : XS} (h : Frame s s') (hi : FlagInv s.st) : FlagInv s'.st := by
  apply flagInv_of_root
  intro r c hr hc
  have := h.flag r hr
  rw [hc] at this
  cases hs : s.st.root? r with
  | none => rw [hs] at this; cases this
  | some c0 =>
    rw [hs] at this
    have e : c.lv = c0.lv := by simpa using this
    rw [e]; exact flagInv_root hi hr hs

/-- Same non-temporary cells (store-level): used for writes that can only hit the pool. -/
theorem frame_of_same {s s' : XS} (hl : s'.log = s.log) (hv : s'.st.vars = s.st.vars) (hc : s'.st.csts = s.st.csts) : Frame s s' := by
  have hroot : ∀ r, NonTmp r → s'.st.root? r = s.st.root? r := by
    intro r hr
    cases r with
    | var i => simp [Store.root?, hv]
    | cst i => simp [Store.root?, hc]
    | tmp i => exact hr.elim
  exact ⟨⟨[], by simp [hl]⟩, fun r hr => by rw [hroot r hr], fun r hr _ => hroot r hr⟩

/-- A computation respects the frame discipline (given the flag invariant at its start). -/
def Pres {α} (m : XM α) : Prop := ∀ s a s', FlagInv s.st → m s = .ok (a, s') → Frame s s'

theorem Pres.pure {α} (a : α) : Pres (XM.pure a) := by
  intro s a' s' _ h
  simp only [XM.pure] at h
  cases h; exact Frame.refl _

theorem Pres.bind {α β} {m : XM α} {f : α → XM β} (hm : Pres m) (hf : ∀ a, Pres (f a)) : Pres (XM.bind m f) := by
  intro s b s' hi h
  simp only [XM.bind] at h
  cases hms : m s with
  | ok p =>
    obtain ⟨a, s1⟩ := p
    rw [hms] at h
    have f1 := hm s a s1 hi hms
    exact f1.trans (hf a s1 b s' (f1.flagInv hi) h)
  | err c x => rw [hms] at h; cases h
  | haz x => rw [hms] at h; cases h
  | unmodelled => rw [hms] at h; cases h

theorem Pres.lift {α} (r : Res α) : Pres (XM.lift r) := by
  intro s a s' _ h
  cases r <;> simp only [XM.lift] at h <;> cases h
  exact Frame.refl _

theorem Pres.fail {α} (r : Res Unit) : Pres (XM.fail r : XM α) := by
  intro s a s' _ h
  cases r <;> simp only [XM.fail] at h <;> cases h

theorem Pres.ite {α} {c : Prop} [Decidable c] {m1 m2 : XM α} (h1 : Pres m1) (h2 : Pres m2) : Pres (if c then m1 else m2) := by
  split <;> assumption

theorem pres_xget (x : XLoc) : Pres (xget x) := by
  intro s a s' _ h
  simp only [xget] at h
  split at h <;> cases h
  exact Frame.refl _

theorem pres_logLen : Pres logLen := by
  intro s a s' _ h
  simp only [logLen] at h
  cases h; exact Frame.refl _

theorem pres_checkHeld (x : XLoc) (n : Nat) : Pres (checkHeld x n) := by
  intro s a s' _ h
  simp only [checkHeld] at h
  split at h <;> cases h
  exact Frame.refl _

theorem pres_xendStatement : Pres xendStatement := by
  intro s a s' _ h
  simp only [xendStatement] at h
  cases h
  exact frame_of_same rfl rfl rfl

theorem alloc_vars (σ : Store) (v : Val) : (alloc σ v).2.vars = σ.vars ∧ (alloc σ v).2.csts = σ.csts := ⟨rfl, rfl⟩

theorem pres_xalloc (v : Val) : Pres (xalloc v) := by
  intro s a s' _ h
  simp only [xalloc] at h
  cases h
  exact frame_of_same rfl rfl rfl

/-- A cell whose flag is clear is, under the invariant, (inside) a temporary. -/
theorem root_tmp_of_not_lv {σ : Store} (hi : FlagInv σ) {x : XLoc} {c : Cell} (hg : σ.getX x = some c) (hl : c.lv = false) :
    ∃ i, x.root = .tmp i := by
  unfold Store.getX at hg
  cases hr : σ.root? x.root with
  | none => rw [hr] at hg; cases hg
  | some c0 =>
    rw [hr] at hg
    simp only at hg
    cases hp : c0.val.getP x.path with
    | none => rw [hp] at hg; cases hg
    | some v =>
      rw [hp] at hg
      cases hg
      cases hroot : x.root with
      | tmp i => exact ⟨i, rfl⟩
      | var i => rw [hroot] at hr; have := flagInv_root hi (r := .var i) trivial hr; simp_all
      | cst i => rw [hroot] at hr; have := flagInv_root hi (r := .cst i) trivial hr; simp_all

/-- A write below a pool slot touches no variable and no constant. -/
theorem setX_tmp {σ σ' : Store} {x : XLoc} {v : Val} {i : Nat} (hx : x.root = .tmp i) (h : σ.setX x v = some σ') :
    σ'.vars = σ.vars ∧ σ'.csts = σ.csts := by
  unfold Store.setX at h
  cases hr : σ.root? x.root with
  | none => rw [hr] at h; cases h
  | some c0 =>
    rw [hr] at h
    simp only at h
    cases hp : c0.val.setP x.path v with
    | none => rw [hp] at h; cases h
    | some v' =>
      rw [hp] at h
      cases h
      rw [hx]
      exact ⟨rfl, rfl⟩

/-- the guarded write shared by LVAL1 / LVAL2 / takeArg -/
theorem frame_guarded {s : XS} {x : XLoc} {c : Cell} {v : Val} {σ' : Store} (hi : FlagInv s.st)
    (hg : s.st.getX x = some c) (hl : c.lv = false) (hs : s.st.setX x v = some σ') : Frame s { s with st := σ' } := by
  obtain ⟨i, hx⟩ := root_tmp_of_not_lv hi hg hl
  obtain ⟨e1, e2⟩ := setX_tmp hx hs
  exact frame_of_same rfl e1 e2

theorem pres_xlval1 (v : Val) (a : XLoc) : Pres (xlval1 v a) := by
  intro s r s' hi h
  simp only [xlval1] at h
  cases hg : s.st.getX a with
  | none => rw [hg] at h; cases h
  | some c =>
    rw [hg] at h
    simp only at h
    by_cases hl : c.lv = true
    · rw [if_pos hl] at h; exact pres_xalloc v s r s' hi h
    · rw [if_neg hl] at h
      cases hs : s.st.setX a v with
      | none => rw [hs] at h; cases h
      | some σ' =>
        rw [hs] at h; cases h
        exact frame_guarded hi hg (by simpa using hl) hs

theorem pres_xlval2 (v : Val) (a b : XLoc) : Pres (xlval2 v a b) := by
  intro s r s' hi h
  simp only [xlval2] at h
  cases hg : s.st.getX a with
  | none => rw [hg] at h; cases h
  | some c =>
    rw [hg] at h
    simp only at h
    by_cases hl : c.lv = true
    · rw [if_pos hl] at h; exact pres_xlval1 v b s r s' hi h
    · rw [if_neg hl] at h
      cases hs : s.st.setX a v with
      | none => rw [hs] at h; cases h
      | some σ' =>
        rw [hs] at h; cases h
        exact frame_guarded hi hg (by simpa using hl) hs

theorem pres_xplace (p : Place) (v : Val) (x1 x2 : XLoc) : Pres (xplace p v x1 x2) := by
  cases p <;> simp only [xplace]
  · exact Pres.pure _
  · exact Pres.pure _
  · exact pres_xlval1 _ _
  · exact pres_xlval2 _ _ _

theorem pres_takeArg (x : XLoc) : Pres (takeArg x) := by
  intro s r s' hi h
  simp only [takeArg] at h
  cases hg : s.st.getX x with
  | none => rw [hg] at h; cases h
  | some c =>
    rw [hg] at h
    simp only at h
    by_cases hl : c.lv = true
    · rw [if_pos hl] at h; cases h; exact Frame.refl _
    · rw [if_neg hl] at h
      cases hs : s.st.setX x (.null c.val.type) with
      | none => rw [hs] at h; cases h
      | some σ' =>
        rw [hs] at h; cases h
        exact frame_guarded hi hg (by simpa using hl) hs

/-- `Store.set` at one root leaves every other root alone and keeps the number of slots. -/
theorem root_set_ne (σ : Store) (ℓ r : Loc) (c : Cell) (hne : r ≠ ℓ) : (σ.set ℓ c).root? r = σ.root? r := by
  cases ℓ <;> cases r <;> simp only [Store.set, Store.root?] <;> try rfl
  all_goals
    rename_i i j
    have : i ≠ j := fun e => hne (by rw [e])
    simp [List.getElem?_set, this]

theorem root_set_eq (σ : Store) (ℓ : Loc) (c0 c : Cell) (h : σ.root? ℓ = some c0) : (σ.set ℓ c).root? ℓ = some c := by
  cases ℓ <;> simp only [Store.set, Store.root?] at * <;>
    (rename_i i; have hi := (List.getElem?_eq_some_iff.mp h).1; simp [List.getElem?_set, hi])

/-- The unguarded write of an in-place member: only the written root changes, it keeps its flag, it is logged. -/
theorem pres_wrRecv (x : XLoc) (v : Val) : Pres (wrRecv x v) := by
  intro s r s' _ h
  simp only [wrRecv] at h
  cases hs : s.st.setX x v with
  | none => rw [hs] at h; cases h
  | some σ' =>
    rw [hs] at h; cases h
    unfold Store.setX at hs
    cases hr : s.st.root? x.root with
    | none => rw [hr] at hs; cases hs
    | some c0 =>
      rw [hr] at hs
      simp only at hs
      cases hp : c0.val.setP x.path v with
      | none => rw [hp] at hs; cases hs
      | some v' =>
        rw [hp] at hs
        cases hs
        refine ⟨?_, ?_, ?_⟩
        · cases hx : x.root <;> simp only
          · exact ⟨[_], rfl⟩
          · exact ⟨[_], rfl⟩
          · exact ⟨[], rfl⟩
        · intro r _
          by_cases e : r = x.root
          · subst e; simp only; rw [root_set_eq _ _ _ _ hr, hr]; rfl
          · simp only; rw [root_set_ne _ _ _ _ e]
        · intro r hr' hn
          by_cases e : r = x.root
          · exfalso
            subst e
            cases hx : x.root with
            | tmp i => rw [hx] at hr'; exact hr'
            | var i => simp only [hx] at hn; exact hn (List.mem_cons_self ..)
            | cst i => simp only [hx] at hn; exact hn (List.mem_cons_self ..)
          · simp only; exact root_set_ne _ _ _ _ e

theorem pres_xsetVar (i : Nat) (v : Val) : Pres (xsetVar i v) := by
  intro s r s' hi h
  simp only [xsetVar] at h
  split at h
  · rename_i hlt
    cases h
    have hr : ∃ c0, s.st.root? (.var i) = some c0 := ⟨s.st.vars[i], by simp [Store.root?, hlt]⟩
    obtain ⟨c0, hc0⟩ := hr
    refine ⟨⟨[_], rfl⟩, ?_, ?_⟩
    · intro r hr'
      by_cases e : r = .var i
      · subst e; simp only; rw [root_set_eq _ _ _ _ hc0, hc0]
        simp [flagInv_root hi (r := .var i) trivial hc0]
      · simp only; rw [root_set_ne _ _ _ _ e]
    · intro r _ hn
      by_cases e : r = .var i
      · subst e; exact (hn (List.mem_cons_self ..)).elim
      · simp only; exact root_set_ne _ _ _ _ e
  · cases h

theorem pres_xstoreVar (i : Nat) (x : XLoc) : Pres (xstoreVar i x) := by
  unfold xstoreVar
  split
  · exact Pres.pure _
  · exact Pres.bind (pres_takeArg x) (fun v => pres_xsetVar i v)

theorem pres_finishInPlace (x : XLoc) (old res recv' : Val) (b : Bool) : Pres (finishInPlace x old res recv' b) := by
  unfold finishInPlace
  split
  · exact pres_xalloc _
  · exact Pres.bind (pres_wrRecv _ _) (fun _ => Pres.pure _)

theorem pres_recvCell (r : XExpr) (x : XLoc) : Pres (recvCell r x) := by
  unfold recvCell
  refine Pres.bind (pres_xget x) (fun c => ?_)
  split
  · exact pres_xalloc _
  · exact Pres.pure _

theorem pres_atResult (x : XLoc) (recv a0 res : Val) : Pres (atResult x recv a0 res) := by
  unfold atResult
  split
  · exact Pres.pure _
  · exact pres_xalloc _

theorem pres_tabStep {ev : XM XLoc} (hev : Pres ev) (t : Ty) : ∀ k acc, Pres (tabStep ev t k acc)
  | 0, acc => by simp only [tabStep]; exact Pres.pure _
  | k + 1, acc => by
    simp only [tabStep]
    refine Pres.bind hev (fun x => Pres.bind (pres_xget x) (fun c => ?_))
    split
    · exact Pres.fail _
    · exact Pres.bind (pres_takeArg x) (fun v => pres_tabStep hev t k _)

theorem pres_tupStep {ev : XExpr → XM XLoc} (hev : ∀ e, Pres (ev e)) : ∀ as acc, Pres (tupStep ev as acc)
  | [], acc => by simp only [tupStep]; exact Pres.pure _
  | a :: as, acc => by
    simp only [tupStep]
    refine Pres.bind (hev a) (fun x => Pres.bind (pres_xget x) (fun c => ?_))
    split
    · exact Pres.fail _
    · split
      · exact Pres.fail _
      · exact Pres.bind (pres_takeArg x) (fun v => pres_tupStep hev as _)

theorem pres_biArgs {ev : XExpr → XM XLoc} (hev : ∀ e, Pres (ev e)) : ∀ as acc, Pres (biArgs ev as acc)
  | [], acc => by simp only [biArgs]; exact Pres.pure _
  | a :: as, acc => by
    simp only [biArgs]
    exact Pres.bind (hev a) (fun x => Pres.bind pres_logLen (fun n => pres_biArgs hev as _))

theorem pres_biHeld : ∀ xn, Pres (biHeld xn)
  | [] => by simp only [biHeld]; exact Pres.pure _
  | (x, n) :: rest => by
    simp only [biHeld]
    exact Pres.bind (pres_checkHeld x n) (fun _ => pres_biHeld rest)

theorem pres_xgets : ∀ xs, Pres (xgets xs)
  | [] => by simp only [xgets]; exact Pres.pure _
  | x :: rest => by
    simp only [xgets]
    exact Pres.bind (pres_xget x) (fun c => Pres.bind (pres_xgets rest) (fun vs => Pres.pure _))

/-- every placement combinator of the built-ins respects the frame: it writes a cell only after having read its flag as
clear, which under `FlagInv` makes it a pool slot (`pres_xlval1`, `pres_xlval2`) -/
theorem pres_xplaceBi (p : BiPlace) (v : Val) (xs : List XLoc) : Pres (xplaceBi p v xs) := by
  unfold xplaceBi
  split
  · exact Pres.pure _
  · exact pres_xalloc _
  · exact pres_xlval1 _ _
  · exact pres_xlval2 _ _ _
  · exact Pres.fail _

/-- LVAL1 leaves the lists of variable slots and constant nodes IDENTICAL (whole cells) and logs nothing: the only
cell it may write was read with a clear flag, hence is a pool slot. -/
theorem xlval1_same (v : Val) (a : XLoc) (s s' : XS) (x : XLoc) (hi : FlagInv s.st) (h : xlval1 v a s = .ok (x, s')) :
    s'.st.vars = s.st.vars ∧ s'.st.csts = s.st.csts ∧ s'.log = s.log := by
  simp only [xlval1] at h
  cases hg : s.st.getX a with
  | none => rw [hg] at h; cases h
  | some c =>
    rw [hg] at h
    simp only at h
    by_cases hl : c.lv = true
    · rw [if_pos hl] at h; simp only [xalloc] at h; cases h; exact ⟨rfl, rfl, rfl⟩
    · rw [if_neg hl] at h
      cases hs : s.st.setX a v with
      | none => rw [hs] at h; cases h
      | some σ' =>
        rw [hs] at h; cases h
        obtain ⟨i, hx⟩ := root_tmp_of_not_lv hi hg (by simpa using hl)
        obtain ⟨e1, e2⟩ := setX_tmp hx hs
        exact ⟨e1, e2, rfl⟩

theorem xlval2_same (v : Val) (a b : XLoc) (s s' : XS) (x : XLoc) (hi : FlagInv s.st) (h : xlval2 v a b s = .ok (x, s')) :
    s'.st.vars = s.st.vars ∧ s'.st.csts = s.st.csts ∧ s'.log = s.log := by
  simp only [xlval2] at h
  cases hg : s.st.getX a with
  | none => rw [hg] at h; cases h
  | some c =>
    rw [hg] at h
    simp only at h
    by_cases hl : c.lv = true
    · rw [if_pos hl] at h; exact xlval1_same v b s s' x hi h
    · rw [if_neg hl] at h
      cases hs : s.st.setX a v with
      | none => rw [hs] at h; cases h
      | some σ' =>
        rw [hs] at h; cases h
        obtain ⟨i, hx⟩ := root_tmp_of_not_lv hi hg (by simpa using hl)
        obtain ⟨e1, e2⟩ := setX_tmp hx hs
        exact ⟨e1, e2, rfl⟩

/-- The seeded change C05-m7 as a combinator (`if (!a0.lvalue() || !a1.lvalue()) { a0.swap(v); return a0; }`): NOT used
by the model; kept to show, next to `reuse_only_temporaries`, what the theorem excludes. -/
def xlval2Merged (v : Val) (a b : XLoc) : XM XLoc := fun s =>
  match s.st.getX a, s.st.getX b with
  | some ca, some cb =>
    if !ca.lv || !cb.lv then
      match s.st.setX a v with
      | some σ' => .ok (a, { s with st := σ' })
      | none => .haz .oob
    else xalloc v s
  | _, _ => .haz .oob

theorem pres_bindArgs {ev : XExpr → XM XLoc} (hev : ∀ e, Pres (ev e)) : ∀ as k callee, Pres (bindArgs ev as k callee)
  | [], k, callee => by simp only [bindArgs]; exact Pres.pure _
  | a :: as, k, callee => by
    simp only [bindArgs]
    refine Pres.bind (hev a) (fun x => Pres.bind (pres_takeArg x) (fun v => ?_))
    split
    · exact pres_bindArgs hev as _ _
    · exact Pres.fail _

theorem pres_execBody {ev : XExpr → XM XLoc} (hev : ∀ e, Pres (ev e)) : ∀ body, Pres (execBody ev body)
  | [] => by simp only [execBody]; exact Pres.pure _
  | .assign i e :: rest => by
    simp only [execBody]
    exact Pres.bind (hev e) (fun x => Pres.bind (pres_xstoreVar i x) (fun _ => Pres.bind pres_xendStatement (fun _ => pres_execBody hev rest)))
  | .doE e :: rest => by
    simp only [execBody]
    exact Pres.bind (hev e) (fun _ => Pres.bind pres_xendStatement (fun _ => pres_execBody hev rest))
  | .ret e :: _ => by
    simp only [execBody]
    exact Pres.bind (hev e) (fun x => Pres.bind (pres_takeArg x) (fun v => Pres.pure _))

/-- every variable slot of a (callee) store carries the flag -/
def VarsFlagged (σ : Store) : Prop := ∀ c ∈ σ.vars, c.lv = true

theorem varsFlagged_set (σ : Store) (k : Nat) (v : Val) (h : VarsFlagged σ) : VarsFlagged (σ.set (.var k) { val := v, lv := true }) := by
  intro c hc
  simp only [Store.set] at hc
  rcases List.mem_or_eq_of_mem_set hc with h1 | h1
  · exact h c h1
  · rw [h1]

theorem varsFlagged_callee (f : XFun) : VarsFlagged (calleeStore f) := by
  intro c hc
  simp only [calleeStore, List.mem_map] at hc
  obtain ⟨t, _, rfl⟩ := hc
  rfl

/-- parameter binding only ever stores flagged cells into the callee context -/
theorem bindArgs_flagged (ev : XExpr → XM XLoc) : ∀ as k callee s callee' s', VarsFlagged callee →
    bindArgs ev as k callee s = .ok (callee', s') → VarsFlagged callee'
  | [], k, callee, s, callee', s', hf, h => by
    simp only [bindArgs, XM.pure] at h
    cases h; exact hf
  | a :: as, k, callee, s, callee', s', hf, h => by
    simp only [bindArgs, XM.bind] at h
    cases h1 : ev a s with
    | ok p1 =>
      obtain ⟨x, s1⟩ := p1
      rw [h1] at h
      simp only at h
      cases h2 : takeArg x s1 with
      | ok p2 =>
        obtain ⟨v, s2⟩ := p2
        rw [h2] at h
        simp only at h
        split at h
        · exact bindArgs_flagged ev as _ _ s2 callee' s' (varsFlagged_set _ _ _ hf) h
        · simp only [XM.fail] at h; cases h
      | err c x => rw [h2] at h; cases h
      | haz x => rw [h2] at h; cases h
      | unmodelled => rw [h2] at h; cases h
    | err c x => rw [h1] at h; cases h
    | haz x => rw [h1] at h; cases h
    | unmodelled => rw [h1] at h; cases h

/-- A call: whatever the callee does in its own context, the caller sees at most changed constant nodes, each of
them logged; the callee starts from a state satisfying the flag invariant. -/
theorem pres_inCallee {α} {m : XM α} (hm : Pres m) (callee : Store) (hf : VarsFlagged callee) : Pres (inCallee callee m) := by
  intro s a s' hi h
  simp only [inCallee] at h
  cases hms : m { st := { callee with csts := s.st.csts }, log := [] } with
  | ok p =>
    obtain ⟨a0, s0⟩ := p
    rw [hms] at h
    simp only at h
    cases h
    have hi0 : FlagInv ({ st := { callee with csts := s.st.csts }, log := [] } : XS).st := ⟨hf, hi.2⟩
    have fr := hm _ _ _ hi0 hms
    refine ⟨⟨_, rfl⟩, ?_, ?_⟩
    · intro r hr
      cases r with
      | var i => rfl
      | cst i => exact fr.flag (.cst i) trivial
      | tmp i => exact hr.elim
    · intro r hr hn
      cases r with
      | var i => rfl
      | cst i =>
        have : Loc.cst i ∉ s0.log := by
          intro hm'
          apply hn
          simp only
          exact List.mem_append_left _ (List.mem_filter.mpr ⟨hm', rfl⟩)
        exact fr.keep (.cst i) trivial this
      | tmp i => exact hr.elim
  | err c x => rw [hms] at h; cases h
  | haz x => rw [hms] at h; cases h
  | unmodelled => rw [hms] at h; cases h

/-- binding then running: the composite used by `call` -/
theorem pres_call {ev : XExpr → XM XLoc} (hev : ∀ e, Pres (ev e)) (fn : XFun) (args : List XExpr) :
    Pres (XM.bind (bindArgs ev args 0 (calleeStore fn)) (fun callee =>
      XM.bind (inCallee callee (execBody ev fn.body)) (fun ret =>
        match ret with
        | some v => xalloc v
        | none => xalloc (.null Ty.none)))) := by
  intro s a s' hi h
  simp only [XM.bind] at h
  cases h1 : bindArgs ev args 0 (calleeStore fn) s with
  | ok p1 =>
    obtain ⟨callee, s1⟩ := p1
    rw [h1] at h
    simp only at h
    have f1 := pres_bindArgs hev args 0 (calleeStore fn) s callee s1 hi h1
    have hfl := bindArgs_flagged ev args 0 (calleeStore fn) s callee s1 (varsFlagged_callee fn) h1
    have rest : Pres (XM.bind (inCallee callee (execBody ev fn.body)) (fun ret =>
        match ret with
        | some v => xalloc v
        | none => xalloc (.null Ty.none))) := by
      refine Pres.bind (pres_inCallee (pres_execBody hev fn.body) callee hfl) (fun ret => ?_)
      cases ret
      · exact pres_xalloc _
      · exact pres_xalloc _
    exact f1.trans (rest s1 a s' (f1.flagInv hi) (by simpa only [XM.bind] using h))
  | err c x => rw [h1] at h; cases h
  | haz x => rw [h1] at h; cases h
  | unmodelled => rw [h1] at h; cases h

/-! ### the pool invariant: no pool slot carries LVALUE (C05R4) -/

/-- `Context::allocate` builds its Value from an rvalue (flags of a fresh value), `swap(Value&&)` into a temporary copies those
flags, the default `Cell` has a clear flag: no cell of the temporary pool ever carries LVALUE. -/
def PoolInv (σ : Store) : Prop := ∀ c ∈ σ.pool, c.lv = false

def PPool {α} (m : XM α) : Prop := ∀ s a s', PoolInv s.st → m s = .ok (a, s') → PoolInv s'.st

theorem PPool.pure {α} (a : α) : PPool (XM.pure a) := by
  intro s b s' hi h; simp only [XM.pure] at h; cases h; exact hi

theorem PPool.bind {α β} {m : XM α} {f : α → XM β} (hm : PPool m) (hf : ∀ a, PPool (f a)) : PPool (XM.bind m f) := by
  intro s b s' hi h
  simp only [XM.bind] at h
  cases h1 : m s with
  | ok p1 =>
    obtain ⟨a, s1⟩ := p1
    rw [h1] at h
    exact hf a s1 b s' (hm s a s1 hi h1) h
  | err c x => rw [h1] at h; cases h
  | haz x => rw [h1] at h; cases h
  | unmodelled => rw [h1] at h; cases h

theorem PPool.lift {α} (r : Res α) : PPool (XM.lift r) := by
  intro s b s' hi h; cases r <;> simp only [XM.lift] at h <;> cases h; exact hi

theorem PPool.fail {α} (r : Res Unit) : PPool (XM.fail r : XM α) := by
  intro s b s' _ h; cases r <;> simp only [XM.fail] at h <;> cases h

theorem PPool.ite {α} {c : Prop} [Decidable c] {m1 m2 : XM α} (h1 : PPool m1) (h2 : PPool m2) : PPool (if c then m1 else m2) := by
  split <;> assumption

theorem PPool.of_same {α} {m : XM α} (h : ∀ s a s', m s = .ok (a, s') → s'.st.pool = s.st.pool) : PPool m := by
  intro s a s' hi hm
  unfold PoolInv
  rw [h s a s' hm]; exact hi

theorem poolInv_alloc (σ : Store) (v : Val) (h : PoolInv σ) : PoolInv (alloc σ v).2 := by
  intro c hc
  simp only [alloc] at hc
  split at hc
  · rcases List.mem_or_eq_of_mem_set hc with h1 | h1
    · exact h c h1
    · rw [h1]
  · simp only [List.mem_append, List.mem_replicate, List.mem_singleton] at hc
    rcases hc with (h1 | ⟨_, h1⟩) | h1
    · exact h c h1
    · rw [h1]; rfl
    · rw [h1]

theorem poolInv_setX {σ σ' : Store} {x : XLoc} {v : Val} (hs : σ.setX x v = some σ') (h : PoolInv σ) : PoolInv σ' := by
  unfold Store.setX at hs
  cases hr : σ.root? x.root with
  | none => rw [hr] at hs; cases hs
  | some c0 =>
    rw [hr] at hs
    simp only at hs
    cases hp : c0.val.setP x.path v with
    | none => rw [hp] at hs; cases hs
    | some v' =>
      rw [hp] at hs
      cases hs
      cases hx : x.root with
      | var i => exact h
      | cst i => exact h
      | tmp i =>
        rw [hx] at hr
        intro c hc
        simp only [Store.set] at hc
        rcases List.mem_or_eq_of_mem_set hc with h1 | h1
        · exact h c h1
        · rw [h1]
          simp only [Store.root?] at hr
          exact h c0 (List.mem_of_getElem? hr)

theorem ppool_xget (x : XLoc) : PPool (xget x) := PPool.of_same (by
  intro s a s' h; simp only [xget] at h; split at h <;> cases h; rfl)
theorem ppool_logLen : PPool logLen := PPool.of_same (by intro s a s' h; simp only [logLen] at h; cases h; rfl)
theorem ppool_checkHeld (x : XLoc) (n : Nat) : PPool (checkHeld x n) := PPool.of_same (by
  intro s a s' h; simp only [checkHeld] at h; split at h <;> cases h; rfl)
theorem ppool_xendStatement : PPool xendStatement := PPool.of_same (by
  intro s a s' h; simp only [xendStatement] at h; cases h; rfl)
theorem ppool_xsetVar (i : Nat) (v : Val) : PPool (xsetVar i v) := PPool.of_same (by
  intro s a s' h; simp only [xsetVar] at h; split at h <;> cases h; rfl)

theorem ppool_xalloc (v : Val) : PPool (xalloc v) := by
  intro s a s' hi h; simp only [xalloc] at h; cases h; exact poolInv_alloc _ _ hi

theorem ppool_xlval1 (v : Val) (a : XLoc) : PPool (xlval1 v a) := by
  intro s r s' hi h
  simp only [xlval1] at h
  split at h
  · split at h
    · exact ppool_xalloc v s r s' hi h
    · split at h
      · rename_i hs; cases h; exact poolInv_setX hs hi
      · cases h
  · cases h

theorem ppool_xlval2 (v : Val) (a b : XLoc) : PPool (xlval2 v a b) := by
  intro s r s' hi h
  simp only [xlval2] at h
  split at h
  · split at h
    · exact ppool_xlval1 v b s r s' hi h
    · split at h
      · rename_i hs; cases h; exact poolInv_setX hs hi
      · cases h
  · cases h

theorem ppool_xplace (p : Place) (v : Val) (x1 x2 : XLoc) : PPool (xplace p v x1 x2) := by
  cases p <;> simp only [xplace]
  · exact PPool.pure _
  · exact PPool.pure _
  · exact ppool_xlval1 _ _
  · exact ppool_xlval2 _ _ _

theorem ppool_xplaceBi (p : BiPlace) (v : Val) (xs : List XLoc) : PPool (xplaceBi p v xs) := by
  unfold xplaceBi
  split
  · exact PPool.pure _
  · exact ppool_xalloc _
  · exact ppool_xlval1 _ _
  · exact ppool_xlval2 _ _ _
  · exact PPool.fail _

theorem ppool_takeArg (x : XLoc) : PPool (takeArg x) := by
  intro s r s' hi h
  simp only [takeArg] at h
  split at h
  · split at h
    · cases h; exact hi
    · split at h
      · rename_i hs; cases h; exact poolInv_setX hs hi
      · cases h
  · cases h

theorem ppool_wrRecv (x : XLoc) (v : Val) : PPool (wrRecv x v) := by
  intro s r s' hi h
  simp only [wrRecv] at h
  split at h
  · rename_i hs; cases h; exact poolInv_setX hs hi
  · cases h

theorem ppool_xstoreVar (i : Nat) (x : XLoc) : PPool (xstoreVar i x) := by
  unfold xstoreVar
  split
  · exact PPool.pure _
  · exact PPool.bind (ppool_takeArg x) (fun v => ppool_xsetVar i v)

theorem ppool_finishInPlace (x : XLoc) (old res recv' : Val) (b : Bool) : PPool (finishInPlace x old res recv' b) := by
  unfold finishInPlace
  split
  · exact ppool_xalloc _
  · exact PPool.bind (ppool_wrRecv _ _) (fun _ => PPool.pure _)

theorem ppool_recvCell (r : XExpr) (x : XLoc) : PPool (recvCell r x) := by
  unfold recvCell
  refine PPool.bind (ppool_xget x) (fun c => ?_)
  split
  · exact ppool_xalloc _
  · exact PPool.pure _

theorem ppool_atResult (x : XLoc) (recv a0 res : Val) : PPool (atResult x recv a0 res) := by
  unfold atResult
  split
  · exact PPool.pure _
  · exact ppool_xalloc _

theorem ppool_tabStep {ev : XM XLoc} (hev : PPool ev) (t : Ty) : ∀ k acc, PPool (tabStep ev t k acc)
  | 0, acc => by simp only [tabStep]; exact PPool.pure _
  | k + 1, acc => by
    simp only [tabStep]
    refine PPool.bind hev (fun x => PPool.bind (ppool_xget x) (fun c => ?_))
    split
    · exact PPool.fail _
    · exact PPool.bind (ppool_takeArg x) (fun v => ppool_tabStep hev t k _)

theorem ppool_tupStep {ev : XExpr → XM XLoc} (hev : ∀ e, PPool (ev e)) : ∀ as acc, PPool (tupStep ev as acc)
  | [], acc => by simp only [tupStep]; exact PPool.pure _
  | a :: as, acc => by
    simp only [tupStep]
    refine PPool.bind (hev a) (fun x => PPool.bind (ppool_xget x) (fun c => ?_))
    split
    · exact PPool.fail _
    · split
      · exact PPool.fail _
      · exact PPool.bind (ppool_takeArg x) (fun v => ppool_tupStep hev as _)

theorem ppool_bindArgs {ev : XExpr → XM XLoc} (hev : ∀ e, PPool (ev e)) : ∀ as k callee, PPool (bindArgs ev as k callee)
  | [], k, callee => by simp only [bindArgs]; exact PPool.pure _
  | a :: as, k, callee => by
    simp only [bindArgs]
    refine PPool.bind (hev a) (fun x => PPool.bind (ppool_takeArg x) (fun v => ?_))
    split
    · exact ppool_bindArgs hev as _ _
    · exact PPool.fail _

theorem ppool_biArgs {ev : XExpr → XM XLoc} (hev : ∀ e, PPool (ev e)) : ∀ as acc, PPool (biArgs ev as acc)
  | [], acc => by simp only [biArgs]; exact PPool.pure _
  | a :: as, acc => by
    simp only [biArgs]
    exact PPool.bind (hev a) (fun x => PPool.bind ppool_logLen (fun n => ppool_biArgs hev as _))

theorem ppool_biHeld : ∀ xn, PPool (biHeld xn)
  | [] => by simp only [biHeld]; exact PPool.pure _
  | (x, n) :: rest => by
    simp only [biHeld]
    exact PPool.bind (ppool_checkHeld x n) (fun _ => ppool_biHeld rest)

theorem ppool_xgets : ∀ xs, PPool (xgets xs)
  | [] => by simp only [xgets]; exact PPool.pure _
  | x :: rest => by
    simp only [xgets]
    exact PPool.bind (ppool_xget x) (fun c => PPool.bind (ppool_xgets rest) (fun vs => PPool.pure _))

/-- a call runs in the callee's own store: the caller's pool comes back as it was, whatever the callee did -/
theorem ppool_inCallee {α} (callee : Store) (m : XM α) : PPool (inCallee callee m) := PPool.of_same (by
  intro s a s' h
  simp only [inCallee] at h
  split at h <;> cases h
  rfl)

/-! ### where a result lives: the root of the returned location -/

def IsTmp : Loc → Prop
  | .tmp _ => True
  | _ => False

/-- the variable a storage expression is rooted at (`XExpr.isStorage`) -/
def rootVarX : XExpr → Option Nat
  | .var i => some i
  | .item r _ => rootVarX r
  | .setItem r _ _ => rootVarX r
  | .mem _ r _ => rootVarX r
  | _ => none

def RootFrom (P : Loc → Prop) (m : XM XLoc) : Prop := ∀ s x s', m s = .ok (x, s') → P x.root

theorem RootFrom.bind_with {α} {P : Loc → Prop} {m : XM α} {f : α → XM XLoc}
    (h : ∀ s a s1, m s = .ok (a, s1) → RootFrom P (f a)) : RootFrom P (XM.bind m f) := by
  intro s x s' hx
  simp only [XM.bind] at hx
  cases hm : m s with
  | ok p => obtain ⟨a, s1⟩ := p; rw [hm] at hx; exact h s a s1 hm s1 x s' hx
  | err c y => rw [hm] at hx; cases hx
  | haz y => rw [hm] at hx; cases hx
  | unmodelled => rw [hm] at hx; cases hx

theorem RootFrom.bind_last {α} {P : Loc → Prop} {m : XM α} {f : α → XM XLoc} (h : ∀ a, RootFrom P (f a)) :
    RootFrom P (XM.bind m f) := RootFrom.bind_with (fun _ a _ _ => h a)

theorem RootFrom.fail {P : Loc → Prop} (r : Res Unit) : RootFrom P (XM.fail r) := by
  intro s x s' h; cases r <;> simp only [XM.fail] at h <;> cases h

theorem RootFrom.pure {P : Loc → Prop} (x : XLoc) (h : P x.root) : RootFrom P (XM.pure x) := by
  intro s y s' hy; simp only [XM.pure] at hy; cases hy; exact h

theorem RootFrom.mono {P Q : Loc → Prop} {m : XM XLoc} (hpq : ∀ ρ, P ρ → Q ρ) (h : RootFrom P m) : RootFrom Q m :=
  fun s x s' hx => hpq _ (h s x s' hx)

theorem RootFrom.ite {P : Loc → Prop} {c : Prop} [Decidable c] {m1 m2 : XM XLoc} (h1 : RootFrom P m1) (h2 : RootFrom P m2) :
    RootFrom P (if c then m1 else m2) := by split <;> assumption

theorem rootFrom_xalloc (v : Val) : RootFrom IsTmp (xalloc v) := by
  intro s x s' h; simp only [xalloc] at h; cases h; simp [alloc, IsTmp]

theorem rootFrom_xlval1 (v : Val) (a : XLoc) : RootFrom (fun ρ => ρ = a.root ∨ IsTmp ρ) (xlval1 v a) := by
  intro s x s' h
  simp only [xlval1] at h
  split at h
  · split at h
    · exact Or.inr (rootFrom_xalloc v s x s' h)
    · split at h
      · cases h; exact Or.inl rfl
      · cases h
  · cases h

theorem rootFrom_finishInPlace (x : XLoc) (old res recv' : Val) (b : Bool) :
    RootFrom (fun ρ => ρ = x.root ∨ IsTmp ρ) (finishInPlace x old res recv' b) := by
  unfold finishInPlace
  split
  · exact RootFrom.mono (fun _ h => Or.inr h) (rootFrom_xalloc _)
  · exact RootFrom.bind_last (fun _ => RootFrom.pure _ (Or.inl rfl))

theorem rootFrom_atResult (x : XLoc) (recv a0 res : Val) : RootFrom (fun ρ => ρ = x.root ∨ IsTmp ρ) (atResult x recv a0 res) := by
  unfold atResult
  split
  · exact RootFrom.pure _ (Or.inl rfl)
  · exact RootFrom.mono (fun _ h => Or.inr h) (rootFrom_xalloc _)

theorem rootFrom_recvCell (r : XExpr) (xr : XLoc) : RootFrom (fun ρ => ρ = xr.root ∨ IsTmp ρ) (recvCell r xr) := by
  unfold recvCell
  refine RootFrom.bind_last (fun c => ?_)
  split
  · exact RootFrom.mono (fun _ h => Or.inr h) (rootFrom_xalloc _)
  · exact RootFrom.pure _ (Or.inl rfl)

end BlocV.LemmasX

namespace BlocV.LemmasX
open BlocV

/-! ### the static footprint: which non-temporary roots an evaluation can log -/

/-- the root an in-place member with receiver expression `r` can write: the variable a storage expression is rooted at,
or the constant node when the receiver is a literal (only reachable for literal types whose `isConst` path does not
allocate; the value level raises for all of them, the footprint does not rely on that). -/
def recvRoot (r : XExpr) : List Loc :=
  match r with
  | .cst j => [.cst j]
  | _ => if r.isStorage then (match rootVarX r with | some i => [.var i] | none => []) else []

def stmtExprs : List XStmt → List (Option Nat × XExpr)
  | [] => []
  | .assign i e :: rest => (some i, e) :: stmtExprs rest
  | .doE e :: rest => (none, e) :: stmtExprs rest
  | .ret e :: rest => (none, e) :: stmtExprs rest

/-- **Static footprint** of an expression: every variable slot / constant node its evaluation may write in place,
computed from the text (and, for calls, from the texts of the called functions: constant nodes only — a callee's
variables are its own). Same fuel discipline as `evalX`. -/
def fpE (F : List XFun) : Nat → XExpr → List Loc
  | 0, _ => []
  | fuel + 1, e =>
    match e with
    | .cst _ => []
    | .var _ => []
    | .tab0 => []
    | .un _ a => fpE F fuel a
    | .bin _ a b => fpE F fuel a ++ fpE F fuel b
    | .mem m r args =>
      (match m with | .count => [] | .at => [] | _ => recvRoot r) ++ fpE F fuel r ++ (args.map (fpE F fuel)).flatten
    | .item r _ => fpE F fuel r
    | .setItem r _ a => recvRoot r ++ fpE F fuel r ++ fpE F fuel a
    | .tab n a => fpE F fuel n ++ fpE F fuel a
    | .tup args => (args.map (fpE F fuel)).flatten
    | .bi _ args => (args.map (fpE F fuel)).flatten
    | .call f args =>
      (args.map (fpE F fuel)).flatten ++
        (match F[f]? with
         | some fn => (((stmtExprs fn.body).map (fun p => fpE F fuel p.2)).flatten).filter Loc.isCst
         | none => [])

/-- a computation logs only roots of `A` -/
def Logs {α} (A : List Loc) (m : XM α) : Prop :=
  ∀ s a s', FlagInv s.st → m s = .ok (a, s') → ∃ l, s'.log = l ++ s.log ∧ ∀ ρ ∈ l, ρ ∈ A

theorem Logs.mono {α} {A B : List Loc} {m : XM α} (h : ∀ ρ ∈ A, ρ ∈ B) (hm : Logs A m) : Logs B m := by
  intro s a s' hi hs
  obtain ⟨l, e, hl⟩ := hm s a s' hi hs
  exact ⟨l, e, fun ρ hρ => h ρ (hl ρ hρ)⟩

theorem Logs.silent {α} {A : List Loc} {m : XM α} (h : ∀ s a s', m s = .ok (a, s') → s'.log = s.log) : Logs A m := by
  intro s a s' _ hs
  exact ⟨[], by simp [h s a s' hs], fun _ hρ => by cases hρ⟩

theorem Logs.bind {α β} {A : List Loc} {m : XM α} {f : α → XM β} (hm : Logs A m) (hp : Pres m)
    (hf : ∀ s a s1, m s = .ok (a, s1) → Logs A (f a)) : Logs A (XM.bind m f) := by
  intro s b s' hi h
  simp only [XM.bind] at h
  cases hms : m s with
  | ok p =>
    obtain ⟨a, s1⟩ := p
    rw [hms] at h
    obtain ⟨l1, e1, h1⟩ := hm s a s1 hi hms
    obtain ⟨l2, e2, h2⟩ := hf s a s1 hms s1 b s' ((hp s a s1 hi hms).flagInv hi) h
    refine ⟨l2 ++ l1, by rw [e2, e1, List.append_assoc], ?_⟩
    intro ρ hρ
    rcases List.mem_append.mp hρ with h' | h'
    · exact h2 ρ h'
    · exact h1 ρ h'
  | err c x => rw [hms] at h; cases h
  | haz x => rw [hms] at h; cases h
  | unmodelled => rw [hms] at h; cases h

theorem Logs.bind' {α β} {A : List Loc} {m : XM α} {f : α → XM β} (hm : Logs A m) (hp : Pres m)
    (hf : ∀ a, Logs A (f a)) : Logs A (XM.bind m f) := Logs.bind hm hp (fun _ a _ _ => hf a)

theorem Logs.ite {α} {A : List Loc} {c : Prop} [Decidable c] {m1 m2 : XM α} (h1 : Logs A m1) (h2 : Logs A m2) :
    Logs A (if c then m1 else m2) := by split <;> assumption

theorem silent_pure {α} (a : α) : ∀ s b s', (XM.pure a : XM α) s = .ok (b, s') → s'.log = s.log := by
  intro s b s' h; simp only [XM.pure] at h; cases h; rfl
theorem silent_lift {α} (r : Res α) : ∀ s b s', XM.lift r s = .ok (b, s') → s'.log = s.log := by
  intro s b s' h; cases r <;> simp only [XM.lift] at h <;> cases h; rfl
theorem silent_fail {α} (r : Res Unit) : ∀ s b s', (XM.fail r : XM α) s = .ok (b, s') → s'.log = s.log := by
  intro s b s' h; cases r <;> simp only [XM.fail] at h <;> cases h
theorem silent_xget (x : XLoc) : ∀ s b s', xget x s = .ok (b, s') → s'.log = s.log := by
  intro s b s' h; simp only [xget] at h; split at h <;> cases h; rfl
theorem silent_logLen : ∀ s b s', logLen s = .ok (b, s') → s'.log = s.log := by
  intro s b s' h; simp only [logLen] at h; cases h; rfl
theorem silent_checkHeld (x : XLoc) (n : Nat) : ∀ s b s', checkHeld x n s = .ok (b, s') → s'.log = s.log := by
  intro s b s' h; simp only [checkHeld] at h; split at h <;> cases h; rfl
theorem silent_xendStatement : ∀ s b s', xendStatement s = .ok (b, s') → s'.log = s.log := by
  intro s b s' h; simp only [xendStatement] at h; cases h; rfl
theorem silent_xalloc (v : Val) : ∀ s b s', xalloc v s = .ok (b, s') → s'.log = s.log := by
  intro s b s' h; simp only [xalloc] at h; cases h; rfl
theorem silent_xlval1 (v : Val) (a : XLoc) : ∀ s b s', xlval1 v a s = .ok (b, s') → s'.log = s.log := by
  intro s b s' h
  simp only [xlval1] at h
  split at h
  · split at h
    · exact silent_xalloc v s b s' h
    · split at h <;> cases h; rfl
  · cases h
theorem silent_xlval2 (v : Val) (a c : XLoc) : ∀ s b s', xlval2 v a c s = .ok (b, s') → s'.log = s.log := by
  intro s b s' h
  simp only [xlval2] at h
  split at h
  · split at h
    · exact silent_xlval1 v c s b s' h
    · split at h <;> cases h; rfl
  · cases h
theorem silent_xplace (p : Place) (v : Val) (x1 x2 : XLoc) : ∀ s b s', xplace p v x1 x2 s = .ok (b, s') → s'.log = s.log := by
  cases p <;> simp only [xplace]
  · exact silent_pure _
  · exact silent_pure _
  · exact silent_xlval1 _ _
  · exact silent_xlval2 _ _ _
theorem silent_takeArg (x : XLoc) : ∀ s b s', takeArg x s = .ok (b, s') → s'.log = s.log := by
  intro s b s' h
  simp only [takeArg] at h
  split at h
  · split at h
    · cases h; rfl
    · split at h <;> cases h; rfl
  · cases h
theorem silent_atResult (x : XLoc) (recv a0 res : Val) : ∀ s b s', atResult x recv a0 res s = .ok (b, s') → s'.log = s.log := by
  unfold atResult
  split
  · exact silent_pure _
  · exact silent_xalloc _
theorem silent_recvCell (r : XExpr) (x : XLoc) : ∀ s b s', recvCell r x s = .ok (b, s') → s'.log = s.log := by
  intro s b s' h
  simp only [recvCell, XM.bind] at h
  cases hg : xget x s with
  | ok p =>
    obtain ⟨c, s1⟩ := p
    rw [hg] at h
    have e1 := silent_xget x s c s1 hg
    simp only at h
    split at h
    · rw [← e1]; exact silent_xalloc _ s1 b s' h
    · rw [← e1]; exact silent_pure _ s1 b s' h
  | err c y => rw [hg] at h; cases h
  | haz y => rw [hg] at h; cases h
  | unmodelled => rw [hg] at h; cases h

theorem logs_wrRecv {A : List Loc} (x : XLoc) (v : Val) (hx : NonTmp x.root → x.root ∈ A) : Logs A (wrRecv x v) := by
  intro s a s' _ h
  simp only [wrRecv] at h
  split at h
  · cases h
    cases hr : x.root with
    | tmp i => exact ⟨[], rfl, fun _ hρ => by cases hρ⟩
    | var i => exact ⟨[.var i], rfl, fun ρ hρ => by simp at hρ; rw [hρ, ← hr]; exact hx (by rw [hr]; trivial)⟩
    | cst i => exact ⟨[.cst i], rfl, fun ρ hρ => by simp at hρ; rw [hρ, ← hr]; exact hx (by rw [hr]; trivial)⟩
  · cases h

theorem logs_finishInPlace {A : List Loc} (x : XLoc) (old res recv' : Val) (b : Bool) (hx : NonTmp x.root → x.root ∈ A) :
    Logs A (finishInPlace x old res recv' b) := by
  unfold finishInPlace
  split
  · exact Logs.silent (silent_xalloc _)
  · exact Logs.bind' (logs_wrRecv x recv' hx) (pres_wrRecv _ _) (fun _ => Logs.silent (silent_pure _))

theorem logs_xsetVar {A : List Loc} (i : Nat) (v : Val) (hi : Loc.var i ∈ A) : Logs A (xsetVar i v) := by
  intro s a s' _ h
  simp only [xsetVar] at h
  split at h
  · cases h; exact ⟨[.var i], rfl, fun ρ hρ => by simp at hρ; rw [hρ]; exact hi⟩
  · cases h

end BlocV.LemmasX

namespace BlocV.LemmasX
open BlocV

/-- `Logs` from one given start state (so that facts about that very state can be used by the continuation) -/
def LogsAt {α} (s : XS) (A : List Loc) (m : XM α) : Prop :=
  FlagInv s.st → ∀ a s', m s = .ok (a, s') → ∃ l, s'.log = l ++ s.log ∧ ∀ ρ ∈ l, ρ ∈ A

theorem LogsAt.of {α} {A : List Loc} {m : XM α} (h : Logs A m) (s : XS) : LogsAt s A m := fun hi a s' hs => h s a s' hi hs
theorem Logs.of_at {α} {A : List Loc} {m : XM α} (h : ∀ s, LogsAt s A m) : Logs A m := fun s a s' hi hs => h s hi a s' hs

theorem LogsAt.mono {α} {s : XS} {A B : List Loc} {m : XM α} (h : ∀ ρ ∈ A, ρ ∈ B) (hm : LogsAt s A m) : LogsAt s B m := by
  intro hi a s' hs
  obtain ⟨l, e, hl⟩ := hm hi a s' hs
  exact ⟨l, e, fun ρ hρ => h ρ (hl ρ hρ)⟩

theorem LogsAt.silent {α} {s : XS} {A : List Loc} {m : XM α} (h : ∀ s a s', m s = .ok (a, s') → s'.log = s.log) : LogsAt s A m :=
  LogsAt.of (Logs.silent h) s

theorem LogsAt.bind {α β} {s : XS} {A : List Loc} {m : XM α} {f : α → XM β} (hm : LogsAt s A m) (hp : Pres m)
    (hf : ∀ a s1, FlagInv s.st → m s = .ok (a, s1) → LogsAt s1 A (f a)) : LogsAt s A (XM.bind m f) := by
  intro hi b s' h
  simp only [XM.bind] at h
  cases hms : m s with
  | ok p =>
    obtain ⟨a, s1⟩ := p
    rw [hms] at h
    obtain ⟨l1, e1, h1⟩ := hm hi a s1 hms
    obtain ⟨l2, e2, h2⟩ := hf a s1 hi hms ((hp s a s1 hi hms).flagInv hi) b s' h
    refine ⟨l2 ++ l1, by rw [e2, e1, List.append_assoc], ?_⟩
    intro ρ hρ
    rcases List.mem_append.mp hρ with h' | h'
    · exact h2 ρ h'
    · exact h1 ρ h'
  | err c x => rw [hms] at h; cases h
  | haz x => rw [hms] at h; cases h
  | unmodelled => rw [hms] at h; cases h

theorem LogsAt.ite {α} {s : XS} {A : List Loc} {c : Prop} [Decidable c] {m1 m2 : XM α} (h1 : LogsAt s A m1) (h2 : LogsAt s A m2) :
    LogsAt s A (if c then m1 else m2) := by split <;> assumption

theorem logs_tabStep {A : List Loc} {ev : XM XLoc} (hev : Logs A ev) (hp : Pres ev) (t : Ty) : ∀ k acc, Logs A (tabStep ev t k acc)
  | 0, acc => by simp only [tabStep]; exact Logs.silent (silent_pure _)
  | k + 1, acc => by
    simp only [tabStep]
    refine Logs.bind' hev hp (fun x => Logs.bind' (Logs.silent (silent_xget x)) (pres_xget x) (fun c => ?_))
    split
    · exact Logs.silent (silent_fail _)
    · exact Logs.bind' (Logs.silent (silent_takeArg x)) (pres_takeArg x) (fun v => logs_tabStep hev hp t k _)

theorem logs_tupStep {A : List Loc} {ev : XExpr → XM XLoc} (hp : ∀ e, Pres (ev e)) :
    ∀ as acc, (∀ a ∈ as, Logs A (ev a)) → Logs A (tupStep ev as acc)
  | [], acc, _ => by simp only [tupStep]; exact Logs.silent (silent_pure _)
  | a :: as, acc, hl => by
    simp only [tupStep]
    refine Logs.bind' (hl a (List.mem_cons_self ..)) (hp a) (fun x => Logs.bind' (Logs.silent (silent_xget x)) (pres_xget x) (fun c => ?_))
    split
    · exact Logs.silent (silent_fail _)
    · split
      · exact Logs.silent (silent_fail _)
      · exact Logs.bind' (Logs.silent (silent_takeArg x)) (pres_takeArg x)
          (fun v => logs_tupStep hp as _ (fun a' ha' => hl a' (List.mem_cons_of_mem _ ha')))

theorem logs_biArgs {A : List Loc} {ev : XExpr → XM XLoc} (hp : ∀ e, Pres (ev e)) :
    ∀ as acc, (∀ a ∈ as, Logs A (ev a)) → Logs A (biArgs ev as acc)
  | [], acc, _ => by simp only [biArgs]; exact Logs.silent (silent_pure _)
  | a :: as, acc, hl => by
    simp only [biArgs]
    refine Logs.bind' (hl a (List.mem_cons_self ..)) (hp a) (fun x => Logs.bind' (Logs.silent silent_logLen) pres_logLen (fun n => ?_))
    exact logs_biArgs hp as _ (fun a' ha' => hl a' (List.mem_cons_of_mem _ ha'))

theorem silent_biHeld : ∀ xn s b s', biHeld xn s = .ok (b, s') → s'.log = s.log
  | [], s, b, s', h => by simp only [biHeld] at h; exact silent_pure _ s b s' h
  | (x, n) :: rest, s, b, s', h => by
    simp only [biHeld, XM.bind] at h
    split at h
    · rename_i u s1 h1
      rw [silent_biHeld rest s1 b s' h, silent_checkHeld x n s u s1 h1]
    all_goals cases h

theorem silent_xgets : ∀ xs s b s', xgets xs s = .ok (b, s') → s'.log = s.log
  | [], s, b, s', h => by simp only [xgets] at h; exact silent_pure _ s b s' h
  | x :: rest, s, b, s', h => by
    simp only [xgets, XM.bind] at h
    split at h
    · rename_i c s1 h1
      split at h
      · rename_i vs s2 h2
        rw [silent_pure _ s2 b s' h, silent_xgets rest s1 vs s2 h2, silent_xget x s c s1 h1]
      all_goals cases h
    all_goals cases h

theorem silent_xplaceBi (p : BiPlace) (v : Val) (xs : List XLoc) : ∀ s b s', xplaceBi p v xs s = .ok (b, s') → s'.log = s.log := by
  unfold xplaceBi
  split
  · exact silent_pure _
  · exact silent_xalloc _
  · exact silent_xlval1 _ _
  · exact silent_xlval2 _ _ _
  · exact silent_fail _

theorem logs_bindArgs {A : List Loc} {ev : XExpr → XM XLoc} (hp : ∀ e, Pres (ev e)) :
    ∀ as k callee, (∀ a ∈ as, Logs A (ev a)) → Logs A (bindArgs ev as k callee)
  | [], k, callee, _ => by simp only [bindArgs]; exact Logs.silent (silent_pure _)
  | a :: as, k, callee, hl => by
    simp only [bindArgs]
    refine Logs.bind' (hl a (List.mem_cons_self ..)) (hp a) (fun x => Logs.bind' (Logs.silent (silent_takeArg x)) (pres_takeArg x) (fun v => ?_))
    split
    · exact logs_bindArgs hp as _ _ (fun a' ha' => hl a' (List.mem_cons_of_mem _ ha'))
    · exact Logs.silent (silent_fail _)

theorem logs_xstoreVar {A : List Loc} (i : Nat) (x : XLoc) (hi : Loc.var i ∈ A) : Logs A (xstoreVar i x) := by
  unfold xstoreVar
  split
  · exact Logs.silent (silent_pure _)
  · exact Logs.bind' (Logs.silent (silent_takeArg x)) (pres_takeArg x) (fun v => logs_xsetVar i v hi)

/-- footprint of a statement list run in its own context: the expressions' footprints and the assignment targets -/
def bodyFp (fp : XExpr → List Loc) : List XStmt → List Loc
  | [] => []
  | .assign i e :: rest => fp e ++ [.var i] ++ bodyFp fp rest
  | .doE e :: rest => fp e ++ bodyFp fp rest
  | .ret e :: rest => fp e ++ bodyFp fp rest

theorem logs_execBody {ev : XExpr → XM XLoc} {fp : XExpr → List Loc} (hp : ∀ e, Pres (ev e)) (hl : ∀ e, Logs (fp e) (ev e)) :
    ∀ body, Logs (bodyFp fp body) (execBody ev body)
  | [] => by simp only [execBody]; exact Logs.silent (silent_pure _)
  | .assign i e :: rest => by
    simp only [execBody, bodyFp]
    refine Logs.bind' (Logs.mono (by intro ρ h; simp [h]) (hl e)) (hp e) (fun x => ?_)
    refine Logs.bind' (logs_xstoreVar i x (by simp)) (pres_xstoreVar i x) (fun _ => ?_)
    refine Logs.bind' (Logs.silent silent_xendStatement) pres_xendStatement (fun _ => ?_)
    exact Logs.mono (by intro ρ h; simp [h]) (logs_execBody hp hl rest)
  | .doE e :: rest => by
    simp only [execBody, bodyFp]
    refine Logs.bind' (Logs.mono (by intro ρ h; simp [h]) (hl e)) (hp e) (fun x => ?_)
    refine Logs.bind' (Logs.silent silent_xendStatement) pres_xendStatement (fun _ => ?_)
    exact Logs.mono (by intro ρ h; simp [h]) (logs_execBody hp hl rest)
  | .ret e :: rest => by
    simp only [execBody, bodyFp]
    refine Logs.bind' (Logs.mono (by intro ρ h; simp [h]) (hl e)) (hp e) (fun x => ?_)
    exact Logs.bind' (Logs.silent (silent_takeArg x)) (pres_takeArg x) (fun v => Logs.silent (silent_pure _))

/-- the constant nodes of a body footprint are those of its expressions (assignment targets are variables) -/
theorem bodyFp_cst (fp : XExpr → List Loc) : ∀ body ρ, ρ ∈ bodyFp fp body → ρ.isCst = true →
    ρ ∈ ((stmtExprs body).map (fun p => fp p.2)).flatten
  | [], ρ, h, _ => by simp [bodyFp] at h
  | .assign i e :: rest, ρ, h, hc => by
    simp only [bodyFp, List.mem_append, List.mem_singleton] at h
    simp only [stmtExprs, List.map_cons, List.flatten_cons, List.mem_append]
    rcases h with (h | h) | h
    · exact Or.inl h
    · rw [h] at hc; simp [Loc.isCst] at hc
    · exact Or.inr (bodyFp_cst fp rest ρ h hc)
  | .doE e :: rest, ρ, h, hc => by
    simp only [bodyFp, List.mem_append] at h
    simp only [stmtExprs, List.map_cons, List.flatten_cons, List.mem_append]
    rcases h with h | h
    · exact Or.inl h
    · exact Or.inr (bodyFp_cst fp rest ρ h hc)
  | .ret e :: rest, ρ, h, hc => by
    simp only [bodyFp, List.mem_append] at h
    simp only [stmtExprs, List.map_cons, List.flatten_cons, List.mem_append]
    rcases h with h | h
    · exact Or.inl h
    · exact Or.inr (bodyFp_cst fp rest ρ h hc)

theorem logs_inCallee {α} {A B : List Loc} {m : XM α} (hm : Logs B m) (callee : Store) (hf : VarsFlagged callee)
    (hsub : ∀ ρ ∈ B, ρ.isCst = true → ρ ∈ A) : Logs A (inCallee callee m) := by
  intro s a s' hi h
  simp only [inCallee] at h
  cases hms : m { st := { callee with csts := s.st.csts }, log := [] } with
  | ok p =>
    obtain ⟨a0, s0⟩ := p
    rw [hms] at h
    simp only at h
    cases h
    have hi0 : FlagInv ({ st := { callee with csts := s.st.csts }, log := [] } : XS).st := ⟨hf, hi.2⟩
    obtain ⟨l, e, hl⟩ := hm _ _ _ hi0 hms
    refine ⟨s0.log.filter Loc.isCst, rfl, ?_⟩
    intro ρ hρ
    obtain ⟨h1, h2⟩ := List.mem_filter.mp hρ
    simp only [List.append_nil] at e
    rw [e] at h1
    exact hsub ρ (hl ρ h1) h2
  | err c x => rw [hms] at h; cases h
  | haz x => rw [hms] at h; cases h
  | unmodelled => rw [hms] at h; cases h

theorem Logs.bind_silent {α β} {A : List Loc} {m : XM α} {f : α → XM β} (hs : ∀ s a s', m s = .ok (a, s') → s'.log = s.log)
    (hp : Pres m) (hf : ∀ a, Logs A (f a)) : Logs A (XM.bind m f) := Logs.bind' (Logs.silent hs) hp hf

end BlocV.LemmasX
