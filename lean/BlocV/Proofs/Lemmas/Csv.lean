/-
  Helper lemmas for the csv half of C18 (BlocV/Proofs/C18.lean holds the property theorems).

  1. `serialize` in closed form (`serF`, `joinTail`).
  2. A byte-at-a-time automaton `step` (the lookahead of `scan` becomes the `pending` flag) and the
     proof that `scan` is that automaton (`scan_eq_run`).
  3. Per-field behaviour of the automaton on serialized text, and a monitor `mon` saying "no error,
     and every LF is consumed inside an encapsulated field".
  4. The first-flag-insensitive simulation `R` used for the line-wise theorem.
-/
import BlocV.Model.Mod.Csv
import BlocV.Spec.Csv

namespace BlocV.Mod.Csv

/-! ### 1. serialize in closed form -/

/-- Encapsulator doubling. -/
def esc (cfg : Cfg) : Field → Field
  | [] => []
  | c :: cs => if c = cfg.enc then cfg.enc :: cfg.enc :: esc cfg cs else c :: esc cfg cs

def special (cfg : Cfg) (c : UInt8) : Bool := c = cfg.enc ∨ c = cfg.sep ∨ c = CR ∨ c = LF

def needs (cfg : Cfg) (f : Field) : Bool := f.any (special cfg)

/-- The text of one field. -/
def serF (cfg : Cfg) (f : Field) : List UInt8 :=
  if needs cfg f then cfg.enc :: (esc cfg f ++ [cfg.enc]) else f

def joinTail (cfg : Cfg) : Row → List UInt8
  | [] => []
  | f :: fs => cfg.sep :: (serF cfg f ++ joinTail cfg fs)

theorem esc_of_not_needs (cfg : Cfg) (f : Field) (h : needs cfg f = false) : esc cfg f = f := by
  induction f with
  | nil => rfl
  | cons c cs ih =>
    simp only [needs, List.any_cons, Bool.or_eq_false_iff] at h
    have hc : c ≠ cfg.enc := by
      intro e; have := h.1; simp [special, e] at this
    simp only [esc, hc, if_false]
    rw [ih (by simpa [needs] using h.2)]

theorem serField_eq (cfg : Cfg) (f : Field) (e : Bool) (t : Field) :
    serField cfg f e t = (e || needs cfg f, t ++ esc cfg f) := by
  induction f generalizing e t with
  | nil => simp [serField, needs, esc]
  | cons c cs ih =>
    unfold serField
    by_cases h1 : c = cfg.enc
    · simp [h1, ih, needs, special, esc]
    · by_cases h2 : c = cfg.sep ∨ c = CR ∨ c = LF
      · simp only [h1, if_false, h2, if_true, ih]
        have : special cfg c = true := by simp [special, h2]
        simp [needs, this, esc, h1]
      · simp only [h1, if_false, h2, ih]
        have : special cfg c = false := by simp [special, h1, h2]
        simp [needs, this, esc, h1]

theorem serRow_false (cfg : Cfg) (row : Row) (out : List UInt8) :
    serRow cfg row false out = out ++ joinTail cfg row := by
  induction row generalizing out with
  | nil => simp [serRow, joinTail]
  | cons f fs ih =>
    simp only [serRow, serField_eq, Bool.false_or, List.nil_append, Bool.false_eq_true, if_false, joinTail]
    rw [ih]
    by_cases h : needs cfg f
    · simp [serF, h]
    · simp [serF, h, esc_of_not_needs cfg f (by simpa using h)]

theorem serialize_cons (cfg : Cfg) (f : Field) (fs : Row) :
    serialize cfg (f :: fs) = serF cfg f ++ joinTail cfg fs := by
  simp only [serialize, serRow, serField_eq, Bool.false_or, List.nil_append, if_true]
  rw [serRow_false]
  by_cases h : needs cfg f
  · simp [serF, h]
  · simp [serF, h, esc_of_not_needs cfg f (by simpa using h)]

theorem serialize_nil (cfg : Cfg) : serialize cfg [] = [] := rfl


/-! ### 2. The byte-at-a-time automaton -/

/-- Scanner state without the position, plus `pending` = "an encapsulator was just read inside an
encapsulated field; whether it closes the field depends on the next byte". -/
structure A where
  out : Row
  value : Field
  first : Bool
  encap : Bool
  skipping : Bool
  pending : Bool
  error : Bool
  deriving DecidableEq, Repr

def norm (cfg : Cfg) (a : A) (c : UInt8) : A :=
  if a.skipping ∧ c ≠ cfg.sep then a
  else
    if c = cfg.enc then
      if a.encap then { a with skipping := false, pending := true }
      else if !a.first then
        if stripTrailingSpaces a.value ≠ [] then
          { a with skipping := false, value := stripTrailingSpaces a.value, error := true }
        else { a with skipping := false, value := stripTrailingSpaces a.value, encap := true }
      else { a with skipping := false, encap := true }
    else if c = cfg.sep ∧ !a.encap then
      { a with skipping := false, out := a.out ++ [a.value], value := [], first := true }
    else
      { a with skipping := false, first := false,
               value := if a.encap ∨ (c ≠ LF ∧ c ≠ CR) then a.value ++ [c] else a.value }

def step (cfg : Cfg) (a : A) (c : UInt8) : A :=
  if a.error then a
  else if a.pending then
    if c = cfg.enc then { a with value := a.value ++ [c], pending := false }
    else norm cfg { a with encap := false, skipping := true, pending := false } c
  else norm cfg a c

def run (cfg : Cfg) (a : A) (s : List UInt8) : A := s.foldl (step cfg) a

/-- End of the chunk: a pending encapsulator closes the field (`pos == line.end()`). -/
def fin (a : A) : A :=
  if a.pending ∧ !a.error then { a with encap := false, skipping := true, pending := false } else a

def toA (st : St) : A :=
  { out := st.out, value := st.value, first := st.first, encap := st.encap, skipping := st.skipping,
    pending := false, error := st.error }

@[simp] theorem run_nil (cfg : Cfg) (a : A) : run cfg a [] = a := rfl
@[simp] theorem run_cons (cfg : Cfg) (a : A) (c : UInt8) (s : List UInt8) :
    run cfg a (c :: s) = run cfg (step cfg a c) s := rfl
theorem run_append (cfg : Cfg) (a : A) (s t : List UInt8) :
    run cfg a (s ++ t) = run cfg (run cfg a s) t := by simp [run, List.foldl_append]

theorem run_error (cfg : Cfg) (a : A) (s : List UInt8) (h : a.error = true) : run cfg a s = a := by
  induction s with
  | nil => rfl
  | cons c cs ih => simp [step, h, ih]

/-- `scan` is the automaton. -/
theorem scan_eq_run (cfg : Cfg) (s : List UInt8) (st : St) (h : st.error = false) :
    toA (scan cfg s st) = fin (run cfg (toA st) s) := by
  fun_induction scan cfg s st with
  | case1 st => simp [toA, fin, h]
  | case2 c cs st hsk ih =>
    have hs : step cfg (toA st) c = toA { st with pos := st.pos + 1 } := by
      simp [step, norm, toA, h, hsk]
    rw [run_cons, hs]; exact ih h
  | case3 st st1 hen ds hns ih =>
    have hen' : st.encap = true := hen
    have hs : step cfg (step cfg (toA st) cfg.enc) cfg.enc
        = toA { st1 with value := st1.value ++ [cfg.enc], pos := st1.pos + 2 } := by
      simp [step, norm, toA, h, hen', hns, st1]
    rw [run_cons, run_cons, hs]; exact ih h
  | case4 st st1 hen d ds hd hns ih =>
    have hen' : st.encap = true := hen
    have hs : step cfg (step cfg (toA st) cfg.enc) d
        = step cfg (toA { st1 with encap := false, skipping := true, pos := st1.pos + 1 }) d := by
      simp [step, norm, toA, h, hen', hns, hd, st1]
    rw [run_cons, run_cons, hs, ← run_cons]; exact ih h
  | case5 st st1 hen hns =>
    have hen' : st.encap = true := hen
    simp [step, norm, toA, h, hen', hns, fin, st1]
  | case6 cs st st1 hen hf v hv hns =>
    have hen' : st.encap = false := by simpa [st1] using hen
    have hf' : st.first = false := by simpa [st1] using hf
    have hv' : stripTrailingSpaces st.value ≠ [] := hv
    have hs : step cfg (toA st) cfg.enc
        = { toA st with skipping := false, value := stripTrailingSpaces st.value, error := true } := by
      simp [step, norm, toA, h, hen', hns, hf', hv']
    rw [run_cons, hs, run_error _ _ _ rfl]
    simp [toA, fin, v, st1]
  | case7 cs st st1 hen hf v hv hns ih =>
    have hen' : st.encap = false := by simpa [st1] using hen
    have hf' : st.first = false := by simpa [st1] using hf
    have hv' : stripTrailingSpaces st.value = [] := by simpa [v, st1] using hv
    have hs : step cfg (toA st) cfg.enc
        = toA { st1 with value := v, encap := true, pos := st1.pos + 1 } := by
      simp [step, norm, toA, h, hen', hns, hf', hv', v, st1]
    rw [run_cons, hs]; exact ih h
  | case8 cs st st1 hen hf hns ih =>
    have hen' : st.encap = false := by simpa [st1] using hen
    have hf' : st.first = true := by simpa [st1] using hf
    have hs : step cfg (toA st) cfg.enc = toA { st1 with encap := true, pos := st1.pos + 1 } := by
      simp [step, norm, toA, h, hen', hns, hf', st1]
    rw [run_cons, hs]; exact ih h
  | case9 c cs st hns st1 hc hsep ih =>
    have hen' : st.encap = false := by simpa [st1] using hsep.2
    have hs : step cfg (toA st) c
        = toA { st1 with out := st1.out ++ [st1.value], value := [], first := true, pos := st1.pos + 1 } := by
      have hse : ¬ cfg.sep = cfg.enc := by rw [← hsep.1]; exact hc
      simp [step, norm, toA, h, hen', hse, hsep.1, st1]
    rw [run_cons, hs]; exact ih h
  | case10 c cs st hns st1 hc hsep value ih =>
    have hs : step cfg (toA st) c
        = toA { st1 with first := false, value := value, pos := st1.pos + 1 } := by
      have hsep' : ¬(c = cfg.sep ∧ st.encap = false) := by simpa [st1] using hsep
      simp [step, norm, toA, h, hns, hc, hsep', st1, value]
    rw [run_cons, hs]; exact ih h

/-! ### 3. The automaton on serialized text; the monitor -/

def clean (o : Row) : A := ⟨o, [], true, false, false, false, false⟩

/-- No error, and every LF is consumed inside an encapsulated field. -/
def mon (cfg : Cfg) : A → List UInt8 → Prop
  | _, [] => True
  | a, c :: cs =>
    (step cfg a c).error = false ∧
    (c = LF → (step cfg a c).encap = true ∧ (step cfg a c).skipping = false ∧ (step cfg a c).pending = false) ∧
    mon cfg (step cfg a c) cs

theorem mon_cons (cfg : Cfg) (a : A) (c : UInt8) (cs : List UInt8) :
    mon cfg a (c :: cs) ↔ ((step cfg a c).error = false ∧
      (c = LF → (step cfg a c).encap = true ∧ (step cfg a c).skipping = false ∧ (step cfg a c).pending = false) ∧
      mon cfg (step cfg a c) cs) := Iff.rfl

theorem mon_append (cfg : Cfg) (a : A) (s t : List UInt8) :
    mon cfg a (s ++ t) ↔ mon cfg a s ∧ mon cfg (run cfg a s) t := by
  induction s generalizing a with
  | nil => simp [mon]
  | cons c cs ih => simp [mon, ih, and_assoc]

theorem special_false {cfg : Cfg} {c : UInt8} (h : special cfg c = false) :
    c ≠ cfg.enc ∧ c ≠ cfg.sep ∧ c ≠ CR ∧ c ≠ LF := by
  simpa [special, not_or] using h

theorem run_plain (cfg : Cfg) (f : Field) (hf : needs cfg f = false) (o : Row) (v : Field) (fst : Bool) :
    ∃ fst', run cfg ⟨o, v, fst, false, false, false, false⟩ f = ⟨o, v ++ f, fst', false, false, false, false⟩
      ∧ mon cfg ⟨o, v, fst, false, false, false, false⟩ f := by
  induction f generalizing v fst with
  | nil => exact ⟨fst, by simp, trivial⟩
  | cons c cs ih =>
    simp only [needs, List.any_cons, Bool.or_eq_false_iff] at hf
    obtain ⟨h1, h2, h3, h4⟩ := special_false hf.1
    have hs : step cfg ⟨o, v, fst, false, false, false, false⟩ c = ⟨o, v ++ [c], false, false, false, false, false⟩ := by
      simp [step, norm, h1, h2, h3, h4]
    obtain ⟨fst', hr, hm⟩ := ih (by simpa [needs] using hf.2) (v ++ [c]) false
    refine ⟨fst', ?_, ?_⟩
    · rw [run_cons, hs, hr]; simp
    · rw [mon_cons, hs]; exact ⟨rfl, fun h => absurd h h4, hm⟩

theorem run_esc (cfg : Cfg) (f : Field) (o : Row) (v : Field) (fst : Bool) :
    ∃ fst', run cfg ⟨o, v, fst, true, false, false, false⟩ (esc cfg f) = ⟨o, v ++ f, fst', true, false, false, false⟩
      ∧ (cfg.enc ≠ LF → mon cfg ⟨o, v, fst, true, false, false, false⟩ (esc cfg f)) := by
  induction f generalizing v fst with
  | nil => exact ⟨fst, by simp [esc], fun _ => trivial⟩
  | cons c cs ih =>
    by_cases hc : c = cfg.enc
    · have hs1 : step cfg ⟨o, v, fst, true, false, false, false⟩ cfg.enc = ⟨o, v, fst, true, false, true, false⟩ := by
        simp [step, norm]
      have hs2 : step cfg ⟨o, v, fst, true, false, true, false⟩ cfg.enc = ⟨o, v ++ [cfg.enc], fst, true, false, false, false⟩ := by
        simp [step]
      obtain ⟨fst', hr, hm⟩ := ih (v ++ [cfg.enc]) fst
      refine ⟨fst', ?_, ?_⟩
      · simp only [esc, hc, if_true, run_cons, hs1, hs2, hr]; simp
      · intro hl
        simp only [esc, hc, if_true]
        rw [mon_cons, hs1, mon_cons, hs2]
        exact ⟨rfl, fun h => absurd h hl, rfl, fun h => absurd h hl, hm hl⟩
    · have hs : step cfg ⟨o, v, fst, true, false, false, false⟩ c = ⟨o, v ++ [c], false, true, false, false, false⟩ := by
        simp [step, norm, hc]
      obtain ⟨fst', hr, hm⟩ := ih (v ++ [c]) false
      refine ⟨fst', ?_, ?_⟩
      · simp only [esc, hc, if_false, run_cons, hs, hr]; simp
      · intro hl
        simp only [esc, hc, if_false]
        rw [mon_cons, hs]
        exact ⟨rfl, fun _ => ⟨rfl, rfl, rfl⟩, hm hl⟩

/-- One field followed by a separator leaves the automaton in the clean state, with the field stored. -/
theorem run_field_sep (cfg : Cfg) (hne : cfg.sep ≠ cfg.enc) (f : Field) (o : Row) :
    run cfg (clean o) (serF cfg f ++ [cfg.sep]) = clean (o ++ [f])
      ∧ (cfg.enc ≠ LF → cfg.sep ≠ LF → mon cfg (clean o) (serF cfg f ++ [cfg.sep])) := by
  by_cases hn : needs cfg f
  · obtain ⟨fst', hr, hm⟩ := run_esc cfg f o [] true
    have hs0 : step cfg (clean o) cfg.enc = ⟨o, [], true, true, false, false, false⟩ := by
      simp [step, norm, clean]
    have hs1 : step cfg ⟨o, [] ++ f, fst', true, false, false, false⟩ cfg.enc = ⟨o, f, fst', true, false, true, false⟩ := by
      simp [step, norm]
    have hs2 : step cfg ⟨o, f, fst', true, false, true, false⟩ cfg.sep = clean (o ++ [f]) := by
      simp [step, norm, hne, clean]
    have hser : serF cfg f ++ [cfg.sep] = cfg.enc :: (esc cfg f ++ (cfg.enc :: [cfg.sep])) := by
      simp [serF, hn]
    rw [hser]
    refine ⟨?_, ?_⟩
    · rw [run_cons, hs0, run_append, hr, run_cons, hs1, run_cons, hs2, run_nil]
    · intro hl hsl
      rw [mon_cons, hs0, mon_append, hr, mon_cons, hs1, mon_cons, hs2]
      exact ⟨rfl, fun h => absurd h hl, hm hl, rfl, fun h => absurd h hl, rfl, fun h => absurd h hsl, trivial⟩
  · have hn' : needs cfg f = false := by simpa using hn
    obtain ⟨fst', hr, hm⟩ := run_plain cfg f hn' o [] true
    have hs : step cfg ⟨o, [] ++ f, fst', false, false, false, false⟩ cfg.sep = clean (o ++ [f]) := by
      simp [step, norm, hne, clean]
    have hser : serF cfg f = f := by simp [serF, hn']
    rw [hser]
    refine ⟨?_, ?_⟩
    · rw [run_append]; unfold clean at *; rw [hr, run_cons, hs, run_nil]
    · intro hl hsl
      rw [mon_append]; unfold clean at *; rw [hr, mon_cons, hs]
      exact ⟨hm, rfl, fun h => absurd h hsl, trivial⟩

/-- What the client sees at the end of a chunk. -/
def callOfA (a : A) : Option (Bool × Row) := if a.error then none else some (a.encap, a.out ++ [a.value])

/-- The last field of a record. -/
theorem run_field_end (cfg : Cfg) (f : Field) (o : Row) :
    callOfA (fin (run cfg (clean o) (serF cfg f))) = some (false, o ++ [f])
      ∧ (cfg.enc ≠ LF → mon cfg (clean o) (serF cfg f)) := by
  by_cases hn : needs cfg f
  · obtain ⟨fst', hr, hm⟩ := run_esc cfg f o [] true
    have hs0 : step cfg (clean o) cfg.enc = ⟨o, [], true, true, false, false, false⟩ := by
      simp [step, norm, clean]
    have hs1 : step cfg ⟨o, [] ++ f, fst', true, false, false, false⟩ cfg.enc = ⟨o, f, fst', true, false, true, false⟩ := by
      simp [step, norm]
    have hser : serF cfg f = cfg.enc :: (esc cfg f ++ [cfg.enc]) := by simp [serF, hn]
    rw [hser]
    refine ⟨?_, ?_⟩
    · rw [run_cons, hs0, run_append, hr, run_cons, hs1, run_nil]; simp [fin, callOfA]
    · intro hl
      rw [mon_cons, hs0, mon_append, hr, mon_cons, hs1]
      exact ⟨rfl, fun h => absurd h hl, hm hl, rfl, fun h => absurd h hl, trivial⟩
  · have hn' : needs cfg f = false := by simpa using hn
    obtain ⟨fst', hr, hm⟩ := run_plain cfg f hn' o [] true
    have hser : serF cfg f = f := by simp [serF, hn']
    rw [hser]; unfold clean
    refine ⟨?_, fun _ => hm⟩
    rw [hr]; simp [fin, callOfA]

/-- A whole record. -/
theorem run_row (cfg : Cfg) (hne : cfg.sep ≠ cfg.enc) (fs : Row) (f : Field) (o : Row) :
    callOfA (fin (run cfg (clean o) (serF cfg f ++ joinTail cfg fs))) = some (false, o ++ f :: fs)
      ∧ (cfg.enc ≠ LF → cfg.sep ≠ LF → mon cfg (clean o) (serF cfg f ++ joinTail cfg fs)) := by
  induction fs generalizing f o with
  | nil => simpa [joinTail] using And.intro (run_field_end cfg f o).1 (fun hl _ => (run_field_end cfg f o).2 hl)
  | cons g gs ih =>
    have hsplit : serF cfg f ++ joinTail cfg (g :: gs) = (serF cfg f ++ [cfg.sep]) ++ (serF cfg g ++ joinTail cfg gs) := by
      simp [joinTail]
    obtain ⟨h1, h2⟩ := run_field_sep cfg hne f o
    obtain ⟨h3, h4⟩ := ih g (o ++ [f])
    rw [hsplit]
    refine ⟨?_, ?_⟩
    · rw [run_append, h1, h3]; simp
    · intro hl hsl
      rw [mon_append, h1]; exact ⟨h2 hl hsl, h4 hl hsl⟩

/-! ### 4. Model calls in terms of the automaton; the line-wise simulation -/

theorem finish_toCall (st : St) : (finish {} st).toCall = callOfA (toA st) := by
  unfold finish callOfA
  by_cases h : st.error <;> simp [h, Outcome.toCall, toA]

theorem callFirst_eq (cfg : Cfg) (l : List UInt8) (hl : l ≠ []) :
    callFirst cfg l = callOfA (fin (run cfg (clean []) l)) := by
  cases l with
  | nil => exact absurd rfl hl
  | cons x xs =>
    simp only [callFirst, deserialize, deserializeChunk, Bool.false_eq_true, false_and, if_false]
    rw [finish_toCall, scan_eq_run _ _ _ rfl]; rfl

theorem callFirst_nil (cfg : Cfg) : callFirst cfg [] = some (false, []) := by
  simp [callFirst, deserialize, deserializeChunk, Outcome.toCall]

/-- The state `deserialize_next` rebuilds from the field vector. -/
def resume (t : A) : A := ⟨t.out, t.value, true, true, false, false, false⟩

theorem callNext_eq (cfg : Cfg) (t : A) (l : List UInt8) (hl : l ≠ []) :
    callNext cfg (t.out ++ [t.value]) l = callOfA (fin (run cfg (resume t) l)) := by
  cases l with
  | nil => exact absurd rfl hl
  | cons x xs =>
    have hne : t.out ++ [t.value] ≠ [] := by simp
    simp only [callNext, deserializeNext, deserializeChunk, hne, ne_eq, not_false_eq_true, and_self, if_true,
      List.getLast?_append, List.getLast?_singleton, Option.some_or, List.dropLast_concat]
    rw [finish_toCall, scan_eq_run _ _ _ rfl]; rfl

/-- Equal up to `first`, which may differ while it cannot be read (inside an encapsulated field or
while skipping to the separator). -/
def R (a a' : A) : Prop :=
  a.out = a'.out ∧ a.value = a'.value ∧ a.encap = a'.encap ∧ a.skipping = a'.skipping ∧
  a.pending = a'.pending ∧ a.error = a'.error ∧ (a.first = a'.first ∨ a.encap = true ∨ a.skipping = true)

theorem R_refl (a : A) : R a a := ⟨rfl, rfl, rfl, rfl, rfl, rfl, Or.inl rfl⟩

theorem R_step (cfg : Cfg) (hne : cfg.sep ≠ cfg.enc) (a a' : A) (c : UInt8) (h : R a a') :
    R (step cfg a c) (step cfg a' c) := by
  obtain ⟨o, v, f, e, sk, p, er⟩ := a
  obtain ⟨o', v', f', e', sk', p', er'⟩ := a'
  obtain ⟨h1, h2, h3, h4, h5, h6, h7⟩ := h
  simp only at h1 h2 h3 h4 h5 h6 h7
  subst h1 h2 h3 h4 h5 h6
  have hne' : ¬ cfg.enc = cfg.sep := fun h => hne h.symm
  by_cases hc1 : c = cfg.enc <;> by_cases hc2 : c = cfg.sep <;>
    cases er <;> cases p <;> cases e <;> cases sk <;> cases f <;> cases f' <;>
    simp_all [R, step, norm] <;> (try split) <;> simp_all

theorem callOfA_fin_R (a a' : A) (h : R a a') : callOfA (fin a') = callOfA (fin a) := by
  obtain ⟨o, v, f, e, sk, p, er⟩ := a
  obtain ⟨o', v', f', e', sk', p', er'⟩ := a'
  obtain ⟨h1, h2, h3, h4, h5, h6, _⟩ := h
  simp only at h1 h2 h3 h4 h5 h6
  subst h1 h2 h3 h4 h5 h6
  cases p <;> cases er <;> simp [fin, callOfA]

open BlocV.Spec.Csv in
theorem splitAfterLF_eq_nil (s : List UInt8) (h : splitAfterLF s = []) : s = [] := by
  cases s with
  | nil => rfl
  | cons c cs =>
    unfold splitAfterLF at h
    split at h
    · simp at h
    · split at h <;> simp at h

open BlocV.Spec.Csv in
theorem splitAfterLF_head_ne_nil (s : List UInt8) (l : List UInt8) (ls : List (List UInt8))
    (h : splitAfterLF s = l :: ls) : l ≠ [] := by
  cases s with
  | nil => simp [splitAfterLF] at h
  | cons c cs =>
    unfold splitAfterLF at h
    split at h
    · simp at h; rw [← h.1]; simp
    · split at h <;> (simp at h; rw [← h.1]; simp)

open BlocV.Spec.Csv in
theorem feedMore_nil (next : Row → List UInt8 → Call) (r : Call) : feedMore next r [] = (r, []) := by
  unfold feedMore
  split
  · rename_i h; simp at h
  · rfl

open BlocV.Spec.Csv in
/-- Feeding the lines of `s` one by one — restarting from the field vector after every line — ends in
the same result as scanning `s` in one piece, provided every LF of `s` lies inside an encapsulated
field (`mon`). -/
theorem feed_lines (cfg : Cfg) (hne : cfg.sep ≠ cfg.enc) (s : List UInt8) :
    ∀ (a a' : A), R a a' → mon cfg a s → ∀ l1 ls, splitAfterLF s = l1 :: ls →
      feedMore (callNext cfg) (callOfA (fin (run cfg a' l1))) ls = (callOfA (fin (run cfg a s)), []) := by
  induction s with
  | nil => intro a a' _ _ l1 ls h; simp [splitAfterLF] at h
  | cons c cs ih =>
    intro a a' hR hm l1 ls hsp
    rw [mon_cons] at hm
    obtain ⟨herr, hlf, hmon⟩ := hm
    have hR' := R_step cfg hne a a' c hR
    by_cases hc : c = 0x0a
    · have hsp' : [c] :: splitAfterLF cs = l1 :: ls := by
        rw [← hsp]; simp [splitAfterLF, hc]
      simp only [List.cons.injEq] at hsp'
      obtain ⟨hl1, hls⟩ := hsp'
      subst hl1 hls
      obtain ⟨hen, hsk, hpe⟩ := hlf hc
      cases hcs : splitAfterLF cs with
      | nil =>
        have := splitAfterLF_eq_nil cs hcs
        subst this
        simp only [run_cons, run_nil, feedMore_nil]
        rw [callOfA_fin_R _ _ hR']
      | cons l2 ls2 =>
        have hl2 := splitAfterLF_head_ne_nil cs l2 ls2 hcs
        obtain ⟨r1, r2, r3, r4, r5, r6, _⟩ := hR'
        have hfin : fin (step cfg a' c) = step cfg a' c := by
          simp [fin, ← r5, hpe]
        have hcall : callOfA (step cfg a' c) = some (true, (step cfg a' c).out ++ [(step cfg a' c).value]) := by
          simp [callOfA, ← r6, herr, ← r3, hen]
        simp only [run_cons, run_nil]
        rw [hfin, hcall]
        simp only [feedMore]
        rw [callNext_eq cfg _ l2 hl2]
        have hRr : R (step cfg a c) (resume (step cfg a' c)) := by
          refine ⟨r1, r2, hen, hsk, hpe, herr, Or.inr (Or.inl hen)⟩
        exact ih (step cfg a c) (resume (step cfg a' c)) hRr hmon l2 ls2 hcs
    · cases hcs : splitAfterLF cs with
      | nil =>
        have := splitAfterLF_eq_nil cs hcs
        subst this
        have hsp' : [[c]] = l1 :: ls := by rw [← hsp]; simp [splitAfterLF, hc]
        simp only [List.cons.injEq] at hsp'
        obtain ⟨hl1, hls⟩ := hsp'
        subst hl1 hls
        simp only [run_cons, run_nil, feedMore_nil]
        rw [callOfA_fin_R _ _ hR']
      | cons l ls' =>
        have hsp' : (c :: l) :: ls' = l1 :: ls := by rw [← hsp]; simp [splitAfterLF, hc, hcs]
        simp only [List.cons.injEq] at hsp'
        obtain ⟨hl1, hls⟩ := hsp'
        subst hl1 hls
        simp only [run_cons]
        exact ih (step cfg a c) (step cfg a' c) hR' hmon l ls' hcs

theorem ser_ne_nil (cfg : Cfg) (f : Field) (fs : Row) (h : f :: fs ≠ [[]]) :
    serF cfg f ++ joinTail cfg fs ≠ [] := by
  intro he
  simp only [List.append_eq_nil_iff] at he
  obtain ⟨h1, h2⟩ := he
  cases fs with
  | cons g gs => simp [joinTail] at h2
  | nil =>
    apply h
    by_cases hn : needs cfg f
    · simp [serF, hn] at h1
    · simp [serF, hn] at h1; simp [h1]

/-! ### the scanner does not look at the fields already completed (used for the plugin glue, which hands only the last field over) -/

def addPre (pre : Row) (st : St) : St := { st with out := pre ++ st.out }

theorem scan_addPre (cfg : Cfg) (pre : Row) : ∀ (n : Nat) (l : List UInt8), l.length ≤ n → ∀ (st : St),
    scan cfg l (addPre pre st) = addPre pre (scan cfg l st) := by
  intro n
  induction n with
  | zero =>
    intro l hl st
    have : l = [] := List.eq_nil_of_length_eq_zero (by omega)
    subst this; simp [scan]
  | succ n ih =>
    intro l hl st
    match l, hl with
    | [], _ => simp [scan]
    | c :: cs, hl =>
      have ih1 : ∀ st, scan cfg cs (addPre pre st) = addPre pre (scan cfg cs st) := ih cs (by simp at hl; omega)
      unfold scan
      have e1 : (addPre pre st).skipping = st.skipping := rfl
      have e2 : (addPre pre st).encap = st.encap := rfl
      have e3 : (addPre pre st).first = st.first := rfl
      have e4 : (addPre pre st).value = st.value := rfl
      simp only [e1, e2, e3, e4]
      split
      · exact ih1 { st with pos := st.pos + 1 }
      · split
        · split
          · match cs, hl, ih1 with
            | [], _, _ => rfl
            | d :: ds, hl, ih1 =>
              have ih2 : ∀ st, scan cfg ds (addPre pre st) = addPre pre (scan cfg ds st) := ih ds (by simp at hl; omega)
              simp only []
              split
              · exact ih2 { st with skipping := false, value := st.value ++ [d], pos := st.pos + 2 }
              · exact ih1 { st with skipping := true, encap := false, pos := st.pos + 1 }
          · split
            · split
              · rfl
              · exact ih1 { st with skipping := false, value := stripTrailingSpaces st.value, encap := true, pos := st.pos + 1 }
            · exact ih1 { st with skipping := false, encap := true, pos := st.pos + 1 }
        · split
          · have := ih1 { st with skipping := false, out := st.out ++ [st.value], value := [], first := true, pos := st.pos + 1 }
            simp only [addPre, List.append_assoc] at this ⊢
            exact this
          · exact ih1 { st with skipping := false, first := false,
                                value := if st.encap ∨ (c ≠ LF ∧ c ≠ CR) then st.value ++ [c] else st.value, pos := st.pos + 1 }


end BlocV.Mod.Csv
