/-
  Helper lemmas for C01 (whole programs): the syntactic side conditions (`litE` … : literals are well-formed values; `FuncsOk`), and
  the loop runners `whileLoop` / `forLoop` / `forallLoop` under the invariant `Inv L`.
  (Helper lemmas only — the property theorems are in BlocV/Proofs/C01.lean.)
-/
import BlocV.Proofs.Lemmas.NoHazardState
namespace BlocV.NHI
open BlocV BlocV.Lemmas
variable {bad : Hazard → Bool}

/-! ## literals of a program -/

mutual
  /-- every literal of the expression is a deep-well-formed value (the elaborator produces scalars and typed nulls only); with
  `sub = false` moreover: no call of `substr` / `subraw` (the two built-ins whose index arithmetic keeps a hazard in the model) -/
  def litE (sub : Bool) : Expr → Bool
    | .lit v => okVal v
    | .var _ => true
    | .errorE => true
    | .un _ a => litE sub a
    | .bin _ a b => litE sub a && litE sub b
    | .call name args => (sub || (name != "substr" && name != "subraw")) && litEs sub args
    | .fcall _ args => litEs sub args
    | .member _ recv args => litE sub recv && litEs sub args
    | .item e _ => litE sub e
  def litEs (sub : Bool) : List Expr → Bool
    | [] => true
    | a :: as => litE sub a && litEs sub as
end

mutual
  def litS (sub : Bool) : Stmt → Bool
    | .letS _ e => litE sub e
    | .doS e => litE sub e
    | .printS es => litEs sub es
    | .ifS rules => litRules sub rules
    | .whileS c body => litE sub c && litL sub body
    | .forS _ b e st _ body => litE sub b && litE sub e && (match st with | some x => litE sub x | none => true) && litL sub body
    | .forallS _ src _ body => litE sub src && litL sub body
    | .beginS body catches => litL sub body && litCatches sub catches
    | .returnS (some e) => litE sub e
    | .returnS none => true
    | .nop => true
    | .raiseS _ => true
    | .breakS => true
    | .continueS => true
    | .funcS _ _ _ body catches => litL sub body && litCatches sub catches      -- wherever the declaration stands
  def litL (sub : Bool) : List Stmt → Bool
    | [] => true
    | s :: rest => litS sub s && litL sub rest
  def litRules (sub : Bool) : List (Option Expr × List Stmt) → Bool
    | [] => true
    | (c, body) :: rest => (match c with | some x => litE sub x | none => true) && litL sub body && litRules sub rest
  def litCatches (sub : Bool) : List (String × List Stmt) → Bool
    | [] => true
    | (_, body) :: rest => litL sub body && litCatches sub rest
end

variable {sub : Bool}

theorem litEs_mem : ∀ (args : List Expr), litEs sub args = true → ∀ a ∈ args, litE sub a = true
  | [], _, a, ha => by cases ha
  | x :: xs, h, a, ha => by
    have h' : litE sub x = true ∧ litEs sub xs = true := by simpa [litEs] using h
    rcases List.mem_cons.mp ha with rfl | hm
    · exact h'.1
    · exact litEs_mem xs h'.2 a hm

theorem litCatches_find (p : String × List Stmt → Bool) : ∀ (cs : List (String × List Stmt)) (n : String) (h : List Stmt),
    litCatches sub cs = true → cs.find? p = some (n, h) → litL sub h = true
  | [], _, _, _, hf => by cases hf
  | (m, b) :: rest, n, h, hl, hf => by
    have hl' : litL sub b = true ∧ litCatches sub rest = true := by simpa [litCatches] using hl
    rw [List.find?_cons] at hf
    split at hf
    · cases hf; exact hl'.1
    · exact litCatches_find p rest n h hl'.2 hf

/-- what the parser guarantees of every function of the table: the body was compiled in its own context (nothing locked there) -/
def FuncsOk (sub : Bool) (funcs : List Func) : Prop :=
  ∀ f ∈ funcs, lockL [] f.body = true ∧ lockCatches [] f.catches = true ∧ litL sub f.body = true ∧ litCatches sub f.catches = true

/-! ## the loop runners -/

theorem whileLoop_nh {I : St → Prop} (cond : EvalM Val) (body : EvalM Flow) (hc : NH bad I okV cond) (hb : NH bad I (fun _ => True) body) :
    ∀ k, NH bad I (fun _ => True) (whileLoop cond body k) := by
  intro k
  induction k with
  | zero => exact NH.oof
  | succ k ih =>
    unfold whileLoop
    refine NH.bind hc (fun v hv => ?_)
    have hl : ((if v.isNull then Res.ok false else v.asBool) : Res Bool).isHazard = false := by
      split
      · rfl
      · rename_i hn; exact asBool_no_hazard (tabOk_of_okVal hv) (nn_of_not hn)
    refine NH.bind_lift (nb_of_nh hl) (fun t _ => ?_)
    split
    · exact NH.pure trivial
    · refine NH.bind hb (fun fl _ => ?_)
      split
      · exact ih
      · exact ih
      · exact NH.pure trivial
      · exact NH.pure trivial

theorem forLoop_nh {L : List String} (body : EvalM Flow) (v : String) (hv : v ∉ L) (mn mx step : Int64)
    (hb : NH bad (Inv L) (fun _ => True) body) : ∀ k, NH bad (Inv L) (fun _ => True) (forLoop body v mn mx step k) := by
  intro k
  induction k with
  | zero => exact NH.oof
  | succ k ih =>
    unfold forLoop
    refine NH.bind hb (fun fl _ => ?_)
    split
    · exact NH.pure trivial
    · exact NH.pure trivial
    all_goals
      refine NH.bind NH.getSt (fun s hs => ?_)
      have hl : ((if (lookupVar s.vars v).isNull then Res.err Gen.EXC_RT_NOT_INTEGER else (lookupVar s.vars v).asInt) : Res Int64).isHazard = false := by
        split
        · rfl
        · rename_i hn; exact asInt_no_hazard (tabOk_of_okVal (okVal_lookupVar hs.1 v)) (nn_of_not hn)
      refine NH.bind_lift (nb_of_nh hl) (fun cur _ => ?_)
      dsimp only
      split
      · exact NH.pure trivial
      · refine NH.bind (NH.modifySt (fun st hst => hst.setVar_unlocked v _ (okVal_int _) hv)) (fun _ _ => ih)

theorem forallNext_lt (desc : Bool) (i n j : Nat) (h : forallNext desc i n = some j) : j < n := by
  unfold forallNext at h
  repeat' (split at h)
  all_goals first
    | (cases h; assumption)
    | cases h

/-- `getSt >>= f` run from a state: `f` gets that very state -/
theorem NH.getSt_bind {I : St → Prop} {β} {Q : β → Prop} {f : St → EvalM β}
    (h : ∀ s, I s → nb bad (f s s).1 ∧ I (f s s).2 ∧ ∀ a, (f s s).1 = .ok a → Q a) : NH bad I Q (BlocV.getSt >>= f) := fun s hs => h s hs

theorem Inv.setIdx {L : List String} {s : St} (h : Inv L s) (b : Iter) (rest : List Iter) (hit : s.iters = b :: rest) (j : Nat)
    (hj : j < tableSize (s.iterTable b)) : Inv L { s with iters := { b with idx := j } :: rest } := by
  obtain ⟨⟨h1, h2, h3, h4, h5⟩, h6⟩ := h
  unfold SrcIn at h6
  rw [hit] at h3 h4 h5 h6
  refine ⟨⟨h1, h2, ?_, ?_, ?_⟩, ?_⟩
  · intro x hx
    rcases List.mem_cons.mp hx with rfl | hx
    · exact h3 b (List.mem_cons_self ..)
    · exact h3 x (List.mem_cons_of_mem _ hx)
  · intro x hx
    rcases List.mem_cons.mp hx with rfl | hx
    · exact hj
    · exact h4 x (List.mem_cons_of_mem _ hx)
  · simpa using h5
  · intro x hx t ht
    rcases List.mem_cons.mp hx with rfl | hx
    · exact h6 b (List.mem_cons_self ..) t ht
    · exact h6 x (List.mem_cons_of_mem _ hx) t ht

theorem forallLoop_nh {L : List String} (body : EvalM Flow) (it : String) (desc : Bool)
    (hb : NH bad (Inv L) (fun _ => True) body) : ∀ k, NH bad (Inv L) (fun _ => True) (forallLoop body it desc k) := by
  intro k
  induction k with
  | zero => exact NH.oof
  | succ k ih =>
    unfold forallLoop
    refine NH.bind hb (fun fl _ => ?_)
    split
    · exact NH.pure trivial
    · exact NH.pure trivial
    all_goals
      refine NH.getSt_bind (fun s hs => ?_)
      cases hit : s.iters with
      | nil => exact ⟨nb_triv (fun _ e => by cases e), hs, fun _ _ => trivial⟩
      | cons b rest =>
        dsimp only
        split
        · exact ⟨nb_triv (fun _ e => by cases e), hs, fun _ _ => trivial⟩
        · cases hn : forallNext desc b.idx (tableSize (s.iterTable b)) with
          | none => exact ⟨nb_triv (fun _ e => by cases e), hs, fun _ _ => trivial⟩
          | some j =>
            exact ih _ (hs.setIdx b rest hit j (forallNext_lt _ _ _ _ hn))
end BlocV.NHI
