/-
  Helper lemmas about the variable store of the interpreter model (lookupVar / setVar).
-/
import BlocV.Model.Interp

namespace BlocV.Lemmas
open BlocV

theorem find_map_set (vars : List (String × Val)) (n : String) (v : Val) (h : vars.any (·.1 == n) = true) :
    (vars.map fun p => if p.1 == n then (n, v) else p).find? (·.1 == n) = some (n, v) := by
  induction vars with
  | nil => simp at h
  | cons p ps ih =>
    simp only [List.map, List.find?]
    by_cases hp : (p.1 == n) = true
    · simp [hp]
    · have hp' : (p.1 == n) = false := by simpa using hp
      simp only [hp', Bool.false_eq_true, if_false]
      have : ps.any (·.1 == n) = true := by
        simp only [List.any_cons, hp', Bool.false_or] at h
        exact h
      exact ih this

theorem find_append_none (vars : List (String × Val)) (n : String) (v : Val) (h : vars.any (·.1 == n) = false) :
    (vars ++ [(n, v)]).find? (·.1 == n) = some (n, v) := by
  induction vars with
  | nil => simp
  | cons p ps ih =>
    simp only [List.any_cons, Bool.or_eq_false_iff] at h
    simp only [List.cons_append, List.find?, h.1]
    exact ih h.2

/-- Reading a variable right after assigning it gives the assigned value. -/
theorem lookup_setVar (vars : List (String × Val)) (n : String) (v : Val) :
    lookupVar (setVar vars n v) n = v := by
  unfold lookupVar setVar
  by_cases h : vars.any (·.1 == n) = true
  · simp only [h, if_true]
    rw [find_map_set vars n v h]
  · have h' : vars.any (·.1 == n) = false := by
      cases hb : vars.any (·.1 == n)
      · rfl
      · exact absurd hb h
    simp only [h', Bool.false_eq_true, if_false]
    rw [find_append_none vars n v h']

end BlocV.Lemmas
