/-
  Helper lemmas about the variable store of the interpreter model (lookupVar / setVar).
-/
import BlocV.Model.Interp

namespace BlocV.Lemmas
open BlocV

theorem find_map_set (vars : List (String × Val)) (n : String) (v : Val) (h : vars.any (·.1 == n) = true) :
    (vars.map fun p => if p.1 == n then (n, v) else p).find? (·.1 == n) = some (n, v) := by
  induction vars with
  | nil => simp at h
  | cons p ps ih =>
    simp only [List.map, List.find?]
    by_cases hp : (p.1 == n) = true
    · simp [hp]
    · have hp' : (p.1 == n) = false := by simpa using hp
      simp only [hp', Bool.false_eq_true, if_false]
      have : ps.any (·.1 == n) = true := by
        simp only [List.any_cons, hp', Bool.false_or] at h
        exact h
      exact ih this

theorem find_append_none (vars : List (String × Val)) (n : String) (v : Val) (h : vars.any (·.1 == n) = false) :
    (vars ++ [(n, v)]).find? (·.1 == n) = some (n, v) := by
  induction vars with
  | nil => simp
  | cons p ps ih =>
    simp only [List.any_cons, Bool.or_eq_false_iff] at h
    simp only [List.cons_append, List.find?, h.1]
    exact ih h.2

/-- Reading a variable right after assigning it gives the assigned value. -/
theorem lookup_setVar (vars : List (String × Val)) (n : String) (v : Val) :
    lookupVar (setVar vars n v) n = v := by
  unfold lookupVar setVar
  by_cases h : vars.any (·.1 == n) = true
  · simp only [h, if_true]
    rw [find_map_set vars n v h]
  · have h' : vars.any (·.1 == n) = false := by
      cases hb : vars.any (·.1 == n)
      · rfl
      · exact absurd hb h
    simp only [h', Bool.false_eq_true, if_false]
    rw [find_append_none vars n v h']


/-- Assigning one variable does not change what another one holds. -/
theorem lookup_setVar_ne (vars : List (String × Val)) (n m : String) (v : Val) (h : m ≠ n) :
    lookupVar (setVar vars m v) n = lookupVar vars n := by
  have hmn : (m == n) = false := by simpa using h
  unfold lookupVar setVar
  cases ha : vars.any (·.1 == m)
  case true =>
    simp only [if_true]
    have : (vars.map fun p => if p.1 == m then (m, v) else p).find? (·.1 == n) = vars.find? (·.1 == n) := by
      clear ha
      induction vars with
      | nil => rfl
      | cons p ps ih =>
        simp only [List.map_cons, List.find?_cons]
        by_cases hp : (p.1 == m) = true
        · have hpn : (p.1 == n) = false := by
            have : p.1 = m := by simpa using hp
            rw [this]; exact hmn
          simp only [hp, if_true, hmn, hpn]
          exact ih
        · have hp' : (p.1 == m) = false := by simpa using hp
          simp only [hp', Bool.false_eq_true, if_false]
          cases hq : (p.1 == n)
          · exact ih
          · rfl
    rw [this]
  case false =>
    simp only [Bool.false_eq_true, if_false, List.find?_append]
    cases hq : vars.find? (·.1 == n) with
    | some x => simp
    | none => simp [List.find?, hmn]

/-- The parameter binding loop of `createEnv` does not touch the non-parameter symbols. -/
theorem lookup_bind_other (binds : List (String × Val)) (n : String) (hn : n ∉ binds.map (·.1)) :
    ∀ vars, lookupVar (binds.foldl (fun vs (p : String × Val) => setVar vs p.1 p.2) vars) n = lookupVar vars n := by
  induction binds with
  | nil => intro vars; rfl
  | cons b bs ih =>
    intro vars
    simp only [List.map_cons, List.mem_cons, not_or] at hn
    simp only [List.foldl_cons]
    rw [ih hn.2, lookup_setVar_ne _ _ _ _ (fun e => hn.1 e.symm)]

/-- A variable list that holds only nulls yields only nulls. -/
theorem lookup_nulls_isNull (decls : List (String × Ty)) (n : String) :
    (lookupVar (decls.map fun (p : String × Ty) => (p.1, Val.null p.2)) n).isNull = true := by
  unfold lookupVar
  cases h : (decls.map fun (p : String × Ty) => (p.1, Val.null p.2)).find? (·.1 == n) with
  | none => rfl
  | some x =>
    have := List.mem_of_find?_eq_some h
    simp only [List.mem_map] at this
    obtain ⟨p, _, rfl⟩ := this
    rfl
/-- The parameter binding loop of `createEnv` binds every parameter to its own argument when the parameter names are distinct. -/
theorem lookup_bind_mem (binds : List (String × Val)) (hnd : (binds.map (·.1)).Nodup) :
    ∀ (vars : List (String × Val)) (p : String × Val), p ∈ binds →
      lookupVar (binds.foldl (fun vs (p : String × Val) => setVar vs p.1 p.2) vars) p.1 = p.2 := by
  induction binds with
  | nil => intro vars p hp; cases hp
  | cons b bs ih =>
    intro vars p hp
    simp only [List.map_cons, List.nodup_cons] at hnd
    simp only [List.foldl_cons]
    rcases List.mem_cons.mp hp with rfl | hp'
    · rw [lookup_bind_other bs p.1 hnd.1, lookup_setVar]
    · exact ih hnd.2 _ p hp'
end BlocV.Lemmas
