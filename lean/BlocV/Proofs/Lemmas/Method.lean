/-
  Helper lemmas for Proofs/C17.lean, part M (modules, constructor failures, method calls): the event log of the handle
  model only grows, a `create` event exists for every object, a `destroy` event only for an object whose counter was
  deleted; every recorded method call found its receiver created, not destroyed, and of the method's module.
-/
import BlocV.Model.Plugin
import BlocV.Proofs.Lemmas.Handle

set_option linter.unusedSimpArgs false
set_option linter.unusedVariables false

namespace BlocV.Proofs.Method
open BlocV.Plugin BlocV.Plugin.H BlocV.Plugin.S BlocV.Plugin.M BlocV.Proofs.Handle

/-- What the event log says about the objects. -/
structure LogOk (h : HState) : Prop where
  created : ∀ o, o < h.nobj → Ev.create o ∈ h.log
  createdOnly : ∀ o, Ev.create o ∈ h.log → o < h.nobj
  destroyed : ∀ o, Ev.destroy o ∈ h.log → h.freed o = true ∧ o < h.nobj
  destroyedAll : ∀ o, o < h.nobj → h.freed o = true → Ev.destroy o ∈ h.log
  destroyCount : ∀ o, o < h.nobj → h.log.count (Ev.destroy o) = h.destroyed o

theorem logOk_init : LogOk HState.init :=
  ⟨fun o h => by simp [HState.init] at h, fun o h => by simp [HState.init] at h, fun o h => by simp [HState.init] at h,
   fun o h => by simp [HState.init] at h, fun o h => by simp [HState.init] at h⟩

/-- how one store-level step may change the log / the number of objects -/
structure Grows (h h' : HState) : Prop where
  log : ∃ ex, h'.log = h.log ++ ex
  nobj : h'.nobj = h.nobj

theorem Grows.refl (h : HState) : Grows h h := ⟨⟨[], by simp⟩, rfl⟩

theorem Grows.trans {a b c : HState} (h1 : Grows a b) (h2 : Grows b c) : Grows a c := by
  obtain ⟨e1, he1⟩ := h1.log
  obtain ⟨e2, he2⟩ := h2.log
  exact ⟨⟨e1 ++ e2, by rw [he2, he1, List.append_assoc]⟩, by rw [h2.nobj, h1.nobj]⟩

theorem new_log {s s' : HState} (hl : LogOk s) (h : step s .new = .ok s') :
    LogOk s' ∧ s'.log = s.log ++ [.create s.nobj] ∧ s'.nobj = s.nobj + 1 := by
  simp only [step] at h
  injection h with h; subst h
  refine ⟨⟨?_, ?_, ?_, ?_, ?_⟩, rfl, rfl⟩
  · intro o ho
    simp only at ho ⊢
    by_cases he : o = s.nobj
    · subst he; simp
    · exact List.mem_append_left _ (hl.created o (by omega))
  · intro o hm
    simp only [List.mem_append, List.mem_singleton] at hm ⊢
    rcases hm with hm | hm
    · have := hl.createdOnly o hm; omega
    · injection hm with hm; omega
  · intro o hm
    simp only [List.mem_append, List.mem_singleton] at hm
    rcases hm with hm | hm
    · obtain ⟨h1, h2⟩ := hl.destroyed o hm
      refine ⟨?_, by simp only; omega⟩
      simp only [upd]
      have : o ≠ s.nobj := by omega
      simp [this, h1]
    · cases hm
  · intro o ho hf
    simp only [upd] at hf
    simp only at ho
    by_cases he : o = s.nobj
    · subst he; simp at hf
    · simp only [he, ↓reduceIte] at hf
      exact List.mem_append_left _ (hl.destroyedAll o (by omega) hf)
  · intro o ho
    simp only at ho
    simp only [List.count_append, upd]
    have h0 : List.count (Ev.destroy o) [Ev.create s.nobj] = 0 := by simp
    rw [h0, Nat.add_zero]
    by_cases he : o = s.nobj
    · subst he
      simp only [↓reduceIte]
      apply List.count_eq_zero.mpr
      intro hm
      have := (hl.destroyed _ hm).2
      omega
    · simp only [he, ↓reduceIte]
      exact hl.destroyCount o (by omega)

theorem copy_log {s s' : HState} {i : Nat} (hl : LogOk s) (h : step s (.copy i) = .ok s') : LogOk s' ∧ Grows s s' := by
  simp only [step] at h
  split at h
  · unfold acquire at h
    split at h
    · cases h
    · injection h with h; subst h
      exact ⟨⟨hl.created, hl.createdOnly, hl.destroyed, hl.destroyedAll, hl.destroyCount⟩, ⟨[], by simp⟩, rfl⟩
  · cases h
  · cases h

theorem dtor_log {s s' : HState} {i : Nat} (hinv : Inv s) (hl : LogOk s) (h : step s (.dtor i) = .ok s') :
    LogOk s' ∧ Grows s s' := by
  simp only [step] at h
  split at h
  · rename_i s1 hd
    injection h with h; subst h
    unfold drop at hd
    split at hd
    · rename_i o hs
      have hob : o < s.nobj := hinv.bound o (by rw [← getElem_of_some hs]; exact List.getElem_mem _)
      split at hd
      · cases hd
      · split at hd
        · injection hd with hd; subst hd
          refine ⟨⟨?_, ?_, ?_, ?_, ?_⟩, ⟨[.destroy o], rfl⟩, rfl⟩
          · intro o' ho'; exact List.mem_append_left _ (hl.created o' ho')
          · intro o' hm
            simp only [List.mem_append, List.mem_singleton] at hm
            rcases hm with hm | hm
            · exact hl.createdOnly o' hm
            · cases hm
          · intro o' hm
            simp only [List.mem_append, List.mem_singleton] at hm
            rcases hm with hm | hm
            · obtain ⟨h1, h2⟩ := hl.destroyed o' hm
              refine ⟨?_, h2⟩
              simp only [upd]; split <;> simp [h1]
            · injection hm with hm; subst hm
              exact ⟨by simp [upd], hob⟩
          · intro o' ho' hf
            simp only [upd] at hf
            by_cases he : o' = o
            · subst he; simp
            · simp only [he, ↓reduceIte] at hf
              exact List.mem_append_left _ (hl.destroyedAll o' ho' hf)
          · intro o' ho'
            simp only [List.count_append, upd]
            by_cases he : o' = o
            · subst he
              simp only [↓reduceIte, List.count_singleton_self]
              rw [hl.destroyCount o' ho']
            · have h0 : List.count (Ev.destroy o') [Ev.destroy o] = 0 := by
                apply List.count_eq_zero.mpr; simp; exact he
              simp only [he, ↓reduceIte, h0, Nat.add_zero]
              exact hl.destroyCount o' ho'
        · injection hd with hd; subst hd
          exact ⟨⟨hl.created, hl.createdOnly, hl.destroyed, hl.destroyedAll, hl.destroyCount⟩, ⟨[], by simp⟩, rfl⟩
    · cases hd
    · cases hd
  · cases h

theorem destructWhere_log (p : Nat → Bool) (owner : List Nat) :
    ∀ (n : Nat) (h h' : HState), Inv h → LogOk h → S.destructWhere p owner n h = .ok h' → Inv h' ∧ LogOk h' ∧ Grows h h' := by
  intro n
  induction n with
  | zero =>
    intro h h' hi hl he
    simp only [S.destructWhere] at he; injection he with he; subst he
    exact ⟨hi, hl, Grows.refl _⟩
  | succ k ih =>
    intro h h' hi hl he
    simp only [S.destructWhere] at he
    split at he
    · cases he
    · rename_i h1 h1eq
      obtain ⟨hi1, hl1, hg1⟩ := ih h h1 hi hl h1eq
      split at he
      · split at he
        · obtain ⟨hl2, hg2⟩ := dtor_log hi1 hl1 he
          exact ⟨(step_spec hi1 _ he).1, hl2, hg1.trans hg2⟩
        · injection he with he; subst he; exact ⟨hi1, hl1, hg1⟩
      · injection he with he; subst he; exact ⟨hi1, hl1, hg1⟩

/-- a store-level operation other than a construction: the log grows, no object appears -/
theorem sstep_log {s s' : SState} (hi : Inv s.h) (hl : LogOk s.h) (op : SOp) (hnc : isConstruct op = false)
    (h : sstep s op = .ok s') : Inv s'.h ∧ LogOk s'.h ∧ Grows s.h s'.h := by
  cases op with
  | newCtx => simp only [sstep] at h; injection h with h; subst h; exact ⟨hi, hl, Grows.refl _⟩
  | childCtx k =>
    simp only [sstep] at h
    split at h
    · injection h with h; subst h; exact ⟨hi, hl, Grows.refl _⟩
    · cases h
  | construct k => simp [isConstruct] at hnc
  | clone i k =>
    simp only [sstep] at h
    split at h
    · split at h
      · rename_i h1 he; injection h with h; subst h
        obtain ⟨a, b⟩ := copy_log hl he
        exact ⟨(step_spec hi _ he).1, a, b⟩
      · cases h
    · cases h
  | clear i =>
    simp only [sstep] at h
    split at h
    · rename_i h1 he; injection h with h; subst h
      obtain ⟨a, b⟩ := dtor_log hi hl he
      exact ⟨(step_spec hi _ he).1, a, b⟩
    · cases h
  | give i k =>
    simp only [sstep] at h
    split at h
    · injection h with h; subst h; exact ⟨hi, hl, Grows.refl _⟩
    · cases h
  | release k =>
    simp only [sstep] at h
    split at h
    · split at h
      · rename_i h1 he; injection h with h; subst h
        exact destructWhere_log _ _ _ _ _ hi hl he
      · cases h
    · cases h

theorem construct_log {s s' : SState} (hi : Inv s.h) (hl : LogOk s.h) {k : Nat} (h : sstep s (.construct k) = .ok s') :
    Inv s'.h ∧ LogOk s'.h ∧ s'.h.log = s.h.log ++ [.create s.h.nobj] ∧ s'.h.nobj = s.h.nobj + 1 := by
  simp only [sstep] at h
  split at h
  · split at h
    · rename_i h1 he; injection h with h; subst h
      obtain ⟨a, b, c⟩ := new_log hl he
      exact ⟨(step_spec hi _ he).1, a, b, c⟩
    · cases h
  · cases h

/-- What a recorded call claims. -/
def CallOk (s : MState) (c : Call) : Prop :=
  c.pos ≤ s.s.h.log.length ∧ Ev.create c.o ∈ s.s.h.log.take c.pos ∧ Ev.destroy c.o ∉ s.s.h.log.take c.pos ∧
  s.modOf[c.o]? = some c.m

/-- The invariant of part M. -/
structure MInv (s : MState) : Prop where
  inv : Inv s.s.h
  log : LogOk s.s.h
  mods : s.modOf.length = s.s.h.nobj
  calls : ∀ c ∈ s.calls, CallOk s c

theorem minv_init : MInv MState.init :=
  ⟨init_inv, logOk_init, rfl, fun c hc => by simp [MState.init] at hc⟩

theorem callOk_mono {s s' : MState} {c : Call} (hc : CallOk s c) (hlog : ∃ ex, s'.s.h.log = s.s.h.log ++ ex)
    (hmod : ∃ ex, s'.modOf = s.modOf ++ ex) : CallOk s' c := by
  obtain ⟨ex, he⟩ := hlog
  obtain ⟨mx, hm⟩ := hmod
  obtain ⟨h1, h2, h3, h4⟩ := hc
  have ht : (s'.s.h.log).take c.pos = (s.s.h.log).take c.pos := by
    rw [he]; exact List.take_append_of_le_length h1
  refine ⟨by rw [he, List.length_append]; omega, by rw [ht]; exact h2, by rw [ht]; exact h3, ?_⟩
  rw [hm]
  have hlt : c.o < s.modOf.length := by
    rcases Nat.lt_or_ge c.o s.modOf.length with h | h
    · exact h
    · rw [List.getElem?_eq_none h] at h4; cases h4
  rw [List.getElem?_append_left hlt]; exact h4

theorem mstepLoaded_inv {s s' : MState} (hm : MInv s) (op : MOp) (h : mstepLoaded s op = .ok s') : MInv s' := by
  cases op with
  | deinit =>
    simp only [mstepLoaded] at h; injection h with h; subst h
    exact ⟨hm.inv, hm.log, hm.mods, fun c hc => callOk_mono (hm.calls c hc) ⟨[], by simp⟩ ⟨[], by simp⟩⟩
  | store op =>
    simp only [mstepLoaded] at h
    split at h
    · cases h
    · rename_i hnc
      split at h
      · rename_i s1 hs
        injection h with h; subst h
        obtain ⟨a, b, g⟩ := sstep_log hm.inv hm.log op (by simpa using hnc) hs
        exact ⟨a, b, by simp only; rw [g.nobj]; exact hm.mods,
          fun c hc => callOk_mono (hm.calls c hc) g.log ⟨[], by simp⟩⟩
      · cases h
  | construct k m =>
    simp only [mstepLoaded] at h
    split at h
    · rename_i s1 hs
      injection h with h; subst h
      obtain ⟨a, b, g, n⟩ := construct_log hm.inv hm.log hs
      exact ⟨a, b, by simp only [List.length_append, List.length_singleton]; rw [n, hm.mods],
        fun c hc => callOk_mono (hm.calls c hc) ⟨_, g⟩ ⟨[m], rfl⟩⟩
    · cases h
  | constructFail k m =>
    simp only [mstepLoaded] at h
    split at h
    · injection h with h; subst h
      exact ⟨hm.inv, hm.log, hm.mods, fun c hc => callOk_mono (hm.calls c hc) ⟨[], by simp⟩ ⟨[], by simp⟩⟩
    · cases h
  | method i m name args =>
    simp only [mstepLoaded] at h
    split at h
    · rename_i o hl
      split at h
      · rename_i hmod
        injection h with h; subst h
        refine ⟨hm.inv, hm.log, hm.mods, ?_⟩
        intro c hc
        simp only [List.mem_append, List.mem_singleton] at hc
        rcases hc with hc | hc
        · exact callOk_mono (hm.calls c hc) ⟨[], by simp⟩ ⟨[], by simp⟩
        · subst hc
          have hs := (liveSlot_some hl).1
          have hmem : Slot.ref o ∈ s.s.h.slots := by rw [← getElem_of_some hs]; exact List.getElem_mem _
          have hob := hm.inv.bound o hmem
          refine ⟨Nat.le_refl _, ?_, ?_, by simpa using hmod⟩
          · simp only [List.take_length]; exact hm.log.created o hob
          · simp only [List.take_length]
            intro hd
            have hf := (hm.log.destroyed o hd).1
            have := (hm.inv.dead o hob hf).1
            have hpos : 0 < refs s.s.h o := List.count_pos_iff.mpr hmem
            omega
      · injection h with h; subst h
        exact ⟨hm.inv, hm.log, hm.mods, fun c hc => callOk_mono (hm.calls c hc) ⟨[], by simp⟩ ⟨[], by simp⟩⟩
    · cases h
    · cases h

theorem mstepUnloaded_inv {s s' : MState} (hm : MInv s) (op : MOp) (h : mstepUnloaded s op = .ok s') : MInv s' := by
  have keep : ∀ {t : MState}, t.s = s.s → t.modOf = s.modOf → t.calls = s.calls → MInv t := by
    intro t h1 h2 h3
    refine ⟨h1 ▸ hm.inv, h1 ▸ hm.log, by rw [h1, h2]; exact hm.mods, ?_⟩
    intro c hc
    rw [h3] at hc
    exact callOk_mono (hm.calls c hc) ⟨[], by simp [h1]⟩ ⟨[], by simp [h2]⟩
  cases op with
  | deinit => simp only [mstepUnloaded] at h; injection h with h; subst h; exact hm
  | store op =>
    simp only [mstepUnloaded] at h
    split at h
    · cases h
    · rename_i hnc
      split at h
      · rename_i s1 hs
        split at h
        · injection h with h; subst h
          obtain ⟨a, b, g⟩ := sstep_log hm.inv hm.log op (by simpa using hnc) hs
          exact ⟨a, b, by simp only; rw [g.nobj]; exact hm.mods,
            fun c hc => callOk_mono (hm.calls c hc) g.log ⟨[], by simp⟩⟩
        · cases h
      · cases h
  | construct k m =>
    simp only [mstepUnloaded] at h
    split at h
    · injection h with h; subst h; exact keep rfl rfl rfl
    · cases h
  | constructFail k m =>
    simp only [mstepUnloaded] at h
    split at h
    · injection h with h; subst h; exact keep rfl rfl rfl
    · cases h
  | method i m name args =>
    simp only [mstepUnloaded] at h
    split at h
    · split at h
      · cases h
      · injection h with h; subst h; exact keep rfl rfl rfl
    · cases h
    · cases h

theorem mstep_inv {s s' : MState} (hm : MInv s) (op : MOp) (h : mstep s op = .ok s') : MInv s' := by
  unfold mstep at h
  split at h
  · exact mstepUnloaded_inv hm op h
  · exact mstepLoaded_inv hm op h

theorem mrun_inv {ops : List MOp} {s s' : MState} (hm : MInv s) (h : mrun s ops = .ok s') : MInv s' := by
  induction ops generalizing s with
  | nil => simp only [mrun] at h; injection h with h; subst h; exact hm
  | cons op rest ih =>
    simp only [mrun] at h
    split at h
    · rename_i s1 h1; exact ih (mstep_inv hm op h1) h
    · cases h

/-- while the modules are loaded an `MOp` is exactly the store operations `toS` lists -/
theorem mstepLoaded_sstep {s s' : MState} (op : MOp) (h : mstepLoaded s op = .ok s') : srun s.s (toS op) = .ok s'.s := by
  cases op with
  | deinit => simp only [mstepLoaded] at h; injection h with h; subst h; simp [toS, srun]
  | store op =>
    simp only [mstepLoaded] at h
    split at h
    · cases h
    · split at h
      · rename_i s1 hs; injection h with h; subst h; simp [toS, srun, hs]
      · cases h
  | construct k m =>
    simp only [mstepLoaded] at h
    split at h
    · rename_i s1 hs; injection h with h; subst h; simp [toS, srun, hs]
    · cases h
  | constructFail k m =>
    simp only [mstepLoaded] at h
    split at h
    · injection h with h; subst h; simp [toS, srun]
    · cases h
  | method i m name args =>
    simp only [mstepLoaded] at h
    split at h
    · split at h <;> (injection h with h; subst h; simp [toS, srun])
    · cases h
    · cases h

/-- **M refines S**, one step: whatever a module-level operation does to the store is at most one store-level operation -/
theorem mstep_sstep {s s' : MState} (op : MOp) (h : mstep s op = .ok s') : ∃ sops, srun s.s sops = .ok s'.s := by
  unfold mstep at h
  split at h
  · cases op with
    | deinit => simp only [mstepUnloaded] at h; injection h with h; subst h; exact ⟨[], rfl⟩
    | store op =>
      simp only [mstepUnloaded] at h
      split at h
      · cases h
      · split at h
        · rename_i s1 hs
          split at h
          · injection h with h; subst h; exact ⟨[op], by simp [srun, hs]⟩
          · cases h
        · cases h
    | construct k m =>
      simp only [mstepUnloaded] at h
      split at h
      · injection h with h; subst h; exact ⟨[], rfl⟩
      · cases h
    | constructFail k m =>
      simp only [mstepUnloaded] at h
      split at h
      · injection h with h; subst h; exact ⟨[], rfl⟩
      · cases h
    | method i m name args =>
      simp only [mstepUnloaded] at h
      split at h
      · split at h
        · cases h
        · injection h with h; subst h; exact ⟨[], rfl⟩
      · cases h
      · cases h
  · exact ⟨toS op, mstepLoaded_sstep op h⟩

theorem srun_append {s s1 s2 : SState} {a b : List SOp} (h1 : srun s a = .ok s1) (h2 : srun s1 b = .ok s2) :
    srun s (a ++ b) = .ok s2 := by
  induction a generalizing s with
  | nil => simp only [srun] at h1; injection h1 with h1; subst h1; simpa using h2
  | cons op rest ih =>
    simp only [srun, List.cons_append] at h1 ⊢
    cases hs : sstep s op with
    | ok s' => rw [hs] at h1; exact ih h1
    | error e => rw [hs] at h1; cases h1

theorem mrun_srun {ops : List MOp} {s s' : MState} (h : mrun s ops = .ok s') : ∃ sops, srun s.s sops = .ok s'.s := by
  induction ops generalizing s with
  | nil => simp only [mrun] at h; injection h with h; subst h; exact ⟨[], rfl⟩
  | cons op rest ih =>
    simp only [mrun] at h
    split at h
    · rename_i s1 h1
      obtain ⟨a, ha⟩ := mstep_sstep op h1
      obtain ⟨b, hb⟩ := ih h
      exact ⟨a ++ b, srun_append ha hb⟩
    · cases h

/-! ### after `bloc_deinit_plugins`, with no handle left -/

theorem liveSlot_quiescent {h : HState} (hq : quiescent h = true) (i : Nat) : liveSlot h i = none := by
  cases hr : h.slots[i]? with
  | none => simp [liveSlot, hr]
  | some c =>
    have hm : c ∈ h.slots := List.mem_of_getElem? hr
    simp only [quiescent, List.all_eq_true] at hq
    have hc := hq c hm
    have : c = Slot.gone := by simpa using hc
    subst this
    simp [liveSlot, hr]

theorem destructWhere_quiescent (p : Nat → Bool) (owner : List Nat) {h : HState} (hq : quiescent h = true) :
    ∀ n, S.destructWhere p owner n h = .ok h := by
  intro n
  induction n with
  | zero => rfl
  | succ k ih =>
    simp only [S.destructWhere, ih, liveSlot_quiescent hq]
    split
    · rename_i h1 h2; cases h2
    · rfl

/-- with no handle left a store-level operation (not a construction) either is malformed or leaves the handle state as it is -/
theorem sstep_quiescent {s : SState} (hq : quiescent s.h = true) (op : SOp) (hnc : isConstruct op = false) :
    (∀ s', sstep s op = .ok s' → s'.h = s.h) ∧ (∀ e, sstep s op = .error e → e = .illFormed) := by
  cases op with
  | newCtx => simp [sstep]
  | childCtx k => simp only [sstep]; split <;> simp
  | construct k => simp [isConstruct] at hnc
  | clone i k =>
    simp only [sstep, H.step, liveSlot_quiescent hq]
    split <;> simp
  | clear i =>
    have hd : drop s.h i = .error .illFormed := by
      unfold drop
      cases hr : s.h.slots[i]? with
      | none => rfl
      | some c =>
        have hm : c ∈ s.h.slots := List.mem_of_getElem? hr
        simp only [quiescent, List.all_eq_true] at hq
        have hc := hq c hm
        have : c = Slot.gone := by simpa using hc
        subst this
        rfl
    simp [sstep, H.step, hd]
  | give i k =>
    simp only [sstep, liveSlot_quiescent hq]
    simp
  | release k =>
    simp only [sstep, destructWhere_quiescent _ _ hq]
    split <;> simp

theorem mstepUnloaded_quiescent {s : MState} (hq : quiescent s.s.h = true) (op : MOp) :
    mstepUnloaded s op ≠ .error .nullDeref ∧ ∀ s', mstepUnloaded s op = .ok s' → s'.s.h = s.s.h ∧ s'.unloaded = s.unloaded := by
  cases op with
  | deinit => simp [mstepUnloaded]
  | store op =>
    simp only [mstepUnloaded]
    split
    · simp
    · rename_i hnc
      have hq2 := sstep_quiescent hq op (by simpa using hnc)
      cases hs : sstep s.s op with
      | ok s1 =>
        have := hq2.1 s1 hs
        simp [this]
      | error e =>
        have := hq2.2 e hs
        subst this
        simp
  | construct k m => simp only [mstepUnloaded]; split <;> simp
  | constructFail k m => simp only [mstepUnloaded]; split <;> simp
  | method i m name args => simp [mstepUnloaded, liveSlot_quiescent hq]

theorem mrun_unloaded_quiescent {s : MState} (hq : quiescent s.s.h = true) (hu : s.unloaded = true) (ops : List MOp) :
    mrun s ops ≠ .error .nullDeref ∧ ∀ s', mrun s ops = .ok s' → quiescent s'.s.h = true ∧ s'.unloaded = true := by
  induction ops generalizing s with
  | nil => simp only [mrun]; exact ⟨by simp, fun s' h => by injection h with h; subst h; exact ⟨hq, hu⟩⟩
  | cons op rest ih =>
    simp only [mrun]
    have hstep := mstepUnloaded_quiescent hq op
    have hms : mstep s op = mstepUnloaded s op := by simp [mstep, hu]
    rw [hms]
    cases h1 : mstepUnloaded s op with
    | error e =>
      rw [h1] at hstep
      exact ⟨by intro hc; injection hc with hc; exact hstep.1 (by rw [hc]), fun s' h => by cases h⟩
    | ok s1 =>
      rw [h1] at hstep
      obtain ⟨a, b⟩ := hstep.2 s1 rfl
      exact ih (by rw [a]; exact hq) (by rw [b]; exact hu)

end BlocV.Proofs.Method
