/-
  Helper lemmas for Proofs/C11, second part:
   A. the statement-level machine (`nstepE`, `nrun`, `parseTextN`: names, raw clause entries) IS the id-level machine
      run on `compile` — the guard of `enterFor` / `enterForall` never fires (derived from `registerSymbol`);
   B. insertion of left-over slots (`lift`) commutes with every step of the machine, with the catch blocks, with
      `rollback` and with `parsingEnd`, for events that do not mention the left-over names.
-/
import BlocV.Model.ParseCtx
import BlocV.Proofs.Lemmas.ParseCtx
import BlocV.Model.Session

namespace BlocV.ParseCtx

/-! ## A. names → ids -/

theorem findName_get {n : String} {l : List String} {i : Nat} (h : findName n l = some i) : l[i]? = some n := by
  induction l generalizing i with
  | nil => cases h
  | cons x xs ih =>
    unfold findName at h
    split at h
    · next hx => cases h; simp [hx]
    · cases hr : findName n xs with
      | none => simp [hr] at h
      | some k =>
        simp only [hr, Option.map_some, Option.some.injEq] at h
        subst h
        simpa using ih hr

theorem findName_append (n : String) (l1 l2 : List String) :
    findName n (l1 ++ l2) = match findName n l1 with
      | some i => some i
      | none => (findName n l2).map (· + l1.length) := by
  induction l1 with
  | nil => simp [findName]
  | cons x xs ih =>
    simp only [List.cons_append, findName]
    split
    · rfl
    · rw [ih]
      cases findName n xs with
      | some i => rfl
      | none =>
        cases findName n l2 with
        | none => rfl
        | some j => simp only [Option.map_some, List.length_cons]; rfl

theorem step_reg_none {H : Decl → Nat} {st : St} (hc : st.child = none) (n : String) (r : RegTy) :
    step H st (.reg n r) = match registerSymbol H st.ctx n r with
      | .ok c => .ok { st with ctx := c }
      | .error err => .error err := by
  unfold step; simp only [hc]; rfl

theorem step_enterFor_none {H : Decl → Nat} {st : St} (hc : st.child = none) (i : Nat) :
    step H st (.enterFor i) = match enterFor st.ctx i with
      | some (c, fr) => .ok { st with ctx := c, stack := fr :: st.stack }
      | none => .error .other := by
  unfold step; simp only [hc]; rfl

theorem step_enterForall_none {H : Decl → Nat} {st : St} (hc : st.child = none) (v : Nat) (t : Option Nat) :
    step H st (.enterForall v t) = match enterForall st.ctx v t with
      | some (c, fr) => .ok { st with ctx := c, stack := fr :: st.stack }
      | none => .error .protectedIter := by
  unfold step; simp only [hc]; rfl

theorem step_fail (H : Decl → Nat) (st : St) : step H st .fail = .error .other := by
  unfold step; cases st.child <;> rfl

theorem runEvents_single (H : Decl → Nat) (st : St) (e : Ev) : runEvents H st [e] = ofExcept st (step H st e) := by
  simp only [runEvents]
  cases step H st e <;> rfl

theorem runEvents_append (H : Decl → Nat) (st : St) (a b : List Ev) :
    runEvents H st (a ++ b) = match runEvents H st a with
      | (true, s) => (true, s)
      | (false, s) => runEvents H s b := by
  induction a generalizing st with
  | nil => rfl
  | cons e es ih =>
    simp only [List.cons_append, runEvents]
    cases step H st e with
    | ok st' => exact ih st'
    | error err => rfl

/-- what `registerSymbol` guarantees about the symbol it returns: it is not locked (a locked one is refused with
CONST_VIOLATION, a new one is created unlocked) -/
theorem registerSymbol_unlocked {H : Decl → Nat} {c c' : Ctx} {n : String} {r : RegTy}
    (h : registerSymbol H c n r = .ok c') (hal : c.aligned) :
    ∃ i fl, findName n c'.names = some i ∧ c'.fls[i]? = some fl ∧ fl.locked = false := by
  unfold registerSymbol at h
  split at h
  · next hnone =>
    cases h
    refine ⟨c.names.length, (n.front == '$', false), ?_, ?_, rfl⟩
    · simp only [findName_append, hnone, findName, if_true, Option.map_some, Nat.zero_add]
    · simp only
      rw [← hal.2]
      simp
  · next i hi =>
    split at h
    · next cur fl hcur hfl =>
      split at h
      · cases h
      · next hl =>
        have hl' : fl.locked = false := by simpa using hl
        split at h
        · cases h; exact ⟨i, fl, hi, hfl, hl'⟩
        · simp only at h
          split at h
          · split at h
            · cases h
            · cases h; exact ⟨i, fl, hi, hfl, hl'⟩
            · cases h; exact ⟨i, fl, hi, hfl, hl'⟩
          · cases h; exact ⟨i, fl, hi, hfl, hl'⟩
    · cases h

theorem enterFor_eq_raw {c : Ctx} {i : Nat} {fl : Fl} (h : c.fls[i]? = some fl) (hl : fl.locked = false) :
    enterFor c i = enterForRaw c i := by
  unfold enterFor enterForRaw
  simp [h, hl]

theorem enterForall_eq_raw {c : Ctx} {v : Nat} {fl : Fl} (t : Option Nat) (h : c.fls[v]? = some fl) (hl : fl.locked = false) :
    enterForall c v t = enterForallRaw c v t := by
  unfold enterForall enterForallRaw
  simp [h, hl]

/-- the statement-level step is the id-level machine on the compiled events -/
theorem nstepE_eq {H : Decl → Nat} {st : St} (hal : st.ctx.aligned) (e : NEv) :
    nstepE H st e = runEvents H st (compile1 H st e) := by
  unfold nstepE compile1
  cases hc : st.child with
  | some ch => simp only; rw [runEvents_single]
  | none =>
    simp only
    cases e with
    | reg n r => simp only; rw [runEvents_single]
    | enterBlk => simp only; rw [runEvents_single]
    | leave => simp only; rw [runEvents_single]
    | fnBegin n a f => simp only; rw [runEvents_single]
    | fail => simp only; rw [runEvents_single, step_fail]; rfl
    | forLoop n =>
      simp only
      cases hr : registerSymbol H st.ctx n (.plain intTy) with
      | error err => simp only; rw [runEvents_single, step_reg_none hc, hr]; rfl
      | ok c1 =>
        simp only
        obtain ⟨i, fl, hi, hfl, hl⟩ := registerSymbol_unlocked hr hal
        simp only [hi, runEvents, step_reg_none hc, hr]
        rw [step_enterFor_none (by exact hc), enterFor_eq_raw hfl hl]
        cases enterForRaw c1 i with
        | none => simp [hc]
        | some p => simp [hc]
    | forallLoop v r tgt =>
      simp only
      split
      · rw [runEvents_single, step_fail]; rfl
      · cases ht : targetId st.ctx tgt with
        | none => simp only; rw [runEvents_single, step_fail]; rfl
        | some t =>
          simp only
          cases hr : registerSymbol H st.ctx v r with
          | error err => simp only; rw [runEvents_single, step_reg_none hc, hr]; rfl
          | ok c1 =>
            simp only
            obtain ⟨i, fl, hi, hfl, hl⟩ := registerSymbol_unlocked hr hal
            simp only [hi, runEvents, step_reg_none hc, hr]
            rw [step_enterForall_none (by exact hc), enterForall_eq_raw t hfl hl]
            cases enterForallRaw c1 i t with
            | none => simp [hc]
            | some p => simp [hc]

/-! ### the columns stay aligned -/

theorem aligned_step {H : Decl → Nat} {st st' : St} {e : Ev} (hal : st.ctx.aligned) (hstep : step H st e = .ok st') :
    st'.ctx.aligned := by
  unfold step at hstep
  cases hch : st.child with
  | some ch =>
    simp only [hch] at hstep
    cases e with
    | reg n r => cases hstep; exact hal
    | enterFor i => cases hstep; exact hal
    | enterForall v t => cases hstep; exact hal
    | enterBlk => cases hstep; exact hal
    | leave =>
      simp only at hstep
      split at hstep
      · split at hstep
        · cases hstep; exact hal
        · cases hstep
      · cases hstep; exact hal
    | fnBegin n a fid => cases hstep
    | fail => cases hstep
  | none =>
    simp only [hch] at hstep
    cases e with
    | reg n r =>
      simp only at hstep
      cases hreg : registerSymbol H st.ctx n r with
      | ok c =>
        simp only [hreg] at hstep
        cases hstep
        rcases registerSymbol_cases hreg with h | h | ⟨i, cur, _, h⟩
        · subst h; exact hal
        · subst h; unfold Ctx.aligned at hal ⊢; simp only [List.length_append, List.length_cons, List.length_nil]; omega
        · subst h; unfold Ctx.aligned at hal ⊢; simp only [length_modAt]; exact hal
      | error err => simp only [hreg] at hstep; cases hstep
    | enterFor i =>
      simp only at hstep
      cases h : enterFor st.ctx i with
      | none => simp [h] at hstep
      | some p =>
        obtain ⟨c, fr⟩ := p
        simp only [h] at hstep
        cases hstep
        have hu := enterFor_undo h
        unfold Ctx.aligned at hal ⊢
        have hl : c.fls.length = st.ctx.fls.length := by rw [← hu.1, catchFls_length]
        simp only [hu.2.2.1, hu.2.2.2.1, hl]; exact hal
    | enterForall v t =>
      simp only at hstep
      cases h : enterForall st.ctx v t with
      | none => simp [h] at hstep
      | some p =>
        obtain ⟨c, fr⟩ := p
        simp only [h] at hstep
        cases hstep
        have hu := enterForall_undo h
        unfold Ctx.aligned at hal ⊢
        have hl : c.fls.length = st.ctx.fls.length := by rw [← hu.1, catchFls_length]
        simp only [hu.2.2.1, hu.2.2.2.1, hl]; exact hal
    | enterBlk => simp only at hstep; cases hstep; exact hal
    | leave =>
      simp only at hstep
      cases hs : st.stack with
      | nil => simp [hs] at hstep
      | cons fr rest =>
        simp only [hs] at hstep
        cases hstep
        unfold Ctx.aligned at hal ⊢
        simp only [Frame.exitNormal, normalFls_eq_catchFls, catchFls_length]; exact hal
    | fnBegin n a fid =>
      simp only at hstep
      split at hstep
      · cases hstep
      · cases hstep; exact hal
    | fail => cases hstep

theorem aligned_run {H : Decl → Nat} {st : St} (evs : List Ev) (hal : st.ctx.aligned) :
    (runEvents H st evs).2.ctx.aligned := by
  induction evs generalizing st with
  | nil => exact hal
  | cons e es ih =>
    simp only [runEvents]
    cases hs : step H st e with
    | ok st' => exact ih (aligned_step hal hs)
    | error err => exact hal

theorem nrun_eq {H : Decl → Nat} {st : St} (hal : st.ctx.aligned) (evs : List NEv) :
    nrun H st evs = runEvents H st (compile H st evs) := by
  induction evs generalizing st with
  | nil => rfl
  | cons e es ih =>
    simp only [nrun, compile]
    rw [runEvents_append, ← nstepE_eq hal e]
    have hal' : (nstepE H st e).2.ctx.aligned := by rw [nstepE_eq hal e]; exact aligned_run _ hal
    generalize nstepE H st e = res at hal'
    obtain ⟨threw, s⟩ := res
    cases threw with
    | true => simp
    | false => simp only; exact ih hal'

theorem aligned_init {c : Ctx} (h : c.aligned) : (St.init c).ctx.aligned := h

/-- **the statement-level parse is the id-level parse of the compiled text** -/
theorem parseTextN_eq {H : Decl → Nat} {c : Ctx} (hal : c.aligned) (evs : List NEv) :
    parseTextN H c evs = parseText H c (compile H (St.init c) evs) := by
  unfold parseTextN parseText
  rw [nrun_eq (aligned_init hal)]


/-! ## B. insertion of left-over slots -/

section ins
variable {α : Type}

theorem length_ins (n0 : Nat) (xs l : List α) (h : n0 ≤ l.length) : (ins n0 xs l).length = l.length + xs.length := by
  simp only [ins, List.length_append, List.length_take, List.length_drop]; omega

theorem getElem?_ins (n0 : Nat) (xs l : List α) (h : n0 ≤ l.length) (j : Nat) :
    (ins n0 xs l)[j]? = if j < n0 then l[j]? else if j < n0 + xs.length then xs[j - n0]? else l[j - xs.length]? := by
  unfold ins
  have ht : (l.take n0).length = n0 := by simp only [List.length_take]; omega
  rw [List.getElem?_append, List.getElem?_append]
  simp only [List.length_append, ht]
  by_cases h1 : j < n0
  · have h2 : j < n0 + xs.length := by omega
    simp [h1, h2]
  · by_cases h2 : j < n0 + xs.length
    · simp [h1, h2]
    · simp only [h1, h2, if_false, List.getElem?_drop]
      congr 1; omega

theorem getElem?_ins_ren (n0 : Nat) (xs l : List α) (h : n0 ≤ l.length) (i : Nat) :
    (ins n0 xs l)[ren n0 xs.length i]? = l[i]? := by
  rw [getElem?_ins _ _ _ h]
  unfold ren
  by_cases hi : i < n0
  · simp [hi]
  · have h1 : ¬ i + xs.length < n0 := by omega
    have h2 : ¬ i + xs.length < n0 + xs.length := by omega
    simp [hi, h1, h2]

theorem modAt_ins (f : α → α) (n0 : Nat) (xs l : List α) (h : n0 ≤ l.length) (i : Nat) :
    modAt f (ren n0 xs.length i) (ins n0 xs l) = ins n0 xs (modAt f i l) := by
  apply List.ext_getElem?
  intro j
  rw [getElem?_modAt, getElem?_ins _ _ _ h, getElem?_ins _ _ _ (by rw [length_modAt]; exact h)]
  simp only [getElem?_modAt]
  unfold ren
  by_cases hi : i < n0
  · simp only [hi, if_true]
    by_cases h1 : j < n0
    · simp [h1]
    · have e1 : ¬ i = j := by omega
      by_cases h2 : j < n0 + xs.length
      · simp [h1, h2, e1]
      · have e2 : ¬ i = j - xs.length := by omega
        simp [h1, h2, e1, e2]
  · simp only [hi, if_false]
    by_cases h1 : j < n0
    · have e1 : ¬ i + xs.length = j := by omega
      have e2 : ¬ i = j := by omega
      simp [h1, e1, e2]
    · by_cases h2 : j < n0 + xs.length
      · have e1 : ¬ i + xs.length = j := by omega
        simp [h1, h2, e1]
      · have e : (i + xs.length = j) ↔ (i = j - xs.length) := by omega
        simp [h1, h2, e]

/-- the first `n + |xs|` entries of an insertion at `n0 ≤ n` are the insertion into the first `n` entries -/
theorem take_ins_ge (n0 : Nat) (xs l : List α) (h : n0 ≤ l.length) (n : Nat) (hn : n0 ≤ n) :
    (ins n0 xs l).take (n + xs.length) = ins n0 xs (l.take n) := by
  have h' : n0 ≤ (l.take n).length := by simp only [List.length_take]; omega
  apply List.ext_getElem?
  intro j
  rw [List.getElem?_take, getElem?_ins _ _ _ h, getElem?_ins _ _ _ h']
  by_cases h1 : j < n0
  · have h2 : j < n + xs.length := by omega
    have h3 : j < n := by omega
    simp [h1, h2, h3, List.getElem?_take]
  · by_cases h2 : j < n0 + xs.length
    · have h3 : j < n + xs.length := by omega
      simp [h1, h2, h3]
    · by_cases h3 : j < n + xs.length
      · have h4 : j - xs.length < n := by omega
        simp [h1, h2, h3, h4, List.getElem?_take]
      · have h4 : ¬ j - xs.length < n := by omega
        simp [h1, h2, h3, h4, List.getElem?_take]

theorem ins_append_singleton (n0 : Nat) (xs l : List α) (a : α) (h : n0 ≤ l.length) :
    ins n0 xs (l ++ [a]) = ins n0 xs l ++ [a] := by
  unfold ins
  rw [List.take_append_of_le_length h, List.drop_append_of_le_length h]
  simp [List.append_assoc]

theorem ins_dropLast (m0 : Nat) (xs l : List α) (h : m0 < l.length) :
    (ins m0 xs l).dropLast = ins m0 xs l.dropLast := by
  unfold ins
  have hne : l.drop m0 ≠ [] := by
    intro hd
    have := congrArg List.length hd
    simp only [List.length_drop, List.length_nil] at this
    omega
  rw [List.dropLast_append_of_ne_nil hne, take_dropLast_of_lt _ _ h]
  congr 1
  rw [List.dropLast_eq_take, List.dropLast_eq_take, List.drop_take, List.length_drop]
  congr 1
  omega

theorem take_ins (n0 : Nat) (xs l : List α) (h : n0 ≤ l.length) : (ins n0 xs l).take n0 = l.take n0 := by
  unfold ins
  have ht : (l.take n0).length = n0 := by simp only [List.length_take]; omega
  rw [List.append_assoc, List.take_append_of_le_length (by omega)]
  rw [List.take_of_length_le (by omega)]

end ins

theorem findName_not_mem {n : String} {xs : List String} (h : xs.contains n = false) : findName n xs = none := by
  induction xs with
  | nil => rfl
  | cons y ys ih =>
    simp only [List.contains_cons, Bool.or_eq_false_iff, beq_eq_false_iff_ne, ne_eq] at h
    unfold findName
    have : ¬ y = n := fun e => h.1 e.symm
    simp [this, ih h.2]

theorem findName_ins {n : String} {xs l : List String} {n0 : Nat} (hx : xs.contains n = false) (h : n0 ≤ l.length) :
    findName n (ins n0 xs l) = (findName n l).map (ren n0 xs.length) := by
  have hl : findName n l = findName n (l.take n0 ++ l.drop n0) := by rw [List.take_append_drop]
  have ht : (l.take n0).length = n0 := by simp only [List.length_take]; omega
  rw [hl]
  unfold ins
  rw [findName_append, findName_append, findName_append, findName_not_mem hx]
  cases h1 : findName n (l.take n0) with
  | some i =>
    have := findName_lt h1
    rw [ht] at this
    simp [ren, this]
  | none =>
    simp only [Option.map_none, List.length_append, ht]
    cases findName n (l.drop n0) with
    | none => rfl
    | some j =>
      have : ¬ j + n0 < n0 := by omega
      simp only [Option.map_some, ren, this, if_false, Option.some.injEq]
      omega

theorem findFn_not_mem {n : String} {a : Nat} {xs : List Fn} (h : (xs.all fun f => !f.is n a) = true) : findFn n a xs = none := by
  induction xs with
  | nil => rfl
  | cons y ys ih =>
    simp only [List.all_cons, Bool.and_eq_true, Bool.not_eq_true'] at h
    unfold findFn
    simp [h.1, ih (by simpa using h.2)]

theorem findFn_ins {n : String} {a : Nat} {xs l : List Fn} {m0 : Nat} (hx : (xs.all fun f => !f.is n a) = true) (h : m0 ≤ l.length) :
    findFn n a (ins m0 xs l) = (findFn n a l).map (ren m0 xs.length) := by
  have hl : findFn n a l = findFn n a (l.take m0 ++ l.drop m0) := by rw [List.take_append_drop]
  have ht : (l.take m0).length = m0 := by simp only [List.length_take]; omega
  rw [hl]
  unfold ins
  rw [findFn_append, findFn_append, findFn_append, findFn_not_mem hx]
  cases h1 : findFn n a (l.take m0) with
  | some i =>
    have := findFn_lt h1
    rw [ht] at this
    simp [ren, this]
  | none =>
    simp only [Option.map_none, List.length_append, ht]
    cases findFn n a (l.drop m0) with
    | none => rfl
    | some j =>
      have : ¬ j + m0 < m0 := by omega
      simp only [Option.map_some, ren, this, if_false, Option.some.injEq]
      omega


/-! ### the context operations commute with `lift` -/

structure Extra.wf (x : Extra) : Prop where
  t : x.tds.length = x.names.length
  f : x.fls.length = x.names.length

/-- side conditions on the undisturbed context: the insertion points are inside, the columns are aligned -/
structure Fits (x : Extra) (c : Ctx) : Prop where
  n : x.n0 ≤ c.names.length
  al : c.aligned
  m : x.m0 ≤ c.fns.length

theorem Fits.t {x : Extra} {c : Ctx} (h : Fits x c) : x.n0 ≤ c.tds.length := by rw [h.al.1]; exact h.n
theorem Fits.f {x : Extra} {c : Ctx} (h : Fits x c) : x.n0 ≤ c.fls.length := by rw [h.al.2]; exact h.n

theorem tds_ren {x : Extra} (hx : x.wf) {c : Ctx} (hf : Fits x c) (i : Nat) :
    (ins x.n0 x.tds c.tds)[x.ρ i]? = c.tds[i]? := by
  unfold Extra.ρ; rw [← hx.t]; exact getElem?_ins_ren _ _ _ hf.t i

theorem fls_ren {x : Extra} (hx : x.wf) {fls : List Fl} (hf : x.n0 ≤ fls.length) (i : Nat) :
    (ins x.n0 x.fls fls)[x.ρ i]? = fls[i]? := by
  unfold Extra.ρ; rw [← hx.f]; exact getElem?_ins_ren _ _ _ hf i

theorem fls_modAt {x : Extra} (hx : x.wf) (f : Fl → Fl) {fls : List Fl} (hf : x.n0 ≤ fls.length) (i : Nat) :
    modAt f (x.ρ i) (ins x.n0 x.fls fls) = ins x.n0 x.fls (modAt f i fls) := by
  unfold Extra.ρ; rw [← hx.f]; exact modAt_ins f _ _ _ hf i

theorem tds_modAt {x : Extra} (hx : x.wf) (f : TD → TD) {tds : List TD} (hf : x.n0 ≤ tds.length) (i : Nat) :
    modAt f (x.ρ i) (ins x.n0 x.tds tds) = ins x.n0 x.tds (modAt f i tds) := by
  unfold Extra.ρ; rw [← hx.t]; exact modAt_ins f _ _ _ hf i

theorem registerSymbol_lift {H : Decl → Nat} {x : Extra} (hx : x.wf) {c : Ctx} (hf : Fits x c) (g : Option Fn)
    {n : String} (hn : x.names.contains n = false) (r : RegTy) :
    registerSymbol H (lift x g c) n r = (registerSymbol H c n r).map (lift x g) := by
  unfold registerSymbol
  have e0 : (lift x g c).names = ins x.n0 x.names c.names := rfl
  rw [e0, findName_ins hn hf.n]
  cases hfi : findName n c.names with
  | none =>
    simp only [Option.map_none, Except.map]
    congr 1
    simp only [lift, Ctx.mk.injEq, and_true, true_and]
    exact ⟨ins_append_singleton _ _ _ _ hf.n |>.symm, ins_append_singleton _ _ _ _ hf.t |>.symm,
      ins_append_singleton _ _ _ _ hf.f |>.symm⟩
  | some i =>
    simp only [Option.map_some]
    have e1 : (lift x g c).tds[ren x.n0 x.names.length i]? = c.tds[i]? := tds_ren hx hf i
    have e2 : (lift x g c).fls[ren x.n0 x.names.length i]? = c.fls[i]? := fls_ren hx hf.f i
    rw [e1, e2]
    cases hcur : c.tds[i]? with
    | none => simp [Except.map]
    | some cur =>
      cases hfl : c.fls[i]? with
      | none => simp [Except.map]
      | some fl =>
        simp only []
        cases hl : fl.locked with
        | true => simp [Except.map]
        | false =>
          simp only [Bool.false_eq_true, if_false]
          by_cases ht : r.ty H = cur.1
          · simp [ht, Except.map]
          · simp only [ht, if_false]
            cases hs : fl.safety with
            | true =>
              simp only [if_true]
              cases checkSafety cur.1 (r.ty H) with
              | ko => simp [Except.map]
              | equ => simp [Except.map]
              | upg => (simp only [Except.map]; congr 1; simp only [lift, Ctx.mk.injEq, and_true, true_and, List.map_cons]; exact ⟨tds_modAt hx _ hf.t i, rfl⟩)
            | false =>
              simp only [Bool.false_eq_true, if_false]
              (simp only [Except.map]; congr 1; simp only [lift, Ctx.mk.injEq, and_true, true_and, List.map_cons]; exact ⟨tds_modAt hx _ hf.t i, rfl⟩)

theorem enterFor_lift {x : Extra} (hx : x.wf) {c : Ctx} (hf : Fits x c) (g : Option Fn) (i : Nat) :
    enterFor (lift x g c) (x.ρ i) = (enterFor c i).map fun p => (lift x g p.1, p.2.ren x.ρ) := by
  unfold enterFor
  have e2 : (lift x g c).fls[x.ρ i]? = c.fls[i]? := fls_ren hx hf.f i
  rw [e2]
  cases hfl : c.fls[i]? with
  | none => rfl
  | some fl =>
    simp only []
    cases hl : fl.locked with
    | true => simp
    | false =>
      simp only [Bool.false_eq_true, if_false, Option.map_some, Option.some.injEq, Prod.mk.injEq, Frame.ren, and_true]
      simp only [lift, Ctx.mk.injEq, and_true, true_and]
      exact fls_modAt hx _ hf.f i

theorem enterForall_lift {x : Extra} (hx : x.wf) {c : Ctx} (hf : Fits x c) (g : Option Fn) (v : Nat) (t : Option Nat) :
    enterForall (lift x g c) (x.ρ v) (t.map x.ρ) = (enterForall c v t).map fun p => (lift x g p.1, p.2.ren x.ρ) := by
  unfold enterForall
  have e2 : (lift x g c).fls[x.ρ v]? = c.fls[v]? := fls_ren hx hf.f v
  rw [e2]
  cases hfl : c.fls[v]? with
  | none => rfl
  | some fv =>
    simp only []
    cases hl : fv.locked with
    | true => simp
    | false =>
      simp only [Bool.false_eq_true, if_false]
      have e3 : modAt (setSafe true) (x.ρ v) (lift x g c).fls = ins x.n0 x.fls (modAt (setSafe true) v c.fls) :=
        fls_modAt hx _ hf.f v
      rw [e3]
      cases t with
      | none =>
        simp only [Option.map_none, Option.map_some, Option.some.injEq, Prod.mk.injEq, Frame.ren, and_true]
        simp [lift]
      | some t =>
        have hlen : x.n0 ≤ (modAt (setSafe true) v c.fls).length := by rw [length_modAt]; exact hf.f
        simp only [Option.map_some]
        rw [fls_ren hx hlen t]
        cases hft : (modAt (setSafe true) v c.fls)[t]? with
        | none => rfl
        | some ft =>
          simp only [Option.map_some, Option.some.injEq, Prod.mk.injEq, Frame.ren, and_true]
          simp only [lift, Ctx.mk.injEq, and_true, true_and]
          rw [fls_modAt hx _ hlen t, fls_modAt hx _ (by rw [length_modAt]; exact hlen) v]

theorem catchFls_lift {x : Extra} (hx : x.wf) (fr : Frame) {fls : List Fl} (hf : x.n0 ≤ fls.length) :
    (fr.ren x.ρ).catchFls (ins x.n0 x.fls fls) = ins x.n0 x.fls (fr.catchFls fls) := by
  cases fr with
  | blk => rfl
  | forC i sb => simp only [Frame.ren, Frame.catchFls]; exact fls_modAt hx _ hf i
  | forallC v sb lb tgt =>
    cases tgt with
    | none =>
      simp only [Frame.ren, Frame.catchFls, Option.map_none]
      rw [fls_modAt hx _ hf v, fls_modAt hx _ (by rw [length_modAt]; exact hf) v]
    | some p =>
      obtain ⟨t, lt⟩ := p
      simp only [Frame.ren, Frame.catchFls, Option.map_some]
      rw [fls_modAt hx _ hf t, fls_modAt hx _ (by rw [length_modAt]; exact hf) v,
        fls_modAt hx _ (by rw [length_modAt, length_modAt]; exact hf) v]

theorem exitCatch_lift {x : Extra} (hx : x.wf) (fr : Frame) {c : Ctx} (hf : Fits x c) (g : Option Fn) :
    (fr.ren x.ρ).exitCatch (lift x g c) = lift x g (fr.exitCatch c) := by
  simp only [Frame.exitCatch, lift, Ctx.mk.injEq, and_true, true_and]
  exact catchFls_lift hx fr hf.f

theorem exitNormal_lift {x : Extra} (hx : x.wf) (fr : Frame) {c : Ctx} (hf : Fits x c) (g : Option Fn) :
    (fr.ren x.ρ).exitNormal (lift x g c) = lift x g (fr.exitNormal c) := by
  simp only [Frame.exitNormal, normalFls_eq_catchFls, lift, Ctx.mk.injEq, and_true, true_and]
  exact catchFls_lift hx fr hf.f

theorem fits_exitCatch {x : Extra} {c : Ctx} (fr : Frame) (hf : Fits x c) : Fits x (fr.exitCatch c) := by
  refine ⟨hf.n, ?_, hf.m⟩
  have := hf.al
  unfold Ctx.aligned at this ⊢
  simp only [Frame.exitCatch, catchFls_length]; exact this

theorem unwindFrames_lift {x : Extra} (hx : x.wf) (stk : List Frame) {c : Ctx} (hf : Fits x c) (g : Option Fn) :
    unwindFrames (stk.map (Frame.ren x.ρ)) (lift x g c) = lift x g (unwindFrames stk c) := by
  induction stk generalizing c with
  | nil => rfl
  | cons fr rest ih =>
    simp only [List.map_cons, unwindFrames]
    rw [exitCatch_lift hx fr hf g]
    exact ih (fits_exitCatch fr hf)

theorem restoreAll_lift {H : Decl → Nat} {x : Extra} (hx : x.wf) (bs : List Backup) {tds : List TD} (hf : x.n0 ≤ tds.length) :
    restoreAll H (bs.map fun b => ⟨x.ρ b.id, b.td⟩) (ins x.n0 x.tds tds) = ins x.n0 x.tds (restoreAll H bs tds) := by
  induction bs generalizing tds with
  | nil => rfl
  | cons b bs ih =>
    simp only [List.map_cons, restoreAll, restoreOne]
    have e : restoreTD H ⟨x.ρ b.id, b.td⟩ = restoreTD H b := rfl
    rw [e, tds_modAt hx _ hf b.id]
    exact ih (by rw [length_modAt]; exact hf)

theorem parsingEnd_lift {H : Decl → Nat} {x : Extra} (hx : x.wf) {c : Ctx} (hf : Fits x c) (g : Option Fn) :
    parsingEnd H (lift x g c) = lift x g (parsingEnd H c) := by
  simp only [parsingEnd, lift, Ctx.mk.injEq, and_true, true_and, List.map_nil]
  exact restoreAll_lift hx c.backed hf.t


/-! ### the function table -/

theorem createOrReplace_lift {x : Extra} {fns : List Fn} (hm : x.m0 ≤ fns.length) {n : String} {a : Nat}
    (hk : (x.fns.all fun f => !f.is n a) = true) (fid : Nat) :
    createOrReplace (ins x.m0 x.fns fns) n a fid =
      (ins x.m0 x.fns (createOrReplace fns n a fid).1, (createOrReplace fns n a fid).2) := by
  unfold createOrReplace
  rw [findFn_ins hk hm]
  cases h : findFn n a fns with
  | none => simp only [Option.map_none]; rw [ins_append_singleton _ _ _ _ hm]
  | some i => simp only [Option.map_some]; rw [modAt_ins _ _ _ _ hm, getElem?_ins_ren _ _ _ hm]

theorem rollback_lift {x : Extra} {fns : List Fn} (hm : x.m0 ≤ fns.length) (bk : Option Fn)
    (h1 : ∀ b, bk = some b → (x.fns.all fun f => !f.is b.name b.arity) = true)
    (h2 : bk = none → x.m0 < fns.length) :
    rollback (ins x.m0 x.fns fns) bk = (ins x.m0 x.fns (rollback fns bk).1, (rollback fns bk).2) := by
  unfold rollback
  cases bk with
  | none => simp only; rw [ins_dropLast _ _ _ (h2 rfl)]
  | some b =>
    simp only
    rw [findFn_ins (h1 b rfl) hm]
    cases findFn b.name b.arity fns with
    | none => rfl
    | some i => simp only [Option.map_some]; rw [modAt_ins _ _ _ _ hm, getElem?_ins_ren _ _ _ hm]

theorem journalEntry_lift {x : Extra} {fns : List Fn} (hm : x.m0 ≤ fns.length) {n : String} {a : Nat}
    (hk : (x.fns.all fun f => !f.is n a) = true) :
    journalEntry (ins x.m0 x.fns fns) n a = (journalEntry fns n a).map fun p => (ren x.m0 x.fns.length p.1, p.2) := by
  unfold journalEntry
  rw [findFn_ins hk hm]
  cases findFn n a fns with
  | none => rfl
  | some i =>
    simp only [Option.map_some]
    rw [getElem?_ins_ren _ _ _ hm]
    cases fns[i]? <;> rfl

theorem length_revertFns (mark : Nat) (j : List (Nat × Fn)) (fns : List Fn) :
    (revertFns mark j fns).length = min mark fns.length := by
  unfold revertFns
  have : ∀ (acc : List Fn), (j.foldl (fun acc p => if p.1 < mark then modAt (fun _ => p.2) p.1 acc else acc) acc).length = acc.length := by
    induction j with
    | nil => intro acc; rfl
    | cons p ps ih =>
      intro acc
      simp only [List.foldl_cons]
      rw [ih]
      split
      · exact length_modAt _ _ _
      · rfl
  rw [this, List.length_take]

/-- `parsingRevert` commutes with the insertion of left-over functions at `m0`, when the mark is not before `m0` -/
theorem revertFns_lift (m0 : Nat) (xs : List Fn) {mark : Nat} (hm0 : m0 ≤ mark) (j : List (Nat × Fn)) {fns : List Fn}
    (hm : m0 ≤ fns.length) :
    revertFns (mark + xs.length) (j.map fun p => (ren m0 xs.length p.1, p.2)) (ins m0 xs fns)
      = ins m0 xs (revertFns mark j fns) := by
  unfold revertFns
  rw [take_ins_ge _ _ _ hm _ hm0]
  have hacc : m0 ≤ (fns.take mark).length := by simp only [List.length_take]; omega
  generalize fns.take mark = acc at hacc
  induction j generalizing acc with
  | nil => rfl
  | cons p ps ih =>
    simp only [List.map_cons, List.foldl_cons]
    have hc : (ren m0 xs.length p.1 < mark + xs.length) ↔ (p.1 < mark) := by
      unfold ren; split <;> omega
    by_cases hp : p.1 < mark
    · have hp' := hc.mpr hp
      simp only [hp, hp', if_true]
      rw [modAt_ins _ _ _ _ hacc]
      exact ih _ (by rw [length_modAt]; exact hacc)
    · have hp' : ¬ ren m0 xs.length p.1 < mark + xs.length := fun h => hp (hc.mp h)
      simp only [hp, hp', if_false]
      exact ih _ hacc

/-- invariant of the undisturbed run that the insertion needs -/
structure Good (x : Extra) (st : St) : Prop where
  fits : Fits x st.ctx
  opened : ∀ ch, st.child = some ch →
    (x.fns.all fun f => !f.is ch.name ch.arity) = true ∧
    (∀ b, st.ctx.fbacked = some b → b.is ch.name ch.arity = true) ∧
    (st.ctx.fbacked = none → x.m0 < st.ctx.fns.length)
  /-- the mark of the parse is not before the insertion point of the left-over functions -/
  mark : x.m0 ≤ st.fmark

theorem length_createOrReplace (fns : List Fn) (n : String) (a fid : Nat) :
    fns.length ≤ (createOrReplace fns n a fid).1.length := by
  unfold createOrReplace
  cases findFn n a fns with
  | none => simp
  | some i => simp

theorem good_step {H : Decl → Nat} {x : Extra} {st st' : St} {e : Ev} (hg : Good x st) (he : e.avoids x = true)
    (hstep : step H st e = .ok st') : Good x st' := by
  have hal := aligned_step hg.fits.al hstep
  unfold step at hstep
  cases hch : st.child with
  | some ch =>
    simp only [hch] at hstep
    have hop := hg.opened ch hch
    have keep : ∀ d : Nat, Good x { st with child := some { ch with depth := d } } := by
      intro d
      refine ⟨hg.fits, ?_, hg.mark⟩
      intro ch' h'
      simp only [Option.some.injEq] at h'
      subst h'
      exact hop
    cases e with
    | reg n r => cases hstep; exact hg
    | enterFor i => cases hstep; exact keep _
    | enterForall v t => cases hstep; exact keep _
    | enterBlk => cases hstep; exact keep _
    | leave =>
      simp only at hstep
      split at hstep
      · split at hstep
        · cases hstep
          refine ⟨⟨hg.fits.n, hal, ?_⟩, ?_, hg.mark⟩
          · simp only [length_modAt]; exact hg.fits.m
          · intro ch' h'; cases h'
        · cases hstep
      · cases hstep; exact keep _
    | fnBegin n a fid => cases hstep
    | fail => cases hstep
  | none =>
    simp only [hch] at hstep
    have same : ∀ c : Ctx, x.n0 ≤ c.names.length → c.aligned → c.fns = st.ctx.fns → ∀ stk, Good x ⟨c, stk, none, st.fmark, st.journal⟩ := by
      intro c h1 h2 h3 stk
      exact ⟨⟨h1, h2, by rw [h3]; exact hg.fits.m⟩, (by intro ch' h'; cases h'), hg.mark⟩
    cases e with
    | reg n r =>
      simp only at hstep
      cases hreg : registerSymbol H st.ctx n r with
      | ok c =>
        simp only [hreg] at hstep
        cases hstep
        have hn := hg.fits.n
        rcases registerSymbol_cases hreg with h | h | ⟨i, cur, _, h⟩
        · subst h; exact same _ hn hal rfl _
        · subst h; refine same _ ?_ ?_ ?_ _
          · simp only [List.length_append]; omega
          · exact hal
          · rfl
        · subst h; refine same _ ?_ ?_ ?_ _
          · exact hn
          · exact hal
          · rfl
      | error err => simp only [hreg] at hstep; cases hstep
    | enterFor i =>
      simp only at hstep
      cases h : enterFor st.ctx i with
      | none => simp [h] at hstep
      | some p =>
        obtain ⟨c, fr⟩ := p
        simp only [h] at hstep
        cases hstep
        have hu := enterFor_undo h
        exact same c (by rw [hu.2.2.1]; exact hg.fits.n) hal hu.2.2.2.2.2.2.1 _
    | enterForall v t =>
      simp only at hstep
      cases h : enterForall st.ctx v t with
      | none => simp [h] at hstep
      | some p =>
        obtain ⟨c, fr⟩ := p
        simp only [h] at hstep
        cases hstep
        have hu := enterForall_undo h
        exact same c (by rw [hu.2.2.1]; exact hg.fits.n) hal hu.2.2.2.2.2.2.1 _
    | enterBlk =>
      simp only at hstep; cases hstep
      refine same _ ?_ ?_ ?_ _
      · exact hg.fits.n
      · exact hal
      · rfl
    | leave =>
      simp only at hstep
      cases hs : st.stack with
      | nil => simp [hs] at hstep
      | cons fr rest =>
        simp only [hs] at hstep
        cases hstep
        refine same _ ?_ ?_ ?_ _
        · exact hg.fits.n
        · exact hal
        · rfl
    | fnBegin n a fid =>
      simp only at hstep
      split at hstep
      · cases hstep
      · cases hstep
        have hlen := length_createOrReplace st.ctx.fns n a fid
        refine ⟨⟨hg.fits.n, hal, Nat.le_trans hg.fits.m hlen⟩, ?_, hg.mark⟩
        intro ch' h'
        simp only [Option.some.injEq] at h'
        subst h'
        simp only [Ev.avoids] at he
        refine ⟨he, ?_, ?_⟩
        · intro b hb
          simp only at hb
          unfold createOrReplace at hb
          cases hfi : findFn n a st.ctx.fns with
          | none => simp [hfi] at hb
          | some i =>
            simp only [hfi] at hb
            obtain ⟨f, hf, hfis⟩ := findFn_is hfi
            rw [hf] at hb
            cases hb
            exact hfis
        · intro hb
          simp only at hb ⊢
          unfold createOrReplace at hb ⊢
          cases hfi : findFn n a st.ctx.fns with
          | none => simp only [List.length_append, List.length_cons, List.length_nil]; have := hg.fits.m; omega
          | some i =>
            simp only [hfi] at hb
            obtain ⟨f, hf, _⟩ := findFn_is hfi
            rw [hf] at hb
            cases hb
    | fail => cases hstep

theorem good_run {H : Decl → Nat} {x : Extra} {st : St} (evs : List Ev) (hg : Good x st)
    (he : evs.all (Ev.avoids x) = true) : Good x (runEvents H st evs).2 := by
  induction evs generalizing st with
  | nil => exact hg
  | cons e es ih =>
    simp only [List.all_cons, Bool.and_eq_true] at he
    simp only [runEvents]
    cases hs : step H st e with
    | ok st' => exact ih (good_step hg he.1 hs) he.2
    | error err => exact hg


theorem avoid_is {x : Extra} {b : Fn} {n : String} {a : Nat} (hb : b.is n a = true)
    (hk : (x.fns.all fun f => !f.is n a) = true) : (x.fns.all fun f => !f.is b.name b.arity) = true := by
  simp only [Fn.is, Bool.and_eq_true, beq_iff_eq] at hb
  rw [hb.1, hb.2]; exact hk

/-- **one step commutes with the insertion** (`g` = the disturbed context's `_backed`: arbitrary while no declaration is
open, equal to the undisturbed one while one is) -/
theorem step_lift {H : Decl → Nat} {x : Extra} (hx : x.wf) {st : St} (hg : Good x st) {e : Ev} (he : e.avoids x = true)
    (g : Option Fn) (hgc : st.child ≠ none → g = st.ctx.fbacked) :
    ∃ g', step H (liftSt x g st) (e.ren x.ρ) = (step H st e).map (liftSt x g') ∧
      (∀ s, step H st e = .ok s → s.child ≠ none → g' = s.ctx.fbacked) := by
  have hf := hg.fits
  obtain ⟨c, stk, child, fm, jr⟩ := st
  cases child with
  | some ch =>
    have hgeq : g = c.fbacked := hgc (by simp)
    have hop := hg.opened ch rfl
    refine ⟨g, ?_, ?_⟩
    · cases e with
      | reg n r => simp [step, liftSt, Ev.ren, Except.map]
      | enterFor i => simp [step, liftSt, Ev.ren, Except.map]
      | enterForall v t => simp [step, liftSt, Ev.ren, Except.map]
      | enterBlk => simp [step, liftSt, Ev.ren, Except.map]
      | fnBegin n a fid => simp [step, liftSt, Ev.ren, Except.map]
      | fail => simp [step, liftSt, Ev.ren, Except.map]
      | leave =>
        by_cases hd : ch.depth ≤ 1
        · simp only [step, liftSt, Ev.ren, hd, if_true]
          have e1 : (lift x g c).fns = ins x.m0 x.fns c.fns := rfl
          rw [e1, findFn_ins hop.1 hf.m]
          cases findFn ch.name ch.arity c.fns with
          | none => simp [Except.map]
          | some i =>
            simp only [Option.map_some, Except.map]
            congr 1
            simp only [liftSt, lift, St.mk.injEq, Ctx.mk.injEq, and_true, true_and]
            exact modAt_ins _ _ _ _ hf.m i
        · simp [step, liftSt, Ev.ren, hd, Except.map]
    · intro s hs hne
      cases e with
      | reg n r => simp only [step] at hs; cases hs; exact hgeq
      | enterFor i => simp only [step] at hs; cases hs; exact hgeq
      | enterForall v t => simp only [step] at hs; cases hs; exact hgeq
      | enterBlk => simp only [step] at hs; cases hs; exact hgeq
      | fnBegin n a fid => simp only [step] at hs; cases hs
      | fail => simp only [step] at hs; cases hs
      | leave =>
        simp only [step] at hs
        split at hs
        · split at hs
          · cases hs; exact absurd rfl hne
          · cases hs
        · cases hs; exact hgeq
  | none =>
    cases e with
    | reg n r =>
      have hn : x.names.contains n = false := by simpa [Ev.avoids] using he
      refine ⟨g, ?_, ?_⟩
      · simp only [step, liftSt, Ev.ren]
        rw [registerSymbol_lift hx hf g hn r]
        cases registerSymbol H c n r <;> simp [Except.map, liftSt]
      · intro s hs hne
        simp only [step] at hs
        cases hr : registerSymbol H c n r with
        | ok c' => simp only [hr] at hs; cases hs; exact absurd rfl hne
        | error err => simp only [hr] at hs; cases hs
    | enterFor i =>
      refine ⟨g, ?_, ?_⟩
      · simp only [step, liftSt, Ev.ren]
        rw [enterFor_lift hx hf g i]
        cases enterFor c i with
        | none => simp [Except.map]
        | some p => obtain ⟨c', fr⟩ := p; simp [Except.map, liftSt]
      · intro s hs hne
        simp only [step] at hs
        cases hr : enterFor c i with
        | some p => obtain ⟨c', fr⟩ := p; simp only [hr] at hs; cases hs; exact absurd rfl hne
        | none => simp only [hr] at hs; cases hs
    | enterForall v t =>
      refine ⟨g, ?_, ?_⟩
      · simp only [step, liftSt, Ev.ren]
        rw [enterForall_lift hx hf g v t]
        cases enterForall c v t with
        | none => simp [Except.map]
        | some p => obtain ⟨c', fr⟩ := p; simp [Except.map, liftSt]
      · intro s hs hne
        simp only [step] at hs
        cases hr : enterForall c v t with
        | some p => obtain ⟨c', fr⟩ := p; simp only [hr] at hs; cases hs; exact absurd rfl hne
        | none => simp only [hr] at hs; cases hs
    | enterBlk =>
      refine ⟨g, ?_, ?_⟩
      · simp [step, liftSt, lift, Ev.ren, Except.map, Frame.ren]
      · intro s hs hne; simp only [step] at hs; cases hs; exact absurd rfl hne
    | leave =>
      refine ⟨g, ?_, ?_⟩
      · cases stk with
        | nil => simp [step, liftSt, Ev.ren, Except.map]
        | cons fr rest =>
          simp only [step, liftSt, List.map_cons, Ev.ren]
          rw [exitNormal_lift hx fr hf g]
          simp [Except.map, liftSt]
      · intro s hs hne
        simp only [step] at hs
        cases stk with
        | nil => simp at hs
        | cons fr rest => simp only at hs; cases hs; exact absurd rfl hne
    | fnBegin n a fid =>
      have hk : (x.fns.all fun f => !f.is n a) = true := by simpa [Ev.avoids] using he
      refine ⟨(createOrReplace c.fns n a fid).2, ?_, ?_⟩
      · simp only [step, liftSt, Ev.ren]
        have e1 : (lift x g c).exec = c.exec := rfl
        have e2 : (lift x g c).fns = ins x.m0 x.fns c.fns := rfl
        by_cases hex : c.exec > 0
        · have hex' : (lift x g c).exec > 0 := hex
          simp [hex, hex', Except.map]
        · have hex' : ¬ (lift x g c).exec > 0 := hex
          simp only [hex, hex', if_false, Except.map]
          congr 1
          simp only [e2, createOrReplace_lift hf.m hk fid, journalEntry_lift hf.m hk]
          simp [lift, liftSt]
      · intro s hs hne
        simp only [step] at hs
        by_cases hex : c.exec > 0
        · simp [hex] at hs
        · simp only [hex, if_false] at hs; cases hs; rfl
    | fail =>
      refine ⟨g, ?_, ?_⟩
      · simp [step, liftSt, Ev.ren, Except.map]
      · intro s hs hne; simp only [step] at hs; cases hs


theorem run_lift {H : Decl → Nat} {x : Extra} (hx : x.wf) (evs : List Ev) {st : St} (hg : Good x st)
    (he : evs.all (Ev.avoids x) = true) (g : Option Fn) (hgc : st.child ≠ none → g = st.ctx.fbacked) :
    ∃ g', runEvents H (liftSt x g st) (evs.map (Ev.ren x.ρ)) =
        ((runEvents H st evs).1, liftSt x g' (runEvents H st evs).2) ∧
      ((runEvents H st evs).2.child ≠ none → g' = (runEvents H st evs).2.ctx.fbacked) := by
  induction evs generalizing st g with
  | nil => exact ⟨g, rfl, hgc⟩
  | cons e es ih =>
    simp only [List.all_cons, Bool.and_eq_true] at he
    obtain ⟨g1, h1, h2⟩ := step_lift (H := H) hx hg he.1 g hgc
    simp only [List.map_cons, runEvents]
    rw [h1]
    cases hs : step H st e with
    | error err => simp only [Except.map]; exact ⟨g, rfl, hgc⟩
    | ok st' =>
      simp only [Except.map]
      exact ih (good_step hg he.1 hs) he.2 g1 (h2 st' hs)

theorem fits_unwindFrames {x : Extra} (stk : List Frame) {c : Ctx} (hf : Fits x c) : Fits x (unwindFrames stk c) := by
  induction stk generalizing c with
  | nil => exact hf
  | cons fr rest ih => exact ih (fits_exitCatch fr hf)

theorem fits_rollbackCtx {x : Extra} {c : Ctx} (hf : Fits x c) (hlt : c.fbacked = none → x.m0 < c.fns.length) :
    Fits x (rollbackCtx c) := by
  refine ⟨hf.n, hf.al, ?_⟩
  unfold rollbackCtx rollback
  cases hb : c.fbacked with
  | none => simp only [List.length_dropLast]; have := hlt hb; omega
  | some b =>
    simp only
    cases findFn b.name b.arity c.fns with
    | none => exact hf.m
    | some i => simp only [length_modAt]; exact hf.m

theorem unwind_lift {x : Extra} (hx : x.wf) {st : St} (hg : Good x st) (g : Option Fn)
    (hgc : st.child ≠ none → g = st.ctx.fbacked) :
    ∃ g', unwind (liftSt x g st) = lift x g' (unwind st) ∧ Fits x (unwind st) := by
  unfold unwind
  cases hch : st.child with
  | none =>
    refine ⟨g, ?_, fits_unwindFrames _ hg.fits⟩
    simp only [liftSt, hch]
    exact unwindFrames_lift hx st.stack hg.fits g
  | some ch =>
    have hgeq : g = st.ctx.fbacked := hgc (by rw [hch]; simp)
    obtain ⟨hk, hb, hlt⟩ := hg.opened ch hch
    have hfr := fits_rollbackCtx hg.fits hlt
    refine ⟨(rollback st.ctx.fns st.ctx.fbacked).2, ?_, fits_unwindFrames _ hfr⟩
    simp only [liftSt, hch]
    have hr : rollbackCtx (lift x g st.ctx) = lift x (rollback st.ctx.fns st.ctx.fbacked).2 (rollbackCtx st.ctx) := by
      unfold rollbackCtx
      have e1 : (lift x g st.ctx).fns = ins x.m0 x.fns st.ctx.fns := rfl
      have e2 : (lift x g st.ctx).fbacked = st.ctx.fbacked := hgeq
      simp only [e1, e2, rollback_lift hg.fits.m st.ctx.fbacked (fun b hb' => avoid_is (hb b hb') hk) hlt]
      simp [lift]
    rw [hr]
    exact unwindFrames_lift hx st.stack hfr _

theorem fits_parsingEnd {H : Decl → Nat} {x : Extra} {c1 : Ctx} (h : Fits x c1) : Fits x (parsingEnd H c1) := by
  refine ⟨h.n, ?_, h.m⟩
  have := h.al
  unfold Ctx.aligned at this ⊢
  have hl : ∀ (bs : List Backup) (tds : List TD), (restoreAll H bs tds).length = tds.length := by
    intro bs
    induction bs with
    | nil => intro tds; rfl
    | cons b bs ih => intro tds; simp only [restoreAll, restoreOne]; rw [ih, length_modAt]
  simp only [parsingEnd, hl]; exact this

/-- the whole catch path of `Parser::parse` — inner catch blocks, `parsingRevert`, `parsingEnd` — commutes with the insertion -/
theorem reject_lift {H : Decl → Nat} {x : Extra} (hx : x.wf) {st : St} (hg : Good x st) (g : Option Fn)
    (hgc : st.child ≠ none → g = st.ctx.fbacked) :
    ∃ g', rejectCtx H (liftSt x g st) = lift x g' (rejectCtx H st) ∧ Fits x (rejectCtx H st) := by
  obtain ⟨g2, hu, hfu⟩ := unwind_lift hx hg g hgc
  have hfit' : Fits x { unwind st with fns := revertFns st.fmark st.journal (unwind st).fns } := by
    refine ⟨hfu.n, hfu.al, ?_⟩
    simp only [length_revertFns]
    have := hg.mark; have := hfu.m
    omega
  refine ⟨g2, ?_, fits_parsingEnd hfit'⟩
  have hrev := revertFns_lift x.m0 x.fns hg.mark st.journal hfu.m
  have hc : { lift x g2 (unwind st) with fns := revertFns (liftSt x g st).fmark (liftSt x g st).journal (lift x g2 (unwind st)).fns }
      = lift x g2 { unwind st with fns := revertFns st.fmark st.journal (unwind st).fns } := by
    simp only [lift, liftSt, Ctx.mk.injEq, and_true, true_and]
    exact hrev
  simp only [rejectCtx]
  rw [hu, hc, parsingEnd_lift hx hfit' g2]

theorem init_lift {x : Extra} {c : Ctx} (hf : Fits x c) (g : Option Fn) : St.init (lift x g c) = liftSt x g (St.init c) := by
  simp only [St.init, liftSt, List.map_nil, St.mk.injEq, and_true, true_and]
  exact ⟨rfl, length_ins _ _ _ hf.m⟩

theorem good_init {x : Extra} {c : Ctx} (hf : Fits x c) : Good x (St.init c) :=
  ⟨⟨hf.n, hf.al, hf.m⟩, (by intro ch h; cases h), hf.m⟩

/-- **a whole parse commutes with the insertion**: the outcome in the disturbed context is the outcome in the undisturbed
one with the left-overs inserted (same verdict) -/
theorem parseText_lift {H : Decl → Nat} {x : Extra} (hx : x.wf) {c : Ctx} (hf : Fits x c) (evs : List Ev)
    (he : evs.all (Ev.avoids x) = true) (g : Option Fn) :
    ∃ g', parseText H (lift x g c) (evs.map (Ev.ren x.ρ)) = (parseText H c evs).map (lift x g') := by
  have hg0 : Good x (St.init c) := good_init hf
  have hinit : St.init (lift x g c) = liftSt x g (St.init c) := init_lift hf g
  obtain ⟨g1, h1, h2⟩ := run_lift (H := H) hx evs hg0 he g (by intro h; exact absurd rfl h)
  unfold parseText
  rw [hinit, h1]
  have hgood := good_run (H := H) evs hg0 he
  generalize runEvents H (St.init c) evs = res at h2 hgood ⊢
  obtain ⟨threw, st⟩ := res
  simp only at h2 hgood ⊢
  have e1 : (liftSt x g1 st).stack.isEmpty = st.stack.isEmpty := by simp [liftSt]
  have e2 : (liftSt x g1 st).child = st.child := rfl
  rw [e1, e2]
  by_cases hcond : (threw || !st.stack.isEmpty || st.child.isSome) = true
  · obtain ⟨g2, hu, hfu⟩ := reject_lift (H := H) hx hgood g1 h2
    refine ⟨g2, ?_⟩
    simp only [hcond, if_true, Outcome.map]
    rw [hu]
  · refine ⟨g1, ?_⟩
    have : (liftSt x g1 st).ctx = lift x g1 st.ctx := rfl
    rw [this, parsingEnd_lift hx hgood.fits g1]
    simp [hcond, Outcome.map]


/-! ### the statement level: the same TEXT compiles to the renamed events -/

theorem aligned_lift {x : Extra} (hx : x.wf) {c : Ctx} (hf : Fits x c) (g : Option Fn) : (lift x g c).aligned := by
  unfold Ctx.aligned
  simp only [lift]
  rw [length_ins _ _ _ hf.t, length_ins _ _ _ hf.f, length_ins _ _ _ hf.n, hf.al.1, hf.al.2, hx.t, hx.f]
  exact ⟨rfl, rfl⟩

theorem registerSymbol_names_le {H : Decl → Nat} {c c' : Ctx} {n : String} {r : RegTy}
    (h : registerSymbol H c n r = .ok c') : c.names.length ≤ c'.names.length := by
  rcases registerSymbol_cases h with h | h | ⟨i, cur, _, h⟩
  · subst h; exact Nat.le_refl _
  · subst h; simp
  · subst h; exact Nat.le_refl _

theorem protectedIter_lift {x : Extra} (hx : x.wf) {c : Ctx} (hf : Fits x c) (g : Option Fn) {v : String}
    (hv : x.names.contains v = false) : protectedIter (lift x g c) v = protectedIter c v := by
  unfold protectedIter
  have e0 : (lift x g c).names = ins x.n0 x.names c.names := rfl
  rw [e0, findName_ins hv hf.n]
  cases findName v c.names with
  | none => rfl
  | some i =>
    simp only [Option.map_some]
    have e2 : (lift x g c).fls[ren x.n0 x.names.length i]? = c.fls[i]? := fls_ren hx hf.f i
    rw [e2]

theorem targetId_lift {x : Extra} {c : Ctx} (hf : Fits x c) (g : Option Fn) {tgt : Option String}
    (ht : ∀ t, tgt = some t → x.names.contains t = false) :
    targetId (lift x g c) tgt = (targetId c tgt).map (Option.map x.ρ) := by
  cases tgt with
  | none => rfl
  | some t =>
    have e0 : (lift x g c).names = ins x.n0 x.names c.names := rfl
    simp only [targetId, e0, findName_ins (ht t rfl) hf.n]
    cases findName t c.names <;> rfl

theorem compile1_lift {H : Decl → Nat} {x : Extra} (hx : x.wf) {st : St} (hf : Fits x st.ctx) {e : NEv}
    (he : e.avoids x = true) (g : Option Fn) :
    compile1 H (liftSt x g st) e = (compile1 H st e).map (Ev.ren x.ρ) := by
  obtain ⟨c, stk, child⟩ := st
  cases child with
  | some ch => cases e <;> simp [compile1, liftSt, NEv.inChild, Ev.ren]
  | none =>
    cases e with
    | reg n r => simp [compile1, liftSt, Ev.ren]
    | enterBlk => simp [compile1, liftSt, Ev.ren]
    | leave => simp [compile1, liftSt, Ev.ren]
    | fnBegin n a f => simp [compile1, liftSt, Ev.ren]
    | fail => simp [compile1, liftSt, Ev.ren]
    | forLoop n =>
      have hn : x.names.contains n = false := by simpa [NEv.avoids] using he
      simp only [compile1, liftSt]
      rw [registerSymbol_lift hx hf g hn]
      cases hr : registerSymbol H c n (.plain intTy) with
      | error err => simp [Except.map, Ev.ren]
      | ok c1 =>
        simp only [Except.map]
        have e0 : (lift x g c1).names = ins x.n0 x.names c1.names := rfl
        rw [e0, findName_ins hn (Nat.le_trans hf.n (registerSymbol_names_le hr))]
        cases findName n c1.names <;> simp [Ev.ren, Extra.ρ]
    | forallLoop v r tgt =>
      have hv : x.names.contains v = false ∧ (∀ t, tgt = some t → x.names.contains t = false) := by
        simp only [NEv.avoids, Bool.and_eq_true, Bool.not_eq_true'] at he
        refine ⟨he.1, ?_⟩
        intro t ht; subst ht; simpa using he.2
      simp only [compile1, liftSt]
      simp only [protectedIter_lift hx hf g hv.1, targetId_lift hf g hv.2]
      by_cases hp : protectedIter c v = true
      · simp [hp, Ev.ren]
      · simp only [hp, if_false]
        cases targetId c tgt with
        | none => simp [Ev.ren]
        | some t =>
          simp only [Option.map_some]
          rw [registerSymbol_lift hx hf g hv.1]
          cases hr : registerSymbol H c v r with
          | error err => simp [Except.map, Ev.ren]
          | ok c1 =>
            simp only [Except.map]
            have e0 : (lift x g c1).names = ins x.n0 x.names c1.names := rfl
            rw [e0, findName_ins hv.1 (Nat.le_trans hf.n (registerSymbol_names_le hr))]
            cases findName v c1.names <;> simp [Ev.ren, Extra.ρ]

theorem compile1_avoids {H : Decl → Nat} {x : Extra} (st : St) {e : NEv} (he : e.avoids x = true) :
    (compile1 H st e).all (Ev.avoids x) = true := by
  unfold compile1
  cases st.child with
  | some ch => cases e <;> simp_all [NEv.inChild, Ev.avoids, NEv.avoids]
  | none =>
    cases e with
    | reg n r => simpa [Ev.avoids, NEv.avoids] using he
    | enterBlk => simp [Ev.avoids]
    | leave => simp [Ev.avoids]
    | fnBegin n a f => simpa [Ev.avoids, NEv.avoids] using he
    | fail => simp [Ev.avoids]
    | forLoop n =>
      have hn : ¬ n ∈ x.names := by simpa [NEv.avoids] using he
      simp only
      cases registerSymbol H st.ctx n (.plain intTy) with
      | error err => simp [Ev.avoids, hn]
      | ok c1 => simp only; cases findName n c1.names <;> simp [Ev.avoids, hn]
    | forallLoop v r tgt =>
      have hv : ¬ v ∈ x.names := by
        simp only [NEv.avoids, Bool.and_eq_true, Bool.not_eq_true'] at he; simpa using he.1
      simp only
      split
      · simp [Ev.avoids]
      · cases targetId st.ctx tgt with
        | none => simp [Ev.avoids]
        | some t =>
          simp only
          cases registerSymbol H st.ctx v r with
          | error err => simp [Ev.avoids, hv]
          | ok c1 => simp only; cases findName v c1.names <;> simp [Ev.avoids, hv]

/-- one statement head commutes with the insertion -/
theorem nstepE_lift {H : Decl → Nat} {x : Extra} (hx : x.wf) {st : St} (hg : Good x st) {e : NEv} (he : e.avoids x = true)
    (g : Option Fn) (hgc : st.child ≠ none → g = st.ctx.fbacked) :
    ∃ g', nstepE H (liftSt x g st) e = ((nstepE H st e).1, liftSt x g' (nstepE H st e).2) ∧
      ((nstepE H st e).2.child ≠ none → g' = (nstepE H st e).2.ctx.fbacked) ∧ Good x (nstepE H st e).2 := by
  have hal2 : (liftSt x g st).ctx.aligned := aligned_lift hx hg.fits g
  rw [nstepE_eq hal2, nstepE_eq hg.fits.al, compile1_lift hx hg.fits he g]
  obtain ⟨g', h1, h2⟩ := run_lift (H := H) hx (compile1 H st e) hg (compile1_avoids st he) g hgc
  exact ⟨g', h1, h2, good_run _ hg (compile1_avoids st he)⟩

theorem nrun_lift {H : Decl → Nat} {x : Extra} (hx : x.wf) (evs : List NEv) {st : St} (hg : Good x st)
    (he : evs.all (NEv.avoids x) = true) (g : Option Fn) (hgc : st.child ≠ none → g = st.ctx.fbacked) :
    ∃ g', nrun H (liftSt x g st) evs = ((nrun H st evs).1, liftSt x g' (nrun H st evs).2) ∧
      ((nrun H st evs).2.child ≠ none → g' = (nrun H st evs).2.ctx.fbacked) ∧ Good x (nrun H st evs).2 := by
  induction evs generalizing st g with
  | nil => exact ⟨g, rfl, hgc, hg⟩
  | cons e es ih =>
    simp only [List.all_cons, Bool.and_eq_true] at he
    obtain ⟨g1, h1, h2, h3⟩ := nstepE_lift (H := H) hx hg he.1 g hgc
    simp only [nrun]
    rw [h1]
    generalize nstepE H st e = res at h2 h3 ⊢
    obtain ⟨threw, s⟩ := res
    cases threw with
    | true => exact ⟨g1, rfl, h2, h3⟩
    | false => exact ih h3 he.2 g1 h2

/-- **a whole statement-level parse commutes with the insertion** -/
theorem parseTextN_lift {H : Decl → Nat} {x : Extra} (hx : x.wf) {c : Ctx} (hf : Fits x c) (evs : List NEv)
    (he : evs.all (NEv.avoids x) = true) (g : Option Fn) :
    ∃ g', parseTextN H (lift x g c) evs = (parseTextN H c evs).map (lift x g') ∧ Fits x (parseTextN H c evs).ctx := by
  have hg0 : Good x (St.init c) := good_init hf
  have hinit : St.init (lift x g c) = liftSt x g (St.init c) := init_lift hf g
  obtain ⟨g1, h1, h2, hgood⟩ := nrun_lift (H := H) hx evs hg0 he g (by intro h; exact absurd rfl h)
  unfold parseTextN
  rw [hinit, h1]
  generalize nrun H (St.init c) evs = res at h2 hgood ⊢
  obtain ⟨threw, st⟩ := res
  simp only at h2 hgood ⊢
  have e1 : (liftSt x g1 st).stack.isEmpty = st.stack.isEmpty := by simp [liftSt]
  have e2 : (liftSt x g1 st).child = st.child := rfl
  rw [e1, e2]
  have hpe : ∀ c1 : Ctx, Fits x c1 → Fits x (parsingEnd H c1) := fun c1 h => fits_parsingEnd h
  by_cases hcond : (threw || !st.stack.isEmpty || st.child.isSome) = true
  · obtain ⟨g2, hu, hfu⟩ := reject_lift (H := H) hx hgood g1 h2
    refine ⟨g2, ?_, ?_⟩
    · simp only [hcond, if_true, Outcome.map]
      rw [hu]
    · simp only [hcond, if_true, Outcome.ctx]; exact hfu
  · refine ⟨g1, ?_, ?_⟩
    · have : (liftSt x g1 st).ctx = lift x g1 st.ctx := rfl
      rw [this, parsingEnd_lift hx hgood.fits g1]
      simp [hcond, Outcome.map]
    · simp only [hcond, Outcome.ctx]; exact hpe _ hgood.fits


/-! ### no left-overs: `lift` only sets `_backed` -/

def Extra.none (c : Ctx) : Extra := ⟨c.names.length, [], [], [], c.fns.length, []⟩

theorem ins_nil {α : Type} (n0 : Nat) (l : List α) : ins n0 [] l = l := by
  simp [ins]

theorem ren_zero (n0 i : Nat) : ren n0 0 i = i := by
  unfold ren; split <;> rfl

theorem lift_none (c0 : Ctx) (g : Option Fn) (c : Ctx) : lift (Extra.none c0) g c = { c with fbacked := g } := by
  have hρ : ∀ i, (Extra.none c0).ρ i = i := fun i => ren_zero _ i
  have hb : c.backed.map (fun b => (⟨(Extra.none c0).ρ b.id, b.td⟩ : Backup)) = c.backed := by
    conv => rhs; rw [← List.map_id c.backed]
    apply List.map_congr_left
    intro b _
    simp [hρ]
  simp only [lift, hb]
  simp [Extra.none, ins_nil]

theorem Ev.ren_id (e : Ev) : e.ren id = e := by
  cases e <;> simp [Ev.ren]

theorem nev_avoids_none (c0 : Ctx) (e : NEv) : e.avoids (Extra.none c0) = true := by
  cases e with
  | forallLoop v r tgt => cases tgt <;> simp [NEv.avoids, Extra.none]
  | _ => simp [NEv.avoids, Extra.none]

theorem ev_avoids_none (c0 : Ctx) (e : Ev) : e.avoids (Extra.none c0) = true := by
  cases e <;> simp [Ev.avoids, Extra.none]

theorem wf_none (c0 : Ctx) : (Extra.none c0).wf := ⟨rfl, rfl⟩

theorem fits_none {c : Ctx} (h : c.aligned) : Fits (Extra.none c) c := ⟨Nat.le_refl _, h, Nat.le_refl _⟩

/-- the outcome of a parse is an aligned context -/
theorem aligned_parseTextN {H : Decl → Nat} {c : Ctx} (h : c.aligned) (evs : List NEv) : (parseTextN H c evs).ctx.aligned := by
  obtain ⟨_, _, hf⟩ := parseTextN_lift (H := H) (wf_none c) (fits_none h) evs
    (by rw [List.all_eq_true]; intro e _; exact nev_avoids_none c e) none
  exact hf.al

/-! ### coherence is kept by a whole parse -/

theorem restoreTD_coherent' (H : Decl → Nat) (b : Backup) : (restoreTD H b).coherent H = true := by
  unfold restoreTD
  split
  · have hl : (mkTupleTy H b.td.2 b.td.1.level).level = b.td.1.level := by unfold mkTupleTy; split <;> rfl
    simp [TD.coherent, hl]
  · simp [TD.coherent]

theorem coherent_restoreAll (H : Decl → Nat) (bs : List Backup) (tds : List TD) (h : tds.all (TD.coherent H) = true) :
    (restoreAll H bs tds).all (TD.coherent H) = true := by
  induction bs generalizing tds with
  | nil => exact h
  | cons b bs ih =>
    simp only [restoreAll, restoreOne]
    exact ih _ (all_modAt_const _ _ _ _ h (restoreTD_coherent' H b))

theorem coherent_parseText {H : Decl → Nat} {c : Ctx} (hidle : c.idle = true) (hcoh : c.coherent H = true) (evs : List Ev) :
    (parseText H c evs).ctx.coherent H = true := by
  have hinv := inv_run (H := H) evs (inv_init H c hidle hcoh)
  unfold parseText
  generalize runEvents H (St.init c) evs = res at hinv
  obtain ⟨threw, st⟩ := res
  simp only at hinv ⊢
  have hc := hinv.coh
  have hun : (unwind st).tds = st.ctx.tds := by
    unfold unwind
    obtain ⟨_, o2, _⟩ := unwindFrames_other st.stack (match st.child with | some _ => rollbackCtx st.ctx | none => st.ctx)
    exact o2.trans (by cases st.child <;> simp [rollbackCtx])
  split
  · simp only [Outcome.ctx, Ctx.coherent, rejectCtx, parsingEnd, hun]
    exact coherent_restoreAll H _ _ hc
  · simp only [Outcome.ctx, Ctx.coherent, parsingEnd]
    exact coherent_restoreAll H _ _ hc

/-! ### small lemmas for the history theorems -/

theorem ins_leftover {α : Type} (l l' : List α) (h : l'.take l.length = l) : l' = ins l.length (l'.drop l.length) l := by
  unfold ins
  rw [List.take_length, List.drop_length, List.append_nil]
  conv => lhs; rw [← List.take_append_drop l.length l', h]

theorem runHistory_append (H : Decl → Nat) (c : Ctx) (a b : List Text) :
    runHistory H c (a ++ b) =
      ((runHistory H c a).1 ++ (runHistory H (runHistory H c a).2 b).1, (runHistory H (runHistory H c a).2 b).2) := by
  induction a generalizing c with
  | nil => rfl
  | cons t ts ih =>
    simp only [List.cons_append, runHistory]
    rw [ih]

/-- one submitted text commutes with the insertion of left-overs into the parse-time tables: same verdict, same run -/
theorem submit_lift (H : Decl → Nat) (fuel : Nat) {x : Extra} (hx : x.wf) (s : Session.Sess) (hf : Fits x s.pc) (g : Option Fn)
    (T : Session.Sub) (hT : T.eff.all (NEv.avoids x) = true) :
    ∃ g', Session.submit H fuel { s with pc := lift x g s.pc } T
        = ({ (Session.submit H fuel s T).1 with pc := lift x g' (Session.submit H fuel s T).1.pc }, (Session.submit H fuel s T).2)
      ∧ Fits x (Session.submit H fuel s T).1.pc := by
  obtain ⟨g', h, hfit⟩ := parseTextN_lift (H := H) hx hf T.eff hT g
  refine ⟨g', ?_, ?_⟩
  · simp only [Session.submit, h]
    cases parseTextN H s.pc T.eff <;> rfl
  · simp only [Session.submit]
    cases hp : parseTextN H s.pc T.eff <;> (rw [hp] at hfit; exact hfit)

theorem submitAll_lift (H : Decl → Nat) (fuel : Nat) {x : Extra} (hx : x.wf) (ts : List Session.Sub) (s : Session.Sess)
    (hf : Fits x s.pc) (g : Option Fn) (hts : ts.all (fun t => t.eff.all (NEv.avoids x)) = true) :
    (Session.submitAll H fuel { s with pc := lift x g s.pc } ts).1 = (Session.submitAll H fuel s ts).1 ∧
    ∃ g', (Session.submitAll H fuel { s with pc := lift x g s.pc } ts).2
      = { (Session.submitAll H fuel s ts).2 with pc := lift x g' (Session.submitAll H fuel s ts).2.pc } := by
  induction ts generalizing s g with
  | nil => exact ⟨rfl, g, rfl⟩
  | cons t ts ih =>
    simp only [List.all_cons, Bool.and_eq_true] at hts
    obtain ⟨g1, h1, hf1⟩ := submit_lift H fuel hx s hf g t hts.1
    simp only [Session.submitAll]
    rw [h1]
    obtain ⟨ihv, g2, ihc⟩ := ih (Session.submit H fuel s t).1 hf1 g1 hts.2
    exact ⟨by rw [ihv], g2, ihc⟩

end BlocV.ParseCtx
