/-
  C13R3 — a string literal with plain content, scanned whole: `"` LITERALBEG, one LITERALSTR per byte (line breaks
  included), `"` LITERALEND, and what `Parser::next_token` makes of it (one token with the full text).
-/
import BlocV.Proofs.Lemmas.LexReaders
import BlocV.Proofs.Lemmas.Scan
import BlocV.Spec.Lex

namespace BlocV.Lex
open BlocV BlocV.Scan

def strTok (c : UInt8) : Tok := ⟨tLITERALSTR, [c]⟩

theorem pick_literal_plain (bol : Bool) (c : UInt8) (t : Bytes) (h : plainByte c = true) :
    pick (rulesOf .literal) bol (c :: t) = (some tLITERALSTR, 1) := by
  simp only [plainByte, Bool.and_eq_true, bne_iff_ne, ne_eq] at h
  obtain ⟨⟨h34, h92⟩, _⟩ := h
  have e34 : ((34 : UInt8) == c) = false := by simp; exact fun e => h34 e.symm
  have e92 : ((92 : UInt8) == c) = false := by simp; exact fun e => h92 e.symm
  simp [rulesOf, rulesLiteral, pick, cand, longest, matchLens, isPre, e34, e92, maxL, anyByte]

def midI : List Rule := (rulesInitial.drop 2).take 21
theorem rulesInitial_split_lit : rulesInitial = preA ++ litR :: (midI ++ [dfR]) := rfl
theorem tbl_quote : (preA.all fun r => !first r.re 34) = true ∧ (midI.all fun r => !first r.re 34) = true := by decide +kernel

theorem pick_initial_quote (bol : Bool) (s : Bytes) : pick (rulesOf .initial) bol (34 :: s) = (some tLITERALBEG, 1) := by
  have dead : ∀ (l : List Rule), (l.all fun r => !first r.re 34) = true → ∀ r ∈ l, cand r bol (34 :: s) = 0 := by
    intro l hl r hr
    have := List.all_eq_true.mp hl r hr
    exact cand_dead bol s (by simpa using this)
  have hdf : pick (midI ++ [dfR]) bol (34 :: s) = (none, 1) := by
    rw [pick_dead_prefix midI [dfR] bol (34 :: s) (dead midI tbl_quote.2)]
    simp [pick, cand, dfR, longest, matchLens, anyByte, maxL]
  have hlit : cand litR bol (34 :: s) = 1 := by
    simp [cand, litR, longest, matchLens, reSP, isPre, maxL]
  show pick rulesInitial bol (34 :: s) = _
  rw [rulesInitial_split_lit, pick_dead_prefix preA _ bol (34 :: s) (dead preA tbl_quote.1)]
  exact pick_take hlit (by decide) (by rw [hdf]; decide)

theorem lex_literal_end (bol : Bool) : lex .literal bol [34] = ([⟨tLITERALEND, [34]⟩], .initial) := by
  cases bol <;> decide

theorem lex_literal_plain : ∀ (content : Bytes) (bol : Bool), content.all plainByte = true →
    lex .literal bol (content ++ [34]) = (content.map strTok ++ [⟨tLITERALEND, [34]⟩], .initial) := by
  intro content
  induction content with
  | nil => intro bol _; exact lex_literal_end bol
  | cons c t ih =>
    intro bol h
    simp only [List.all_cons, Bool.and_eq_true] at h
    have hp := pick_literal_plain bol c (t ++ [34]) h.1
    simp only [List.cons_append]
    rw [lex_cons, hp]
    have hn : nextSt .literal (some tLITERALSTR) = .literal := by decide
    simp only [Nat.one_ne_zero, if_false, List.take_succ_cons, List.take_zero, List.drop_succ_cons, List.drop_zero, hn, ih _ h.2]
    simp [emit, strTok]

theorem lexWhole_literal (content : Bytes) (h : content.all plainByte = true) :
    lexWhole (34 :: content ++ [34]) = ⟨tLITERALBEG, [34]⟩ :: (content.map strTok ++ [⟨tLITERALEND, [34]⟩]) := by
  unfold lexWhole
  simp only [List.cons_append]
  rw [lex_cons, pick_initial_quote]
  have hn : nextSt .initial (some tLITERALBEG) = .literal := by decide
  simp only [Nat.one_ne_zero, if_false, List.take_succ_cons, List.take_zero, List.drop_succ_cons, List.drop_zero, hn,
    lex_literal_plain content _ h]
  simp [emit]

theorem reasm_strs (k : Bool) : ∀ (content buf : Bytes) (rest : List Tok),
    reasm k buf (content.map strTok ++ rest) = reasm k (buf ++ content) rest := by
  intro content
  induction content with
  | nil => intro buf rest; simp
  | cons c t ih =>
    intro buf rest
    have e1 : ¬ tLITERALSTR = 10 := by decide
    have e2 : ¬ tLITERALSTR = tSPACE := by decide
    have e3 : ¬ tLITERALSTR = tLITERALBEG := by decide
    simp only [List.map_cons, List.cons_append, reasm, strTok, e1, e2, e3, if_false, if_true, ih]
    simp

/-- The parser's view of a whole literal with plain content: ONE token carrying every byte, line breaks included. -/
theorem specStream_literal (k : Bool) (content : Bytes) (h : content.all plainByte = true) :
    specStream k (34 :: content ++ [34]) = [⟨tLITERALSTR, 34 :: content ++ [34]⟩] := by
  unfold specStream
  rw [lexWhole_literal content h]
  have e1 : ¬ tLITERALBEG = 10 := by decide
  have e2 : ¬ tLITERALBEG = tSPACE := by decide
  have f1 : ¬ tLITERALEND = 10 := by decide
  have f2 : ¬ tLITERALEND = tSPACE := by decide
  have f3 : ¬ tLITERALEND = tLITERALBEG := by decide
  have f4 : ¬ tLITERALEND = tLITERALSTR := by decide
  simp only [reasm, e1, e2, if_false, if_true, reasm_strs, f1, f2, f3, f4]
  simp

end BlocV.Lex
