/-
  Helper lemmas relating the model's `Int64`/`UInt64` arithmetic to mathematical integers.
  (Helper lemmas only — the property theorems are in BlocV/Proofs/Cnn.lean.)
-/
import BlocV.Model.Ops
import BlocV.Spec.Arith

namespace BlocV.Lemmas
open BlocV

theorem pattern_toInt (x : Int64) : Spec.pattern x.toInt = x.toUInt64.toNat := by
  unfold Spec.pattern
  have h : x.toInt = x.toBitVec.toInt := rfl
  rw [h, BitVec.toInt_eq_toNat_bmod]
  have h2 : ((2:Int) ^ 64) = ((2 ^ 64 : Nat) : Int) := by norm_cast
  rw [h2, Int.bmod_emod]
  have h3 : x.toBitVec.toNat = x.toUInt64.toNat := rfl
  rw [h3]
  have := x.toUInt64.toNat_lt
  omega

theorem toInt_toInt64 (u : UInt64) : u.toInt64.toInt = Spec.wrap u.toNat := by
  unfold Spec.wrap
  have h : u.toInt64.toInt = u.toBitVec.toInt := rfl
  rw [h, BitVec.toInt_eq_toNat_bmod]
  rfl

theorem toNat_toUInt64_of_nonneg (n : Int64) (h : 0 ≤ n.toInt) : n.toUInt64.toNat = n.toInt.toNat := by
  have := pattern_toInt n
  unfold Spec.pattern at this
  have h1 := Int64.toInt_lt n
  rw [← this]
  congr 1
  omega

theorem ge_iff (n : Int64) (k : Int64) : (n ≥ k) ↔ n.toInt ≥ k.toInt := by
  show k ≤ n ↔ _
  rw [Int64.le_iff_toInt_le]

theorem le_iff (n : Int64) (k : Int64) : (n ≤ k) ↔ n.toInt ≤ k.toInt := Int64.le_iff_toInt_le

theorem toInt_zero_sub (n : Int64) (h : n.toInt ≠ -2 ^ 63) : (0 - n).toInt = -n.toInt := by
  rw [Int64.toInt_sub]; simp
  have := Int64.le_toInt n
  have := Int64.toInt_lt n
  rw [Int.bmod_eq_of_le] <;> omega

theorem aux_even (r b q M : Nat) : (r * ((b * b) % M) ^ q) % M = (r * b ^ (2 * q)) % M := by
  rw [Nat.mul_mod, Nat.pow_mod, Nat.mod_mod, ← Nat.pow_mod, ← Nat.mul_mod, Nat.pow_mul, Nat.pow_two]

theorem aux_odd (r b q M : Nat) : (((r * b) % M) * ((b * b) % M) ^ q) % M = (r * b ^ (2 * q + 1)) % M := by
  rw [Nat.mul_mod, Nat.mod_mod, Nat.pow_mod, Nat.mod_mod, ← Nat.pow_mod, ← Nat.mul_mod, Nat.pow_succ,
    Nat.pow_mul, Nat.pow_two]
  congr 1
  rw [Nat.mul_assoc, Nat.mul_comm b]

theorem and_one_beq (n : UInt64) : (n &&& 1 == 1) = (n.toNat % 2 == 1) := by
  have h : (n &&& 1).toNat = n.toNat % 2 := by
    rw [UInt64.toNat_and]; exact Nat.and_one_is_mod _
  by_cases hc : n.toNat % 2 = 1
  · have : n &&& 1 = 1 := by apply UInt64.toNat_inj.mp; rw [h, hc]; rfl
    rw [this, hc]; rfl
  · have : ¬ (n &&& 1 = 1) := by
      intro e; apply hc; rw [← h, e]; rfl
    have e1 : (n &&& 1 == 1) = false := by simpa using this
    have e2 : (n.toNat % 2 == 1) = false := by simpa using hc
    rw [e1, e2]

/-- The square-and-multiply loop computes `r · b^n mod 2^64` whenever the fuel covers the bits of `n`. -/
theorem powLoop_spec : ∀ (fuel : Nat) (r b n : UInt64), n.toNat < 2 ^ fuel →
    (Num.powLoop fuel r b n).toNat = (r.toNat * b.toNat ^ n.toNat) % 2 ^ 64 := by
  intro fuel
  induction fuel with
  | zero =>
    intro r b n h
    have h0 : n.toNat = 0 := by omega
    have := r.toNat_lt
    simp only [Num.powLoop, h0, Nat.pow_zero, Nat.mul_one]
    omega
  | succ f ih =>
    intro r b n h
    unfold Num.powLoop
    split
    · rename_i h0
      have h1 : n = 0 := by simpa using h0
      subst h1
      have := r.toNat_lt
      simp only [UInt64.toNat_zero, Nat.pow_zero, Nat.mul_one]
      omega
    · have hn : (n >>> 1).toNat = n.toNat / 2 := by
        rw [UInt64.toNat_shiftRight]
        show n.toNat >>> (1 % 64) = _
        rw [Nat.shiftRight_eq_div_pow]
      have hlt : (n >>> 1).toNat < 2 ^ f := by rw [hn]; omega
      rw [ih _ _ _ hlt, hn, UInt64.toNat_mul, and_one_beq]
      by_cases hodd : n.toNat % 2 = 1
      · simp only [hodd, beq_self_eq_true, if_true]
        rw [UInt64.toNat_mul, aux_odd]
        have e : 2 * (n.toNat / 2) + 1 = n.toNat := by omega
        rw [e]
      · have hev : n.toNat % 2 = 0 := by omega
        have : (n.toNat % 2 == 1) = false := by simp [hev]
        simp only [this, Bool.false_eq_true, if_false]
        rw [aux_even]
        have e : 2 * (n.toNat / 2) = n.toNat := by omega
        rw [e]

theorem pow_emod (a M : Int) (k : Nat) : (a % M) ^ k % M = a ^ k % M := by
  induction k with
  | zero => simp
  | succ k ih =>
    rw [Int.pow_succ, Int.pow_succ, Int.mul_emod, ih, Int.emod_emod_of_dvd _ (Int.dvd_refl M), ← Int.mul_emod]


/-! ### Outcome plumbing and the decimal cells of `arith` (used by Proofs/C03.lean) -/

/-- An integer outcome as a value outcome. -/
def intRes : Res Int64 → Res Val
  | .ok r => .ok (.int r)
  | .err c a => .err c a
  | .haz h => .haz h
  | .unmodelled => .unmodelled

theorem bind_intRes (r : Res Int64) : (r >>= fun x => pure (Val.int x)) = intRes r := by cases r <;> rfl

/-- A decimal outcome as a value outcome. -/
def numRes : Res Num.F64 → Res Val
  | .ok r => .ok (.num r)
  | .err c a => .err c a
  | .haz h => .haz h
  | .unmodelled => .unmodelled

theorem bind_numRes (r : Res Num.F64) : (r >>= fun x => pure (Val.num x)) = numRes r := by cases r <;> rfl

theorem Res.bind_eq_ok {α β} (m : Res α) (k : α → Res β) (v : β) (h : (m >>= k) = .ok v) :
    ∃ a, m = .ok a ∧ k a = .ok v := by
  cases m with
  | ok a => exact ⟨a, rfl, h⟩
  | err c a => exact absurd h (by intro h; cases h)
  | haz x => exact absurd h (by intro h; cases h)
  | unmodelled => exact absurd h (by intro h; cases h)

theorem chain_num {α β} (m1 : Res α) (m2 : Res β) (ff : α → β → Res Num.F64) (v : Val)
    (h : (do let x ← m1; let y ← m2; let r ← ff x y; pure (Val.num r)) = .ok v) : ∃ r, v = .num r := by
  obtain ⟨a, _, h⟩ := Res.bind_eq_ok _ _ _ h
  obtain ⟨b, _, h⟩ := Res.bind_eq_ok _ _ _ h
  obtain ⟨r, _, h⟩ := Res.bind_eq_ok _ _ _ h
  exact ⟨r, (Res.ok.inj h).symm⟩

/-- Whatever `arith` returns when one operand has type decimal is of type decimal. -/
theorem arith_decimal (nn : Ty) (ii : Int64 → Int64 → Res Int64) (ff : Num.F64 → Num.F64 → Res Num.F64)
    (imagOk : Bool) (a1 a2 v : Val) (h : a1.type.major = .num ∨ a2.type.major = .num)
    (he : arith nn ii ff imagOk a1 a2 = .ok v) : v.type.major = .num ∧ v.type.level = 0 := by
  unfold arith at he
  simp only at he
  split at he
  · simp [inv] at he
  · rename_i hl
    simp only [bne_iff_ne, ne_eq, Bool.or_eq_true, not_or, Decidable.not_not] at hl
    split at he
    all_goals first
      | (exfalso; simp_all; done)
      | (simp [inv] at he; done)
      | (cases he; simp_all [Val.type, Ty.num]; done)
      | (split at he <;> first
          | (simp [inv] at he; done)
          | (cases he; simp_all [Val.type, Ty.num]; done)
          | (obtain ⟨r, rfl⟩ := chain_num _ _ _ _ he; exact ⟨rfl, rfl⟩))

theorem chain_int {α β} (m1 : Res α) (m2 : Res β) (ff : α → β → Res Int64) (v : Val)
    (h : (do let x ← m1; let y ← m2; let r ← ff x y; pure (Val.int r)) = .ok v) : ∃ r, v = .int r := by
  obtain ⟨a, _, h⟩ := Res.bind_eq_ok _ _ _ h
  obtain ⟨b, _, h⟩ := Res.bind_eq_ok _ _ _ h
  obtain ⟨r, _, h⟩ := Res.bind_eq_ok _ _ _ h
  exact ⟨r, (Res.ok.inj h).symm⟩

theorem chain_int2 {α β} (m1 : Res α) (m2 : Res β) (ff : α → β → Int64) (v : Val)
    (h : (do let x ← m1; let y ← m2; pure (Val.int (ff x y))) = .ok v) : ∃ r, v = .int r := by
  obtain ⟨a, _, h⟩ := Res.bind_eq_ok _ _ _ h
  obtain ⟨b, _, h⟩ := Res.bind_eq_ok _ _ _ h
  exact ⟨_, (Res.ok.inj h).symm⟩

/-- Whatever `arith` returns on two operands of type integer is of type integer. -/
theorem arith_int (nn : Ty) (ii : Int64 → Int64 → Res Int64) (ff : Num.F64 → Num.F64 → Res Num.F64)
    (imagOk : Bool) (a1 a2 v : Val) (h1 : a1.type.major = .int) (h2 : a2.type.major = .int)
    (he : arith nn ii ff imagOk a1 a2 = .ok v) : v.type = Ty.int := by
  unfold arith at he
  simp only at he
  split at he
  · simp [inv] at he
  · split at he
    all_goals first
      | (exfalso; simp_all; done)
      | (split at he <;> first
          | (cases he; rfl)
          | (obtain ⟨r, rfl⟩ := chain_int _ _ _ _ he; rfl))

/-- Whatever `bitwise` returns is of type integer. -/
theorem bitwise_int (ii : Int64 → Int64 → Int64) (a1 a2 v : Val)
    (he : bitwise ii a1 a2 = .ok v) : v.type = Ty.int := by
  unfold bitwise at he
  simp only at he
  split at he
  · simp [inv] at he
  · split at he
    all_goals first
      | (cases he; rfl)
      | (simp [inv] at he; done)
      | (split at he <;> first
          | (cases he; rfl)
          | (obtain ⟨r, rfl⟩ := chain_int2 _ _ _ _ he; rfl))
theorem range_bool (s lt m : Bool) : ((!s || lt || (s && m)) && (s || lt)) = (lt || (s && m)) := by
  cases s <;> cases lt <;> cases m <;> rfl


end BlocV.Lemmas
