/-
  Helper lemmas for C01 (whole programs): THE MUTUAL INDUCTION `nh_all` over the eight functions of the interpreter
  (eval / callFunc / evalArgs / execBlock / execList / exec / evalPrint / execIf) and the loop runners — from a state satisfying
  `Inv L` (well-formed, every traversed table variable locked), code the parser accepts under the lock `L` (`lockE` / `lockS` …,
  Model/Interp.lean) whose literals are well-formed (`litE` / `litS` …) reaches no hazard that counts and leaves a state satisfying
  `Inv L`. Every constructor of `Expr` and `Stmt` is covered. Black boxes reused: `sameIters_all` (control stack restored),
  `lock_all` (a locked table keeps its size), `memberCall_keeps`, `rootVar_locked`.
  (Helper lemmas only — the property theorems are in BlocV/Proofs/C01.lean.)
-/
import BlocV.Proofs.Lemmas.NoHazardLoops
namespace BlocV.NHI
open BlocV BlocV.Lemmas
variable {bad : Hazard → Bool} {sub : Bool}

/-- the statement of the mutual induction, at one fuel -/
def AllNH (bad : Hazard → Bool) (sub : Bool) (funcs : List Func) (fuel : Nat) : Prop :=
  (∀ L depth e, lockE L e = true → litE sub e = true → NH bad (Inv L) okV (eval funcs depth fuel e)) ∧
  (∀ L depth name args, lockEs L args = true → litEs sub args = true → NH bad (Inv L) okV (callFunc funcs depth fuel name args)) ∧
  (∀ L depth args, lockEs L args = true → litEs sub args = true → NH bad (Inv L) (fun vs => okVals vs = true) (evalArgs funcs depth fuel args)) ∧
  (∀ L depth body catches, lockL L body = true → lockCatches L catches = true → litL sub body = true → litCatches sub catches = true →
      NH bad (Inv L) (fun _ => True) (execBlock funcs depth fuel body catches)) ∧
  (∀ L depth l, lockL L l = true → litL sub l = true → NH bad (Inv L) (fun _ => True) (execList funcs depth fuel l)) ∧
  (∀ L depth st, lockS L st = true → litS sub st = true → NH bad (Inv L) (fun _ => True) (exec funcs depth fuel st)) ∧
  (∀ L depth es, lockEs L es = true → litEs sub es = true → NH bad (Inv L) (fun _ => True) (evalPrint funcs depth fuel es)) ∧
  (∀ L depth rules, lockRules L rules = true → litRules sub rules = true → NH bad (Inv L) (fun _ => True) (execIf funcs depth fuel rules))

theorem nargs_of_ih (funcs : List Func) (fuel depth : Nat) (L : List String)
    (ihE : ∀ L depth e, lockE L e = true → litE sub e = true → NH bad (Inv L) okV (eval funcs depth fuel e))
    (args : List Expr) (hl : lockEs L args = true) (hv : litEs sub args = true) :
    NArgs bad (Inv L) (args.map (eval funcs depth fuel)) :=
  NArgs.map_mem _ _ (fun a ha => ihE L depth a (lockEs_mem L _ hl a ha) (litEs_mem _ hv a ha))

theorem eval_var_app (funcs : List Func) (depth fuel : Nat) (n : String) (s : St) :
    eval funcs depth (fuel + 1) (.var n) s = (readVar s n, s) := by
  simp only [eval, bind_app, getSt_app, liftM_app]

set_option maxHeartbeats 1000000 in
theorem eval_nh_step (hb : bad .signedOverflow = false ∨ sub = false) (funcs : List Func) (fuel : Nat) (ih : AllNH bad sub funcs fuel)
    (L : List String) (depth : Nat) (e : Expr) (hl : lockE L e = true) (hv : litE sub e = true) :
    NH bad (Inv L) okV (eval funcs depth (fuel + 1) e) := by
  obtain ⟨ihE, ihC, ihA, -, -, -, -, -⟩ := ih
  unfold eval
  split
  · -- lit
    exact NH.pure (by simpa [litE] using hv)
  · -- var
    exact NH.getSt_bind (fun s hs => ⟨(readVar_nhr hs _).1, hs, (readVar_nhr (bad := bad) hs _).2⟩)
  · -- un
    have hl' := hl; simp only [lockE] at hl'
    have hv' := hv; simp only [litE] at hv'
    exact NH.bind (ihE L _ _ hl' hv') (fun v h1 => NH.lift (evalUn_nhr _ _ h1))
  · -- band
    have hl' := hl; simp only [lockE, Bool.and_eq_true] at hl'
    have hv' := hv; simp only [litE, Bool.and_eq_true] at hv'
    refine NH.bind (ihE L _ _ hl'.1 hv'.1) (fun v1 h1 => ?_)
    dsimp only
    refine NH.ite _ (fun _ => ?_) (fun _ => ?_)
    · refine NH.bind (ihE L _ _ hl'.2 hv'.2) (fun v2 h2 => ?_)
      exact NH.lift (evalBin_nhr .band v1 v2 false h1 h2)
    · exact NH.lift (evalBin_nhr .band v1 (.null Ty.none) false h1 (okVal_null _))
  · -- bior
    have hl' := hl; simp only [lockE, Bool.and_eq_true] at hl'
    have hv' := hv; simp only [litE, Bool.and_eq_true] at hv'
    refine NH.bind (ihE L _ _ hl'.1 hv'.1) (fun v1 h1 => ?_)
    dsimp only
    refine NH.ite _ (fun _ => ?_) (fun _ => ?_)
    · refine NH.bind (ihE L _ _ hl'.2 hv'.2) (fun v2 h2 => ?_)
      exact NH.lift (evalBin_nhr .bior v1 v2 false h1 h2)
    · exact NH.lift (evalBin_nhr .bior v1 (.null Ty.none) false h1 (okVal_null _))
  · -- bin
    have hl' := hl; simp only [lockE, Bool.and_eq_true] at hl'
    have hv' := hv; simp only [litE, Bool.and_eq_true] at hv'
    refine NH.bind (ihE L _ _ hl'.1 hv'.1) (fun v1 h1 => ?_)
    refine NH.bind (ihE L _ _ hl'.2 hv'.2) (fun v2 h2 => ?_)
    exact NH.lift (evalBin_nhr _ v1 v2 _ h1 h2)
  · -- tab
    have hl' := hl; simp only [lockE] at hl'
    have hv' := hv; simp only [litE, Bool.and_eq_true] at hv'
    exact biTab_nh _ (nargs_of_ih funcs fuel depth L ihE _ hl' hv'.2)
  · -- tup
    have hl' := hl; simp only [lockE] at hl'
    have hv' := hv; simp only [litE, Bool.and_eq_true] at hv'
    exact biTup_nh _ (nargs_of_ih funcs fuel depth L ihE _ hl' hv'.2)
  · -- call
    rename_i name args _ _
    have hl' := hl; simp only [lockE] at hl'
    have hv' := hv; simp only [litE, Bool.and_eq_true] at hv'
    have hb' : bad .signedOverflow = false ∨ (name ≠ "substr" ∧ name ≠ "subraw") := by
      rcases hb with h | h
      · exact .inl h
      · have h1 := hv'.1
        subst h
        simp only [Bool.false_or, Bool.and_eq_true, bne_iff_ne, ne_eq] at h1
        exact .inr h1
    split
    · rename_i r hr
      exact evalBuiltin_nh hb' _ _ (nargs_of_ih funcs fuel depth L ihE _ hl' hv'.2) r hr
    · exact NH.lift NHR.unm
  · -- fcall
    have hl' := hl; simp only [lockE] at hl'
    have hv' := hv; simp only [litE] at hv'
    exact ihC L _ _ _ hl' hv'
  · -- member
    rename_i e0 m recv args
    have h3 := hl; simp only [lockE, Bool.and_eq_true] at h3
    obtain ⟨⟨hmut, hrecv⟩, hargs⟩ := h3
    have hv' := hv; simp only [litE, Bool.and_eq_true] at hv'
    intro s hs
    simp only [bind_app]
    have n1 := ihE L depth recv hrecv hv'.1 s hs
    have i1 := ((sameIters_all funcs fuel).1 depth recv).h s
    cases hr : eval funcs depth fuel recv s with
    | mk r1 s1 =>
      rw [hr] at n1 i1
      cases r1 with
      | ok rv =>
        simp only []
        have hrv : okVal rv = true := n1.2.2 rv rfl
        have n2 := ihA L depth args hargs hv'.2 s1 n1.2.1
        have i2 := ((sameIters_all funcs fuel).2.2.1 depth args).h s1
        cases ha : evalArgs funcs depth fuel args s1 with
        | mk r2 s2 =>
          rw [ha] at n2 i2
          have i12 := sameIters_rel.trans i1 i2
          cases r2 with
          | ok avs =>
            simp only [liftM_app]
            have havs : okVals avs = true := n2.2.2 avs rfl
            have nm := memberCall_nhr (bad := bad) m rv avs false hrv havs
            cases hm : memberCall m rv avs false with
            | ok p =>
              obtain ⟨r, rv'⟩ := p
              have hp := nm.2 (r, rv') hm
              simp only []
              cases hroot : rootVar recv with
              | none => exact ⟨nb_triv (fun _ e => by cases e), n2.2.1, fun a e => by cases e; exact hp.1⟩
              | some n =>
                simp only [bind_app, getSt_app]
                split
                · exact ⟨nb_triv (fun _ e => by cases e), n2.2.1, fun a e => by cases e⟩
                · rename_i hany
                  refine ⟨nb_triv (fun _ e => by cases e), ?_, fun a e => by cases e; exact hp.1⟩
                  show Inv L ({ s2 with vars := setVar s2.vars n rv' } : St)
                  refine n2.2.1.setVar n rv' hp.2 (fun b hbm hsrc => ?_)
                  -- `n` is being traversed: it is locked, so the receiver is the variable itself and the member does not mutate
                  have hnL : n ∈ L := n2.2.1.2 b hbm n hsrc
                  have hrvv := rootVar_locked L n hnL recv hrecv hroot
                  subst hrvv
                  have hc : L.contains n = true := by simpa using hnL
                  have hnm : memberMutates m = false := by
                    simp only [hc, Bool.and_true, Bool.not_eq_true'] at hmut; exact hmut
                  have hk := memberCall_keeps m rv avs r rv' hnm hm
                  subst hk
                  have hany2 : s2.iters.any (·.it == n) = false := by simpa using hany
                  have hany0 : s.iters.any (·.it == n) = false := by
                    rw [← hany2]
                    exact any_it_of_sameIters s s2 n i12
                  have hkeep := ((lock_all n funcs fuel).2.2.1 L depth args hnL hargs).h s1
                  rw [ha] at hkeep
                  cases fuel with
                  | zero => simp [eval, oof, failE] at hr
                  | succ k =>
                    rw [eval_var_app] at hr
                    unfold readVar at hr
                    rw [find_none_of_any_false _ _ hany0] at hr
                    simp only [Prod.mk.injEq] at hr
                    obtain ⟨hv1, hs1⟩ := hr
                    cases hv1
                    subst hs1
                    exact hkeep.symm
            | err c a => exact ⟨nb_triv (fun _ e => by cases e), n2.2.1, fun a e => by cases e⟩
            | haz x => exact ⟨fun y e => by cases e; exact nm.1 x hm, n2.2.1, fun a e => by cases e⟩
            | unmodelled => exact ⟨nb_triv (fun _ e => by cases e), n2.2.1, fun a e => by cases e⟩
          | err c a => exact ⟨nb_triv (fun _ e => by cases e), n2.2.1, fun a e => by cases e⟩
          | haz x => exact ⟨fun y e => by cases e; exact n2.1 x rfl, n2.2.1, fun a e => by cases e⟩
          | unmodelled => exact ⟨nb_triv (fun _ e => by cases e), n2.2.1, fun a e => by cases e⟩
      | err c a => exact ⟨nb_triv (fun _ e => by cases e), n1.2.1, fun a e => by cases e⟩
      | haz x => exact ⟨fun y e => by cases e; exact n1.1 x rfl, n1.2.1, fun a e => by cases e⟩
      | unmodelled => exact ⟨nb_triv (fun _ e => by cases e), n1.2.1, fun a e => by cases e⟩
  · -- error
    exact NH.getSt_bind (fun s hs => ⟨(errorTuple_nhr _).1, hs, (errorTuple_nhr (bad := bad) _).2⟩)
  · -- item
    have hl' := hl; simp only [lockE] at hl'
    have hv' := hv; simp only [litE] at hv'
    exact itemAt_nh _ (ihE L _ _ hl' hv') _

theorem okVal_foldl_setVar (ps : List (String × Val)) : ∀ (vs : List (String × Val)),
    (∀ p ∈ vs, okVal p.2 = true) → (∀ p ∈ ps, okVal p.2 = true) →
    ∀ p ∈ ps.foldl (fun vs (x : String × Val) => setVar vs x.1 x.2) vs, okVal p.2 = true := by
  induction ps with
  | nil => intro vs hvs _ p hp; exact hvs p hp
  | cons q qs ih =>
    intro vs hvs hps p hp
    simp only [List.foldl_cons] at hp
    refine ih _ (fun x hx => ?_) (fun x hx => hps x (List.mem_cons_of_mem _ hx)) p hp
    rcases mem_setVar _ _ _ _ hx with rfl | hx
    · exact hps _ (List.mem_cons_self ..)
    · exact hvs x hx

theorem inv_calleeInit (f : Func) (vals : List Val) (caller : St) (hv : okVals vals = true) : Inv [] (calleeInit f vals caller) := by
  refine ⟨⟨?_, ?_, ?_, ?_, List.nodup_nil⟩, ?_⟩
  · show ∀ p ∈ (((f.params.map (·.1)).zip vals).foldl (fun vs (x : String × Val) => match x with | (n, v) => setVar vs n v) _), okVal p.2 = true
    have := okVal_foldl_setVar ((f.params.map (·.1)).zip vals) (f.decls.map fun (n, t) => (n, Val.null t))
      (fun p hp => by
        simp only [List.mem_map] at hp
        obtain ⟨q, _, rfl⟩ := hp
        exact okVal_null _)
      (fun p hp => (okVals_iff vals).1 hv p.2 (List.of_mem_zip hp).2)
    exact this
  · intro v h; cases h
  · intro b h; cases h
  · intro b h; cases h
  · intro b h; cases h

theorem finishCall_nh (L : List String) (caller : St) (r : Res Flow × St) (hc : Inv L caller) (h1 : nb bad r.1) (h2 : Inv [] r.2) :
    nb bad (finishCall caller r).1 ∧ Inv L (finishCall caller r).2 ∧ ∀ a, (finishCall caller r).1 = .ok a → okV a := by
  obtain ⟨r1, s'⟩ := r
  have hback : Inv L ({ caller with out := s'.out, budget := s'.budget } : St) := hc.congr rfl rfl rfl
  unfold finishCall
  cases r1 with
  | ok fl =>
    refine ⟨nb_triv (fun _ e => by cases e), hback, fun a e => ?_⟩
    simp only [Res.ok.injEq] at e
    subst e
    cases hret : s'.returned with
    | none => exact okVal_null _
    | some v => exact h2.1.ret v hret
  | err c a => exact ⟨nb_triv (fun _ e => by cases e), hback, fun a e => by cases e⟩
  | haz x => exact ⟨fun y e => by cases e; exact h1 x rfl, hback, fun a e => by cases e⟩
  | unmodelled => exact ⟨nb_triv (fun _ e => by cases e), hback, fun a e => by cases e⟩

theorem callFunc_nh_step (funcs : List Func) (hF : FuncsOk sub funcs) (fuel : Nat) (ih : AllNH bad sub funcs fuel)
    (L : List String) (depth : Nat) (name : String) (args : List Expr) (hl : lockEs L args = true) (hv : litEs sub args = true) :
    NH bad (Inv L) okV (callFunc funcs depth (fuel + 1) name args) := by
  obtain ⟨-, -, ihA, ihB, -, -, -, -⟩ := ih
  unfold callFunc
  split
  · exact NH.lift NHR.unm
  · rename_i f hfind
    have hf := hF f (List.mem_of_find?_eq_some hfind)
    split
    · exact NH.failE _ _
    · refine NH.bind (ihA L _ _ hl hv) (fun vals hvals => ?_)
      intro caller hc
      have hcal := ihB [] (depth + 1) f.body f.catches hf.1 hf.2.1 hf.2.2.1 hf.2.2.2 _ (inv_calleeInit f vals caller hvals)
      exact finishCall_nh L caller _ hc hcal.1 hcal.2.1

theorem evalArgs_nh_step (funcs : List Func) (fuel : Nat) (ih : AllNH bad sub funcs fuel)
    (L : List String) (depth : Nat) (args : List Expr) (hl : lockEs L args = true) (hv : litEs sub args = true) :
    NH bad (Inv L) (fun vs => okVals vs = true) (evalArgs funcs depth (fuel + 1) args) := by
  obtain ⟨ihE, -, ihA, -, -, -, -, -⟩ := ih
  cases args with
  | nil => unfold evalArgs; exact NH.pure rfl
  | cons a as =>
    have h : lockE L a = true ∧ lockEs L as = true := by simpa [lockEs] using hl
    have h' : litE sub a = true ∧ litEs sub as = true := by simpa [litEs] using hv
    unfold evalArgs
    refine NH.bind (ihE L _ _ h.1 h'.1) (fun v h1 => ?_)
    refine NH.bind (ihA L _ _ h.2 h'.2) (fun vs h2 => ?_)
    exact NH.pure (by simp [h1, h2])

theorem execBlock_nh_step (funcs : List Func) (fuel : Nat) (ih : AllNH bad sub funcs fuel)
    (L : List String) (depth : Nat) (body : List Stmt) (catches : List (String × List Stmt))
    (hb : lockL L body = true) (hc : lockCatches L catches = true) (hvb : litL sub body = true) (hvc : litCatches sub catches = true) :
    NH bad (Inv L) (fun _ => True) (execBlock funcs depth (fuel + 1) body catches) := by
  obtain ⟨-, -, -, -, ihL, -, -, -⟩ := ih
  unfold execBlock
  intro s hs
  have h1 := ihL L depth body hb hvb s hs
  dsimp only
  split
  · rename_i c a s' heq
    rw [heq] at h1
    split
    · exact ⟨nb_triv (fun _ e => by cases e), h1.2.1, fun _ _ => trivial⟩
    · split
      · rename_i handler hfind
        have hh := lockCatches_find L _ catches _ handler hc hfind
        have hh' := litCatches_find _ catches _ handler hvc hfind
        have h2 := ihL L depth handler hh hh' { s' with lastErr := (c, a) } (h1.2.1.congr rfl rfl rfl)
        unfold handlerExit
        split
        · rename_i fl s2 heq2
          rw [heq2] at h2
          exact ⟨nb_triv (fun _ e => by cases e), h2.2.1.congr rfl rfl rfl, fun _ _ => trivial⟩
        · exact ⟨h2.1, h2.2.1, fun _ _ => trivial⟩
      · exact ⟨nb_triv (fun _ e => by cases e), h1.2.1, fun _ _ => trivial⟩
  · exact ⟨h1.1, h1.2.1, fun _ _ => trivial⟩

theorem execList_nh_step (funcs : List Func) (fuel : Nat) (ih : AllNH bad sub funcs fuel)
    (L : List String) (depth : Nat) (l : List Stmt) (hl : lockL L l = true) (hv : litL sub l = true) :
    NH bad (Inv L) (fun _ => True) (execList funcs depth (fuel + 1) l) := by
  obtain ⟨-, -, -, -, ihL, ihS, -, -⟩ := ih
  cases l with
  | nil => unfold execList; exact NH.pure trivial
  | cons a as =>
    have h : lockS L a = true ∧ lockL L as = true := by simpa [lockL] using hl
    have h' : litS sub a = true ∧ litL sub as = true := by simpa [litL] using hv
    unfold execList
    refine NH.bind (ihS L _ _ h.1 h'.1) (fun fl _ => ?_)
    split
    · exact ihL L _ _ h.2 h'.2
    · exact NH.pure trivial

theorem evalPrint_nh_step (funcs : List Func) (fuel : Nat) (ih : AllNH bad sub funcs fuel)
    (L : List String) (depth : Nat) (l : List Expr) (hl : lockEs L l = true) (hv : litEs sub l = true) :
    NH bad (Inv L) (fun _ => True) (evalPrint funcs depth (fuel + 1) l) := by
  obtain ⟨ihE, -, -, -, -, -, ihP, -⟩ := ih
  cases l with
  | nil => unfold evalPrint; exact NH.pure trivial
  | cons a as =>
    have h : lockE L a = true ∧ lockEs L as = true := by simpa [lockEs] using hl
    have h' : litE sub a = true ∧ litEs sub as = true := by simpa [litEs] using hv
    unfold evalPrint
    refine NH.bind (ihE L _ _ h.1 h'.1) (fun v h1 => ?_)
    refine NH.bind_lift (nb_of_nh (printVal_nh v)) (fun bs _ => ?_)
    refine NH.bind (NH.modifySt (fun st hst => hst.congr rfl rfl rfl)) (fun _ _ => ?_)
    exact ihP L _ _ h.2 h'.2

theorem execIf_nh_step (funcs : List Func) (fuel : Nat) (ih : AllNH bad sub funcs fuel)
    (L : List String) (depth : Nat) (l : List (Option Expr × List Stmt)) (hl : lockRules L l = true) (hv : litRules sub l = true) :
    NH bad (Inv L) (fun _ => True) (execIf funcs depth (fuel + 1) l) := by
  obtain ⟨ihE, -, -, -, ihL, -, -, ihI⟩ := ih
  cases l with
  | nil => unfold execIf; exact NH.pure trivial
  | cons a as =>
    obtain ⟨c, b⟩ := a
    cases c with
    | none =>
      have h : lockL L b = true ∧ lockRules L as = true := by simpa [lockRules] using hl
      have h' : litL sub b = true ∧ litRules sub as = true := by simpa [litRules] using hv
      unfold execIf
      exact ihL L _ _ h.1 h'.1
    | some x =>
      have h : (lockE L x = true ∧ lockL L b = true) ∧ lockRules L as = true := by simpa [lockRules] using hl
      have h' : (litE sub x = true ∧ litL sub b = true) ∧ litRules sub as = true := by simpa [litRules] using hv
      unfold execIf
      refine NH.bind (ihE L _ _ h.1.1 h'.1.1) (fun v h1 => ?_)
      refine NH.bind_lift (nb_of_nh (condTaken_nh v h1)) (fun t _ => ?_)
      split
      · exact ihL L _ _ h.1.2 h'.1.2
      · exact ihI L _ _ h.2 h'.2

theorem eq_of_nodup_it : ∀ {l : List Iter}, (l.map (·.it)).Nodup → ∀ {x y : Iter}, x ∈ l → y ∈ l → x.it = y.it → x = y
  | [], _, _, _, hx, _, _ => by cases hx
  | a :: as, h, x, y, hx, hy, e => by
    simp only [List.map_cons, List.nodup_cons, List.mem_map, not_exists, not_and] at h
    rcases List.mem_cons.mp hx with rfl | hx' <;> rcases List.mem_cons.mp hy with rfl | hy'
    · rfl
    · exact absurd e.symm (h.1 y hy')
    · exact absurd e (h.1 x hx')
    · exact eq_of_nodup_it h.2 hx' hy' e

/-- writing through an iterator over a temporary: its private copy is replaced by a table of the same size -/
theorem Inv.setPriv {L : List String} {s : St} (h : Inv L s) (n : String) (b : Iter) (hb : b ∈ s.iters) (hbn : (b.it == n) = true)
    (hsrc : b.src = none) (tbl' : Val) (hok : okVal tbl' = true) (hsz : tableSize tbl' = tableSize b.priv) :
    Inv L { s with iters := s.iters.map fun x => if x.it == n then { x with priv := tbl' } else x } := by
  obtain ⟨⟨h1, h2, h3, h4, h5⟩, h6⟩ := h
  refine ⟨⟨h1, h2, ?_, ?_, ?_⟩, ?_⟩
  · intro x hx
    simp only [List.mem_map] at hx
    obtain ⟨y, hy, rfl⟩ := hx
    split
    · exact hok
    · exact h3 y hy
  · intro x hx
    simp only [List.mem_map] at hx
    obtain ⟨y, hy, rfl⟩ := hx
    have hy4 := h4 y hy
    unfold St.iterTable at hy4 ⊢
    split
    · rename_i hyn
      have hyb : y = b := eq_of_nodup_it h5 hy hb (by rw [eq_of_beq hyn, eq_of_beq hbn])
      subst hyb
      simp only [hsrc] at hy4 ⊢
      rw [hsz]; exact hy4
    · exact hy4
  · have : (s.iters.map fun x => if x.it == n then { x with priv := tbl' } else x).map (·.it) = s.iters.map (·.it) := by
      rw [List.map_map]
      apply List.map_congr_left
      intro x _
      simp only [Function.comp]
      split <;> rfl
    show ((s.iters.map fun x => if x.it == n then { x with priv := tbl' } else x).map (·.it)).Nodup
    rw [this]; exact h5
  · intro x hx t ht
    simp only [List.mem_map] at hx
    obtain ⟨y, hy, rfl⟩ := hx
    refine h6 y hy t ?_
    split at ht <;> exact ht

/-- entering a `forall`: the new control entry points at the first element of a non-empty table -/
theorem Inv.push {L L' : List String} {s : St} (h : Inv L s) (hsub : ∀ t ∈ L, t ∈ L') (b : Iter)
    (hname : s.iters.any (·.it == b.it) = false) (hpriv : okVal b.priv = true)
    (hidx : b.idx < tableSize (s.iterTable b)) (hsrc : ∀ t, b.src = some t → t ∈ L') :
    Inv L' { s with iters := b :: s.iters } := by
  obtain ⟨⟨h1, h2, h3, h4, h5⟩, h6⟩ := h
  refine ⟨⟨h1, h2, ?_, ?_, ?_⟩, ?_⟩
  · intro x hx
    rcases List.mem_cons.mp hx with rfl | hx
    · exact hpriv
    · exact h3 x hx
  · intro x hx
    rcases List.mem_cons.mp hx with rfl | hx
    · exact hidx
    · exact h4 x hx
  · show ((b :: s.iters).map (·.it)).Nodup
    simp only [List.map_cons, List.nodup_cons, List.mem_map, not_exists, not_and]
    refine ⟨fun x hx e => ?_, h5⟩
    have : s.iters.any (·.it == b.it) = true := List.any_eq_true.mpr ⟨x, hx, by simp [e]⟩
    rw [hname] at this; cases this
  · intro x hx t ht
    rcases List.mem_cons.mp hx with rfl | hx
    · exact hsrc t ht
    · exact hsub t (h6 x hx t ht)

/-- leaving a `forall` by any route -/
theorem forallExit_inv {L L' : List String} (it : String) (hit : it ∉ L) (r : Res Flow × St) (h : Inv L' r.2)
    (hsrc : ∀ b ∈ r.2.iters.tail, ∀ t, b.src = some t → t ∈ L) (hnil : r.2.iters = [] → SrcIn L r.2) :
    Inv L (forallExit it r).2 := by
  unfold forallExit
  split
  · rename_i b rest heq
    obtain ⟨⟨h1, h2, h3, h4, h5⟩, h6⟩ := h
    rw [heq] at h3 h4 h5 hsrc
    simp only [List.tail_cons] at hsrc
    refine ⟨⟨?_, h2, ?_, ?_, ?_⟩, ?_⟩
    · intro p hp
      rcases mem_setVar _ _ _ _ hp with rfl | hp
      · exact okVal_null _
      · exact h1 p hp
    · intro x hx; exact h3 x (List.mem_cons_of_mem _ hx)
    · intro x hx
      have hx4 := h4 x (List.mem_cons_of_mem _ hx)
      unfold St.iterTable at hx4 ⊢
      cases hs : x.src with
      | none => rw [hs] at hx4; exact hx4
      | some t =>
        rw [hs] at hx4
        have htL : t ∈ L := hsrc x hx t hs
        have hne : it ≠ t := fun e => hit (e ▸ htL)
        show x.idx < tableSize (lookupVar (setVar r.2.vars it (.null b.bak)) t)
        rw [lookup_setVar_ne _ _ _ _ hne]; exact hx4
    · simp only [List.map_cons, List.nodup_cons] at h5; exact h5.2
    · intro x hx t ht; exact hsrc x hx t ht
  · rename_i heq
    exact ⟨h.1, hnil heq⟩

theorem forall_run_nh {L L' : List String} (hsub : ∀ t ∈ L, t ∈ L') (it : String) (hit : it ∉ L) (b : Iter) (hbit : b.it = it)
    (body : EvalM Flow) (hb : NH bad (Inv L') (fun _ => True) body) (hbs : Pres SameIters body) (desc : Bool) (k : Nat)
    (s1 : St) (hs1 : Inv L s1) (hname : s1.iters.any (·.it == it) = false) (hpriv : okVal b.priv = true)
    (hidx : b.idx < tableSize (s1.iterTable b)) (hsrc : ∀ t, b.src = some t → t ∈ L') :
    nb bad (forallExit it (forallLoop body it desc k { s1 with iters := b :: s1.iters })).1 ∧
    Inv L (forallExit it (forallLoop body it desc k { s1 with iters := b :: s1.iters })).2 ∧
    ∀ a, (forallExit it (forallLoop body it desc k { s1 with iters := b :: s1.iters })).1 = .ok a → True := by
  have hpush : Inv L' { s1 with iters := b :: s1.iters } := hs1.push hsub b (by rw [hbit]; exact hname) hpriv hidx hsrc
  have hrun := forallLoop_nh body it desc hb k _ hpush
  have hbelow := (forallLoop_sameBelow body hbs it desc k).h { s1 with iters := b :: s1.iters }
  generalize forallLoop body it desc k { s1 with iters := b :: s1.iters } = r at hrun hbelow
  obtain ⟨hlen, htail⟩ := hbelow
  simp only [List.tail_cons] at htail
  have hsrcs : ∀ x ∈ r.2.iters.tail, ∀ t, x.src = some t → t ∈ L := by
    intro x hx t ht
    have hk : iterKey x ∈ r.2.iters.tail.map iterKey := List.mem_map.mpr ⟨x, hx, rfl⟩
    rw [htail] at hk
    obtain ⟨y, hy, e⟩ := List.mem_map.mp hk
    have : y.src = x.src := by
      have := congrArg (fun k : String × Option String × Nat × Ty × Bool => k.2.1) e
      simpa [iterKey] using this
    exact hs1.2 y hy t (this ▸ ht)
  refine ⟨?_, forallExit_inv it hit r hrun.2.1 hsrcs (fun e => ?_), fun _ _ => trivial⟩
  · have : (forallExit it r).1 = r.1 := by unfold forallExit; split <;> rfl
    rw [this]; exact hrun.1
  · rw [e] at hlen; simp at hlen


theorem sub_forall_lock (L : List String) (it : String) (src : Expr) :
    ∀ t ∈ L, t ∈ (match src with
      | .var t' => if L.contains t' then it :: t' :: L else t' :: L
      | _ => L) := fun t ht => mem_forall_lock L t it src ht

theorem NH.bind_failE {I : St → Prop} {α β} {Q : β → Prop} {f : α → EvalM β} (c : Nat) (a : Bytes) : NH bad I Q ((BlocV.failE c a : EvalM α) >>= f) :=
  NH.bind_never fun _ => ⟨_, _, rfl⟩

theorem ite_app_post {α} {c : Prop} [Decidable c] {x y : EvalM α} {s : St} {P : Res α × St → Prop}
    (hx : c → P (x s)) (hy : ¬ c → P (y s)) : P ((if c then x else y) s) := by
  rw [evalM_ite_app]
  split
  · exact hx ‹_›
  · exact hy ‹_›

/-- the head of `exec`: one unit of the work budget -/
theorem NH.tick {I : St → Prop} {α} {Q : α → Prop} (x : EvalM α) (hx : NH bad I Q x)
    (hI : ∀ s : St, I s → I { s with budget := s.budget - 1 }) :
    NH bad I Q (fun s0 => if s0.budget == 0 then BlocV.oof s0 else (fun s => x s) { s0 with budget := s0.budget - 1 }) := by
  intro s0 hs0
  by_cases h : (s0.budget == 0) = true
  · simp only [h, if_true]
    exact ⟨nb_triv (fun _ e => by cases e), hs0, fun _ e => by cases e⟩
  · simp only [h]
    exact hx _ (hI s0 hs0)

set_option maxHeartbeats 1000000 in
theorem exec_nh_step (funcs : List Func) (fuel : Nat) (ih : AllNH bad sub funcs fuel)
    (L : List String) (depth : Nat) (st : Stmt) (hl : lockS L st = true) (hv : litS sub st = true) :
    NH bad (Inv L) (fun _ => True) (exec funcs depth (fuel + 1) st) := by
  obtain ⟨ihE, -, -, ihB, ihL, -, ihP, ihI⟩ := ih
  unfold exec
  refine NH.tick _ ?_ (fun s hs => hs.congr rfl rfl rfl)
  · split
    · exact NH.pure trivial
    · exact NH.pure trivial
    · -- letS
      rename_i n e
      have h := hl; simp only [lockS, Bool.and_eq_true] at h
      have hv' : litE sub e = true := by simpa [litS] using hv
      refine NH.getSt_bind (fun s1 hs1 => ?_)
      cases hf : s1.iters.find? (·.it == n) with
      | none =>
        dsimp only
        refine (?_ : NH bad (Inv L) (fun _ => True) _) s1 hs1
        refine NH.bind (ihE L _ _ h.2 hv') (fun v hv1 => ?_)
        exact NH.bind (NH.modifySt (fun st hst => hst.setVar_unlocked n v hv1 (not_mem_of_contains h.1))) (fun _ _ => NH.pure trivial)
      | some b0 =>
        dsimp only
        refine (?_ : NH bad (Inv L) (fun _ => True) _) s1 hs1
        refine NH.ite _ (fun _ => NH.lift NHR.unm) (fun _ => ?_)
        refine NH.bind (ihE L _ _ h.2 hv') (fun v hv1 => ?_)
        refine NH.getSt_bind (fun s2 hs2 => ?_)
        cases hf2 : s2.iters.find? (·.it == n) with
        | none => exact ⟨nb_triv (fun _ e => by cases e), hs2, fun _ _ => trivial⟩
        | some b =>
          simp only [bind_app, liftM_app]
          have hbm := List.mem_of_find?_eq_some hf2
          have hbn : (b.it == n) = true := by simpa using List.find?_some hf2
          have hst := forallStep_nhr (bad := bad) (s2.iterTable b) b.idx v (okVal_iterTable hs2.1 b hbm) hv1 (hs2.1.idx b hbm)
          cases hstep : forallStep (s2.iterTable b) b.idx v with
          | ok tbl' =>
            have htb := hst.2 tbl' hstep
            dsimp only
            cases hsrc : b.src with
            | some t' =>
              refine ⟨nb_triv (fun _ e => by cases e), ?_, fun _ _ => trivial⟩
              show Inv L ({ s2 with vars := setVar s2.vars t' tbl' } : St)
              refine hs2.setVar t' tbl' htb.1 (fun b' _ _ => ?_)
              rw [htb.2]; unfold St.iterTable; rw [hsrc]
            | none =>
              refine ⟨nb_triv (fun _ e => by cases e), ?_, fun _ _ => trivial⟩
              refine hs2.setPriv n b hbm hbn hsrc tbl' htb.1 ?_
              rw [htb.2]; unfold St.iterTable; rw [hsrc]
          | err c a => exact ⟨nb_triv (fun _ e => by cases e), hs2, fun _ _ => trivial⟩
          | haz x => exact ⟨fun y e => by cases e; exact hst.1 x hstep, hs2, fun _ _ => trivial⟩
          | unmodelled => exact ⟨nb_triv (fun _ e => by cases e), hs2, fun _ _ => trivial⟩
    · -- doS
      have h := hl; simp only [lockS] at h
      have hv' := hv; simp only [litS] at hv'
      exact NH.bind (ihE L _ _ h hv') (fun _ _ => NH.pure trivial)
    · -- printS
      have h := hl; simp only [lockS] at h
      have hv' := hv; simp only [litS] at hv'
      refine NH.bind (ihP L _ _ h hv') (fun _ _ => ?_)
      exact NH.bind (NH.modifySt (fun st hst => hst.congr rfl rfl rfl)) (fun _ _ => NH.pure trivial)
    · -- ifS
      have h := hl; simp only [lockS] at h
      have hv' := hv; simp only [litS] at hv'
      exact ihI L _ _ h hv'
    · -- whileS
      have h := hl; simp only [lockS, Bool.and_eq_true] at h
      have hv' := hv; simp only [litS, Bool.and_eq_true] at hv'
      exact whileLoop_nh _ _ (ihE L _ _ h.1 hv'.1) (ihL L _ _ h.2 hv'.2) _
    · -- forS
      rename_i v b e step dir body
      have h := hl; simp only [lockS, Bool.and_eq_true] at h
      obtain ⟨⟨⟨⟨hvn, hb'⟩, he⟩, hstep⟩, hbody⟩ := h
      have h' := hv; simp only [litS, Bool.and_eq_true] at h'
      obtain ⟨⟨⟨hlb, hle⟩, hlstep⟩, hlbody⟩ := h'
      have hvL : v ∉ L := not_mem_of_contains hvn
      cases step with
      | none =>
        repeat' (first
          | with_reducible refine NH.pure ?_
          | trivial
          | with_reducible exact NH.failE _ _
          | with_reducible exact NH.bind_failE _ _
          | with_reducible apply NH.pure_bind
          | with_reducible apply NH.bind_assoc
          | with_reducible refine NH.bind (ihE L _ b hb' hlb) (fun _ _ => ?_)
          | with_reducible refine NH.bind (ihE L _ e he hle) (fun _ _ => ?_)
          | with_reducible refine NH.bind_lift ?_ (fun _ _ => ?_)
          | (with_reducible refine nb_of_nh ?_) <;> nh_leaf
          | with_reducible refine NH.bind (NH.modifySt (fun st hst => Inv.setVar_unlocked hst v _ (okVal_int _) hvL)) (fun _ _ => ?_)
          | exact forLoop_nh _ v hvL _ _ _ (ihL L _ _ hbody hlbody) _
          | split
          | dsimp only)
      | some se =>
        have hse : lockE L se = true := by simpa using hstep
        have hlse : litE sub se = true := by simpa using hlstep
        repeat' (first
          | with_reducible refine NH.pure ?_
          | trivial
          | with_reducible exact NH.failE _ _
          | with_reducible exact NH.bind_failE _ _
          | with_reducible apply NH.pure_bind
          | with_reducible apply NH.bind_assoc
          | with_reducible refine NH.bind (ihE L _ b hb' hlb) (fun _ _ => ?_)
          | with_reducible refine NH.bind (ihE L _ e he hle) (fun _ _ => ?_)
          | with_reducible refine NH.bind (ihE L _ se hse hlse) (fun _ _ => ?_)
          | with_reducible refine NH.bind_lift ?_ (fun _ _ => ?_)
          | (with_reducible refine nb_of_nh ?_) <;> nh_leaf
          | with_reducible refine NH.bind (NH.modifySt (fun st hst => Inv.setVar_unlocked hst v _ (okVal_int _) hvL)) (fun _ _ => ?_)
          | exact forLoop_nh _ v hvL _ _ _ (ihL L _ _ hbody hlbody) _
          | split
          | dsimp only)
    · -- forallS
      rename_i it src dir body
      have h := hl; simp only [lockS, Bool.and_eq_true] at h
      obtain ⟨⟨hit, hsrc⟩, hbody⟩ := h
      have h' := hv; simp only [litS, Bool.and_eq_true] at h'
      have hitL : it ∉ L := not_mem_of_contains hit
      have hbnh := ihL _ depth body hbody h'.2
      have hbs := (sameIters_all funcs fuel).2.2.2.2.1 depth body
      intro sA hsA
      simp only [bind_app]
      have n1 := ihE L depth src hsrc h'.1 sA hsA
      cases hr : eval funcs depth fuel src sA with
      | mk r1 s1 =>
        rw [hr] at n1
        cases r1 with
        | ok tv =>
          have htv : okVal tv = true := n1.2.2 tv rfl
          have hs1 : Inv L s1 := n1.2.1
          dsimp only
          split
          · exact ⟨nb_triv (fun _ e => by cases e), hs1, fun _ _ => trivial⟩
          split
          · exact ⟨nb_triv (fun _ e => by cases e), hs1, fun _ _ => trivial⟩
          split
          · exact ⟨nb_triv (fun _ e => by cases e), hs1, fun _ _ => trivial⟩
          rename_i hn0
          have hpos : 0 < tableSize tv := by
            have : tableSize tv ≠ 0 := by simpa using hn0
            omega
          simp only [bind_app, getSt_app]
          split
          · exact ⟨nb_triv (fun _ e => by cases e), hs1, fun _ _ => trivial⟩
          rename_i hname
          have hname' : s1.iters.any (·.it == it) = false := by simpa using hname
          have hfirst : (if (dir == .desc) = true then tableSize tv - 1 else 0) < tableSize tv := by
            split <;> omega
          split
          · -- a table variable
            rename_i t
            refine ite_app_post (P := fun r => nb bad r.1 ∧ Inv L r.2 ∧ ∀ a, r.1 = .ok a → True)
              (fun _ => ⟨nb_triv (fun _ e => by cases e), hs1, fun _ _ => trivial⟩) (fun hnt => ?_)
            have hnt' : s1.iters.any (·.it == t) = false := by simpa using hnt
            have hi1 := ((sameIters_all funcs fuel).1 depth (.var t)).h sA
            rw [hr] at hi1
            have hnt0 : sA.iters.any (·.it == t) = false := by
              rw [any_it_of_sameIters sA s1 t hi1]; exact hnt'
            have htvE : tv = lookupVar s1.vars t := by
              cases fuel with
              | zero => simp [eval, oof, failE] at hr
              | succ k =>
                rw [eval_var_app] at hr
                unfold readVar at hr
                rw [find_none_of_any_false _ _ hnt0] at hr
                simp only [Prod.mk.injEq] at hr
                obtain ⟨hv1, hs1'⟩ := hr
                cases hv1
                subst hs1'
                rfl
            refine forall_run_nh (sub_forall_lock L it (.var t)) it hitL _ rfl _ hbnh hbs _ _ s1 hs1 hname' (okVal_null _) ?_ ?_
            · show (if (dir == .desc) = true then tableSize tv - 1 else 0) < tableSize (lookupVar s1.vars t)
              rw [← htvE]; exact hfirst
            · intro t' ht'
              simp only [Option.some.injEq] at ht'
              subst ht'
              dsimp only
              split <;> simp
          · -- a temporary
            rename_i hnv
            cases src <;> first
              | exact absurd rfl (hnv _)
              | exact forall_run_nh (fun _ h => h) it hitL _ rfl _ hbnh hbs _ _ s1 hs1 hname' htv hfirst (fun _ h => by cases h)
        | err c a => exact ⟨nb_triv (fun _ e => by cases e), n1.2.1, fun _ _ => trivial⟩
        | haz x => exact ⟨fun y e => by cases e; exact n1.1 x rfl, n1.2.1, fun _ _ => trivial⟩
        | unmodelled => exact ⟨nb_triv (fun _ e => by cases e), n1.2.1, fun _ _ => trivial⟩
    · -- beginS
      have h := hl; simp only [lockS, Bool.and_eq_true] at h
      have hv' := hv; simp only [litS, Bool.and_eq_true] at hv'
      exact ihB L _ _ _ h.1 h.2 hv'.1 hv'.2
    · -- raiseS
      dsimp only
      split
      · exact NH.failE _ _
      · exact NH.failE _ _
    · exact NH.pure trivial
    · -- returnS (some e)
      have h := hl; simp only [lockS] at h
      have hv' := hv; simp only [litS] at hv'
      refine NH.bind (ihE L _ _ h hv') (fun v hv1 => ?_)
      refine NH.bind (NH.modifySt (fun st hst => ?_)) (fun _ _ => NH.pure trivial)
      obtain ⟨⟨h1, h2, h3, h4, h5⟩, h6⟩ := hst
      exact ⟨⟨h1, fun w hw => by cases hw; exact hv1, h3, h4, h5⟩, h6⟩
    · exact NH.pure trivial
    · exact NH.pure trivial

/-- **The mutual induction**: from a well-formed state, code the parser accepts under the lock `L` never reaches a hazard that counts,
and leaves a well-formed state — for all eight functions of the interpreter. -/
theorem nh_all (hb : bad .signedOverflow = false ∨ sub = false) (funcs : List Func) (hF : FuncsOk sub funcs) : ∀ fuel, AllNH bad sub funcs fuel := by
  intro fuel
  induction fuel with
  | zero =>
    refine ⟨?_, ?_, ?_, ?_, ?_, ?_, ?_, ?_⟩
    · intro L d e _ _; unfold eval; exact NH.oof
    · intro L d n a _ _; unfold callFunc; exact NH.oof
    · intro L d a _ _; unfold evalArgs; exact NH.oof
    · intro L d b c _ _ _ _; unfold execBlock; exact NH.oof
    · intro L d l _ _; unfold execList; exact NH.oof
    · intro L d s _ _; unfold exec; exact NH.oof
    · intro L d l _ _; unfold evalPrint; exact NH.oof
    · intro L d l _ _; unfold execIf; exact NH.oof
  | succ fuel ih =>
    exact ⟨eval_nh_step hb funcs fuel ih, callFunc_nh_step funcs hF fuel ih, evalArgs_nh_step funcs fuel ih,
      execBlock_nh_step funcs fuel ih, execList_nh_step funcs fuel ih, exec_nh_step funcs fuel ih,
      evalPrint_nh_step funcs fuel ih, execIf_nh_step funcs fuel ih⟩
end BlocV.NHI
