/-
  Helper lemmas for the utf8 half of C18.
-/
import BlocV.Model.Mod.Utf8
import BlocV.Spec.Utf8

set_option linter.unusedVariables false

namespace BlocV.Mod.Utf8
open BlocV.Spec.Utf8 (isScalar encode encodeAll pack packBE decode1)

theorem byte_toNat (k : Nat) (h : k < 256) : (Spec.Utf8.byte k).toNat = k := by
  simp [Spec.Utf8.byte]; omega

/-! ### the parser on well-formed sequences -/

theorem p0_ascii (b : Nat) (h0 : b ≠ 0) (h : b < 0x80) : p0 b = (.done b, .p0) := by
  simp [p0, h, h0]

theorem p0_lead2 (b : Nat) (h : 0xc2 ≤ b ∧ b < 0xe0) : p0 b = (.cont, .p1u2 b) := by
  unfold p0; rw [if_neg (by omega), if_neg (by omega), if_pos (by omega)]

theorem p0_lead3 (b : Nat) (h : 0xe0 ≤ b ∧ b < 0xf0) : p0 b = (.cont, .p1u3 b) := by
  unfold p0; rw [if_neg (by omega), if_neg (by omega), if_neg (by omega), if_pos (by omega)]

theorem p0_lead4 (b : Nat) (h : 0xf0 ≤ b ∧ b < 0xf5) : p0 b = (.cont, .p1u4 b) := by
  unfold p0; rw [if_neg (by omega), if_neg (by omega), if_neg (by omega), if_neg (by omega), if_pos (by omega)]

theorem writeByte_done (s : UStr) (c : UInt8) (u : Nat) (p : PSt) (h : step s.parser c.toNat = (.done u, p)) :
    writeByte s c = { parser := p, store := s.store ++ [u], rawSize := s.rawSize + uSize u } := by
  simp [writeByte, h]

theorem writeByte_cont (s : UStr) (c : UInt8) (p : PSt) (h : step s.parser c.toNat = (.cont, p)) :
    writeByte s c = { s with parser := p } := by
  simp [writeByte, h]

/-- The four shapes of a scalar value. -/
theorem scalar_cases (n : Nat) (h : isScalar n = true) :
    n < 0x80 ∨ (0x80 ≤ n ∧ n < 0x800) ∨ (0x800 ≤ n ∧ n < 0x10000 ∧ (n < 0xD800 ∨ 0xE000 ≤ n)) ∨
    (0x10000 ≤ n ∧ n ≤ 0x10FFFF) := by
  simp [isScalar] at h; omega

theorem pack1 (n : Nat) (h : n < 0x80) : pack n = n := by
  simp [pack, encode, packBE, Spec.Utf8.byte, h]; omega

theorem pack2 (n : Nat) (h1 : 0x80 ≤ n) (h2 : n < 0x800) :
    pack n = (0xC0 + n / 0x40) * 0x100 + (0x80 + n % 0x40) := by
  have h3 : ¬ n < 0x80 := by omega
  simp [pack, encode, packBE, Spec.Utf8.byte, h3, h2]; omega

theorem pack3 (n : Nat) (h1 : 0x800 ≤ n) (h2 : n < 0x10000) :
    pack n = (0xE0 + n / 0x1000) * 0x10000 + (0x80 + n / 0x40 % 0x40) * 0x100 + (0x80 + n % 0x40) := by
  have h3 : ¬ n < 0x80 := by omega
  have h4 : ¬ n < 0x800 := by omega
  simp [pack, encode, packBE, Spec.Utf8.byte, h3, h4, h2]; omega

theorem pack4 (n : Nat) (h1 : 0x10000 ≤ n) (h2 : n ≤ 0x10FFFF) :
    pack n = (0xF0 + n / 0x40000) * 0x1000000 + (0x80 + n / 0x1000 % 0x40) * 0x10000 +
      (0x80 + n / 0x40 % 0x40) * 0x100 + (0x80 + n % 0x40) := by
  have h3 : ¬ n < 0x80 := by omega
  have h4 : ¬ n < 0x800 := by omega
  have h5 : ¬ n < 0x10000 := by omega
  simp [pack, encode, packBE, Spec.Utf8.byte, h3, h4, h5]; omega

/-! `writeByte` in each parser state, on the byte classes of a well-formed sequence -/

theorem wb_ascii (st : List Nat) (sr : Nat) (c : UInt8) (h0 : c.toNat ≠ 0) (h : c.toNat < 0x80) :
    writeByte ⟨.p0, st, sr⟩ c = ⟨.p0, st ++ [c.toNat], sr + 1⟩ := by
  rw [writeByte_done _ _ c.toNat .p0 (by simp only [step]; exact p0_ascii _ h0 h)]
  simp [uSize]; omega

theorem wb_lead2 (st : List Nat) (sr : Nat) (c : UInt8) (h : 0xc2 ≤ c.toNat ∧ c.toNat < 0xe0) :
    writeByte ⟨.p0, st, sr⟩ c = ⟨.p1u2 c.toNat, st, sr⟩ :=
  writeByte_cont _ _ _ (by simp only [step]; exact p0_lead2 _ h)

theorem wb_lead3 (st : List Nat) (sr : Nat) (c : UInt8) (h : 0xe0 ≤ c.toNat ∧ c.toNat < 0xf0) :
    writeByte ⟨.p0, st, sr⟩ c = ⟨.p1u3 c.toNat, st, sr⟩ :=
  writeByte_cont _ _ _ (by simp only [step]; exact p0_lead3 _ h)

theorem wb_lead4 (st : List Nat) (sr : Nat) (c : UInt8) (h : 0xf0 ≤ c.toNat ∧ c.toNat < 0xf5) :
    writeByte ⟨.p0, st, sr⟩ c = ⟨.p1u4 c.toNat, st, sr⟩ :=
  writeByte_cont _ _ _ (by simp only [step]; exact p0_lead4 _ h)

theorem wb_p1u2 (st : List Nat) (sr b0 : Nat) (c : UInt8) (hb : 0xc2 ≤ b0 ∧ b0 < 0xe0)
    (h : 0x80 ≤ c.toNat ∧ c.toNat < 0xc0) :
    writeByte ⟨.p1u2 b0, st, sr⟩ c = ⟨.p0, st ++ [b0 * 0x100 + c.toNat], sr + 2⟩ := by
  rw [writeByte_done _ _ (b0 * 0x100 + c.toNat) .p0 (by simp only [step]; rw [if_pos (by omega)])]
  have : uSize (b0 * 0x100 + c.toNat) = 2 := by
    unfold uSize; rw [if_neg (by omega), if_pos (by omega)]
  rw [this]

theorem wb_p1u3 (st : List Nat) (sr b0 : Nat) (c : UInt8) (h : ok1u3 b0 c.toNat = true) :
    writeByte ⟨.p1u3 b0, st, sr⟩ c = ⟨.p2u3 b0 c.toNat, st, sr⟩ :=
  writeByte_cont _ _ _ (by simp only [step]; rw [if_pos h])

theorem wb_p2u3 (st : List Nat) (sr b0 b1 : Nat) (c : UInt8) (hb : 0xe0 ≤ b0 ∧ b0 < 0xf0) (hb1 : b1 < 0x100)
    (h : 0x80 ≤ c.toNat ∧ c.toNat < 0xc0) :
    writeByte ⟨.p2u3 b0 b1, st, sr⟩ c = ⟨.p0, st ++ [b0 * 0x10000 + b1 * 0x100 + c.toNat], sr + 3⟩ := by
  rw [writeByte_done _ _ (b0 * 0x10000 + b1 * 0x100 + c.toNat) .p0 (by simp only [step]; rw [if_pos (by omega)])]
  have : uSize (b0 * 0x10000 + b1 * 0x100 + c.toNat) = 3 := by
    unfold uSize; rw [if_neg (by omega), if_neg (by omega), if_pos (by omega)]
  rw [this]

theorem wb_p1u4 (st : List Nat) (sr b0 : Nat) (c : UInt8) (h : ok1u4 b0 c.toNat = true) :
    writeByte ⟨.p1u4 b0, st, sr⟩ c = ⟨.p2u4 b0 c.toNat, st, sr⟩ :=
  writeByte_cont _ _ _ (by simp only [step]; rw [if_pos h])

theorem wb_p2u4 (st : List Nat) (sr b0 b1 : Nat) (c : UInt8) (h : 0x80 ≤ c.toNat ∧ c.toNat < 0xc0) :
    writeByte ⟨.p2u4 b0 b1, st, sr⟩ c = ⟨.p3u4 b0 b1 c.toNat, st, sr⟩ :=
  writeByte_cont _ _ _ (by simp only [step]; rw [if_pos (by omega)])

theorem wb_p3u4 (st : List Nat) (sr b0 b1 b2 : Nat) (c : UInt8) (hb : 0xf0 ≤ b0 ∧ b0 < 0xf5)
    (h : 0x80 ≤ c.toNat ∧ c.toNat < 0xc0) :
    writeByte ⟨.p3u4 b0 b1 b2, st, sr⟩ c =
      ⟨.p0, st ++ [b0 * 0x1000000 + b1 * 0x10000 + b2 * 0x100 + c.toNat], sr + 4⟩ := by
  rw [writeByte_done _ _ (b0 * 0x1000000 + b1 * 0x10000 + b2 * 0x100 + c.toNat) .p0
    (by simp only [step]; rw [if_pos (by omega)])]
  have : uSize (b0 * 0x1000000 + b1 * 0x10000 + b2 * 0x100 + c.toNat) = 4 := by
    unfold uSize; rw [if_neg (by omega), if_neg (by omega), if_neg (by omega)]
  rw [this]

/-- Writing the RFC 3629 encoding of a non-zero scalar value into a string whose parser is at rest
appends exactly that character (in the module's packed representation). -/
theorem writeBytes_encode (n : Nat) (hs : isScalar n = true) (hn : n ≠ 0) (s : UStr) (hp : s.parser = .p0) :
    (encode n).foldl writeByte s =
      { parser := .p0, store := s.store ++ [pack n], rawSize := s.rawSize + (encode n).length } := by
  obtain ⟨sp, st, sr⟩ := s
  simp only at hp; subst hp
  rcases scalar_cases n hs with h | ⟨h1, h2⟩ | ⟨h1, h2, h3⟩ | ⟨h1, h2⟩
  · have hb : (Spec.Utf8.byte n).toNat = n := byte_toNat n (by omega)
    have e : encode n = [Spec.Utf8.byte n] := by simp [encode, h]
    rw [e, pack1 n h]
    simp only [List.foldl_cons, List.foldl_nil, List.length_singleton]
    rw [wb_ascii _ _ _ (by rw [hb]; exact hn) (by rw [hb]; exact h), hb]
  · have e : encode n = [Spec.Utf8.byte (0xC0 + n / 0x40), Spec.Utf8.byte (0x80 + n % 0x40)] := by
      simp [encode, show ¬ n < 0x80 by omega, h2]
    have hb0 := byte_toNat (0xC0 + n / 0x40) (by omega)
    have hb1 := byte_toNat (0x80 + n % 0x40) (by omega)
    rw [e, pack2 n h1 h2]
    simp only [List.foldl_cons, List.foldl_nil, List.length_cons, List.length_nil]
    rw [wb_lead2 _ _ _ (by rw [hb0]; omega), hb0, wb_p1u2 _ _ _ _ (by omega) (by rw [hb1]; omega), hb1]
  · have e : encode n = [Spec.Utf8.byte (0xE0 + n / 0x1000), Spec.Utf8.byte (0x80 + n / 0x40 % 0x40),
        Spec.Utf8.byte (0x80 + n % 0x40)] := by
      simp [encode, show ¬ n < 0x80 by omega, show ¬ n < 0x800 by omega, h2]
    have hb0 := byte_toNat (0xE0 + n / 0x1000) (by omega)
    have hb1 := byte_toNat (0x80 + n / 0x40 % 0x40) (by omega)
    have hb2 := byte_toNat (0x80 + n % 0x40) (by omega)
    rw [e, pack3 n h1 h2]
    simp only [List.foldl_cons, List.foldl_nil, List.length_cons, List.length_nil]
    rw [wb_lead3 _ _ _ (by rw [hb0]; omega), hb0,
      wb_p1u3 _ _ _ _ (by rw [hb1]; simp [ok1u3]; omega), hb1,
      wb_p2u3 _ _ _ _ _ (by omega) (by omega) (by rw [hb2]; omega), hb2]
  · have e : encode n = [Spec.Utf8.byte (0xF0 + n / 0x40000), Spec.Utf8.byte (0x80 + n / 0x1000 % 0x40),
        Spec.Utf8.byte (0x80 + n / 0x40 % 0x40), Spec.Utf8.byte (0x80 + n % 0x40)] := by
      simp [encode, show ¬ n < 0x80 by omega, show ¬ n < 0x800 by omega, show ¬ n < 0x10000 by omega]
    have hb0 := byte_toNat (0xF0 + n / 0x40000) (by omega)
    have hb1 := byte_toNat (0x80 + n / 0x1000 % 0x40) (by omega)
    have hb2 := byte_toNat (0x80 + n / 0x40 % 0x40) (by omega)
    have hb3 := byte_toNat (0x80 + n % 0x40) (by omega)
    rw [e, pack4 n h1 h2]
    simp only [List.foldl_cons, List.foldl_nil, List.length_cons, List.length_nil]
    rw [wb_lead4 _ _ _ (by rw [hb0]; omega), hb0,
      wb_p1u4 _ _ _ _ (by rw [hb1]; simp [ok1u4]; omega), hb1,
      wb_p2u4 _ _ _ _ _ (by rw [hb2]; omega), hb2,
      wb_p3u4 _ _ _ _ _ _ (by omega) (by rw [hb3]; omega), hb3]

theorem writeBytes_encodeAll (cps : List Nat) (hs : ∀ c ∈ cps, isScalar c = true ∧ c ≠ 0) (s : UStr)
    (hp : s.parser = .p0) :
    (encodeAll cps).foldl writeByte s =
      { parser := .p0, store := s.store ++ cps.map pack, rawSize := s.rawSize + (encodeAll cps).length } := by
  induction cps generalizing s with
  | nil => obtain ⟨sp, st, sr⟩ := s; simp only at hp; subst hp; simp [encodeAll]
  | cons c cs ih =>
    have hc := hs c (by simp)
    have e : encodeAll (c :: cs) = encode c ++ encodeAll cs := by simp [encodeAll]
    rw [e, List.foldl_append, writeBytes_encode c hc.1 hc.2 s hp, ih (fun x hx => hs x (by simp [hx])) _ rfl]
    simp [Nat.add_assoc]

theorem byte_eq (x y : Nat) (h : x % 256 = y % 256) : byte x = Spec.Utf8.byte y := by
  simp [byte, Spec.Utf8.byte, h]

theorem d3_0 (a b c : Nat) (hb : b < 256) (hc : c < 256) : (a * 0x10000 + b * 0x100 + c) / 0x10000 % 256 = a % 256 := by omega
theorem d3_1 (a b c : Nat) (hb : b < 256) (hc : c < 256) : (a * 0x10000 + b * 0x100 + c) / 0x100 % 256 = b % 256 := by omega
theorem d3_2 (a b c : Nat) (hb : b < 256) (hc : c < 256) : (a * 0x10000 + b * 0x100 + c) % 256 = c % 256 := by omega
theorem d4_0 (a b c d : Nat) (hb : b < 256) (hc : c < 256) (hd : d < 256) :
    (a * 0x1000000 + b * 0x10000 + c * 0x100 + d) / 0x1000000 % 256 = a % 256 := by omega
theorem d4_1 (a b c d : Nat) (hb : b < 256) (hc : c < 256) (hd : d < 256) :
    (a * 0x1000000 + b * 0x10000 + c * 0x100 + d) / 0x10000 % 256 = b % 256 := by omega
theorem d4_2 (a b c d : Nat) (hb : b < 256) (hc : c < 256) (hd : d < 256) :
    (a * 0x1000000 + b * 0x10000 + c * 0x100 + d) / 0x100 % 256 = c % 256 := by omega
theorem d4_3 (a b c d : Nat) (hb : b < 256) (hc : c < 256) (hd : d < 256) :
    (a * 0x1000000 + b * 0x10000 + c * 0x100 + d) % 256 = d % 256 := by omega

/-- `_u_string` of the packed representation is the RFC 3629 encoding; `_u_size` is its length. -/
theorem uString_pack (n : Nat) (hs : isScalar n = true) :
    uString (pack n) = encode n ∧ uSize (pack n) = (encode n).length := by
  rcases scalar_cases n hs with h | ⟨h1, h2⟩ | ⟨h1, h2, h3⟩ | ⟨h1, h2⟩
  · rw [pack1 n h]
    have e : encode n = [Spec.Utf8.byte n] := by simp [encode, h]
    rw [e]; unfold uString uSize
    rw [if_pos (by omega), if_pos (by omega)]
    exact ⟨by rw [byte_eq n n rfl], rfl⟩
  · rw [pack2 n h1 h2]
    have e : encode n = [Spec.Utf8.byte (0xC0 + n / 0x40), Spec.Utf8.byte (0x80 + n % 0x40)] := by
      simp [encode, show ¬ n < 0x80 by omega, h2]
    rw [e]; unfold uString uSize
    rw [if_neg (by omega), if_pos (by omega), if_neg (by omega), if_pos (by omega)]
    refine ⟨?_, rfl⟩
    rw [byte_eq _ (0xC0 + n / 0x40) (by omega), byte_eq _ (0x80 + n % 0x40) (by omega)]
  · rw [pack3 n h1 h2]
    have e : encode n = [Spec.Utf8.byte (0xE0 + n / 0x1000), Spec.Utf8.byte (0x80 + n / 0x40 % 0x40),
        Spec.Utf8.byte (0x80 + n % 0x40)] := by
      simp [encode, show ¬ n < 0x80 by omega, show ¬ n < 0x800 by omega, h2]
    rw [e]; unfold uString uSize
    rw [if_neg (by omega), if_neg (by omega), if_pos (by omega), if_neg (by omega), if_neg (by omega),
      if_pos (by omega)]
    refine ⟨?_, rfl⟩
    rw [byte_eq _ _ (d3_0 _ _ _ (by omega) (by omega)), byte_eq _ _ (d3_1 _ _ _ (by omega) (by omega)),
      byte_eq _ _ (d3_2 _ _ _ (by omega) (by omega))]
  · rw [pack4 n h1 h2]
    have e : encode n = [Spec.Utf8.byte (0xF0 + n / 0x40000), Spec.Utf8.byte (0x80 + n / 0x1000 % 0x40),
        Spec.Utf8.byte (0x80 + n / 0x40 % 0x40), Spec.Utf8.byte (0x80 + n % 0x40)] := by
      simp [encode, show ¬ n < 0x80 by omega, show ¬ n < 0x800 by omega, show ¬ n < 0x10000 by omega]
    rw [e]; unfold uString uSize
    rw [if_neg (by omega), if_neg (by omega), if_neg (by omega), if_neg (by omega), if_neg (by omega),
      if_neg (by omega)]
    refine ⟨?_, rfl⟩
    rw [byte_eq _ _ (d4_0 _ _ _ _ (by omega) (by omega) (by omega)),
      byte_eq _ _ (d4_1 _ _ _ _ (by omega) (by omega) (by omega)),
      byte_eq _ _ (d4_2 _ _ _ _ (by omega) (by omega) (by omega)),
      byte_eq _ _ (d4_3 _ _ _ _ (by omega) (by omega) (by omega))]

theorem flatMap_uString_pack (cps : List Nat) (hs : ∀ c ∈ cps, isScalar c = true) :
    (cps.map pack).flatMap uString = encodeAll cps := by
  induction cps with
  | nil => rfl
  | cons c cs ih =>
    simp only [List.map_cons, List.flatMap_cons, encodeAll]
    rw [(uString_pack c (hs c (by simp))).1]
    have := ih (fun x hx => hs x (by simp [hx]))
    simp only [encodeAll] at this
    rw [this]

theorem byte_ne_zero (k : Nat) (h : k < 256) (h0 : k ≠ 0) : (Spec.Utf8.byte k ≠ 0) := by
  intro e
  have := byte_toNat k h
  rw [e] at this
  simp at this; omega

theorem pf_done (p : PSt) (b : UInt8) (bs : List UInt8) (u : Nat) (q : PSt) (h : step p b.toNat = (.done u, q)) :
    parseFirst p (b :: bs) = some u := by simp [parseFirst, h]

theorem pf_cont (p : PSt) (b : UInt8) (bs : List UInt8) (q : PSt) (h : step p b.toNat = (.cont, q)) :
    parseFirst p (b :: bs) = parseFirst q bs := by simp [parseFirst, h]

/-- The loop of `Insert` on the buffer `_u_string` produces for a packed non-zero scalar value. -/
theorem parseFirst_encode (n : Nat) (hs : isScalar n = true) (hn : n ≠ 0) :
    parseFirst .p0 ((encode n).takeWhile (· ≠ 0)) = some (pack n) := by
  rcases scalar_cases n hs with h | ⟨h1, h2⟩ | ⟨h1, h2, h3⟩ | ⟨h1, h2⟩
  · have hb : (Spec.Utf8.byte n).toNat = n := byte_toNat n (by omega)
    have e : encode n = [Spec.Utf8.byte n] := by simp [encode, h]
    have z := byte_ne_zero n (by omega) hn
    rw [e, pack1 n h]
    simp only [List.takeWhile_cons, List.takeWhile_nil, ne_eq, z, not_false_eq_true, decide_true, if_true]
    exact pf_done _ _ _ _ .p0 (by simp only [hb, step]; exact p0_ascii n hn h)
  · have e : encode n = [Spec.Utf8.byte (0xC0 + n / 0x40), Spec.Utf8.byte (0x80 + n % 0x40)] := by
      simp [encode, show ¬ n < 0x80 by omega, h2]
    have hb0 := byte_toNat (0xC0 + n / 0x40) (by omega)
    have hb1 := byte_toNat (0x80 + n % 0x40) (by omega)
    have z0 := byte_ne_zero (0xC0 + n / 0x40) (by omega) (by omega)
    have z1 := byte_ne_zero (0x80 + n % 0x40) (by omega) (by omega)
    rw [e, pack2 n h1 h2]
    simp only [List.takeWhile_cons, List.takeWhile_nil, ne_eq, z0, z1, not_false_eq_true, decide_true, if_true]
    rw [pf_cont _ _ _ (.p1u2 (0xC0 + n / 0x40)) (by simp only [hb0, step]; exact p0_lead2 _ (by omega))]
    exact pf_done _ _ _ _ .p0 (by simp only [hb1, step]; rw [if_pos (by omega)])
  · have e : encode n = [Spec.Utf8.byte (0xE0 + n / 0x1000), Spec.Utf8.byte (0x80 + n / 0x40 % 0x40),
        Spec.Utf8.byte (0x80 + n % 0x40)] := by
      simp [encode, show ¬ n < 0x80 by omega, show ¬ n < 0x800 by omega, h2]
    have hb0 := byte_toNat (0xE0 + n / 0x1000) (by omega)
    have hb1 := byte_toNat (0x80 + n / 0x40 % 0x40) (by omega)
    have hb2 := byte_toNat (0x80 + n % 0x40) (by omega)
    have z0 := byte_ne_zero (0xE0 + n / 0x1000) (by omega) (by omega)
    have z1 := byte_ne_zero (0x80 + n / 0x40 % 0x40) (by omega) (by omega)
    have z2 := byte_ne_zero (0x80 + n % 0x40) (by omega) (by omega)
    rw [e, pack3 n h1 h2]
    simp only [List.takeWhile_cons, List.takeWhile_nil, ne_eq, z0, z1, z2, not_false_eq_true, decide_true, if_true]
    rw [pf_cont _ _ _ (.p1u3 (0xE0 + n / 0x1000)) (by simp only [hb0, step]; exact p0_lead3 _ (by omega))]
    rw [pf_cont _ _ _ (.p2u3 (0xE0 + n / 0x1000) (0x80 + n / 0x40 % 0x40))
      (by simp only [hb1, step]; rw [if_pos (by simp [ok1u3]; omega)])]
    exact pf_done _ _ _ _ .p0 (by simp only [hb2, step]; rw [if_pos (by omega)])
  · have e : encode n = [Spec.Utf8.byte (0xF0 + n / 0x40000), Spec.Utf8.byte (0x80 + n / 0x1000 % 0x40),
        Spec.Utf8.byte (0x80 + n / 0x40 % 0x40), Spec.Utf8.byte (0x80 + n % 0x40)] := by
      simp [encode, show ¬ n < 0x80 by omega, show ¬ n < 0x800 by omega, show ¬ n < 0x10000 by omega]
    have hb0 := byte_toNat (0xF0 + n / 0x40000) (by omega)
    have hb1 := byte_toNat (0x80 + n / 0x1000 % 0x40) (by omega)
    have hb2 := byte_toNat (0x80 + n / 0x40 % 0x40) (by omega)
    have hb3 := byte_toNat (0x80 + n % 0x40) (by omega)
    have z0 := byte_ne_zero (0xF0 + n / 0x40000) (by omega) (by omega)
    have z1 := byte_ne_zero (0x80 + n / 0x1000 % 0x40) (by omega) (by omega)
    have z2 := byte_ne_zero (0x80 + n / 0x40 % 0x40) (by omega) (by omega)
    have z3 := byte_ne_zero (0x80 + n % 0x40) (by omega) (by omega)
    rw [e, pack4 n h1 h2]
    simp only [List.takeWhile_cons, List.takeWhile_nil, ne_eq, z0, z1, z2, z3, not_false_eq_true, decide_true, if_true]
    rw [pf_cont _ _ _ (.p1u4 (0xF0 + n / 0x40000)) (by simp only [hb0, step]; exact p0_lead4 _ (by omega))]
    rw [pf_cont _ _ _ (.p2u4 (0xF0 + n / 0x40000) (0x80 + n / 0x1000 % 0x40))
      (by simp only [hb1, step]; rw [if_pos (by simp [ok1u4]; omega)])]
    rw [pf_cont _ _ _ (.p3u4 (0xF0 + n / 0x40000) (0x80 + n / 0x1000 % 0x40) (0x80 + n / 0x40 % 0x40))
      (by simp only [hb2, step]; rw [if_pos (by omega)])]
    exact pf_done _ _ _ _ .p0 (by simp only [hb3, step]; rw [if_pos (by omega)])

/-- `(size_t) i` of a non-negative `int64_t` is its value -/
theorem toSizeT_of_nonneg (i : Int64) (h : 0 ≤ i.toInt) : toSizeT i = i.toInt.toNat := by
  unfold toSizeT
  have e1 : i.toUInt64.toNat = i.toBitVec.toNat := rfl
  have e2 : i.toInt = i.toBitVec.toInt := rfl
  rw [e1]; rw [e2] at h ⊢
  rw [BitVec.toInt_eq_toNat_cond] at h ⊢
  have hlt := i.toBitVec.isLt
  split at h <;> rename_i hc <;> simp only [hc, if_true, if_false] <;> omega

end BlocV.Mod.Utf8
