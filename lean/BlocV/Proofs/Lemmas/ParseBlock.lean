/-
  Helper lemmas for C12, block statements: one-step unfoldings of `ParseStatement::parse` at if / while / for / forall /
  begin / function, of `parse_clause` (`pBlock`), `IFStatement::parse` (`pIf`), `BEGINStatement::parse` (`pBegin`,
  `pCatches`), function parameters (`pParams`); the mutual round-trip induction over statements, clauses, rule lists,
  catch lists (`stmt_rt`, `block_rt`, `rules_rt`, `catches_rt`) and programs (`program_rt`).
-/
import BlocV.Proofs.Lemmas.ParseStmt

namespace BlocV.C12L
open BlocV BlocV.Parse BlocV.Unparse BlocV.Roundtrip

/-! ## Clauses (`pBlock`) -/

theorem pBlock_end {f : Nat} {enders : List Bytes} {e : Tok} {rest : List Tok} (hc : e.code = cKW)
    (he : enders.contains e.text = true) : pBlock (f + 1) enders false (e :: rest) = .ok ([], e :: rest) := by
  have he' : e.text ∈ enders := by simpa using he
  rw [pBlock.eq_def]; simp (config := { decide := true }) [hc, he', cSEMI, cKW, Gen.TOKEN_KEYWORD, pure, Except.pure]

theorem pBlock_cons {f : Nat} {enders : List Bytes} {ne : Bool} {t : Tok} {ts ts2 ts3 : List Tok} {s : PStmt} {ss : List PStmt}
    (hc : t.code = cKW) (he : enders.contains t.text = false) (hs : pStmt f true (t :: ts) = .ok (some s, ts2))
    (hb : pBlock f enders false ts2 = .ok (ss, ts3)) : pBlock (f + 1) enders ne (t :: ts) = .ok (s :: ss, ts3) := by
  have he' : ¬ t.text ∈ enders := by simpa using he
  rw [pBlock.eq_def]; simp (config := { decide := true }) [hc, he', hs, hb, cSEMI, cKW, Gen.TOKEN_KEYWORD, bind, Except.bind, pure, Except.pure]

/-! ## while / for / forall -/

theorem pStmt_while {f : Nat} {nested : Bool} {ts ts3 rest : List Tok} {c : PExpr} {body : List PStmt}
    (he : pExpr f ts = .ok (c, kw "loop" :: ts3))
    (hb : pBlock f [bytesOf "end"] true ts3 = .ok (body, kw "end" :: kw "loop" :: ch 59 :: rest)) :
    pStmt (f + 1) nested (kw "while" :: ts) = .ok (some (.whileS c body), rest) := by
  rw [pStmt.eq_def]
  have hk : isStmtKw (kw "while").text = true := by decide
  have h1 : ((kw "while").code == cSEMI) = false := by decide
  have h2 : ((kw "while").code != cKW) = false := by decide
  have n0 : isKw (kw "while") "nop" = false := by decide
  have n1 : isKw (kw "while") "break" = false := by decide
  have n2 : isKw (kw "while") "continue" = false := by decide
  have n3 : isKw (kw "while") "trace" = false := by decide
  have n4 : isKw (kw "while") "return" = false := by decide
  have n5 : isKw (kw "while") "let" = false := by decide
  have n6 : isKw (kw "while") "print" = false := by decide
  have n7 : isKw (kw "while") "put" = false := by decide
  have n8 : isKw (kw "while") "do" = false := by decide
  have n9 : isKw (kw "while") "raise" = false := by decide
  have n10 : isKw (kw "while") "if" = false := by decide
  have n11 : isKw (kw "while") "while" = true := by decide
  simp only [h1, h2, hk, n0, n1, n2, n3, n4, n5, n6, n7, n8, n9, n10, n11, if_true, if_false, Bool.false_eq_true]
  simp (config := { decide := true }) [he, hb, pEndLoop, kw, ch, cSEMI, bind, Except.bind, pure, Except.pure, isKw, cKW, cRP, Gen.TOKEN_KEYWORD]

theorem popName_ok {code : Nat} {n : Bytes} {ts : List Tok} (hn : nameOk n = true) :
    popName code (⟨cKW, n⟩ :: ts) = .ok (n, ts) := by
  simp [popName, nameOk_notReserved' hn, nameOk_upper hn, cKW, Gen.TOKEN_KEYWORD, pure, Except.pure]

theorem popDir_dirToks (dir : PDir) (ts : List Tok) : popDir (dirToks dir ++ kw "loop" :: ts) = (dir, kw "loop" :: ts) := by
  cases dir <;> simp (config := { decide := true }) [dirToks, popDir, isKw, kw, cKW, Gen.TOKEN_KEYWORD]

theorem dirToks_head (dir : PDir) (ts : List Tok) : ∃ t ts', dirToks dir ++ kw "loop" :: ts = t :: ts' ∧
    (t.code == cRP) = false ∧ isKw t "step" = false ∧ Stops 9 t ∧ t.code ≠ cLP := by
  cases dir
  · exact ⟨kw "loop", ts, rfl, by decide, by decide, by decide, by decide⟩
  · exact ⟨kw "asc", kw "loop" :: ts, rfl, by decide, by decide, by decide, by decide⟩
  · exact ⟨kw "desc", kw "loop" :: ts, rfl, by decide, by decide, by decide, by decide⟩

theorem pStmt_for_nostep {f : Nat} {nested : Bool} {v : Bytes} {ts3 ts5 ts10 rest : List Tok} {b e : PExpr} {dir : PDir}
    {body : List PStmt} (hv : nameOk v = true) (hb : pExpr f ts3 = .ok (b, kw "to" :: ts5))
    (he : pExpr f ts5 = .ok (e, dirToks dir ++ kw "loop" :: ts10))
    (hbody : pBlock f [bytesOf "end"] true ts10 = .ok (body, kw "end" :: kw "loop" :: ch 59 :: rest)) :
    pStmt (f + 1) nested (kw "for" :: ⟨cKW, v⟩ :: kw "in" :: ts3) = .ok (some (.forS v b e none dir body), rest) := by
  rw [pStmt.eq_def]
  have hk : isStmtKw (kw "for").text = true := by decide
  have h1 : ((kw "for").code == cSEMI) = false := by decide
  have h2 : ((kw "for").code != cKW) = false := by decide
  have n0 : isKw (kw "for") "nop" = false := by decide
  have n1 : isKw (kw "for") "break" = false := by decide
  have n2 : isKw (kw "for") "continue" = false := by decide
  have n3 : isKw (kw "for") "trace" = false := by decide
  have n4 : isKw (kw "for") "return" = false := by decide
  have n5 : isKw (kw "for") "let" = false := by decide
  have n6 : isKw (kw "for") "print" = false := by decide
  have n7 : isKw (kw "for") "put" = false := by decide
  have n8 : isKw (kw "for") "do" = false := by decide
  have n9 : isKw (kw "for") "raise" = false := by decide
  have n10 : isKw (kw "for") "if" = false := by decide
  have n11 : isKw (kw "for") "while" = false := by decide
  have n12 : isKw (kw "for") "for" = true := by decide
  simp only [h1, h2, hk, n0, n1, n2, n3, n4, n5, n6, n7, n8, n9, n10, n11, n12, if_true, if_false, Bool.false_eq_true]
  simp only [popName_ok hv]
  cases dir <;> simp only [dirToks, List.nil_append, List.cons_append] at he <;>
    simp (config := { decide := true }) [expectKw, hb, he, hbody, popDir, pEndLoop, kw, ch, cSEMI, bind, Except.bind, pure, Except.pure,
      isKw, cKW, cRP, Gen.TOKEN_KEYWORD]

theorem pStmt_for_step {f : Nat} {nested : Bool} {v : Bytes} {ts3 ts5 ts7 ts10 rest : List Tok} {b e st : PExpr} {dir : PDir}
    {body : List PStmt} (hv : nameOk v = true) (hb : pExpr f ts3 = .ok (b, kw "to" :: ts5))
    (he : pExpr f ts5 = .ok (e, kw "step" :: ts7)) (hst : pExpr f ts7 = .ok (st, dirToks dir ++ kw "loop" :: ts10))
    (hbody : pBlock f [bytesOf "end"] true ts10 = .ok (body, kw "end" :: kw "loop" :: ch 59 :: rest)) :
    pStmt (f + 1) nested (kw "for" :: ⟨cKW, v⟩ :: kw "in" :: ts3) = .ok (some (.forS v b e (some st) dir body), rest) := by
  rw [pStmt.eq_def]
  have hk : isStmtKw (kw "for").text = true := by decide
  have h1 : ((kw "for").code == cSEMI) = false := by decide
  have h2 : ((kw "for").code != cKW) = false := by decide
  have n0 : isKw (kw "for") "nop" = false := by decide
  have n1 : isKw (kw "for") "break" = false := by decide
  have n2 : isKw (kw "for") "continue" = false := by decide
  have n3 : isKw (kw "for") "trace" = false := by decide
  have n4 : isKw (kw "for") "return" = false := by decide
  have n5 : isKw (kw "for") "let" = false := by decide
  have n6 : isKw (kw "for") "print" = false := by decide
  have n7 : isKw (kw "for") "put" = false := by decide
  have n8 : isKw (kw "for") "do" = false := by decide
  have n9 : isKw (kw "for") "raise" = false := by decide
  have n10 : isKw (kw "for") "if" = false := by decide
  have n11 : isKw (kw "for") "while" = false := by decide
  have n12 : isKw (kw "for") "for" = true := by decide
  simp only [h1, h2, hk, n0, n1, n2, n3, n4, n5, n6, n7, n8, n9, n10, n11, n12, if_true, if_false, Bool.false_eq_true]
  simp only [popName_ok hv]
  cases dir <;> simp only [dirToks, List.nil_append, List.cons_append] at hst <;>
    simp (config := { decide := true }) [expectKw, hb, he, hst, hbody, popDir, pEndLoop, kw, ch, cSEMI, bind, Except.bind, pure, Except.pure,
      isKw, cKW, cRP, Gen.TOKEN_KEYWORD]

theorem pStmt_forall {f : Nat} {nested : Bool} {v : Bytes} {ts3 ts10 rest : List Tok} {e : PExpr} {dir : PDir}
    {body : List PStmt} (hv : nameOk v = true) (he : pExpr f ts3 = .ok (e, dirToks dir ++ kw "loop" :: ts10))
    (hbody : pBlock f [bytesOf "end"] true ts10 = .ok (body, kw "end" :: kw "loop" :: ch 59 :: rest)) :
    pStmt (f + 1) nested (kw "forall" :: ⟨cKW, v⟩ :: kw "in" :: ts3) = .ok (some (.forall v e dir body), rest) := by
  rw [pStmt.eq_def]
  have hk : isStmtKw (kw "forall").text = true := by decide
  have h1 : ((kw "forall").code == cSEMI) = false := by decide
  have h2 : ((kw "forall").code != cKW) = false := by decide
  have n0 : isKw (kw "forall") "nop" = false := by decide
  have n1 : isKw (kw "forall") "break" = false := by decide
  have n2 : isKw (kw "forall") "continue" = false := by decide
  have n3 : isKw (kw "forall") "trace" = false := by decide
  have n4 : isKw (kw "forall") "return" = false := by decide
  have n5 : isKw (kw "forall") "let" = false := by decide
  have n6 : isKw (kw "forall") "print" = false := by decide
  have n7 : isKw (kw "forall") "put" = false := by decide
  have n8 : isKw (kw "forall") "do" = false := by decide
  have n9 : isKw (kw "forall") "raise" = false := by decide
  have n10 : isKw (kw "forall") "if" = false := by decide
  have n11 : isKw (kw "forall") "while" = false := by decide
  have n12 : isKw (kw "forall") "for" = false := by decide
  have n13 : isKw (kw "forall") "forall" = true := by decide
  simp only [h1, h2, hk, n0, n1, n2, n3, n4, n5, n6, n7, n8, n9, n10, n11, n12, n13, if_true, if_false, Bool.false_eq_true]
  simp only [popName_ok hv]
  cases dir <;> simp only [dirToks, List.nil_append, List.cons_append] at he <;>
    simp (config := { decide := true }) [expectKw, he, hbody, popDir, pEndLoop, kw, ch, cSEMI, bind, Except.bind, pure, Except.pure,
      isKw, cKW, cRP, Gen.TOKEN_KEYWORD]

/-! ## if -/

theorem pStmt_if {f : Nat} {nested : Bool} {ts r : List Tok} {s : PStmt} (h : pIf f ts = .ok (s, r)) :
    pStmt (f + 1) nested (kw "if" :: ts) = .ok (some s, r) := by
  rw [pStmt.eq_def]
  have hk : isStmtKw (kw "if").text = true := by decide
  have h1 : ((kw "if").code == cSEMI) = false := by decide
  have h2 : ((kw "if").code != cKW) = false := by decide
  have n0 : isKw (kw "if") "nop" = false := by decide
  have n1 : isKw (kw "if") "break" = false := by decide
  have n2 : isKw (kw "if") "continue" = false := by decide
  have n3 : isKw (kw "if") "trace" = false := by decide
  have n4 : isKw (kw "if") "return" = false := by decide
  have n5 : isKw (kw "if") "let" = false := by decide
  have n6 : isKw (kw "if") "print" = false := by decide
  have n7 : isKw (kw "if") "put" = false := by decide
  have n8 : isKw (kw "if") "do" = false := by decide
  have n9 : isKw (kw "if") "raise" = false := by decide
  have n10 : isKw (kw "if") "if" = true := by decide
  simp only [h1, h2, hk, n0, n1, n2, n3, n4, n5, n6, n7, n8, n9, n10, if_true, if_false, Bool.false_eq_true]
  simp (config := { decide := true }) [h, bind, Except.bind, pure, Except.pure, isKw, cKW, cRP, Gen.TOKEN_KEYWORD]

def ifEnders : List Bytes := [bytesOf "end", bytesOf "elsif", bytesOf "else"]

theorem pIf_noelse {f : Nat} {ts ts2 rest : List Tok} {c : PExpr} {body : List PStmt}
    (he : pExpr f ts = .ok (c, kw "then" :: ts2))
    (hb : pBlock f ifEnders true ts2 = .ok (body, kw "end" :: kw "if" :: ch 59 :: rest)) :
    pIf (f + 1) ts = .ok (.ifS [(c, body)] none, rest) := by
  unfold ifEnders at hb
  rw [pIf.eq_def]
  simp (config := { decide := true }) [he, hb, pEndIf, kw, ch, cSEMI, bind, Except.bind, pure, Except.pure, isKw, cKW, cRP, Gen.TOKEN_KEYWORD]

theorem pIf_else {f : Nat} {ts ts2 ts4 rest : List Tok} {c : PExpr} {body eb : List PStmt}
    (he : pExpr f ts = .ok (c, kw "then" :: ts2))
    (hb : pBlock f ifEnders true ts2 = .ok (body, kw "else" :: ts4))
    (hb2 : pBlock f ifEnders true ts4 = .ok (eb, kw "end" :: kw "if" :: ch 59 :: rest)) :
    pIf (f + 1) ts = .ok (.ifS [(c, body)] (some eb), rest) := by
  unfold ifEnders at hb hb2
  rw [pIf.eq_def]
  simp (config := { decide := true }) [he, hb, hb2, pEndIf, kw, ch, cSEMI, bind, Except.bind, pure, Except.pure, isKw, cKW, cRP, Gen.TOKEN_KEYWORD]

theorem pIf_elsif {f : Nat} {ts ts2 ts4 r : List Tok} {c : PExpr} {body : List PStmt} {rules : List (PExpr × List PStmt)}
    {els : Option (List PStmt)} (he : pExpr f ts = .ok (c, kw "then" :: ts2))
    (hb : pBlock f ifEnders true ts2 = .ok (body, kw "elsif" :: ts4)) (hr : pIf f ts4 = .ok (.ifS rules els, r)) :
    pIf (f + 1) ts = .ok (.ifS ((c, body) :: rules) els, r) := by
  unfold ifEnders at hb
  rw [pIf.eq_def]
  simp (config := { decide := true }) [he, hb, hr, bind, Except.bind, pure, Except.pure, isKw, cKW, cRP, Gen.TOKEN_KEYWORD]

/-! ## begin / exception / when, function -/

def beginEnders : List Bytes := [bytesOf "end", bytesOf "exception"]
def whenEnders : List Bytes := [bytesOf "end", bytesOf "when"]

theorem pBegin_noexc {f : Nat} {ts rest : List Tok} {body : List PStmt}
    (hb : pBlock f beginEnders false ts = .ok (body, kw "end" :: ch 59 :: rest)) :
    pBegin (f + 1) ts = .ok ((body, []), rest) := by
  unfold beginEnders at hb
  rw [pBegin.eq_def]
  simp (config := { decide := true }) [hb, pEndBlock, ch, cSEMI, bind, Except.bind, pure, Except.pure, isKw, cKW, cRP, Gen.TOKEN_KEYWORD]

theorem pBegin_exc {f : Nat} {ts ts2 rest : List Tok} {body : List PStmt} {catches : List (Bytes × List PStmt)}
    (hb : pBlock f beginEnders false ts = .ok (body, kw "exception" :: ts2))
    (hc : pCatches f ts2 = .ok (catches, ch 59 :: rest)) :
    pBegin (f + 1) ts = .ok ((body, catches), rest) := by
  unfold beginEnders at hb
  rw [pBegin.eq_def]
  simp (config := { decide := true }) [hb, hc, pEndBlock, ch, cSEMI, bind, Except.bind, pure, Except.pure, isKw, cKW, cRP, Gen.TOKEN_KEYWORD]

theorem pCatches_last {f : Nat} {n : Bytes} {ts3 ts5 : List Tok} {body : List PStmt} (hn : nameOk n = true)
    (hb : pBlock f whenEnders true ts3 = .ok (body, kw "end" :: ts5)) :
    pCatches (f + 1) (kw "when" :: ⟨cKW, n⟩ :: kw "then" :: ts3) = .ok ([(n, body)], ts5) := by
  unfold whenEnders at hb
  rw [pCatches.eq_def]
  simp only [popName_ok hn]
  simp (config := { decide := true }) [expectKw, hb, bind, Except.bind, pure, Except.pure, isKw, cKW, cRP, Gen.TOKEN_KEYWORD]

theorem pCatches_more {f : Nat} {n : Bytes} {ts3 ts5 r : List Tok} {body : List PStmt} {cs : List (Bytes × List PStmt)}
    (hn : nameOk n = true) (hb : pBlock f whenEnders true ts3 = .ok (body, kw "when" :: ts5))
    (hr : pCatches f (kw "when" :: ts5) = .ok (cs, r)) :
    pCatches (f + 1) (kw "when" :: ⟨cKW, n⟩ :: kw "then" :: ts3) = .ok ((n, body) :: cs, r) := by
  unfold whenEnders at hb
  rw [pCatches.eq_def]
  simp only [popName_ok hn]
  simp (config := { decide := true }) [expectKw, hb, hr, bind, Except.bind, pure, Except.pure, isKw, cKW, cRP, Gen.TOKEN_KEYWORD]

theorem pStmt_begin {f : Nat} {nested : Bool} {ts r : List Tok} {body : List PStmt} {catches : List (Bytes × List PStmt)}
    (h : pBegin f ts = .ok ((body, catches), r)) :
    pStmt (f + 1) nested (kw "begin" :: ts) = .ok (some (.begin body catches), r) := by
  rw [pStmt.eq_def]
  have hk : isStmtKw (kw "begin").text = true := by decide
  have h1 : ((kw "begin").code == cSEMI) = false := by decide
  have h2 : ((kw "begin").code != cKW) = false := by decide
  have n0 : isKw (kw "begin") "nop" = false := by decide
  have n1 : isKw (kw "begin") "break" = false := by decide
  have n2 : isKw (kw "begin") "continue" = false := by decide
  have n3 : isKw (kw "begin") "trace" = false := by decide
  have n4 : isKw (kw "begin") "return" = false := by decide
  have n5 : isKw (kw "begin") "let" = false := by decide
  have n6 : isKw (kw "begin") "print" = false := by decide
  have n7 : isKw (kw "begin") "put" = false := by decide
  have n8 : isKw (kw "begin") "do" = false := by decide
  have n9 : isKw (kw "begin") "raise" = false := by decide
  have n10 : isKw (kw "begin") "if" = false := by decide
  have n11 : isKw (kw "begin") "while" = false := by decide
  have n12 : isKw (kw "begin") "for" = false := by decide
  have n13 : isKw (kw "begin") "forall" = false := by decide
  have n14 : isKw (kw "begin") "begin" = true := by decide
  simp only [h1, h2, hk, n0, n1, n2, n3, n4, n5, n6, n7, n8, n9, n10, n11, n12, n13, n14, if_true, if_false, Bool.false_eq_true]
  simp (config := { decide := true }) [h, bind, Except.bind, pure, Except.pure, isKw, cKW, cRP, Gen.TOKEN_KEYWORD]

/-! ## function declarations -/

theorem popType_ok {ty : Bytes} {ts : List Tok} (h : typeKws.contains ty = true) : popType (⟨cKW, ty⟩ :: ts) = .ok (ty, ts) := by
  have h' : ty ∈ typeKws := by simpa using h
  simp [popType, h', cKW, Gen.TOKEN_KEYWORD, pure, Except.pure]

theorem pParams_rt : ∀ (params : List (Bytes × Bytes)), params ≠ [] → params.all paramOk = true → ∀ (rest : List Tok) (f : Nat),
    params.length + 1 ≤ f →
    pParams f (joinToks (ch 44) (params.map paramToks) ++ ch 41 :: rest) = .ok (params, rest)
  | [], h, _, _, _, _ => absurd rfl h
  | [(n, ty)], _, hok, rest, f, hf => by
    obtain ⟨f', rfl⟩ : ∃ f', f = f' + 1 := ⟨f - 1, by omega⟩
    simp only [List.all_cons, List.all_nil, Bool.and_true, paramOk, Bool.and_eq_true, Bool.or_eq_true, beq_iff_eq] at hok
    obtain ⟨hu, hty⟩ := hok
    rw [pParams.eq_def]
    by_cases he : ty = []
    · subst he
      simp (config := { decide := true }) [List.map, joinToks, paramToks, hu, pure, Except.pure]
    · have hemp : ty.isEmpty = false := by cases ty <;> simp_all
      rw [hemp] at hty
      simp only [Bool.false_eq_true, false_or, bne_iff_ne, ne_eq] at hty
      have hne : (ty == bytesOf "undefined") = false := by simpa using hty.2
      simp (config := { decide := true }) [List.map, joinToks, paramToks, hemp, hu, popType_ok hty.1, hne, bind, Except.bind, pure, Except.pure]
  | (n, ty) :: q :: ps, _, hok, rest, f, hf => by
    obtain ⟨f', rfl⟩ : ∃ f', f = f' + 1 := ⟨f - 1, by omega⟩
    have hok2 : (q :: ps).all paramOk = true := by simp only [List.all_cons, Bool.and_eq_true] at hok ⊢; exact hok.2
    have ih := pParams_rt (q :: ps) (by simp) hok2 rest f' (by simp only [List.length_cons] at hf ⊢; omega)
    have hok1 : paramOk (n, ty) = true := by simp only [List.all_cons, Bool.and_eq_true] at hok; exact hok.1
    simp only [paramOk, Bool.and_eq_true, Bool.or_eq_true, beq_iff_eq] at hok1
    obtain ⟨hu, hty⟩ := hok1
    have e1 : joinToks (ch 44) (((n, ty) :: q :: ps).map paramToks) ++ ch 41 :: rest =
        paramToks (n, ty) ++ ch 44 :: (joinToks (ch 44) ((q :: ps).map paramToks) ++ ch 41 :: rest) := by
      simp [List.map, joinToks]
    rw [e1]
    generalize joinToks (ch 44) ((q :: ps).map paramToks) ++ ch 41 :: rest = T at ih
    rw [pParams.eq_def]
    by_cases he : ty = []
    · subst he
      simp (config := { decide := true }) [paramToks, hu, ih, bind, Except.bind, pure, Except.pure]
    · have hemp : ty.isEmpty = false := by cases ty <;> simp_all
      rw [hemp] at hty
      simp only [Bool.false_eq_true, false_or, bne_iff_ne, ne_eq] at hty
      have hne : (ty == bytesOf "undefined") = false := by simpa using hty.2
      simp (config := { decide := true }) [paramToks, hemp, hu, popType_ok hty.1, hne, ih, bind, Except.bind, pure, Except.pure]

theorem pStmt_function0 {f : Nat} {n rt : Bytes} {ts8 r : List Tok} {body : List PStmt} {catches : List (Bytes × List PStmt)}
    (hn : nameOk n = true) (hrt : typeKws.contains rt = true) (hbeg : pBegin f ts8 = .ok ((body, catches), r)) :
    pStmt (f + 1) false (kw "function" :: ⟨cKW, n⟩ :: kw "return" :: ⟨cKW, rt⟩ :: kw "is" :: kw "begin" :: ts8) =
      .ok (some (.func n [] rt body catches), r) := by
  rw [pStmt.eq_def]
  have hk : isStmtKw (kw "function").text = true := by decide
  have h1 : ((kw "function").code == cSEMI) = false := by decide
  have h2 : ((kw "function").code != cKW) = false := by decide
  have n0 : isKw (kw "function") "nop" = false := by decide
  have n1 : isKw (kw "function") "break" = false := by decide
  have n2 : isKw (kw "function") "continue" = false := by decide
  have n3 : isKw (kw "function") "trace" = false := by decide
  have n4 : isKw (kw "function") "return" = false := by decide
  have n5 : isKw (kw "function") "let" = false := by decide
  have n6 : isKw (kw "function") "print" = false := by decide
  have n7 : isKw (kw "function") "put" = false := by decide
  have n8 : isKw (kw "function") "do" = false := by decide
  have n9 : isKw (kw "function") "raise" = false := by decide
  have n10 : isKw (kw "function") "if" = false := by decide
  have n11 : isKw (kw "function") "while" = false := by decide
  have n12 : isKw (kw "function") "for" = false := by decide
  have n13 : isKw (kw "function") "forall" = false := by decide
  have n14 : isKw (kw "function") "begin" = false := by decide
  have n15 : isKw (kw "function") "function" = true := by decide
  simp only [h1, h2, hk, n0, n1, n2, n3, n4, n5, n6, n7, n8, n9, n10, n11, n12, n13, n14, n15, if_true, if_false, Bool.false_eq_true]
  simp only [popName_ok hn]
  have e1 : expectKw "return" Gen.EXC_PARSE_OTHER_S (kw "return" :: ⟨cKW, rt⟩ :: kw "is" :: kw "begin" :: ts8) =
      .ok (⟨cKW, rt⟩ :: kw "is" :: kw "begin" :: ts8) := by
    simp (config := { decide := true }) [expectKw, isKw, kw, cKW, Gen.TOKEN_KEYWORD, pure, Except.pure]
  have e2 : expectKw "is" Gen.EXC_PARSE_OTHER_S (kw "is" :: kw "begin" :: ts8) = .ok (kw "begin" :: ts8) := by
    simp (config := { decide := true }) [expectKw, isKw, kw, cKW, Gen.TOKEN_KEYWORD, pure, Except.pure]
  have e3 : expectKw "begin" Gen.EXC_PARSE_OTHER_S (kw "begin" :: ts8) = .ok ts8 := by
    simp (config := { decide := true }) [expectKw, isKw, kw, cKW, Gen.TOKEN_KEYWORD, pure, Except.pure]
  have e0 : ((kw "return").code == cLP) = false := by decide
  simp [e0, e1, popType_ok hrt, e2, e3, hbeg, bind, Except.bind, pure, Except.pure]

theorem pStmt_functionN {f : Nat} {n rt pn : Bytes} {ts3 ts8 r : List Tok} {params : List (Bytes × Bytes)} {body : List PStmt}
    {catches : List (Bytes × List PStmt)} (hn : nameOk n = true) (hrt : typeKws.contains rt = true)
    (hp : pParams f (⟨cKW, pn⟩ :: ts3) = .ok (params, kw "return" :: ⟨cKW, rt⟩ :: kw "is" :: kw "begin" :: ts8))
    (hbeg : pBegin f ts8 = .ok ((body, catches), r)) :
    pStmt (f + 1) false (kw "function" :: ⟨cKW, n⟩ :: ch 40 :: ⟨cKW, pn⟩ :: ts3) = .ok (some (.func n params rt body catches), r) := by
  rw [pStmt.eq_def]
  have hk : isStmtKw (kw "function").text = true := by decide
  have h1 : ((kw "function").code == cSEMI) = false := by decide
  have h2 : ((kw "function").code != cKW) = false := by decide
  have n0 : isKw (kw "function") "nop" = false := by decide
  have n1 : isKw (kw "function") "break" = false := by decide
  have n2 : isKw (kw "function") "continue" = false := by decide
  have n3 : isKw (kw "function") "trace" = false := by decide
  have n4 : isKw (kw "function") "return" = false := by decide
  have n5 : isKw (kw "function") "let" = false := by decide
  have n6 : isKw (kw "function") "print" = false := by decide
  have n7 : isKw (kw "function") "put" = false := by decide
  have n8 : isKw (kw "function") "do" = false := by decide
  have n9 : isKw (kw "function") "raise" = false := by decide
  have n10 : isKw (kw "function") "if" = false := by decide
  have n11 : isKw (kw "function") "while" = false := by decide
  have n12 : isKw (kw "function") "for" = false := by decide
  have n13 : isKw (kw "function") "forall" = false := by decide
  have n14 : isKw (kw "function") "begin" = false := by decide
  have n15 : isKw (kw "function") "function" = true := by decide
  simp only [h1, h2, hk, n0, n1, n2, n3, n4, n5, n6, n7, n8, n9, n10, n11, n12, n13, n14, n15, if_true, if_false, Bool.false_eq_true]
  simp only [popName_ok hn]
  have e1 : expectKw "return" Gen.EXC_PARSE_OTHER_S (kw "return" :: ⟨cKW, rt⟩ :: kw "is" :: kw "begin" :: ts8) =
      .ok (⟨cKW, rt⟩ :: kw "is" :: kw "begin" :: ts8) := by
    simp (config := { decide := true }) [expectKw, isKw, kw, cKW, Gen.TOKEN_KEYWORD, pure, Except.pure]
  have e2 : expectKw "is" Gen.EXC_PARSE_OTHER_S (kw "is" :: kw "begin" :: ts8) = .ok (kw "begin" :: ts8) := by
    simp (config := { decide := true }) [expectKw, isKw, kw, cKW, Gen.TOKEN_KEYWORD, pure, Except.pure]
  have e3 : expectKw "begin" Gen.EXC_PARSE_OTHER_S (kw "begin" :: ts8) = .ok ts8 := by
    simp (config := { decide := true }) [expectKw, isKw, kw, cKW, Gen.TOKEN_KEYWORD, pure, Except.pure]
  have e0 : ((ch 40).code == cLP) = true := by decide
  have e00 : ((⟨cKW, pn⟩ : Tok).code == cRP) = false := by simp [cKW, cRP, Gen.TOKEN_KEYWORD]
  simp [e0, e00, hp, e1, popType_ok hrt, e2, e3, hbeg, bind, Except.bind, pure, Except.pure]

/-! ## The round trip of statements of every kind, clauses, rule lists, catch lists -/

def osize : Option PExpr → Nat
  | none => 0
  | some e => esize e + 1

mutual
  /-- fuel measure of a statement (every kind) -/
  def ssize : PStmt → Nat
    | .nop | .brk | .cont | .ret none | .raise _ => 1
    | .trace e => esize e + 1
    | .ret (some e) => esize e + 1
    | .doS e => esize e + 1
    | .letS _ e nx => esize e + 2 + ssizeNext nx
    | .letn _ _ nx => 2 + ssizeNext nx
    | .print args => esizeArgs args + 2
    | .put args => esizeArgs args + 2
    | .ifS rules els => ssizeRules rules + ssizeElse els + 2
    | .whileS c body => esize c + ssizeB body + 2
    | .forS _ b e step _ body => esize b + esize e + osize step + ssizeB body + 2
    | .forall _ e _ body => esize e + ssizeB body + 2
    | .begin body catches => ssizeB body + ssizeCatches catches + 3
    | .func _ params _ body catches => params.length + ssizeB body + ssizeCatches catches + 4
  def ssizeNext : Option PStmt → Nat
    | none => 0
    | some s => ssize s + 1
  def ssizeElse : Option (List PStmt) → Nat
    | none => 0
    | some b => ssizeB b + 1
  def ssizeRules : List (PExpr × List PStmt) → Nat
    | [] => 0
    | (c, b) :: rs => esize c + ssizeB b + 2 + ssizeRules rs
  def ssizeCatches : List (Bytes × List PStmt) → Nat
    | [] => 0
    | (_, b) :: cs => ssizeB b + 2 + ssizeCatches cs
  def ssizeB : List PStmt → Nat
    | [] => 0
    | s :: ss => ssize s + 1 + ssizeB ss
end

theorem nameOk_not_ender {n : Bytes} (h : nameOk n = true) : enderKws.contains n = false := by
  cases hc : enderKws.contains n with
  | false => rfl
  | true =>
    exfalso
    simp only [enderKws, List.contains_cons, List.contains_nil, Bool.or_false, Bool.or_eq_true, beq_iff_eq] at hc
    rcases hc with rfl | rfl | rfl | rfl | rfl <;> revert h <;> decide

theorem sub_of_all {enders : List Bytes} (h : enders.all (fun x => enderKws.contains x) = true) :
    ∀ x, enders.contains x = true → enderKws.contains x = true := by
  intro x hx
  have hx' : x ∈ enders := by simpa using hx
  exact List.all_eq_true.mp h x hx'

theorem ne_of_notEmpty {α} {l : List α} (h : (!l.isEmpty) = true) : l ≠ [] := by
  intro h0; subst h0; simp at h

/-- the first token of a statement is a word that does not end a clause -/
theorem stmt_head : ∀ (nested : Bool) (s : PStmt), wfS nested s = true →
    ∃ t ts, toksStmt s = t :: ts ∧ t.code = cKW ∧ enderKws.contains t.text = false
  | _, .nop, _ | _, .brk, _ | _, .cont, _ | _, .trace _, _ | _, .ret none, _ | _, .ret (some _), _ | _, .print _, _
  | _, .put _, _ | _, .doS _, _ | _, .raise _, _ | _, .whileS .., _ | _, .forS .., _ | _, .forall .., _ | _, .begin .., _
  | _, .func .., _ => ⟨_, _, by simp only [toksStmt]; rfl, rfl, by decide⟩
  | _, .letS n e nx, h => by
    simp only [wfS, Bool.and_eq_true] at h
    exact ⟨⟨cKW, n⟩, _, by simp only [toksStmt]; rfl, rfl, nameOk_not_ender h.1.1⟩
  | _, .letn n ty nx, h => by
    simp only [wfS, Bool.and_eq_true] at h
    exact ⟨⟨cKW, n⟩, _, by simp only [toksStmt]; rfl, rfl, nameOk_not_ender h.1.1⟩
  | _, .ifS [] els, h => by simp [wfS] at h
  | _, .ifS ((c, b) :: rs) none, _ => ⟨kw "if", _, by simp only [toksStmt, toksRules, if_true, List.cons_append]; rfl, rfl, by decide⟩
  | _, .ifS ((c, b) :: rs) (some eb), _ => ⟨kw "if", _, by simp only [toksStmt, toksRules, if_true, List.cons_append]; rfl, rfl, by decide⟩

def elseToks : Option (List PStmt) → List Tok
  | none => []
  | some b => kw "else" :: toksBlock b

def normElse : Option (List PStmt) → Option (List PStmt)
  | none => none
  | some b => some (normB b)

def excToks : List (Bytes × List PStmt) → List Tok
  | [] => []
  | _ :: _ => [kw "exception"]

/-- `BEGINStatement::parse` from what the body clause and the catch list do -/
theorem begin_of {body : List PStmt} {catches : List (Bytes × List PStmt)}
    (HB : ∀ (e : Tok) (rest : List Tok) (f : Nat), e.code = cKW → beginEnders.contains e.text = true → 16 * ssizeB body + 30 ≤ f →
      pBlock f beginEnders false (toksBlock body ++ e :: rest) = .ok (normB body, e :: rest))
    (HC : catches ≠ [] → ∀ (rest : List Tok) (f : Nat), 16 * ssizeCatches catches + 31 ≤ f →
      pCatches f (toksCatches catches ++ kw "end" :: rest) = .ok (normCatches catches, rest))
    (rest : List Tok) (f : Nat) (hf : 16 * (ssizeB body + ssizeCatches catches) + 32 ≤ f) :
    pBegin f (toksBlock body ++ (excToks catches ++ (toksCatches catches ++ kw "end" :: ch 59 :: rest))) =
      .ok ((normB body, normCatches catches), rest) := by
  obtain ⟨f', rfl⟩ : ∃ f', f = f' + 1 := ⟨f - 1, by omega⟩
  cases catches with
  | nil =>
    simp only [excToks, toksCatches, normCatches, List.nil_append]
    exact pBegin_noexc (HB (kw "end") (ch 59 :: rest) f' rfl (by decide) (by omega))
  | cons c cs =>
    have hb := HB (kw "exception") (toksCatches (c :: cs) ++ kw "end" :: ch 59 :: rest) f' rfl (by decide) (by omega)
    have hc := HC (by simp) (ch 59 :: rest) f' (by omega)
    simp only [excToks, List.cons_append, List.nil_append]
    exact pBegin_exc hb hc

theorem params_head (p : Bytes × Bytes) (ps : List (Bytes × Bytes)) :
    ∃ ts', joinToks (ch 44) ((p :: ps).map paramToks) = ⟨cKW, p.1⟩ :: ts' := by
  cases ps with
  | nil => simp only [List.map, joinToks, paramToks]; split <;> exact ⟨_, rfl⟩
  | cons q qs => simp only [List.map, joinToks, paramToks]; split <;> exact ⟨_, rfl⟩

mutual
  theorem stmt_rt : ∀ (s : PStmt) (nested : Bool), wfS nested s = true → ∀ (rest : List Tok) (f : Nat), 16 * ssize s + 30 ≤ f →
      pStmt f nested (toksStmt s ++ ch 59 :: rest) = .ok (some (normS s), rest)
    | .nop, nested, _, rest, f, hf => flat_rt .nop (by simp [wfFlat]) nested rest f (by simp only [ssize, fsize] at hf ⊢; omega)
    | .brk, nested, _, rest, f, hf => flat_rt .brk (by simp [wfFlat]) nested rest f (by simp only [ssize, fsize] at hf ⊢; omega)
    | .cont, nested, _, rest, f, hf => flat_rt .cont (by simp [wfFlat]) nested rest f (by simp only [ssize, fsize] at hf ⊢; omega)
    | .ret none, nested, _, rest, f, hf => flat_rt (.ret none) (by simp [wfFlat]) nested rest f (by simp only [ssize, fsize] at hf ⊢; omega)
    | .trace e, nested, h, rest, f, hf =>
      flat_rt (.trace e) (by simpa [wfS, wfFlat] using h) nested rest f (by simp only [ssize, fsize] at hf ⊢; omega)
    | .ret (some e), nested, h, rest, f, hf =>
      flat_rt (.ret (some e)) (by simpa [wfS, wfFlat] using h) nested rest f (by simp only [ssize, fsize] at hf ⊢; omega)
    | .doS e, nested, h, rest, f, hf =>
      flat_rt (.doS e) (by simpa [wfS, wfFlat] using h) nested rest f (by simp only [ssize, fsize] at hf ⊢; omega)
    | .raise n, nested, h, rest, f, hf =>
      flat_rt (.raise n) (by simpa [wfS, wfFlat] using h) nested rest f (by simp only [ssize, fsize] at hf ⊢; omega)
    | .print args, nested, h, rest, f, hf =>
      flat_rt (.print args) (by simpa [wfS, wfFlat] using h) nested rest f (by simp only [ssize, fsize] at hf ⊢; omega)
    | .put args, nested, h, rest, f, hf =>
      flat_rt (.put args) (by simpa [wfS, wfFlat] using h) nested rest f (by simp only [ssize, fsize] at hf ⊢; omega)
    | .letS n e none, nested, h, rest, f, hf =>
      flat_rt (.letS n e none) (by simpa [wfS, wfNext, wfFlat] using h) nested rest f (by simp only [ssize, ssizeNext, fsize] at hf ⊢; omega)
    | .letn n ty none, nested, h, rest, f, hf =>
      flat_rt (.letn n ty none) (by simpa [wfS, wfNext, wfFlat] using h) nested rest f (by simp only [ssize, ssizeNext, fsize] at hf ⊢; omega)
    | .letS n e (some s), nested, h, rest, f, hf => by
      obtain ⟨f1, rfl⟩ : ∃ f1, f = f1 + 1 := ⟨f - 1, by omega⟩
      obtain ⟨f2, rfl⟩ : ∃ f2, f1 = f2 + 1 := ⟨f1 - 1, by omega⟩
      have hw : (nameOk n = true ∧ wf e = true) ∧ wfS nested s = true := by simpa [wfS, wfNext] using h
      have ih := stmt_rt s nested hw.2 rest f2 (by simp only [ssize, ssizeNext] at hf; omega)
      have he := expr_rt e hw.1.2 (ch 44) (toksStmt s ++ ch 59 :: rest) comma_stops' (fun _ => by decide) f2
        (by simp only [ssize, ssizeNext] at hf; omega)
      have e1 : toksStmt (.letS n e (some s)) ++ ch 59 :: rest =
          ⟨cKW, n⟩ :: ch 61 :: (toksExpr e ++ ch 44 :: (toksStmt s ++ ch 59 :: rest)) := by simp [toksStmt, toksNext]
      rw [e1, pStmt_name_let hw.1.1, pLet_chain hw.1.1 he ih]; simp [normS, normNext]
    | .letn n ty (some s), nested, h, rest, f, hf => by
      obtain ⟨f1, rfl⟩ : ∃ f1, f = f1 + 1 := ⟨f - 1, by omega⟩
      obtain ⟨f2, rfl⟩ : ∃ f2, f1 = f2 + 1 := ⟨f1 - 1, by omega⟩
      have hw : (nameOk n = true ∧ typeKws.contains ty = true) ∧ wfS nested s = true := by simpa [wfS, wfNext] using h
      have ih := stmt_rt s nested hw.2 rest f2 (by simp only [ssize, ssizeNext] at hf; omega)
      simp only [toksStmt, toksNext, List.cons_append]
      rw [pStmt_name_letn hw.1.1, pLetn_chain hw.1.1 hw.1.2 ih]; simp [normS, normNext]
    | .whileS c body, nested, h, rest, f, hf => by
      obtain ⟨f', rfl⟩ : ∃ f', f = f' + 1 := ⟨f - 1, by omega⟩
      simp only [wfS, Bool.and_eq_true] at h
      obtain ⟨⟨hc, hne⟩, hb⟩ := h
      have he := expr_rt c hc (kw "loop") (toksBlock body ++ kw "end" :: kw "loop" :: ch 59 :: rest) (by decide) (fun _ => by decide) f'
        (by simp only [ssize] at hf; omega)
      have hbl := block_rt body hb [bytesOf "end"] true (kw "end") (kw "loop" :: ch 59 :: rest) f' rfl (by decide)
        (sub_of_all (by decide)) (fun _ => ne_of_notEmpty hne) (by simp only [ssize] at hf; omega)
      have e1 : toksStmt (.whileS c body) ++ ch 59 :: rest =
          kw "while" :: (toksExpr c ++ kw "loop" :: (toksBlock body ++ kw "end" :: kw "loop" :: ch 59 :: rest)) := by simp [toksStmt]
      rw [e1, pStmt_while he hbl]; simp [normS]
    | .forall v e dir body, nested, h, rest, f, hf => by
      obtain ⟨f', rfl⟩ : ∃ f', f = f' + 1 := ⟨f - 1, by omega⟩
      simp only [wfS, Bool.and_eq_true] at h
      obtain ⟨⟨⟨hv, hc⟩, hne⟩, hb⟩ := h
      obtain ⟨t6, ts7, h6, _, _, hst, hlp⟩ := dirToks_head dir (toksBlock body ++ kw "end" :: kw "loop" :: ch 59 :: rest)
      have he := expr_rt e hc t6 ts7 hst (fun _ => hlp) f' (by simp only [ssize] at hf; omega)
      rw [← h6] at he
      have hbl := block_rt body hb [bytesOf "end"] true (kw "end") (kw "loop" :: ch 59 :: rest) f' rfl (by decide)
        (sub_of_all (by decide)) (fun _ => ne_of_notEmpty hne) (by simp only [ssize] at hf; omega)
      have e1 : toksStmt (.forall v e dir body) ++ ch 59 :: rest =
          kw "forall" :: ⟨cKW, v⟩ :: kw "in" :: (toksExpr e ++ (dirToks dir ++ kw "loop" :: (toksBlock body ++ kw "end" :: kw "loop" :: ch 59 :: rest))) := by
        simp [toksStmt]
      rw [e1, pStmt_forall hv he hbl]; simp [normS]
    | .forS v b e none dir body, nested, h, rest, f, hf => by
      obtain ⟨f', rfl⟩ : ∃ f', f = f' + 1 := ⟨f - 1, by omega⟩
      simp only [wfS, wfOpt, Bool.and_eq_true, Bool.and_true] at h
      obtain ⟨⟨⟨⟨hv, hb0⟩, hc⟩, hne⟩, hb⟩ := h
      obtain ⟨t6, ts7, h6, _, _, hst, hlp⟩ := dirToks_head dir (toksBlock body ++ kw "end" :: kw "loop" :: ch 59 :: rest)
      have he := expr_rt e hc t6 ts7 hst (fun _ => hlp) f' (by simp only [ssize] at hf; omega)
      rw [← h6] at he
      have hbb := expr_rt b hb0 (kw "to") (toksExpr e ++ (dirToks dir ++ kw "loop" :: (toksBlock body ++ kw "end" :: kw "loop" :: ch 59 :: rest)))
        (by decide) (fun _ => by decide) f' (by simp only [ssize] at hf; omega)
      have hbl := block_rt body hb [bytesOf "end"] true (kw "end") (kw "loop" :: ch 59 :: rest) f' rfl (by decide)
        (sub_of_all (by decide)) (fun _ => ne_of_notEmpty hne) (by simp only [ssize] at hf; omega)
      have e1 : toksStmt (.forS v b e none dir body) ++ ch 59 :: rest =
          kw "for" :: ⟨cKW, v⟩ :: kw "in" :: (toksExpr b ++ kw "to" :: (toksExpr e ++ (dirToks dir ++ kw "loop" ::
            (toksBlock body ++ kw "end" :: kw "loop" :: ch 59 :: rest)))) := by
        simp [toksStmt]
      rw [e1, pStmt_for_nostep hv hbb he hbl]; simp [normS]
    | .forS v b e (some st) dir body, nested, h, rest, f, hf => by
      obtain ⟨f', rfl⟩ : ∃ f', f = f' + 1 := ⟨f - 1, by omega⟩
      simp only [wfS, wfOpt, Bool.and_eq_true] at h
      obtain ⟨⟨⟨⟨⟨hv, hb0⟩, hc⟩, hs⟩, hne⟩, hb⟩ := h
      obtain ⟨t6, ts7, h6, _, _, hst, hlp⟩ := dirToks_head dir (toksBlock body ++ kw "end" :: kw "loop" :: ch 59 :: rest)
      have hs' := expr_rt st hs t6 ts7 hst (fun _ => hlp) f' (by simp only [ssize, osize] at hf; omega)
      rw [← h6] at hs'
      have he := expr_rt e hc (kw "step") (toksExpr st ++ (dirToks dir ++ kw "loop" :: (toksBlock body ++ kw "end" :: kw "loop" :: ch 59 :: rest)))
        (by decide) (fun _ => by decide) f' (by simp only [ssize] at hf; omega)
      have hbb := expr_rt b hb0 (kw "to") (toksExpr e ++ kw "step" :: (toksExpr st ++ (dirToks dir ++ kw "loop" ::
        (toksBlock body ++ kw "end" :: kw "loop" :: ch 59 :: rest)))) (by decide) (fun _ => by decide) f' (by simp only [ssize] at hf; omega)
      have hbl := block_rt body hb [bytesOf "end"] true (kw "end") (kw "loop" :: ch 59 :: rest) f' rfl (by decide)
        (sub_of_all (by decide)) (fun _ => ne_of_notEmpty hne) (by simp only [ssize] at hf; omega)
      have e1 : toksStmt (.forS v b e (some st) dir body) ++ ch 59 :: rest =
          kw "for" :: ⟨cKW, v⟩ :: kw "in" :: (toksExpr b ++ kw "to" :: (toksExpr e ++ kw "step" :: (toksExpr st ++ (dirToks dir ++ kw "loop" ::
            (toksBlock body ++ kw "end" :: kw "loop" :: ch 59 :: rest))))) := by
        simp [toksStmt]
      rw [e1, pStmt_for_step hv hbb he hs' hbl]; simp [normS]
    | .ifS rules none, nested, h, rest, f, hf => by
      obtain ⟨f', rfl⟩ : ∃ f', f = f' + 1 := ⟨f - 1, by omega⟩
      simp only [wfS, Bool.and_eq_true] at h
      obtain ⟨⟨hne, hr⟩, _⟩ := h
      have hr' := rules_rt rules hr (ne_of_notEmpty hne) none rest 0 (fun eb heq => by simp at heq) f'
        (by simp only [ssize, ssizeElse] at hf; omega)
      match rules, hr' with
      | [], _ => exact absurd rfl (ne_of_notEmpty hne)
      | (c, b) :: rs, hr' =>
        have e1 : toksStmt (.ifS ((c, b) :: rs) none) ++ ch 59 :: rest =
            kw "if" :: ((toksRules false ((c, b) :: rs)).tail ++ (elseToks none ++ kw "end" :: kw "if" :: ch 59 :: rest)) := by
          simp [toksStmt, toksRules, elseToks]
        rw [e1, pStmt_if hr']
        simp [normS, normElse]
    | .ifS rules (some eb), nested, h, rest, f, hf => by
      obtain ⟨f', rfl⟩ : ∃ f', f = f' + 1 := ⟨f - 1, by omega⟩
      simp only [wfS, wfElse, Bool.and_eq_true] at h
      obtain ⟨⟨hne, hr⟩, hel⟩ := h
      have hels : ∀ eb', some eb = some eb' → ∀ g, 16 * ssizeB eb + 30 ≤ g →
          pBlock g ifEnders true (toksBlock eb' ++ kw "end" :: kw "if" :: ch 59 :: rest) =
            .ok (normB eb', kw "end" :: kw "if" :: ch 59 :: rest) := by
        intro eb' heq g hg
        have : eb = eb' := by simpa using heq
        subst this
        exact block_rt eb hel.2 ifEnders true (kw "end") (kw "if" :: ch 59 :: rest) g rfl (by decide) (sub_of_all (by decide))
          (fun _ => ne_of_notEmpty hel.1) hg
      have hr' := rules_rt rules hr (ne_of_notEmpty hne) (some eb) rest (16 * ssizeB eb + 30) hels f'
        (by simp only [ssize, ssizeElse] at hf; omega)
      match rules, hr' with
      | [], _ => exact absurd rfl (ne_of_notEmpty hne)
      | (c, b) :: rs, hr' =>
        have e1 : toksStmt (.ifS ((c, b) :: rs) (some eb)) ++ ch 59 :: rest =
            kw "if" :: ((toksRules false ((c, b) :: rs)).tail ++ (elseToks (some eb) ++ kw "end" :: kw "if" :: ch 59 :: rest)) := by
          simp [toksStmt, toksRules, elseToks]
        rw [e1, pStmt_if hr']
        simp [normS, normElse]
    | .begin body catches, nested, h, rest, f, hf => by
      obtain ⟨f', rfl⟩ : ∃ f', f = f' + 1 := ⟨f - 1, by omega⟩
      simp only [wfS, Bool.and_eq_true] at h
      have hbeg := begin_of (body := body) (catches := catches)
        (fun e r g hc he hg => block_rt body h.1 beginEnders false e r g hc he (sub_of_all (by decide)) (fun h0 => by simp at h0) hg)
        (fun hne r g hg => catches_rt catches h.2 hne r g hg) rest f' (by simp only [ssize] at hf; omega)
      have e1 : toksStmt (.begin body catches) ++ ch 59 :: rest =
          kw "begin" :: (toksBlock body ++ (excToks catches ++ (toksCatches catches ++ kw "end" :: ch 59 :: rest))) := by
        cases catches <;> simp [toksStmt, excToks]
      rw [e1, pStmt_begin hbeg]; simp [normS]
    | .func n params rt body catches, nested, h, rest, f, hf => by
      obtain ⟨f', rfl⟩ : ∃ f', f = f' + 1 := ⟨f - 1, by omega⟩
      simp only [wfS, Bool.and_eq_true] at h
      obtain ⟨⟨⟨⟨⟨hnest, hn⟩, hps⟩, hrt⟩, hb⟩, hcs⟩ := h
      have hnf : nested = false := by simpa using hnest
      subst hnf
      have hbeg := begin_of (body := body) (catches := catches)
        (fun e r g hc he hg => block_rt body hb beginEnders false e r g hc he (sub_of_all (by decide)) (fun h0 => by simp at h0) hg)
        (fun hne r g hg => catches_rt catches hcs hne r g hg) rest f' (by simp only [ssize] at hf; omega)
      cases params with
      | nil =>
        have e1 : toksStmt (.func n [] rt body catches) ++ ch 59 :: rest =
            kw "function" :: ⟨cKW, n⟩ :: kw "return" :: ⟨cKW, rt⟩ :: kw "is" :: kw "begin" ::
              (toksBlock body ++ (excToks catches ++ (toksCatches catches ++ kw "end" :: ch 59 :: rest))) := by
          cases catches <;> simp [toksStmt, excToks]
        rw [e1, pStmt_function0 hn hrt hbeg]; simp [normS]
      | cons p ps =>
        obtain ⟨ts', hts'⟩ := params_head p ps
        have hp := pParams_rt (p :: ps) (by simp) hps
          (kw "return" :: ⟨cKW, rt⟩ :: kw "is" :: kw "begin" :: (toksBlock body ++ (excToks catches ++ (toksCatches catches ++ kw "end" :: ch 59 :: rest))))
          f' (by simp only [ssize] at hf; omega)
        have e1 : toksStmt (.func n (p :: ps) rt body catches) ++ ch 59 :: rest =
            kw "function" :: ⟨cKW, n⟩ :: ch 40 :: (joinToks (ch 44) ((p :: ps).map paramToks) ++ ch 41 :: kw "return" :: ⟨cKW, rt⟩ :: kw "is" :: kw "begin" ::
              (toksBlock body ++ (excToks catches ++ (toksCatches catches ++ kw "end" :: ch 59 :: rest)))) := by
          cases catches <;> simp [toksStmt, excToks]
        rw [e1]
        rw [hts'] at hp ⊢
        simp only [List.cons_append] at hp ⊢
        rw [pStmt_functionN hn hrt hp hbeg]; simp [normS]

  theorem rules_rt : ∀ (rules : List (PExpr × List PStmt)), wfRules rules = true → rules ≠ [] →
      ∀ (els : Option (List PStmt)) (rest : List Tok) (B : Nat),
      (∀ eb, els = some eb → ∀ g, B ≤ g →
        pBlock g ifEnders true (toksBlock eb ++ kw "end" :: kw "if" :: ch 59 :: rest) = .ok (normB eb, kw "end" :: kw "if" :: ch 59 :: rest)) →
      ∀ (f : Nat), 16 * ssizeRules rules + B + 1 ≤ f →
      pIf f ((toksRules false rules).tail ++ (elseToks els ++ kw "end" :: kw "if" :: ch 59 :: rest)) =
        .ok (.ifS (normRules rules) (normElse els), rest)
    | [], _, h, _, _, _, _, _, _ => absurd rfl h
    | [(c, b)], hw, _, els, rest, B, hels, f, hf => by
      obtain ⟨f', rfl⟩ : ∃ f', f = f' + 1 := ⟨f - 1, by omega⟩
      simp only [wfRules, Bool.and_eq_true, Bool.and_true] at hw
      obtain ⟨⟨hc, hne⟩, hb⟩ := hw
      have e1 : (toksRules false [(c, b)]).tail ++ (elseToks els ++ kw "end" :: kw "if" :: ch 59 :: rest) =
          toksExpr c ++ kw "then" :: (toksBlock b ++ (elseToks els ++ kw "end" :: kw "if" :: ch 59 :: rest)) := by
        simp [toksRules]
      rw [e1]
      have he := expr_rt c hc (kw "then") (toksBlock b ++ (elseToks els ++ kw "end" :: kw "if" :: ch 59 :: rest)) (by decide)
        (fun _ => by decide) f' (by simp only [ssizeRules] at hf; omega)
      cases els with
      | none =>
        have hbl := block_rt b hb ifEnders true (kw "end") (kw "if" :: ch 59 :: rest) f' rfl (by decide) (sub_of_all (by decide))
          (fun _ => ne_of_notEmpty hne) (by simp only [ssizeRules] at hf; omega)
        simp only [elseToks, List.nil_append] at he ⊢
        rw [pIf_noelse he hbl]; simp [normRules, normElse]
      | some eb =>
        have hbl := block_rt b hb ifEnders true (kw "else") (toksBlock eb ++ kw "end" :: kw "if" :: ch 59 :: rest) f' rfl (by decide)
          (sub_of_all (by decide)) (fun _ => ne_of_notEmpty hne) (by simp only [ssizeRules] at hf; omega)
        have hb2 := hels eb rfl f' (by omega)
        simp only [elseToks, List.cons_append] at he ⊢
        rw [pIf_else he hbl hb2]; simp [normRules, normElse]
    | (c, b) :: (c2, b2) :: rs, hw, _, els, rest, B, hels, f, hf => by
      obtain ⟨f', rfl⟩ : ∃ f', f = f' + 1 := ⟨f - 1, by omega⟩
      have hw' : ((wf c = true ∧ (!b.isEmpty) = true) ∧ wfB b = true) ∧ wfRules ((c2, b2) :: rs) = true := by
        simp only [wfRules, Bool.and_eq_true] at hw ⊢; exact hw
      obtain ⟨⟨⟨hc, hne⟩, hb⟩, hrs⟩ := hw'
      have ih := rules_rt ((c2, b2) :: rs) hrs (by simp) els rest B hels f' (by simp only [ssizeRules] at hf ⊢; omega)
      have e2 : toksRules false ((c2, b2) :: rs) = kw "elsif" :: (toksRules false ((c2, b2) :: rs)).tail := by simp [toksRules]
      have e1 : (toksRules false ((c, b) :: (c2, b2) :: rs)).tail ++ (elseToks els ++ kw "end" :: kw "if" :: ch 59 :: rest) =
          toksExpr c ++ kw "then" :: (toksBlock b ++ kw "elsif" :: ((toksRules false ((c2, b2) :: rs)).tail ++
            (elseToks els ++ kw "end" :: kw "if" :: ch 59 :: rest))) := by
        simp [toksRules]
      rw [e1]
      have he := expr_rt c hc (kw "then") (toksBlock b ++ kw "elsif" :: ((toksRules false ((c2, b2) :: rs)).tail ++
        (elseToks els ++ kw "end" :: kw "if" :: ch 59 :: rest))) (by decide) (fun _ => by decide) f' (by simp only [ssizeRules] at hf; omega)
      have hbl := block_rt b hb ifEnders true (kw "elsif") ((toksRules false ((c2, b2) :: rs)).tail ++
        (elseToks els ++ kw "end" :: kw "if" :: ch 59 :: rest)) f' rfl (by decide) (sub_of_all (by decide))
        (fun _ => ne_of_notEmpty hne) (by simp only [ssizeRules] at hf; omega)
      rw [pIf_elsif he hbl ih]; simp [normRules]

  theorem catches_rt : ∀ (cs : List (Bytes × List PStmt)), wfCatches cs = true → cs ≠ [] → ∀ (rest : List Tok) (f : Nat),
      16 * ssizeCatches cs + 31 ≤ f →
      pCatches f (toksCatches cs ++ kw "end" :: rest) = .ok (normCatches cs, rest)
    | [], _, h, _, _, _ => absurd rfl h
    | [(n, b)], hw, _, rest, f, hf => by
      obtain ⟨f', rfl⟩ : ∃ f', f = f' + 1 := ⟨f - 1, by omega⟩
      simp only [wfCatches, Bool.and_eq_true, Bool.and_true] at hw
      obtain ⟨⟨hn, hne⟩, hb⟩ := hw
      have hbl := block_rt b hb whenEnders true (kw "end") rest f' rfl (by decide) (sub_of_all (by decide))
        (fun _ => ne_of_notEmpty hne) (by simp only [ssizeCatches] at hf; omega)
      have e1 : toksCatches [(n, b)] ++ kw "end" :: rest = kw "when" :: ⟨cKW, n⟩ :: kw "then" :: (toksBlock b ++ kw "end" :: rest) := by
        simp [toksCatches]
      rw [e1, pCatches_last hn hbl]; simp [normCatches]
    | (n, b) :: (n2, b2) :: cs, hw, _, rest, f, hf => by
      obtain ⟨f', rfl⟩ : ∃ f', f = f' + 1 := ⟨f - 1, by omega⟩
      have hw' : ((nameOk n = true ∧ (!b.isEmpty) = true) ∧ wfB b = true) ∧ wfCatches ((n2, b2) :: cs) = true := by
        simp only [wfCatches, Bool.and_eq_true] at hw ⊢; exact hw
      obtain ⟨⟨⟨hn, hne⟩, hb⟩, hcs⟩ := hw'
      have ih := catches_rt ((n2, b2) :: cs) hcs (by simp) rest f' (by simp only [ssizeCatches] at hf ⊢; omega)
      have e2 : toksCatches ((n2, b2) :: cs) ++ kw "end" :: rest =
          kw "when" :: (⟨cKW, n2⟩ :: kw "then" :: (toksBlock b2 ++ toksCatches cs) ++ kw "end" :: rest) := by simp [toksCatches]
      rw [e2] at ih
      have hbl := block_rt b hb whenEnders true (kw "when") (⟨cKW, n2⟩ :: kw "then" :: (toksBlock b2 ++ toksCatches cs) ++ kw "end" :: rest)
        f' rfl (by decide) (sub_of_all (by decide)) (fun _ => ne_of_notEmpty hne) (by simp only [ssizeCatches] at hf; omega)
      have e1 : toksCatches ((n, b) :: (n2, b2) :: cs) ++ kw "end" :: rest =
          kw "when" :: ⟨cKW, n⟩ :: kw "then" :: (toksBlock b ++ kw "when" :: (⟨cKW, n2⟩ :: kw "then" :: (toksBlock b2 ++ toksCatches cs) ++ kw "end" :: rest)) := by
        simp [toksCatches]
      rw [e1, pCatches_more hn hbl ih]; simp [normCatches]

  theorem block_rt : ∀ (b : List PStmt), wfB b = true → ∀ (enders : List Bytes) (ne : Bool) (e : Tok) (rest : List Tok) (f : Nat),
      e.code = cKW → enders.contains e.text = true → (∀ x, enders.contains x = true → enderKws.contains x = true) →
      (ne = true → b ≠ []) → 16 * ssizeB b + 30 ≤ f →
      pBlock f enders ne (toksBlock b ++ e :: rest) = .ok (normB b, e :: rest)
    | [], _, enders, ne, e, rest, f, hc, he, _, hne, hf => by
      obtain ⟨f', rfl⟩ : ∃ f', f = f' + 1 := ⟨f - 1, by omega⟩
      have : ne = false := by cases ne <;> simp_all
      subst this
      simpa [toksBlock, normB] using pBlock_end (f := f') (rest := rest) hc he
    | s :: ss, hw, enders, ne, e, rest, f, hc, he, hsub, _, hf => by
      obtain ⟨f', rfl⟩ : ∃ f', f = f' + 1 := ⟨f - 1, by omega⟩
      have hw' : wfS true s = true ∧ wfB ss = true := by simpa [wfB] using hw
      obtain ⟨t, ts, h1, h2, h3⟩ := stmt_head true s hw'.1
      have hnot : enders.contains t.text = false := by
        cases hx : enders.contains t.text with
        | false => rfl
        | true => rw [hsub _ hx] at h3; exact absurd h3 (by simp)
      have hs := stmt_rt s true hw'.1 (toksBlock ss ++ e :: rest) f' (by simp only [ssizeB] at hf; omega)
      have ih := block_rt ss hw'.2 enders false e rest f' hc he hsub (fun h0 => by simp at h0) (by simp only [ssizeB] at hf; omega)
      have e1 : toksBlock (s :: ss) ++ e :: rest = toksStmt s ++ ch 59 :: (toksBlock ss ++ e :: rest) := by simp [toksBlock]
      rw [e1]
      rw [h1] at hs ⊢
      simp only [List.cons_append] at hs ⊢
      rw [pBlock_cons h2 hnot hs ih]; simp [normB]
end

/-- **Round trip of programs**: `Parser::parse` on the tokens of a saved program, every statement kind. -/
theorem program_rt : ∀ (p : List PStmt), wfP p = true → ∀ (f : Nat), 16 * ssizeB p + 31 ≤ f →
    pProgram f (toksBlock p) = .ok (normB p)
  | [], _, f, hf => by
    obtain ⟨f', rfl⟩ : ∃ f', f = f' + 1 := ⟨f - 1, by omega⟩
    simp [toksBlock, normB, pProgram, pure, Except.pure]
  | s :: ss, h, f, hf => by
    obtain ⟨f', rfl⟩ : ∃ f', f = f' + 1 := ⟨f - 1, by omega⟩
    have hw : wfS false s = true ∧ wfP ss = true := by simpa [wfP] using h
    obtain ⟨t, ts, h1, h2, _⟩ := stmt_head false s hw.1
    have hs := stmt_rt s false hw.1 (toksBlock ss) f' (by simp only [ssizeB] at hf; omega)
    have ih := program_rt ss hw.2 f' (by simp only [ssizeB] at hf; omega)
    have h2' : ¬ t.code = 59 := by rw [h2]; decide
    simp only [toksBlock]
    rw [h1] at hs ⊢
    simp only [List.cons_append] at hs ⊢
    rw [pProgram]
    simp [h2', cSEMI, hs, ih, normB, bind, Except.bind, pure, Except.pure]

end BlocV.C12L
