/-
  Helper lemmas for Proofs/C11: `modAt`, `findName`, `findFn`, the restore loop, the catch blocks on the flag column,
  the invariants `Inv` (symbols, flags, exec depth) and `JInv` (function table and journal) of the event machine and their preservation.
-/
import BlocV.Model.ParseCtx

namespace BlocV.ParseCtx

variable {α : Type}

theorem getElem?_modAt (f : α → α) (i j : Nat) (l : List α) :
    (modAt f i l)[j]? = if i = j then l[j]?.map f else l[j]? := by
  induction l generalizing i j with
  | nil => cases i <;> simp [modAt]
  | cons x xs ih =>
    cases i with
    | zero => cases j <;> simp [modAt]
    | succ i =>
      cases j with
      | zero => simp [modAt]
      | succ j => simp [modAt, ih]

@[simp] theorem length_modAt (f : α → α) (i : Nat) (l : List α) : (modAt f i l).length = l.length := by
  induction l generalizing i with
  | nil => cases i <;> simp [modAt]
  | cons x xs ih => cases i <;> simp [modAt, ih]

theorem take_modAt (f : α → α) (i n : Nat) (l : List α) :
    (modAt f i l).take n = modAt f i (l.take n) := by
  induction l generalizing i n with
  | nil => cases i <;> simp [modAt]
  | cons x xs ih =>
    cases n with
    | zero => cases i <;> simp [modAt]
    | succ n => cases i <;> simp [modAt, ih]

theorem modAt_id_of (f : α → α) (i : Nat) (l : List α) (h : ∀ x, l[i]? = some x → f x = x) :
    modAt f i l = l := by
  apply List.ext_getElem?
  intro j
  rw [getElem?_modAt]
  split
  · next hij =>
    subst hij
    cases hx : l[i]? with
    | none => simp
    | some x => simp [h x hx]
  · rfl

theorem modAt_of_length_le (f : α → α) (i : Nat) (l : List α) (h : l.length ≤ i) : modAt f i l = l := by
  apply modAt_id_of
  intro x hx
  have : l[i]? = none := List.getElem?_eq_none h
  rw [this] at hx
  cases hx

theorem getElem?_take_some {l : List α} {n i : Nat} {x : α} (h : (l.take n)[i]? = some x) : l[i]? = some x := by
  rw [List.getElem?_take] at h
  split at h
  · exact h
  · cases h

theorem take_append_singleton_of_le (l : List α) (x : α) (n : Nat) (h : n ≤ l.length) :
    (l ++ [x]).take n = l.take n := by
  rw [List.take_append_of_le_length h]

/-! ### findName / findFn -/

theorem findName_lt {n : String} {l : List String} {i : Nat} (h : findName n l = some i) : i < l.length := by
  induction l generalizing i with
  | nil => cases h
  | cons x xs ih =>
    unfold findName at h
    split at h
    · cases h; simp
    · cases hr : findName n xs with
      | none => simp [hr] at h
      | some k =>
        simp [hr] at h
        subst h
        have := ih hr
        simp; omega

theorem findFn_lt {n : String} {a : Nat} {l : List Fn} {i : Nat} (h : findFn n a l = some i) : i < l.length := by
  induction l generalizing i with
  | nil => cases h
  | cons x xs ih =>
    unfold findFn at h
    split at h
    · cases h; simp
    · cases hr : findFn n a xs with
      | none => simp [hr] at h
      | some k =>
        simp [hr] at h
        subst h
        have := ih hr
        simp; omega

theorem findFn_is {n : String} {a : Nat} {l : List Fn} {i : Nat} (h : findFn n a l = some i) :
    ∃ f, l[i]? = some f ∧ f.is n a = true := by
  induction l generalizing i with
  | nil => cases h
  | cons x xs ih =>
    unfold findFn at h
    split at h
    · next hx => cases h; exact ⟨x, by simp, hx⟩
    · cases hr : findFn n a xs with
      | none => simp [hr] at h
      | some k =>
        simp [hr] at h
        subst h
        obtain ⟨f, hf, hfi⟩ := ih hr
        exact ⟨f, by simpa using hf, hfi⟩

theorem findFn_none {n : String} {a : Nat} {l : List Fn} (h : findFn n a l = none) :
    ∀ f ∈ l, f.is n a = false := by
  induction l with
  | nil => intro f hf; cases hf
  | cons x xs ih =>
    unfold findFn at h
    split at h
    · cases h
    · next hx =>
      cases hr : findFn n a xs with
      | some k => simp [hr] at h
      | none =>
        intro f hf
        cases hf with
        | head => simpa using hx
        | tail _ hf' => exact ih hr f hf'

theorem findFn_some_of_mem {n : String} {a : Nat} {l : List Fn} {f : Fn} (hf : f ∈ l) (h : f.is n a = true) :
    (findFn n a l).isSome = true := by
  cases hr : findFn n a l with
  | some k => rfl
  | none =>
    have := findFn_none hr f hf
    rw [h] at this
    cases this

/-! ### the restore loop commutes with `take` -/

theorem take_restoreAll (H : Decl → Nat) (bs : List Backup) (tds : List TD) (n : Nat) :
    (restoreAll H bs tds).take n = restoreAll H bs (tds.take n) := by
  induction bs generalizing tds with
  | nil => rfl
  | cons b bs ih =>
    simp only [restoreAll, restoreOne]
    rw [ih, take_modAt]

theorem restoreTD_coherent (H : Decl → Nat) (i : Nat) (td : TD) (h : td.coherent H = true) :
    restoreTD H ⟨i, td⟩ = td := by
  obtain ⟨t, d⟩ := td
  unfold TD.coherent at h
  unfold restoreTD
  simp only [Bool.or_eq_true, beq_iff_eq] at h
  simp only
  cases hd : d.isEmpty with
  | true =>
    have : d = [] := by simpa using hd
    subst this
    simp
  | false =>
    simp only [hd, Bool.false_eq_true, false_or] at h
    have hm : t.major = ROWTYPE := by rw [h]; unfold mkTupleTy; split <;> rfl
    simp only [hm, Bool.false_eq_true, not_false_eq_true, and_self, if_true]
    rw [← h]

/-- every symbol the code can build is coherent -/
theorem RegTy.td_coherent (H : Decl → Nat) (r : RegTy) : (r.td H).coherent H = true := by
  cases r with
  | plain t => simp [RegTy.td, TD.coherent]
  | tuple d lv =>
    have hl : (mkTupleTy H d lv).level = lv := by unfold mkTupleTy; split <;> rfl
    simp [RegTy.td, TD.coherent, hl]

/-! ## flags: unwinding on the flag column -/

def unwindFls : List Frame → List Fl → List Fl
  | [], fls => fls
  | fr :: rest, fls => unwindFls rest (fr.catchFls fls)

theorem take_catchFls (fr : Frame) (fls : List Fl) (n : Nat) : (fr.catchFls fls).take n = fr.catchFls (fls.take n) := by
  cases fr with
  | blk => rfl
  | forC i sb => simp [Frame.catchFls, take_modAt]
  | forallC v sb lb tgt =>
    cases tgt with
    | none => simp [Frame.catchFls, take_modAt]
    | some p => obtain ⟨t, lt⟩ := p; simp [Frame.catchFls, take_modAt]

theorem take_unwindFls (stk : List Frame) (fls : List Fl) (n : Nat) :
    (unwindFls stk fls).take n = unwindFls stk (fls.take n) := by
  induction stk generalizing fls with
  | nil => rfl
  | cons fr rest ih => simp only [unwindFls]; rw [ih, take_catchFls]

theorem normalFls_eq_catchFls (fr : Frame) (fls : List Fl) : fr.normalFls fls = fr.catchFls fls := by
  cases fr <;> rfl

theorem unwindFrames_fls (stk : List Frame) (c : Ctx) : (unwindFrames stk c).fls = unwindFls stk c.fls := by
  induction stk generalizing c with
  | nil => rfl
  | cons fr rest ih => simp only [unwindFrames, unwindFls]; rw [ih]; rfl

theorem unwindFrames_exec (stk : List Frame) (c : Ctx) : (unwindFrames stk c).exec = c.exec - stk.length := by
  induction stk generalizing c with
  | nil => rfl
  | cons fr rest ih => simp only [unwindFrames]; rw [ih]; simp only [Frame.exitCatch, List.length_cons]; omega

theorem unwindFrames_other (stk : List Frame) (c : Ctx) :
    (unwindFrames stk c).names = c.names ∧ (unwindFrames stk c).tds = c.tds ∧
    (unwindFrames stk c).backed = c.backed ∧ (unwindFrames stk c).parsing = c.parsing ∧
    (unwindFrames stk c).fns = c.fns ∧ (unwindFrames stk c).fbacked = c.fbacked := by
  induction stk generalizing c with
  | nil => simp [unwindFrames]
  | cons fr rest ih => simp only [unwindFrames]; have := ih (fr.exitCatch c); simpa [Frame.exitCatch] using this

/-! ## entering a clause is undone exactly -/

/-- FOR: restoring the saved getter value into `_safety` is exact because the control variable is not locked -/
theorem enterFor_undo {c c' : Ctx} {i : Nat} {fr : Frame} (h : enterFor c i = some (c', fr)) :
    fr.catchFls c'.fls = c.fls ∧ c'.exec = c.exec + 1 ∧ c'.names = c.names ∧ c'.tds = c.tds ∧
    c'.backed = c.backed ∧ c'.parsing = c.parsing ∧ c'.fns = c.fns ∧ c'.fbacked = c.fbacked := by
  unfold enterFor at h
  cases hf : c.fls[i]? with
  | none => simp [hf] at h
  | some fl =>
    simp only [hf] at h
    split at h
    · cases h
    · next hl =>
      simp only [Option.some.injEq, Prod.mk.injEq] at h
      obtain ⟨hc, hfr⟩ := h
      subst hc; subst hfr
      refine ⟨?_, rfl, rfl, rfl, rfl, rfl, rfl, rfl⟩
      simp only [Frame.catchFls]
      apply List.ext_getElem?
      intro j
      rw [getElem?_modAt, getElem?_modAt]
      by_cases hij : i = j
      · subst hij
        obtain ⟨s, l⟩ := fl
        simp only [Fl.locked, Bool.not_eq_true] at hl
        subst hl
        simp [hf, setSafe, Fl.safety]
      · simp [hij]

/-- FORALL: same, with the lock of the target table and the inherited lock of the iterator -/
theorem enterForall_undo {c c' : Ctx} {v : Nat} {tgt : Option Nat} {fr : Frame}
    (h : enterForall c v tgt = some (c', fr)) :
    fr.catchFls c'.fls = c.fls ∧ c'.exec = c.exec + 1 ∧ c'.names = c.names ∧ c'.tds = c.tds ∧
    c'.backed = c.backed ∧ c'.parsing = c.parsing ∧ c'.fns = c.fns ∧ c'.fbacked = c.fbacked := by
  unfold enterForall at h
  cases hf : c.fls[v]? with
  | none => simp [hf] at h
  | some fv =>
    obtain ⟨sv, lv⟩ := fv
    simp only [hf] at h
    split at h
    · cases h
    · next hl =>
      simp only [Fl.locked, Bool.not_eq_true] at hl
      subst hl
      cases tgt with
      | none =>
        simp only [Option.some.injEq, Prod.mk.injEq] at h
        obtain ⟨hc, hfr⟩ := h
        subst hc; subst hfr
        refine ⟨?_, rfl, rfl, rfl, rfl, rfl, rfl, rfl⟩
        simp only [Frame.catchFls]
        apply List.ext_getElem?
        intro j
        simp only [getElem?_modAt]
        by_cases hij : v = j
        · subst hij; simp [hf, setSafe, setLock, Fl.safety, Fl.locked]
        · simp [hij]
      | some t =>
        simp only at h
        cases hft : (modAt (setSafe true) v c.fls)[t]? with
        | none => simp [hft] at h
        | some ft =>
          simp only [hft, Option.some.injEq, Prod.mk.injEq] at h
          obtain ⟨hc, hfr⟩ := h
          subst hc; subst hfr
          refine ⟨?_, rfl, rfl, rfl, rfl, rfl, rfl, rfl⟩
          simp only [Frame.catchFls]
          rw [getElem?_modAt] at hft
          apply List.ext_getElem?
          intro j
          simp only [getElem?_modAt]
          obtain ⟨st, lt⟩ := ft
          by_cases hvt : v = t
          · subst hvt
            simp only [if_true, hf, Option.map_some, Option.some.injEq] at hft
            simp only [setSafe, Prod.mk.injEq] at hft
            obtain ⟨_, hlt⟩ := hft
            subst hlt
            by_cases hij : v = j
            · subst hij; simp [hf, setSafe, setLock, Fl.safety, Fl.locked]
            · simp [hij]
          · simp only [hvt, if_false] at hft
            by_cases hvj : v = j
            · subst hvj
              have htj : ¬ t = v := fun h => hvt h.symm
              simp [hf, htj, setSafe, setLock, Fl.safety, Fl.locked]
            · by_cases htj : t = j
              · subst htj; simp [hvj, hft, setLock, Fl.locked]
              · simp [hvj, htj]


/-! ## registerSymbol: the three things it can do -/

theorem registerSymbol_cases {H : Decl → Nat} {c c' : Ctx} {n : String} {r : RegTy}
    (h : registerSymbol H c n r = .ok c') :
    c' = c ∨
    (c' = { c with names := c.names ++ [n], tds := c.tds ++ [r.td H], fls := c.fls ++ [(n.front == '$', false)] }) ∨
    (∃ i cur, c.tds[i]? = some cur ∧
      c' = { c with backed := ⟨i, cur⟩ :: c.backed, tds := modAt (fun _ => r.td H) i c.tds }) := by
  unfold registerSymbol at h
  split at h
  · cases h; exact Or.inr (Or.inl rfl)
  · next i hi =>
    split at h
    · next cur fl hcur hfl =>
      split at h
      · cases h
      · split at h
        · cases h; exact Or.inl rfl
        · simp only at h
          split at h
          · split at h
            · cases h
            · cases h; exact Or.inl rfl
            · cases h; exact Or.inr (Or.inr ⟨i, cur, hcur, rfl⟩)
          · cases h; exact Or.inr (Or.inr ⟨i, cur, hcur, rfl⟩)
    · cases h

theorem all_modAt_const {α} (p : α → Bool) (v : α) (i : Nat) (l : List α) (hl : l.all p = true) (hv : p v = true) :
    (modAt (fun _ => v) i l).all p = true := by
  induction l generalizing i with
  | nil => cases i <;> simp [modAt]
  | cons x xs ih =>
    simp only [List.all_cons, Bool.and_eq_true] at hl
    cases i with
    | zero => simp [modAt, hv, hl.2]
    | succ i => simp only [modAt, List.all_cons, Bool.and_eq_true]; exact ⟨hl.1, ih i hl.2⟩

theorem all_getElem? {α} (p : α → Bool) (l : List α) (i : Nat) (x : α) (hl : l.all p = true) (hx : l[i]? = some x) :
    p x = true := by
  rw [List.all_eq_true] at hl
  exact hl x (List.mem_of_getElem? hx)

/-! ## the invariant of a parse -/

/-- What holds of the machine state during the parse of any text started in the idle, coherent context `c0`:
running the pending restores (catch blocks, restore loop) on the current columns gives back `c0`'s. -/
structure Inv (H : Decl → Nat) (c0 : Ctx) (st : St) : Prop where
  len_n : c0.names.length ≤ st.ctx.names.length
  len_t : c0.tds.length ≤ st.ctx.tds.length
  len_f : c0.fls.length ≤ st.ctx.fls.length
  names : st.ctx.names.take c0.names.length = c0.names
  types : restoreAll H st.ctx.backed (st.ctx.tds.take c0.tds.length) = c0.tds
  flags : unwindFls st.stack (st.ctx.fls.take c0.fls.length) = c0.fls
  exec : st.ctx.exec = c0.exec + st.stack.length
  coh : st.ctx.coherent H = true
  parsing : st.ctx.parsing = true

theorem inv_init (H : Decl → Nat) (c0 : Ctx) (hidle : c0.idle = true) (hcoh : c0.coherent H = true) :
    Inv H c0 (St.init c0) := by
  have hb : c0.backed = [] := by
    simp only [Ctx.idle, Bool.and_eq_true, List.isEmpty_iff] at hidle
    exact hidle.2
  refine ⟨Nat.le_refl _, Nat.le_refl _, Nat.le_refl _, ?_, ?_, ?_, ?_, hcoh, rfl⟩
  · simp [St.init, parsingBegin]
  · simp [St.init, parsingBegin, hb, restoreAll]
  · simp [St.init, parsingBegin, unwindFls]
  · simp [St.init, parsingBegin]

theorem inv_register {H : Decl → Nat} {c0 : Ctx} {st : St} {c' : Ctx} {n : String} {r : RegTy}
    (hinv : Inv H c0 st) (h : registerSymbol H st.ctx n r = .ok c') (ch : Option Child) (m : Nat) (j : List (Nat × Fn)) :
    Inv H c0 ⟨c', st.stack, ch, m, j⟩ := by
  rcases registerSymbol_cases h with h | h | ⟨i, cur, hcur, h⟩
  · subst h; exact ⟨hinv.len_n, hinv.len_t, hinv.len_f, hinv.names, hinv.types, hinv.flags, hinv.exec, hinv.coh, hinv.parsing⟩
  · subst h
    refine ⟨?_, ?_, ?_, ?_, ?_, ?_, hinv.exec, ?_, hinv.parsing⟩
    · simp only [List.length_append]; have := hinv.len_n; omega
    · simp only [List.length_append]; have := hinv.len_t; omega
    · simp only [List.length_append]; have := hinv.len_f; omega
    · simp only; rw [take_append_singleton_of_le _ _ _ hinv.len_n]; exact hinv.names
    · simp only; rw [take_append_singleton_of_le _ _ _ hinv.len_t]; exact hinv.types
    · simp only; rw [take_append_singleton_of_le _ _ _ hinv.len_f]; exact hinv.flags
    · have := hinv.coh
      simp only [Ctx.coherent, List.all_append, Bool.and_eq_true] at this ⊢
      exact ⟨this, by simp [RegTy.td_coherent H r]⟩
  · subst h
    have hcohcur : cur.coherent H = true := all_getElem? _ _ _ _ hinv.coh hcur
    refine ⟨hinv.len_n, ?_, hinv.len_f, hinv.names, ?_, hinv.flags, hinv.exec, ?_, hinv.parsing⟩
    · simp only [length_modAt]; exact hinv.len_t
    · simp only [restoreAll, restoreOne]
      rw [take_modAt]
      have : modAt (fun _ => restoreTD H ⟨i, cur⟩) i (modAt (fun _ => r.td H) i (st.ctx.tds.take c0.tds.length))
          = st.ctx.tds.take c0.tds.length := by
        apply List.ext_getElem?
        intro j
        simp only [getElem?_modAt]
        by_cases hij : i = j
        · subst hij
          simp only [if_true, Option.map_map]
          cases hx : (st.ctx.tds.take c0.tds.length)[i]? with
          | none => rfl
          | some x =>
            have := getElem?_take_some hx
            rw [hcur] at this
            cases this
            simp [restoreTD_coherent H i cur hcohcur]
        · simp [hij]
      rw [this]
      exact hinv.types
    · have := hinv.coh
      simp only [Ctx.coherent] at this ⊢
      exact all_modAt_const _ _ _ _ this (RegTy.td_coherent H r)

theorem inv_enter {H : Decl → Nat} {c0 : Ctx} {st : St} {c' : Ctx} {fr : Frame}
    (hinv : Inv H c0 st)
    (hu : fr.catchFls c'.fls = st.ctx.fls ∧ c'.exec = st.ctx.exec + 1 ∧ c'.names = st.ctx.names ∧ c'.tds = st.ctx.tds ∧
      c'.backed = st.ctx.backed ∧ c'.parsing = st.ctx.parsing ∧ c'.fns = st.ctx.fns ∧ c'.fbacked = st.ctx.fbacked)
    (hlen : c'.fls.length = st.ctx.fls.length) (ch : Option Child) (m : Nat) (j : List (Nat × Fn)) :
    Inv H c0 ⟨c', fr :: st.stack, ch, m, j⟩ := by
  obtain ⟨h1, h2, h3, h4, h5, h6, _, _⟩ := hu
  refine ⟨?_, ?_, ?_, ?_, ?_, ?_, ?_, ?_, ?_⟩
  · simp only [h3]; exact hinv.len_n
  · simp only [h4]; exact hinv.len_t
  · simp only [hlen]; exact hinv.len_f
  · simp only [h3]; exact hinv.names
  · simp only [h4, h5]; exact hinv.types
  · simp only [unwindFls]; rw [← take_catchFls, h1]; exact hinv.flags
  · simp only [h2, List.length_cons]; have := hinv.exec; omega
  · have := hinv.coh; simp only [Ctx.coherent, h4] at this ⊢; exact this
  · simp only [h6]; exact hinv.parsing

theorem catchFls_length (fr : Frame) (fls : List Fl) : (fr.catchFls fls).length = fls.length := by
  cases fr with
  | blk => rfl
  | forC i sb => simp [Frame.catchFls]
  | forallC v sb lb tgt =>
    cases tgt with
    | none => simp [Frame.catchFls]
    | some p => obtain ⟨t, lt⟩ := p; simp [Frame.catchFls]

theorem inv_step {H : Decl → Nat} {c0 : Ctx} {st st' : St} {e : Ev}
    (hinv : Inv H c0 st) (hstep : step H st e = .ok st') : Inv H c0 st' := by
  unfold step at hstep
  cases hch : st.child with
  | some ch =>
    simp only [hch] at hstep
    cases e with
    | reg n r => cases hstep; exact hinv
    | enterFor i => cases hstep; exact ⟨hinv.len_n, hinv.len_t, hinv.len_f, hinv.names, hinv.types, hinv.flags, hinv.exec, hinv.coh, hinv.parsing⟩
    | enterForall v t => cases hstep; exact ⟨hinv.len_n, hinv.len_t, hinv.len_f, hinv.names, hinv.types, hinv.flags, hinv.exec, hinv.coh, hinv.parsing⟩
    | enterBlk => cases hstep; exact ⟨hinv.len_n, hinv.len_t, hinv.len_f, hinv.names, hinv.types, hinv.flags, hinv.exec, hinv.coh, hinv.parsing⟩
    | leave =>
      simp only at hstep
      split at hstep
      · split at hstep
        · cases hstep
          exact ⟨hinv.len_n, hinv.len_t, hinv.len_f, hinv.names, hinv.types, hinv.flags, hinv.exec, hinv.coh, hinv.parsing⟩
        · cases hstep
      · cases hstep; exact ⟨hinv.len_n, hinv.len_t, hinv.len_f, hinv.names, hinv.types, hinv.flags, hinv.exec, hinv.coh, hinv.parsing⟩
    | fnBegin n a fid => cases hstep
    | fail => cases hstep
  | none =>
    simp only [hch] at hstep
    cases e with
    | reg n r =>
      simp only at hstep
      cases hreg : registerSymbol H st.ctx n r with
      | ok c =>
        simp only [hreg] at hstep
        cases hstep
        exact inv_register hinv hreg _ _ _
      | error err => simp only [hreg] at hstep; cases hstep
    | enterFor i =>
      simp only at hstep
      cases h : enterFor st.ctx i with
      | none => simp [h] at hstep
      | some p =>
        obtain ⟨c, fr⟩ := p
        simp only [h] at hstep
        cases hstep
        have hu := enterFor_undo h
        exact inv_enter hinv hu (by rw [← hu.1, catchFls_length]) _ _ _
    | enterForall v t =>
      simp only at hstep
      cases h : enterForall st.ctx v t with
      | none => simp [h] at hstep
      | some p =>
        obtain ⟨c, fr⟩ := p
        simp only [h] at hstep
        cases hstep
        have hu := enterForall_undo h
        exact inv_enter hinv hu (by rw [← hu.1, catchFls_length]) _ _ _
    | enterBlk =>
      simp only at hstep
      cases hstep
      exact inv_enter (fr := .blk) (c' := { st.ctx with exec := st.ctx.exec + 1 }) hinv ⟨rfl, rfl, rfl, rfl, rfl, rfl, rfl, rfl⟩ rfl _ _ _
    | leave =>
      simp only at hstep
      cases hs : st.stack with
      | nil => simp [hs] at hstep
      | cons fr rest =>
        simp only [hs] at hstep
        cases hstep
        have hfl := hinv.flags
        have hex := hinv.exec
        simp only [hs, unwindFls, List.length_cons] at hfl hex
        refine ⟨hinv.len_n, hinv.len_t, ?_, hinv.names, hinv.types, ?_, ?_, hinv.coh, hinv.parsing⟩
        · simp only [Frame.exitNormal, normalFls_eq_catchFls, catchFls_length]; exact hinv.len_f
        · simp only [Frame.exitNormal, normalFls_eq_catchFls]; rw [take_catchFls]; exact hfl
        · simp only [Frame.exitNormal]; omega
    | fnBegin n a fid =>
      simp only at hstep
      split at hstep
      · cases hstep
      · cases hstep
        exact ⟨hinv.len_n, hinv.len_t, hinv.len_f, hinv.names, hinv.types, hinv.flags, hinv.exec, hinv.coh, hinv.parsing⟩
    | fail => cases hstep

theorem inv_run {H : Decl → Nat} {c0 : Ctx} {st : St} (evs : List Ev) (hinv : Inv H c0 st) :
    Inv H c0 (runEvents H st evs).2 := by
  induction evs generalizing st with
  | nil => exact hinv
  | cons e es ih =>
    simp only [runEvents]
    cases hs : step H st e with
    | ok st' => simp only; exact ih (inv_step hinv hs)
    | error err => exact hinv

/-- from the invariant to the Spec, through the catch blocks, the journal (which touches the function table only) and the
restore loop -/
theorem preserved_of_inv {H : Decl → Nat} {c0 : Ctx} {st : St} (hidle : c0.idle = true) (hinv : Inv H c0 st) :
    SymsPreserved c0 (rejectCtx H st) := by
  have hp : c0.parsing = false := by
    simp only [Ctx.idle, Bool.and_eq_true, Bool.not_eq_true'] at hidle; exact hidle.1
  have key : ∀ c1 : Ctx, c1.names = st.ctx.names → c1.tds = st.ctx.tds → c1.fls = st.ctx.fls → c1.backed = st.ctx.backed →
      c1.exec = st.ctx.exec → SymsPreserved c0 (parsingEnd H (unwindFrames st.stack c1)) := by
    intro c1 h1 h2 h3 h4 h5
    obtain ⟨o1, o2, o3, o4, _, _⟩ := unwindFrames_other st.stack c1
    refine ⟨?_, ?_, ?_, ?_, ?_, rfl⟩
    · simp only [parsingEnd, o1, h1]; exact hinv.names
    · simp only [parsingEnd, o2, o3, h2, h4]; rw [take_restoreAll]; exact hinv.types
    · simp only [parsingEnd, unwindFrames_fls, h3]; rw [take_unwindFls]; exact hinv.flags
    · simp only [parsingEnd, unwindFrames_exec, h5]; have := hinv.exec; omega
    · simp only [parsingEnd]; exact hp.symm
  have hun : SymsPreserved c0 (parsingEnd H (unwind st)) := by
    unfold unwind
    cases st.child with
    | none => exact key _ rfl rfl rfl rfl rfl
    | some ch => exact key _ (by simp [rollbackCtx]) (by simp [rollbackCtx]) (by simp [rollbackCtx]) (by simp [rollbackCtx]) (by simp [rollbackCtx])
  exact ⟨hun.names, hun.types, hun.flags, hun.exec, hun.parsing, hun.backed⟩


theorem findFn_take_none {n : String} {a : Nat} {l : List Fn} {m : Nat} {i : Nat}
    (hpre : findFn n a (l.take m) = none) (hi : findFn n a l = some i) : m ≤ i := by
  induction l generalizing m i with
  | nil => cases hi
  | cons x xs ih =>
    cases m with
    | zero => omega
    | succ m =>
      simp only [List.take_succ_cons] at hpre
      unfold findFn at hpre hi
      split at hi
      · next hx => simp [hx] at hpre
      · next hx =>
        simp only [hx] at hpre
        cases hr : findFn n a xs with
        | none => simp [hr] at hi
        | some k =>
          simp only [hr, Option.map_some, Option.some.injEq] at hi
          subst hi
          cases hp : findFn n a (xs.take m) with
          | some q => simp [hp] at hpre
          | none =>
            have := ih hp hr
            omega

/-- the first match in a prefix is the first match in the whole list -/
theorem findFn_of_take {n : String} {a : Nat} {l : List Fn} {m i : Nat}
    (h : findFn n a (l.take m) = some i) : findFn n a l = some i := by
  induction l generalizing m i with
  | nil => simp [findFn] at h
  | cons x xs ih =>
    cases m with
    | zero => simp [findFn] at h
    | succ m =>
      simp only [List.take_succ_cons] at h
      by_cases hx : x.is n a = true
      · simp only [findFn, hx, if_true] at h ⊢; exact h
      · have hx' : x.is n a = false := by simpa using hx
        simp only [findFn, hx', Bool.false_eq_true, if_false] at h ⊢
        cases hr : findFn n a (xs.take m) with
        | none => simp [hr] at h
        | some k =>
          simp only [hr, Option.map_some, Option.some.injEq] at h
          subst h
          rw [ih hr]; rfl

/-- replacing the first match by another functor of the same name and arity keeps it the first match -/
theorem findFn_modAt_same {n : String} {a : Nat} {l : List Fn} {i : Nat} {f : Fn}
    (h : findFn n a l = some i) (hf : f.is n a = true) : findFn n a (modAt (fun _ => f) i l) = some i := by
  induction l generalizing i with
  | nil => cases h
  | cons x xs ih =>
    unfold findFn at h
    split at h
    · cases h; simp [modAt, findFn, hf]
    · next hx =>
      cases hr : findFn n a xs with
      | none => simp [hr] at h
      | some k =>
        simp only [hr, Option.map_some, Option.some.injEq] at h
        subst h
        simp [modAt, findFn, hx, ih hr]

theorem take_modAt_of_le {α : Type} (f : α → α) (i n : Nat) (l : List α) (h : n ≤ i) : (modAt f i l).take n = l.take n := by
  rw [take_modAt]
  apply modAt_of_length_le
  simp only [List.length_take]
  omega

theorem take_dropLast_of_lt {α : Type} (l : List α) (n : Nat) (h : n < l.length) : l.dropLast.take n = l.take n := by
  rw [List.dropLast_eq_take, List.take_take]
  congr 1
  omega

theorem modAt_modAt_const {α : Type} (a b : α) (i : Nat) (l : List α) :
    modAt (fun _ => b) i (modAt (fun _ => a) i l) = modAt (fun _ => b) i l := by
  apply List.ext_getElem?
  intro j
  simp only [getElem?_modAt]
  by_cases hij : i = j
  · subst hij; cases l[i]? <;> simp
  · simp [hij]

theorem findFn_append (n : String) (a : Nat) (l1 l2 : List Fn) :
    findFn n a (l1 ++ l2) = match findFn n a l1 with
      | some i => some i
      | none => (findFn n a l2).map (· + l1.length) := by
  induction l1 with
  | nil => simp [findFn]
  | cons x xs ih =>
    simp only [List.cons_append, findFn]
    split
    · rfl
    · rw [ih]
      cases findFn n a xs with
      | some i => rfl
      | none =>
        cases findFn n a l2 with
        | none => rfl
        | some j => simp only [Option.map_some, List.length_cons]; rfl

theorem modAt_eq_const {α : Type} (g : α → α) (i : Nat) (l : List α) (x : α) (h : l[i]? = some x) :
    modAt g i l = modAt (fun _ => g x) i l := by
  apply List.ext_getElem?
  intro j
  simp only [getElem?_modAt]
  by_cases hij : i = j
  · subst hij; simp [h]
  · simp [hij]

/-! ### the journal: `parsingRevert` gives back the function table of the start of the parse -/

theorem revertFns_cons (mark i : Nat) (f : Fn) (j : List (Nat × Fn)) (fns : List Fn) :
    revertFns mark ((i, f) :: j) fns =
      j.foldl (fun acc p => if p.1 < mark then modAt (fun _ => p.2) p.1 acc else acc)
        (if i < mark then modAt (fun _ => f) i (fns.take mark) else fns.take mark) := by
  simp [revertFns, List.foldl]

/-- the undo loop depends on the table only through its first `mark` entries -/
theorem revertFns_congr (mark : Nat) (j : List (Nat × Fn)) {fns fns' : List Fn} (h : fns'.take mark = fns.take mark) :
    revertFns mark j fns' = revertFns mark j fns := by
  simp only [revertFns, h]

/-- replacing entry `i` and journalling the functor it held is undone by the newest journal entry -/
theorem revertFns_replace (mark i : Nat) (old f : Fn) (j : List (Nat × Fn)) (fns : List Fn) (hold : fns[i]? = some old) :
    revertFns mark ((i, old) :: j) (modAt (fun _ => f) i fns) = revertFns mark j fns := by
  rw [revertFns_cons]
  unfold revertFns
  congr 1
  by_cases hi : i < mark
  · simp only [hi, if_true]
    rw [take_modAt, modAt_modAt_const]
    apply modAt_id_of
    intro x hx
    have := getElem?_take_some hx
    rw [hold] at this
    cases this
    rfl
  · simp only [hi, if_false]
    exact take_modAt_of_le _ _ _ _ (by omega)

/-- What holds of the function table and the journal during the parse of any text started in `c0` (ANY context): undoing
the journal on the first `mark` entries gives `c0`'s table; while a declaration is open this is so whatever its entry holds
(the entry is either behind the mark or covered by the newest journal entry), and `rollback` will find that entry. -/
structure JInv (c0 : Ctx) (st : St) : Prop where
  mark : st.fmark = c0.fns.length
  len : c0.fns.length ≤ st.ctx.fns.length
  closed : st.child = none → revertFns st.fmark st.journal st.ctx.fns = c0.fns
  opened : ∀ ch, st.child = some ch → ∃ i, findFn ch.name ch.arity st.ctx.fns = some i ∧
    (∀ f, revertFns st.fmark st.journal (modAt (fun _ => f) i st.ctx.fns) = c0.fns) ∧
    (∀ b, st.ctx.fbacked = some b → b.is ch.name ch.arity = true) ∧
    (st.ctx.fbacked = none → c0.fns.length < st.ctx.fns.length)

theorem jinv_init (c0 : Ctx) : JInv c0 (St.init c0) :=
  ⟨rfl, Nat.le_refl _, (by intro _; simp [St.init, parsingBegin, revertFns]), (by intro ch h; cases h)⟩

theorem jinv_step {H : Decl → Nat} {c0 : Ctx} {st st' : St} {e : Ev}
    (hinv : JInv c0 st) (hstep : step H st e = .ok st') : JInv c0 st' := by
  unfold step at hstep
  cases hch : st.child with
  | some ch =>
    simp only [hch] at hstep
    have hopen := hinv.opened ch hch
    -- events that only move the depth counter
    have keep : ∀ d : Nat, JInv c0 { st with child := some { ch with depth := d } } := by
      intro d
      refine ⟨hinv.mark, hinv.len, (by intro h; cases h), ?_⟩
      intro ch' h'
      simp only [Option.some.injEq] at h'
      subst h'
      exact hopen
    cases e with
    | reg n r => cases hstep; exact hinv
    | enterFor i => cases hstep; exact keep _
    | enterForall v t => cases hstep; exact keep _
    | enterBlk => cases hstep; exact keep _
    | leave =>
      simp only at hstep
      split at hstep
      · -- the declaration is complete: the entry gets its body
        obtain ⟨i, hi, hall, _, _⟩ := hopen
        simp only [hi] at hstep
        cases hstep
        obtain ⟨x, hx, _⟩ := findFn_is hi
        refine ⟨hinv.mark, ?_, ?_, ?_⟩
        · simp only [length_modAt]; exact hinv.len
        · intro _
          simp only
          rw [modAt_eq_const _ _ _ x hx]
          exact hall _
        · intro ch' h'; cases h'
      · cases hstep; exact keep _
    | fnBegin n a fid => cases hstep
    | fail => cases hstep
  | none =>
    simp only [hch] at hstep
    have hcl := hinv.closed hch
    have same : ∀ c : Ctx, c.fns = st.ctx.fns → ∀ stk, JInv c0 ⟨c, stk, none, st.fmark, st.journal⟩ := by
      intro c hc stk
      exact ⟨hinv.mark, by simp only [hc]; exact hinv.len, by intro _; simp only [hc]; exact hcl, by intro ch' h'; cases h'⟩
    cases e with
    | reg n r =>
      simp only at hstep
      cases hreg : registerSymbol H st.ctx n r with
      | ok c =>
        simp only [hreg] at hstep
        cases hstep
        have hf : c.fns = st.ctx.fns := by
          rcases registerSymbol_cases hreg with h | h | ⟨i, cur, _, h⟩ <;> subst h <;> rfl
        exact same c hf _
      | error err => simp only [hreg] at hstep; cases hstep
    | enterFor i =>
      simp only at hstep
      cases h : enterFor st.ctx i with
      | none => simp [h] at hstep
      | some p =>
        obtain ⟨c, fr⟩ := p
        simp only [h] at hstep
        cases hstep
        exact same c (enterFor_undo h).2.2.2.2.2.2.1 _
    | enterForall v t =>
      simp only at hstep
      cases h : enterForall st.ctx v t with
      | none => simp [h] at hstep
      | some p =>
        obtain ⟨c, fr⟩ := p
        simp only [h] at hstep
        cases hstep
        exact same c (enterForall_undo h).2.2.2.2.2.2.1 _
    | enterBlk =>
      simp only at hstep
      cases hstep
      exact same { st.ctx with exec := st.ctx.exec + 1 } rfl _
    | leave =>
      simp only at hstep
      cases hs : st.stack with
      | nil => simp [hs] at hstep
      | cons fr rest =>
        simp only [hs] at hstep
        cases hstep
        exact same (fr.exitNormal st.ctx) rfl _
    | fnBegin n a fid =>
      simp only at hstep
      split at hstep
      · cases hstep
      · cases hstep
        have hmark := hinv.mark
        have hlen := hinv.len
        unfold createOrReplace journalEntry
        cases hfi : findFn n a st.ctx.fns with
        | none =>
          -- a new entry is appended behind the mark: nothing is journalled
          simp only [List.nil_append]
          refine ⟨hmark, ?_, (by intro h; cases h), ?_⟩
          · simp only [List.length_append, List.length_cons, List.length_nil]; omega
          · intro ch' h'
            simp only [Option.some.injEq] at h'
            subst h'
            refine ⟨st.ctx.fns.length, ?_, ?_, ?_, ?_⟩
            · simp only
              rw [findFn_append, hfi]
              simp [findFn, Fn.is]
            · intro f
              simp only
              rw [revertFns_congr (fns := st.ctx.fns)]
              · exact hcl
              · rw [take_modAt_of_le _ _ _ _ (by omega), List.take_append_of_le_length (by omega)]
            · intro b hb; cases hb
            · intro _; simp only [List.length_append, List.length_cons, List.length_nil]; omega
        | some i =>
          -- an entry is replaced in place: the functor it held goes to `_backed` and to the journal
          obtain ⟨old, hold, hfis⟩ := findFn_is hfi
          simp only [hold, List.cons_append, List.nil_append]
          refine ⟨hmark, by simp only [length_modAt]; exact hlen, (by intro h; cases h), ?_⟩
          intro ch' h'
          simp only [Option.some.injEq] at h'
          subst h'
          refine ⟨i, ?_, ?_, ?_, ?_⟩
          · exact findFn_modAt_same hfi (by simp [Fn.is])
          · intro f
            simp only
            rw [modAt_modAt_const, revertFns_replace _ _ _ _ _ _ hold]
            exact hcl
          · intro b hb
            simp only [Option.some.injEq] at hb
            subst hb
            exact hfis
          · intro hb; cases hb
    | fail => cases hstep

theorem jinv_run {H : Decl → Nat} {c0 : Ctx} {st : St} (evs : List Ev) (hinv : JInv c0 st) :
    JInv c0 (runEvents H st evs).2 := by
  induction evs generalizing st with
  | nil => exact hinv
  | cons e es ih =>
    simp only [runEvents]
    cases hs : step H st e with
    | ok st' => exact ih (jinv_step hinv hs)
    | error err => exact hinv

theorem rejectCtx_fns (H : Decl → Nat) (st : St) :
    (rejectCtx H st).fns = revertFns st.fmark st.journal
      (match st.child with | some _ => rollbackCtx st.ctx | none => st.ctx).fns := by
  simp only [rejectCtx, parsingEnd, unwind]
  cases st.child with
  | none => simp only; rw [(unwindFrames_other st.stack st.ctx).2.2.2.2.1]
  | some ch => simp only; rw [(unwindFrames_other st.stack (rollbackCtx st.ctx)).2.2.2.2.1]

/-- the catch block of `FUNCTIONStatement::parse` (`rollback`) followed by `parsingRevert` gives back the table of the start -/
theorem jinv_reject {H : Decl → Nat} {c0 : Ctx} {st : St} (hinv : JInv c0 st) : (rejectCtx H st).fns = c0.fns := by
  rw [rejectCtx_fns]
  cases hch : st.child with
  | none => exact hinv.closed hch
  | some ch =>
    obtain ⟨i, hi, hall, hbk, hlt⟩ := hinv.opened ch hch
    obtain ⟨x, hx, _⟩ := findFn_is hi
    have hcur : revertFns st.fmark st.journal st.ctx.fns = c0.fns := by
      have := hall x
      rwa [modAt_id_of _ _ _ (by intro y hy; rw [hx] at hy; cases hy; rfl)] at this
    simp only [rollbackCtx, rollback]
    cases hb : st.ctx.fbacked with
    | none =>
      simp only
      rw [revertFns_congr (fns := st.ctx.fns)]
      · exact hcur
      · rw [hinv.mark]; exact take_dropLast_of_lt _ _ (hlt hb)
    | some b =>
      have hkey := hbk b hb
      simp only [Fn.is, Bool.and_eq_true, beq_iff_eq] at hkey
      simp only [hkey.1, hkey.2, hi]
      exact hall b

end BlocV.ParseCtx
