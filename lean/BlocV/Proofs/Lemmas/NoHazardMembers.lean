/-
  Helper lemmas for C01 (whole programs): the container members of Model/Members.lean at the level of values — for EVERY
  receiver (table, string, bytes, tuple, null, anything else), every argument list and either value of the constant flag,
  `memberCall` reaches no hazard and both the result and the receiver-after are deep-well-formed again (`okVal`).
  (Helper lemmas only — the property theorems are in BlocV/Proofs/C01.lean.)
-/
import BlocV.Proofs.Lemmas.NoHazardInterp
namespace BlocV.NHI
open BlocV
variable {bad : Hazard → Bool} {I : St → Prop}

theorem charArg_nh {a : Val} (h : okVal a = true) (hn : a.isNull = false) : (charArg a).isHazard = false := by
  unfold charArg
  have := asInt_no_hazard (tabOk_of_okVal h) hn
  split
  · split <;> rfl
  · rfl
  · rename_i e; rw [e] at this; cases this
  · rfl

/-- what `classify` hands to put / insert / concat is deep-well-formed when the argument is -/
def okSlot : Slot → Prop
  | .one v => okVal v = true
  | .many vs => okVals vs = true
  | _ => True

theorem mixElem_okSlot (t : Ty) (a : Val) (nullTy : Ty) (s : Slot) (h : mixElem t a nullTy = .ok s) : okSlot s := by
  unfold mixElem at h
  repeat' (split at h)
  all_goals first
    | (cases h; simp [okSlot]; done)
    | cases h

theorem classify_okSlot (k : Kind) (t : Ty) (a : Val) (nullTy : Ty) (s : Slot) (ha : okVal a = true) (h : classify k t a nullTy = .ok s) : okSlot s := by
  unfold classify at h
  split at h
  · split at h
    · simp only [okVal_tab, Bool.and_eq_true] at ha
      repeat' (split at h)
      all_goals first
        | (cases h; simp [okSlot, okVal_tab, ha]; done)
        | cases h
    · cases h; split <;> trivial
  · split at h
    · repeat' (split at h)
      all_goals first
        | (cases h; simp [okSlot, ha]; done)
        | (cases h; split <;> trivial)
        | cases h
    · exact mixElem_okSlot _ _ _ _ h

/-- result and receiver-after of a member call -/
abbrev okPair (p : Val × Val) : Prop := okVal p.1 = true ∧ okVal p.2 = true

macro "mem_haz" : tactic => `(tactic| first
  | exact (haz_absurd ‹_ = Res.haz _› (asInt_no_hazard (tabOk_of_okVal ‹_›) (by nn_tac))).elim
  | exact (haz_absurd ‹_ = Res.haz _› (asStr_no_hazard (tabOk_of_okVal ‹_›) (by nn_tac))).elim
  | exact (haz_absurd ‹_ = Res.haz _› (asRaw_no_hazard (tabOk_of_okVal ‹_›) (by nn_tac))).elim
  | exact (haz_absurd ‹_ = Res.haz _› (charArg_nh ‹_› (by nn_tac))).elim
  | exact (haz_absurd ‹_ = Res.haz _› (C09.classify_no_hazard _ _ _ _ (wfArg_of_okVal ‹_›))).elim)

theorem mAt_nhr (recv a0 : Val) (hr : okVal recv = true) (h0 : okVal a0 = true) : NHR bad okPair (mAt recv a0) := by
  unfold mAt
  split
  · exact NHR.err
  · rename_i hn
    have hn0 : a0.isNull = false := nn_orR hn
    repeat' split
    all_goals first
      | exact NHR.err
      | exact NHR.unm
      | mem_haz
      | skip
    all_goals
      refine NHR.ok ⟨?_, hr⟩
      first
        | exact okVal_int _
        | (simp only [okVal_tab, Bool.and_eq_true] at hr; exact okVals_getElem? _ _ _ hr.2 ‹_›)

/-- closes the goals left after splitting a member function: errors, unmodelled cells, impossible hazard branches, and
results built from the receiver's elements / bytes -/
macro "mem_close" hr:ident : tactic => `(tactic| first
  | exact NHR.err
  | exact NHR.unm
  | mem_haz
  | (refine NHR.ok ⟨?_, ?_⟩ <;> first
      | assumption
      | exact okVal_int _ | exact okVal_str _ | exact okVal_raw _ | exact okVal_null _
      | (simp only [okVal_tab, Bool.and_eq_true] at $hr:ident
         simp only [okVal_tab, Bool.and_eq_true]
         refine ⟨($hr:ident).1, ?_⟩
         first
           | exact okVals_listPut _ _ _ ($hr:ident).2 ‹_›
           | exact okVals_listDel _ _ ($hr:ident).2
           | (apply okVals_listIns _ _ _ ($hr:ident).2; first | assumption | (simp; assumption) | (apply okVals_reverse; assumption))
           | (rw [okVals_append]; simp [($hr:ident).2]; assumption))))

theorem mPut_nhr (recv a0 a1 : Val) (c : Bool) (hr : okVal recv = true) (h0 : okVal a0 = true) (h1 : okVal a1 = true) :
    NHR bad okPair (mPut recv a0 a1 c) := by
  unfold mPut
  split
  · exact NHR.err
  · rename_i hn
    have hn0 : a0.isNull = false := nn_orR hn
    split
    · -- table
      split
      · split
        · exact NHR.err
        · split
          · exact NHR.err
          · rename_i old hold
            split
            · rename_i v hc
              have hv : okVal v = true := classify_okSlot _ _ _ _ _ h1 hc
              mem_close hr
            all_goals mem_close hr
      all_goals mem_close hr
    all_goals (repeat' split)
    all_goals mem_close hr

theorem mDelete_nhr (recv a0 : Val) (c : Bool) (hr : okVal recv = true) (h0 : okVal a0 = true) :
    NHR bad okPair (mDelete recv a0 c) := by
  unfold mDelete
  split
  · exact NHR.err
  · rename_i hn
    have hn0 : a0.isNull = false := nn_orR hn
    repeat' split
    all_goals mem_close hr

theorem mCount_nhr (recv : Val) (hr : okVal recv = true) : NHR bad okPair (mCount recv) := by
  unfold mCount
  split
  all_goals mem_close hr

theorem insRaw_nhr (recv : Val) (s : Bytes) (a0 a1 : Val) (hr : okVal recv = true) (h0 : okVal a0 = true) (hn0 : a0.isNull = false)
    (h1 : okVal a1 = true) : NHR bad okPair (insRaw recv s a0 a1) := by
  unfold insRaw
  repeat' split
  all_goals mem_close hr

theorem mInsert_nhr (recv a0 a1 : Val) (c : Bool) (hr : okVal recv = true) (h0 : okVal a0 = true) (h1 : okVal a1 = true) :
    NHR bad okPair (mInsert recv a0 a1 c) := by
  unfold mInsert
  split
  · exact NHR.err
  · rename_i hn
    have hn0 : a0.isNull = false := nn_orR hn
    split
    · -- table
      split
      · split
        · exact NHR.err
        · split
          · rename_i v hc
            have hv : okVal v = true := classify_okSlot _ _ _ _ _ h1 hc
            mem_close hr
          · rename_i vs hc
            have hv : okVals vs = true := classify_okSlot _ _ _ _ _ h1 hc
            mem_close hr
          all_goals mem_close hr
      all_goals mem_close hr
    · repeat' split
      all_goals mem_close hr
    · exact insRaw_nhr _ _ _ _ hr h0 hn0 h1
    · exact NHR.err

theorem concatRawCase_nhr (recv a0 : Val) (hr : okVal recv = true) (h0 : okVal a0 = true) (hn0 : a0.isNull = false) :
    NHR bad okPair (concatRawCase recv a0) := by
  unfold concatRawCase
  repeat' split
  all_goals mem_close hr

theorem mConcat_nhr (recv a0 : Val) (c : Bool) (hr : okVal recv = true) (h0 : okVal a0 = true) :
    NHR bad okPair (mConcat recv a0 c) := by
  unfold mConcat
  split
  · split
    · -- a table
      split
      · rename_i v hc
        have hv : okVal v = true := classify_okSlot _ _ _ _ _ h0 hc
        mem_close hr
      · rename_i vs hc
        have hv : okVals vs = true := classify_okSlot _ _ _ _ _ h0 hc
        mem_close hr
      all_goals mem_close hr
    · -- a null table
      repeat' split
      all_goals first
        | mem_close hr
        | (refine NHR.ok ⟨?_, ?_⟩ <;> (simp [okVal_tab, okVal_tup, Ty.levelUp, makeTupleTy_level] <;> first | assumption | (simp [okVal_tup] at h0; exact h0)))
  · split
    · mem_close hr
    · rename_i hn
      have hn0 : a0.isNull = false := nn_of_not hn
      split
      · repeat' split
        all_goals mem_close hr
      · split
        · repeat' split
          all_goals mem_close hr
        · repeat' split
          all_goals mem_close hr
        · exact concatRawCase_nhr _ _ hr h0 hn0
      · exact concatRawCase_nhr _ _ hr h0 hn0
      · exact NHR.err

theorem memberCall_nhr (m : Member) (recv : Val) (args : List Val) (c : Bool) (hr : okVal recv = true) (ha : okVals args = true) :
    NHR bad okPair (memberCall m recv args c) := by
  unfold memberCall
  split
  all_goals (try simp only [okVals_cons, okVals_nil, Bool.and_eq_true, Bool.and_true] at ha)
  · exact mAt_nhr _ _ hr ha
  · exact mPut_nhr _ _ _ _ hr ha.1 ha.2
  · exact mInsert_nhr _ _ _ _ hr ha.1 ha.2
  · exact mDelete_nhr _ _ _ hr ha
  · exact mConcat_nhr _ _ _ hr ha
  · exact mCount_nhr _ hr
  · exact NHR.unm
end BlocV.NHI
