/-
  Helper lemmas for the program-level C02 theorems (task C02FE):
    * the front end forgets parentheses: `elabExpr (norm e) = elabExpr e`;
    * programs of assignments and DO statements read back from their tokens (on top of Proofs/C12.lean);
    * the constraint pass of Model/Safety.lean keeps the kind of every protected symbol.
-/
import BlocV.Proofs.C12
import BlocV.Model.Elab
import BlocV.Model.Safety

namespace BlocV.C02L
open BlocV BlocV.Parse BlocV.Unparse BlocV.Roundtrip BlocV.Elab BlocV.C12L

/-! ## the front end and `norm` -/

theorem elab_setEnc (e : PExpr) : elabExpr (setEnc e) = elabExpr e := by
  cases e <;> first | rfl | simp [setEnc, elabExpr]

mutual
  theorem elab_norm : ∀ e : PExpr, elabExpr (norm e) = elabExpr e
    | .int _ | .num _ | .str _ | .var _ | .kw _ => by simp [norm]
    | .call n args => by simp [norm, elabExpr, elabArgs_norm args]
    | .fcall n args => by simp [norm, elabExpr, elabArgs_norm args]
    | .member e n args => by simp [norm, elabExpr, elab_norm e, elabArgs_norm args]
    | .setm e no a => by simp [norm, elabExpr]
    | .item e no => by simp [norm, elabExpr, elab_norm e]
    | .un op enc x => by simp [norm, elabExpr, elab_setEnc, elab_norm x]
    | .bin op enc a b => by simp [norm, elabExpr, elab_norm a, elab_norm b]
  theorem elabArgs_norm : ∀ as : List PExpr, elabArgs (normArgs as) = elabArgs as
    | [] => by simp [normArgs, elabArgs]
    | a :: as => by simp [normArgs, elabArgs, elab_norm a, elabArgs_norm as]
end

/-! ## programs of assignments and DO statements -/

/-- the statements C12's round-trip theorems cover: `NAME = e;` and `do e;` -/
inductive SStmt
  | letS (n : Bytes) (e : PExpr)
  | doS (e : PExpr)
  deriving Repr, Inhabited

def SStmt.expr : SStmt → PExpr
  | .letS _ e => e
  | .doS e => e

def SStmt.toP : SStmt → PStmt
  | .letS n e => .letS n e none
  | .doS e => .doS e

def SStmt.normS : SStmt → SStmt
  | .letS n e => .letS n (norm e)
  | .doS e => .doS (norm e)

/-- the tokens `Executable::unparse` writes for the statement (text + separator) -/
def SStmt.toks : SStmt → List Tok
  | .letS n e => C12.toksLet n e
  | .doS e => toksDo e

/-- in the domain of the round trip: upper-case non-reserved target name, expression in the parser's image, operator core -/
def SStmt.ok : SStmt → Bool
  | .letS n e => nameOk n && wf e && core e
  | .doS e => wf e && core e

def toksProg : List SStmt → List Tok
  | [] => []
  | s :: ss => s.toks ++ toksProg ss

/-- fuel that suffices to read the program back -/
def need : List SStmt → Nat
  | [] => 1
  | s :: ss => max (16 * esize s.expr + 17) (need ss + 1)

theorem pStmt_simple (s : SStmt) (hok : s.ok = true) (rest : List Tok) (f : Nat) (hf : 16 * esize s.expr + 16 ≤ f) :
    pStmt f false (s.toks ++ rest) = .ok (some s.normS.toP, rest) := by
  cases s with
  | letS n e =>
    simp only [SStmt.ok, Bool.and_eq_true] at hok
    exact C12.stmt_let_roundtrip n e hok.1.1 hok.1.2 false rest f hf
  | doS e =>
    simp only [SStmt.ok, Bool.and_eq_true] at hok
    exact C12.stmt_do_roundtrip e hok.1 false rest f (by simp only [SStmt.expr] at hf; omega)

theorem toks_head (s : SStmt) (rest : List Tok) : ∃ t ts, s.toks ++ rest = t :: ts ∧ t.code = cKW := by
  cases s with
  | letS n e => exact ⟨⟨cKW, n⟩, ch 61 :: (toksExpr e ++ [ch 59]) ++ rest, by simp [SStmt.toks, C12.toksLet], rfl⟩
  | doS e => exact ⟨kw "do", (toksExpr e ++ [ch 59]) ++ rest, by simp [SStmt.toks, toksDo], rfl⟩

theorem pProgram_simple : ∀ (ss : List SStmt), (∀ s ∈ ss, s.ok = true) → ∀ f, need ss ≤ f →
    pProgram f (toksProg ss) = .ok (ss.map fun s => s.normS.toP)
  | [], _, f, hf => by
    obtain ⟨f1, rfl⟩ : ∃ f1, f = f1 + 1 := ⟨f - 1, by simp [need] at hf; omega⟩
    simp [toksProg, pProgram, pure, Except.pure]
  | s :: ss, hok, f, hf => by
    have hf' : 16 * esize s.expr + 17 ≤ f ∧ need ss + 1 ≤ f := by simp [need] at hf; omega
    obtain ⟨f1, rfl⟩ : ∃ f1, f = f1 + 1 := ⟨f - 1, by omega⟩
    have h1 := pStmt_simple s (hok s (by simp)) (toksProg ss) f1 (by omega)
    have h2 := pProgram_simple ss (fun x hx => hok x (by simp [hx])) f1 (by omega)
    obtain ⟨t, ts, e1, hc⟩ := toks_head s (toksProg ss)
    have hns : (t.code == cSEMI) = false := by rw [hc]; decide
    show pProgram (f1 + 1) (s.toks ++ toksProg ss) = _
    rw [e1, pProgram, hns]
    rw [← e1, h1]
    simp [bind, Except.bind, h2, pure, Except.pure]

theorem elabStmt_normS (s : SStmt) : elabStmt s.normS.toP = elabStmt s.toP := by
  cases s <;> simp [SStmt.normS, SStmt.toP, elabStmt, elab_norm]

theorem elabProgram_normS : ∀ ss : List SStmt,
    elabProgram (ss.map fun s => s.normS.toP) = elabProgram (ss.map SStmt.toP)
  | [] => rfl
  | s :: ss => by
    have ih := elabProgram_normS ss
    simp only [elabProgram] at ih ⊢
    simp [elabBlock, elabStmt_normS, ih]

/-! ## the constraint pass -/

open BlocV.Safety

theorem sameKind_refl (a : Ty) : sameKind a a = true := by
  unfold sameKind
  by_cases h : a.level = 0
  · simp [h]
  · have : a.level > 0 := Nat.pos_of_ne_zero h
    simp [this]

theorem sameKind_trans {a b c : Ty} (h1 : sameKind a b = true) (h2 : sameKind b c = true) : sameKind a c = true := by
  unfold sameKind at *
  simp only [Bool.or_eq_true, Bool.and_eq_true, beq_iff_eq, decide_eq_true_eq] at *
  rcases h1 with ⟨⟨l1, l2⟩, m1⟩ | ⟨l1, l2⟩ <;> rcases h2 with ⟨⟨k1, k2⟩, m2⟩ | ⟨k1, k2⟩
  · exact Or.inl ⟨⟨l1, k2⟩, m1.trans m2⟩
  · omega
  · omega
  · exact Or.inr ⟨l1, k2⟩

/-- `check_safety` other than KO means: same kind. -/
theorem checkSafety_sameKind {sym ty : Ty} (h : checkSafety sym ty ≠ .ko) : sameKind sym ty = true := by
  unfold checkSafety at h
  split at h
  · rename_i he
    have : ty = sym := by simpa using he
    subst this; exact sameKind_refl _
  · split at h
    · rename_i hl
      split at h
      · rename_i hl2
        unfold sameKind; simp [hl, hl2]
      · exact absurd rfl h
    · rename_i hl
      split at h
      · rename_i hl2
        split at h
        · rename_i hm
          have hl0 : sym.level = 0 := by omega
          have hl20 : ty.level = 0 := by simpa using hl2
          unfold sameKind; simp [hl0, hl20, hm]
        · exact absurd rfl h
      · exact absurd rfl h

theorem curOf_setCur (t : SymTab) (n m : String) (ty : Ty) :
    curOf (setCur t n ty) m = if m = n then some ty else curOf t m := by
  induction t with
  | nil =>
    by_cases hm : m = n
    · subst hm; simp [setCur, curOf]
    · have : (n == m) = false := by simpa using fun h => hm h.symm
      simp [setCur, curOf, this, hm]
  | cons p t ih =>
    obtain ⟨k, c, f⟩ := p
    unfold setCur
    by_cases hk : k = n
    · subst hk
      by_cases hm : m = k
      · subst hm; simp [curOf]
      · have : (k == m) = false := by simpa using fun h => hm h.symm
        simp [curOf, this, hm]
    · have hkn : (k == n) = false := by simpa using hk
      simp only [hkn]
      by_cases hm : k = m
      · subst hm
        simp [curOf, hk]
      · have hkm : (k == m) = false := by simpa using hm
        have ih' := ih
        simp only [curOf] at ih' ⊢
        simp only [Bool.false_eq_true, if_false, List.find?_cons, hkm]
        exact ih'

/-- every protected symbol of `t` is still there in `t'`, of the same kind -/
def Keeps (prot : List String) (t t' : SymTab) : Prop :=
  ∀ m, isSafe prot m = true → ∀ cur, curOf t m = some cur → ∃ cur', curOf t' m = some cur' ∧ sameKind cur cur' = true

theorem Keeps.refl (prot : List String) (t : SymTab) : Keeps prot t t :=
  fun _ _ cur h => ⟨cur, h, sameKind_refl cur⟩

theorem Keeps.trans {prot : List String} {a b c : SymTab} (h1 : Keeps prot a b) (h2 : Keeps prot b c) : Keeps prot a c := by
  intro m hs cur hc
  obtain ⟨c1, e1, k1⟩ := h1 m hs cur hc
  obtain ⟨c2, e2, k2⟩ := h2 m hs c1 e1
  exact ⟨c2, e2, sameKind_trans k1 k2⟩

theorem isSafe_cons {prot : List String} {v m : String} (h : isSafe prot m = true) : isSafe (v :: prot) m = true := by
  unfold isSafe at *
  simp only [Bool.or_eq_true, List.contains_cons] at *
  rcases h with h | h
  · exact Or.inl h
  · exact Or.inr (Or.inr h)

theorem Keeps.weaken {prot : List String} {v : String} {a b : SymTab} (h : Keeps (v :: prot) a b) : Keeps prot a b :=
  fun m hs cur hc => h m (isSafe_cons hs) cur hc

theorem regS_keeps {prot : List String} {t t' : SymTab} {n : String} {ty : Ty} (h : regS prot t n ty = .ok t') :
    Keeps prot t t' := by
  unfold regS at h
  cases hcur : curOf t n with
  | none =>
    rw [hcur] at h
    cases h
    intro m hs cur hc
    have hmn : m ≠ n := fun e => by subst e; rw [hcur] at hc; cases hc
    exact ⟨cur, by rw [curOf_setCur, if_neg hmn]; exact hc, sameKind_refl cur⟩
  | some cur0 =>
    rw [hcur] at h
    simp only at h
    by_cases he : (ty == cur0) = true
    · rw [if_pos he] at h; cases h; exact Keeps.refl _ _
    · rw [if_neg he] at h
      by_cases hko : (isSafe prot n && checkSafety cur0 ty == .ko) = true
      · rw [if_pos hko] at h; cases h
      · rw [if_neg hko] at h
        cases h
        intro m hs cur hc
        by_cases hmn : m = n
        · subst hmn
          rw [hcur] at hc; cases hc
          refine ⟨ty, by rw [curOf_setCur, if_pos rfl], ?_⟩
          have hk : checkSafety cur0 ty ≠ .ko := by
            intro hk
            simp [hs, hk] at hko
          exact checkSafety_sameKind hk
        · exact ⟨cur, by rw [curOf_setCur, if_neg hmn]; exact hc, sameKind_refl cur⟩

theorem foldE_keeps {α : Type} {prot : List String} (f : SymTab → α → Except Nat SymTab)
    (hf : ∀ t a t', f t a = .ok t' → Keeps prot t t') :
    ∀ (as : List α) (t t' : SymTab), foldE f t as = .ok t' → Keeps prot t t'
  | [], t, t', h => by simp [foldE] at h; cases h; exact Keeps.refl _ _
  | a :: as, t, t', h => by
    unfold foldE at h
    split at h
    · rename_i t1 h1
      exact (hf t a t1 h1).trans (foldE_keeps f hf as t1 t' h)
    · cases h

theorem checkStmt_keeps (funcs : List Func) : ∀ (fuel : Nat) (prot : List String) (t t' : SymTab) (st : Stmt),
    checkStmt funcs fuel prot t st = .ok t' → Keeps prot t t'
  | 0, prot, t, t', st, h => by simp [checkStmt] at h; cases h; exact Keeps.refl _ _
  | fuel + 1, prot, t, t', st, h => by
    have ih := checkStmt_keeps funcs fuel
    cases st
    case letS n e => exact regS_keeps (by simpa [checkStmt] using h)
    case forS v b e step dir body =>
      simp only [checkStmt] at h
      split at h
      · rename_i t1 h1
        exact (regS_keeps h1).trans (Keeps.weaken (foldE_keeps _ (fun a s b => ih (v :: prot) a b s) body t1 t' h))
      · cases h
    case forallS it src dir body =>
      simp only [checkStmt] at h
      split at h
      · cases h
      · split at h
        · rename_i t1 h1
          exact (regS_keeps h1).trans (Keeps.weaken (foldE_keeps _ (fun a s b => ih (it :: prot) a b s) body t1 t' h))
        · cases h
    case whileS c body =>
      simp only [checkStmt] at h
      exact foldE_keeps _ (fun a s b => ih prot a b s) body t t' h
    case ifS rules =>
      simp only [checkStmt] at h
      exact foldE_keeps _ (fun a r b hr => foldE_keeps _ (fun a s b => ih prot a b s) r.2 a b hr) rules t t' h
    case beginS body catches =>
      simp only [checkStmt] at h
      split at h
      · rename_i t1 h1
        exact (foldE_keeps _ (fun a s b => ih prot a b s) body t t1 h1).trans
          (foldE_keeps _ (fun a r b hr => foldE_keeps _ (fun a s b => ih prot a b s) r.2 a b hr) catches t1 t' h)
      · cases h
    all_goals
      simp only [checkStmt] at h
      cases h
      exact Keeps.refl _ _

end BlocV.C02L
