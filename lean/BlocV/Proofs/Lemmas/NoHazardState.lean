/-
  Helper lemmas for C01 (whole programs): the invariant `WfSt` of the interpreter's state (every held value deep-well-formed, every
  running `forall` pointing inside its table, distinct iterator names), what assignments do to it, and the value-level pieces an
  expression / statement node uses (variable read through an iterator, write through an iterator, `error`, `print`, conditions,
  unary and binary operators) with their no-hazard / well-formed-result statements.
  (Helper lemmas only — the property theorems are in BlocV/Proofs/C01.lean.)
-/
import BlocV.Proofs.Lemmas.NoHazardCalls
import BlocV.Proofs.Lemmas.NoHazardMembers
namespace BlocV.NHI
open BlocV BlocV.Lemmas
variable {bad : Hazard → Bool}

/-! ## the invariant of the interpreter's state -/

/-- **Well-formed state**: every value a variable, the saved return value or the private copy of a traversed temporary holds is
deep-well-formed (`okVal`); every running `forall` points INSIDE the table it traverses, as that table is now; the iterator
names on the control stack are distinct (`FORALLStatement::doit` refuses to re-enter a loop on a pending iterator). -/
structure WfSt (s : St) : Prop where
  vars : ∀ p ∈ s.vars, okVal p.2 = true
  ret : ∀ v, s.returned = some v → okVal v = true
  priv : ∀ b ∈ s.iters, okVal b.priv = true
  idx : ∀ b ∈ s.iters, b.idx < tableSize (s.iterTable b)
  nodup : (s.iters.map (·.it)).Nodup

/-- every table VARIABLE being traversed is among the names `L` the parser holds locked at this point of the text -/
def SrcIn (L : List String) (s : St) : Prop := ∀ b ∈ s.iters, ∀ t, b.src = some t → t ∈ L

def Inv (L : List String) (s : St) : Prop := WfSt s ∧ SrcIn L s

theorem wfSt_init : WfSt {} where
  vars := by intro p h; cases h
  ret := by intro v h; cases h
  priv := by intro b h; cases h
  idx := by intro b h; cases h
  nodup := List.nodup_nil

theorem okVal_lookupVar {s : St} (h : WfSt s) (n : String) : okVal (lookupVar s.vars n) = true := by
  unfold lookupVar
  split
  · rename_i v hf
    exact h.vars _ (List.mem_of_find?_eq_some hf)
  · exact okVal_null _

theorem mem_setVar (vars : List (String × Val)) (n : String) (v : Val) (p : String × Val) (hp : p ∈ setVar vars n v) :
    p = (n, v) ∨ p ∈ vars := by
  unfold setVar at hp
  split at hp
  · simp only [List.mem_map] at hp
    obtain ⟨q, hq, e⟩ := hp
    split at e
    · exact .inl e.symm
    · exact .inr (e ▸ hq)
  · simp only [List.mem_append, List.mem_singleton] at hp
    rcases hp with h | h
    · exact .inr h
    · exact .inl h

theorem Inv.congr {L : List String} {s s' : St} (h : Inv L s) (hv : s'.vars = s.vars) (hi : s'.iters = s.iters) (hr : s'.returned = s.returned) :
    Inv L s' := by
  obtain ⟨⟨h1, h2, h3, h4, h5⟩, h6⟩ := h
  refine ⟨⟨?_, ?_, ?_, ?_, ?_⟩, ?_⟩
  · rw [hv]; exact h1
  · rw [hr]; exact h2
  · rw [hi]; exact h3
  · intro b hb
    rw [hi] at hb
    have := h4 b hb
    unfold St.iterTable at this ⊢
    rw [hv]; exact this
  · rw [hi]; exact h5
  · unfold SrcIn; rw [hi]; exact h6

/-- assigning a variable: the new value is well-formed, and a table under traversal keeps its number of elements -/
theorem Inv.setVar {L : List String} {s : St} (h : Inv L s) (n : String) (v : Val) (hv : okVal v = true)
    (hsz : ∀ b ∈ s.iters, b.src = some n → tableSize v = tableSize (lookupVar s.vars n)) :
    Inv L { s with vars := setVar s.vars n v } := by
  obtain ⟨⟨h1, h2, h3, h4, h5⟩, h6⟩ := h
  refine ⟨⟨?_, h2, h3, ?_, h5⟩, h6⟩
  · intro p hp
    rcases mem_setVar _ _ _ _ hp with rfl | hp
    · exact hv
    · exact h1 p hp
  · intro b hb
    have hb4 := h4 b hb
    unfold St.iterTable at hb4 ⊢
    cases hsrc : b.src with
    | none => rw [hsrc] at hb4; exact hb4
    | some t =>
      rw [hsrc] at hb4
      show b.idx < tableSize (lookupVar (BlocV.setVar s.vars n v) t)
      by_cases e : n = t
      · subst e
        rw [lookup_setVar, hsz b hb hsrc]; exact hb4
      · rw [lookup_setVar_ne _ _ _ _ e]; exact hb4

theorem Inv.setVar_unlocked {L : List String} {s : St} (h : Inv L s) (n : String) (v : Val) (hv : okVal v = true) (hn : n ∉ L) :
    Inv L { s with vars := BlocV.setVar s.vars n v } :=
  h.setVar n v hv (fun b hb hs => absurd (h.2 b hb n hs) hn)

theorem not_mem_of_contains {L : List String} {n : String} (h : (!L.contains n) = true) : n ∉ L := by
  simpa using h

/-! ## reading -/

theorem forallElem_nhr (tbl : Val) (i : Nat) (ht : okVal tbl = true) (hi : i < tableSize tbl) : NHR bad okV (forallElem tbl i) := by
  unfold forallElem
  split
  · rename_i t d es
    simp only [okVal_tab, Bool.and_eq_true] at ht
    split
    · exact NHR.ok (okVals_getElem? _ _ _ ht.2 ‹_›)
    · rename_i hn
      rw [List.getElem?_eq_none_iff] at hn
      simp [tableSize] at hi; omega
  · exact NHR.err

theorem okVal_iterTable {s : St} (h : WfSt s) (b : Iter) (hb : b ∈ s.iters) : okVal (s.iterTable b) = true := by
  unfold St.iterTable
  split
  · exact okVal_lookupVar h _
  · exact h.priv b hb

theorem readVar_nhr {L : List String} {s : St} (h : Inv L s) (n : String) : NHR bad okV (readVar s n) := by
  unfold readVar
  split
  · rename_i b hf
    have hb := List.mem_of_find?_eq_some hf
    exact forallElem_nhr _ _ (okVal_iterTable h.1 b hb) (h.1.idx b hb)
  · exact NHR.ok (okVal_lookupVar h.1 n)

theorem forallStep_nhr (tbl : Val) (i : Nat) (v : Val) (ht : okVal tbl = true) (hv : okVal v = true) (hi : i < tableSize tbl) :
    NHR bad (fun t' => okVal t' = true ∧ tableSize t' = tableSize tbl) (forallStep tbl i v) := by
  unfold forallStep
  split
  · rename_i t d es
    simp only [okVal_tab, Bool.and_eq_true] at ht
    split
    · split
      · exact NHR.err
      · refine NHR.ok ⟨?_, ?_⟩
        · simp only [okVal_tab, Bool.and_eq_true]
          exact ⟨ht.1, okVals_listPut _ _ _ ht.2 hv⟩
        · have hlt : i < es.length := by simpa [tableSize] using hi
          simp [tableSize, listPut_eq_set es i v hlt]
    · rename_i hn
      rw [List.getElem?_eq_none_iff] at hn
      simp [tableSize] at hi; omega
  · exact NHR.err

theorem errorTuple_nhr (r : LastErr) : NHR bad okV (errorTuple r) := by
  unfold errorTuple
  have : (errWhat r).isHazard = false := by unfold errWhat; repeat' split
                                            all_goals rfl
  split
  · exact NHR.ok (by simp [okV, okVal_tup, errDecl])
  · exact NHR.err
  · rename_i e; rw [e] at this; cases this
  · exact NHR.unm

theorem printVal_nh (v : Val) : (printVal v).isHazard = false := by
  unfold printVal; repeat' split
  all_goals rfl

theorem condTaken_nh (v : Val) (hv : okVal v = true) : (condTaken v).isHazard = false := by
  unfold condTaken
  split
  · rfl
  · rename_i hn
    exact asBool_no_hazard (tabOk_of_okVal hv) (nn_of_not hn)

theorem okVal_of_fresh {v : Val} (h : v.fresh = true) : okVal v = true := by
  cases v <;> simp_all [Val.fresh]

theorem evalUn_nhr (op : UnOp) (a : Val) (ha : okVal a = true) : NHR bad okV (evalUn op a) := by
  refine NHR.mk' (evalUn_no_hazard_all op a) (fun v hv => ?_)
  rcases evalUn_prov op a v hv with rfl | h
  · exact ha
  · exact okVal_of_fresh h

theorem evalBin_nh_all (op : BinOp) (a b : Val) (same : Bool) (ha : a.tabOk = true) (hb : b.tabOk = true) :
    (evalBin op a b same).isHazard = false := by
  cases op
  case add => exact opAdd_no_hazard a b ha hb
  case sub => exact arith_no_hazard Ty.num (fun x y => .ok (Num.isub x y)) (fun x y => .ok (Num.fsub x y)) true a b (fun _ _ => rfl) (fun _ _ => rfl) ha hb
  case mul => exact arith_no_hazard Ty.num (fun x y => .ok (Num.imul x y)) (fun x y => .ok (Num.fmul x y)) true a b (fun _ _ => rfl) (fun _ _ => rfl) ha hb
  case div => exact arith_no_hazard Ty.num Num.idiv fdivChecked true a b idiv_no_hazard fdivChecked_no_hazard ha hb
  case exp => exact arith_no_hazard Ty.num Num.ipow (fun x y => .ok (Num.fpow x y)) true a b ipow_no_hazard (fun _ _ => rfl) ha hb
  case mod => exact arith_no_hazard Ty.none Num.imod fmodChecked false a b imod_no_hazard fmodChecked_no_hazard ha hb
  case and => exact bitwise_no_hazard _ a b ha hb
  case ior => exact bitwise_no_hazard _ a b ha hb
  case xor => exact bitwise_no_hazard _ a b ha hb
  case pop => exact bitwise_no_hazard _ a b ha hb
  case pus => exact bitwise_no_hazard _ a b ha hb
  case eq => rcases opEq_total same a b with ⟨v, h, _⟩ | h <;> simp only [evalBin, h] <;> rfl
  case ne => rcases opNe_total same a b with ⟨v, h, _⟩ | h <;> simp only [evalBin, h] <;> rfl
  case lt => exact ordered_no_hazard _ _ _ a b ha hb
  case le => exact ordered_no_hazard _ _ _ a b ha hb
  case gt => exact ordered_no_hazard _ _ _ a b ha hb
  case ge => exact ordered_no_hazard _ _ _ a b ha hb
  case band => exact opBand_no_hazard a (fun _ => .ok b) rfl
  case bior => exact opBior_no_hazard a (fun _ => .ok b) rfl
  case bxor => exact opBxor_no_hazard a b

theorem evalBin_nhr (op : BinOp) (a b : Val) (same : Bool) (ha : okVal a = true) (hb : okVal b = true) : NHR bad okV (evalBin op a b same) := by
  refine NHR.mk' (evalBin_nh_all op a b same (tabOk_of_okVal ha) (tabOk_of_okVal hb)) (fun v hv => ?_)
  rcases evalBin_prov op a b same v hv with rfl | rfl | rfl | h
  · exact ha
  · exact hb
  · exact okVal_null _
  · exact okVal_of_fresh h
end BlocV.NHI
