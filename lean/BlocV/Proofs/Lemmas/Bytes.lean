/-
  Helper lemmas for C10: the `Res` monad for `simp`, `Int64` index arithmetic of the substr family
  against Spec/Text.lean, normal forms of the built-ins of Model/Builtins.lean instantiated at `m := Res`.
  (Helper lemmas only — the property theorems are in BlocV/Proofs/C10.lean.)
-/
import BlocV.Model.Builtins
import BlocV.Spec.Text
namespace BlocV.Lemmas
open BlocV

/-! ### the `Res` monad, for `simp` -/
@[simp] theorem Res.ok_bind {α β} (a : α) (f : α → Res β) : (Res.ok a >>= f) = f a := rfl
@[simp] theorem Res.err_bind {α β} (c : Nat) (x : Bytes) (f : α → Res β) : (Res.err c x >>= f) = .err c x := rfl
@[simp] theorem Res.haz_bind {α β} (h : Hazard) (f : α → Res β) : (Res.haz h >>= f) = .haz h := rfl
@[simp] theorem Res.unm_bind {α β} (f : α → Res β) : (Res.unmodelled >>= f) = .unmodelled := rfl
@[simp] theorem Res.pure_eq {α} (a : α) : (pure a : Res α) = .ok a := rfl
@[simp] theorem Res.monadLift_eq {α} (r : Res α) : (monadLift r : Res α) = r := rfl
@[simp] theorem Res.liftM_eq {α} (r : Res α) : (liftM r : Res α) = r := rfl
@[simp] theorem liftR_res {α} (r : Res α) : liftR (m := Res) r = r := rfl
@[simp] theorem argTypeErr_res {α} : (argTypeErr (m := Res) : Res α) = .err Gen.EXC_RT_FUNC_ARG_TYPE_S := rfl
@[simp] theorem rerr_res {α} (c : Nat) : (rerr (m := Res) c : Res α) = .err c := rfl

/-! ### `Int64` index arithmetic -/

theorem lenI_toInt (s : Bytes) (h : s.length < 2 ^ 63) : (lenI s).toInt = s.length :=
  Int64.toInt_ofNat_of_lt h

theorem lenI_eq_zero (s : Bytes) (h : s.length < 2 ^ 63) : (lenI s == 0) = s.isEmpty := by
  have h1 := lenI_toInt s h
  cases s with
  | nil => rfl
  | cons a l =>
    have : lenI (a :: l) ≠ 0 := by
      intro e; rw [e] at h1; simp at h1; omega
    simpa using this

theorem imin_toInt (a b : Int64) : (imin a b).toInt = min a.toInt b.toInt := by
  unfold imin
  split <;> rename_i h <;> rw [Int64.lt_iff_toInt_lt] at h <;> omega

theorem imax_toInt (a b : Int64) : (imax a b).toInt = max a.toInt b.toInt := by
  unfold imax
  split <;> rename_i h <;> rw [Int64.lt_iff_toInt_lt] at h <;> omega

theorem sadd_eq (a b : Int64) : sadd a b =
    if -2 ^ 63 ≤ a.toInt + b.toInt ∧ a.toInt + b.toInt < 2 ^ 63 then .ok (a + b) else .haz .signedOverflow := rfl
theorem ssub_eq (a b : Int64) : ssub a b =
    if -2 ^ 63 ≤ a.toInt - b.toInt ∧ a.toInt - b.toInt < 2 ^ 63 then .ok (a - b) else .haz .signedOverflow := rfl

theorem toInt_add_of_range (a b : Int64) (h : -2 ^ 63 ≤ a.toInt + b.toInt ∧ a.toInt + b.toInt < 2 ^ 63) :
    (a + b).toInt = a.toInt + b.toInt := by
  rw [Int64.toInt_add, Int.bmod_eq_of_le] <;> omega
theorem toInt_sub_of_range (a b : Int64) (h : -2 ^ 63 ≤ a.toInt - b.toInt ∧ a.toInt - b.toInt < 2 ^ 63) :
    (a - b).toInt = a.toInt - b.toInt := by
  rw [Int64.toInt_sub, Int.bmod_eq_of_le] <;> omega

theorem lt_zero_iff (a : Int64) : a < 0 ↔ a.toInt < 0 := Int64.lt_iff_toInt_lt
theorem zero_lt_iff (a : Int64) : 0 < a ↔ 0 < a.toInt := Int64.lt_iff_toInt_lt
theorem zero_le_iff (a : Int64) : 0 ≤ a ↔ 0 ≤ a.toInt := Int64.le_iff_toInt_le

/-- The arithmetic tail of `substr`/`subraw` once string, position and count are in hand (`c ≠ 0`). -/
def substrTail (s : Bytes) (a0 b0 : Int64) : Res Bytes :=
  substrRange (lenI s) a0 b0 >>= fun ab =>
  if ab.1 ≥ 0 && ab.2 > 0 then .ok (sliceBytes s ab.1 ab.2) else .ok []

/-- The signed index arithmetic of builtin_substr.cpp never overflows (for a length `c ≥ 0`, as every
`size()` stored into an `int64_t` is) and computes, on mathematical integers: the adjusted position
`A = a0 < 0 ? a0 + c : a0` and the count `A < 0 ? 0 : max(min(b, c − A), 0)` — for ALL `a0`, `b`,
INT64_MIN included (the guard `a < 0 ? 0 : …` of commit e2c4824 keeps `c - a` from being computed). -/
theorem substrRange_spec (c a0 b : Int64) (hc : 0 ≤ c.toInt) :
    ∃ a b', substrRange c a0 b = .ok (a, b') ∧
      a.toInt = (if a0.toInt < 0 then a0.toInt + c.toInt else a0.toInt) ∧
      b'.toInt = (if a.toInt < 0 then 0 else max (min b.toInt (c.toInt - a.toInt)) 0) := by
  have hc2 := Int64.toInt_lt c
  have ha1 := Int64.le_toInt a0
  have ha2 := Int64.toInt_lt a0
  unfold substrRange
  by_cases hneg : a0 < 0
  · have hn := (lt_zero_iff a0).mp hneg
    have hr : -2 ^ 63 ≤ a0.toInt + c.toInt ∧ a0.toInt + c.toInt < 2 ^ 63 := by omega
    have hat := toInt_add_of_range _ _ hr
    simp only [hneg, if_true, sadd_eq, hr, and_self, Res.ok_bind]
    by_cases hneg2 : a0 + c < 0
    · have hn2 := (lt_zero_iff _).mp hneg2
      refine ⟨a0 + c, 0, by simp only [hneg2, if_true, Res.pure_eq], by rw [hat, if_pos hn], ?_⟩
      rw [if_pos hn2]; rfl
    · have hn2 : ¬ (a0 + c).toInt < 0 := fun h => hneg2 ((lt_zero_iff _).mpr h)
      have hr2 : -2 ^ 63 ≤ c.toInt - (a0 + c).toInt ∧ c.toInt - (a0 + c).toInt < 2 ^ 63 := by
        rw [hat]; omega
      have hdt := toInt_sub_of_range _ _ hr2
      refine ⟨a0 + c, imax (imin b (c - (a0 + c))) 0,
        by simp only [hneg2, if_false, ssub_eq, hr2, and_self, if_true, Res.ok_bind, Res.pure_eq],
        by rw [hat, if_pos hn], ?_⟩
      rw [if_neg hn2, imax_toInt, imin_toInt, hdt]; rfl
  · have hn : ¬ a0.toInt < 0 := fun h => hneg ((lt_zero_iff a0).mpr h)
    have hr2 : -2 ^ 63 ≤ c.toInt - a0.toInt ∧ c.toInt - a0.toInt < 2 ^ 63 := by omega
    have hdt := toInt_sub_of_range _ _ hr2
    refine ⟨a0, imax (imin b (c - a0)) 0,
      by simp only [hneg, if_false, Res.ok_bind, Res.pure_eq, ssub_eq, hr2, and_self, if_true],
      by rw [if_neg hn], ?_⟩
    rw [if_neg hn, imax_toInt, imin_toInt, hdt]; rfl

theorem slice_spec (s : Bytes) (a b' : Int64) (A N : Int) (hA : a.toInt = A) (hb : b'.toInt = N) :
    (if (decide (a ≥ 0) && decide (b' > 0)) = true then Res.ok (sliceBytes s a b') else Res.ok []) =
      Res.ok (if 0 ≤ A then (s.drop A.toNat).take N.toNat else []) := by
  have e1 : (a ≥ 0) ↔ 0 ≤ A := by rw [← hA]; exact zero_le_iff a
  have e2 : (b' > 0) ↔ 0 < N := by rw [← hb]; exact zero_lt_iff _
  simp only [Bool.and_eq_true, decide_eq_true_eq, e1, e2]
  by_cases h1 : 0 ≤ A
  · by_cases h2 : 0 < N
    · simp only [h1, h2, and_self, if_true, sliceBytes, Int64.toNatClampNeg, hA, hb]
    · have : N.toNat = 0 := by omega
      simp [h1, h2, this]
  · simp [h1]

/-- The index arithmetic of `substr` is exactly the specification, for every string of representable
length and ALL positions and counts (negative, oversized, INT64_MIN, INT64_MAX): no exclusion. -/
theorem substrTail_spec (s : Bytes) (hlen : s.length < 2 ^ 63) (a0 b0 : Int64) :
    substrTail s a0 b0 = .ok (Spec.Text.substr s a0.toInt (some b0.toInt)) := by
  have hc := lenI_toInt s hlen
  obtain ⟨a, b', he, hA, hB⟩ := substrRange_spec (lenI s) a0 b0 (by rw [hc]; omega)
  unfold substrTail
  rw [he, Res.ok_bind]
  simp only []
  rw [slice_spec s a b' _ _ hA hB]
  rw [hA, hc]
  unfold Spec.Text.substr
  simp only [Option.getD_some]
  by_cases hn : a0.toInt < 0
  · simp only [hn, if_true]
    by_cases h2 : a0.toInt + (s.length : Int) < 0
    · have : ¬ (0 ≤ a0.toInt + (s.length : Int)) := by omega
      simp [this]
    · simp [h2]
  · simp only [hn, if_false]

theorem substrTail_bind (mk : Bytes → Val) (s : Bytes) (a0 b0 : Int64) :
    (substrTail s a0 b0 >>= fun r => Res.ok (mk r)) =
      (substrRange (lenI s) a0 b0 >>= fun ab =>
        if (decide (ab.1 ≥ 0) && decide (ab.2 > 0)) = true then Res.ok (mk (sliceBytes s ab.1 ab.2))
        else Res.ok (mk [])) := by
  unfold substrTail
  cases substrRange (lenI s) a0 b0 with
  | ok ab => simp only [Res.ok_bind]; split <;> rfl
  | _ => rfl

/-- `substrLike` in `Res` on three evaluated arguments, in normal form. -/
theorem substrLike_res3 (major : Major) (nullTy : Ty) (get : Val → Res Bytes) (mk : Bytes → Val) (v0 v1 v2 : Val)
    (rest : List (Res Val)) :
    substrLike (m := Res) major nullTy get mk (.ok v0 :: .ok v1 :: .ok v2 :: rest) =
      if v0.type.major == .none then .ok (.null nullTy)
      else if v0.type.major != major then .err Gen.EXC_RT_FUNC_ARG_TYPE_S
      else readPos v1 >>= fun p1 => match p1 with
        | .retVal => .ok v0
        | .pos a0 => if v0.isNull then .ok v0 else
          get v0 >>= fun s => readPos v2 >>= fun p2 => match p2 with
            | .retVal => .ok v0
            | .pos b0 => if lenI s == 0 then .ok v0 else substrTail s a0 b0 >>= fun r => .ok (mk r) := by
  simp only [substrLike, Res.ok_bind, Res.pure_eq, argTypeErr_res, Res.liftM_eq, substrTail_bind]
  rfl

theorem substrLike_res2 (major : Major) (nullTy : Ty) (get : Val → Res Bytes) (mk : Bytes → Val) (v0 v1 : Val) :
    substrLike (m := Res) major nullTy get mk [.ok v0, .ok v1] =
      if v0.type.major == .none then .ok (.null nullTy)
      else if v0.type.major != major then .err Gen.EXC_RT_FUNC_ARG_TYPE_S
      else readPos v1 >>= fun p1 => match p1 with
        | .retVal => .ok v0
        | .pos a0 => if v0.isNull then .ok v0 else
          get v0 >>= fun s => if lenI s == 0 then .ok v0 else substrTail s a0 (lenI s) >>= fun r => .ok (mk r) := by
  simp only [substrLike, Res.ok_bind, Res.pure_eq, argTypeErr_res, Res.liftM_eq, substrTail_bind]
  rfl



theorem spec_substr_nil (p : Int) (c : Option Int) : Spec.Text.substr [] p c = [] := by
  unfold Spec.Text.substr; simp

/-- `lsubstr`/`rsubstr` in `Res` on two evaluated arguments, in normal form. -/
theorem lrSubstr_res (left : Bool) (v0 v1 : Val) (rest : List (Res Val)) :
    lrSubstr (m := Res) left (.ok v0 :: .ok v1 :: rest) =
      if v0.type.major == .none then .ok (.null Ty.str)
      else if v0.type.major != .str then .err Gen.EXC_RT_FUNC_ARG_TYPE_S
      else readPos v1 >>= fun p1 => match p1 with
        | .retVal => .ok v0
        | .pos b => if v0.isNull then .ok v0 else
          v0.asStr >>= fun s => if lenI s == 0 then .ok v0 else
            if left then .ok (.str (s.take (imax (imin b (lenI s)) 0).toNatClampNeg))
            else .ok (.str (s.drop (lenI s - imax (imin b (lenI s)) 0).toNatClampNeg)) := by
  simp only [lrSubstr, Res.ok_bind, Res.pure_eq, argTypeErr_res, Res.liftM_eq]
  rfl

theorem clampCount (s : Bytes) (hlen : s.length < 2 ^ 63) (b : Int64) :
    (imax (imin b (lenI s)) 0).toInt = max (min b.toInt s.length) 0 := by
  rw [imax_toInt, imin_toInt, lenI_toInt s hlen]; rfl

theorem ltake_spec (s : Bytes) (hlen : s.length < 2 ^ 63) (b : Int64) :
    s.take (imax (imin b (lenI s)) 0).toNatClampNeg = Spec.Text.lsubstr s b.toInt := by
  unfold Int64.toNatClampNeg Spec.Text.lsubstr
  rw [clampCount s hlen b]
  by_cases h : b.toInt ≤ s.length
  · congr 1; omega
  · rw [List.take_of_length_le (by omega), List.take_of_length_le (by omega)]

theorem rdrop_spec (s : Bytes) (hlen : s.length < 2 ^ 63) (b : Int64) :
    s.drop (lenI s - imax (imin b (lenI s)) 0).toNatClampNeg = Spec.Text.rsubstr s b.toInt := by
  unfold Int64.toNatClampNeg Spec.Text.rsubstr
  have hc := clampCount s hlen b
  have hl := lenI_toInt s hlen
  rw [toInt_sub_of_range _ _ (by omega), hc, hl]
  congr 1; omega

end BlocV.Lemmas
