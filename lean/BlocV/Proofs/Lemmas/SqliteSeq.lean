/-
  C18, sqlite3: histories of calls on a prepared INSERT — the invariant `Ready` over the client's calls `InsCall`
  (Model/Mod/SqliteAbs.lean: their translation to the model's `Op` and to the specification's `Call`), and the one-step refinement lemma `ins_step`.
  The property theorems built on it are in Proofs/C18F.lean (`sqlite_history_refines_spec`, …).
-/
import BlocV.Model.Mod.SqliteAbs

namespace BlocV.Proofs.SqliteSeq
open BlocV.Mod BlocV.Mod.Sqlite BlocV.Mod.SqliteAbs
open BlocV.Spec.Sqlite (Call St Ans)

/-- open connection, table present with rows `rows`, an INSERT prepared whose parameter holds `cur` (any status) -/
def Ready (w : World) (cur : SVal) (rows : List SVal) : Prop :=
  w.h.isOpen = true ∧ w.table = some rows ∧ ∃ s, w.h.stmt = some s ∧ s.kind = .insert ∧ s.binding = cur ∧ s.cursor = []

theorem sqlite_run_cons (w : Sqlite.World) (op : Sqlite.Op) (ops : List Sqlite.Op) :
    Sqlite.run w (op :: ops)
      = ((Sqlite.run (Sqlite.step w op).1 ops).1, (Sqlite.step w op).2 :: (Sqlite.run (Sqlite.step w op).1 ops).2) := rfl

theorem bindArgs_eq (eb : Bool) (old : SVal) (a : List BVal) : bindArgs eb old a = (firstBound eb a).getD old := by
  cases a <;> rfl

theorem okNN_false (nn : Bool) (s : SVal) : okNN nn s = false ↔ (nn = true ∧ s = .null) := by
  cases nn <;> simp [okNN]

theorem okNN_true (nn : Bool) (s : SVal) : okNN nn s = true ↔ ¬ (nn = true ∧ s = .null) := by
  cases nn <;> simp [okNN]

/-- ONE call: the model's step from a `Ready` state is the specification's step — same slot, same rows, same answer — and
    leaves a `Ready` state with the same environment (`notNull`, `emptyBuf`) -/
theorem ins_step (w : World) (cur : SVal) (rows : List SVal) (c : InsCall) (h : Ready w cur rows) :
    let r := BlocV.Spec.Sqlite.step (okNN w.notNull) ⟨cur, rows⟩ (c.toCall w.emptyBuf)
    Ready (Sqlite.step w c.toOp).1 r.1.slot r.1.rows
    ∧ (Sqlite.step w c.toOp).1.notNull = w.notNull ∧ (Sqlite.step w c.toOp).1.emptyBuf = w.emptyBuf
    ∧ c.ans (Sqlite.step w c.toOp).2 = r.2 := by
  obtain ⟨ho, ht, s, hs, hk, hb, hc⟩ := h
  have hca : w.h.cursorActive = false := by simp [Handle.cursorActive, hs, hk]
  cases c with
  | bind a t =>
    simp only [InsCall.toOp, InsCall.toCall, InsCall.ans]
    have e : Sqlite.step w (.bind (some a) t)
        = ({ w with h := { w.h with stmt := some { s with binding := bindArgs w.emptyBuf s.binding a, cursor := [] }, status := .new } },
            .bool true) := by
      simp [Sqlite.step, ho, hs, hk]
    rw [e, bindArgs_eq, hb]
    cases hf : firstBound w.emptyBuf a with
    | none => exact ⟨⟨ho, ht, _, rfl, hk, by simp [BlocV.Spec.Sqlite.step], rfl⟩, rfl, rfl, rfl⟩
    | some v => exact ⟨⟨ho, ht, _, rfl, hk, by simp [BlocV.Spec.Sqlite.step], rfl⟩, rfl, rfl, rfl⟩
  | bindNull t =>
    have e : Sqlite.step w (.bind none t) = (w, .err) := by simp [Sqlite.step, ho]
    simp only [InsCall.toOp, InsCall.toCall, InsCall.ans]
    rw [e]
    exact ⟨⟨ho, ht, s, hs, hk, hb, hc⟩, rfl, rfl, rfl⟩
  | execute =>
    simp only [InsCall.toOp, InsCall.toCall, InsCall.ans, BlocV.Spec.Sqlite.step]
    by_cases hr : w.notNull = true ∧ cur = .null
    · have e : Sqlite.step w .execute = (w, .sqlErr) := by
        simp [Sqlite.step, ho, hs, hk, ht, hb, hr.1, hr.2]
      rw [e, if_neg (by rw [(okNN_false _ _).mpr hr]; simp)]
      exact ⟨⟨ho, ht, s, hs, hk, hb, hc⟩, rfl, rfl, rfl⟩
    · have e : Sqlite.step w .execute
          = ({ w with table := some (rows ++ [s.binding]), h := { w.h with status := .done } }, .bool true) := by
        have : ¬ (w.notNull = true ∧ s.binding = .null) := by rw [hb]; exact hr
        simp [Sqlite.step, ho, hs, hk, ht, this]
      rw [e, if_pos ((okNN_true _ _).mpr hr), hb]
      exact ⟨⟨ho, rfl, s, hs, hk, hb, hc⟩, rfl, rfl, rfl⟩
  | exec a =>
    simp only [InsCall.toOp, InsCall.toCall, InsCall.ans, BlocV.Spec.Sqlite.step]
    have hba : bindArgs w.emptyBuf .null a = (firstBound w.emptyBuf a).getD .null := bindArgs_eq _ _ _
    by_cases hr : w.notNull = true ∧ (firstBound w.emptyBuf a).getD .null = .null
    · have e : Sqlite.step w (.insert (some a)) = (w, .sqlErr) := by
        simp [Sqlite.step, ho, ht, hca, hba, hr.1, hr.2]
      rw [e, if_neg (by rw [(okNN_false _ _).mpr hr]; simp)]
      exact ⟨⟨ho, ht, s, hs, hk, hb, hc⟩, rfl, rfl, rfl⟩
    · have e : Sqlite.step w (.insert (some a))
          = ({ w with table := some (rows ++ [(firstBound w.emptyBuf a).getD .null]) }, .bool true) := by
        simp [Sqlite.step, ho, ht, hca, hba, hr]
      rw [e, if_pos ((okNN_true _ _).mpr hr)]
      exact ⟨⟨ho, rfl, s, hs, hk, hb, hc⟩, rfl, rfl, rfl⟩
  | fetch =>
    have e : Sqlite.step w .fetch = (w, .bool false) := by
      cases hst : w.h.status <;> simp [Sqlite.step, ho, hs, hc, hst]
    simp only [InsCall.toOp, InsCall.toCall, InsCall.ans]
    rw [e]
    exact ⟨⟨ho, ht, s, hs, hk, hb, hc⟩, rfl, rfl, rfl⟩
  | header =>
    have e : (Sqlite.step w .header).1 = w := by
      simp only [Sqlite.step, ho, hs, hk]
      cases w.h.status <;> simp
    simp only [InsCall.toOp, InsCall.toCall, InsCall.ans]
    rw [e]
    exact ⟨⟨ho, ht, s, hs, hk, hb, hc⟩, rfl, rfl, rfl⟩
  | isOpen =>
    simp only [InsCall.toOp, InsCall.toCall, InsCall.ans]
    exact ⟨⟨ho, ht, s, hs, hk, hb, hc⟩, rfl, rfl, rfl⟩
  | queryAll =>
    have e : (Sqlite.step w .queryAll).1 = w := by
      simp only [Sqlite.step, ho, ht]
      cases rows <;> simp
    simp only [InsCall.toOp, InsCall.toCall, InsCall.ans]
    rw [e]
    exact ⟨⟨ho, ht, s, hs, hk, hb, hc⟩, rfl, rfl, rfl⟩
  | queryParam a =>
    have e : (Sqlite.step w (.queryParam a)).1 = w := by
      cases a <;> simp [Sqlite.step, ho]
    simp only [InsCall.toOp, InsCall.toCall, InsCall.ans]
    rw [e]
    exact ⟨⟨ho, ht, s, hs, hk, hb, hc⟩, rfl, rfl, rfl⟩

/-- the specification's rows in closed form: what was there, then `stored` -/
theorem run_rows {α : Type} (ok : α → Bool) : ∀ (cs : List (Call α)) (s : St α),
    (BlocV.Spec.Sqlite.run ok s cs).1.rows = s.rows ++ BlocV.Spec.Sqlite.stored ok s.slot cs := by
  intro cs
  induction cs with
  | nil => intro s; simp [BlocV.Spec.Sqlite.run, BlocV.Spec.Sqlite.stored]
  | cons c cs ih =>
    intro s
    simp only [BlocV.Spec.Sqlite.run]
    rw [ih]
    cases c with
    | bind v => cases v <;> simp [BlocV.Spec.Sqlite.step, BlocV.Spec.Sqlite.stored]
    | execute =>
      simp only [BlocV.Spec.Sqlite.step, BlocV.Spec.Sqlite.stored]
      split <;> simp
    | exec v =>
      simp only [BlocV.Spec.Sqlite.step, BlocV.Spec.Sqlite.stored]
      split <;> simp
    | other => simp [BlocV.Spec.Sqlite.step, BlocV.Spec.Sqlite.stored]

end BlocV.Proofs.SqliteSeq
