/-
  Helper lemmas for `utf8_methods_total` (C18, utf8 half): the representation invariant of `UTF8String`
  (`rawSize` = number of bytes `ToStdString` writes) is kept by every method of the plugin's table.
-/
import BlocV.Proofs.Lemmas.Utf8

set_option linter.unusedVariables false

namespace BlocV.Mod.Utf8

/-- the bytes `ToStdString` writes for a vector of stored values -/
def bytesOf (st : List Nat) : Nat := (st.map uSize).sum

/-- `rawSize` is the size of the text -/
def Inv (s : UStr) : Prop := s.rawSize = bytesOf s.store

theorem bytesOf_nil : bytesOf [] = 0 := rfl

theorem bytesOf_append (a b : List Nat) : bytesOf (a ++ b) = bytesOf a + bytesOf b := by
  simp [bytesOf]

theorem bytesOf_cons (x : Nat) (a : List Nat) : bytesOf (x :: a) = uSize x + bytesOf a := by
  simp [bytesOf]

theorem bytesOf_take_drop (l : List Nat) (k : Nat) : bytesOf (l.take k) + bytesOf (l.drop k) = bytesOf l := by
  rw [← bytesOf_append, List.take_append_drop]

theorem uString_length (u : Nat) : (uString u).length = uSize u := by
  unfold uString uSize
  split
  · rfl
  · split
    · rfl
    · split <;> rfl

theorem flatMap_uString_length (st : List Nat) : (st.flatMap uString).length = bytesOf st := by
  induction st with
  | nil => rfl
  | cons x xs ih => simp [bytesOf_cons, uString_length, ih]

/-- with the invariant `ToStdString` fills its buffer exactly: no overrun -/
theorem toStdString_of_inv (s : UStr) (h : Inv s) : toStdString s = some (s.store.flatMap uString) := by
  unfold toStdString
  simp only []
  rw [if_pos]
  rw [flatMap_uString_length, h]
  exact Nat.le_refl _

theorem inv_empty : Inv {} := rfl

theorem writeByte_inv (s : UStr) (c : UInt8) (h : Inv s) : Inv (writeByte s c) := by
  unfold writeByte
  rcases hs : step s.parser c.toNat with ⟨e, q⟩
  cases e with
  | done u => simp only [Inv, bytesOf_append, bytesOf_cons, bytesOf_nil]; rw [h]; omega
  | cont => exact h
  | error => exact h

theorem foldl_writeByte_inv (bs : List UInt8) : ∀ (s : UStr), Inv s → Inv (bs.foldl writeByte s) := by
  induction bs with
  | nil => intro s h; exact h
  | cons b bs ih => intro s h; exact ih _ (writeByte_inv s b h)

theorem ofBytes_inv (bs : List UInt8) : Inv (ofBytes bs) := foldl_writeByte_inv bs {} inv_empty

theorem appendBytes_inv (s : UStr) (t : List UInt8) (h : Inv s) : Inv (appendBytes s t) := foldl_writeByte_inv t s h

theorem clear_inv (s : UStr) : Inv (clear s) := rfl

theorem insertCp_inv (s : UStr) (pos u : Nat) (h : Inv s) : Inv (insertCp s pos u).2 := by
  unfold insertCp
  split
  · split
    · rename_i v hv
      simp only [Inv, bytesOf_append, bytesOf_cons]
      rw [h, ← bytesOf_take_drop s.store pos]; omega
    · exact h
  · exact h

theorem insertData_inv (data : List Nat) (s : UStr) (pos : Nat) (h : Inv s) : Inv (insertData s pos data).2 := by
  unfold insertData
  split
  · suffices H : ∀ (d : List Nat) (acc : Nat × UStr), Inv acc.2 →
        Inv (d.foldl (fun (acc : Nat × UStr) u =>
          let r := insertCp acc.2 (pos + acc.1) u
          if r.1 then (acc.1 + 1, r.2) else (acc.1, r.2)) acc).2 from H data (0, s) h
    intro d
    induction d with
    | nil => intro acc ha; exact ha
    | cons x xs ih =>
      intro acc ha
      simp only [List.foldl_cons]
      apply ih
      have := insertCp_inv acc.2 (pos + acc.1) x ha
      split <;> exact this
  · exact h

theorem appendCp_inv (s : UStr) (u : Nat) (h : Inv s) : Inv (appendCp s u) := by
  unfold appendCp
  split
  · simp only [Inv, bytesOf_append, bytesOf_cons, bytesOf_nil]; rw [h]; omega
  · exact h

theorem appendData_inv (data : List Nat) : ∀ (s : UStr), Inv s → Inv (appendData s data) := by
  unfold appendData
  induction data with
  | nil => intro s h; exact h
  | cons x xs ih => intro s h; exact ih _ (appendCp_inv s x h)

/-- `rawSize -= bc` does not wrap: the bytes removed are part of the text -/
theorem remove_inv (s : UStr) (pos n : Nat) (h : Inv s) (hb : s.rawSize < 2 ^ 64) : Inv (remove s pos n).2 := by
  unfold remove
  split
  · rename_i hlt
    simp only [Inv, bytesOf_append]
    generalize hk : (if n > s.store.length - pos then s.store.length - pos else n) = k
    have e1 := bytesOf_take_drop s.store pos
    have e2 := bytesOf_take_drop (s.store.drop pos) k
    rw [List.drop_drop] at e2
    rw [h] at hb ⊢
    simp only [bytesOf] at e1 e2 hb ⊢
    omega
  · exact h

theorem remove_bound (s : UStr) (pos n : Nat) (h : Inv s) (hb : s.rawSize < 2 ^ 64) : (remove s pos n).2.rawSize < 2 ^ 64 := by
  unfold remove
  split
  · exact Nat.mod_lt _ (by decide)
  · exact hb

end BlocV.Mod.Utf8
