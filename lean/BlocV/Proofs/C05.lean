/-
  C05 — evaluating an expression changes nothing but its target (value semantics).

  Property theorems only. Model: Model/Store.lean (the storage discipline of the operators: LVAL1/
  LVAL2, temporary pool, `storeVariable`). The theorems are about ALL expressions built from
  constants, variables and the unary/binary operators, ALL stores satisfying the flag invariant.
-/
import BlocV.Model.Store

namespace BlocV.C05
open BlocV

/-- Frame: what evaluation must leave alone. -/
def SameVarsCsts (σ σ' : Store) : Prop := σ'.vars = σ.vars ∧ σ'.csts = σ.csts

theorem flagInv_of_same {σ σ' : Store} (h : FlagInv σ) (e : SameVarsCsts σ σ') : FlagInv σ' := by
  unfold FlagInv at *; rw [e.1, e.2]; exact h

theorem set_frame (σ : Store) (ℓ : Loc) (c : Cell) (h : FlagInv σ) (hl : (σ.get ℓ).lv = false) :
    SameVarsCsts σ (σ.set ℓ c) := by
  cases ℓ with
  | var i =>
    refine ⟨?_, rfl⟩
    unfold Store.set
    simp only
    by_cases hi : i < σ.vars.length
    · exfalso
      have hm : σ.vars[i] ∈ σ.vars := List.getElem_mem hi
      have := h.1 _ hm
      simp [Store.get, List.getD, hi] at hl
      simp_all
    · exact List.set_eq_of_length_le (by omega)
  | cst i =>
    refine ⟨rfl, ?_⟩
    unfold Store.set
    simp only
    by_cases hi : i < σ.csts.length
    · exfalso
      have hm : σ.csts[i] ∈ σ.csts := List.getElem_mem hi
      have := h.2 _ hm
      simp [Store.get, List.getD, hi] at hl
      simp_all
    · exact List.set_eq_of_length_le (by omega)
  | tmp i => exact ⟨rfl, rfl⟩

theorem alloc_frame (σ : Store) (v : Val) : SameVarsCsts σ (alloc σ v).2 := ⟨rfl, rfl⟩

theorem lval1_frame (σ : Store) (v : Val) (a : Loc) (h : FlagInv σ) : SameVarsCsts σ (lval1 σ v a).2 := by
  unfold lval1
  split
  · rename_i hl; exact set_frame σ a _ h (by simpa using hl)
  · exact alloc_frame σ v

theorem lval2_frame (σ : Store) (v : Val) (a b : Loc) (h : FlagInv σ) : SameVarsCsts σ (lval2 σ v a b).2 := by
  unfold lval2
  split
  · rename_i hl; exact set_frame σ a _ h (by simpa using hl)
  · split
    · rename_i _ hl; exact set_frame σ b _ h (by simpa using hl)
    · exact alloc_frame σ v

theorem place_frame (σ : Store) (p : Place) (v : Val) (a b : Loc) (h : FlagInv σ) :
    SameVarsCsts σ (place σ p v a b).2 := by
  cases p
  · exact ⟨rfl, rfl⟩
  · exact ⟨rfl, rfl⟩
  · exact lval1_frame σ v a h
  · exact lval2_frame σ v a b h

theorem same_trans {a b c : Store} (h1 : SameVarsCsts a b) (h2 : SameVarsCsts b c) : SameVarsCsts a c :=
  ⟨h2.1.trans h1.1, h2.2.trans h1.2⟩

/-- **Frame theorem.** Under the flag invariant, evaluating ANY expression (to a value) leaves every
variable slot and every constant cell exactly as it was — value, type and flag — and re-establishes
the invariant; only temporaries are written. -/
theorem eval_frame (e : LExpr) : ∀ (σ σ' : Store) (ℓ : Loc), FlagInv σ → evalL e σ = .ok (ℓ, σ') →
    SameVarsCsts σ σ' ∧ FlagInv σ' := by
  induction e with
  | cst i =>
    intro σ σ' ℓ h he
    simp [evalL] at he
    obtain ⟨_, rfl⟩ := he
    exact ⟨⟨rfl, rfl⟩, h⟩
  | var i =>
    intro σ σ' ℓ h he
    simp [evalL] at he
    obtain ⟨_, rfl⟩ := he
    exact ⟨⟨rfl, rfl⟩, h⟩
  | un op e ih =>
    intro σ σ' ℓ h he
    unfold evalL at he
    cases h1 : evalL e σ with
    | ok p =>
      obtain ⟨ℓ1, σ1⟩ := p
      rw [h1] at he
      dsimp only at he
      obtain ⟨f1, i1⟩ := ih σ σ1 ℓ1 h h1
      cases hv : evalUn op (σ1.get ℓ1).val with
      | ok v =>
        rw [hv] at he
        have e2 : σ' = (place σ1 (unPlace op (σ1.get ℓ1).val) v ℓ1 ℓ1).2 := by
          have := Res.ok.inj he; rw [this]
        subst e2
        have f2 := place_frame σ1 (unPlace op (σ1.get ℓ1).val) v ℓ1 ℓ1 i1
        exact ⟨same_trans f1 f2, flagInv_of_same i1 f2⟩
      | err c a => rw [hv] at he; exact absurd he (by simp)
      | haz x => rw [hv] at he; exact absurd he (by simp)
      | unmodelled => rw [hv] at he; exact absurd he (by simp)
    | err c a => rw [h1] at he; exact absurd he (by simp)
    | haz x => rw [h1] at he; exact absurd he (by simp)
    | unmodelled => rw [h1] at he; exact absurd he (by simp)
  | bin op a b iha ihb =>
    intro σ σ' ℓ h he
    unfold evalL at he
    cases h1 : evalL a σ with
    | ok p =>
      obtain ⟨ℓ1, σ1⟩ := p
      rw [h1] at he
      dsimp only at he
      obtain ⟨f1, i1⟩ := iha σ σ1 ℓ1 h h1
      by_cases hf : (!rightForced op (σ1.get ℓ1).val) = true
      · rw [if_pos hf] at he
        cases hv : evalBin op (σ1.get ℓ1).val (Val.null Ty.none) with
        | ok v =>
          rw [hv] at he
          have e2 : σ' = (lval1 σ1 v ℓ1).2 := by
            have := Res.ok.inj he; rw [this]
          subst e2
          have f2 := lval1_frame σ1 v ℓ1 i1
          exact ⟨same_trans f1 f2, flagInv_of_same i1 f2⟩
        | err c x => rw [hv] at he; exact absurd he (by simp)
        | haz x => rw [hv] at he; exact absurd he (by simp)
        | unmodelled => rw [hv] at he; exact absurd he (by simp)
      · rw [if_neg hf] at he
        cases h2 : evalL b σ1 with
        | ok q =>
          obtain ⟨ℓ2, σ2⟩ := q
          rw [h2] at he
          dsimp only at he
          obtain ⟨f2, i2⟩ := ihb σ1 σ2 ℓ2 i1 h2
          cases hv : evalBin op (σ2.get ℓ1).val (σ2.get ℓ2).val (ℓ1 == ℓ2) with
          | ok v =>
            rw [hv] at he
            have e2 : σ' = (place σ2 (binPlace op (σ2.get ℓ1).val (σ2.get ℓ2).val) v ℓ1 ℓ2).2 := by
              have := Res.ok.inj he; rw [this]
            subst e2
            have f3 := place_frame σ2 (binPlace op (σ2.get ℓ1).val (σ2.get ℓ2).val) v ℓ1 ℓ2 i2
            exact ⟨same_trans (same_trans f1 f2) f3, flagInv_of_same i2 f3⟩
          | err c x => rw [hv] at he; exact absurd he (by simp)
          | haz x => rw [hv] at he; exact absurd he (by simp)
          | unmodelled => rw [hv] at he; exact absurd he (by simp)
        | err c x => rw [h2] at he; exact absurd he (by simp)
        | haz x => rw [h2] at he; exact absurd he (by simp)
        | unmodelled => rw [h2] at he; exact absurd he (by simp)
    | err c a => rw [h1] at he; exact absurd he (by simp)
    | haz x => rw [h1] at he; exact absurd he (by simp)
    | unmodelled => rw [h1] at he; exact absurd he (by simp)

/-- Also when evaluation raises an error nothing but temporaries was written: stated through the
store-returning variant being absent — an error carries no store, so the only observable stores are
those of successful sub-evaluations, which `eval_frame` covers. Corollary used by C04: a constant
cell (e.g. the literal `null`, `true`, `3`) means the same before and after any evaluation. -/
theorem constant_stable (e : LExpr) (σ σ' : Store) (ℓ : Loc) (i : Nat) (h : FlagInv σ)
    (he : evalL e σ = .ok (ℓ, σ')) : σ'.get (.cst i) = σ.get (.cst i) := by
  have := (eval_frame e σ σ' ℓ h he).1.2
  simp [Store.get, this]

theorem variable_stable (e : LExpr) (σ σ' : Store) (ℓ : Loc) (i : Nat) (h : FlagInv σ)
    (he : evalL e σ = .ok (ℓ, σ')) : σ'.get (.var i) = σ.get (.var i) := by
  have := (eval_frame e σ σ' ℓ h he).1.1
  simp [Store.get, this]

/-- Assignment preserves the invariant and copies: after `x_i = e` the slot holds the value of the
result cell with the flag set, every other variable slot and every constant is unchanged. -/
theorem store_preserves (σ : Store) (i : Nat) (ℓ : Loc) (h : FlagInv σ) :
    FlagInv (storeVar σ i ℓ) ∧ (storeVar σ i ℓ).csts = σ.csts ∧
    (∀ j, j ≠ i → (storeVar σ i ℓ).vars.getD j default = σ.vars.getD j default) := by
  have setvar_inv : ∀ (v : Val), FlagInv (σ.set (.var i) { val := v, lv := true }) := by
    intro v
    constructor
    · intro c hc
      simp only [Store.set] at hc
      rcases List.mem_or_eq_of_mem_set hc with hc | hc
      · exact h.1 c hc
      · rw [hc]
    · exact h.2
  have setvar_other : ∀ (v : Val) j, j ≠ i →
      (σ.set (.var i) { val := v, lv := true }).vars.getD j default = σ.vars.getD j default := by
    intro v j hj
    simp [Store.set, List.getD, List.getElem?_set, Ne.symm hj]
  unfold storeVar
  split
  · rename_i hl
    -- ℓ holds a temporary: it is not an in-range variable or constant, also after the first `set`
    have hl1 : ((σ.set (.var i) { val := (σ.get ℓ).val, lv := true }).get ℓ).lv = false := by
      cases ℓ with
      | var k =>
        by_cases hk : k < σ.vars.length
        · exfalso
          have := h.1 _ (List.getElem_mem hk)
          simp [Store.get, List.getD, hk] at hl
          simp_all
        · have hk' : ¬ k < (σ.vars.set i { val := (σ.get (Loc.var k)).val, lv := true }).length := by simpa using hk
          have hnone : ∀ c : Cell, (σ.vars.set i c)[k]? = none := by
            intro c; apply List.getElem?_eq_none; simp; omega
          simp only [Store.get, Store.set, List.getD, hnone]
          rfl
      | cst k => simpa [Store.get, Store.set] using hl
      | tmp k => simpa [Store.get, Store.set] using hl
    have f := set_frame _ ℓ (σ.get (.var i)) (setvar_inv (σ.get ℓ).val) hl1
    refine ⟨flagInv_of_same (setvar_inv _) f, ?_, ?_⟩
    · rw [f.2]; rfl
    · intro j hj
      rw [f.1]
      exact setvar_other _ j hj
  · split
    · exact ⟨h, rfl, fun _ _ => rfl⟩
    · exact ⟨setvar_inv _, rfl, fun j hj => setvar_other _ j hj⟩

/-- Non-vacuity: a store with two variables and the constants `null` and `1` satisfies the invariant,
and `null + x0` evaluates in it. -/
example :
    let σ : Store := { vars := [⟨.int 5, true⟩, ⟨.str [97], true⟩], csts := [⟨.null Ty.none, true⟩, ⟨.int 1, true⟩], pool := [], wm := 0 }
    FlagInv σ ∧ ∃ ℓ σ', evalL (.bin .add (.cst 0) (.var 0)) σ = .ok (ℓ, σ') := by
  refine ⟨⟨by simp, by simp⟩, ?_⟩
  exact ⟨_, _, rfl⟩

/-- The negation witness of the defect repaired by the `fix:` commits (null literal without the
flag): without `FlagInv` the frame fails — `null or true` overwrites the constant cell. -/
example :
    let σ : Store := { vars := [], csts := [⟨.null Ty.none, false⟩, ⟨.bool true, true⟩], pool := [], wm := 0 }
    ∃ ℓ σ', evalL (.bin .bior (.cst 0) (.cst 1)) σ = .ok (ℓ, σ') ∧ (σ'.get (.cst 0)).val == .bool true := by
  exact ⟨_, _, rfl, rfl⟩

end BlocV.C05
