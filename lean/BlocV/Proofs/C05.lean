/-
  C05 — evaluating an expression changes nothing but its target (value semantics).

  Property theorems only. Model: Model/Store.lean (the storage discipline of the operators: LVAL1/
  LVAL2, temporary pool, `storeVariable`). The theorems are about ALL expressions built from
  constants, variables and the unary/binary operators, ALL stores satisfying the flag invariant.
-/
import BlocV.Model.Store
import BlocV.Proofs.Lemmas.Store
import BlocV.Model.StoreX
import BlocV.Proofs.Lemmas.StoreX

namespace BlocV.C05
open BlocV BlocV.Lemmas

/-- Frame: what evaluation must leave alone. -/
def SameVarsCsts (σ σ' : Store) : Prop := σ'.vars = σ.vars ∧ σ'.csts = σ.csts

/-- The invariant only depends on the variable and constant cells. -/
theorem flagInv_of_same {σ σ' : Store} (h : FlagInv σ) (e : SameVarsCsts σ σ') : FlagInv σ' := by
  unfold FlagInv at *; rw [e.1, e.2]; exact h

/-- Writing through a location whose LVALUE flag is clear touches no variable and no constant (under the invariant such a location is a temporary or does not exist). -/
theorem set_frame (σ : Store) (ℓ : Loc) (c : Cell) (h : FlagInv σ) (hl : (σ.get ℓ).lv = false) :
    SameVarsCsts σ (σ.set ℓ c) := by
  cases ℓ with
  | var i =>
    refine ⟨?_, rfl⟩
    unfold Store.set
    simp only
    by_cases hi : i < σ.vars.length
    · exfalso
      have hm : σ.vars[i] ∈ σ.vars := List.getElem_mem hi
      have := h.1 _ hm
      simp [Store.get, List.getD, hi] at hl
      simp_all
    · exact List.set_eq_of_length_le (by omega)
  | cst i =>
    refine ⟨rfl, ?_⟩
    unfold Store.set
    simp only
    by_cases hi : i < σ.csts.length
    · exfalso
      have hm : σ.csts[i] ∈ σ.csts := List.getElem_mem hi
      have := h.2 _ hm
      simp [Store.get, List.getD, hi] at hl
      simp_all
    · exact List.set_eq_of_length_le (by omega)
  | tmp i => exact ⟨rfl, rfl⟩

/-- `Context::allocate` touches only the pool. -/
theorem alloc_frame (σ : Store) (v : Val) : SameVarsCsts σ (alloc σ v).2 := ⟨rfl, rfl⟩

/-- `LVAL1` touches only temporaries. -/
theorem lval1_frame (σ : Store) (v : Val) (a : Loc) (h : FlagInv σ) : SameVarsCsts σ (lval1 σ v a).2 := by
  unfold lval1
  split
  · rename_i hl; exact set_frame σ a _ h (by simpa using hl)
  · exact alloc_frame σ v

/-- `LVAL2` touches only temporaries. -/
theorem lval2_frame (σ : Store) (v : Val) (a b : Loc) (h : FlagInv σ) : SameVarsCsts σ (lval2 σ v a b).2 := by
  unfold lval2
  split
  · rename_i hl; exact set_frame σ a _ h (by simpa using hl)
  · split
    · rename_i _ hl; exact set_frame σ b _ h (by simpa using hl)
    · exact alloc_frame σ v

/-- Every result placement of an operator touches only temporaries. -/
theorem place_frame (σ : Store) (p : Place) (v : Val) (a b : Loc) (h : FlagInv σ) :
    SameVarsCsts σ (place σ p v a b).2 := by
  cases p
  · exact ⟨rfl, rfl⟩
  · exact ⟨rfl, rfl⟩
  · exact lval1_frame σ v a h
  · exact lval2_frame σ v a b h

/-- The frame relation composes. -/
theorem same_trans {a b c : Store} (h1 : SameVarsCsts a b) (h2 : SameVarsCsts b c) : SameVarsCsts a c :=
  ⟨h2.1.trans h1.1, h2.2.trans h1.2⟩

/-- **Frame theorem.** Under the flag invariant, evaluating ANY expression (to a value) leaves every
variable slot and every constant cell exactly as it was — value, type and flag — and re-establishes
the invariant; only temporaries are written. -/
theorem eval_frame (e : LExpr) : ∀ (σ σ' : Store) (ℓ : Loc), FlagInv σ → evalL e σ = .ok (ℓ, σ') →
    SameVarsCsts σ σ' ∧ FlagInv σ' := by
  induction e with
  | cst i =>
    intro σ σ' ℓ h he
    simp [evalL] at he
    obtain ⟨_, rfl⟩ := he
    exact ⟨⟨rfl, rfl⟩, h⟩
  | var i =>
    intro σ σ' ℓ h he
    simp [evalL] at he
    obtain ⟨_, rfl⟩ := he
    exact ⟨⟨rfl, rfl⟩, h⟩
  | un op e ih =>
    intro σ σ' ℓ h he
    unfold evalL at he
    cases h1 : evalL e σ with
    | ok p =>
      obtain ⟨ℓ1, σ1⟩ := p
      rw [h1] at he
      dsimp only at he
      obtain ⟨f1, i1⟩ := ih σ σ1 ℓ1 h h1
      cases hv : evalUn op (σ1.get ℓ1).val with
      | ok v =>
        rw [hv] at he
        have e2 : σ' = (place σ1 (unPlace op (σ1.get ℓ1).val) v ℓ1 ℓ1).2 := by
          have := Res.ok.inj he; rw [this]
        subst e2
        have f2 := place_frame σ1 (unPlace op (σ1.get ℓ1).val) v ℓ1 ℓ1 i1
        exact ⟨same_trans f1 f2, flagInv_of_same i1 f2⟩
      | err c a => rw [hv] at he; exact absurd he (by simp)
      | haz x => rw [hv] at he; exact absurd he (by simp)
      | unmodelled => rw [hv] at he; exact absurd he (by simp)
    | err c a => rw [h1] at he; exact absurd he (by simp)
    | haz x => rw [h1] at he; exact absurd he (by simp)
    | unmodelled => rw [h1] at he; exact absurd he (by simp)
  | bin op a b iha ihb =>
    intro σ σ' ℓ h he
    unfold evalL at he
    cases h1 : evalL a σ with
    | ok p =>
      obtain ⟨ℓ1, σ1⟩ := p
      rw [h1] at he
      dsimp only at he
      obtain ⟨f1, i1⟩ := iha σ σ1 ℓ1 h h1
      by_cases hf : (!rightForced op (σ1.get ℓ1).val) = true
      · rw [if_pos hf] at he
        cases hv : evalBin op (σ1.get ℓ1).val (Val.null Ty.none) with
        | ok v =>
          rw [hv] at he
          have e2 : σ' = (lval1 σ1 v ℓ1).2 := by
            have := Res.ok.inj he; rw [this]
          subst e2
          have f2 := lval1_frame σ1 v ℓ1 i1
          exact ⟨same_trans f1 f2, flagInv_of_same i1 f2⟩
        | err c x => rw [hv] at he; exact absurd he (by simp)
        | haz x => rw [hv] at he; exact absurd he (by simp)
        | unmodelled => rw [hv] at he; exact absurd he (by simp)
      · rw [if_neg hf] at he
        cases h2 : evalL b σ1 with
        | ok q =>
          obtain ⟨ℓ2, σ2⟩ := q
          rw [h2] at he
          dsimp only at he
          obtain ⟨f2, i2⟩ := ihb σ1 σ2 ℓ2 i1 h2
          cases hv : evalBin op (σ2.get ℓ1).val (σ2.get ℓ2).val (ℓ1 == ℓ2) with
          | ok v =>
            rw [hv] at he
            have e2 : σ' = (place σ2 (binPlace op (σ2.get ℓ1).val (σ2.get ℓ2).val) v ℓ1 ℓ2).2 := by
              have := Res.ok.inj he; rw [this]
            subst e2
            have f3 := place_frame σ2 (binPlace op (σ2.get ℓ1).val (σ2.get ℓ2).val) v ℓ1 ℓ2 i2
            exact ⟨same_trans (same_trans f1 f2) f3, flagInv_of_same i2 f3⟩
          | err c x => rw [hv] at he; exact absurd he (by simp)
          | haz x => rw [hv] at he; exact absurd he (by simp)
          | unmodelled => rw [hv] at he; exact absurd he (by simp)
        | err c x => rw [h2] at he; exact absurd he (by simp)
        | haz x => rw [h2] at he; exact absurd he (by simp)
        | unmodelled => rw [h2] at he; exact absurd he (by simp)
    | err c a => rw [h1] at he; exact absurd he (by simp)
    | haz x => rw [h1] at he; exact absurd he (by simp)
    | unmodelled => rw [h1] at he; exact absurd he (by simp)

/-- Also when evaluation raises an error nothing but temporaries was written: stated through the
store-returning variant being absent — an error carries no store, so the only observable stores are
those of successful sub-evaluations, which `eval_frame` covers. Corollary used by C04: a constant
cell (e.g. the literal `null`, `true`, `3`) means the same before and after any evaluation. -/
theorem constant_stable (e : LExpr) (σ σ' : Store) (ℓ : Loc) (i : Nat) (h : FlagInv σ)
    (he : evalL e σ = .ok (ℓ, σ')) : σ'.get (.cst i) = σ.get (.cst i) := by
  have := (eval_frame e σ σ' ℓ h he).1.2
  simp [Store.get, this]

/-- Corollary of the frame theorem: every variable slot reads the same before and after any successful evaluation. -/
theorem variable_stable (e : LExpr) (σ σ' : Store) (ℓ : Loc) (i : Nat) (h : FlagInv σ)
    (he : evalL e σ = .ok (ℓ, σ')) : σ'.get (.var i) = σ.get (.var i) := by
  have := (eval_frame e σ σ' ℓ h he).1.1
  simp [Store.get, this]

/-- Assignment preserves the invariant and copies: after `x_i = e` the slot holds the value of the
result cell with the flag set, every other variable slot and every constant is unchanged. -/
theorem store_preserves (σ : Store) (i : Nat) (ℓ : Loc) (h : FlagInv σ) :
    FlagInv (storeVar σ i ℓ) ∧ (storeVar σ i ℓ).csts = σ.csts ∧
    (∀ j, j ≠ i → (storeVar σ i ℓ).vars.getD j default = σ.vars.getD j default) := by
  have setvar_inv : ∀ (v : Val), FlagInv (σ.set (.var i) { val := v, lv := true }) := by
    intro v
    constructor
    · intro c hc
      simp only [Store.set] at hc
      rcases List.mem_or_eq_of_mem_set hc with hc | hc
      · exact h.1 c hc
      · rw [hc]
    · exact h.2
  have setvar_other : ∀ (v : Val) j, j ≠ i →
      (σ.set (.var i) { val := v, lv := true }).vars.getD j default = σ.vars.getD j default := by
    intro v j hj
    simp [Store.set, List.getD, Ne.symm hj]
  unfold storeVar
  split
  · rename_i hl
    -- ℓ holds a temporary: it is not an in-range variable or constant, also after the first `set`
    have hl1 : ((σ.set (.var i) { val := (σ.get ℓ).val, lv := true }).get ℓ).lv = false := by
      cases ℓ with
      | var k =>
        by_cases hk : k < σ.vars.length
        · exfalso
          have := h.1 _ (List.getElem_mem hk)
          simp [Store.get, List.getD, hk] at hl
          simp_all
        · have hk' : ¬ k < (σ.vars.set i { val := (σ.get (Loc.var k)).val, lv := true }).length := by simpa using hk
          have hnone : ∀ c : Cell, (σ.vars.set i c)[k]? = none := by
            intro c; apply List.getElem?_eq_none; simp; omega
          simp only [Store.get, Store.set, List.getD, hnone]
          rfl
      | cst k => simpa [Store.get, Store.set] using hl
      | tmp k => simpa [Store.get, Store.set] using hl
    have f := set_frame _ ℓ (σ.get (.var i)) (setvar_inv (σ.get ℓ).val) hl1
    refine ⟨flagInv_of_same (setvar_inv _) f, ?_, ?_⟩
    · rw [f.2]; rfl
    · intro j hj
      rw [f.1]
      exact setvar_other _ j hj
  · split
    · exact ⟨h, rfl, fun _ _ => rfl⟩
    · exact ⟨setvar_inv _, rfl, fun j hj => setvar_other _ j hj⟩

/-- Non-vacuity: a store with two variables and the constants `null` and `1` satisfies the invariant,
and `null + x0` evaluates in it. -/
example :
    let σ : Store := { vars := [⟨.int 5, true⟩, ⟨.str [97], true⟩], csts := [⟨.null Ty.none, true⟩, ⟨.int 1, true⟩], pool := [], wm := 0 }
    FlagInv σ ∧ ∃ ℓ σ', evalL (.bin .add (.cst 0) (.var 0)) σ = .ok (ℓ, σ') := by
  refine ⟨⟨by simp, by simp⟩, ?_⟩
  exact ⟨_, _, rfl⟩

/-- The negation witness of the defect repaired by the `fix:` commits (null literal without the
flag): without `FlagInv` the frame fails — `null or true` overwrites the constant cell. -/
example :
    let σ : Store := { vars := [], csts := [⟨.null Ty.none, false⟩, ⟨.bool true, true⟩], pool := [], wm := 0 }
    ∃ ℓ σ', evalL (.bin .bior (.cst 0) (.cst 1)) σ = .ok (ℓ, σ') ∧ (σ'.get (.cst 0)).val == .bool true := by
  exact ⟨_, _, rfl, rfl⟩

/-! ### Refinement: storage-level evaluation computes the value-level result -/

/-- The value-level semantics, tracking in addition *which named cell* a result is (`some (.var i)`,
`some (.cst i)`) or that it is a fresh value (`none`). This is `LExpr.pure` (Model/Store.lean) plus the one
thing a BLOC program can observe of storage: `==`/`!=` on tables and tuples compare *addresses*
(op_eq.cpp `a1.collection() == a2.collection()`), so `t == t` is true while two equal-looking tables differ.
Identity propagates through the operators that return an operand reference (`+x`, `-null`, `null + s`, …:
`Lemmas.placeId`). Nothing here mentions the pool, the watermark or the LVALUE flag. -/
def pureI (vars csts : List Val) : LExpr → Res (Val × Option Loc)
  | .cst i => .ok (csts.getD i (.null Ty.none), some (.cst i))
  | .var i => .ok (vars.getD i (.null Ty.none), some (.var i))
  | .un op e =>
    match pureI vars csts e with
    | .ok (v, i) =>
      (match evalUn op v with
       | .ok r => .ok (r, placeId (unPlace op v) i i)
       | .err c a => .err c a
       | .haz h => .haz h
       | .unmodelled => .unmodelled)
    | .err c a => .err c a
    | .haz h => .haz h
    | .unmodelled => .unmodelled
  | .bin op a b =>
    match pureI vars csts a with
    | .ok (v1, i1) =>
      if !rightForced op v1 then
        (match evalBin op v1 (.null Ty.none) with
         | .ok r => .ok (r, none)
         | .err c x => .err c x
         | .haz h => .haz h
         | .unmodelled => .unmodelled)
      else
        (match pureI vars csts b with
         | .ok (v2, i2) =>
           (match evalBin op v1 v2 (sameCell i1 i2) with
            | .ok r => .ok (r, placeId (binPlace op v1 v2) i1 i2)
            | .err c x => .err c x
            | .haz h => .haz h
            | .unmodelled => .unmodelled)
         | .err c x => .err c x
         | .haz h => .haz h
         | .unmodelled => .unmodelled)
    | .err c a => .err c a
    | .haz h => .haz h
    | .unmodelled => .unmodelled

/-- Every variable / constant index of the expression exists. -/
def WfIdx (nv nc : Nat) : LExpr → Prop
  | .cst i => i < nc
  | .var i => i < nv
  | .un _ e => WfIdx nv nc e
  | .bin _ a b => WfIdx nv nc a ∧ WfIdx nv nc b

instance WfIdx.dec (nv nc : Nat) : (e : LExpr) → Decidable (WfIdx nv nc e)
  | .cst i => inferInstanceAs (Decidable (i < nc))
  | .var i => inferInstanceAs (Decidable (i < nv))
  | .un _ e => WfIdx.dec nv nc e
  | .bin _ a b => @instDecidableAnd _ _ (WfIdx.dec nv nc a) (WfIdx.dec nv nc b)

/-- What is observable of a storage-level outcome: the value in the result cell and which named cell it is. -/
def absRes : Res (Loc × Store) → Res (Val × Option Loc)
  | .ok (ℓ, σ') => .ok ((σ'.get ℓ).val, cellId ℓ)
  | .err c a => .err c a
  | .haz h => .haz h
  | .unmodelled => .unmodelled

def vals (l : List Cell) : List Val := l.map (·.val)


/-- Invariants of one evaluation, the induction behind `eval_refines`. -/
theorem eval_refines_aux (e : LExpr) : ∀ (σ : Store), FlagInv σ → WfIdx σ.vars.length σ.csts.length e →
    absRes (evalL e σ) = pureI (vals σ.vars) (vals σ.csts) e ∧
    ∀ ℓ σ', evalL e σ = .ok (ℓ, σ') → Ext σ.wm σ σ' ∧ LocOK σ.wm σ' ℓ := by
  induction e with
  | cst i =>
    intro σ hinv hwf
    refine ⟨?_, ?_⟩
    · simp only [evalL, absRes, pureI, cellId, vals]; rw [cst_val]
    · intro ℓ σ' he
      simp only [evalL] at he
      cases he
      exact ⟨Ext.refl _ _, hwf⟩
  | var i =>
    intro σ hinv hwf
    refine ⟨?_, ?_⟩
    · simp only [evalL, absRes, pureI, cellId, vals]; rw [var_val]
    · intro ℓ σ' he
      simp only [evalL] at he
      cases he
      exact ⟨Ext.refl _ _, hwf⟩
  | un op e ih =>
    intro σ hinv hwf
    obtain ⟨ihr, ihx⟩ := ih σ hinv hwf
    unfold evalL pureI
    rw [← ihr]
    cases h1 : evalL e σ with
    | ok p =>
      obtain ⟨ℓ1, σ1⟩ := p
      obtain ⟨x1, k1⟩ := ihx ℓ1 σ1 h1
      have inv1 := x1.flagInv hinv
      simp only [absRes]
      cases hv : evalUn op (σ1.get ℓ1).val with
      | ok v =>
        obtain ⟨px, pk, _⟩ := place_ok σ.wm σ1 (unPlace op (σ1.get ℓ1).val) v ℓ1 ℓ1 inv1 x1.wm k1 k1
        refine ⟨?_, ?_⟩
        · dsimp only [absRes]
          rw [place_abs σ.wm σ1 _ v ℓ1 ℓ1 inv1 x1.wm k1 k1
            (fun hp => unPlace_ret op _ v (Or.inl hp) hv) (fun hp => unPlace_ret op _ v (Or.inr hp) hv)]
        · intro ℓ σ' he
          obtain ⟨rfl, rfl⟩ := ok_pair he
          exact ⟨x1.trans px, pk⟩
      | err c a => exact ⟨rfl, fun _ _ he => by cases he⟩
      | haz x => exact ⟨rfl, fun _ _ he => by cases he⟩
      | unmodelled => exact ⟨rfl, fun _ _ he => by cases he⟩
    | err c a => exact ⟨rfl, fun _ _ he => by cases he⟩
    | haz x => exact ⟨rfl, fun _ _ he => by cases he⟩
    | unmodelled => exact ⟨rfl, fun _ _ he => by cases he⟩
  | bin op a b iha ihb =>
    intro σ hinv hwf
    obtain ⟨ihr, ihx⟩ := iha σ hinv hwf.1
    unfold evalL pureI
    rw [← ihr]
    cases h1 : evalL a σ with
    | ok p =>
      obtain ⟨ℓ1, σ1⟩ := p
      obtain ⟨x1, k1⟩ := ihx ℓ1 σ1 h1
      have inv1 := x1.flagInv hinv
      simp only [absRes]
      by_cases hf : (!rightForced op (σ1.get ℓ1).val) = true
      · rw [if_pos hf, if_pos hf]
        cases hv : evalBin op (σ1.get ℓ1).val (Val.null Ty.none) with
        | ok v =>
          obtain ⟨px, pk, pv, j, pj⟩ := lval1_ok σ.wm σ1 v ℓ1 inv1 x1.wm k1
          refine ⟨?_, ?_⟩
          · dsimp only [absRes]; rw [pv, pj]; rfl
          · intro ℓ σ' he
            obtain ⟨rfl, rfl⟩ := ok_pair he
            exact ⟨x1.trans px, pk⟩
        | err c a => exact ⟨rfl, fun _ _ he => by cases he⟩
        | haz x => exact ⟨rfl, fun _ _ he => by cases he⟩
        | unmodelled => exact ⟨rfl, fun _ _ he => by cases he⟩
      · rw [if_neg hf, if_neg hf]
        have hwf2 : WfIdx σ1.vars.length σ1.csts.length b := by rw [x1.vars, x1.csts]; exact hwf.2
        obtain ⟨ihr2, ihx2⟩ := ihb σ1 inv1 hwf2
        rw [x1.vars, x1.csts] at ihr2
        rw [← ihr2]
        cases h2 : evalL b σ1 with
        | ok q =>
          obtain ⟨ℓ2, σ2⟩ := q
          obtain ⟨x2, k2⟩ := ihx2 ℓ2 σ2 h2
          have inv2 := x2.flagInv inv1
          obtain ⟨k1', g1⟩ := k1.ext x2
          have k2' : LocOK σ.wm σ2 ℓ2 := k2.mono x1.wm
          have x12 : Ext σ.wm σ σ2 := x1.trans (x2.mono x1.wm)
          simp only [absRes]
          rw [sameCell_eq k1 k2, g1]
          cases hv : evalBin op (σ1.get ℓ1).val (σ2.get ℓ2).val (ℓ1 == ℓ2) with
          | ok v =>
            obtain ⟨px, pk, _⟩ := place_ok σ.wm σ2 (binPlace op (σ1.get ℓ1).val (σ2.get ℓ2).val) v ℓ1 ℓ2 inv2 x12.wm k1' k2'
            refine ⟨?_, ?_⟩
            · dsimp only [absRes]
              rw [place_abs σ.wm σ2 _ v ℓ1 ℓ2 inv2 x12.wm k1' k2'
                (fun hp => by rw [g1]; exact binPlace_ret1 op _ _ v _ hp hv)
                (fun hp => binPlace_ret2 op _ _ v _ hp hv)]
            · intro ℓ σ' he
              obtain ⟨rfl, rfl⟩ := ok_pair he
              exact ⟨x12.trans px, pk⟩
          | err c a => exact ⟨rfl, fun _ _ he => by cases he⟩
          | haz x => exact ⟨rfl, fun _ _ he => by cases he⟩
          | unmodelled => exact ⟨rfl, fun _ _ he => by cases he⟩
        | err c a => exact ⟨rfl, fun _ _ he => by cases he⟩
        | haz x => exact ⟨rfl, fun _ _ he => by cases he⟩
        | unmodelled => exact ⟨rfl, fun _ _ he => by cases he⟩
    | err c a => exact ⟨rfl, fun _ _ he => by cases he⟩
    | haz x => exact ⟨rfl, fun _ _ he => by cases he⟩
    | unmodelled => exact ⟨rfl, fun _ _ he => by cases he⟩

/-- **Refinement.** Under the flag invariant, for every expression whose variable and constant indices
exist, storage-level evaluation (`evalL`: operand reuse through LVAL1/LVAL2, pool slots, watermark —
Expression::value(ctx) of the operator nodes) and the value-level semantics `pureI` agree: the same runtime
error, the same hazard, the same "unmodelled", and on success the cell returned holds exactly the
value-level result and is the same named cell (or a temporary where `pureI` says "fresh value"). -/
theorem eval_refines (e : LExpr) (σ : Store) (hinv : FlagInv σ) (hwf : WfIdx σ.vars.length σ.csts.length e) :
    absRes (evalL e σ) = pureI (vals σ.vars) (vals σ.csts) e :=
  (eval_refines_aux e σ hinv hwf).1

/-- **Pool discipline.** A successful evaluation changes no variable, no constant, and no temporary
below the watermark it started from (`Lemmas.Ext`); the watermark and the pool only grow; the result is an
existing variable slot, an existing constant cell, or a live temporary allocated by this very evaluation
(`Lemmas.LocOK`: index in `[σ.wm, σ'.wm)`, LVALUE flag clear). -/
theorem eval_pool_discipline (e : LExpr) (σ σ' : Store) (ℓ : Loc) (hinv : FlagInv σ)
    (hwf : WfIdx σ.vars.length σ.csts.length e) (he : evalL e σ = .ok (ℓ, σ')) :
    Ext σ.wm σ σ' ∧ LocOK σ.wm σ' ℓ :=
  (eval_refines_aux e σ hinv hwf).2 ℓ σ' he

/-- The value component of an identity-tracking outcome. -/
def valOf : Res (Val × Option Loc) → Res Val
  | .ok (v, _) => .ok v
  | .err c a => .err c a
  | .haz h => .haz h
  | .unmodelled => .unmodelled

/-- No `==` / `!=` node (the only operators that observe cell identity). -/
def EqFree : LExpr → Prop
  | .cst _ => True
  | .var _ => True
  | .un _ e => EqFree e
  | .bin op a b => op ≠ .eq ∧ op ≠ .ne ∧ EqFree a ∧ EqFree b

instance EqFree.dec : (e : LExpr) → Decidable (EqFree e)
  | .cst _ => isTrue trivial
  | .var _ => isTrue trivial
  | .un _ e => EqFree.dec e
  | .bin op a b =>
    @instDecidableAnd (op ≠ .eq) _ inferInstance (@instDecidableAnd (op ≠ .ne) _ inferInstance
      (@instDecidableAnd _ _ (EqFree.dec a) (EqFree.dec b)))

/-- For expressions without `==`/`!=`, identity tracking is irrelevant: `pureI` is `LExpr.pure`. -/
theorem pureI_eq_pure (vars csts : List Val) (e : LExpr) (h : EqFree e) :
    valOf (pureI vars csts e) = LExpr.pure vars csts e := by
  induction e with
  | cst i => rfl
  | var i => rfl
  | un op e ih =>
    unfold pureI LExpr.pure
    rw [← ih h]
    cases pureI vars csts e with
    | ok p => obtain ⟨v, i⟩ := p; simp only [valOf]; cases evalUn op v <;> rfl
    | err c a => rfl
    | haz x => rfl
    | unmodelled => rfl
  | bin op a b iha ihb =>
    obtain ⟨h1, h2, ha, hb⟩ := h
    have hs : ∀ x y s, evalBin op x y s = evalBin op x y false := by
      intro x y s; cases op <;> first | rfl | exact absurd rfl h1 | exact absurd rfl h2
    unfold pureI LExpr.pure
    rw [← iha ha]
    cases pureI vars csts a with
    | ok p =>
      obtain ⟨v1, i1⟩ := p
      simp only [valOf]
      by_cases hf : (!rightForced op v1) = true
      · rw [if_pos hf, if_pos hf]; cases evalBin op v1 (Val.null Ty.none) <;> rfl
      · rw [if_neg hf, if_neg hf, ← ihb hb]
        cases pureI vars csts b with
        | ok q =>
          obtain ⟨v2, i2⟩ := q
          simp only [valOf]
          rw [hs]
          cases evalBin op v1 v2 false <;> rfl
        | err c a => rfl
        | haz x => rfl
        | unmodelled => rfl
    | err c a => rfl
    | haz x => rfl
    | unmodelled => rfl

/-- **Refinement against `LExpr.pure`** — what holds exactly: for every expression without `==`/`!=`,
storage-level evaluation yields the outcome of the pure value-level evaluator of Model/Store.lean. (With
`==`/`!=` the statement is false for `LExpr.pure`, which has no notion of cell identity: witness below;
`eval_refines` is the full statement.) -/
theorem eval_refines_pure_partial (e : LExpr) (σ : Store) (hinv : FlagInv σ)
    (hwf : WfIdx σ.vars.length σ.csts.length e) (hq : EqFree e) :
    valOf (absRes (evalL e σ)) = LExpr.pure (σ.vars.map (·.val)) (σ.csts.map (·.val)) e := by
  rw [eval_refines e σ hinv hwf, pureI_eq_pure _ _ e hq]; rfl

/-- Negation witness for the unrestricted statement against `LExpr.pure`: with `x0` a table, `x0 == x0`
evaluates to `true` at storage level (same collection address; the real interpreter prints `true` for
`t = tab(2,0); print t == t;`), while `LExpr.pure` — two values, no identity — says `false`. -/
example :
    let σ : Store := { vars := [⟨.tab (Ty.int.levelUp) [] [.int 0, .int 0], true⟩], csts := [], pool := [], wm := 0 }
    FlagInv σ ∧ WfIdx 1 0 (.bin .eq (.var 0) (.var 0)) ∧
    valOf (absRes (evalL (.bin .eq (.var 0) (.var 0)) σ)) = .ok (.bool true) ∧
    LExpr.pure (σ.vars.map (·.val)) (σ.csts.map (·.val)) (.bin .eq (.var 0) (.var 0)) = .ok (.bool false) := by
  refine ⟨⟨by simp, by simp⟩, ⟨by decide, by decide⟩, rfl, rfl⟩

/-- Non-vacuity of `eval_refines`: `-(x0 + c1) * x0` reuses the temporary of `x0 + c1` twice (LVAL1 of the
negation, LVAL2 of the product) and the result cell holds the value-level result −30. -/
example :
    let σ : Store := { vars := [⟨.int 5, true⟩], csts := [⟨.null Ty.none, true⟩, ⟨.int 1, true⟩], pool := [], wm := 0 }
    let e : LExpr := .bin .mul (.un .neg (.bin .add (.var 0) (.cst 1))) (.var 0)
    FlagInv σ ∧ WfIdx σ.vars.length σ.csts.length e ∧
    ∃ σ', evalL e σ = .ok (.tmp 0, σ') ∧ σ'.wm = 1 ∧ absRes (evalL e σ) = .ok (.int (-30), none) := by
  refine ⟨⟨by simp, by simp⟩, ⟨⟨by decide, by decide⟩, by decide⟩, _, rfl, rfl, rfl⟩

/-- The index hypothesis `WfIdx` is needed (model-only artefact: the parser never produces a symbol without a
slot): `~x7` in a store without variables "writes" its result through the non-existent slot and reads back the
default cell — an untyped null where the value-level result is the integer null. -/
example :
    let σ : Store := { vars := [], csts := [], pool := [], wm := 0 }
    FlagInv σ ∧ absRes (evalL (.un .not (.var 7)) σ) = .ok (.null Ty.none, some (.var 7)) ∧
    pureI (vals σ.vars) (vals σ.csts) (.un .not (.var 7)) = .ok (.null Ty.int, none) := by
  refine ⟨⟨by simp, by simp⟩, rfl, rfl⟩

/-- **Evaluating one expression after another**: after ANY successful evaluation of `e1`, evaluating `e2`
gives exactly the outcome it gives in the original store — same error or same value and identity: the
temporaries `e1` left behind do not leak into `e2` — and the result cell of `e1` is not clobbered by `e2`
(it keeps its content: temporaries handed out earlier in the statement stay valid). -/
theorem eval_after (e1 e2 : LExpr) (σ σ1 : Store) (ℓ1 : Loc) (hinv : FlagInv σ)
    (hwf1 : WfIdx σ.vars.length σ.csts.length e1) (hwf2 : WfIdx σ.vars.length σ.csts.length e2)
    (h1 : evalL e1 σ = .ok (ℓ1, σ1)) :
    absRes (evalL e2 σ1) = absRes (evalL e2 σ) ∧
    ∀ ℓ2 σ2, evalL e2 σ1 = .ok (ℓ2, σ2) → σ2.get ℓ1 = σ1.get ℓ1 := by
  obtain ⟨x1, k1⟩ := eval_pool_discipline e1 σ σ1 ℓ1 hinv hwf1 h1
  have inv1 := x1.flagInv hinv
  have hwf2' : WfIdx σ1.vars.length σ1.csts.length e2 := by rw [x1.vars, x1.csts]; exact hwf2
  refine ⟨?_, ?_⟩
  · rw [eval_refines e2 σ1 inv1 hwf2', eval_refines e2 σ hinv hwf2, x1.vars, x1.csts]
  · intro ℓ2 σ2 h2
    obtain ⟨x2, _⟩ := eval_pool_discipline e2 σ1 σ2 ℓ2 inv1 hwf2' h2
    exact (k1.ext x2).2

/-- **Evaluating the same expression twice in the same state gives equal results**: the second
evaluation (from the store the first one left, temporaries included) succeeds too, its result cell holds
the same value and is the same named cell (or again a temporary), and the first result is still intact. -/
theorem eval_twice_equal (e : LExpr) (σ σ' : Store) (ℓ : Loc) (hinv : FlagInv σ)
    (hwf : WfIdx σ.vars.length σ.csts.length e) (h1 : evalL e σ = .ok (ℓ, σ')) :
    ∃ ℓ2 σ'', evalL e σ' = .ok (ℓ2, σ'') ∧ (σ''.get ℓ2).val = (σ'.get ℓ).val ∧ cellId ℓ2 = cellId ℓ ∧
      σ''.get ℓ = σ'.get ℓ := by
  obtain ⟨ha, hb⟩ := eval_after e e σ σ' ℓ hinv hwf hwf h1
  rw [h1] at ha
  cases h2 : evalL e σ' with
  | ok p =>
    obtain ⟨ℓ2, σ''⟩ := p
    rw [h2] at ha
    simp only [absRes] at ha
    have := Res.ok.inj ha
    exact ⟨ℓ2, σ'', rfl, (Prod.mk.inj this).1, (Prod.mk.inj this).2, hb ℓ2 σ'' h2⟩
  | err c a => rw [h2] at ha; cases ha
  | haz x => rw [h2] at ha; cases ha
  | unmodelled => rw [h2] at ha; cases ha

/-- A failing evaluation fails identically when repeated after any successful evaluation. -/
theorem eval_error_repeatable (e1 e2 : LExpr) (σ σ1 : Store) (ℓ1 : Loc) (c : Nat) (a : Bytes) (hinv : FlagInv σ)
    (hwf1 : WfIdx σ.vars.length σ.csts.length e1) (hwf2 : WfIdx σ.vars.length σ.csts.length e2)
    (h1 : evalL e1 σ = .ok (ℓ1, σ1)) (h2 : evalL e2 σ = .err c a) : evalL e2 σ1 = .err c a := by
  have := (eval_after e1 e2 σ σ1 ℓ1 hinv hwf1 hwf2 h1).1
  rw [h2] at this
  cases h : evalL e2 σ1 with
  | ok p => rw [h] at this; cases this
  | err c' a' => rw [h] at this; simp only [absRes] at this; injection this with e1 e2; rw [e1, e2]
  | haz x => rw [h] at this; cases this
  | unmodelled => rw [h] at this; cases this

/-! ### Assignment copies -/

/-- **`x_i = <result at ℓ>` copies** (Context::storeVariable): afterwards slot `i` holds the value that
was at `ℓ`, with the LVALUE flag; the invariant holds; every constant and every other variable slot is
exactly as before. (A temporary is swapped in, an lvalue is cloned: either way a value copy.) -/
theorem assign_copies (σ : Store) (i : Nat) (ℓ : Loc) (hinv : FlagInv σ) (hi : i < σ.vars.length) :
    ((storeVar σ i ℓ).get (.var i)).val = (σ.get ℓ).val ∧ ((storeVar σ i ℓ).get (.var i)).lv = true ∧
    FlagInv (storeVar σ i ℓ) ∧ (storeVar σ i ℓ).csts = σ.csts ∧
    (storeVar σ i ℓ).vars.length = σ.vars.length ∧
    (∀ j, j ≠ i → (storeVar σ i ℓ).get (.var j) = σ.get (.var j)) := by
  obtain ⟨p1, p2, p3⟩ := store_preserves σ i ℓ hinv
  have hval : ((storeVar σ i ℓ).get (.var i)).val = (σ.get ℓ).val ∧
      (storeVar σ i ℓ).vars.length = σ.vars.length := by
    unfold storeVar
    split
    · rename_i hl
      cases ℓ with
      | var k =>
        have hk : ¬ k < σ.vars.length := by
          intro hk; have := flag_var hinv hk; rw [hl] at this; cases this
        have hki : k ≠ i := by omega
        constructor
        · simp [Store.set, Store.get, List.getD, hi, hki]
        · simp [Store.set]
      | cst k => constructor <;> simp [Store.set, Store.get, List.getD, hi]
      | tmp k => constructor <;> simp [Store.set, Store.get, List.getD, hi]
    · split
      · rename_i h; subst h; exact ⟨rfl, rfl⟩
      · constructor <;> simp [Store.set, Store.get, List.getD, hi]
  refine ⟨hval.1, ?_, p1, p2, hval.2, p3⟩
  have : i < (storeVar σ i ℓ).vars.length := by rw [hval.2]; exact hi
  exact flag_var p1 this

/-- **After `b = a` the two variables are independent**: `b` holds `a`'s value, `a` is unchanged; any later
assignment into `a` (of any result cell `ℓ`) leaves `b` as it is, and any later assignment into `b` leaves
`a` as it is. -/
theorem assign_independent (σ : Store) (a b : Nat) (hinv : FlagInv σ) (hab : a ≠ b)
    (hb : b < σ.vars.length) :
    let σ1 := storeVar σ b (.var a)
    (σ1.get (.var b)).val = (σ.get (.var a)).val ∧ σ1.get (.var a) = σ.get (.var a) ∧
    (∀ ℓ, (storeVar σ1 a ℓ).get (.var b) = σ1.get (.var b)) ∧
    (∀ ℓ, (storeVar σ1 b ℓ).get (.var a) = σ1.get (.var a)) := by
  intro σ1
  obtain ⟨c1, _, c3, _, _, c6⟩ := assign_copies σ b (.var a) hinv hb
  refine ⟨c1, c6 a hab, ?_, ?_⟩
  · intro ℓ; exact (store_preserves σ1 a ℓ c3).2.2 b (Ne.symm hab)
  · intro ℓ; exact (store_preserves σ1 b ℓ c3).2.2 a hab

/-- One assignment statement `x_i = e;` at storage level: evaluate, store, end of statement. -/
def assign (σ : Store) (i : Nat) (e : LExpr) : Res Store :=
  match evalL e σ with
  | .ok (ℓ, σ') => .ok (endStatement (storeVar σ' i ℓ))
  | .err c a => .err c a
  | .haz h => .haz h
  | .unmodelled => .unmodelled

/-- A sequence of assignment statements. -/
def runAssigns : List (Nat × LExpr) → Store → Res Store
  | [], σ => .ok σ
  | (i, e) :: rest, σ =>
    match assign σ i e with
    | .ok σ' => runAssigns rest σ'
    | .err c a => .err c a
    | .haz h => .haz h
    | .unmodelled => .unmodelled

/-- **An assignment statement, end to end**: `x_i = e;` puts into slot `i` exactly the value-level result
of `e` in the state before the statement, changes no other variable and no constant, keeps the invariant. -/
theorem assign_refines (σ σ' : Store) (i : Nat) (e : LExpr) (hinv : FlagInv σ) (hi : i < σ.vars.length)
    (hwf : WfIdx σ.vars.length σ.csts.length e) (h : assign σ i e = .ok σ') :
    valOf (pureI (vals σ.vars) (vals σ.csts) e) = .ok (σ'.get (.var i)).val ∧
    FlagInv σ' ∧ σ'.csts = σ.csts ∧ σ'.vars.length = σ.vars.length ∧
    (∀ j, j ≠ i → σ'.get (.var j) = σ.get (.var j)) := by
  unfold assign at h
  cases he : evalL e σ with
  | ok p =>
    obtain ⟨ℓ, σ1⟩ := p
    rw [he] at h
    have h' := (Res.ok.inj h).symm
    subst h'
    obtain ⟨f1, inv1⟩ := eval_frame e σ σ1 ℓ hinv he
    have hi1 : i < σ1.vars.length := by rw [f1.1]; exact hi
    obtain ⟨c1, _, c3, c4, c5, c6⟩ := assign_copies σ1 i ℓ inv1 hi1
    have hr := eval_refines e σ hinv hwf
    rw [he] at hr
    refine ⟨?_, c3, ?_, ?_, ?_⟩
    · rw [← hr]; simp only [absRes, valOf]
      congr 1; exact c1.symm
    · exact c4.trans f1.2
    · exact c5.trans (by rw [f1.1])
    · intro j hj
      have := c6 j hj
      have hv := variable_stable e σ σ1 ℓ j hinv he
      exact this.trans hv
  | err c a => rw [he] at h; cases h
  | haz x => rw [he] at h; cases h
  | unmodelled => rw [he] at h; cases h

/-- **No later change is visible through a copy**: whatever sequence of assignment statements runs —
their right-hand sides may read any variable, `b` included — as long as none of them assigns to `b`, slot
`b` is exactly what it was (so after `b = a`, later changes of `a` never show through `b`); the constants
keep their meaning and the invariant holds at the end. -/
theorem assigns_leave_others (prog : List (Nat × LExpr)) : ∀ (σ σ' : Store) (b : Nat), FlagInv σ →
    (∀ p ∈ prog, p.1 ≠ b) → runAssigns prog σ = .ok σ' →
    σ'.get (.var b) = σ.get (.var b) ∧ σ'.csts = σ.csts ∧ FlagInv σ' := by
  induction prog with
  | nil =>
    intro σ σ' b hinv _ h
    cases h
    exact ⟨rfl, rfl, hinv⟩
  | cons st rest ih =>
    intro σ σ' b hinv hb h
    obtain ⟨i, e⟩ := st
    unfold runAssigns at h
    cases ha : assign σ i e with
    | ok σ1 =>
      rw [ha] at h
      dsimp only at h
      have hib : i ≠ b := hb (i, e) (List.mem_cons_self)
      -- one statement
      have step : σ1.get (.var b) = σ.get (.var b) ∧ σ1.csts = σ.csts ∧ FlagInv σ1 := by
        unfold assign at ha
        cases he : evalL e σ with
        | ok p =>
          obtain ⟨ℓ, σe⟩ := p
          rw [he] at ha
          have h' := (Res.ok.inj ha).symm
          subst h'
          obtain ⟨f1, inv1⟩ := eval_frame e σ σe ℓ hinv he
          obtain ⟨s1, s2, s3⟩ := store_preserves σe i ℓ inv1
          refine ⟨?_, s2.trans f1.2, s1⟩
          exact (s3 b (Ne.symm hib)).trans (variable_stable e σ σe ℓ b hinv he)
        | err c a => rw [he] at ha; cases ha
        | haz x => rw [he] at ha; cases ha
        | unmodelled => rw [he] at ha; cases ha
      obtain ⟨r1, r2, r3⟩ := ih σ1 σ' b step.2.2 (fun p hp => hb p (List.mem_cons_of_mem _ hp)) h
      exact ⟨r1.trans step.1, r2.trans step.2.1, r3⟩
    | err c a => rw [ha] at h; cases h
    | haz x => rw [ha] at h; cases h
    | unmodelled => rw [ha] at h; cases h

/-- Non-vacuity: `x1 = x0; x0 = x0 + c1; x0 = -x0;` runs, and `x1` still holds the old value 5 of `x0`
while `x0` is −6. -/
example :
    let σ : Store := { vars := [⟨.int 5, true⟩, ⟨.null Ty.none, true⟩], csts := [⟨.null Ty.none, true⟩, ⟨.int 1, true⟩], pool := [], wm := 0 }
    let prog : List (Nat × LExpr) := [(1, .var 0), (0, .bin .add (.var 0) (.cst 1)), (0, .un .neg (.var 0))]
    FlagInv σ ∧ ∃ σ', runAssigns prog σ = .ok σ' ∧ (σ'.get (.var 1)).val = .int 5 ∧ (σ'.get (.var 0)).val = .int (-6) := by
  refine ⟨⟨by simp, by simp⟩, _, rfl, rfl, rfl⟩


/-! ## The extended storage model (Model/StoreX.lean): elements, in-place members, constructors, assignment, calls -/

section Extended
open BlocV.LemmasX

/-- one step of the frame proof: glue, primitives, the induction hypothesis -/
macro "pres_auto" ih:ident : tactic => `(tactic| repeat (first
  | exact Pres.pure _ | exact Pres.fail _ | exact Pres.lift _ | exact pres_xget _ | exact pres_logLen | exact pres_checkHeld _ _
  | exact pres_xalloc _ | exact pres_xlval1 _ _ | exact pres_xlval2 _ _ _ | exact pres_xplace _ _ _ _ | exact pres_takeArg _
  | exact pres_wrRecv _ _ | exact pres_recvCell _ _ | exact pres_finishInPlace _ _ _ _ _ | exact pres_atResult _ _ _ _
  | exact $ih _ | exact pres_tabStep ($ih _) _ _ _ | exact pres_tupStep $ih _ _ | exact pres_call $ih _ _
  | exact pres_biArgs $ih _ _ | exact pres_biHeld _ | exact pres_xgets _ | exact pres_xplaceBi _ _ _
  | apply Pres.bind | apply Pres.ite | split | intro _))

/-- Every expression of the extended language respects the frame discipline (`LemmasX.Frame`), for every function
table and every fuel: glue lemma behind `evalX_frame`. -/
theorem evalX_pres (F : List XFun) : ∀ fuel e, Pres (evalX F fuel e)
  | 0, e => by simp only [evalX]; exact Pres.fail _
  | fuel + 1, e => by
    have ih := evalX_pres F fuel
    cases e with
    | cst i =>
      intro s a s' _ h
      simp only [evalX] at h
      split at h <;> cases h
      exact Frame.refl _
    | var i =>
      intro s a s' _ h
      simp only [evalX] at h
      split at h <;> cases h
      exact Frame.refl _
    | un op a => simp only [evalX]; pres_auto ih
    | bin op a b => simp only [evalX]; pres_auto ih
    | mem m r args => simp only [evalX]; pres_auto ih
    | item r idx => simp only [evalX]; pres_auto ih
    | setItem r idx a => simp only [evalX]; pres_auto ih
    | tab0 => simp only [evalX]; pres_auto ih
    | tab n a => simp only [evalX]; pres_auto ih
    | tup args => simp only [evalX]; pres_auto ih
    | call f args => simp only [evalX]; pres_auto ih
    | bi name args => simp only [evalX]; pres_auto ih

/-- Statements respect the same discipline (assignment logs its target). -/
theorem execX_pres (F : List XFun) (fuel : Nat) (st : XStmt) : Pres (execX F fuel st) := by
  have ih := evalX_pres F fuel
  cases st <;> simp only [execX]
  · exact Pres.bind (ih _) (fun x => Pres.bind (pres_xstoreVar _ x) (fun _ => pres_xendStatement))
  · exact Pres.bind (ih _) (fun _ => pres_xendStatement)
  · exact Pres.bind (ih _) (fun _ => pres_xendStatement)

theorem execXs_pres (F : List XFun) (fuel : Nat) : ∀ sts, Pres (execXs F fuel sts)
  | [] => by simp only [execXs]; exact Pres.pure _
  | st :: rest => by
    simp only [execXs]
    exact Pres.bind (execX_pres F fuel st) (fun _ => execXs_pres F fuel rest)

/-- **(a) Extended frame theorem.** For every function table, fuel, expression of the extended language (constants,
variables, operators, `at`, `count`, `put`, `insert`, `delete`, `concat`, `@N`, `set@N`, `tab`, `tup`, user-function
calls) and every state satisfying the flag invariant: if the evaluation succeeds then
* the log only grows — the new entries `fp` are the footprint of this evaluation: exactly the non-temporary roots an
  in-place member (of the expression or of a function it calls, there: constant nodes only) wrote through,
* every variable slot and every constant node that is NOT in the log afterwards is untouched — value, all of its
  elements and items at every depth, and flag (`root?` returns the whole cell),
* no slot appears or disappears and no flag of a variable / constant changes, wherever the footprint lies. -/
theorem evalX_frame (F : List XFun) (fuel : Nat) (e : XExpr) (s s' : XS) (x : XLoc) (hinv : FlagInvX s)
    (h : evalX F fuel e s = .ok (x, s')) :
    (∃ fp, s'.log = fp ++ s.log) ∧
    (∀ r, NonTmp r → r ∉ s'.log → s'.st.root? r = s.st.root? r) ∧
    (∀ r, NonTmp r → (s'.st.root? r).map (·.lv) = (s.st.root? r).map (·.lv)) :=
  let fr := evalX_pres F fuel e s x s' hinv h
  ⟨fr.log, fr.keep, fr.flag⟩

/-- **(c) The flag invariant is preserved by every construct**: expressions (all members, constructors, calls —
inside a call the callee context satisfies it too: that is how `pres_inCallee` is proved), assignment statements,
statement lists. -/
theorem flagInvX_preserved_expr (F : List XFun) (fuel : Nat) (e : XExpr) (s s' : XS) (x : XLoc) (hinv : FlagInvX s)
    (h : evalX F fuel e s = .ok (x, s')) : FlagInvX s' :=
  (evalX_pres F fuel e s x s' hinv h).flagInv hinv

theorem flagInvX_preserved (F : List XFun) (fuel : Nat) (sts : List XStmt) (s s' : XS) (hinv : FlagInvX s)
    (h : execXs F fuel sts s = .ok ((), s')) : FlagInvX s' :=
  (execXs_pres F fuel sts s () s' hinv h).flagInv hinv

/-- **(d) Independence after a copy, for ALL subsequent statement sequences.** Whatever statements run later
(assignments, in-place members on any receiver, calls, constructors …): a variable slot or constant node that is not
in the log of that run still holds exactly what it held before it. In particular after `b = a`, `t = tab(n, a)`,
`u = tup(a, …)` or `f(a)`: a later in-place change whose receiver is rooted at `a` logs `a` only, so `b` / `t` / `u` /
the callee's parameter cannot change through it, and vice versa. -/
theorem later_ops_leave_others (F : List XFun) (fuel : Nat) (ops : List XStmt) (s s' : XS) (hinv : FlagInvX s)
    (h : execXs F fuel ops s = .ok ((), s')) (r : Loc) (hr : NonTmp r) (hn : r ∉ s'.log) :
    s'.st.root? r = s.st.root? r :=
  (execXs_pres F fuel ops s () s' hinv h).keep r hr hn

/-- `b = a;` for variables `a ≠ b` of ANY type (tables of tables, tuples …): `b` receives `a`'s value (a clone: `a`
carries the flag), `a` and every other slot and constant are untouched, only `b` is logged. -/
theorem assign_var_copies (F : List XFun) (fuel : Nat) (s : XS) (a b : Nat) (ca : Cell) (hinv : FlagInvX s)
    (ha : s.st.vars[a]? = some ca) (hb : b < s.st.vars.length) (hab : a ≠ b) :
    ∃ s', execX F (fuel + 1) (.assign b (.var a)) s = .ok ((), s') ∧
      s'.st.root? (.var b) = some { val := ca.val, lv := true } ∧
      (∀ r, r ≠ .var b → NonTmp r → s'.st.root? r = s.st.root? r) ∧ s'.log = .var b :: s.log := by
  have hlt : a < s.st.vars.length := (List.getElem?_eq_some_iff.mp ha).1
  have hlv : ca.lv = true := hinv.1 ca (List.mem_of_getElem? ha)
  have hget : s.st.getX { root := .var a, path := [] } = some ca := by
    simp only [Store.getX, Store.root?, ha, Val.getP]
  have hne : ({ root := .var a, path := [] } : XLoc) ≠ { root := .var b, path := [] } := by
    intro e; injection e with e1 _; injection e1 with e2; exact hab e2
  refine ⟨{ st := endStatement (s.st.set (.var b) { val := ca.val, lv := true }), log := .var b :: s.log }, ?_, ?_, ?_, rfl⟩
  · simp only [execX, evalX, XM.bind, hlt, if_true, xstoreVar, if_neg hne, takeArg, hget, hlv, xsetVar, hb, xendStatement]
  · obtain ⟨c0, hc0⟩ : ∃ c0, s.st.root? (.var b) = some c0 := ⟨s.st.vars[b], by simp [Store.root?, hb]⟩
    exact root_set_eq _ _ _ _ hc0
  · intro r hr _
    exact root_set_ne _ _ _ _ hr

/-- Non-vacuity of (a), (c), (d) and the behaviour on elements: `x1 = x0;` for a table of tables `x0`, then
`x0.at(0).put(1, 5)` writes THROUGH the element reference into `x0` (footprint = {x0}) and `x1` keeps the old value. -/
example :
    let t : Val := .tab { major := .int, level := 1 } [] [.int 7, .int 7]
    let tt : Val := .tab { major := .int, level := 2 } [] [t, t]
    let s : XS := { st := { vars := [⟨tt, true⟩, ⟨.null Ty.none, true⟩], csts := [⟨.int 0, true⟩, ⟨.int 1, true⟩, ⟨.int 5, true⟩], pool := [], wm := 0 } }
    let prog : List XStmt := [.assign 1 (.var 0), .doE (.mem .put (.mem .at (.var 0) [.cst 0]) [.cst 1, .cst 2])]
    FlagInvX s ∧ ∃ s', execXs [] 6 prog s = .ok ((), s') ∧
      (s'.st.vars.map (·.val)) = [.tab { major := .int, level := 2 } [] [.tab { major := .int, level := 1 } [] [.int 7, .int 5], t], tt] ∧
      s'.log = [.var 0, .var 1] := by
  refine ⟨⟨by simp, by simp⟩, _, rfl, rfl, rfl⟩

/-- The repaired behaviour (876bec0; before it this very evaluation left "abcx" in the constant node — finding
C05.constant_modified_in_place, `("abc" + null).concat("x")` printed abcx, abcxx, abcxxx in a loop): `+` hands the cell
of the literal through, `receiver()` clones it, `concat` appends to the clone: the constant node is untouched, the
footprint is empty, the result is "abcx" in a temporary. -/
theorem const_receiver_cloned :
    let s : XS := { st := { vars := [], csts := [⟨.str [97, 98, 99], true⟩, ⟨.null Ty.none, true⟩, ⟨.str [120], true⟩], pool := [], wm := 0 } }
    let e : XExpr := .mem .concat (.bin .add (.cst 0) (.cst 1)) [.cst 2]
    FlagInvX s ∧ ∃ x s', evalX [] 4 e s = .ok (x, s') ∧ s'.st.csts = s.st.csts ∧ s'.log = [] ∧
      (s'.st.getX x).map (·.val) = some (.str [97, 98, 99, 120]) := by
  refine ⟨⟨by simp, by simp⟩, _, _, rfl, rfl, rfl, rfl⟩

/-- Likewise for a variable handed through (finding C05.inplace_member_on_passed_through_operand, repaired by 876bec0):
`(x0 + null).concat("x")` no longer appends to `x0`; `x0.concat("x")` of course still does (footprint {x0}). -/
theorem passthrough_cloned :
    let s : XS := { st := { vars := [⟨.str [97, 98], true⟩], csts := [⟨.null Ty.none, true⟩, ⟨.str [120], true⟩], pool := [], wm := 0 } }
    (∃ x s', evalX [] 4 (.mem .concat (.bin .add (.var 0) (.cst 0)) [.cst 1]) s = .ok (x, s') ∧ s'.st.vars = s.st.vars ∧ s'.log = []) ∧
    (∃ x s', evalX [] 4 (.mem .concat (.var 0) [.cst 1]) s = .ok (x, s') ∧ s'.st.root? (.var 0) = some ⟨.str [97, 98, 120], true⟩ ∧ s'.log = [.var 0]) := by
  exact ⟨⟨_, _, rfl, rfl, rfl⟩, ⟨_, _, rfl, rfl, rfl⟩⟩

/-- A function result is a temporary: `idf(x0).concat("x")` does NOT touch `x0` (empty footprint). -/
example :
    let s : XS := { st := { vars := [⟨.str [97, 98], true⟩], csts := [⟨.str [120], true⟩], pool := [], wm := 0 } }
    let idf : XFun := { nparams := 1, locals := [Ty.none], body := [.ret (.var 0)] }
    let e : XExpr := .mem .concat (.call 0 [.var 0]) [.cst 0]
    ∃ x s', evalX [idf] 5 e s = .ok (x, s') ∧ s'.st.vars = s.st.vars ∧ s'.log = [] ∧ (s'.st.getX x).map (·.val) = some (.str [97, 98, 120]) := by
  exact ⟨_, _, rfl, rfl, rfl, rfl⟩

/-- **Dangling element reference** (finding C05.dangling_element_reference): in `x0.at(0).put(0, x0.concat(x0).count())`
the reference `x0.at(0)` is held while the last operand grows `x0` in place; the model answers `hazard oob`
(AddressSanitizer: heap-use-after-free in member_put.cpp:42 on the real library). -/
theorem dangling_witness :
    let t : Val := .tab { major := .int, level := 1 } [] [.int 7, .int 7]
    let tt : Val := .tab { major := .int, level := 2 } [] [t, t]
    let s : XS := { st := { vars := [⟨tt, true⟩], csts := [⟨.int 0, true⟩], pool := [], wm := 0 } }
    let e : XExpr := .mem .put (.mem .at (.var 0) [.cst 0]) [.cst 0, .mem .count (.mem .concat (.var 0) [.var 0]) []]
    evalX [] 6 e s = .haz .oob := by
  rfl

/-- leaves of the result-root analysis -/
macro "root_leaf" hfin:ident : tactic => `(tactic| first
  | exact RootFrom.fail _
  | exact RootFrom.mono $hfin (rootFrom_finishInPlace _ _ _ _ _)
  | exact RootFrom.mono $hfin (rootFrom_atResult _ _ _ _)
  | exact RootFrom.mono $hfin (rootFrom_xlval1 _ _)
  | exact RootFrom.pure _ ($hfin _ (Or.inl rfl)))

macro "root_chain" hfin:ident : tactic => `(tactic| repeat (first
  | root_leaf $hfin
  | (apply RootFrom.bind_last; intro _) | apply RootFrom.ite | split))

/-- A storage expression (`XExpr.isStorage`: variable, element, item, chained type method) that evaluates to a cell
of (or inside) a variable slot is rooted at exactly that variable (`rootVarX`); anything else it returns is a temporary. -/
theorem storage_root (F : List XFun) : ∀ fuel e (i : Nat), e.isStorage = true →
    RootFrom (fun ρ => ρ = .var i → rootVarX e = some i) (evalX F fuel e)
  | 0, e, i, _ => by simp only [evalX]; exact RootFrom.fail _
  | fuel + 1, e, i, hst => by
    cases e with
    | var j =>
      intro s x s' h
      simp only [evalX] at h
      split at h <;> cases h
      intro e; simp only [rootVarX]; injection e with e; rw [e]
    | item r idx =>
      simp only [XExpr.isStorage] at hst
      simp only [evalX]
      refine RootFrom.bind_with (fun s a s1 hm => ?_)
      refine RootFrom.bind_last (fun c => RootFrom.bind_last (fun _ => RootFrom.pure _ ?_))
      intro e; simp only [rootVarX]; exact storage_root F fuel r i hst s a s1 hm e
    | setItem r idx a =>
      simp only [XExpr.isStorage] at hst
      simp only [evalX]
      refine RootFrom.bind_with (fun s xr s1 hm => ?_)
      refine RootFrom.bind_with (fun s2 x s3 hr => ?_)
      have hx := rootFrom_recvCell r xr s2 x s3 hr
      have hfin : ∀ ρ, (ρ = x.root ∨ IsTmp ρ) → (ρ = .var i → rootVarX (.setItem r idx a) = some i) := by
        intro ρ h1 h2
        simp only [rootVarX]
        rcases h1 with h1 | h1
        · rcases hx with hx | hx
          · exact storage_root F fuel r i hst s xr s1 hm (by rw [← hx, ← h1, h2])
          · rw [← h1, h2] at hx; exact hx.elim
        · rw [h2] at h1; exact h1.elim
      root_chain hfin
    | mem m r args =>
      simp only [XExpr.isStorage, Bool.and_eq_true] at hst
      simp only [evalX]
      refine RootFrom.bind_with (fun s xr s1 hm => ?_)
      refine RootFrom.bind_with (fun s2 x s3 hr => ?_)
      have hx : x.root = xr.root ∨ IsTmp x.root :=
        (RootFrom.ite (RootFrom.pure xr (Or.inl rfl)) (rootFrom_recvCell r xr)) s2 x s3 hr
      have hfin : ∀ ρ, (ρ = x.root ∨ IsTmp ρ) → (ρ = .var i → rootVarX (.mem m r args) = some i) := by
        intro ρ h1 h2
        simp only [rootVarX]
        rcases h1 with h1 | h1
        · rcases hx with hx | hx
          · exact storage_root F fuel r i hst.2 s xr s1 hm (by rw [← hx, ← h1, h2])
          · rw [← h1, h2] at hx; exact hx.elim
        · rw [h2] at h1; exact h1.elim
      root_chain hfin
    | cst _ => simp [XExpr.isStorage] at hst
    | un _ _ => simp [XExpr.isStorage] at hst
    | bin _ _ _ => simp [XExpr.isStorage] at hst
    | tab0 => simp [XExpr.isStorage] at hst
    | tab _ _ => simp [XExpr.isStorage] at hst
    | tup _ => simp [XExpr.isStorage] at hst
    | call _ _ => simp [XExpr.isStorage] at hst
    | bi _ _ => simp [XExpr.isStorage] at hst

/-- A storage expression never evaluates to (a cell of) a constant node. -/
theorem storage_not_cst (F : List XFun) : ∀ fuel e, e.isStorage = true →
    RootFrom (fun ρ => ∀ j, ρ ≠ .cst j) (evalX F fuel e)
  | 0, e, _ => by simp only [evalX]; exact RootFrom.fail _
  | fuel + 1, e, hst => by
    cases e with
    | var k =>
      intro s x s' h
      simp only [evalX] at h
      split at h <;> cases h
      intro j e; cases e
    | item r idx =>
      simp only [XExpr.isStorage] at hst
      simp only [evalX]
      refine RootFrom.bind_with (fun s a s1 hm => ?_)
      refine RootFrom.bind_last (fun c => RootFrom.bind_last (fun _ => RootFrom.pure _ ?_))
      exact storage_not_cst F fuel r hst s a s1 hm
    | setItem r idx a =>
      simp only [XExpr.isStorage] at hst
      simp only [evalX]
      refine RootFrom.bind_with (fun s xr s1 hm => ?_)
      refine RootFrom.bind_with (fun s2 x s3 hr => ?_)
      have hx := rootFrom_recvCell r xr s2 x s3 hr
      have hfin : ∀ ρ, (ρ = x.root ∨ IsTmp ρ) → (∀ j, ρ ≠ .cst j) := by
        intro ρ h1 j e
        rcases h1 with h1 | h1
        · rcases hx with hx | hx
          · exact storage_not_cst F fuel r hst s xr s1 hm j (by rw [← hx, ← h1, e])
          · rw [← h1, e] at hx; exact hx
        · rw [e] at h1; exact h1
      root_chain hfin
    | mem m r args =>
      simp only [XExpr.isStorage, Bool.and_eq_true] at hst
      simp only [evalX]
      refine RootFrom.bind_with (fun s xr s1 hm => ?_)
      refine RootFrom.bind_with (fun s2 x s3 hr => ?_)
      have hx : x.root = xr.root ∨ IsTmp x.root :=
        (RootFrom.ite (RootFrom.pure xr (Or.inl rfl)) (rootFrom_recvCell r xr)) s2 x s3 hr
      have hfin : ∀ ρ, (ρ = x.root ∨ IsTmp ρ) → (∀ j, ρ ≠ .cst j) := by
        intro ρ h1 j e
        rcases h1 with h1 | h1
        · rcases hx with hx | hx
          · exact storage_not_cst F fuel r hst.2 s xr s1 hm j (by rw [← hx, ← h1, e])
          · rw [← h1, e] at hx; exact hx
        · rw [e] at h1; exact h1
      root_chain hfin
    | cst _ => simp [XExpr.isStorage] at hst
    | un _ _ => simp [XExpr.isStorage] at hst
    | bin _ _ _ => simp [XExpr.isStorage] at hst
    | tab0 => simp [XExpr.isStorage] at hst
    | tab _ _ => simp [XExpr.isStorage] at hst
    | tup _ => simp [XExpr.isStorage] at hst
    | call _ _ => simp [XExpr.isStorage] at hst
    | bi _ _ => simp [XExpr.isStorage] at hst

/-- **An in-place member changes a variable cell only through a storage receiver rooted at that variable.**
`xr` is the cell the receiver expression `r` evaluates to, `x` the cell `MemberExpression::receiver()` hands to
put / insert / delete / concat / set@ (`recvCell`), i.e. the ONLY cell those members write (`wrRecv x …`). If `x` is a
variable slot or lies inside one (`x.root = .var i`), then `r` is a storage expression (`isStorage`: a variable, or an
element / item / chained type method of one), it is rooted at that very variable (`rootVarX r = some i`), and no copy
was made (`x = xr`). Contrapositive: a receiver that merely hands an operand through (`(s + null)`, `substr("", 0)`,
`idf(s)` …) is cloned or is a temporary — the member cannot reach a variable. For ALL function tables, fuels,
expressions and states satisfying the flag invariant. -/
theorem inplace_only_through_storage (F : List XFun) (fuel : Nat) (r : XExpr) (s s1 s2 : XS) (xr x : XLoc) (i : Nat)
    (hinv : FlagInvX s) (hev : evalX F fuel r s = .ok (xr, s1)) (hrc : recvCell r xr s1 = .ok (x, s2))
    (hroot : x.root = .var i) : r.isStorage = true ∧ rootVarX r = some i ∧ x = xr := by
  have hinv1 : FlagInv s1.st := (evalX_pres F fuel r s xr s1 hinv hev).flagInv hinv
  -- the receiver cell is the evaluated one, not a clone
  have hrc' := hrc
  simp only [recvCell, XM.bind, xget] at hrc'
  cases hg : s1.st.getX xr with
  | none => rw [hg] at hrc'; cases hrc'
  | some c =>
    rw [hg] at hrc'
    simp only at hrc'
    split at hrc'
    · have := rootFrom_xalloc c.val s1 x s2 hrc'
      rw [hroot] at this; exact this.elim
    · rename_i hcond
      simp only [XM.pure] at hrc'
      cases hrc'
      -- the cell carries the flag: its root is a variable slot
      have hlv : c.lv = true := by
        unfold Store.getX at hg
        cases hr : s1.st.root? xr.root with
        | none => rw [hr] at hg; cases hg
        | some c0 =>
          rw [hr] at hg
          simp only at hg
          cases hp : c0.val.getP xr.path with
          | none => rw [hp] at hg; cases hg
          | some v =>
            rw [hp] at hg; cases hg
            rw [hroot] at hr
            exact flagInv_root hinv1 (r := .var i) (c := c0) trivial hr
      -- not a literal node: a literal evaluates to its own constant cell
      have hncst : r.isCst = false := by
        cases r <;> simp only [XExpr.isCst] <;> try rfl
        rename_i j
        cases fuel with
        | zero => simp only [evalX, XM.fail] at hev; cases hev
        | succ n =>
          simp only [evalX] at hev
          split at hev <;> cases hev
          cases hroot
      have hst : r.isStorage = true := by
        cases hs : r.isStorage with
        | true => rfl
        | false => exact (hcond (by simp [hlv, hncst, hs])).elim
      exact ⟨hst, storage_root F fuel r i hst s xr s1 hev hroot, rfl⟩

/-- Non-vacuity: `x0.at(0)` as the receiver of `put` — a storage expression rooted at `x0`, handed on uncloned. -/
example :
    let t : Val := .tab { major := .int, level := 1 } [] [.int 7, .int 7]
    let s : XS := { st := { vars := [⟨.tab { major := .int, level := 2 } [] [t, t], true⟩], csts := [⟨.int 0, true⟩], pool := [], wm := 0 } }
    let r : XExpr := .mem .at (.var 0) [.cst 0]
    FlagInvX s ∧ ∃ s1, evalX [] 3 r s = .ok (⟨.var 0, [0]⟩, s1) ∧ recvCell r ⟨.var 0, [0]⟩ s1 = .ok (⟨.var 0, [0]⟩, s1) ∧
      r.isStorage = true ∧ rootVarX r = some 0 := by
  refine ⟨⟨by simp, by simp⟩, _, rfl, rfl, rfl, rfl⟩

/-- The cell an in-place member writes, if it is not a temporary, is the static receiver root of its receiver
expression (`recvRoot`): the variable a storage expression is rooted at, or the literal node itself. -/
theorem recv_root_in (F : List XFun) (fuel : Nat) (r : XExpr) (s s1 s2 : XS) (xr x : XLoc)
    (hinv : FlagInvX s) (hev : evalX F fuel r s = .ok (xr, s1)) (hrc : recvCell r xr s1 = .ok (x, s2))
    (hnt : NonTmp x.root) : x.root ∈ recvRoot r := by
  cases hroot : x.root with
  | tmp i => rw [hroot] at hnt; exact hnt.elim
  | var i =>
    obtain ⟨hst, hrv, _⟩ := inplace_only_through_storage F fuel r s s1 s2 xr x i hinv hev hrc hroot
    cases r <;> simp_all [recvRoot, XExpr.isStorage]
  | cst j =>
    have hinv1 : FlagInv s1.st := (evalX_pres F fuel r s xr s1 hinv hev).flagInv hinv
    have hrc' := hrc
    simp only [recvCell, XM.bind, xget] at hrc'
    cases hg : s1.st.getX xr with
    | none => rw [hg] at hrc'; cases hrc'
    | some c =>
      rw [hg] at hrc'
      simp only at hrc'
      split at hrc'
      · have := rootFrom_xalloc c.val s1 x s2 hrc'
        rw [hroot] at this; exact this.elim
      · rename_i hcond
        simp only [XM.pure] at hrc'
        cases hrc'
        have hlv : c.lv = true := by
          unfold Store.getX at hg
          cases hr : s1.st.root? xr.root with
          | none => rw [hr] at hg; cases hg
          | some c0 =>
            rw [hr] at hg
            simp only at hg
            cases hp : c0.val.getP xr.path with
            | none => rw [hp] at hg; cases hg
            | some v =>
              rw [hp] at hg; cases hg
              rw [hroot] at hr
              exact flagInv_root hinv1 (r := .cst j) (c := c0) trivial hr
        have hnst : r.isStorage = false := by
          cases hs : r.isStorage with
          | false => rfl
          | true => exact (storage_not_cst F fuel r hs s xr s1 hev j hroot).elim
        have hc : r.isCst = true := by
          cases hs : r.isCst with
          | true => rfl
          | false => exact (hcond (by simp [hlv, hnst, hs])).elim
        cases r <;> simp only [XExpr.isCst] at hc <;> try cases hc
        rename_i k
        cases fuel with
        | zero => simp only [evalX, XM.fail] at hev; cases hev
        | succ n =>
          simp only [evalX] at hev
          split at hev <;> cases hev
          cases hroot
          simp [recvRoot]

/-- silent primitive steps of the footprint proof -/
macro "logs_prim" : tactic => `(tactic| first
  | exact Logs.silent (silent_pure _) | exact Logs.silent (silent_fail _) | exact Logs.silent (silent_lift _)
  | exact Logs.silent (silent_xalloc _) | exact Logs.silent (silent_xlval1 _ _) | exact Logs.silent (silent_xlval2 _ _ _)
  | exact Logs.silent (silent_xplace _ _ _ _) | exact Logs.silent (silent_atResult _ _ _ _)
  | refine Logs.bind_silent (silent_xget _) (pres_xget _) (fun _ => ?_)
  | refine Logs.bind_silent (silent_lift _) (Pres.lift _) (fun _ => ?_)
  | refine Logs.bind_silent silent_logLen pres_logLen (fun _ => ?_)
  | refine Logs.bind_silent (silent_checkHeld _ _) (pres_checkHeld _ _) (fun _ => ?_)
  | refine Logs.bind_silent (silent_takeArg _) (pres_takeArg _) (fun _ => ?_)
  | apply Logs.ite)

macro "logs_auto" ih:ident ihp:ident : tactic => `(tactic| repeat (first
  | logs_prim
  | refine Logs.bind' (Logs.mono (by intro ρ h; simp [h]) ($ih _)) ($ihp _) (fun _ => ?_)))

macro "logs_mem" ih:ident ihp:ident hx:ident : tactic => `(tactic| repeat (first
  | contradiction
  | exact logs_finishInPlace _ _ _ _ _ (fun hnt => by have hmem := $hx (by decide) hnt; simp [hmem])
  | exact Logs.bind' (logs_wrRecv _ _ (fun hnt => by have hmem := $hx (by decide) hnt; simp [hmem])) (pres_wrRecv _ _) (fun _ => Logs.silent (silent_pure _))
  | logs_prim
  | refine Logs.bind' (Logs.mono (by intro ρ h; simp [h]) ($ih _)) ($ihp _) (fun _ => ?_)))

/-- **(a'), static: the dynamic log is inside the static footprint.** For every function table, fuel and expression:
whatever an evaluation from a state satisfying the flag invariant adds to the log lies in `fpE F fuel e`, a list computed
from the program text alone. With `evalX_frame`: every variable slot and constant node outside `fpE F fuel e` (and not
logged before) is untouched by evaluating `e`. -/
theorem evalX_logs (F : List XFun) : ∀ fuel e, Logs (fpE F fuel e) (evalX F fuel e)
  | 0, e => by simp only [evalX]; exact Logs.silent (silent_fail _)
  | fuel + 1, e => by
    have ih := evalX_logs F fuel
    have ihp := evalX_pres F fuel
    cases e with
    | cst i =>
      refine Logs.silent (fun s a s' h => ?_)
      simp only [evalX] at h
      split at h <;> cases h
      rfl
    | var i =>
      refine Logs.silent (fun s a s' h => ?_)
      simp only [evalX] at h
      split at h <;> cases h
      rfl
    | un op a => simp only [evalX, fpE]; logs_auto ih ihp
    | bin op a b => simp only [evalX, fpE]; logs_auto ih ihp
    | item r idx => simp only [evalX, fpE]; logs_auto ih ihp
    | tab0 => simp only [evalX, fpE]; logs_auto ih ihp
    | tab n a =>
      simp only [evalX, fpE]
      refine Logs.bind' (Logs.mono (by intro ρ h; simp [h]) (ih _)) (ihp _) (fun x0 => ?_)
      refine Logs.bind_silent (silent_xget _) (pres_xget _) (fun c0 => ?_)
      apply Logs.ite
      · logs_auto ih ihp
      · refine Logs.bind_silent (silent_lift _) (Pres.lift _) (fun k => ?_)
        apply Logs.ite
        · logs_prim
        · apply Logs.ite
          · logs_prim
          · refine Logs.bind' (Logs.mono (by intro ρ h; simp [h]) (ih _)) (ihp _) (fun x1 => ?_)
            refine Logs.bind_silent (silent_xget _) (pres_xget _) (fun c1 => ?_)
            refine Logs.bind_silent (silent_lift _) (Pres.lift _) (fun hd => ?_)
            apply Logs.ite
            · logs_prim
            · refine Logs.bind_silent (silent_takeArg _) (pres_takeArg _) (fun v1 => ?_)
              refine Logs.bind' (logs_tabStep (Logs.mono (by intro ρ h; simp [h]) (ih a)) (ihp a) _ _ _) (pres_tabStep (ihp a) _ _ _) (fun es => ?_)
              logs_prim
    | tup args =>
      simp only [evalX, fpE]
      split
      · logs_prim
      · refine Logs.bind' (logs_tupStep ihp _ _ (fun a ha => Logs.mono ?_ (ih a))) (pres_tupStep ihp _ _) (fun items => ?_)
        · intro ρ h
          exact List.mem_flatten.mpr ⟨_, List.mem_map.mpr ⟨a, ha, rfl⟩, h⟩
        · logs_prim
    | bi name args =>
      simp only [evalX, fpE]
      refine Logs.bind' (logs_biArgs ihp _ _ (fun a ha => Logs.mono ?_ (ih a))) (pres_biArgs ihp _ _) (fun xn => ?_)
      · intro ρ h
        exact List.mem_flatten.mpr ⟨_, List.mem_map.mpr ⟨a, ha, rfl⟩, h⟩
      · refine Logs.bind_silent (silent_biHeld _) (pres_biHeld _) (fun _ => ?_)
        refine Logs.bind_silent (silent_xgets _) (pres_xgets _) (fun vs => ?_)
        split
        · logs_prim
        · refine Logs.bind_silent (silent_lift _) (Pres.lift _) (fun v => ?_)
          exact Logs.silent (silent_xplaceBi _ _ _)
    | call f args =>
      simp only [evalX, fpE]
      cases hfn : F[f]? with
      | none => simp only; logs_prim
      | some fn =>
        simp only
        apply Logs.ite
        · logs_prim
        · refine Logs.of_at (fun s => ?_)
          refine LogsAt.bind (LogsAt.of (logs_bindArgs ihp _ _ _ (fun a ha => Logs.mono ?_ (ih a))) s) (pres_bindArgs ihp _ _ _) (fun callee s1 hi hb => ?_)
          · intro ρ h
            apply List.mem_append_left
            exact List.mem_flatten.mpr ⟨_, List.mem_map.mpr ⟨a, ha, rfl⟩, h⟩
          · have hfl := bindArgs_flagged (evalX F fuel) args 0 (calleeStore fn) s callee s1 (varsFlagged_callee fn) hb
            refine LogsAt.of ?_ s1
            refine Logs.bind' (logs_inCallee (logs_execBody ihp ih fn.body) callee hfl ?_) (pres_inCallee (pres_execBody ihp fn.body) callee hfl) (fun ret => ?_)
            · intro ρ hρ hc
              apply List.mem_append_right
              exact List.mem_filter.mpr ⟨bodyFp_cst _ _ _ hρ hc, hc⟩
            · cases ret <;> logs_prim
    | setItem r idx a =>
      simp only [evalX, fpE]
      refine Logs.of_at (fun s => ?_)
      refine LogsAt.bind (LogsAt.of (Logs.mono (by intro ρ h; simp [h]) (ih r)) s) (ihp r) (fun xr s1 hi hm => ?_)
      refine LogsAt.bind (LogsAt.silent (silent_recvCell r xr)) (pres_recvCell r xr) (fun x s2 _ hrc => ?_)
      have hx : NonTmp x.root → x.root ∈ recvRoot r := recv_root_in F fuel r s s1 s2 xr x hi hm hrc
      refine LogsAt.of ?_ s2
      refine Logs.bind_silent (silent_xget _) (pres_xget _) (fun c => ?_)
      apply Logs.ite
      · logs_prim
      · refine Logs.bind_silent silent_logLen pres_logLen (fun n0 => ?_)
        refine Logs.bind' (Logs.mono (by intro ρ h; simp [h]) (ih a)) (ihp a) (fun x0 => ?_)
        refine Logs.bind_silent (silent_checkHeld _ _) (pres_checkHeld _ _) (fun _ => ?_)
        refine Logs.bind_silent (silent_xget _) (pres_xget _) (fun c' => ?_)
        refine Logs.bind_silent (silent_xget _) (pres_xget _) (fun c0 => ?_)
        refine Logs.bind_silent (silent_lift _) (Pres.lift _) (fun rr => ?_)
        refine Logs.bind_silent (silent_takeArg _) (pres_takeArg _) (fun _ => ?_)
        refine Logs.bind' (logs_wrRecv x rr.2 (fun hnt => by simp [hx hnt])) (pres_wrRecv _ _) (fun _ => ?_)
        logs_prim
    | mem m r args =>
      simp only [evalX, fpE]
      refine Logs.of_at (fun s => ?_)
      refine LogsAt.bind (LogsAt.of (Logs.mono (by intro ρ h; simp [h]) (ih r)) s) (ihp r) (fun xr s1 hi hm => ?_)
      have hargs : ∀ a ∈ args, ∀ ρ ∈ fpE F fuel a, ρ ∈ (match m with | .count => [] | .at => [] | _ => recvRoot r) ++ fpE F fuel r ++ (args.map (fpE F fuel)).flatten := by
        intro a ha ρ h
        apply List.mem_append_right
        exact List.mem_flatten.mpr ⟨_, List.mem_map.mpr ⟨a, ha, rfl⟩, h⟩
      refine LogsAt.bind (LogsAt.silent ?_) (Pres.ite (Pres.pure _) (pres_recvCell r xr)) (fun x s2 _ hrc => ?_)
      · intro s' a' s'' h
        split at h
        · exact silent_pure _ s' a' s'' h
        · exact silent_recvCell _ _ s' a' s'' h
      have hx : (m == .count || m == .at) = false → NonTmp x.root → x.root ∈ recvRoot r := by
        intro hc hnt
        rw [hc] at hrc
        exact recv_root_in F fuel r s s1 s2 xr x hi hm (by simpa using hrc) hnt
      refine LogsAt.of ?_ s2
      refine Logs.bind_silent silent_logLen pres_logLen (fun n0 => ?_)
      cases m <;> simp only [] <;> (split <;> logs_mem ih ihp hx)

/-- **(a) with the static footprint.** Evaluating `e` from a state with an empty log and the flag invariant: every
variable slot and every constant node that does not occur in `fpE F fuel e` — a list computed from the text of `e`
and of the functions it calls — is untouched (whole cell: value with all elements, and flag). -/
theorem evalX_frame_static (F : List XFun) (fuel : Nat) (e : XExpr) (s s' : XS) (x : XLoc) (hinv : FlagInvX s)
    (hlog : s.log = []) (h : evalX F fuel e s = .ok (x, s')) (r : Loc) (hr : NonTmp r) (hn : r ∉ fpE F fuel e) :
    s'.st.root? r = s.st.root? r := by
  obtain ⟨l, e1, hl⟩ := evalX_logs F fuel e s x s' hinv h
  refine (evalX_frame F fuel e s s' x hinv h).2.1 r hr ?_
  rw [e1, hlog, List.append_nil]
  exact fun hm => hn (hl r hm)

/-- The static footprint of `x1.put(0, x0.at(1)) + (x2 + null).concat("s").count()` is {x1}: `x0` is only read, the
receiver `(x2 + null)` is not a storage expression. -/
example :
    fpE [] 6 (.bin .add (.mem .put (.var 1) [.cst 0, .mem .at (.var 0) [.cst 1]])
                        (.mem .count (.mem .concat (.bin .add (.var 2) (.cst 2)) [.cst 3]) [])) = [.var 1] := by
  rfl

/-! ### Built-ins of two and more arguments (`XExpr.bi`, placement table `biPlace`) -/

/-- **Every result-placement combinator a built-in uses writes pool slots only.** For every placement (`thru`, `fresh`,
LVAL1 on the first argument, LVAL2 on the first two), every result value, every list of argument cells — whatever mix of
variables, constants, table elements, tuple items and temporaries they are — and every state satisfying the flag
invariant: the lists of variable slots and of constant nodes afterwards are IDENTICAL to those before (whole cells: the
value with all its elements / items at every depth, and the flag) and nothing is logged. -/
theorem reuse_only_temporaries (p : BiPlace) (v : Val) (xs : List XLoc) (s s' : XS) (x : XLoc) (hinv : FlagInvX s)
    (h : xplaceBi p v xs s = .ok (x, s')) :
    s'.st.vars = s.st.vars ∧ s'.st.csts = s.st.csts ∧ s'.log = s.log := by
  unfold xplaceBi at h
  split at h
  · cases h; exact ⟨rfl, rfl, rfl⟩
  · simp only [xalloc] at h; cases h; exact ⟨rfl, rfl, rfl⟩
  · exact xlval1_same _ _ s s' x hinv h
  · exact xlval2_same _ _ _ s s' x hinv h
  · simp only [XM.fail] at h; cases h

/-- non-vacuity: (stored, temporary) — the pattern of seeded change C05-m7 — with LVAL2: the temporary receives the
result, the variable cell is untouched; and the MERGED combinator of that change (`xlval2Merged`, not in the model)
overwrites the variable: the theorem above is false for it. -/
example :
    let s : XS := { st := { vars := [⟨.int 3, true⟩], csts := [], pool := [⟨.int 4, false⟩], wm := 1 } }
    FlagInvX s ∧
    (∃ s', xplaceBi .l2 (.int 9) [⟨.var 0, []⟩, ⟨.tmp 0, []⟩] s = .ok (⟨.tmp 0, []⟩, s') ∧
       s'.st.vars.map (·.val) = [.int 3] ∧ s'.st.pool.map (·.val) = [.int 9]) ∧
    (∃ s', xlval2Merged (.int 9) ⟨.var 0, []⟩ ⟨.tmp 0, []⟩ s = .ok (⟨.var 0, []⟩, s') ∧ s'.st.vars.map (·.val) = [.int 9]) := by
  refine ⟨⟨by simp, by simp⟩, ⟨_, rfl, rfl, rfl⟩, ⟨_, rfl, rfl⟩⟩

/-- **A built-in call changes nothing but pool slots**, for every built-in name, every argument list (any length, any
argument expressions of the extended language: variables, constants, `t.at(i)`, `u@n`, operator results, function
results, nested built-ins), every function table and fuel: from a state with the flag invariant and an empty log, a
variable slot / constant node outside the static footprint OF THE ARGUMENTS is untouched as a whole cell — the built-in
itself contributes nothing to the footprint (`fpE … (.bi name args)` = the arguments' footprints). -/
theorem builtin_call_frame (F : List XFun) (fuel : Nat) (name : String) (args : List XExpr) (s s' : XS) (x : XLoc)
    (hinv : FlagInvX s) (hlog : s.log = []) (h : evalX F (fuel + 1) (.bi name args) s = .ok (x, s'))
    (r : Loc) (hr : NonTmp r) (hn : ∀ a ∈ args, r ∉ fpE F fuel a) :
    s'.st.root? r = s.st.root? r ∧ FlagInvX s' := by
  refine ⟨evalX_frame_static F (fuel + 1) (.bi name args) s s' x hinv hlog h r hr ?_,
          flagInvX_preserved_expr F (fuel + 1) (.bi name args) s s' x hinv h⟩
  simp only [fpE]
  intro hm
  obtain ⟨l, hl, hrl⟩ := List.mem_flatten.mp hm
  obtain ⟨a, ha, rfl⟩ := List.mem_map.mp hl
  exact hn a ha hrl

/-- non-vacuity through the whole evaluator: `max(x0, c0 + c1)` with x0 = 3, the literals 4 and 1: the temporary of
`c0 + c1` receives 5, x0 and both constant nodes keep their cells; `max(c0 + c1, x0)` likewise. -/
example :
    let s : XS := { st := { vars := [⟨.int 3, true⟩], csts := [⟨.int 4, true⟩, ⟨.int 1, true⟩], pool := [], wm := 0 } }
    FlagInvX s ∧
    (∃ s', evalX [] 4 (.bi "max" [.var 0, .bin .add (.cst 0) (.cst 1)]) s = .ok (⟨.tmp 0, []⟩, s') ∧
       s'.st.vars.map (·.val) = [.int 3] ∧ s'.st.csts.map (·.val) = [.int 4, .int 1] ∧ s'.st.pool.map (·.val) = [.int 5]) ∧
    (∃ s', evalX [] 4 (.bi "max" [.bin .add (.cst 0) (.cst 1), .var 0]) s = .ok (⟨.tmp 0, []⟩, s') ∧
       s'.st.vars.map (·.val) = [.int 3] ∧ s'.st.pool.map (·.val) = [.int 5]) := by
  refine ⟨⟨by simp, by simp⟩, ⟨_, rfl, rfl, rfl, rfl⟩, ⟨_, rfl, rfl, rfl⟩⟩

/-! ### Operators: the placement combinators at element level, and the flag of the result cell (C05R4) -/

/-- **Every result placement of an operator writes pool slots only**, at the level of the extended model (operand cells may be
variables, constant nodes, table elements, tuple items at any depth, temporaries): for EVERY placement `p` — in particular
`binPlace op a1 a2` of every binary operator and every pair of operand values, `unPlace op a` of every unary operator, and the
LVAL1 of the short-circuit branch of `and` / `or` —, every result value, every pair of operand cells `x1`, `x2` (both orders: they
are universally quantified) and every state with the flag invariant: `vars` and `csts` afterwards are IDENTICAL lists of whole
cells and nothing is logged. (Root-cell level, old fragment: `place_frame`, `lval1_frame`, `lval2_frame` above; this is their
analogue for `xplace`, which `evalX` uses.) -/
theorem operator_reuse_only_temporaries (p : Place) (v : Val) (x1 x2 : XLoc) (s s' : XS) (x : XLoc) (hinv : FlagInvX s) :
    (xplace p v x1 x2 s = .ok (x, s') → s'.st.vars = s.st.vars ∧ s'.st.csts = s.st.csts ∧ s'.log = s.log) ∧
    (xlval1 v x1 s = .ok (x, s') → s'.st.vars = s.st.vars ∧ s'.st.csts = s.st.csts ∧ s'.log = s.log) := by
  refine ⟨fun h => ?_, fun h => xlval1_same _ _ s s' x hinv h⟩
  cases p <;> simp only [xplace] at h
  · simp only [XM.pure] at h; cases h; exact ⟨rfl, rfl, rfl⟩
  · simp only [XM.pure] at h; cases h; exact ⟨rfl, rfl, rfl⟩
  · exact xlval1_same _ _ s s' x hinv h
  · exact xlval2_same _ _ _ s s' x hinv h

/-- non-vacuity, both operand orders, an element cell as the stored operand: `x0.at(1) - t` and `t - x0.at(1)` with LVAL2:
the temporary receives the result, the table in `x0` keeps its element. -/
example :
    let tb : Val := .tab { major := .int, level := 1 } [] [.int 7, .int 8]
    let s : XS := { st := { vars := [⟨tb, true⟩], csts := [], pool := [⟨.int 1, false⟩], wm := 1 } }
    FlagInvX s ∧
    (∃ s', xplace (binPlace .sub (.int 8) (.int 1)) (.int 7) ⟨.var 0, [1]⟩ ⟨.tmp 0, []⟩ s = .ok (⟨.tmp 0, []⟩, s') ∧
       s'.st.vars.map (·.val) = [tb] ∧ s'.st.pool.map (·.val) = [.int 7]) ∧
    (∃ s', xplace (binPlace .sub (.int 1) (.int 8)) (.int (-7)) ⟨.tmp 0, []⟩ ⟨.var 0, [1]⟩ s = .ok (⟨.tmp 0, []⟩, s') ∧
       s'.st.vars.map (·.val) = [tb] ∧ s'.st.pool.map (·.val) = [.int (-7)]) := by
  refine ⟨⟨by simp, by simp⟩, ⟨_, rfl, rfl, rfl⟩, ⟨_, rfl, rfl, rfl⟩⟩

macro "ppool_auto" ih:ident : tactic => `(tactic| repeat (first
  | exact PPool.pure _ | exact PPool.fail _ | exact PPool.lift _ | exact ppool_xget _ | exact ppool_logLen | exact ppool_checkHeld _ _
  | exact ppool_xalloc _ | exact ppool_xlval1 _ _ | exact ppool_xlval2 _ _ _ | exact ppool_xplace _ _ _ _ | exact ppool_takeArg _
  | exact ppool_wrRecv _ _ | exact ppool_recvCell _ _ | exact ppool_finishInPlace _ _ _ _ _ | exact ppool_atResult _ _ _ _
  | exact $ih _ | exact ppool_tabStep ($ih _) _ _ _ | exact ppool_tupStep $ih _ _ | exact ppool_bindArgs $ih _ _ _
  | exact ppool_inCallee _ _
  | exact ppool_biArgs $ih _ _ | exact ppool_biHeld _ | exact ppool_xgets _ | exact ppool_xplaceBi _ _ _
  | apply PPool.bind | apply PPool.ite | split | intro _))

/-- No pool slot ever carries LVALUE: the pool invariant is preserved by every expression of the extended language. -/
theorem evalX_ppool (F : List XFun) : ∀ fuel e, PPool (evalX F fuel e)
  | 0, e => by simp only [evalX]; exact PPool.fail _
  | fuel + 1, e => by
    have ih := evalX_ppool F fuel
    cases e with
    | cst i =>
      intro s a s' hi h
      simp only [evalX] at h
      split at h <;> cases h
      exact hi
    | var i =>
      intro s a s' hi h
      simp only [evalX] at h
      split at h <;> cases h
      exact hi
    | un op a => simp only [evalX]; ppool_auto ih
    | bin op a b => simp only [evalX]; ppool_auto ih
    | mem m r args => simp only [evalX]; ppool_auto ih
    | item r idx => simp only [evalX]; ppool_auto ih
    | setItem r idx a => simp only [evalX]; ppool_auto ih
    | tab0 => simp only [evalX]; ppool_auto ih
    | tab n a => simp only [evalX]; ppool_auto ih
    | tup args => simp only [evalX]; ppool_auto ih
    | call f args => simp only [evalX]; ppool_auto ih
    | bi name args => simp only [evalX]; ppool_auto ih

/-- **The LVALUE flag of the result cell is set exactly when the result designates a storage.** For every node kind of the
extended language (constants, variables, unary / binary operators with every placement, `at`, `count`, the in-place members, `@N`,
`set@N`, `tab`, `tup`, user-function calls, the built-ins of two and more arguments with `thru` / `fresh` / `l1` / `l2`), every
function table and fuel, every state with the flag invariant and the pool invariant (no pool slot carries LVALUE: true of the
empty pool, preserved by everything — `evalX_ppool`): the cell `evalX` returns (`getX`: value under the path, flag of the root)
has its flag set IFF its root is a variable slot or a constant node — the variable / constant itself or an element / item below
it — and clear IFF it is a pool slot (a temporary, or an element of a temporary container). This is the flag the probe op
`exprf` prints, compared by the family `result_flag`. -/
theorem placement_flag_sound (F : List XFun) (fuel : Nat) (e : XExpr) (s s' : XS) (x : XLoc) (c : Cell)
    (hinv : FlagInvX s) (hpool : PoolInv s.st) (h : evalX F fuel e s = .ok (x, s')) (hc : s'.st.getX x = some c) :
    (c.lv = true ↔ NonTmp x.root) ∧ PoolInv s'.st ∧ FlagInvX s' := by
  have hf' : FlagInvX s' := flagInvX_preserved_expr F fuel e s s' x hinv h
  have hp' : PoolInv s'.st := evalX_ppool F fuel e s x s' hpool h
  refine ⟨?_, hp', hf'⟩
  unfold Store.getX at hc
  cases hr : s'.st.root? x.root with
  | none => rw [hr] at hc; cases hc
  | some c0 =>
    rw [hr] at hc
    simp only at hc
    cases hg : c0.val.getP x.path with
    | none => rw [hg] at hc; cases hc
    | some v =>
      rw [hg] at hc
      cases hc
      show c0.lv = true ↔ NonTmp x.root
      cases hx : x.root with
      | var i => rw [hx] at hr; exact ⟨fun _ => trivial, fun _ => flagInv_root hf' (r := .var i) trivial hr⟩
      | cst i => rw [hx] at hr; exact ⟨fun _ => trivial, fun _ => flagInv_root hf' (r := .cst i) trivial hr⟩
      | tmp i =>
        rw [hx] at hr
        simp only [Store.root?] at hr
        have : c0.lv = false := hp' c0 (List.mem_of_getElem? hr)
        constructor
        · intro h1; rw [this] at h1; cases h1
        · intro h1; exact h1.elim

/-- non-vacuity: `x0.at(1)` is an element of the variable (flag set, root `x0`); `max(x0.at(1), 3)` lands in a pool slot
(flag clear); a typed-null first argument of `round` is handed through (`thru`): flag set. -/
example :
    let tb : Val := .tab { major := .int, level := 1 } [] [.int 7, .int 8]
    let s : XS := { st := { vars := [⟨tb, true⟩, ⟨.null Ty.num, true⟩], csts := [⟨.int 1, true⟩, ⟨.int 3, true⟩], pool := [], wm := 0 } }
    FlagInvX s ∧ PoolInv s.st ∧
    (∃ s', evalX [] 4 (.mem .at (.var 0) [.cst 0]) s = .ok (⟨.var 0, [1]⟩, s') ∧ (s'.st.getX ⟨.var 0, [1]⟩).map (·.lv) = some true) ∧
    (∃ s', evalX [] 5 (.bi "max" [.mem .at (.var 0) [.cst 0], .cst 1]) s = .ok (⟨.tmp 0, []⟩, s') ∧
       (s'.st.getX ⟨.tmp 0, []⟩).map (fun c => (c.val, c.lv)) = some (.int 8, false)) ∧
    (∃ s', evalX [] 4 (.bi "round" [.var 1, .cst 0]) s = .ok (⟨.var 1, []⟩, s') ∧ (s'.st.getX ⟨.var 1, []⟩).map (·.lv) = some true) := by
  refine And.intro ⟨by simp, by simp⟩ (And.intro ?_ ⟨⟨_, rfl, rfl⟩, ⟨_, rfl, rfl⟩, ⟨_, rfl, rfl⟩⟩)
  intro c hc
  cases hc

end Extended

end BlocV.C05
