/-
  C16 — an untrusted context can never obtain an object of a module it was not granted.
  Property theorems about Model/Plugin.lean, part Perm. Spec: Spec/Plugin.lean (`mayConstruct`, `mayImportPath`,
  `mayInclude`). Helper lemmas (the invariant and its preservation): Proofs/Lemmas/Perm.lean.
-/
import BlocV.Model.Plugin
import BlocV.Spec.Plugin
import BlocV.Proofs.Lemmas.Perm

set_option linter.unusedSimpArgs false
set_option linter.unusedVariables false

namespace BlocV.Proofs.C16
open BlocV.Plugin BlocV.Plugin.Perm BlocV.Spec.Plugin BlocV.Proofs.Perm

deriving instance DecidableEq for Except

/-- **object_implies_granted.** After ANY history of host operations (unban, clear, new context trusted or not, set
trusted, clone, free, purge, compile any program in any context, run any executable in any context, free executables)
and whatever the loader finds, every module object present in any context was created by a constructor call whose
compilation saw `mayConstruct`: if the compiling context was untrusted at that moment, the module's name was in the
granted list at that moment. Whether the module was loaded before, by whom, and where the call stands (top level,
function body, included file, clone) does not appear in the statement because it does not matter. -/
theorem object_implies_granted (ext : Ext) (ops : List HostOp) (k : Nat) (c : Ctx) (o : Obj)
    (hc : getCtx (hostRun ext World.init ops) k = some c) (ho : o ∈ c.objs) :
    o.t.ctxTrusted = false → o.t.granted = true := by
  have hw := hostRun_ok ext ops World.init init_ok
  have := ((hw.ctxs c (getCtx_mem hc)).objs o ho).1
  intro hf
  rcases this with h | h
  · rw [hf] at h; cases h
  · exact h

/-- the tag is what the test saw: a constructor node is produced exactly when `mayConstruct` holds, and records it -/
theorem ctor_compiles_iff (ext : Ext) (tr : Bool) (funs : Funs) (p : Proc) (m : Name) (hl : p.isLoaded m = true) :
    ((compileSimple ext tr funs p (.ctor m)).2 = .ok (.ctor m ⟨tr, p.isGranted m⟩) ↔ mayConstruct tr p.granted m) ∧
    (¬ mayConstruct tr p.granted m → (compileSimple ext tr funs p (.ctor m)).2 = .error .restrictedCtor) := by
  simp only [compileSimple, hl, ↓reduceIte, mayConstruct]
  cases tr <;> cases hg : p.isGranted m <;> simp [Proc.isGranted] at hg ⊢ <;> simp [hg]

/-- **Corollary for embedded use (the C API can create only untrusted contexts and cannot set the flag).** If no
context was ever trusted in the history, every module object in every context belongs to a module whose name was
passed to `unban` at some earlier point of the history. In particular a module that was never granted never yields an
object, whoever loaded it. -/
theorem untrusted_history_objects_granted (ext : Ext) (ops : List HostOp) (k : Nat) (c : Ctx) (o : Obj)
    (hts : (hostRun ext World.init ops).trustedSeen = false)
    (hc : getCtx (hostRun ext World.init ops) k = some c) (ho : o ∈ c.objs) :
    o.m ∈ (hostRun ext World.init ops).proc.everGranted := by
  have hw := hostRun_ok ext ops World.init init_ok
  obtain ⟨h1, h2, h3⟩ := (hw.ctxs c (getCtx_mem hc)).objs o ho
  rcases h1 with h | h
  · have := h3 h; rw [hts] at this; cases this
  · exact h2 h

/-! Non-vacuity: a history in which an untrusted context holds an object (granted, compiled, then the grant is
cleared before the run: the property speaks about the moment of compilation). -/
def extDemo : Ext :=
  { byName := fun n => if n = "vmod" then some ⟨"libbloc_vmod.so", "vmod"⟩ else none
    byPath := fun p => if p = "/x/libbloc_vmod.so" then some ⟨"libbloc_vmod.so", "vmod"⟩ else none
    source := fun f => if f = "inc.bloc" then some [.simple (.ctor "vmod")] else none }

def demoOps : List HostOp :=
  [.newCtx false, .unban "vmod", .compile 0 [.simple (.importName "vmod"), .func "F" [.ctor "vmod"], .simple (.call "F")],
   .clearPerms, .run 0 0]

example : ((getCtx (hostRun extDemo World.init demoOps) 0).map fun c => c.objs) = some [⟨"vmod", ⟨false, true⟩⟩] := by decide
example : (hostRun extDemo World.init demoOps).trustedSeen = false := by decide

/-- **Scope of `object_implies_granted`, made explicit (independent audit, session 3).** The guarantee is about the context a
constructor call is COMPILED in. `Executable::run(Context&, statements)` is a public static of the C++ class (it is how clones run a
shared program), so a HOST can run statements compiled in a trusted context inside an untrusted one: the history below — a trusted
context compiles `import vmod; vmod();`, an untrusted context is created, the executable is run in it — leaves an object of the
never-granted module in the untrusted context 1, and `object_implies_granted` still holds (the object's tag says: compiled trusted).
That is a host action with the host's own trust, outside the property ("a SCRIPT can create an object … only if … granted … before
compilation"); for everything the C API can do no context is ever trusted and `untrusted_history_objects_granted` is unconditional. -/
theorem trusted_compiled_code_run_in_untrusted_context_witness :
    let ops : List HostOp := [.newCtx true, .compile 0 [.simple (.importName "vmod"), .simple (.ctor "vmod")], .newCtx false, .run 0 1]
    ((getCtx (hostRun extDemo World.init ops) 1).map fun c => (c.trusted, c.objs)) = some (false, [⟨"vmod", ⟨true, false⟩⟩]) ∧
    (hostRun extDemo World.init ops).proc.everGranted = [] ∧
    (hostRun extDemo World.init ops).trustedSeen = true := by decide

/-! ### refusals and the trusted case -/

/-- **path_import_refused.** In an untrusted context `import "<path>";` is refused wherever it stands, and the process
is unchanged (nothing is loaded). -/
theorem path_import_refused (ext : Ext) (funs : Funs) (p : Proc) (path : String) :
    compileSimple ext false funs p (.importPath path) = (p, .error .restrictedPath) := by
  simp [compileSimple]

/-- ... also as a whole program, whatever precedes it compiles to: the compilation of a text whose first failing
statement is the path import is rejected with that error. -/
theorem path_import_refused_top (ext : Ext) (fuel depth : Nat) (p : Proc) (funs : Funs) (path : String) (rest : List Top) :
    (compileTops ext false (fuel + 1) depth p funs (.simple (.importPath path) :: rest)).res = .error .restrictedPath ∧
    (compileTops ext false (fuel + 1) depth p funs (.simple (.importPath path) :: rest)).proc = p := by
  simp [compileTops, compileList, compileSimple]

/-- **include_refused.** In an untrusted context `include "<file>";` is refused; the file is not even looked up
(`ext.source` does not appear in the result) and the process is unchanged. -/
theorem include_refused (ext : Ext) (fuel depth : Nat) (p : Proc) (funs : Funs) (file : String) (rest : List Top) :
    (compileTops ext false (fuel + 1) depth p funs (.incl file :: rest)).res = .error .restrictedInclude ∧
    (compileTops ext false (fuel + 1) depth p funs (.incl file :: rest)).proc = p ∧
    (compileTops ext false (fuel + 1) depth p funs (.incl file :: rest)).funs = funs := by
  simp [compileTops, compileList]

example : (compileTops extDemo false compFuel 0 Proc.init [] [.incl "inc.bloc"]).res = .error .restrictedInclude := by decide
example : (compileTops extDemo false compFuel 0 Proc.init [] [.simple (.importPath "/x/libbloc_vmod.so")]).res = .error .restrictedPath := by decide

/-- **trusted_unrestricted.** In a trusted context the constructor of any loaded module compiles whatever the granted
list holds; import by path reaches the loader; include reaches the file. -/
theorem trusted_unrestricted (ext : Ext) (funs : Funs) (p : Proc) (m : Name) (hl : p.isLoaded m = true) :
    (compileSimple ext true funs p (.ctor m)).2 = .ok (.ctor m ⟨true, p.isGranted m⟩) := by
  simp [compileSimple, hl]

theorem trusted_import_path (ext : Ext) (funs : Funs) (p : Proc) (path : String) (l : Lib) (h : ext.byPath path = some l)
    (hr : (p.register l).2 = true) :
    compileSimple ext true funs p (.importPath path) = ((p.register l).1, .ok .nop) := by
  simp only [compileSimple, Bool.not_true, Bool.false_eq_true, ↓reduceIte, h]
  cases hreg : p.register l with
  | mk p' ok =>
    rw [hreg] at hr
    simp only at hr
    simp [hr]

example : (compileTops extDemo true compFuel 0 Proc.init []
    [.simple (.importPath "/x/libbloc_vmod.so"), .incl "inc.bloc", .simple (.ctor "vmod")]).res
    = .ok [.nop, .ctor "vmod" ⟨true, false⟩, .ctor "vmod" ⟨true, false⟩] := by decide

/-- **ctor_everywhere.** The permission test is reached wherever the constructor call stands: at top level, inside a
function body (compiled in a child shell carrying a copy of the flag), inside an included file. In an untrusted
context a text containing, as its first failing statement, a constructor call of a loaded but not granted module at
any of these places is rejected with the `restricted` error. (Clones: `hostStep (.clone k)` copies the context record,
flag included, so a clone compiles exactly like its origin — `clone_same_flag`.) -/
theorem ctor_everywhere_top (ext : Ext) (fuel depth : Nat) (p : Proc) (funs : Funs) (m : Name) (rest : List Top)
    (hl : p.isLoaded m = true) (hg : p.isGranted m = false) :
    (compileTops ext false (fuel + 1) depth p funs (.simple (.ctor m) :: rest)).res = .error .restrictedCtor := by
  simp [compileTops, compileList, compileSimple, hl, hg]

theorem ctor_everywhere_func (ext : Ext) (fuel depth : Nat) (p : Proc) (funs : Funs) (m f : Name) (body : List Simple)
    (rest : List Top) (hl : p.isLoaded m = true) (hg : p.isGranted m = false) :
    (compileTops ext false (fuel + 1) depth p funs (.func f (.ctor m :: body) :: rest)).res = .error .restrictedCtor := by
  simp [compileTops, compileList, compileSimples, compileSimple, hl, hg]

theorem clone_same_flag (ext : Ext) (w : World) (k : Nat) (c : Ctx) (h : getCtx w k = some c) :
    getCtx (hostStep ext w (.clone k)) w.ctxs.length = some { c with trace := false } := by
  simp only [hostStep, h]
  simp [getCtx]

example : (compileTops extDemo false compFuel 0 ⟨[⟨"libbloc_vmod.so", "vmod"⟩], [], []⟩ []
    [.func "F" [.typedDecl "vmod", .ctor "vmod"]]).res = .error .restrictedCtor := by decide

/-! ### the host surface that can touch the trusted bit

Every member of `Context` that writes `_flags` or builds a context from another one (context.h / context.cpp):
the two public constructors (`_flags = 0`: `newCtx false`; the CLI then calls `trusted(true)`: `newCtx true` /
`setTrusted`), `clone()` / `clone(fd, fd)` (`other->_flags = _flags`), `purge()` (does not mention `_flags`; resets
`_trace`, `_parsing`), `trusted(bool)` (the ONLY writer; C++ only — `bloc_capi.h` has no function for it: a context
becomes trusted only in `apps/main.cpp:174` / `apps/cli_parser.cpp:143`, the command-line interpreter), the private copy
constructor used by `createChildShell` / `createChildRuntime` (`_flags(ctx._flags)`: the child of a function body or of
a call carries a COPY — `compileList` passes the same `tr` to the body), `trace(bool)` (another member), `parsingBegin` /
`parsingEnd` (`_parsing`, `_backed_symbols` only). The C API adds `bloc_create_context` (= `newCtx false`),
`bloc_clone_context[2]`, `bloc_ctx_purge`, `bloc_free_context`, `bloc_ctx_enable_trace`, `bloc_unban_plugin`,
`bloc_clear_plugin_permissions`, parse / execute. All of them are `HostOp`s. -/

/-- **trusted_bit_invariant.** No host operation other than the explicit trust setter on that very context changes the
trusted bit of a context that exists before and after it: not a grant or a revocation, not the creation, cloning,
purging or freeing of this or any other context, not the trace switch, not the compilation of any text (accepted or
rejected, with imports, includes, function definitions), not the run of any executable (with `trace` statements,
calls, run-time errors). -/
theorem trusted_bit_invariant (ext : Ext) (w : World) (op : HostOp) (k : Nat) (c c' : Ctx)
    (h : getCtx w k = some c) (h' : getCtx (hostStep ext w op) k = some c') (hop : ∀ b, op ≠ .setTrusted k b) :
    c'.trusted = c.trusted := by
  have hk : k < w.ctxs.length := by
    unfold getCtx at h
    split at h
    · rename_i c0 hk0; exact (List.getElem?_eq_some_iff.mp hk0).1
    · cases h
  have hget : ∀ {l : List (Option Ctx)}, l[k]? = some (some c) → True := fun _ => trivial
  have hsame : ∀ {w' : World}, w'.ctxs = w.ctxs → getCtx w' k = some c' → c'.trusted = c.trusted := by
    intro w' he hg
    have : getCtx w' k = getCtx w k := by simp [getCtx, he]
    rw [this, h] at hg; injection hg with hg; rw [hg]
  have happ : ∀ {w' : World} (x : Option Ctx), w'.ctxs = w.ctxs ++ [x] → getCtx w' k = some c' → c'.trusted = c.trusted := by
    intro w' x he hg
    have : getCtx w' k = getCtx w k := by simp [getCtx, he, List.getElem?_append_left hk]
    rw [this, h] at hg; injection hg with hg; rw [hg]
  have hset : ∀ {w' : World} (j : Nat) (x : Ctx), w'.ctxs = w.ctxs.set j (some x) → (j = k → x.trusted = c.trusted) →
      getCtx w' k = some c' → c'.trusted = c.trusted := by
    intro w' j x he hx hg
    by_cases hj : j = k
    · subst hj
      have : getCtx w' j = some x := by simp [getCtx, he, List.getElem?_set_self hk]
      rw [this] at hg; injection hg with hg; rw [← hg]; exact hx rfl
    · have : getCtx w' k = getCtx w k := by simp [getCtx, he, List.getElem?_set_ne hj]
      rw [this, h] at hg; injection hg with hg; rw [hg]
  cases op with
  | unban n => exact hsame rfl h'
  | clearPerms => exact hsame rfl h'
  | newCtx tr => exact happ _ rfl h'
  | setTrusted j b =>
    simp only [hostStep] at h'
    split at h'
    · rename_i cj hj
      refine hset j _ rfl ?_ h'
      intro e; subst e; exact absurd rfl (hop b)
    · exact hsame rfl h'
  | setTrace j b =>
    simp only [hostStep] at h'
    split at h'
    · rename_i cj hj
      refine hset j _ rfl ?_ h'
      intro e; subst e; rw [h] at hj; injection hj with hj; rw [hj]
    · exact hsame rfl h'
  | clone j =>
    simp only [hostStep] at h'
    split at h'
    · exact happ _ rfl h'
    · exact hsame rfl h'
  | free j =>
    simp only [hostStep] at h'
    by_cases hj : j = k
    · subst hj
      have : getCtx { w with ctxs := w.ctxs.set j none } j = none := by simp [getCtx, List.getElem?_set_self hk]
      rw [this] at h'; cases h'
    · have : getCtx { w with ctxs := w.ctxs.set j none } k = getCtx w k := by simp [getCtx, List.getElem?_set_ne hj]
      rw [this, h] at h'; injection h' with h'; rw [h']
  | purge j =>
    simp only [hostStep] at h'
    split at h'
    · rename_i cj hj
      refine hset j _ rfl ?_ h'
      intro e; subst e; rw [h] at hj; injection hj with hj; rw [hj]
    · exact hsame rfl h'
  | compile j prog =>
    simp only [hostStep] at h'
    split at h'
    · rename_i cj hj
      split at h'
      · refine hset j _ rfl ?_ h'
        intro e; subst e; rw [h] at hj; injection hj with hj; rw [hj]
      · refine hset j _ rfl ?_ h'
        intro e; subst e; rw [h] at hj; injection hj with hj; rw [hj]
    · exact hsame rfl h'
  | run x j =>
    simp only [hostStep] at h'
    split at h'
    · rename_i ns cj hx hj
      refine hset j _ rfl ?_ h'
      intro e; subst e; rw [h] at hj; injection hj with hj; rw [hj]
    · exact hsame rfl h'
  | freeExe x => exact hsame rfl h'

example : ∃ c c', getCtx (hostRun extDemo World.init demoOps) 0 = some c ∧
    getCtx (hostStep extDemo (hostRun extDemo World.init demoOps) (.purge 0)) 0 = some c' ∧ c'.trusted = c.trusted :=
  ⟨_, _, rfl, rfl, rfl⟩

/-- **purge_keeps_untrusted** (and trusted): `Context::purge` / `bloc_ctx_purge` empties the context — objects,
functions, trace mode — and leaves the trusted bit exactly as it was. -/
theorem purge_keeps_untrusted (ext : Ext) (w : World) (k : Nat) (c : Ctx) (h : getCtx w k = some c) :
    getCtx (hostStep ext w (.purge k)) k = some { trusted := c.trusted, objs := [], funs := [], trace := false } := by
  have hk : k < w.ctxs.length := by
    unfold getCtx at h
    split at h
    · rename_i c0 hk0; exact (List.getElem?_eq_some_iff.mp hk0).1
    · cases h
  simp only [hostStep, h]
  simp [getCtx, List.getElem?_set_self hk]

example : ((getCtx (hostRun extDemo World.init (demoOps ++ [.purge 0])) 0).map fun c => (c.trusted, c.objs, c.funs.length, c.trace))
    = some (false, [], 0, false) := by decide

/-- **clone_inherits_trust_exactly.** The clone gets the trusted bit of its origin at the moment of cloning (trusted
origin → trusted clone, untrusted → untrusted), together with its objects and functions; afterwards the two bits are
independent: setting the flag of the origin does not reach the clone, and setting the flag of the clone does not reach
the origin. -/
theorem clone_inherits_trust_exactly (ext : Ext) (w : World) (k : Nat) (c : Ctx) (h : getCtx w k = some c) (b : Bool) :
    (∃ c', getCtx (hostStep ext w (.clone k)) w.ctxs.length = some c' ∧ c'.trusted = c.trusted ∧ c'.objs = c.objs ∧ c'.funs = c.funs) ∧
    (∃ c', getCtx (hostStep ext (hostStep ext w (.clone k)) (.setTrusted k b)) w.ctxs.length = some c' ∧ c'.trusted = c.trusted) ∧
    (∃ c', getCtx (hostStep ext (hostStep ext w (.clone k)) (.setTrusted w.ctxs.length b)) k = some c' ∧ c'.trusted = c.trusted) := by
  have hk : k < w.ctxs.length := by
    unfold getCtx at h
    split at h
    · rename_i c0 hk0; exact (List.getElem?_eq_some_iff.mp hk0).1
    · cases h
  have h1 := clone_same_flag ext w k c h
  have hlen : (hostStep ext w (.clone k)).ctxs.length = w.ctxs.length + 1 := by simp [hostStep, h]
  have hk1 : getCtx (hostStep ext w (.clone k)) k = some c := by
    simp only [hostStep, h]
    simpa [getCtx, List.getElem?_append_left hk] using h
  refine ⟨⟨_, h1, rfl, rfl, rfl⟩, ?_, ?_⟩
  · refine ⟨{ c with trace := false }, ?_, rfl⟩
    have hne : k ≠ w.ctxs.length := by omega
    generalize hostStep ext w (.clone k) = W at h1 hk1 hlen
    simp only [hostStep, hk1]
    unfold getCtx at h1 ⊢
    simp only [List.getElem?_set_ne hne]
    exact h1
  · refine ⟨c, ?_, rfl⟩
    have hne : w.ctxs.length ≠ k := by omega
    generalize hostStep ext w (.clone k) = W at h1 hk1 hlen
    simp only [hostStep, h1]
    unfold getCtx at hk1 ⊢
    simp only [List.getElem?_set_ne hne]
    exact hk1

example : (getCtx (hostRun extDemo World.init [.newCtx true, .clone 0, .setTrusted 0 false]) 1).map (·.trusted) = some true := by decide
example : (getCtx (hostRun extDemo World.init [.newCtx false, .clone 0, .setTrusted 0 true]) 1).map (·.trusted) = some false := by decide

/-- a history "of the C API": no context is created trusted and the C++-only setter is never called with `true` -/
def capiOp : HostOp → Bool
  | .newCtx true => false
  | .setTrusted _ true => false
  | _ => true

/-- **Corollary (embedded use): untrusted for ever.** Along a history that never uses the two C++-only ways of making
a context trusted, no context is ever trusted — whatever is purged, cloned, freed, compiled, run, traced, granted or
revoked in between; hence (`untrusted_history_objects_granted`) every object in every context belongs to a module the
host granted by name. -/
theorem capi_history_never_trusted (ext : Ext) (ops : List HostOp) (hall : ops.all capiOp = true) :
    (hostRun ext World.init ops).trustedSeen = false ∧
    ∀ k c, getCtx (hostRun ext World.init ops) k = some c → c.trusted = false := by
  suffices hgen : ∀ (ops : List HostOp) (w : World), ops.all capiOp = true → WorldOk w → w.trustedSeen = false →
      (hostRun ext w ops).trustedSeen = false by
    have hts := hgen ops World.init hall init_ok rfl
    refine ⟨hts, ?_⟩
    intro k c hc
    have hw := hostRun_ok ext ops World.init init_ok
    have := (hw.ctxs c (getCtx_mem hc)).flag
    cases ht : c.trusted with
    | false => rfl
    | true => rw [hts] at this; exact absurd (this ht) (by simp)
  intro ops
  induction ops with
  | nil => intro w _ _ h; exact h
  | cons op rest ih =>
    intro w hall hw hts
    simp only [List.all_cons, Bool.and_eq_true] at hall
    apply ih _ hall.2 (hostStep_ok ext w op hw)
    cases op with
    | newCtx tr => cases tr with
      | true => simp [capiOp] at hall
      | false => simp [hostStep, hts]
    | setTrusted k b => cases b with
      | true => simp [capiOp] at hall
      | false => simp only [hostStep]; split <;> simp [hts]
    | unban n => exact hts
    | clearPerms => exact hts
    | setTrace k b => simp only [hostStep]; split <;> exact hts
    | clone k => simp only [hostStep]; split <;> exact hts
    | free k => exact hts
    | purge k => simp only [hostStep]; split <;> exact hts
    | compile k prog =>
      simp only [hostStep]
      split
      · split <;> exact hts
      · exact hts
    | run x k => simp only [hostStep]; split <;> exact hts
    | freeExe x => exact hts

/-- the extended alphabet at work: grant, compile a function and a call, revoke, purge, clone, trace, a run-time error,
a rejected text, then run the executable compiled BEFORE the revocation in the clone: the object appears (the property
speaks about the moment of compilation), nobody became trusted, and a fresh compile of the constructor is refused. -/
def longOps : List HostOp :=
  [.newCtx false, .unban "vmod",
   .compile 0 [.simple (.importName "vmod"), .func "F" [.ctor "vmod"], .simple (.trace true), .simple (.call "F")],
   .clearPerms, .clone 0, .purge 0, .setTrace 0 true, .compile 0 [.simple .raise], .run 1 0, .compile 1 [.simple .bad],
   .run 0 1, .compile 1 [.simple (.ctor "vmod")], .free 0]

example : longOps.all capiOp = true := by decide
example : ((getCtx (hostRun extDemo World.init longOps) 1).map fun c => (c.trusted, c.objs, c.trace))
    = some (false, [⟨"vmod", ⟨false, true⟩⟩], true) := by decide
example : (hostRun extDemo World.init longOps).lastErr = some .restrictedCtor := by decide

/-- **No script can flip a flag of its context except the trace mode**: a run leaves the trusted bit, and the function
table, untouched — also when it ends in a run-time error. (The `RunSt` a run works on has no trusted field at all:
`statement_trace.cpp` is the only statement that calls a flag setter of `Context`, and it calls `trace`.) -/
theorem run_keeps_trust (ext : Ext) (w : World) (x k : Nat) (c : Ctx) (h : getCtx w k = some c) :
    ∃ c', getCtx (hostStep ext w (.run x k)) k = some c' ∧ c'.trusted = c.trusted ∧ c'.funs = c.funs := by
  have hk : k < w.ctxs.length := by
    unfold getCtx at h
    split at h
    · rename_i c0 hk0; exact (List.getElem?_eq_some_iff.mp hk0).1
    · cases h
  simp only [hostStep, h]
  split
  · rename_i ns c0 hx hc
    injection hc with hc; subst hc
    refine ⟨⟨c.trusted, (runNodes c.funs runFuel ns ⟨c.objs, c.trace, false⟩).objs, c.funs,
      (runNodes c.funs runFuel ns ⟨c.objs, c.trace, false⟩).trace⟩, ?_, rfl, rfl⟩
    simp [getCtx, List.getElem?_set_self hk]
  · exact ⟨c, h, rfl, rfl⟩

example : ∃ c', getCtx (hostStep extDemo (hostRun extDemo World.init (demoOps.take 3)) (.run 0 0)) 0 = some c' ∧ c'.trusted = false :=
  ⟨_, rfl, rfl⟩

/-- **Revocation after compilation does not matter (and a later grant does not help).** The run of an executable —
compiled at top level or reaching function bodies compiled earlier — never consults the grant list, the loaded modules
or anybody's trusted bit: replace the process state by ANY other one and the run leaves exactly the same contexts. The
permission is decided once, at compilation (`ctor_compiles_iff`), as the property says: "not revoked before compilation". -/
theorem run_ignores_permissions (ext : Ext) (w : World) (p' : Proc) (x k : Nat) :
    (hostStep ext { w with proc := p' } (.run x k)).ctxs = (hostStep ext w (.run x k)).ctxs ∧
    (hostStep ext w (.run x k)).proc = w.proc := by
  constructor
  · simp only [hostStep, getExe, getCtx]
    split <;> rfl
  · simp only [hostStep]
    split <;> rfl

example : ((getCtx (hostRun extDemo World.init (demoOps.take 3 ++ [.clearPerms, .run 0 0])) 0).map fun c => c.objs)
    = ((getCtx (hostRun extDemo World.init (demoOps.take 3 ++ [.run 0 0])) 0).map fun c => c.objs) := by decide

end BlocV.Proofs.C16
