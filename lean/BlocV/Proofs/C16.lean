/-
  C16 — an untrusted context can never obtain an object of a module it was not granted.
  Property theorems about Model/Plugin.lean, part Perm. Spec: Spec/Plugin.lean (`mayConstruct`, `mayImportPath`,
  `mayInclude`). Helper lemmas (the invariant and its preservation): Proofs/Lemmas/Perm.lean.
-/
import BlocV.Model.Plugin
import BlocV.Spec.Plugin
import BlocV.Proofs.Lemmas.Perm

set_option linter.unusedSimpArgs false
set_option linter.unusedVariables false

namespace BlocV.Proofs.C16
open BlocV.Plugin BlocV.Plugin.Perm BlocV.Spec.Plugin BlocV.Proofs.Perm

deriving instance DecidableEq for Except

/-- **object_implies_granted.** After ANY history of host operations (unban, clear, new context trusted or not, set
trusted, clone, free, purge, compile any program in any context, run any executable in any context, free executables)
and whatever the loader finds, every module object present in any context was created by a constructor call whose
compilation saw `mayConstruct`: if the compiling context was untrusted at that moment, the module's name was in the
granted list at that moment. Whether the module was loaded before, by whom, and where the call stands (top level,
function body, included file, clone) does not appear in the statement because it does not matter. -/
theorem object_implies_granted (ext : Ext) (ops : List HostOp) (k : Nat) (c : Ctx) (o : Obj)
    (hc : getCtx (hostRun ext World.init ops) k = some c) (ho : o ∈ c.objs) :
    o.t.ctxTrusted = false → o.t.granted = true := by
  have hw := hostRun_ok ext ops World.init init_ok
  have := ((hw.ctxs c (getCtx_mem hc)).objs o ho).1
  intro hf
  rcases this with h | h
  · rw [hf] at h; cases h
  · exact h

/-- the tag is what the test saw: a constructor node is produced exactly when `mayConstruct` holds, and records it -/
theorem ctor_compiles_iff (ext : Ext) (tr : Bool) (funs : Funs) (p : Proc) (m : Name) (hl : p.isLoaded m = true) :
    ((compileSimple ext tr funs p (.ctor m)).2 = .ok (.ctor m ⟨tr, p.isGranted m⟩) ↔ mayConstruct tr p.granted m) ∧
    (¬ mayConstruct tr p.granted m → (compileSimple ext tr funs p (.ctor m)).2 = .error .restrictedCtor) := by
  simp only [compileSimple, hl, ↓reduceIte, mayConstruct]
  cases tr <;> cases hg : p.isGranted m <;> simp [Proc.isGranted] at hg ⊢ <;> simp [hg]

/-- **Corollary for embedded use (the C API can create only untrusted contexts and cannot set the flag).** If no
context was ever trusted in the history, every module object in every context belongs to a module whose name was
passed to `unban` at some earlier point of the history. In particular a module that was never granted never yields an
object, whoever loaded it. -/
theorem untrusted_history_objects_granted (ext : Ext) (ops : List HostOp) (k : Nat) (c : Ctx) (o : Obj)
    (hts : (hostRun ext World.init ops).trustedSeen = false)
    (hc : getCtx (hostRun ext World.init ops) k = some c) (ho : o ∈ c.objs) :
    o.m ∈ (hostRun ext World.init ops).proc.everGranted := by
  have hw := hostRun_ok ext ops World.init init_ok
  obtain ⟨h1, h2, h3⟩ := (hw.ctxs c (getCtx_mem hc)).objs o ho
  rcases h1 with h | h
  · have := h3 h; rw [hts] at this; cases this
  · exact h2 h

/-! Non-vacuity: a history in which an untrusted context holds an object (granted, compiled, then the grant is
cleared before the run: the property speaks about the moment of compilation). -/
def extDemo : Ext :=
  { byName := fun n => if n = "vmod" then some ⟨"libbloc_vmod.so", "vmod"⟩ else none
    byPath := fun p => if p = "/x/libbloc_vmod.so" then some ⟨"libbloc_vmod.so", "vmod"⟩ else none
    source := fun f => if f = "inc.bloc" then some [.simple (.ctor "vmod")] else none }

def demoOps : List HostOp :=
  [.newCtx false, .unban "vmod", .compile 0 [.simple (.importName "vmod"), .func "F" [.ctor "vmod"], .simple (.call "F")],
   .clearPerms, .run 0 0]

example : ((getCtx (hostRun extDemo World.init demoOps) 0).map fun c => c.objs) = some [⟨"vmod", ⟨false, true⟩⟩] := by decide
example : (hostRun extDemo World.init demoOps).trustedSeen = false := by decide

/-! ### refusals and the trusted case -/

/-- **path_import_refused.** In an untrusted context `import "<path>";` is refused wherever it stands, and the process
is unchanged (nothing is loaded). -/
theorem path_import_refused (ext : Ext) (funs : Funs) (p : Proc) (path : String) :
    compileSimple ext false funs p (.importPath path) = (p, .error .restrictedPath) := by
  simp [compileSimple]

/-- ... also as a whole program, whatever precedes it compiles to: the compilation of a text whose first failing
statement is the path import is rejected with that error. -/
theorem path_import_refused_top (ext : Ext) (fuel depth : Nat) (p : Proc) (funs : Funs) (path : String) (rest : List Top) :
    (compileTops ext false (fuel + 1) depth p funs (.simple (.importPath path) :: rest)).res = .error .restrictedPath ∧
    (compileTops ext false (fuel + 1) depth p funs (.simple (.importPath path) :: rest)).proc = p := by
  simp [compileTops, compileList, compileSimple]

/-- **include_refused.** In an untrusted context `include "<file>";` is refused; the file is not even looked up
(`ext.source` does not appear in the result) and the process is unchanged. -/
theorem include_refused (ext : Ext) (fuel depth : Nat) (p : Proc) (funs : Funs) (file : String) (rest : List Top) :
    (compileTops ext false (fuel + 1) depth p funs (.incl file :: rest)).res = .error .restrictedInclude ∧
    (compileTops ext false (fuel + 1) depth p funs (.incl file :: rest)).proc = p ∧
    (compileTops ext false (fuel + 1) depth p funs (.incl file :: rest)).funs = funs := by
  simp [compileTops, compileList]

example : (compileTops extDemo false compFuel 0 Proc.init [] [.incl "inc.bloc"]).res = .error .restrictedInclude := by decide
example : (compileTops extDemo false compFuel 0 Proc.init [] [.simple (.importPath "/x/libbloc_vmod.so")]).res = .error .restrictedPath := by decide

/-- **trusted_unrestricted.** In a trusted context the constructor of any loaded module compiles whatever the granted
list holds; import by path reaches the loader; include reaches the file. -/
theorem trusted_unrestricted (ext : Ext) (funs : Funs) (p : Proc) (m : Name) (hl : p.isLoaded m = true) :
    (compileSimple ext true funs p (.ctor m)).2 = .ok (.ctor m ⟨true, p.isGranted m⟩) := by
  simp [compileSimple, hl]

theorem trusted_import_path (ext : Ext) (funs : Funs) (p : Proc) (path : String) (l : Lib) (h : ext.byPath path = some l)
    (hr : (p.register l).2 = true) :
    compileSimple ext true funs p (.importPath path) = ((p.register l).1, .ok .nop) := by
  simp only [compileSimple, Bool.not_true, Bool.false_eq_true, ↓reduceIte, h]
  cases hreg : p.register l with
  | mk p' ok =>
    rw [hreg] at hr
    simp only at hr
    simp [hr]

example : (compileTops extDemo true compFuel 0 Proc.init []
    [.simple (.importPath "/x/libbloc_vmod.so"), .incl "inc.bloc", .simple (.ctor "vmod")]).res
    = .ok [.nop, .ctor "vmod" ⟨true, false⟩, .ctor "vmod" ⟨true, false⟩] := by decide

/-- **ctor_everywhere.** The permission test is reached wherever the constructor call stands: at top level, inside a
function body (compiled in a child shell carrying a copy of the flag), inside an included file. In an untrusted
context a text containing, as its first failing statement, a constructor call of a loaded but not granted module at
any of these places is rejected with the `restricted` error. (Clones: `hostStep (.clone k)` copies the context record,
flag included, so a clone compiles exactly like its origin — `clone_same_flag`.) -/
theorem ctor_everywhere_top (ext : Ext) (fuel depth : Nat) (p : Proc) (funs : Funs) (m : Name) (rest : List Top)
    (hl : p.isLoaded m = true) (hg : p.isGranted m = false) :
    (compileTops ext false (fuel + 1) depth p funs (.simple (.ctor m) :: rest)).res = .error .restrictedCtor := by
  simp [compileTops, compileList, compileSimple, hl, hg]

theorem ctor_everywhere_func (ext : Ext) (fuel depth : Nat) (p : Proc) (funs : Funs) (m f : Name) (body : List Simple)
    (rest : List Top) (hl : p.isLoaded m = true) (hg : p.isGranted m = false) :
    (compileTops ext false (fuel + 1) depth p funs (.func f (.ctor m :: body) :: rest)).res = .error .restrictedCtor := by
  simp [compileTops, compileList, compileSimples, compileSimple, hl, hg]

theorem clone_same_flag (ext : Ext) (w : World) (k : Nat) (c : Ctx) (h : getCtx w k = some c) :
    getCtx (hostStep ext w (.clone k)) w.ctxs.length = some c := by
  simp only [hostStep, h]
  simp [getCtx]

example : (compileTops extDemo false compFuel 0 ⟨[⟨"libbloc_vmod.so", "vmod"⟩], [], []⟩ []
    [.func "F" [.typedDecl "vmod", .ctor "vmod"]]).res = .error .restrictedCtor := by decide

end BlocV.Proofs.C16
