/-
  C10 — string, bytes and conversion built-ins are total, 8-bit clean and consistent.
  Property theorems only. Helper lemmas: Proofs/Lemmas/{Bytes,Base64,Digits,NoHazard,Text}.lean.
  Independent specification: Spec/Text.lean (substr/lsubstr/rsubstr on mathematical integers, first
  occurrence, join). Model: Model/Builtins.lean (blocc/builtin/builtin_*.cpp, base64.cpp), instantiated
  at `m := Res` exactly as the driver's `bi` command runs it; Model/Members.lean for `put`/`concat`.

  Everything is quantified over ALL byte lists (any 8-bit content, NUL and high bytes included), ALL
  `Int64` positions/counts/codes and, for the totality theorem, ALL argument lists of ALL values.
  Two hypotheses recur and are decidable:
    `s.length < 2 ^ 63`   the length fits `int64_t` (the C++ stores `size()` into an int64_t; no
                          std::string can be longer) — part of `Lemmas.wfVal`;
    `Lemmas.wfVal v`      a table value carries a table type (level ≥ 1), as every `Collection` does.

    b64dec_b64enc, b64_builtin_roundtrip          b64dec(b64enc(x)) = x, all byte lists
    int_str_roundtrip, stoll_to_string            int(str(i)) = i, all Int64 (INT64_MIN included)
    substr_contract(2), subraw_contract(2)        = Spec.Text.substr, a sublist of x — ALL positions and counts, INT64_MIN
                                                  included (the `c - a` overflow was repaired in e2c4824)
    substr_full                                   … so the unrestricted statement "never undefined behaviour" holds
    lsubstr_contract, rsubstr_contract            = Spec.Text.lsubstr / rsubstr, no exclusion
    substr_null_in_null_out, …                    null / untyped null in → typed null out
    substr_returns_sublist                        every argument list: typed null, the argument itself, or a sublist
    text_builtins_no_hazard                       23 built-ins × every argument list: never a C-level hazard (no excluded
                                                  region any more: `knownHazard` is gone)
    hex_contract, hex_contract1, hex_pad, hex_value   hex(v, n) = Spec.Text.hex for EVERY value and pad count (negative, > 16,
                                                  INT64_MAX: the `n += 1` overflow was repaired in cbe22cc)
    abs_contract, abs_decimal, abs_null           abs(l) = |l| reduced modulo 2^64 (abs(INT64_MIN) = INT64_MIN, repaired in fde74fa)
    pow_exact, pow_negative_exponent, pow_eq_operator   pow(a, n) = a^n mod 2^64 exactly, = `a ** n` for all operands (eec6e8e)
    strpos_contract, strpos_negative_start        first occurrence at or after start, or null
    replace_empty_needle, replace_absent_needle   the input comes back
    upper_length, lower_length, trim_infix, …     length preserved / result is a sublist
    hex_digits                                    1..16 lower-case hex digits, always returned
    tokenize_join                                 pieces joined by the separator = the string (trimnull off)
    strlen_value
    raw_contract, hash_range                      raw(n, v): size ≥ 0, code 0..255; hash(x, m) ∈ [0, m), m outside 1..2^32−1 refused
    chr_byte_range, charArg_range, put_*_code_range, concat_*_code_range   codes outside 0..255: OUT_OF_RANGE
  Round C10 (last section of the file; model: Model/Strtod.lean = std::stod in exact arithmetic, second dispatch table
  `evalBuiltinX` of Model/Builtins.lean):
    isnum_iff_num, isnum_iff_num_dispatch         isnum(s) = true ⇔ num(s) returns, = false ⇔ STRING_TO_NUM / OUT_OF_RANGE — ALL byte strings
    isnum_total, num_leading_nul                  isnum never fails; a leading NUL / high byte / control character: not a number
    num_str_roundtrip_partial                     num(str(d)) = d: special values and kernel-checked instances (general statement not proved)
    num_str_subnormal_fails                       … and its negation: subnormals, smallest normal, largest double → OUT_OF_RANGE (finding)
    sign_contract, max_min_contract, mod_eq_operator, clamp_contract, clamp_null, bool_isnull_typeof, constants_value
    all_builtins_no_hazard                        all 53 modelled built-ins × every argument list: never a C-level hazard
    strlen_8bit, case_8bit, trim_8bit, hash_8bit  8-bit cleanliness per built-in
-/
import BlocV.Proofs.Lemmas.Base64
import BlocV.Proofs.Lemmas.Digits
import BlocV.Proofs.Lemmas.NoHazard
import BlocV.Proofs.Lemmas.Text
import BlocV.Proofs.Lemmas.Int64
import BlocV.Model.Members
import BlocV.Proofs.C03
import BlocV.Model.Fmt
import BlocV.Proofs.Lemmas.BuiltinCases

namespace BlocV.C10
open BlocV BlocV.Lemmas

/-! ## chr -/

/-- `chr` accepts an integer code exactly when it lies in 0..255, and then yields that single byte;
every other code is rejected with OUT_OF_RANGE. -/
theorem chr_byte_range (c : Int64) :
    biChr (m := Res) [.ok (.int c)] =
      if 0 ≤ c.toInt ∧ c.toInt ≤ 255 then .ok (.str [c.toUInt64.toUInt8]) else .err Gen.EXC_RT_OUT_OF_RANGE := by
  have h0 : (c < 0) ↔ c.toInt < 0 := Int64.lt_iff_toInt_lt
  have h1 : (c > 255) ↔ c.toInt > 255 := by
    show (255 : Int64) < c ↔ _
    rw [Int64.lt_iff_toInt_lt]; rfl
  by_cases hc : 0 ≤ c.toInt ∧ c.toInt ≤ 255
  · have a : ¬ (c < 0) := by rw [h0]; omega
    have b : ¬ (c > 255) := by rw [h1]; omega
    simp [biChr, Val.type, Val.isNull, Val.asInt, Ty.int, hc, a, b, bind]
  · have : (c < 0) ∨ (c > 255) := by
      rw [h0, h1]; omega
    rcases this with a | b
    · simp [biChr, Val.type, Val.isNull, Val.asInt, Ty.int, hc, a, bind]
    · simp [biChr, Val.type, Val.isNull, Val.asInt, Ty.int, hc, b, bind]

example : biChr (m := Res) [.ok (.int 65)] = .ok (.str [65]) := by rfl
example : biChr (m := Res) [.ok (.int 256)] = .err Gen.EXC_RT_OUT_OF_RANGE := by rfl
example : biChr (m := Res) [.ok (.null Ty.int)] = .ok (.null Ty.str) := by rfl

/-! ## Base64 -/

/-- **b64dec(b64enc(x)) = x** for every byte list (any length, any 8-bit content): the decoder of
blocc/builtin/base64.cpp (main loop over 4-character groups, then the `pad1`/`pad2` tail) applied to
the encoder's output gives back the input. -/
theorem b64dec_b64enc (x : Bytes) : b64decode (b64encode x) = x := b64decode_b64encode x

example : b64encode [0, 255, 128, 10] = "AP+ACg==".toUTF8.toList := by decide +kernel
example : b64decode (b64encode [0, 255, 128, 10]) = [0, 255, 128, 10] := b64dec_b64enc _

/-- The same through the built-ins as the interpreter dispatches them: `b64dec(b64enc(v))` for a
string or a byte array `v` with content `x` is the byte array `x`. -/
theorem b64_builtin_roundtrip (fmt : Num.F64 → Bytes) (v : Val) (x : Bytes) (hv : v = .str x ∨ v = .raw x) :
    (do let e ← (evalBuiltin (m := Res) fmt "b64enc" [.ok v]).getD .unmodelled
        (evalBuiltin (m := Res) fmt "b64dec" [.ok e]).getD .unmodelled) = .ok (.raw x) := by
  rcases hv with rfl | rfl
  · show Res.ok (Val.raw (b64decode (b64encode x))) = _
    rw [b64decode_b64encode]
  · show Res.ok (Val.raw (b64decode (b64encode x))) = _
    rw [b64decode_b64encode]

example (fmt : Num.F64 → Bytes) :
    (do let e ← (evalBuiltin (m := Res) fmt "b64enc" [.ok (.raw [0, 200])]).getD .unmodelled
        (evalBuiltin (m := Res) fmt "b64dec" [.ok e]).getD .unmodelled) = .ok (.raw [0, 200]) :=
  b64_builtin_roundtrip fmt _ _ (.inr rfl)

/-! ## int(str(i)) = i -/

/-- `std::stoll(std::to_string(i)) = i` for every `int64_t`, INT64_MIN included (digit rendering
`natDigits`, sign, whitespace skip, digit scan and range test of the `stoll` model). -/
theorem stoll_to_string (i : Int64) : stoll (intToString i) = .val i.toInt := stoll_intToString i

/-- **int(str(i)) = i** through the built-ins, for every integer: `str` renders the decimal digits,
`int` sees no hexadecimal prefix and parses them back with `stoll`. -/
theorem int_str_roundtrip (fmt : Num.F64 → Bytes) (i : Int64) :
    (do let s ← (evalBuiltin (m := Res) fmt "str" [.ok (.int i)]).getD .unmodelled
        (evalBuiltin (m := Res) fmt "int" [.ok s]).getD .unmodelled) = .ok (.int i) := by
  show biInt (m := Res) [.ok (.str (intToString i))] = _
  have h : biInt (m := Res) [.ok (.str (intToString i))] =
      if looksHex (intToString i) then
        match stoull16 (intToString i) with
        | .invalid => .err Gen.EXC_RT_STRING_TO_NUM
        | .range => .err Gen.EXC_RT_OUT_OF_RANGE
        | .val z => .ok (.int (Int64.ofInt z))
      else match stoll (intToString i) with
        | .invalid => .err Gen.EXC_RT_STRING_TO_NUM
        | .range => .err Gen.EXC_RT_OUT_OF_RANGE
        | .val z => .ok (.int (Int64.ofInt z)) := by rfl
  rw [h, looksHex_intToString, stoll_intToString]
  simp

example : intToString Int64.minValue = "-9223372036854775808".toUTF8.toList := by decide +kernel
example (fmt : Num.F64 → Bytes) :
    (do let s ← (evalBuiltin (m := Res) fmt "str" [.ok (.int Int64.minValue)]).getD .unmodelled
        (evalBuiltin (m := Res) fmt "int" [.ok s]).getD .unmodelled) = .ok (.int Int64.minValue) :=
  int_str_roundtrip fmt _

/-! ## substr / subraw / lsubstr / rsubstr -/

/-- **substr(x, begin, count)** for every string of representable length and ALL `Int64` positions
and counts (negative, zero, oversized, INT64_MIN, INT64_MAX): the result is `Spec.Text.substr` — hence a
contiguous sublist of `x` (`Spec.Text.substr_infix`). No exclusion: a position that is still negative
after adding the length selects nothing, and `c - a` is not computed for it (builtin_substr.cpp after
commit e2c4824; before, `begin = INT64_MIN` was the finding C10.substr.signedOverflow). -/
theorem substr_contract (s : Bytes) (hlen : s.length < 2 ^ 63) (a0 b0 : Int64) :
    biSubstr (m := Res) [.ok (.str s), .ok (.int a0), .ok (.int b0)] =
      .ok (.str (Spec.Text.substr s a0.toInt (some b0.toInt))) := by
  rw [biSubstr, substrLike_res3]
  by_cases hs : s = []
  · subst hs; simp [Val.type, Ty.str, readPos, Val.isNull, Val.asStr, Val.asInt, Ty.int, lenI, spec_substr_nil]
  · have hz : (lenI s == 0) = false := by rw [lenI_eq_zero s hlen]; simpa using hs
    have hz' : ¬ lenI s = 0 := by simpa using hz
    simp [Val.type, Ty.str, readPos, Val.isNull, Val.asStr, Val.asInt, Ty.int, hz', substrTail_spec s hlen]

/-- `substr(x, begin)`: the same with the count absent (everything from `begin`). -/
theorem substr_contract2 (s : Bytes) (hlen : s.length < 2 ^ 63) (a0 : Int64) :
    biSubstr (m := Res) [.ok (.str s), .ok (.int a0)] =
      .ok (.str (Spec.Text.substr s a0.toInt none)) := by
  rw [biSubstr, substrLike_res2]
  by_cases hs : s = []
  · subst hs; simp [Val.type, Ty.str, readPos, Val.isNull, Val.asStr, Val.asInt, Ty.int, lenI, spec_substr_nil]
  · have hz : (lenI s == 0) = false := by rw [lenI_eq_zero s hlen]; simpa using hs
    have hz' : ¬ lenI s = 0 := by simpa using hz
    simp [Val.type, Ty.str, readPos, Val.isNull, Val.asStr, Val.asInt, Ty.int, hz', substrTail_spec s hlen]
    simp [Spec.Text.substr, lenI_toInt s hlen]

/-- `subraw(x, begin, count)` on byte arrays: same contract, same repair (builtin_subraw.cpp). -/
theorem subraw_contract (s : Bytes) (hlen : s.length < 2 ^ 63) (a0 b0 : Int64) :
    biSubraw (m := Res) [.ok (.raw s), .ok (.int a0), .ok (.int b0)] =
      .ok (.raw (Spec.Text.substr s a0.toInt (some b0.toInt))) := by
  rw [biSubraw, substrLike_res3]
  by_cases hs : s = []
  · subst hs; simp [Val.type, Ty.raw, readPos, Val.isNull, Val.asRaw, Val.asInt, Ty.int, lenI, spec_substr_nil]
  · have hz : (lenI s == 0) = false := by rw [lenI_eq_zero s hlen]; simpa using hs
    have hz' : ¬ lenI s = 0 := by simpa using hz
    simp [Val.type, Ty.raw, readPos, Val.isNull, Val.asRaw, Val.asInt, Ty.int, hz', substrTail_spec s hlen]

theorem subraw_contract2 (s : Bytes) (hlen : s.length < 2 ^ 63) (a0 : Int64) :
    biSubraw (m := Res) [.ok (.raw s), .ok (.int a0)] =
      .ok (.raw (Spec.Text.substr s a0.toInt none)) := by
  rw [biSubraw, substrLike_res2]
  by_cases hs : s = []
  · subst hs; simp [Val.type, Ty.raw, readPos, Val.isNull, Val.asRaw, Val.asInt, Ty.int, lenI, spec_substr_nil]
  · have hz : (lenI s == 0) = false := by rw [lenI_eq_zero s hlen]; simpa using hs
    have hz' : ¬ lenI s = 0 := by simpa using hz
    simp [Val.type, Ty.raw, readPos, Val.isNull, Val.asRaw, Val.asInt, Ty.int, hz', substrTail_spec s hlen]
    simp [Spec.Text.substr, lenI_toInt s hlen]

/-- What "never reads outside the data" means for the slice: whatever `substr`/`subraw` return on a
string is a contiguous sublist of the argument. -/
theorem substr_result_infix (s : Bytes) (hlen : s.length < 2 ^ 63) (a0 b0 : Int64) (r : Bytes)
    (h : biSubstr (m := Res) [.ok (.str s), .ok (.int a0), .ok (.int b0)] = .ok (.str r)) : r <:+: s := by
  rw [substr_contract s hlen] at h
  injection h with h; injection h with h; subst h; exact Spec.Text.substr_infix _ _ _

example : biSubstr (m := Res) [.ok (.str [104, 0, 255, 108, 111]), .ok (.int (-3)), .ok (.int 2)] = .ok (.str [255, 108]) := by
  rw [substr_contract _ (by decide)]; rfl
example : biSubstr (m := Res) [.ok (.str [1, 2, 3]), .ok (.int 9223372036854775807), .ok (.int (-5))] = .ok (.str []) := by
  rw [substr_contract _ (by decide)]; rfl
/-- the former finding region: begin = INT64_MIN on a non-empty string / byte array selects nothing -/
example : biSubstr (m := Res) [.ok (.str [97, 98]), .ok (.int Int64.minValue)] = .ok (.str []) := by
  rw [substr_contract2 _ (by decide), show Spec.Text.substr [97, 98] Int64.minValue.toInt none = [] by decide +kernel]
example : biSubraw (m := Res) [.ok (.raw [97, 98]), .ok (.int Int64.minValue), .ok (.int 1)] = .ok (.raw []) := by
  rw [subraw_contract _ (by decide), show Spec.Text.substr [97, 98] Int64.minValue.toInt (some (1 : Int64).toInt) = [] by decide +kernel]
example : biSubstr (m := Res) [.ok (.str [97, 98]), .ok (.int (-9223372036854775807))] = .ok (.str []) := by
  rw [substr_contract2 _ (by decide), show Spec.Text.substr [97, 98] (-9223372036854775807 : Int64).toInt none = [] by decide +kernel]

/-- The unrestricted statement "substr / subraw never reach undefined behaviour", for every string of
representable length and EVERY position — INT64_MIN included. (Before commit e2c4824 this was false:
`substr("ab", -9223372036854775807-1)` overflowed in `c - a`; the theorem was `substr_full_false`.) -/
theorem substr_full (s : Bytes) (hlen : s.length < 2 ^ 63) (a0 : Int64) :
    (biSubstr (m := Res) [.ok (.str s), .ok (.int a0)]).isHazard = false ∧
    (biSubraw (m := Res) [.ok (.raw s), .ok (.int a0)]).isHazard = false := by
  rw [substr_contract2 s hlen, subraw_contract2 s hlen]
  exact ⟨rfl, rfl⟩

example : (biSubstr (m := Res) [.ok (.str [97, 98]), .ok (.int Int64.minValue)]).isHazard = false :=
  (substr_full [97, 98] (by decide) Int64.minValue).1

/-- **lsubstr(x, count)**: the first `count` bytes, for ALL counts; no exclusion. -/
theorem lsubstr_contract (s : Bytes) (hlen : s.length < 2 ^ 63) (b : Int64) :
    lrSubstr (m := Res) true [.ok (.str s), .ok (.int b)] = .ok (.str (Spec.Text.lsubstr s b.toInt)) := by
  rw [lrSubstr_res]
  by_cases hs : s = []
  · subst hs; simp [Val.type, Ty.str, readPos, Val.isNull, Val.asStr, Val.asInt, Ty.int, lenI, Spec.Text.lsubstr]
  · have hz : (lenI s == 0) = false := by rw [lenI_eq_zero s hlen]; simpa using hs
    have hz' : ¬ lenI s = 0 := by simpa using hz
    simp [Val.type, Ty.str, readPos, Val.isNull, Val.asStr, Val.asInt, Ty.int, hz', ltake_spec s hlen]

/-- **rsubstr(x, count)**: the last `count` bytes, for ALL counts; no exclusion. -/
theorem rsubstr_contract (s : Bytes) (hlen : s.length < 2 ^ 63) (b : Int64) :
    lrSubstr (m := Res) false [.ok (.str s), .ok (.int b)] = .ok (.str (Spec.Text.rsubstr s b.toInt)) := by
  rw [lrSubstr_res]
  by_cases hs : s = []
  · subst hs; simp [Val.type, Ty.str, readPos, Val.isNull, Val.asStr, Val.asInt, Ty.int, lenI, Spec.Text.rsubstr]
  · have hz : (lenI s == 0) = false := by rw [lenI_eq_zero s hlen]; simpa using hs
    have hz' : ¬ lenI s = 0 := by simpa using hz
    simp [Val.type, Ty.str, readPos, Val.isNull, Val.asStr, Val.asInt, Ty.int, hz', rdrop_spec s hlen]

example : lrSubstr (m := Res) true [.ok (.str [1, 2, 3]), .ok (.int (-4))] = .ok (.str []) := by
  rw [lsubstr_contract _ (by decide)]; rfl
example : lrSubstr (m := Res) false [.ok (.str [1, 2, 3]), .ok (.int Int64.minValue)] = .ok (.str []) := by
  rw [rsubstr_contract _ (by decide)]; rfl
example : lrSubstr (m := Res) false [.ok (.str [1, 2, 3]), .ok (.int 9223372036854775807)] = .ok (.str [1, 2, 3]) := by
  rw [rsubstr_contract _ (by decide)]; rfl

/-- Null in → typed null out: an untyped null first argument gives a null string (null bytes for
`subraw`) whatever the other arguments are (they are not even evaluated). -/
theorem substr_untyped_null (t : Ty) (ht : t.major = .none) (rest : List (Res Val)) (t1 : Res Val) :
    biSubstr (m := Res) (.ok (.null t) :: t1 :: rest) = .ok (.null Ty.str) ∧
    biSubraw (m := Res) (.ok (.null t) :: t1 :: rest) = .ok (.null Ty.raw) ∧
    lrSubstr (m := Res) true (.ok (.null t) :: t1 :: rest) = .ok (.null Ty.str) ∧
    lrSubstr (m := Res) false (.ok (.null t) :: t1 :: rest) = .ok (.null Ty.str) := by
  simp [biSubstr, biSubraw, substrLike, lrSubstr, Val.type, ht]

/-- A null string stays the null string, and a null position or count returns the first argument
unchanged, for every integer position. -/
theorem substr_null_in_null_out (s : Bytes) (a0 : Int64) :
    biSubstr (m := Res) [.ok (.null Ty.str), .ok (.int a0)] = .ok (.null Ty.str) ∧
    biSubstr (m := Res) [.ok (.str s), .ok (.null Ty.int)] = .ok (.str s) ∧
    biSubstr (m := Res) [.ok (.str s), .ok (.int a0), .ok (.null Ty.int)] = .ok (.str s) ∧
    biSubraw (m := Res) [.ok (.null Ty.raw), .ok (.int a0)] = .ok (.null Ty.raw) ∧
    lrSubstr (m := Res) true [.ok (.null Ty.str), .ok (.int a0)] = .ok (.null Ty.str) ∧
    lrSubstr (m := Res) false [.ok (.str s), .ok (.null Ty.int)] = .ok (.str s) := by
  refine ⟨rfl, rfl, rfl, rfl, rfl, rfl⟩

/-- **substr / subraw on EVERY argument list** (any number of arguments, any values: nulls, typed
nulls, tables, decimals, every `Int64`): if a value is returned at all it is the typed null, or the
first argument itself (null string, null position or count, empty string), or a string/byte array
whose content is a contiguous sublist of the first argument's content — nothing outside the data is
ever read. No hypothesis. (That the only other outcomes are BLOC errors is `text_builtins_no_hazard`.) -/
theorem substr_returns_sublist (args : List Val) (x : Val) :
    (biSubstr (m := Res) (args.map .ok) = .ok x → SubShape Ty.str Val.str args x) ∧
    (biSubraw (m := Res) (args.map .ok) = .ok x → SubShape Ty.raw Val.raw args x) :=
  ⟨substrLike_ok_shape _ _ _ _ (fun v s h => .inl (asStr_ok v s h)) args x,
   substrLike_ok_shape _ _ _ _ (fun v s h => .inr (asRaw_ok v s h)) args x⟩

example : SubShape Ty.str Val.str [.str [1, 2, 3], .num 0x4000000000000000] (.str [3]) :=
  (substr_returns_sublist [.str [1, 2, 3], .num 0x4000000000000000] (.str [3])).1 (by rfl)

/-! ## No C-level hazard, for every argument list -/

/-- The built-ins covered by the totality theorem. -/
def textBuiltins : List String :=
  ["substr", "subraw", "lsubstr", "rsubstr", "strpos", "replace", "trim", "ltrim", "rtrim", "upper", "lower",
   "strlen", "tokenize", "hex", "hash", "chr", "raw", "int", "b64enc", "b64dec", "str", "abs", "pow"]

/-- **Totality without undefined behaviour.** For each of the 21 string/bytes/conversion built-ins, `abs`
and `pow`, and EVERY argument list — any number of arguments, of any types (also those the parse-time
signature table would refuse), nulls, typed nulls, tables, tuples, every `Int64`, every decimal bit
pattern, every byte list — the built-in is dispatched and its outcome is a value, a BLOC runtime error
or "unmodelled" (an imaginary operand of `int`, `abs`, `pow`), never a C-level hazard (null
dereference, signed overflow, out-of-range float→int cast), provided the arguments are well-formed
values. There is NO excluded region any more: the former `knownHazard` predicate (substr/subraw with
begin = INT64_MIN, hex with a pad count within 15 of INT64_MAX) is gone with the repairs e2c4824 and
cbe22cc, and abs(INT64_MIN) (fde74fa) and pow(integer, integer) (eec6e8e) are covered as well. -/
theorem text_builtins_no_hazard (fmt : Num.F64 → Bytes) (name : String) (hname : name ∈ textBuiltins) (args : List Val)
    (hwf : ∀ v ∈ args, wfVal v = true) :
    ∃ r, evalBuiltin (m := Res) fmt name (args.map .ok) = some r ∧ r.isHazard = false := by
  simp only [textBuiltins, List.mem_cons, List.not_mem_nil, or_false] at hname
  rcases hname with rfl | rfl | rfl | rfl | rfl | rfl | rfl | rfl | rfl | rfl | rfl | rfl | rfl | rfl | rfl | rfl | rfl | rfl | rfl | rfl | rfl | rfl | rfl
  · exact ⟨_, rfl, substrLike_nh _ _ _ _ (fun v s h => .inl (asStr_ok v s h)) Lemmas.asStr_nh args hwf⟩
  · exact ⟨_, rfl, substrLike_nh _ _ _ _ (fun v s h => .inr (asRaw_ok v s h)) Lemmas.asRaw_nh args hwf⟩
  · exact ⟨_, rfl, lrSubstr_nh _ args hwf⟩
  · exact ⟨_, rfl, lrSubstr_nh _ args hwf⟩
  · exact ⟨_, rfl, strpos_nh args hwf⟩
  · exact ⟨_, rfl, replace_nh args hwf⟩
  · exact ⟨_, rfl, strMap_nh _ args hwf⟩
  · exact ⟨_, rfl, strMap_nh _ args hwf⟩
  · exact ⟨_, rfl, strMap_nh _ args hwf⟩
  · exact ⟨_, rfl, strMap_nh _ args hwf⟩
  · exact ⟨_, rfl, strMap_nh _ args hwf⟩
  · exact ⟨_, rfl, strlen_nh args hwf⟩
  · exact ⟨_, rfl, tokenize_nh args hwf⟩
  · exact ⟨_, rfl, hex_nh args hwf⟩
  · exact ⟨_, rfl, hash_nh args hwf⟩
  · exact ⟨_, rfl, chr_nh args hwf⟩
  · exact ⟨_, rfl, raw_nh args hwf⟩
  · exact ⟨_, rfl, int_nh args hwf⟩
  · exact ⟨_, rfl, b64_nh _ args hwf⟩
  · exact ⟨_, rfl, b64_nh _ args hwf⟩
  · exact ⟨_, rfl, str_nh _ args hwf⟩
  · exact ⟨_, rfl, abs_nh args hwf⟩
  · exact ⟨_, rfl, pow_nh args hwf⟩

/-- instances: a typed-null start position of `strpos` (the repaired null dereference), `hash` with
zero buckets, a table where a string is expected, and the four repaired overflow points: `substr` /
`subraw` at INT64_MIN, `hex` with pad count INT64_MAX, `abs(INT64_MIN)`, `pow(INT64_MAX, 5)`. -/
example (fmt : Num.F64 → Bytes) : ∃ r, evalBuiltin (m := Res) fmt "strpos"
    ([.str [97], .str [97], .null Ty.int].map .ok) = some r ∧ r.isHazard = false :=
  text_builtins_no_hazard fmt _ (by decide) _ (by decide)
example (fmt : Num.F64 → Bytes) : ∃ r, evalBuiltin (m := Res) fmt "hash"
    ([.str [97], .int 0].map .ok) = some r ∧ r.isHazard = false :=
  text_builtins_no_hazard fmt _ (by decide) _ (by decide)
example (fmt : Num.F64 → Bytes) : ∃ r, evalBuiltin (m := Res) fmt "upper"
    ([.tab { major := .str, level := 1 } [] [.str [97]]].map .ok) = some r ∧ r.isHazard = false :=
  text_builtins_no_hazard fmt _ (by decide) _ (by decide)
example (fmt : Num.F64 → Bytes) : ∃ r, evalBuiltin (m := Res) fmt "substr"
    ([.str [97, 98], .int Int64.minValue].map .ok) = some r ∧ r.isHazard = false :=
  text_builtins_no_hazard fmt _ (by decide) _ (by decide)
example (fmt : Num.F64 → Bytes) : ∃ r, evalBuiltin (m := Res) fmt "subraw"
    ([.raw [97, 98], .num 0xc3e0000000000000].map .ok) = some r ∧ r.isHazard = false :=
  text_builtins_no_hazard fmt _ (by decide) _ (by decide)
example (fmt : Num.F64 → Bytes) : ∃ r, evalBuiltin (m := Res) fmt "hex"
    ([.int 0, .int 9223372036854775807].map .ok) = some r ∧ r.isHazard = false :=
  text_builtins_no_hazard fmt _ (by decide) _ (by decide)
example (fmt : Num.F64 → Bytes) : ∃ r, evalBuiltin (m := Res) fmt "abs"
    ([.int Int64.minValue].map .ok) = some r ∧ r.isHazard = false :=
  text_builtins_no_hazard fmt _ (by decide) _ (by decide)
example (fmt : Num.F64 → Bytes) : ∃ r, evalBuiltin (m := Res) fmt "pow"
    ([.int 9223372036854775807, .int 5].map .ok) = some r ∧ r.isHazard = false :=
  text_builtins_no_hazard fmt _ (by decide) _ (by decide)

/-! ## strpos -/

/-- **strpos(x, y, z)** for all strings and every start position `z ≥ 0`: the result is an index `p`
that is the FIRST occurrence of `y` in `x` at or after `z` (`y` is a prefix of `drop p x`, `p ≤ |x|`,
and no smaller index ≥ z has that property), or null when there is none. -/
theorem strpos_contract (hay needle : Bytes) (st : Int64) (hst : 0 ≤ st.toInt) :
    (∃ p, biStrpos (m := Res) [.ok (.str hay), .ok (.str needle), .ok (.int st)] = .ok (.int (Int64.ofNat p)) ∧
        Spec.Text.FirstOcc hay needle st.toInt.toNat p) ∨
    (biStrpos (m := Res) [.ok (.str hay), .ok (.str needle), .ok (.int st)] = .ok (.null Ty.int) ∧
        Spec.Text.NoOcc hay needle st.toInt.toNat) := by
  have hn : ¬ st < 0 := by rw [lt_zero_iff]; omega
  have e : biStrpos (m := Res) [.ok (.str hay), .ok (.str needle), .ok (.int st)] =
      match findFrom hay needle st.toNatClampNeg with
      | some p => .ok (.int (Int64.ofNat p))
      | none => .ok (.null Ty.int) := by
    simp [biStrpos, Val.type, Val.isNull, Val.asInt, Val.asStr, Ty.str, Ty.int, hn]
    rfl
  obtain ⟨h1, h2⟩ := findFrom_spec hay needle st.toNatClampNeg
  rw [e]
  cases hf : findFrom hay needle st.toNatClampNeg with
  | some p => exact .inl ⟨p, rfl, h1 p hf⟩
  | none => exact .inr ⟨rfl, h2 hf⟩

/-- A negative start position is refused with INDEX_RANGE, for all strings. -/
theorem strpos_negative_start (hay needle : Bytes) (st : Int64) (hst : st.toInt < 0) :
    biStrpos (m := Res) [.ok (.str hay), .ok (.str needle), .ok (.int st)] = .err Gen.EXC_RT_INDEX_RANGE_S := by
  have hn : st < 0 := by rw [lt_zero_iff]; exact hst
  simp [biStrpos, Val.type, Val.isNull, Val.asInt, Val.asStr, Ty.str, Ty.int, hn]

/-- Two-argument form: first occurrence from the beginning. -/
theorem strpos_contract2 (hay needle : Bytes) :
    (∃ p, biStrpos (m := Res) [.ok (.str hay), .ok (.str needle)] = .ok (.int (Int64.ofNat p)) ∧
        Spec.Text.FirstOcc hay needle 0 p) ∨
    (biStrpos (m := Res) [.ok (.str hay), .ok (.str needle)] = .ok (.null Ty.int) ∧ Spec.Text.NoOcc hay needle 0) := by
  have e : biStrpos (m := Res) [.ok (.str hay), .ok (.str needle)] =
      match findFrom hay needle 0 with
      | some p => .ok (.int (Int64.ofNat p))
      | none => .ok (.null Ty.int) := by rfl
  obtain ⟨h1, h2⟩ := findFrom_spec hay needle 0
  rw [e]
  cases hf : findFrom hay needle 0 with
  | some p => exact .inl ⟨p, rfl, h1 p hf⟩
  | none => exact .inr ⟨rfl, h2 hf⟩

example : biStrpos (m := Res) [.ok (.str [97, 0, 98, 0, 98]), .ok (.str [0, 98]), .ok (.int 2)] = .ok (.int 3) := by rfl

/-! ## replace -/

/-- **replace(x, "", z) = x** (after `fix: replace ""` in /repo: the pinned code never returned). For
every string `x` and every replacement value. -/
theorem replace_empty_needle (s : Bytes) (z : Val) :
    biReplace (m := Res) [.ok (.str s), .ok (.str []), .ok z] = .ok (.str s) ∨
    biReplace (m := Res) [.ok (.str s), .ok (.str []), .ok z] = .err Gen.EXC_RT_FUNC_ARG_TYPE_S := by
  have e : biReplace (m := Res) [.ok (.str s), .ok (.str []), .ok z] =
      match z.type.major with
      | .none | .str => .ok (.str s)
      | _ => .err Gen.EXC_RT_FUNC_ARG_TYPE_S := by
    simp only [biReplace, Res.ok_bind, Res.pure_eq, argTypeErr_res, Res.liftM_eq, Val.type, Ty.str, Val.isNull]
    cases z.type.major <;> rfl
  rw [e]
  cases z.type.major <;> simp

/-- … and with a string replacement it is exactly `x`. -/
theorem replace_empty_needle_str (s r : Bytes) :
    biReplace (m := Res) [.ok (.str s), .ok (.str []), .ok (.str r)] = .ok (.str s) := by rfl

/-- A needle that does not occur leaves the string unchanged (the loop of builtin_replace.cpp ends at
the first failed `find`), for every non-empty needle. -/
theorem replace_absent_needle (s needle r : Bytes) (hne : needle ≠ []) (h : findFrom s needle 0 = none) :
    biReplace (m := Res) [.ok (.str s), .ok (.str needle), .ok (.str r)] = .ok (.str s) := by
  have hne' : needle.isEmpty = false := by cases needle <;> simp_all
  have e : biReplace (m := Res) [.ok (.str s), .ok (.str needle), .ok (.str r)] =
      if needle.isEmpty then .ok (.str s) else .ok (.str (replaceLoop s needle r (s.length + 1) 0 [])) := by rfl
  rw [e, hne', replaceLoop_no_occurrence s needle r s.length h]; rfl

example : biReplace (m := Res) [.ok (.str [97, 98, 97]), .ok (.str [97]), .ok (.str [0, 0])] = .ok (.str [0, 0, 98, 0, 0]) := by rfl

/-! ## upper / lower / trim / strlen -/

/-- `upper`, `lower` map bytes one to one: the length is preserved, for all strings (8-bit clean: bytes
outside a–z / A–Z are unchanged). -/
theorem upper_length (fmt : Num.F64 → Bytes) (s : Bytes) :
    ∃ r, evalBuiltin (m := Res) fmt "upper" [.ok (.str s)] = some (.ok (.str r)) ∧ r.length = s.length ∧
      ∀ i (h : i < s.length), (97 ≤ s[i] ∧ s[i] ≤ 122) ∨ r[i]? = some s[i] :=
  ⟨s.map upperByte, rfl, List.length_map _, fun i h => by
    by_cases hc : 97 ≤ s[i] ∧ s[i] ≤ 122
    · exact .inl hc
    · right; simp [List.getElem?_map, List.getElem?_eq_getElem h, upperByte, hc]⟩

theorem lower_length (fmt : Num.F64 → Bytes) (s : Bytes) :
    ∃ r, evalBuiltin (m := Res) fmt "lower" [.ok (.str s)] = some (.ok (.str r)) ∧ r.length = s.length ∧
      ∀ i (h : i < s.length), (65 ≤ s[i] ∧ s[i] ≤ 90) ∨ r[i]? = some s[i] :=
  ⟨s.map lowerByte, rfl, List.length_map _, fun i h => by
    by_cases hc : 65 ≤ s[i] ∧ s[i] ≤ 90
    · exact .inl hc
    · right; simp [List.getElem?_map, List.getElem?_eq_getElem h, lowerByte, hc]⟩

/-- `trim`, `ltrim`, `rtrim` return a contiguous sublist (infix / suffix / prefix) of the argument,
hence never longer, for all strings. -/
theorem trim_infix (fmt : Num.F64 → Bytes) (s : Bytes) :
    (∃ r, evalBuiltin (m := Res) fmt "trim" [.ok (.str s)] = some (.ok (.str r)) ∧ r <:+: s ∧ r.length ≤ s.length) ∧
    (∃ r, evalBuiltin (m := Res) fmt "ltrim" [.ok (.str s)] = some (.ok (.str r)) ∧ r <:+ s ∧ r.length ≤ s.length) ∧
    (∃ r, evalBuiltin (m := Res) fmt "rtrim" [.ok (.str s)] = some (.ok (.str r)) ∧ r <+: s ∧ r.length ≤ s.length) :=
  ⟨⟨_, rfl, Lemmas.trim_infix s, (Lemmas.trim_infix s).length_le⟩,
   ⟨_, rfl, dropWhileSp_suffix s, (dropWhileSp_suffix s).length_le⟩,
   ⟨_, rfl, rtrimSp_prefix s, (rtrimSp_prefix s).length_le⟩⟩

example (fmt : Num.F64 → Bytes) : evalBuiltin (m := Res) fmt "trim" [.ok (.str [32, 32, 0, 32, 255, 32])] = some (.ok (.str [0, 32, 255])) := by rfl

/-- `strlen` is the number of bytes (NUL and high bytes count), for every string of representable length. -/
theorem strlen_value (s : Bytes) (hlen : s.length < 2 ^ 63) :
    ∃ n, biStrlen (m := Res) [.ok (.str s)] = .ok (.int n) ∧ n.toInt = s.length :=
  ⟨lenI s, rfl, lenI_toInt s hlen⟩

/-! ## hex -/

/-- **hex(v, n) is `Spec.Text.hex`, for EVERY integer value and EVERY pad count**: the 64-bit
two's-complement pattern of `v` in lower-case hexadecimal, leading zeros removed while more than
`max 1 (min n 16)` digits remain. Negative pad counts and 0, 1 pad nothing; 16 and everything beyond, up
to INT64_MAX, give all 16 digits — the pad count is clamped to 16 before the digit loop (commit cbe22cc),
so its `n += 1` cannot overflow. (This replaces `hex_hazard_region`, which stated that the loop
overflowed exactly for `n > INT64_MAX − 15`.) -/
theorem hex_contract (v n : Int64) :
    biHex (m := Res) [.ok (.int v), .ok (.int n)] = .ok (.str (Spec.Text.hex v.toInt n.toInt)) := by
  have e : biHex (m := Res) [.ok (.int v), .ok (.int n)] = hexStr v n >>= fun s => .ok (.str s) := by rfl
  rw [e, hexStr_spec]; rfl

/-- `hex(v)`: no padding (pad count 0). -/
theorem hex_contract1 (v : Int64) :
    biHex (m := Res) [.ok (.int v)] = .ok (.str (Spec.Text.hex v.toInt 0)) := by
  have e : biHex (m := Res) [.ok (.int v)] = hexStr v 0 >>= fun s => .ok (.str s) := by rfl
  rw [e, hexStr_spec]; rfl

/-- Padding, for every pad count: the result has at least `min n 16` digits, at least one, at most 16. -/
theorem hex_pad (v n : Int64) :
    ∃ ds, biHex (m := Res) [.ok (.int v), .ok (.int n)] = .ok (.str ds) ∧
      (max 1 (min n.toInt 16)).toNat ≤ ds.length ∧ ds.length ≤ 16 :=
  ⟨_, hex_contract v n, Spec.Text.hex_length _ _⟩

/-- The digits, for every value and pad count: read back as a hexadecimal numeral the result is the 64-bit
two's-complement pattern of `v` (`v` itself when `v ≥ 0`, `v + 2^64` when `v < 0`). -/
theorem hex_value (v n : Int64) :
    ∃ ds, biHex (m := Res) [.ok (.int v), .ok (.int n)] = .ok (.str ds) ∧
      Spec.Text.hexValue ds = Spec.pattern v.toInt :=
  ⟨_, hex_contract v n, Spec.Text.hexValue_hex _ _⟩

example : ∃ ds, biHex (m := Res) [.ok (.int (-2)), .ok (.int 3)] = .ok (.str ds) ∧ Spec.Text.hexValue ds = 18446744073709551614 := by
  obtain ⟨ds, h, hv⟩ := hex_value (-2) 3
  exact ⟨ds, h, by rw [hv]; decide⟩

/-- `hex(v, n)` always returns, and the result consists of between 1 and 16 lower-case hexadecimal
digits, for every value and pad count. -/
theorem hex_digits (v n : Int64) :
    ∃ ds, biHex (m := Res) [.ok (.int v), .ok (.int n)] = .ok (.str ds) ∧ 1 ≤ ds.length ∧ ds.length ≤ 16 ∧
      ∀ c ∈ ds, isHexDigitLower c = true := by
  have e : biHex (m := Res) [.ok (.int v), .ok (.int n)] = hexStr v n >>= fun s => .ok (.str s) := by rfl
  have hs := hexStr_spec v n
  obtain ⟨ds, e1, l1, l2, hd⟩ := hexLoop_ok v 15 (hexClamp n) 0 [] _ hs
  rw [List.nil_append] at e1
  exact ⟨_, by rw [e, hs]; rfl, by rw [e1]; exact l1, by rw [e1]; exact l2, by rw [e1]; exact hd⟩

example : biHex (m := Res) [.ok (.int 255), .ok (.int 4)] = .ok (.str [48, 48, 102, 102]) := by rfl
example : biHex (m := Res) [.ok (.int (-1))] = .ok (.str (List.replicate 16 102)) := by rfl
/-- the former finding region: pad counts near INT64_MAX pad to 16 digits; negative ones pad nothing -/
example : biHex (m := Res) [.ok (.int 0), .ok (.int 9223372036854775807)] = .ok (.str (List.replicate 16 48)) := by
  rw [hex_contract, show Spec.Text.hex (0 : Int64).toInt (9223372036854775807 : Int64).toInt = List.replicate 16 48 by decide +kernel]
example : biHex (m := Res) [.ok (.int 171), .ok (.int Int64.minValue)] = .ok (.str [97, 98]) := by
  rw [hex_contract, show Spec.Text.hex (171 : Int64).toInt Int64.minValue.toInt = [97, 98] by decide +kernel]
example : biHex (m := Res) [.ok (.int 171), .ok (.int 17)] = .ok (.str ("00000000000000ab".toUTF8.toList)) := by
  rw [hex_contract, show Spec.Text.hex (171 : Int64).toInt (17 : Int64).toInt = "00000000000000ab".toUTF8.toList by decide +kernel]

/-! ## abs / pow -/

/-- **abs(l)** for EVERY integer: the absolute value reduced modulo 2^64 into [−2^63, 2^63) — so it is
`|l|` (and non-negative) for every `l` but INT64_MIN, and `abs(INT64_MIN) = INT64_MIN`, exactly as the
unary minus wraps (`C03.neg_exact`). The C++ computes `0 - uint64_t(l)` (commit fde74fa; before, the
signed `-l` was undefined behaviour at INT64_MIN: finding C01.bi.abs.overflow). -/
theorem abs_contract (l : Int64) :
    ∃ r, biAbs (m := Res) [.ok (.int l)] = .ok (.int r) ∧ r.toInt = Spec.wrap (l.toInt.natAbs : Int) ∧
      (l ≠ Int64.minValue → r.toInt = (l.toInt.natAbs : Int) ∧ 0 ≤ r.toInt) ∧
      (l = Int64.minValue → r = Int64.minValue) := by
  have e : biAbs (m := Res) [.ok (.int l)] = .ok (.int (if l < 0 then Num.ineg l else l)) := by rfl
  have h1 := Int64.le_toInt l
  have h2 := Int64.toInt_lt l
  refine ⟨_, e, ?_, ?_, ?_⟩
  · by_cases hn : l < 0
    · have hn' := (lt_zero_iff l).mp hn
      rw [if_pos hn, C03.neg_exact]
      unfold Spec.neg
      congr 1; omega
    · have hn' : ¬ l.toInt < 0 := fun h => hn ((lt_zero_iff l).mpr h)
      rw [if_neg hn]
      unfold Spec.wrap
      rw [Int.bmod_eq_of_le] <;> omega
  · intro hm
    have hm' : l.toInt ≠ -2 ^ 63 := by
      intro e'; apply hm; apply Int64.toInt_inj.mp; rw [e', Int64.toInt_minValue]
    by_cases hn : l < 0
    · have hn' := (lt_zero_iff l).mp hn
      rw [if_pos hn, C03.neg_exact]
      unfold Spec.neg Spec.wrap
      rw [Int.bmod_eq_of_le] <;> omega
    · have hn' : ¬ l.toInt < 0 := fun h => hn ((lt_zero_iff l).mpr h)
      rw [if_neg hn]; omega
  · intro hm; subst hm; rfl

example : biAbs (m := Res) [.ok (.int (-5))] = .ok (.int 5) := by rfl
example : biAbs (m := Res) [.ok (.int Int64.minValue)] = .ok (.int Int64.minValue) := by rfl
example : ∃ r, biAbs (m := Res) [.ok (.int (-9223372036854775807))] = .ok (.int r) ∧ r.toInt = 9223372036854775807 := by
  obtain ⟨r, h, _, h3, _⟩ := abs_contract (-9223372036854775807)
  exact ⟨r, h, (h3 (by decide)).1⟩

/-- `abs` of a decimal clears the sign (`std::abs(double)`, delegated to IEEE); a typed null comes back
as it is and an untyped null gives a null decimal. -/
theorem abs_decimal (d : Num.F64) : biAbs (m := Res) [.ok (.num d)] = .ok (.num (Num.bits (Num.f d).abs)) := by rfl

theorem abs_null :
    biAbs (m := Res) [.ok (.null Ty.int)] = .ok (.null Ty.int) ∧
    biAbs (m := Res) [.ok (.null Ty.num)] = .ok (.null Ty.num) ∧
    biAbs (m := Res) [.ok (.null Ty.none)] = .ok (.null Ty.num) := ⟨rfl, rfl, rfl⟩

/-- `pow(a, n)` on two integers is the model of the `**` operator (`Num.ipow`), for ALL operands. -/
theorem pow_eq_operator (a n : Int64) :
    biPow (m := Res) [.ok (.int a), .ok (.int n)] = evalBin .exp (.int a) (.int n) := by
  have e : biPow (m := Res) [.ok (.int a), .ok (.int n)] = Num.ipow a n >>= fun r => .ok (.int r) := by rfl
  rw [e, C03.evalBin_int .exp Num.ipow rfl]
  cases Num.ipow a n <;> rfl

/-- **pow(a, n) is exact**: for every base and every exponent `n ≥ 0` the built-in returns the exact
power `a^n` reduced modulo 2^64 (`Spec.pow`), computed by square-and-multiply in `uint64_t` like the
`**` operator (builtin_pow.cpp after commit eec6e8e; before, it went through `std::pow` on doubles: the
low bits were lost beyond 2^53 and the conversion back was undefined out of range — finding
C01.bi.pow.floatcast). Uses `C03.pow_exact`. -/
theorem pow_exact (a n : Int64) (hn : 0 ≤ n.toInt) :
    ∃ r, biPow (m := Res) [.ok (.int a), .ok (.int n)] = .ok (.int r) ∧ r.toInt = Spec.pow a.toInt n.toInt.toNat := by
  have e : biPow (m := Res) [.ok (.int a), .ok (.int n)] = Num.ipow a n >>= fun r => .ok (.int r) := by rfl
  have h := C03.pow_exact a n hn
  cases hp : Num.ipow a n with
  | ok r =>
    rw [hp] at h
    simp only [C03.mapInt] at h
    injection h with h
    exact ⟨r, by rw [e, hp]; rfl, h⟩
  | err c x => rw [hp] at h; simp [C03.mapInt] at h
  | haz x => rw [hp] at h; simp [C03.mapInt] at h
  | unmodelled => rw [hp] at h; simp [C03.mapInt] at h

/-- Negative exponents as the `**` operator: `1/(a ** −n)` truncated toward zero — DIVIDE_BY_ZERO for
base 0, 1 for base 1, ±1 for base −1 (by the parity of `n`), 0 for every other base. -/
theorem pow_negative_exponent (a n : Int64) (hn : n.toInt < 0) :
    biPow (m := Res) [.ok (.int a), .ok (.int n)] =
      if a = 0 then .err Gen.EXC_RT_DIVIDE_BY_ZERO
      else if a = 1 then .ok (.int 1)
      else if a = -1 then .ok (.int (if n &&& 1 = 1 then -1 else 1))
      else .ok (.int 0) := by
  have e : biPow (m := Res) [.ok (.int a), .ok (.int n)] = Num.ipow a n >>= fun r => .ok (.int r) := by rfl
  have hlt : n < 0 := (lt_zero_iff n).mpr hn
  rw [e]
  unfold Num.ipow
  simp only [hlt, if_true, beq_iff_eq]
  split
  · rfl
  · split
    · rfl
    · split
      · split <;> rfl
      · rfl

example : ∃ r, biPow (m := Res) [.ok (.int 3), .ok (.int 39)] = .ok (.int r) ∧ r.toInt = Spec.pow 3 39 :=
  pow_exact 3 39 (by decide)
example : biPow (m := Res) [.ok (.int 3), .ok (.int 39)] = .ok (.int 4052555153018976267) := by
  rw [pow_eq_operator, C03.evalBin_int .exp Num.ipow rfl, show Num.ipow 3 39 = .ok 4052555153018976267 by decide]; rfl
/-- the former finding witness: pow(INT64_MAX, 5) = (2^63 − 1)^5 mod 2^64 = 2^63 − 1 -/
example : biPow (m := Res) [.ok (.int 9223372036854775807), .ok (.int 5)] = .ok (.int 9223372036854775807) := by
  rw [pow_eq_operator, C03.evalBin_int .exp Num.ipow rfl, show Num.ipow 9223372036854775807 5 = .ok 9223372036854775807 by decide]; rfl
example : biPow (m := Res) [.ok (.int 0), .ok (.int (-1))] = .err Gen.EXC_RT_DIVIDE_BY_ZERO := by
  rw [pow_negative_exponent _ _ (by decide)]; rfl
example : biPow (m := Res) [.ok (.int (-1)), .ok (.int (-3))] = .ok (.int (-1)) := by
  rw [pow_negative_exponent _ _ (by decide)]; rfl
example : biPow (m := Res) [.ok (.null Ty.none), .ok (.int 2)] = .ok (.null Ty.int) := rfl

/-! ## raw / hash -/

/-- **raw(n, v)** for ALL integers: a negative size is refused with INDEX_RANGE, a fill code outside
0..255 with OUT_OF_RANGE, otherwise the result is `n` bytes of value `v` (`toNatClampNeg n` is
`n.toInt.toNat`). -/
theorem raw_contract (n v : Int64) :
    biRaw (m := Res) [.ok (.int n), .ok (.int v)] =
      if n.toInt < 0 then .err Gen.EXC_RT_INDEX_RANGE_S
      else if 0 ≤ v.toInt ∧ v.toInt ≤ 255 then .ok (.raw (List.replicate n.toNatClampNeg v.toUInt64.toUInt8))
      else .err Gen.EXC_RT_OUT_OF_RANGE := by
  have h0 : (n < 0) ↔ n.toInt < 0 := Int64.lt_iff_toInt_lt
  have h1 : (v < 0) ↔ v.toInt < 0 := Int64.lt_iff_toInt_lt
  have h2 : (v > 255) ↔ v.toInt > 255 := by
    show (255 : Int64) < v ↔ _
    rw [Int64.lt_iff_toInt_lt]; rfl
  have e : biRaw (m := Res) [.ok (.int n), .ok (.int v)] =
      if n < 0 then .err Gen.EXC_RT_INDEX_RANGE_S
      else if v < 0 || v > 255 then .err Gen.EXC_RT_OUT_OF_RANGE
      else .ok (.raw (List.replicate n.toNatClampNeg v.toUInt64.toUInt8)) := by
    simp [biRaw, Val.type, Val.isNull, Val.asInt, Ty.int]
  rw [e]
  by_cases hn : n.toInt < 0
  · simp [h0, hn]
  · by_cases hv : 0 ≤ v.toInt ∧ v.toInt ≤ 255
    · have a : ¬ v.toInt < 0 := by omega
      have b : ¬ v.toInt > 255 := by omega
      simp [h0, hn, h1, h2, hv, a, b]
    · have : v.toInt < 0 ∨ v.toInt > 255 := by omega
      rcases this with a | b <;> simp [*]

example : biRaw (m := Res) [.ok (.int 3), .ok (.int 200)] = .ok (.raw [200, 200, 200]) := by rw [raw_contract]; rfl
example : biRaw (m := Res) [.ok (.int 3), .ok (.int 256)] = .err Gen.EXC_RT_OUT_OF_RANGE := by rw [raw_contract]; rfl
example : biRaw (m := Res) [.ok (.int (-1)), .ok (.int 0)] = .err Gen.EXC_RT_INDEX_RANGE_S := by rw [raw_contract]; rfl

/-- **hash(x, m)** for every string and ALL bucket counts: `1 ≤ m ≤ 2^32 − 1` gives a bucket in
`[0, m)`; every other count (zero — the repaired SIGFPE —, negative, ≥ 2^32) is refused with OUT_OF_RANGE. -/
theorem hash_range (s : Bytes) (m : Int64) :
    (1 ≤ m.toInt ∧ m.toInt ≤ 4294967295 →
      ∃ h, biHash (m := Res) [.ok (.str s), .ok (.int m)] = .ok (.int h) ∧ 0 ≤ h.toInt ∧ h.toInt < m.toInt) ∧
    (¬ (1 ≤ m.toInt ∧ m.toInt ≤ 4294967295) →
      biHash (m := Res) [.ok (.str s), .ok (.int m)] = .err Gen.EXC_RT_OUT_OF_RANGE) := by
  have h1 : (m < 1) ↔ m.toInt < 1 := Int64.lt_iff_toInt_lt
  have h2 : (m > 4294967295) ↔ m.toInt > 4294967295 := by
    show (4294967295 : Int64) < m ↔ _
    rw [Int64.lt_iff_toInt_lt]; rfl
  have e : biHash (m := Res) [.ok (.str s), .ok (.int m)] =
      if m < 1 || m > 4294967295 then .err Gen.EXC_RT_OUT_OF_RANGE
      else .ok (.int (djb32 s % m.toUInt64.toUInt32).toUInt64.toInt64) := by
    simp [biHash, Val.type, Val.isNull, Val.asInt, Val.asStr, Ty.int, Ty.str]
  rw [e]
  constructor
  · intro hm
    have a : ¬ m.toInt < 1 := by omega
    have b : ¬ m.toInt > 4294967295 := by omega
    have hc : ¬ ((decide (m < 1) || decide (m > 4294967295)) = true) := by simp [h1, h2, a, b]
    rw [if_neg hc]
    refine ⟨_, rfl, ?_⟩
    have hm32 : m.toUInt64.toUInt32.toNat = m.toInt.toNat := by
      rw [UInt64.toNat_toUInt32, toNat_toUInt64_of_nonneg m (by omega)]
      omega
    have hlt : (djb32 s % m.toUInt64.toUInt32).toNat < m.toInt.toNat := by
      rw [UInt32.toNat_mod, hm32]
      exact Nat.mod_lt _ (by omega)
    have ht : ((djb32 s % m.toUInt64.toUInt32).toUInt64.toInt64).toInt = ((djb32 s % m.toUInt64.toUInt32).toNat : Int) := by
      rw [toInt_toInt64, UInt32.toNat_toUInt64]
      unfold Spec.wrap
      rw [Int.bmod_eq_of_le] <;> omega
    rw [ht]; omega
  · intro hm
    have : m.toInt < 1 ∨ m.toInt > 4294967295 := by omega
    rcases this with a | b <;> simp [*]

example : ∃ h, biHash (m := Res) [.ok (.str [0, 255]), .ok (.int 7)] = .ok (.int h) ∧ 0 ≤ h.toInt ∧ h.toInt < 7 :=
  (hash_range [0, 255] 7).1 (by decide)
example : biHash (m := Res) [.ok (.str [97]), .ok (.int 0)] = .err Gen.EXC_RT_OUT_OF_RANGE := (hash_range [97] 0).2 (by decide)

/-! ## tokenize -/

/-- **tokenize / join.** With null trimming off (third argument absent or false), the pieces of
`tokenize(x, sep)` joined by `sep` give back `x` — for every string and every separator (also an
empty or absent one, also separators that overlap themselves). -/
theorem tokenize_join (s sep : Bytes) :
    ∃ pieces, biTokenize (m := Res) [.ok (.str s), .ok (.str sep)] = .ok (.tab tabStrTy [] (pieces.map Val.str)) ∧
      Spec.Text.join sep pieces = s :=
  ⟨tokenize s sep false, rfl, Lemmas.tokenize_join s sep⟩

theorem tokenize_join_false (s sep : Bytes) :
    ∃ pieces, biTokenize (m := Res) [.ok (.str s), .ok (.str sep), .ok (.bool false)] =
        .ok (.tab tabStrTy [] (pieces.map Val.str)) ∧ Spec.Text.join sep pieces = s :=
  ⟨tokenize s sep false, rfl, Lemmas.tokenize_join s sep⟩

example : tokenize [97, 44, 44, 98, 44] [44] false = [[97], [], [98], []] := by decide
example : tokenize [97, 44, 44, 98, 44] [44] true = [[97], [98]] := by decide

/-! ## Code range of `put` / `concat` on strings and byte arrays (Model/Members.lean) -/

/-- The character-code argument of the byte-level members (`Integer c = *a.integer(); if (c < 0 || c >
255) throw OUT_OF_RANGE`): accepted exactly in 0..255, and then it is that byte. -/
theorem charArg_range (c : Int64) :
    charArg (.int c) = if 0 ≤ c.toInt ∧ c.toInt ≤ 255 then .ok (byteOfInt c) else .err Gen.EXC_RT_OUT_OF_RANGE := by
  have h0 : (c < 0) ↔ c.toInt < 0 := Int64.lt_iff_toInt_lt
  have h1 : (c > 255) ↔ c.toInt > 255 := by
    show (255 : Int64) < c ↔ _
    rw [Int64.lt_iff_toInt_lt]; rfl
  have e : charArg (.int c) = if c < 0 || c > 255 then .err Gen.EXC_RT_OUT_OF_RANGE else .ok (byteOfInt c) := by rfl
  rw [e]
  by_cases hc : 0 ≤ c.toInt ∧ c.toInt ≤ 255
  · have a : ¬ (c < 0) := by rw [h0]; omega
    have b : ¬ (c > 255) := by rw [h1]; omega
    simp [hc, a, b]
  · have : (c < 0) ∨ (c > 255) := by rw [h0, h1]; omega
    rcases this with a | b <;> simp [*]

theorem byteOfInt_toNat (c : Int64) (h : 0 ≤ c.toInt ∧ c.toInt ≤ 255) : ((byteOfInt c).toNat : Int) = c.toInt := by
  unfold byteOfInt
  rw [UInt8.toNat_ofNat']
  omega

/-- `x.put(p, c)` on a string or a byte array with a valid position: a code outside 0..255 is
rejected with OUT_OF_RANGE, for every content, position and code; inside, byte `p` becomes `c`. -/
theorem put_str_code_range (s : Bytes) (p c : Int64) (isConst : Bool) (hp : inRange p s.length = true) :
    mPut (.str s) (.int p) (.int c) isConst =
      if 0 ≤ c.toInt ∧ c.toInt ≤ 255 then
        .ok (.str (listPut s (idxOf p) (byteOfInt c)), if isConst then .str s else .str (listPut s (idxOf p) (byteOfInt c)))
      else .err Gen.EXC_RT_OUT_OF_RANGE := by
  have e : mPut (.str s) (.int p) (.int c) isConst =
      if !inRange p s.length then idxErr else
      match charArg (.int c) with
      | .ok b => .ok (.str (listPut s (idxOf p) b), if isConst then .str s else .str (listPut s (idxOf p) b))
      | .err c x => .err c x
      | .haz h => .haz h
      | .unmodelled => .unmodelled := by rfl
  rw [e, hp, charArg_range]
  by_cases hc : 0 ≤ c.toInt ∧ c.toInt ≤ 255 <;> simp [hc]

theorem put_raw_code_range (s : Bytes) (p c : Int64) (isConst : Bool) (hp : inRange p s.length = true) :
    mPut (.raw s) (.int p) (.int c) isConst =
      if 0 ≤ c.toInt ∧ c.toInt ≤ 255 then
        .ok (.raw (listPut s (idxOf p) (byteOfInt c)), .raw (listPut s (idxOf p) (byteOfInt c)))
      else .err Gen.EXC_RT_OUT_OF_RANGE := by
  have e : mPut (.raw s) (.int p) (.int c) isConst =
      if !inRange p s.length then idxErr else
      match charArg (.int c) with
      | .ok b => .ok (.raw (listPut s (idxOf p) b), .raw (listPut s (idxOf p) b))
      | .err c x => .err c x
      | .haz h => .haz h
      | .unmodelled => .unmodelled := by rfl
  rw [e, hp, charArg_range]
  by_cases hc : 0 ≤ c.toInt ∧ c.toInt ≤ 255 <;> simp [hc]

/-- `x.concat(c)` with an integer code on a byte array: outside 0..255 → OUT_OF_RANGE; inside, the
byte is appended. -/
theorem concat_raw_code_range (s : Bytes) (c : Int64) (isConst : Bool) :
    mConcat (.raw s) (.int c) isConst =
      if 0 ≤ c.toInt ∧ c.toInt ≤ 255 then .ok (.raw (s ++ [byteOfInt c]), .raw (s ++ [byteOfInt c]))
      else .err Gen.EXC_RT_OUT_OF_RANGE := by
  have e : mConcat (.raw s) (.int c) isConst =
      match charArg (.int c) with
      | .ok b => .ok (.raw (s ++ [b]), .raw (s ++ [b]))
      | .err c x => .err c x
      | .haz h => .haz h
      | .unmodelled => .unmodelled := by rfl
  rw [e, charArg_range]
  by_cases hc : 0 ≤ c.toInt ∧ c.toInt ≤ 255 <;> simp [hc]

example : mPut (.raw [1, 2, 3]) (.int 1) (.int 256) false = .err Gen.EXC_RT_OUT_OF_RANGE := by
  rw [put_raw_code_range _ _ _ _ (by decide)]; rfl
example : mPut (.str [1, 2, 3]) (.int 1) (.int 255) false = .ok (.str [1, 255, 3], .str [1, 255, 3]) := by
  rw [put_str_code_range _ _ _ _ (by decide)]; rfl
example : mConcat (.raw [1]) (.int (-1)) false = .err Gen.EXC_RT_OUT_OF_RANGE := by
  rw [concat_raw_code_range]; rfl

/-! ## Round C10: num / isnum, the numeric built-ins, 8-bit cleanliness -/

/-! ### isnum(s) is true exactly when num(s) succeeds -/

/-- **`isnum(s)` ⇔ `num(s)` succeeds, for ALL byte strings** (strings and byte arrays, any 8-bit content,
any length): both run the same `std::stod` (Model/Strtod.lean); `isnum` answers `true` exactly when
`num` returns a decimal, and `false` exactly when `num` raises STRING_TO_NUM (nothing converted) or
OUT_OF_RANGE (overflow, or a tiny inexact result: glibc's ERANGE). Neither is ever a hazard. -/
theorem isnum_iff_num (s : Bytes) :
    (biIsnum (m := Res) [.ok (.str s)] = .ok (.bool true) ↔ ∃ d, biNum (m := Res) [.ok (.str s)] = .ok (.num d)) ∧
    (biIsnum (m := Res) [.ok (.str s)] = .ok (.bool false) ↔
      (biNum (m := Res) [.ok (.str s)] = .err Gen.EXC_RT_STRING_TO_NUM ∨
       biNum (m := Res) [.ok (.str s)] = .err Gen.EXC_RT_OUT_OF_RANGE)) ∧
    (biIsnum (m := Res) [.ok (.raw s)] = .ok (.bool true) ↔ ∃ d, biNum (m := Res) [.ok (.raw s)] = .ok (.num d)) ∧
    (biIsnum (m := Res) [.ok (.raw s)] = .ok (.bool false) ↔
      (biNum (m := Res) [.ok (.raw s)] = .err Gen.EXC_RT_STRING_TO_NUM ∨
       biNum (m := Res) [.ok (.raw s)] = .err Gen.EXC_RT_OUT_OF_RANGE)) := by
  have e1 : biIsnum (m := Res) [.ok (.str s)] = .ok (.bool (isnumString s)) := rfl
  have e2 : biNum (m := Res) [.ok (.str s)] = numOfString s >>= fun d => .ok (.num d) := rfl
  have e3 : biIsnum (m := Res) [.ok (.raw s)] = .ok (.bool (isnumString s)) := rfl
  have e4 : biNum (m := Res) [.ok (.raw s)] = numOfString s >>= fun d => .ok (.num d) := rfl
  rw [e1, e2, e3, e4]
  unfold isnumString numOfString
  cases Strtod.stod s <;> simp [Gen.EXC_RT_STRING_TO_NUM, Gen.EXC_RT_OUT_OF_RANGE]

/-- through the dispatcher, as a program calls them -/
theorem isnum_iff_num_dispatch (fmt : Num.F64 → Bytes) (s : Bytes) :
    evalBuiltin (m := Res) fmt "isnum" [.ok (.str s)] = some (.ok (.bool true)) ↔
      ∃ d, evalBuiltin (m := Res) fmt "num" [.ok (.str s)] = some (.ok (.num d)) := by
  have h := (isnum_iff_num s).1
  constructor
  · intro h1
    have : biIsnum (m := Res) [.ok (.str s)] = .ok (.bool true) := Option.some.inj h1
    obtain ⟨d, hd⟩ := h.1 this
    exact ⟨d, congrArg some hd⟩
  · rintro ⟨d, hd⟩
    exact congrArg some (h.2 ⟨d, Option.some.inj hd⟩)

/-- `num` on a string is `numOfString` (used by the closed examples: `Res F64` has decidable equality). -/
theorem num_str_eq (s : Bytes) : biNum (m := Res) [.ok (.str s)] = (numOfString s >>= fun d => .ok (.num d)) := rfl

example : isnumString "12abc".toUTF8.toList = true := by decide +kernel
example : numOfString "  -7.25".toUTF8.toList = .ok 0xc01d000000000000 := by decide +kernel
example : numOfString "abc".toUTF8.toList = .err Gen.EXC_RT_STRING_TO_NUM := by decide +kernel
example : numOfString "1e999".toUTF8.toList = .err Gen.EXC_RT_OUT_OF_RANGE := by decide +kernel
example : numOfString "0x1p-1074".toUTF8.toList = .ok 1 := by decide +kernel
example : numOfString "0x0.fffffffffffffcp-1022".toUTF8.toList = .ok 0x0010000000000000 := by decide +kernel
example : numOfString "0x0.fffffffffffff8p-1022".toUTF8.toList = .err Gen.EXC_RT_OUT_OF_RANGE := by decide +kernel

/-- `isnum` never fails and never reaches a hazard, whatever the argument (null, table, object, …):
the answer is a boolean. -/
theorem isnum_total (v : Val) (hw : wfVal v = true) : ∃ b, biIsnum (m := Res) [.ok v] = .ok (.bool b) := by
  cases v with
  | tab t d e =>
    have hl : (t.level != 0) = true := hw
    refine ⟨false, ?_⟩
    unfold biIsnum
    simp only [Res.ok_bind, Val.type, Val.isNull, Bool.false_or, hl, ↓reduceIte]
    rfl
  | tup decl items =>
    refine ⟨false, ?_⟩
    unfold biIsnum
    simp only [Res.ok_bind, Val.type, Val.isNull, Bool.false_or]
    unfold makeTupleTy
    split <;> rfl
  | _ => exact ⟨_, rfl⟩

/-- A NUL byte ends the number (the C++ hands `c_str()` to `strtod`): a string that STARTS with NUL is
never a number, whatever follows; and the bytes ≥ 0x80 and the control characters outside 9..13 are
not white space. -/
theorem num_leading_nul (b : Bytes) (c : UInt8) (hc : c = 0 ∨ c ≥ 128 ∨ (c < 9) ∨ (13 < c ∧ c < 32)) :
    biNum (m := Res) [.ok (.str (c :: b))] = .err Gen.EXC_RT_STRING_TO_NUM ∧
    biIsnum (m := Res) [.ok (.str (c :: b))] = .ok (.bool false) := by
  have hs : Strtod.stod (c :: b) = .invalid := by
    have hsp : Strtod.isSpace c = false := by
      unfold Strtod.isSpace
      rcases hc with h | h | h | h
      · subst h; decide
      · have : c.toNat ≥ 128 := h
        simp only [Bool.or_eq_false_iff, beq_eq_false_iff_ne, ne_eq, Bool.and_eq_false_iff, decide_eq_false_iff_not]
        refine ⟨fun h' => by subst h'; simp at this, .inr (fun h' => by have : c.toNat ≤ 13 := h'; omega)⟩
      · have : c.toNat < 9 := h
        simp only [Bool.or_eq_false_iff, beq_eq_false_iff_ne, ne_eq, Bool.and_eq_false_iff, decide_eq_false_iff_not]
        refine ⟨fun h' => by subst h'; simp at this, .inl (fun h' => by have : 9 ≤ c.toNat := h'; omega)⟩
      · have h1 : 13 < c.toNat := h.1
        have h2 : c.toNat < 32 := h.2
        simp only [Bool.or_eq_false_iff, beq_eq_false_iff_ne, ne_eq, Bool.and_eq_false_iff, decide_eq_false_iff_not]
        refine ⟨fun h' => by subst h'; simp at h2, .inr (fun h' => by have : c.toNat ≤ 13 := h'; omega)⟩
    have hrange : c.toNat < 32 ∨ c.toNat ≥ 128 := by
      rcases hc with h | h | h | h
      · subst h; left; decide
      · right; exact h
      · left; have : c.toNat < 9 := h; omega
      · left; exact h.2
    have hne : ∀ k : UInt8, 32 ≤ k.toNat → k.toNat < 128 → c ≠ k := by
      intro k h1 h2 h; subst h; omega
    have hlow : Strtod.lowerB c = c := by
      unfold Strtod.lowerB
      have : ¬ (65 ≤ c.toNat ∧ c.toNat ≤ 90) := by omega
      simp only [Bool.and_eq_true, decide_eq_true_eq, ite_eq_right_iff]
      intro h; exact absurd ⟨h.1, h.2⟩ this
    have hdig : Strtod.isDigit c = false := by
      unfold Strtod.isDigit
      simp only [Bool.and_eq_false_iff, decide_eq_false_iff_not]
      rcases hrange with h | h
      · left; intro h'; have : 48 ≤ c.toNat := h'; omega
      · right; intro h'; have : c.toNat ≤ 57 := h'; omega
    unfold Strtod.stod
    simp only [List.dropWhile_cons, hsp, Bool.false_eq_true, ↓reduceIte]
    have h45 := hne 45 (by decide) (by decide)
    have h43 := hne 43 (by decide) (by decide)
    have h105 := hne 105 (by decide) (by decide)
    have h110 := hne 110 (by decide) (by decide)
    have h48 := hne 48 (by decide) (by decide)
    have h46 := hne 46 (by decide) (by decide)
    split
    · rename_i r heq; cases heq; exact absurd rfl h45
    · rename_i r heq; cases heq; exact absurd rfl h43
    · dsimp only
      · skip
        have e1 : Strtod.startsCI (c :: b) [105, 110, 102] = false := by
          unfold Strtod.startsCI
          simp only [List.length_cons, List.length_nil, List.take_succ_cons, List.map_cons, hlow]
          cases hb : (List.map Strtod.lowerB (List.take 2 b)) <;> simp [h105]
        have e2 : Strtod.startsCI (c :: b) [110, 97, 110] = false := by
          unfold Strtod.startsCI
          simp only [List.length_cons, List.length_nil, List.take_succ_cons, List.map_cons, hlow]
          cases hb : (List.map Strtod.lowerB (List.take 2 b)) <;> simp [h110]
        simp only [e1, e2, Bool.false_eq_true, ↓reduceIte]
        have e4 : Strtod.mantissa Strtod.isDigit (c :: b) = ([], [], c :: b) := by
          unfold Strtod.mantissa
          simp only [List.takeWhile_cons, hdig, Bool.false_eq_true, ↓reduceIte, List.dropWhile_cons]
          split
          · rename_i r h; cases h; exact absurd rfl h46
          · rfl
        split
        · rename_i ip fp rest heq
          split at heq
          · rename_i x r h; cases h; exact absurd rfl h48
          · cases heq
        · rw [e4]; rfl
  have e1 : biIsnum (m := Res) [.ok (.str (c :: b))] = .ok (.bool (isnumString (c :: b))) := rfl
  have e2 : biNum (m := Res) [.ok (.str (c :: b))] = numOfString (c :: b) >>= fun d => .ok (.num d) := rfl
  rw [e1, e2]
  unfold isnumString numOfString
  rw [hs]
  exact ⟨rfl, rfl⟩

example : biNum (m := Res) [.ok (.str [0, 49, 50])] = .err Gen.EXC_RT_STRING_TO_NUM := (num_leading_nul [49, 50] 0 (.inl rfl)).1
example : numOfString [49, 0, 50] = .ok 0x3ff0000000000000 := by decide +kernel

/-! ### num(str(d)) -/

/-- `num(str(d)) = d` — PARTIAL. Full statement wanted (not proved): for every finite double `d` whose
`%.16g` text has at most 15 significant digits, or more generally whose shortest round-tripping text has at
most 16 digits, `numOfString (Fmt.fmt16g d) = .ok d`; and for every normal `d`,
`numOfString (Fmt.fmt16g d) = .ok d'` with `|d' − d| ≤ 1 ulp`. What is missing: the correct-rounding
theorems of `Strtod.roundBin` and of `Fmt.fmtPos` (|value − printed| ≤ ½·10^(X−15)) — both functions are
exact integer arithmetic, so the statement is within reach, but was not done. Proved here: the five
special values, for which `str` prints `0`, `-0`, `inf`, `-inf`, `nan`, and closed instances checked by the
kernel on the exact arithmetic of both functions. The full statement with "every double" is FALSE for the
code: see `num_str_subnormal_fails`. -/
theorem num_str_roundtrip_partial :
    numOfString (Fmt.fmt16g 0) = .ok 0 ∧
    numOfString (Fmt.fmt16g 0x8000000000000000) = .ok 0x8000000000000000 ∧
    numOfString (Fmt.fmt16g 0x7ff0000000000000) = .ok 0x7ff0000000000000 ∧
    numOfString (Fmt.fmt16g 0xfff0000000000000) = .ok 0xfff0000000000000 ∧
    numOfString (Fmt.fmt16g Num.canonNaN) = .ok Num.canonNaN ∧
    -- 0.1, 1/3 (16 digits printed, comes back), 2^53 + 2, 1e22, 2^1023, the second smallest normal
    numOfString (Fmt.fmt16g 0x3fb999999999999a) = .ok 0x3fb999999999999a ∧
    numOfString (Fmt.fmt16g 0x3fd5555555555555) = .ok 0x3fd5555555555555 ∧
    numOfString (Fmt.fmt16g 0x4340000000000001) = .ok 0x4340000000000001 ∧
    numOfString (Fmt.fmt16g 0x4480f0cf064dd592) = .ok 0x4480f0cf064dd592 ∧
    numOfString (Fmt.fmt16g 0x7fe0000000000000) = .ok 0x7fe0000000000000 ∧
    numOfString (Fmt.fmt16g 0x0010000000000001) = .ok 0x0010000000000001 := by
  refine ⟨?_, ?_, ?_, ?_, ?_, ?_, ?_, ?_, ?_, ?_, ?_⟩ <;> decide +kernel

/-- 16 digits are not always enough: `0.1 + 0.2` (0x3fd3333333333334) prints as `0.3` and reads back as
0x3fd3333333333333 — "up to the printed precision" is as far as the property goes. -/
example : Fmt.fmt16g 0x3fd3333333333334 = "0.3".toUTF8.toList ∧
    numOfString (Fmt.fmt16g 0x3fd3333333333334) = .ok 0x3fd3333333333333 := by
  constructor <;> decide +kernel

/-- **Negation of "num(str(d)) returns for every decimal d"** (finding C10.num.subnormal.erange): the text
of a subnormal double is never exact, glibc's `strtod` reports ERANGE for a tiny inexact result,
`std::stod` turns that into `std::out_of_range`, and `num` raises OUT_OF_RANGE (and `isnum` answers false)
on a text that `str` itself produced. Witnesses: the smallest subnormal (`4.940656458412465e-324`) and the
largest one (`2.225073858507201e-308`). Checked on the real library by the `numstr` stream of the check. -/
theorem num_str_subnormal_fails :
    ¬ (∀ d : Num.F64, Num.isNaN d = false → ∃ r, numOfString (Fmt.fmt16g d) = .ok r) := by
  intro h
  obtain ⟨r, hr⟩ := h 1 (by decide)
  have : numOfString (Fmt.fmt16g 1) = .err Gen.EXC_RT_OUT_OF_RANGE := by decide +kernel
  rw [this] at hr
  cases hr

example : numOfString (Fmt.fmt16g 0x000fffffffffffff) = .err Gen.EXC_RT_OUT_OF_RANGE := by decide +kernel
/-- … and so do the two ends of the normal range: the largest double prints as `1.797693134862316e+308`, which is
above the overflow threshold; the smallest normal prints as `2.225073858507201e-308`, which is below 2^-1022, tiny
and inexact. -/
example : numOfString (Fmt.fmt16g 0x7fefffffffffffff) = .err Gen.EXC_RT_OUT_OF_RANGE ∧
    numOfString (Fmt.fmt16g 0x0010000000000000) = .err Gen.EXC_RT_OUT_OF_RANGE := by
  constructor <;> decide +kernel
example : isnumString (Fmt.fmt16g 1) = false := by decide +kernel

/-! ### the numeric built-ins: documented values on integers -/

/-- `sign(i)` ∈ {−1, 0, 1} and is the sign of `i`, every Int64. -/
theorem sign_contract (i : Int64) :
    ∃ r, biSign (m := Res) [.ok (.int i)] = .ok (.int r) ∧ r.toInt = Int.sign i.toInt := by
  have e : biSign (m := Res) [.ok (.int i)] = .ok (.int (if i < 0 then -1 else if i > 0 then 1 else 0)) := rfl
  refine ⟨_, e, ?_⟩
  have h0 : (0 : Int64).toInt = 0 := rfl
  by_cases h1 : i < 0
  · have : i.toInt < 0 := by simpa [Int64.lt_iff_toInt_lt, h0] using h1
    simp only [h1, ↓reduceIte]
    rw [Int.sign_eq_neg_one_of_neg this]; rfl
  · by_cases h2 : i > 0
    · have : 0 < i.toInt := by simpa [Int64.lt_iff_toInt_lt, h0] using h2
      simp only [h1, h2, ↓reduceIte]
      rw [Int.sign_eq_one_of_pos this]; rfl
    · have a : ¬ i.toInt < 0 := by simpa [Int64.lt_iff_toInt_lt, h0] using h1
      have b : ¬ 0 < i.toInt := by simpa [Int64.lt_iff_toInt_lt, h0] using h2
      have : i.toInt = 0 := by omega
      simp only [h1, h2, ↓reduceIte, this]; rfl

example : biSign (m := Res) [.ok (.int Int64.minValue)] = .ok (.int (-1)) := rfl

/-- `max` / `min` of two integers: the mathematical maximum / minimum, every pair of Int64. -/
theorem max_min_contract (x y : Int64) :
    (∃ r, biMinMax (m := Res) true [.ok (.int x), .ok (.int y)] = .ok (.int r) ∧ r.toInt = max x.toInt y.toInt) ∧
    (∃ r, biMinMax (m := Res) false [.ok (.int x), .ok (.int y)] = .ok (.int r) ∧ r.toInt = min x.toInt y.toInt) := by
  have e1 : biMinMax (m := Res) true [.ok (.int x), .ok (.int y)] = .ok (.int (if x < y then y else x)) := rfl
  have e2 : biMinMax (m := Res) false [.ok (.int x), .ok (.int y)] = .ok (.int (if y < x then y else x)) := rfl
  refine ⟨⟨_, e1, ?_⟩, ⟨_, e2, ?_⟩⟩
  · by_cases h : x < y
    · have : x.toInt < y.toInt := by simpa [Int64.lt_iff_toInt_lt] using h
      simp only [h, ↓reduceIte]; omega
    · have : ¬ x.toInt < y.toInt := by simpa [Int64.lt_iff_toInt_lt] using h
      simp only [h, ↓reduceIte]; omega
  · by_cases h : y < x
    · have : y.toInt < x.toInt := by simpa [Int64.lt_iff_toInt_lt] using h
      simp only [h, ↓reduceIte]; omega
    · have : ¬ y.toInt < x.toInt := by simpa [Int64.lt_iff_toInt_lt] using h
      simp only [h, ↓reduceIte]; omega

example : biMinMax (m := Res) true [.ok (.int Int64.minValue), .ok (.int Int64.maxValue)] = .ok (.int Int64.maxValue) := rfl

/-- `mod(x, y)` on integers IS the `%` operator (`Num.imod`: DIVIDE_BY_ZERO for y = 0, 0 for y = −1 — no
INT64_MIN % −1 trap —, C remainder otherwise), every pair of Int64. -/
theorem mod_eq_operator (x y : Int64) :
    biMod (m := Res) [.ok (.int x), .ok (.int y)] = (Num.imod x y >>= fun r => .ok (.int r)) := rfl

example : biMod (m := Res) [.ok (.int Int64.minValue), .ok (.int (-1))] = .ok (.int 0) := rfl
example : biMod (m := Res) [.ok (.int 7), .ok (.int 0)] = .err Gen.EXC_RT_DIVIDE_BY_ZERO := rfl

/-- `clamp(x, lo, hi)` on integers: `lo` below, `hi` above, `x` between — for `lo ≤ hi` the result lies in
[lo, hi] and equals x when x does; every triple of Int64 (for lo > hi the C++ order of the tests decides:
x < lo gives lo). -/
theorem clamp_contract (x lo hi : Int64) :
    ∃ r, biClamp (m := Res) [.ok (.int x), .ok (.int lo), .ok (.int hi)] = .ok (.int r) ∧
      r.toInt = (if x.toInt < lo.toInt then lo.toInt else if hi.toInt < x.toInt then hi.toInt else x.toInt) ∧
      (lo.toInt ≤ hi.toInt → lo.toInt ≤ r.toInt ∧ r.toInt ≤ hi.toInt) := by
  have e : biClamp (m := Res) [.ok (.int x), .ok (.int lo), .ok (.int hi)] =
      .ok (.int (if x < lo then lo else if x > hi then hi else x)) := rfl
  refine ⟨_, e, ?_⟩
  by_cases h1 : x < lo
  · have a : x.toInt < lo.toInt := by simpa [Int64.lt_iff_toInt_lt] using h1
    rw [if_pos h1, if_pos a]
    exact ⟨rfl, fun h => ⟨Int.le_refl _, h⟩⟩
  · have a : ¬ x.toInt < lo.toInt := by simpa [Int64.lt_iff_toInt_lt] using h1
    rw [if_neg h1, if_neg a]
    by_cases h2 : x > hi
    · have b : hi.toInt < x.toInt := by simpa [Int64.lt_iff_toInt_lt] using h2
      rw [if_pos h2, if_pos b]
      exact ⟨rfl, fun h => ⟨h, Int.le_refl _⟩⟩
    · have b : ¬ hi.toInt < x.toInt := by simpa [Int64.lt_iff_toInt_lt] using h2
      rw [if_neg h2, if_neg b]
      exact ⟨rfl, fun _ => ⟨by omega, by omega⟩⟩

example : biClamp (m := Res) [.ok (.int 9), .ok (.int 0), .ok (.int 5)] = .ok (.int 5) := rfl

/-- A null among the three arguments of `clamp` returns the first argument AS IT IS (also when it is a
non-null number). -/
theorem clamp_null (x : Int64) (t : Ty) (v : Val) :
    biClamp (m := Res) [.ok (.int x), .ok (.null t), .ok v] = .ok (.int x) ∧
    biClamp (m := Res) [.ok (.int x), .ok (.int 0), .ok (.null t)] = .ok (.int x) := ⟨rfl, rfl⟩

/-- `bool`, `isnull`, `typeof` on scalars. `bool(i)` is `i ≠ 0`; `isnull` is the null test for EVERY value;
`typeof` never fails and names the major type, `TABLE` for every table. -/
theorem bool_isnull_typeof (v : Val) (i : Int64) :
    biBool (m := Res) [.ok (.int i)] = .ok (.bool (i != 0)) ∧
    biIsnull (m := Res) [.ok v] = .ok (.bool v.isNull) ∧
    biTypeof (m := Res) [.ok v] =
      .ok (.str (if v.type.level > 0 then "TABLE".toUTF8.toList else (majorName v.type.major).toUTF8.toList)) := by
  refine ⟨rfl, rfl, ?_⟩
  unfold biTypeof
  simp only [Res.ok_bind]
  split <;> rfl

example : biTypeof (m := Res) [.ok (.null Ty.none)] = .ok (.str "undefined".toUTF8.toList) := by rfl
example : biTypeof (m := Res) [.ok (.raw [0, 255])] = .ok (.str "bytes".toUTF8.toList) := by rfl

/-- The constants. -/
theorem constants_value (fmt : Num.F64 → Bytes) :
    evalBuiltin (m := Res) fmt "pi" [] = some (.ok (.num 0x400921fb54442d18)) ∧
    evalBuiltin (m := Res) fmt "ee" [] = some (.ok (.num 0x4005bf0a8b145769)) ∧
    evalBuiltin (m := Res) fmt "phi" [] = some (.ok (.num 0x3ff9e3779b97f4a8)) := ⟨rfl, rfl, rfl⟩

/-! ### totality of everything modelled -/

/-- The built-ins of the second dispatch table. -/
def moreBuiltins : List String :=
  ["num", "isnum", "bool", "isnull", "typeof", "sign", "floor", "ceil", "sqrt", "exp", "log", "log10", "sin", "cos",
   "tan", "asin", "acos", "atan", "sinh", "cosh", "tanh", "round", "max", "min", "mod", "atan2", "clamp", "pi", "ee", "phi"]

/-- **Totality without undefined behaviour, all 53 modelled built-ins** (`textBuiltins ++ moreBuiltins`):
for EVERY argument list (any arity, any types, nulls, typed nulls, tables, every Int64, every decimal bit
pattern, every byte list) of well-formed values the built-in is dispatched and its outcome is a value, a BLOC
error or "unmodelled" (a non-null imaginary operand), never a C-level hazard. For max / min / mod / atan2
this contains the fact that the typed accessors behind the combined null test of their prologue are reached
only for two non-null numbers (`numPair_no_hazard`), for `round(x, n)` that a decimal digit count goes
through the range-checked conversion. -/
theorem all_builtins_no_hazard (fmt : Num.F64 → Bytes) (name : String) (hname : name ∈ textBuiltins ++ moreBuiltins)
    (args : List Val) (hwf : ∀ v ∈ args, wfVal v = true) :
    ∃ r, evalBuiltin (m := Res) fmt name (args.map .ok) = some r ∧ r.isHazard = false := by
  rw [List.mem_append] at hname
  rcases hname with h | h
  · exact text_builtins_no_hazard fmt name h args hwf
  · have hok : ArgsOk (args.map .ok) := by
      intro t ht
      obtain ⟨v, hv, rfl⟩ := List.mem_map.1 ht
      refine ⟨rfl, fun w hw => ?_⟩
      cases hw
      have := hwf v hv
      cases v with
      | tab t d e =>
        have h' : t.level ≠ 0 := by simpa [wfVal] using this
        simp only [Val.tabOk, decide_eq_true_eq]; omega
      | _ => rfl
    have hsome : ∃ r, evalBuiltin (m := Res) fmt name (args.map .ok) = some r := by
      simp only [moreBuiltins, List.mem_cons, List.not_mem_nil, or_false] at h
      rcases h with rfl | rfl | rfl | rfl | rfl | rfl | rfl | rfl | rfl | rfl | rfl | rfl | rfl | rfl | rfl | rfl | rfl | rfl
        | rfl | rfl | rfl | rfl | rfl | rfl | rfl | rfl | rfl | rfl | rfl | rfl <;> exact ⟨_, rfl⟩
    obtain ⟨r, hr⟩ := hsome
    exact ⟨r, hr, evalBuiltin_no_hazard_of fmt name _ r hok (by
      simp only [moreBuiltins, List.mem_cons, List.not_mem_nil, or_false] at h
      rintro (rfl | rfl) <;> simp at h) hr⟩

example (fmt : Num.F64 → Bytes) : ∃ r, evalBuiltin (m := Res) fmt "max"
    ([.null Ty.int, .str [97]].map .ok) = some r ∧ r.isHazard = false :=
  all_builtins_no_hazard fmt _ (by decide) _ (by decide)
example (fmt : Num.F64 → Bytes) : ∃ r, evalBuiltin (m := Res) fmt "round"
    ([.num 0x4004000000000000, .num 0x7ff8000000000000].map .ok) = some r ∧ r.isHazard = false :=
  all_builtins_no_hazard fmt _ (by decide) _ (by decide)
example (fmt : Num.F64 → Bytes) : ∃ r, evalBuiltin (m := Res) fmt "num"
    ([.str [0, 255, 49]].map .ok) = some r ∧ r.isHazard = false :=
  all_builtins_no_hazard fmt _ (by decide) _ (by decide)

/-! ### 8-bit cleanliness, per built-in -/

/-- `strlen` counts every byte: a NUL or a high byte inside the string is one character like any other. -/
theorem strlen_8bit (a b : Bytes) (c : UInt8) (hlen : (a ++ c :: b).length < 2 ^ 63) :
    ∃ n, biStrlen (m := Res) [.ok (.str (a ++ c :: b))] = .ok (.int n) ∧ n.toInt = a.length + 1 + b.length := by
  obtain ⟨n, h1, h2⟩ := strlen_value _ hlen
  refine ⟨n, h1, ?_⟩
  rw [h2]; simp [List.length_append]; omega

/-- `upper` / `lower` work byte by byte: they commute with concatenation, and every byte that is not an
ASCII letter of the other case — NUL, control characters, 0x80..0xFF — is copied unchanged. -/
theorem case_8bit (a b : Bytes) (c : UInt8) (hc : c < 65 ∨ c > 122) :
    (a ++ c :: b).map upperByte = a.map upperByte ++ c :: b.map upperByte ∧
    (a ++ c :: b).map lowerByte = a.map lowerByte ++ c :: b.map lowerByte := by
  have hu : upperByte c = c := by
    unfold upperByte
    have : ¬ (97 ≤ c.toNat ∧ c.toNat ≤ 122) := by
      rcases hc with h | h
      · have : c.toNat < 65 := h; omega
      · have : 122 < c.toNat := h; omega
    simp only [ite_eq_right_iff]
    intro h; exact absurd ⟨h.1, h.2⟩ this
  have hl : lowerByte c = c := by
    unfold lowerByte
    have : ¬ (65 ≤ c.toNat ∧ c.toNat ≤ 90) := by
      rcases hc with h | h
      · have : c.toNat < 65 := h; omega
      · have : 122 < c.toNat := h; omega
    simp only [ite_eq_right_iff]
    intro h; exact absurd ⟨h.1, h.2⟩ this
  simp [List.map_append, hu, hl]

example (fmt : Num.F64 → Bytes) : evalBuiltin (m := Res) fmt "upper" [.ok (.str [97, 0, 233, 98])] = some (.ok (.str [65, 0, 233, 66])) := by rfl

/-- `trim` / `ltrim` / `rtrim` remove the byte 0x20 only: a string whose first and last bytes are not
spaces (NUL, TAB, 0xA0, … are not) comes back unchanged. -/
theorem trim_8bit (c d : UInt8) (m : Bytes) (hc : c ≠ 32) (hd : d ≠ 32) :
    dropWhileSp (c :: m ++ [d]) = c :: m ++ [d] ∧ rtrimSp (c :: m ++ [d]) = c :: m ++ [d] ∧
    dropWhileSp (rtrimSp (c :: m ++ [d])) = c :: m ++ [d] := by
  have h1 : dropWhileSp (c :: m ++ [d]) = c :: m ++ [d] := by
    unfold dropWhileSp; simp [hc]
  have h2 : rtrimSp (c :: m ++ [d]) = c :: m ++ [d] := by
    unfold rtrimSp
    have : (c :: m ++ [d]).reverse = d :: (c :: m).reverse := by simp
    rw [this, List.dropWhile_cons]
    simp [hd]
  exact ⟨h1, h2, by rw [h2, h1]⟩

example (fmt : Num.F64 → Bytes) : evalBuiltin (m := Res) fmt "trim" [.ok (.str [32, 9, 97, 0, 32])] = some (.ok (.str [9, 97, 0])) := by rfl

/-- `hash` folds over every byte (a NUL does not end the string): the hash of `a ++ b` is the fold continued
over `b` from the hash of `a`. -/
theorem hash_8bit (a b : Bytes) :
    djb32 (a ++ b) = b.foldl (fun (h : UInt32) (c : UInt8) => ((h <<< 5) + h) + (if c < 128 then c.toUInt32 else c.toUInt32 + 0xffffff00)) (djb32 a) := by
  unfold djb32; rw [List.foldl_append]

example : djb32 [97, 0, 98] ≠ djb32 [97] := by decide


end BlocV.C10
