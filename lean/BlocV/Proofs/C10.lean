/-
  C10 — string, bytes and conversion built-ins are total, 8-bit clean and consistent.
  Property theorems only (helper lemmas in Proofs/Lemmas/Bytes.lean).
-/
import BlocV.Model.Builtins

namespace BlocV.C10
open BlocV

/-- `chr` accepts an integer code exactly when it lies in 0..255, and then yields that single byte;
every other code is rejected with OUT_OF_RANGE. -/
theorem chr_byte_range (c : Int64) :
    biChr (m := Res) [.ok (.int c)] =
      if 0 ≤ c.toInt ∧ c.toInt ≤ 255 then .ok (.str [c.toUInt64.toUInt8]) else .err Gen.EXC_RT_OUT_OF_RANGE := by
  have h0 : (c < 0) ↔ c.toInt < 0 := Int64.lt_iff_toInt_lt
  have h1 : (c > 255) ↔ c.toInt > 255 := by
    show (255 : Int64) < c ↔ _
    rw [Int64.lt_iff_toInt_lt]; rfl
  by_cases hc : 0 ≤ c.toInt ∧ c.toInt ≤ 255
  · have a : ¬ (c < 0) := by rw [h0]; omega
    have b : ¬ (c > 255) := by rw [h1]; omega
    simp [biChr, Val.type, Val.isNull, Val.asInt, Ty.int, hc, a, b, bind]
    rfl
  · have : (c < 0) ∨ (c > 255) := by
      rw [h0, h1]; omega
    rcases this with a | b
    · simp [biChr, Val.type, Val.isNull, Val.asInt, Ty.int, hc, a, bind]
      rfl
    · simp [biChr, Val.type, Val.isNull, Val.asInt, Ty.int, hc, b, bind]
      rfl

example : biChr (m := Res) [.ok (.int 65)] = .ok (.str [65]) := by rfl
example : biChr (m := Res) [.ok (.int 256)] = .err Gen.EXC_RT_OUT_OF_RANGE := by rfl
example : biChr (m := Res) [.ok (.null Ty.int)] = .ok (.null Ty.str) := by rfl

end BlocV.C10
