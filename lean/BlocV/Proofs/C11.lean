/-
  C11 — a rejected source text does not disturb anything that was valid before it.

  Model: BlocV/Model/ParseCtx.lean (machine over the context effects of one parse).
  Theorems (all for EVERY event sequence, EVERY context, EVERY structure hash `H`):

    parsingEnd_restores          the reverse-order restore loop brings every pre-existing symbol back
    clause_flags_restored        every clause entry is undone by its catch block and by its normal exit
    reject_restores_symbols      composition: a rejected text leaves names, types, decls, flags, exec depth,
                                 parsing flag of everything that existed before as they were
    accept_keeps_flags           (the other path) an accepted text leaves all flags and the exec depth as before
    null_tuple_symbol_restored   a symbol typed from a null tuple value (no decl) keeps its type (repaired: /repo 353443e)
    reject_restores_functions    FALSE on this tree — negation proved at the minimal witness of a COMPLETE redefinition
                                 that survives the rejection of a later statement —
    failed_redefinition_rolled_back_{not_last,after_new}   the former witnesses of the rollback defect, now positive
                                 (repaired: /repo 3e9e0ba)
    reject_restores_functions_partial   holds for texts that do not COMPLETE a redefinition of a function that
                                 existed before the text (failed redefinitions anywhere in the table are covered)
    context_usable_after_reject  after a rejected text the context is idle again and, when the text introduced
                                 no name, it IS the context before (so every later parse behaves identically)
-/
import BlocV.Model.ParseCtx
import BlocV.Proofs.Lemmas.ParseCtx

namespace BlocV.ParseCtx

/-- **clause_flags_restored.** Whatever the state, an event that opens a clause pushes a frame whose catch
block and whose normal exit both give back exactly the context before the entry. -/
theorem clause_flags_restored (H : Decl → Nat) (st st' : St) (e : Ev) (fr : Frame)
    (hstep : step H st e = .ok st') (hpush : st'.stack = fr :: st.stack) (hc : st.child = none) :
    fr.exitCatch st'.ctx = st.ctx ∧ fr.exitNormal st'.ctx = st.ctx := by
  have key : fr.catchFls st'.ctx.fls = st.ctx.fls ∧ st'.ctx.exec = st.ctx.exec + 1 ∧ st'.ctx.names = st.ctx.names ∧
      st'.ctx.tds = st.ctx.tds ∧ st'.ctx.backed = st.ctx.backed ∧ st'.ctx.parsing = st.ctx.parsing ∧
      st'.ctx.fns = st.ctx.fns ∧ st'.ctx.fbacked = st.ctx.fbacked := by
    unfold step at hstep
    simp only [hc] at hstep
    cases e with
    | reg n r =>
      simp only at hstep
      cases hr : registerSymbol H st.ctx n r with
      | ok c => simp only [hr] at hstep; cases hstep; simp at hpush
      | error err => simp only [hr] at hstep; cases hstep
    | enterFor i =>
      simp only at hstep
      cases h : enterFor st.ctx i with
      | none => simp [h] at hstep
      | some p =>
        obtain ⟨c, fr'⟩ := p
        simp only [h] at hstep
        cases hstep
        simp only [List.cons.injEq, and_true] at hpush
        subst hpush
        exact enterFor_undo h
    | enterForall v t =>
      simp only at hstep
      cases h : enterForall st.ctx v t with
      | none => simp [h] at hstep
      | some p =>
        obtain ⟨c, fr'⟩ := p
        simp only [h] at hstep
        cases hstep
        simp only [List.cons.injEq, and_true] at hpush
        subst hpush
        exact enterForall_undo h
    | enterBlk =>
      simp only at hstep
      cases hstep
      simp only [List.cons.injEq, and_true] at hpush
      subst hpush
      simp [Frame.catchFls]
    | leave =>
      simp only at hstep
      cases hs : st.stack with
      | nil => simp [hs] at hstep
      | cons f rest =>
        simp only [hs] at hstep
        cases hstep
        simp only [hs] at hpush
        have := congrArg List.length hpush
        simp only [List.length_cons] at this
        omega
    | fnBegin n a fid =>
      simp only at hstep
      split at hstep
      · cases hstep
      · cases hstep; simp at hpush
    | fail => cases hstep
  obtain ⟨h1, h2, h3, h4, h5, h6, h7, h8⟩ := key
  have e1 : fr.exitCatch st'.ctx = st.ctx := by
    cases hcx : st.ctx
    cases hcx' : st'.ctx
    simp only [hcx, hcx'] at h1 h2 h3 h4 h5 h6 h7 h8
    simp only [Frame.exitCatch, Ctx.mk.injEq]
    subst h3 h4 h5 h6 h7 h8 h2
    simp [h1]
  refine ⟨e1, ?_⟩
  have : fr.exitNormal st'.ctx = fr.exitCatch st'.ctx := by
    simp [Frame.exitNormal, Frame.exitCatch, normalFls_eq_catchFls]
  rw [this, e1]

/-- the hypotheses of `clause_flags_restored` are satisfiable: a FORALL over a plain table variable -/
def exClauseSt : St :=
  ⟨⟨["E", "T"], [(⟨2, 0, 0⟩, []), (⟨2, 0, 1⟩, [])], [(false, false), (false, false)], [], 0, true, [], none⟩, [], none⟩

example : (match step (fun _ => 0) exClauseSt (.enterForall 0 (some 1)) with
    | .ok st' => st'.stack == [.forallC 0 false false (some (1, false))] && st'.ctx.fls == [(true, false), (false, true)]
        && decide (st'.ctx ≠ exClauseSt.ctx) && exClauseSt.child.isNone
    | .error _ => false) = true := by decide

/-! ## the symbol theorems -/

/-- **reject_restores_symbols.** For EVERY event sequence and EVERY idle, coherent context: when the text is
rejected — wherever the error occurs: inside loop bodies, clauses, function bodies, after any number of
type upgrades of the same symbol — every pre-existing symbol has its name, type, declaration and flags,
and exec depth, parsing flag and backup list are as before. -/
theorem reject_restores_symbols (H : Decl → Nat) (c0 c' : Ctx) (evs : List Ev)
    (hidle : c0.idle = true) (hcoh : c0.coherent H = true)
    (hrej : parseText H c0 evs = .reject c') : SymsPreserved c0 c' := by
  unfold parseText at hrej
  have hinv := inv_run (H := H) evs (inv_init H c0 hidle hcoh)
  generalize runEvents H (St.init c0) evs = res at hrej hinv
  obtain ⟨threw, st⟩ := res
  simp only at hrej hinv
  split at hrej
  · cases hrej; exact preserved_of_inv hidle hinv
  · cases hrej

/-- the hypotheses are satisfiable, non-trivially: `x` (integer) is upgraded to string then to decimal inside
a FOR body nested in a FORALL over the table `t`, then the text fails -/
def exSymCtx : Ctx :=
  ⟨["X", "T"], [(⟨2, 0, 0⟩, []), (⟨7, 5, 1⟩, [⟨2, 0, 0⟩])], [(false, false), (false, false)], [], 0, false, [], none⟩
def exSymEvs : List Ev :=
  [.reg "E" (.tuple [⟨2, 0, 0⟩] 0), .enterForall 2 (some 1), .reg "I" (.plain ⟨2, 0, 0⟩), .enterFor 3,
   .reg "X" (.plain ⟨4, 0, 0⟩), .reg "X" (.plain ⟨3, 0, 0⟩), .fail]

example : exSymCtx.idle = true ∧ exSymCtx.coherent (fun _ => 5) = true ∧
    (parseText (fun _ => 5) exSymCtx exSymEvs).rejected.map (·.names) = some ["X", "T", "E", "I"] ∧
    (runEvents (fun _ => 5) (St.init exSymCtx) exSymEvs).2.ctx.backed.length = 2 ∧
    (runEvents (fun _ => 5) (St.init exSymCtx) exSymEvs).2.ctx.exec = 2 ∧
    (runEvents (fun _ => 5) (St.init exSymCtx) exSymEvs).2.ctx.fls = [(false, false), (false, true), (true, false), (true, false)] := by
  decide

/-- **parsingEnd_restores.** For EVERY sequence of registrations during one parse (new symbols, upgrades,
repeated upgrades of the same symbol, refused ones ending the parse), the reverse-order loop of
`Context::parsingEnd` brings every pre-existing symbol back to its type and declaration. -/
theorem parsingEnd_restores (H : Decl → Nat) (c0 : Ctx) (regs : List (String × RegTy))
    (hidle : c0.idle = true) (hcoh : c0.coherent H = true) :
    let st := (runEvents H (St.init c0) (regs.map fun p => Ev.reg p.1 p.2)).2
    (parsingEnd H st.ctx).tds.take c0.tds.length = c0.tds ∧
    (parsingEnd H st.ctx).names.take c0.names.length = c0.names ∧
    (parsingEnd H st.ctx).fls.take c0.fls.length = c0.fls ∧
    (parsingEnd H st.ctx).backed = [] ∧ (parsingEnd H st.ctx).parsing = false := by
  intro st
  have hinv : Inv H c0 st := inv_run _ (inv_init H c0 hidle hcoh)
  -- registrations never open a clause
  have hstk : ∀ (evs : List (String × RegTy)) (s : St), s.stack = [] →
      (runEvents H s (evs.map fun p => Ev.reg p.1 p.2)).2.stack = [] := by
    intro evs
    induction evs with
    | nil => intro s hs; exact hs
    | cons p ps ih =>
      intro s hs
      simp only [List.map_cons, runEvents]
      cases hstep : step H s (Ev.reg p.1 p.2) with
      | error err => exact hs
      | ok s' =>
        simp only
        apply ih
        unfold step at hstep
        cases hc : s.child with
        | some ch => simp only [hc] at hstep; cases hstep; exact hs
        | none =>
          simp only [hc] at hstep
          cases hr : registerSymbol H s.ctx p.1 p.2 with
          | ok c => simp only [hr] at hstep; cases hstep; exact hs
          | error err => simp only [hr] at hstep; cases hstep
  have hs : st.stack = [] := hstk regs (St.init c0) rfl
  refine ⟨?_, ?_, ?_, rfl, rfl⟩
  · simp only [parsingEnd]; rw [take_restoreAll]; exact hinv.types
  · simp only [parsingEnd]; exact hinv.names
  · have := hinv.flags; simp only [hs, unwindFls] at this; simpa [parsingEnd] using this

/-- The seeded mutation "restore oldest-first" (`for (auto& s : _backed_symbols)` instead of the reverse
iteration): the same loop run from the oldest backup. -/
def parsingEndOldestFirst (H : Decl → Nat) (c : Ctx) : Ctx :=
  { c with tds := restoreAll H c.backed.reverse c.tds, backed := [], parsing := false }

/-- … and it is exactly a symbol upgraded twice that tells the two loops apart: `x` integer → string → decimal.
The real loop restores integer, the mutated one leaves string. -/
def exTwiceCtx : Ctx := ⟨["X"], [(⟨2, 0, 0⟩, [])], [(false, false)], [], 0, false, [], none⟩
def exTwiceSt : St :=
  (runEvents (fun _ => 0) (St.init exTwiceCtx) [.reg "X" (.plain ⟨4, 0, 0⟩), .reg "X" (.plain ⟨3, 0, 0⟩)]).2

example : (parsingEnd (fun _ => 0) exTwiceSt.ctx).tds = exTwiceCtx.tds ∧
    (parsingEndOldestFirst (fun _ => 0) exTwiceSt.ctx).tds = [(⟨4, 0, 0⟩, [])] := by
  decide

/-- A variable typed from a null tuple VALUE (`storeVariable`: tuple major, the minor of the structure, no decl) is a
coherent symbol, and the restore loop gives it back its type as it was (it used to come back as the opaque tuple:
finding C11.null_tuple_symbol_restored_opaque, repaired by /repo 353443e). -/
def exNullTupleCtx : Ctx := ⟨["V"], [(⟨7, 27364, 0⟩, [])], [(false, false)], [], 0, false, [], none⟩

theorem null_tuple_symbol_restored :
    exNullTupleCtx.idle = true ∧ exNullTupleCtx.coherent (fun _ => 0) = true ∧
    (parseText (fun _ => 0) exNullTupleCtx [.reg "V" (.plain ⟨2, 0, 0⟩), .fail]).rejected = some exNullTupleCtx := by
  decide

/-- Coherence (`decl ≠ [] → type = make_type decl`) is an invariant of class `Symbol`; it stays a hypothesis because a
model context is arbitrary data: an integer symbol carrying a decl (which the code cannot build) would come back
without it. -/
example : (⟨["X"], [(⟨2, 0, 0⟩, [⟨2, 0, 0⟩])], [(false, false)], [], 0, false, [], none⟩ : Ctx).coherent (fun _ => 0) = false ∧
    (parseText (fun _ => 0) ⟨["X"], [(⟨2, 0, 0⟩, [⟨2, 0, 0⟩])], [(false, false)], [], 0, false, [], none⟩
      [.reg "X" (.plain ⟨4, 0, 0⟩), .fail]).rejected.map (·.tds) = some [(⟨2, 0, 0⟩, [])] := by
  decide

/-- **accept_keeps_flags** (the normal path of every clause): an accepted text leaves the flags of every
pre-existing symbol and the exec depth as they were. -/
theorem accept_keeps_flags (H : Decl → Nat) (c0 c' : Ctx) (evs : List Ev)
    (hidle : c0.idle = true) (hcoh : c0.coherent H = true)
    (hacc : parseText H c0 evs = .accept c') :
    c'.fls.take c0.fls.length = c0.fls ∧ c'.exec = c0.exec ∧ c'.parsing = false ∧ c'.backed = [] := by
  unfold parseText at hacc
  have hinv := inv_run (H := H) evs (inv_init H c0 hidle hcoh)
  generalize runEvents H (St.init c0) evs = res at hacc hinv
  obtain ⟨threw, st⟩ := res
  simp only at hacc hinv
  split at hacc
  · cases hacc
  · next hno =>
    cases hacc
    simp only [Bool.or_eq_true, not_or, Bool.not_eq_true, Bool.not_eq_false', List.isEmpty_iff] at hno
    have hs : st.stack = [] := by simpa using hno.1.2
    have hf := hinv.flags
    have hx := hinv.exec
    simp only [hs, unwindFls, List.length_nil] at hf hx
    exact ⟨by simpa [parsingEnd] using hf, by simpa [parsingEnd] using hx, rfl, rfl⟩

example : (parseText (fun _ => 0) ⟨["I"], [(⟨2, 0, 0⟩, [])], [(false, false)], [], 0, false, [], none⟩
      [.reg "I" (.plain ⟨2, 0, 0⟩), .enterFor 0, .reg "Y" (.plain ⟨4, 0, 0⟩), .leave]).accepted.map (·.names)
    = some ["I", "Y"] := by decide

/-! ## functions -/

/-- the full statement about functions — FALSE for the code as it is:

      ∀ H c0 c' evs, c0.idle → parseText H c0 evs = .reject c' → FnsPreserved c0 c'

  (1) a COMPLETE redefinition of an existing function earlier in the rejected text stays installed:
      `function f(x) return integer is begin return 10; end; z = ;` -/
def wF : Ctx := ⟨[], [], [], [], 0, false, [⟨"F", 1, 100, true⟩], none⟩
def wFG : Ctx := ⟨[], [], [], [], 0, false, [⟨"F", 1, 100, true⟩, ⟨"G", 1, 101, true⟩], none⟩
def wGF : Ctx := ⟨[], [], [], [], 0, false, [⟨"G", 1, 101, true⟩, ⟨"F", 1, 100, true⟩], none⟩

/-- the Spec clause evaluated on the outcome of a parse: `some true` = rejected and functions preserved -/
def fnsKept (c0 : Ctx) (o : Outcome) : Option Bool := o.rejected.map fun c' => decide (FnsPreserved c0 c')

theorem reject_restores_functions_false_complete_redefinition :
    wF.idle = true ∧ wF.coherent (fun _ => 0) = true ∧
    fnsKept wF (parseText (fun _ => 0) wF [.fnBegin "F" 1 200, .leave, .fail]) = some false ∧
    (parseText (fun _ => 0) wF [.fnBegin "F" 1 200, .leave, .fail]).rejected.map (·.fns) = some [⟨"F", 1, 200, true⟩] := by
  decide

/-- a FAILED redefinition of a function is rolled back wherever its entry is in the table (it used not to be unless
the entry was the last: finding C11.failed_redefinition_not_rolled_back, repaired by /repo 3e9e0ba):
`function f(x) return integer is begin return 10 end;` with `g` declared after `f` -/
theorem failed_redefinition_rolled_back_not_last :
    fnsKept wFG (parseText (fun _ => 0) wFG [.fnBegin "F" 1 200, .fail]) = some true ∧
    (parseText (fun _ => 0) wFG [.fnBegin "F" 1 200, .fail]).rejected.map (·.fns) = some wFG.fns := by
  decide

/-- … also when the text first declares a new function (which stays: outside the guarantee) -/
theorem failed_redefinition_rolled_back_after_new :
    fnsKept wF (parseText (fun _ => 0) wF [.fnBegin "H" 0 150, .leave, .fnBegin "F" 1 200, .fail]) = some true ∧
    (parseText (fun _ => 0) wF [.fnBegin "H" 0 150, .leave, .fnBegin "F" 1 200, .fail]).rejected.map (·.fns)
      = some [⟨"F", 1, 100, true⟩, ⟨"H", 0, 150, true⟩] := by
  decide

example : fnsKept wGF (parseText (fun _ => 0) wGF [.fnBegin "F" 1 200, .fail]) = some true := by decide

/-- **reject_restores_functions_partial.** For EVERY event sequence that does not COMPLETE a redefinition of a
function existing before the text (failed redefinitions, anywhere in the table, are allowed), and EVERY context:
after the rejection every pre-existing function is at its position with its definition and its body. (Functions
introduced by the text may stay, be replaced or be removed: they are outside the guarantee.) -/
theorem reject_restores_functions_partial (H : Decl → Nat) (c0 c' : Ctx) (evs : List Ev)
    (hno : redefinitionCompleted H c0 (St.init c0) evs = false)
    (hrej : parseText H c0 evs = .reject c') : FnsPreserved c0 c' := by
  unfold parseText at hrej
  have hinit : FInv c0 (St.init c0) :=
    ⟨Nat.le_refl _, (by intro _; simp [St.init, parsingBegin]), (by intro ch h; cases h)⟩
  have hinv := finv_run (H := H) evs hno hinit
  generalize runEvents H (St.init c0) evs = res at hrej hinv
  obtain ⟨threw, st⟩ := res
  simp only at hrej hinv
  split at hrej
  · cases hrej
    unfold FnsPreserved
    obtain ⟨_, _, _, _, o5, _⟩ := unwindFrames_other st.stack
      (match st.child with | some _ => rollbackCtx st.ctx | none => st.ctx)
    have hun : (parsingEnd H (unwind st)).fns =
        (match st.child with | some _ => rollbackCtx st.ctx | none => st.ctx).fns := by
      simp only [parsingEnd, unwind]; exact o5
    rw [hun]
    cases hch : st.child with
    | none => exact hinv.closed hch
    | some ch => exact finv_rollback hinv ch hch
  · cases hrej

/-- satisfiable, non-trivially: a text that declares a new function `h`, starts redefining the pre-existing `f`
(not the last entry), fails inside its body -/
example : redefinitionCompleted (fun _ => 0) wFG (St.init wFG)
      [.fnBegin "H" 0 150, .leave, .fnBegin "F" 1 151, .enterBlk, .fail] = false ∧
    (parseText (fun _ => 0) wFG [.fnBegin "H" 0 150, .leave, .fnBegin "F" 1 151, .enterBlk, .fail]).rejected.map (·.fns)
      = some [⟨"F", 1, 100, true⟩, ⟨"G", 1, 101, true⟩, ⟨"H", 0, 150, true⟩] := by
  decide

/-- and the remaining witness is exactly outside its hypothesis -/
example : redefinitionCompleted (fun _ => 0) wF (St.init wF) [.fnBegin "F" 1 200, .leave, .fail] = true := by
  decide

/-! ## usability -/

/-- **context_usable_after_reject.** After a rejected text (that completes no redefinition of a pre-existing function) the
context is idle again — not parsing, no pending backup, exec depth as before — everything pre-existing is as it
was, and when the text introduced no new symbol and no new function the symbol table and function table ARE the
ones before: so whatever is parsed next sees the same context (`parseText` is a function of it). -/
theorem context_usable_after_reject (H : Decl → Nat) (c0 c' : Ctx) (evs : List Ev)
    (hidle : c0.idle = true) (hcoh : c0.coherent H = true)
    (hno : redefinitionCompleted H c0 (St.init c0) evs = false)
    (hrej : parseText H c0 evs = .reject c') :
    c'.idle = true ∧ c'.exec = c0.exec ∧ SymsPreserved c0 c' ∧ FnsPreserved c0 c' ∧
    (c'.names.length = c0.names.length → c'.tds.length = c0.tds.length → c'.fls.length = c0.fls.length →
      c'.fns.length = c0.fns.length →
      c' = { c0 with fbacked := c'.fbacked } ∧
      ∀ evs2, parseText H c' evs2 = parseText H { c0 with fbacked := c'.fbacked } evs2) := by
  have hs := reject_restores_symbols H c0 c' evs hidle hcoh hrej
  have hf := reject_restores_functions_partial H c0 c' evs hno hrej
  refine ⟨?_, hs.exec, hs, hf, ?_⟩
  · have hp : c0.parsing = false := by
      simp only [Ctx.idle, Bool.and_eq_true, Bool.not_eq_true'] at hidle; exact hidle.1
    simp [Ctx.idle, hs.backed, hs.parsing, hp]
  · intro h1 h2 h3 h4
    have hb : c0.backed = [] := by
      simp only [Ctx.idle, Bool.and_eq_true, List.isEmpty_iff] at hidle; exact hidle.2
    have e1 := hs.names; have e2 := hs.types; have e3 := hs.flags
    unfold FnsPreserved at hf
    rw [← h1, List.take_length] at e1
    rw [← h2, List.take_length] at e2
    rw [← h3, List.take_length] at e3
    rw [← h4, List.take_length] at hf
    have heq : c' = { c0 with fbacked := c'.fbacked } := by
      have hbk : c'.backed = c0.backed := by rw [hs.backed, hb]
      have hx := hs.exec
      have hpar := hs.parsing
      cases c'
      cases c0
      simp only at e1 e2 e3 hf hbk hx hpar
      subst e1 e2 e3 hbk hx hpar hf
      rfl
    exact ⟨heq, fun evs2 => by rw [← heq]⟩

/-- satisfiable: an upgrade inside a loop body, then an error; nothing new introduced -/
def exUseCtx : Ctx :=
  ⟨["I", "X"], [(⟨2, 0, 0⟩, []), (⟨2, 0, 0⟩, [])], [(false, false), (false, false)], [], 0, false, [], none⟩

example : (parseText (fun _ => 0) exUseCtx [.reg "I" (.plain ⟨2, 0, 0⟩), .enterFor 0, .reg "X" (.plain ⟨4, 0, 0⟩), .fail]).rejected
    = some exUseCtx := by decide

end BlocV.ParseCtx
