/-
  C11 — a rejected source text does not disturb anything that was valid before it.

  Model: BlocV/Model/ParseCtx.lean (machine over the context effects of one parse).
  Theorems (all for EVERY event sequence, EVERY context, EVERY structure hash `H`):

    parsingEnd_restores          the reverse-order restore loop brings every pre-existing symbol back
    clause_flags_restored        every clause entry is undone by its catch block and by its normal exit
    reject_restores_symbols      composition: a rejected text leaves names, types, decls, flags, exec depth,
                                 parsing flag of everything that existed before as they were
    accept_keeps_flags           (the other path) an accepted text leaves all flags and the exec depth as before
    null_tuple_symbol_restored   a symbol typed from a null tuple value (no decl) keeps its type (repaired: /repo 353443e)
    reject_restores_functions    for EVERY event sequence and EVERY context: after a rejected text the function table IS
                                 the table of the start of the parse (names, arities, functor identities, bodies, no
                                 entry more): `parsingRevert` undoes the journal (repaired: the former finding
                                 C11.complete_redefinition_survives_reject)
    complete_redefinition_reverted_witness   the former negation witness, with its new outcome
    failed_redefinition_rolled_back_{not_last,after_new}   the former witnesses of the rollback defect, positive
                                 (repaired: /repo 3e9e0ba)
    reject_restores_functions_partial   corollary in the old form (prefix preserved), without its proviso
    context_usable_after_reject  after a rejected text the context is idle again and, when the text introduced
                                 no name, it IS the context before (so every later parse behaves identically)
-/
import BlocV.Model.ParseCtx
import BlocV.Proofs.Lemmas.ParseCtx
import BlocV.Proofs.Lemmas.ParseSim
import BlocV.Model.Session

namespace BlocV.ParseCtx

/-- **clause_flags_restored.** Whatever the state, an event that opens a clause pushes a frame whose catch
block and whose normal exit both give back exactly the context before the entry. -/
theorem clause_flags_restored (H : Decl → Nat) (st st' : St) (e : Ev) (fr : Frame)
    (hstep : step H st e = .ok st') (hpush : st'.stack = fr :: st.stack) (hc : st.child = none) :
    fr.exitCatch st'.ctx = st.ctx ∧ fr.exitNormal st'.ctx = st.ctx := by
  have key : fr.catchFls st'.ctx.fls = st.ctx.fls ∧ st'.ctx.exec = st.ctx.exec + 1 ∧ st'.ctx.names = st.ctx.names ∧
      st'.ctx.tds = st.ctx.tds ∧ st'.ctx.backed = st.ctx.backed ∧ st'.ctx.parsing = st.ctx.parsing ∧
      st'.ctx.fns = st.ctx.fns ∧ st'.ctx.fbacked = st.ctx.fbacked := by
    unfold step at hstep
    simp only [hc] at hstep
    cases e with
    | reg n r =>
      simp only at hstep
      cases hr : registerSymbol H st.ctx n r with
      | ok c => simp only [hr] at hstep; cases hstep; simp at hpush
      | error err => simp only [hr] at hstep; cases hstep
    | enterFor i =>
      simp only at hstep
      cases h : enterFor st.ctx i with
      | none => simp [h] at hstep
      | some p =>
        obtain ⟨c, fr'⟩ := p
        simp only [h] at hstep
        cases hstep
        simp only [List.cons.injEq, and_true] at hpush
        subst hpush
        exact enterFor_undo h
    | enterForall v t =>
      simp only at hstep
      cases h : enterForall st.ctx v t with
      | none => simp [h] at hstep
      | some p =>
        obtain ⟨c, fr'⟩ := p
        simp only [h] at hstep
        cases hstep
        simp only [List.cons.injEq, and_true] at hpush
        subst hpush
        exact enterForall_undo h
    | enterBlk =>
      simp only at hstep
      cases hstep
      simp only [List.cons.injEq, and_true] at hpush
      subst hpush
      simp [Frame.catchFls]
    | leave =>
      simp only at hstep
      cases hs : st.stack with
      | nil => simp [hs] at hstep
      | cons f rest =>
        simp only [hs] at hstep
        cases hstep
        simp only [hs] at hpush
        have := congrArg List.length hpush
        simp only [List.length_cons] at this
        omega
    | fnBegin n a fid =>
      simp only at hstep
      split at hstep
      · cases hstep
      · cases hstep; simp at hpush
    | fail => cases hstep
  obtain ⟨h1, h2, h3, h4, h5, h6, h7, h8⟩ := key
  have e1 : fr.exitCatch st'.ctx = st.ctx := by
    cases hcx : st.ctx
    cases hcx' : st'.ctx
    simp only [hcx, hcx'] at h1 h2 h3 h4 h5 h6 h7 h8
    simp only [Frame.exitCatch, Ctx.mk.injEq]
    subst h3 h4 h5 h6 h7 h8 h2
    simp [h1]
  refine ⟨e1, ?_⟩
  have : fr.exitNormal st'.ctx = fr.exitCatch st'.ctx := by
    simp [Frame.exitNormal, Frame.exitCatch, normalFls_eq_catchFls]
  rw [this, e1]

/-- the hypotheses of `clause_flags_restored` are satisfiable: a FORALL over a plain table variable -/
def exClauseSt : St :=
  ⟨⟨["E", "T"], [(⟨2, 0, 0⟩, []), (⟨2, 0, 1⟩, [])], [(false, false), (false, false)], [], 0, true, [], none⟩, [], none, 0, []⟩

example : (match step (fun _ => 0) exClauseSt (.enterForall 0 (some 1)) with
    | .ok st' => st'.stack == [.forallC 0 false false (some (1, false))] && st'.ctx.fls == [(true, false), (false, true)]
        && decide (st'.ctx ≠ exClauseSt.ctx) && exClauseSt.child.isNone
    | .error _ => false) = true := by decide

/-! ## the symbol theorems -/

/-- **reject_restores_symbols.** For EVERY event sequence and EVERY idle, coherent context: when the text is
rejected — wherever the error occurs: inside loop bodies, clauses, function bodies, after any number of
type upgrades of the same symbol — every pre-existing symbol has its name, type, declaration and flags,
and exec depth, parsing flag and backup list are as before. -/
theorem reject_restores_symbols (H : Decl → Nat) (c0 c' : Ctx) (evs : List Ev)
    (hidle : c0.idle = true) (hcoh : c0.coherent H = true)
    (hrej : parseText H c0 evs = .reject c') : SymsPreserved c0 c' := by
  unfold parseText at hrej
  have hinv := inv_run (H := H) evs (inv_init H c0 hidle hcoh)
  generalize runEvents H (St.init c0) evs = res at hrej hinv
  obtain ⟨threw, st⟩ := res
  simp only at hrej hinv
  split at hrej
  · cases hrej; exact preserved_of_inv hidle hinv
  · cases hrej

/-- the hypotheses are satisfiable, non-trivially: `x` (integer) is upgraded to string then to decimal inside
a FOR body nested in a FORALL over the table `t`, then the text fails -/
def exSymCtx : Ctx :=
  ⟨["X", "T"], [(⟨2, 0, 0⟩, []), (⟨7, 5, 1⟩, [⟨2, 0, 0⟩])], [(false, false), (false, false)], [], 0, false, [], none⟩
def exSymEvs : List Ev :=
  [.reg "E" (.tuple [⟨2, 0, 0⟩] 0), .enterForall 2 (some 1), .reg "I" (.plain ⟨2, 0, 0⟩), .enterFor 3,
   .reg "X" (.plain ⟨4, 0, 0⟩), .reg "X" (.plain ⟨3, 0, 0⟩), .fail]

example : exSymCtx.idle = true ∧ exSymCtx.coherent (fun _ => 5) = true ∧
    (parseText (fun _ => 5) exSymCtx exSymEvs).rejected.map (·.names) = some ["X", "T", "E", "I"] ∧
    (runEvents (fun _ => 5) (St.init exSymCtx) exSymEvs).2.ctx.backed.length = 2 ∧
    (runEvents (fun _ => 5) (St.init exSymCtx) exSymEvs).2.ctx.exec = 2 ∧
    (runEvents (fun _ => 5) (St.init exSymCtx) exSymEvs).2.ctx.fls = [(false, false), (false, true), (true, false), (true, false)] := by
  decide

/-- **parsingEnd_restores.** For EVERY sequence of registrations during one parse (new symbols, upgrades,
repeated upgrades of the same symbol, refused ones ending the parse), the reverse-order loop of
`Context::parsingEnd` brings every pre-existing symbol back to its type and declaration. -/
theorem parsingEnd_restores (H : Decl → Nat) (c0 : Ctx) (regs : List (String × RegTy))
    (hidle : c0.idle = true) (hcoh : c0.coherent H = true) :
    let st := (runEvents H (St.init c0) (regs.map fun p => Ev.reg p.1 p.2)).2
    (parsingEnd H st.ctx).tds.take c0.tds.length = c0.tds ∧
    (parsingEnd H st.ctx).names.take c0.names.length = c0.names ∧
    (parsingEnd H st.ctx).fls.take c0.fls.length = c0.fls ∧
    (parsingEnd H st.ctx).backed = [] ∧ (parsingEnd H st.ctx).parsing = false := by
  intro st
  have hinv : Inv H c0 st := inv_run _ (inv_init H c0 hidle hcoh)
  -- registrations never open a clause
  have hstk : ∀ (evs : List (String × RegTy)) (s : St), s.stack = [] →
      (runEvents H s (evs.map fun p => Ev.reg p.1 p.2)).2.stack = [] := by
    intro evs
    induction evs with
    | nil => intro s hs; exact hs
    | cons p ps ih =>
      intro s hs
      simp only [List.map_cons, runEvents]
      cases hstep : step H s (Ev.reg p.1 p.2) with
      | error err => exact hs
      | ok s' =>
        simp only
        apply ih
        unfold step at hstep
        cases hc : s.child with
        | some ch => simp only [hc] at hstep; cases hstep; exact hs
        | none =>
          simp only [hc] at hstep
          cases hr : registerSymbol H s.ctx p.1 p.2 with
          | ok c => simp only [hr] at hstep; cases hstep; exact hs
          | error err => simp only [hr] at hstep; cases hstep
  have hs : st.stack = [] := hstk regs (St.init c0) rfl
  refine ⟨?_, ?_, ?_, rfl, rfl⟩
  · simp only [parsingEnd]; rw [take_restoreAll]; exact hinv.types
  · simp only [parsingEnd]; exact hinv.names
  · have := hinv.flags; simp only [hs, unwindFls] at this; simpa [parsingEnd] using this

/-- The seeded mutation "restore oldest-first" (`for (auto& s : _backed_symbols)` instead of the reverse
iteration): the same loop run from the oldest backup. -/
def parsingEndOldestFirst (H : Decl → Nat) (c : Ctx) : Ctx :=
  { c with tds := restoreAll H c.backed.reverse c.tds, backed := [], parsing := false }

/-- … and it is exactly a symbol upgraded twice that tells the two loops apart: `x` integer → string → decimal.
The real loop restores integer, the mutated one leaves string. -/
def exTwiceCtx : Ctx := ⟨["X"], [(⟨2, 0, 0⟩, [])], [(false, false)], [], 0, false, [], none⟩
def exTwiceSt : St :=
  (runEvents (fun _ => 0) (St.init exTwiceCtx) [.reg "X" (.plain ⟨4, 0, 0⟩), .reg "X" (.plain ⟨3, 0, 0⟩)]).2

example : (parsingEnd (fun _ => 0) exTwiceSt.ctx).tds = exTwiceCtx.tds ∧
    (parsingEndOldestFirst (fun _ => 0) exTwiceSt.ctx).tds = [(⟨4, 0, 0⟩, [])] := by
  decide

/-- A variable typed from a null tuple VALUE (`storeVariable`: tuple major, the minor of the structure, no decl) is a
coherent symbol, and the restore loop gives it back its type as it was (it used to come back as the opaque tuple:
finding C11.null_tuple_symbol_restored_opaque, repaired by /repo 353443e). -/
def exNullTupleCtx : Ctx := ⟨["V"], [(⟨7, 27364, 0⟩, [])], [(false, false)], [], 0, false, [], none⟩

theorem null_tuple_symbol_restored :
    exNullTupleCtx.idle = true ∧ exNullTupleCtx.coherent (fun _ => 0) = true ∧
    (parseText (fun _ => 0) exNullTupleCtx [.reg "V" (.plain ⟨2, 0, 0⟩), .fail]).rejected = some exNullTupleCtx := by
  decide

/-- Coherence (`decl ≠ [] → type = make_type decl`) is an invariant of class `Symbol`; it stays a hypothesis because a
model context is arbitrary data: an integer symbol carrying a decl (which the code cannot build) would come back
without it. -/
example : (⟨["X"], [(⟨2, 0, 0⟩, [⟨2, 0, 0⟩])], [(false, false)], [], 0, false, [], none⟩ : Ctx).coherent (fun _ => 0) = false ∧
    (parseText (fun _ => 0) ⟨["X"], [(⟨2, 0, 0⟩, [⟨2, 0, 0⟩])], [(false, false)], [], 0, false, [], none⟩
      [.reg "X" (.plain ⟨4, 0, 0⟩), .fail]).rejected.map (·.tds) = some [(⟨2, 0, 0⟩, [])] := by
  decide

/-- **accept_keeps_flags** (the normal path of every clause): an accepted text leaves the flags of every
pre-existing symbol and the exec depth as they were. -/
theorem accept_keeps_flags (H : Decl → Nat) (c0 c' : Ctx) (evs : List Ev)
    (hidle : c0.idle = true) (hcoh : c0.coherent H = true)
    (hacc : parseText H c0 evs = .accept c') :
    c'.fls.take c0.fls.length = c0.fls ∧ c'.exec = c0.exec ∧ c'.parsing = false ∧ c'.backed = [] := by
  unfold parseText at hacc
  have hinv := inv_run (H := H) evs (inv_init H c0 hidle hcoh)
  generalize runEvents H (St.init c0) evs = res at hacc hinv
  obtain ⟨threw, st⟩ := res
  simp only at hacc hinv
  split at hacc
  · cases hacc
  · next hno =>
    cases hacc
    simp only [Bool.or_eq_true, not_or, Bool.not_eq_true, Bool.not_eq_false', List.isEmpty_iff] at hno
    have hs : st.stack = [] := by simpa using hno.1.2
    have hf := hinv.flags
    have hx := hinv.exec
    simp only [hs, unwindFls, List.length_nil] at hf hx
    exact ⟨by simpa [parsingEnd] using hf, by simpa [parsingEnd] using hx, rfl, rfl⟩

example : (parseText (fun _ => 0) ⟨["I"], [(⟨2, 0, 0⟩, [])], [(false, false)], [], 0, false, [], none⟩
      [.reg "I" (.plain ⟨2, 0, 0⟩), .enterFor 0, .reg "Y" (.plain ⟨4, 0, 0⟩), .leave]).accepted.map (·.names)
    = some ["I", "Y"] := by decide

/-! ## functions -/

def wF : Ctx := ⟨[], [], [], [], 0, false, [⟨"F", 1, 100, true⟩], none⟩
def wFG : Ctx := ⟨[], [], [], [], 0, false, [⟨"F", 1, 100, true⟩, ⟨"G", 1, 101, true⟩], none⟩
def wGF : Ctx := ⟨[], [], [], [], 0, false, [⟨"G", 1, 101, true⟩, ⟨"F", 1, 100, true⟩], none⟩

/-- the Spec clause evaluated on the outcome of a parse: `some true` = rejected and functions preserved -/
def fnsKept (c0 : Ctx) (o : Outcome) : Option Bool := o.rejected.map fun c' => decide (FnsPreserved c0 c')

/-- **reject_restores_functions.** For EVERY event sequence — new declarations, complete and failed redefinitions of
pre-existing functions and of functions the text itself declared, in any order, the error anywhere — and EVERY context
(no hypothesis at all): after the rejection the function table IS the table the parse started with: same entries at the
same positions, same functor identity (`fid`), same body (callability), and no entry more. `parsingRevert` removes what
was appended behind the mark and puts every replaced functor back, newest journal entry first. -/
theorem reject_restores_functions (H : Decl → Nat) (c0 c' : Ctx) (evs : List Ev)
    (hrej : parseText H c0 evs = .reject c') : c'.fns = c0.fns := by
  unfold parseText at hrej
  have hinv := jinv_run (H := H) evs (jinv_init c0)
  generalize runEvents H (St.init c0) evs = res at hrej hinv
  obtain ⟨threw, st⟩ := res
  simp only at hrej hinv
  split at hrej
  · cases hrej; exact jinv_reject hinv
  · cases hrej

/-- in the words of the Spec -/
theorem reject_restores_functions_spec (H : Decl → Nat) (c0 c' : Ctx) (evs : List Ev)
    (hrej : parseText H c0 evs = .reject c') : FnsPreserved c0 c' := by
  unfold FnsPreserved
  rw [reject_restores_functions H c0 c' evs hrej, List.take_length]

/-- satisfiable, non-trivially: `g` (not the last entry) is redefined completely, a new `h` is declared and redefined,
`f` is redefined completely twice, a redefinition of `g` is open when the text fails inside its body: at the throw every
entry holds another functor, the journal has four entries; afterwards the table is the old one -/
def exJournalEvs : List Ev :=
  [.fnBegin "G" 1 200, .leave, .fnBegin "H" 0 201, .leave, .fnBegin "H" 0 202, .leave, .fnBegin "F" 1 203, .leave,
   .fnBegin "F" 1 204, .leave, .fnBegin "G" 1 205, .enterBlk, .fail]

example : (runEvents (fun _ => 0) (St.init wFG) exJournalEvs).2.ctx.fns =
      [⟨"F", 1, 204, true⟩, ⟨"G", 1, 205, false⟩, ⟨"H", 0, 202, true⟩] ∧
    (runEvents (fun _ => 0) (St.init wFG) exJournalEvs).2.journal =
      [(1, ⟨"G", 1, 200, true⟩), (0, ⟨"F", 1, 203, true⟩), (0, ⟨"F", 1, 100, true⟩), (2, ⟨"H", 0, 201, true⟩), (1, ⟨"G", 1, 101, true⟩)] ∧
    (parseText (fun _ => 0) wFG exJournalEvs).rejected.map (·.fns) = some wFG.fns := by
  decide

/-- the order of the undo loop matters (what a patch that undoes the journal oldest-first would do): `f` redefined twice -/
def revertFnsOldestFirst (mark : Nat) (journal : List (Nat × Fn)) (fns : List Fn) : List Fn :=
  revertFns mark journal.reverse fns

example : revertFns 1 [(0, ⟨"F", 1, 203, true⟩), (0, ⟨"F", 1, 100, true⟩)] [⟨"F", 1, 204, true⟩] = wF.fns ∧
    revertFnsOldestFirst 1 [(0, ⟨"F", 1, 203, true⟩), (0, ⟨"F", 1, 100, true⟩)] [⟨"F", 1, 204, true⟩] = [⟨"F", 1, 203, true⟩] := by
  decide

/-- **the former negation witness, with its new outcome** (finding C11.complete_redefinition_survives_reject, repaired):
`function f(x) return integer is begin return 10; end; z = ;` on a context that has `f/1` — the complete redefinition
installed at parse time (`fid` 200) is taken out again, `f` is the old functor 100 (it used to stay 200). -/
theorem complete_redefinition_reverted_witness :
    wF.idle = true ∧ wF.coherent (fun _ => 0) = true ∧
    (runEvents (fun _ => 0) (St.init wF) [.fnBegin "F" 1 200, .leave]).2.ctx.fns = [⟨"F", 1, 200, true⟩] ∧
    fnsKept wF (parseText (fun _ => 0) wF [.fnBegin "F" 1 200, .leave, .fail]) = some true ∧
    (parseText (fun _ => 0) wF [.fnBegin "F" 1 200, .leave, .fail]).rejected.map (·.fns) = some [⟨"F", 1, 100, true⟩] := by
  decide

/-- an ACCEPTED text keeps its redefinition (the journal is dropped, not undone) -/
example : (parseText (fun _ => 0) wF [.fnBegin "F" 1 200, .leave]).accepted.map (·.fns) = some [⟨"F", 1, 200, true⟩] := by decide

/-- a FAILED redefinition of a function is rolled back wherever its entry is in the table (it used not to be unless
the entry was the last: finding C11.failed_redefinition_not_rolled_back, repaired by /repo 3e9e0ba):
`function f(x) return integer is begin return 10 end;` with `g` declared after `f` -/
theorem failed_redefinition_rolled_back_not_last :
    fnsKept wFG (parseText (fun _ => 0) wFG [.fnBegin "F" 1 200, .fail]) = some true ∧
    (parseText (fun _ => 0) wFG [.fnBegin "F" 1 200, .fail]).rejected.map (·.fns) = some wFG.fns := by
  decide

/-- … also when the text first declares a new function — which no longer stays: a rejected text leaves no declaration -/
theorem failed_redefinition_rolled_back_after_new :
    fnsKept wF (parseText (fun _ => 0) wF [.fnBegin "H" 0 150, .leave, .fnBegin "F" 1 200, .fail]) = some true ∧
    (parseText (fun _ => 0) wF [.fnBegin "H" 0 150, .leave, .fnBegin "F" 1 200, .fail]).rejected.map (·.fns)
      = some [⟨"F", 1, 100, true⟩] := by
  decide

example : fnsKept wGF (parseText (fun _ => 0) wGF [.fnBegin "F" 1 200, .fail]) = some true := by decide

/-- **reject_restores_functions_partial** — the theorem of the unrepaired tree, now a corollary WITHOUT its proviso
("the text does not complete a redefinition of a pre-existing function"): kept under its name for the manifest. -/
theorem reject_restores_functions_partial (H : Decl → Nat) (c0 c' : Ctx) (evs : List Ev)
    (hrej : parseText H c0 evs = .reject c') : FnsPreserved c0 c' :=
  reject_restores_functions_spec H c0 c' evs hrej

/-- the former region of the finding is not empty: the witness completes a redefinition of a pre-existing function -/
example : redefinitionCompleted (fun _ => 0) wF (St.init wF) [.fnBegin "F" 1 200, .leave, .fail] = true ∧
    redefinitionCompleted (fun _ => 0) wFG (St.init wFG) exJournalEvs = true := by
  decide

/-! ## usability -/

/-- **context_usable_after_reject.** After a rejected text (ANY text) the context is idle again — not parsing, no pending
backup, exec depth as before — everything pre-existing is as it was, the function table is the one before, and when the
text introduced no new symbol the symbol table IS the one before: so whatever is parsed next sees the same context
(`parseText` is a function of it). -/
theorem context_usable_after_reject (H : Decl → Nat) (c0 c' : Ctx) (evs : List Ev)
    (hidle : c0.idle = true) (hcoh : c0.coherent H = true)
    (hrej : parseText H c0 evs = .reject c') :
    c'.idle = true ∧ c'.exec = c0.exec ∧ SymsPreserved c0 c' ∧ c'.fns = c0.fns ∧
    (c'.names.length = c0.names.length → c'.tds.length = c0.tds.length → c'.fls.length = c0.fls.length →
      c' = { c0 with fbacked := c'.fbacked } ∧
      ∀ evs2, parseText H c' evs2 = parseText H { c0 with fbacked := c'.fbacked } evs2) := by
  have hs := reject_restores_symbols H c0 c' evs hidle hcoh hrej
  have hf := reject_restores_functions H c0 c' evs hrej
  refine ⟨?_, hs.exec, hs, hf, ?_⟩
  · have hp : c0.parsing = false := by
      simp only [Ctx.idle, Bool.and_eq_true, Bool.not_eq_true'] at hidle; exact hidle.1
    simp [Ctx.idle, hs.backed, hs.parsing, hp]
  · intro h1 h2 h3
    have hb : c0.backed = [] := by
      simp only [Ctx.idle, Bool.and_eq_true, List.isEmpty_iff] at hidle; exact hidle.2
    have e1 := hs.names; have e2 := hs.types; have e3 := hs.flags
    rw [← h1, List.take_length] at e1
    rw [← h2, List.take_length] at e2
    rw [← h3, List.take_length] at e3
    have heq : c' = { c0 with fbacked := c'.fbacked } := by
      have hbk : c'.backed = c0.backed := by rw [hs.backed, hb]
      have hx := hs.exec
      have hpar := hs.parsing
      cases c'
      cases c0
      simp only at e1 e2 e3 hf hbk hx hpar
      subst e1 e2 e3 hbk hx hpar hf
      rfl
    exact ⟨heq, fun evs2 => by rw [← heq]⟩

/-- satisfiable: an upgrade inside a loop body, then an error; nothing new introduced -/
def exUseCtx : Ctx :=
  ⟨["I", "X"], [(⟨2, 0, 0⟩, []), (⟨2, 0, 0⟩, [])], [(false, false), (false, false)], [], 0, false, [], none⟩

example : (parseText (fun _ => 0) exUseCtx [.reg "I" (.plain ⟨2, 0, 0⟩), .enterFor 0, .reg "X" (.plain ⟨4, 0, 0⟩), .fail]).rejected
    = some exUseCtx := by decide


/-! ## the statement level: the guard of the clause entries is derived, flags at any nesting depth

`nstepE` / `parseTextN` (Model/ParseCtx) run texts given by NAMES, with `FORStatement::parse` / `FORALLStatement::parse`
headers and the two `parse_clause` entries transcribed as written — without the test "control variable / iterator not
locked" that the id-level events `enterFor` / `enterForall` carry. -/

/-- **for_guard_derived.** The symbol `registerSymbol` hands to the FOR header is not locked (a locked one is refused with
CONST_VIOLATION, a new one is created unlocked), so the guarded clause entry IS the clause entry as written. -/
theorem for_guard_derived (H : Decl → Nat) (c c1 : Ctx) (n : String) (i : Nat) (hal : c.aligned)
    (hreg : registerSymbol H c n (.plain intTy) = .ok c1) (hi : findName n c1.names = some i) :
    enterFor c1 i = enterForRaw c1 i ∧ ∃ fl, c1.fls[i]? = some fl ∧ fl.locked = false := by
  obtain ⟨j, fl, hj, hfl, hl⟩ := registerSymbol_unlocked hreg hal
  rw [hi] at hj
  cases hj
  exact ⟨enterFor_eq_raw hfl hl, fl, hfl, hl⟩

example : (registerSymbol (fun _ => 0) exUseCtx "I" (.plain intTy)).toOption = some exUseCtx ∧ exUseCtx.aligned ∧
    findName "I" exUseCtx.names = some 0 ∧ (enterForRaw exUseCtx 0).isSome = true := by decide

/-- **forall_guard_derived.** Same for the FORALL iterator, whatever the element type and the target. -/
theorem forall_guard_derived (H : Decl → Nat) (c c1 : Ctx) (v : String) (r : RegTy) (t : Option Nat) (i : Nat) (hal : c.aligned)
    (hreg : registerSymbol H c v r = .ok c1) (hi : findName v c1.names = some i) :
    enterForall c1 i t = enterForallRaw c1 i t := by
  obtain ⟨j, fl, hj, hfl, hl⟩ := registerSymbol_unlocked hreg hal
  rw [hi] at hj
  cases hj
  exact enterForall_eq_raw t hfl hl

example : (registerSymbol (fun _ => 5) exSymCtx "E" (.tuple [⟨2, 0, 0⟩] 0)).toOption.map (·.names) = some ["X", "T", "E"] ∧
    exSymCtx.aligned := by decide

/-- **statement_level_is_id_level.** For EVERY text (statement heads by name) and EVERY aligned context, the statement-level
parse — raw clause entries, FORALL "protected symbol" test, names resolved by `findSymbol` — is the id-level parse of the
compiled events: every theorem above holds of it. -/
theorem statement_level_is_id_level (H : Decl → Nat) (c : Ctx) (hal : c.aligned) (evs : List NEv) :
    parseTextN H c evs = parseText H c (compile H (St.init c) evs) := parseTextN_eq hal evs

example : exUseCtx.aligned ∧ (parseTextN (fun _ => 0) exUseCtx [.forLoop "I", .reg "X" (.plain ⟨4, 0, 0⟩), .fail]).ok = false := by decide

/-- a context for the nested examples: `T`, `U` tables of integers, `E` an integer that existed before -/
def exNestCtx : Ctx :=
  ⟨["T", "U", "E"], [(⟨2, 0, 1⟩, []), (⟨2, 0, 1⟩, []), (⟨2, 0, 0⟩, [])], [(false, false), (false, false), (false, false)],
   [], 0, false, [], none⟩

/-- forall over `T` with the pre-existing iterator `E`, nested forall over the SAME table with a new iterator `F`, nested
forall over ANOTHER table `U` with new `G`, nested FOR `I`, then an error: at the throw `T` is locked, `U` is locked, the
inner iterator `F` is read-only (it inherits the lock `T` has inside the outer loop — this is what seeded/C09-m3 removes),
`G` is not (U was free), all iterators are type-safe; depth 4 -/
def exNestText : Text :=
  [.forallLoop "E" (.plain ⟨2, 0, 0⟩) (some "T"), .forallLoop "F" (.plain ⟨2, 0, 0⟩) (some "T"),
   .forallLoop "G" (.plain ⟨2, 0, 0⟩) (some "U"), .forLoop "I", .reg "E" (.plain ⟨2, 0, 0⟩), .fail]

example : (nrun (fun _ => 0) (St.init exNestCtx) exNestText).2.ctx.names = ["T", "U", "E", "F", "G", "I"] ∧
    (nrun (fun _ => 0) (St.init exNestCtx) exNestText).2.ctx.fls =
      [(false, true), (false, true), (true, false), (true, true), (true, false), (true, false)] ∧
    (nrun (fun _ => 0) (St.init exNestCtx) exNestText).2.ctx.exec = 4 ∧
    (parseTextN (fun _ => 0) exNestCtx exNestText).ctx.fls =
      [(false, false), (false, false), (false, false), (false, false), (false, false), (false, false)] := by decide

/-- **reject_restores_flags_nested.** For EVERY text — any nesting depth of FOR / FORALL / other clauses, foralls nested over
the same table or over another one, iterators that existed before or are new, the error in a header (`reg … fail`), in a
body, after any number of completed inner loops — and EVERY idle, coherent, aligned context: on BOTH exits (accept and
reject) the `_safety` / `_locked` flags of every pre-existing symbol and the exec depth are what they were; on a reject the
whole symbol clause of the Spec holds. No guard is assumed (`for_guard_derived`, `forall_guard_derived`). -/
theorem reject_restores_flags_nested (H : Decl → Nat) (c0 : Ctx) (evs : List NEv)
    (hidle : c0.idle = true) (hcoh : c0.coherent H = true) (hal : c0.aligned) :
    (parseTextN H c0 evs).ctx.fls.take c0.fls.length = c0.fls ∧ (parseTextN H c0 evs).ctx.exec = c0.exec ∧
    (∀ c', parseTextN H c0 evs = .reject c' → SymsPreserved c0 c') := by
  rw [parseTextN_eq hal]
  cases h : parseText H c0 (compile H (St.init c0) evs) with
  | accept c' =>
    have := accept_keeps_flags H c0 c' _ hidle hcoh h
    exact ⟨this.1, this.2.1, by intro c'' h'; cases h'⟩
  | reject c' =>
    have hs := reject_restores_symbols H c0 c' _ hidle hcoh h
    exact ⟨hs.flags, hs.exec, by intro c'' h'; cases h'; exact hs⟩

example : exNestCtx.idle = true ∧ exNestCtx.coherent (fun _ => 0) = true ∧ exNestCtx.aligned ∧
    (parseTextN (fun _ => 0) exNestCtx exNestText).ok = false := by decide

/-- the FORALL header refuses an iterator that an enclosing loop protects (`s && s->safety()`), before registering it -/
example : (nrun (fun _ => 0) (St.init exNestCtx)
      [.forallLoop "E" (.plain ⟨2, 0, 0⟩) (some "T"), .forallLoop "E" (.plain ⟨2, 0, 0⟩) (some "U")]).1 = true ∧
    (nrun (fun _ => 0) (St.init exNestCtx)
      [.forallLoop "E" (.plain ⟨2, 0, 0⟩) (some "T"), .forallLoop "E" (.plain ⟨2, 0, 0⟩) (some "U")]).2.ctx.exec = 1 := by decide

/-! ## sequences of texts: what a rejected text leaves behind does not influence a later parse -/

/-- **parse_independent_of_fbacked.** `FunctorManager::_backed` is cleared only by the next `createOrReplace`; whatever a
previous text left in it, the outcome of the next parse is the same (and `_backed` is the only difference afterwards). -/
theorem parse_independent_of_fbacked (H : Decl → Nat) (c : Ctx) (hal : c.aligned) (g : Option Fn) (evs : List NEv) :
    ∃ g', parseTextN H { c with fbacked := g } evs = (parseTextN H c evs).map fun c1 => { c1 with fbacked := g' } := by
  obtain ⟨g', h, _⟩ := parseTextN_lift (H := H) (wf_none c) (fits_none hal) evs
    (by rw [List.all_eq_true]; intro e _; exact nev_avoids_none c e) g
  refine ⟨g', ?_⟩
  rw [lift_none] at h
  rw [h]
  cases parseTextN H c evs <;> simp [Outcome.map, lift_none]

/-- non-trivially: a stale `_backed` (left by a rolled-back redefinition) and a text that fails in a new function's body -/
example : (parseTextN (fun _ => 0) { wFG with fbacked := some ⟨"F", 1, 200, false⟩ } [.fnBegin "H" 0 150, .fail]).ctx.fns = wFG.fns ∧
    (parseTextN (fun _ => 0) wFG [.fnBegin "H" 0 150, .fail]).ctx.fns = wFG.fns ∧ wFG.aligned := by decide

/-- after a rejected text (symbols and functions preserved) the context IS the one before with the left-overs inserted -/
theorem leftOver_lift {c0 c' : Ctx} (hidle : c0.idle = true) (hs : SymsPreserved c0 c') (hf : FnsPreserved c0 c')
    (hal : c0.aligned) : c' = lift (leftOver c0 c') c'.fbacked c0 := by
  have hb : c0.backed = [] := by
    simp only [Ctx.idle, Bool.and_eq_true, List.isEmpty_iff] at hidle; exact hidle.2
  have e1 := ins_leftover c0.names c'.names hs.names
  have e2 := ins_leftover c0.tds c'.tds hs.types
  have e3 := ins_leftover c0.fls c'.fls hs.flags
  have e4 := ins_leftover c0.fns c'.fns hf
  rw [hal.1] at e2
  rw [hal.2] at e3
  have e5 := hs.backed
  have e6 := hs.exec
  have e7 := hs.parsing
  cases c'
  simp only at e1 e2 e3 e4 e5 e6 e7
  simp only [lift, leftOver, hb, List.map_nil, Ctx.mk.injEq]
  exact ⟨e1, e2, e3, e5, e6, e7, e4, trivial⟩

/-- the left-overs of the example further down: `Z` behind `I`, `X`; no function -/
example : (leftOver ⟨["I"], [(⟨2, 0, 0⟩, [])], [(false, false)], [], 0, false, [], none⟩
      (parseTextN (fun _ => 0) ⟨["I"], [(⟨2, 0, 0⟩, [])], [(false, false)], [], 0, false, [], none⟩ [.reg "Z" (.plain ⟨4, 0, 0⟩), .fail]).ctx).names = ["Z"] := by decide

/-- **later_parse_independent_of_rejected** (the simulation `parseText c' ≈ parseText c0`). For EVERY idle, coherent,
aligned context `c0`, EVERY rejected text `R` (complete redefinitions of pre-existing functions included: they are
reverted) and EVERY later text `T` that does not mention a name or a function that only `R` introduced: the outcome of
`T` in the disturbed context is the outcome of `T` in `c0` — same verdict — with `R`'s left-over slots inserted behind the
old ones (`lift`): nothing else differs, whatever `_backed` held. -/
theorem later_parse_independent_of_rejected (H : Decl → Nat) (c0 c' : Ctx) (R T : Text)
    (hidle : c0.idle = true) (hcoh : c0.coherent H = true) (hal : c0.aligned)
    (hrej : parseTextN H c0 R = .reject c')
    (hT : T.all (NEv.avoids (leftOver c0 c')) = true) :
    ∃ g, parseTextN H c' T = (parseTextN H c0 T).map (lift (leftOver c0 c') g) := by
  have hal' : c'.aligned := by
    have := aligned_parseTextN (H := H) hal R
    rw [hrej] at this; exact this
  have hrej' := hrej
  rw [parseTextN_eq hal] at hrej'
  have hs := reject_restores_symbols H c0 c' _ hidle hcoh hrej'
  have hfn := reject_restores_functions_spec H c0 c' _ hrej'
  have hc' := leftOver_lift hidle hs hfn hal
  have hx : (leftOver c0 c').wf := by
    constructor
    · simp only [leftOver, List.length_drop, hal'.1]
    · simp only [leftOver, List.length_drop, hal'.2]
  have hfit : Fits (leftOver c0 c') c0 := ⟨Nat.le_refl _, hal, Nat.le_refl _⟩
  obtain ⟨g, h, _⟩ := parseTextN_lift (H := H) hx hfit T hT c'.fbacked
  rw [← hc'] at h
  exact ⟨g, h⟩

/-- … in the words of the property: same verdict, and the symbol and function tables restricted to what existed before `R`
are the same after `T`, with or without `R`. -/
theorem later_parse_same_verdict_and_tables (H : Decl → Nat) (c0 c' : Ctx) (R T : Text)
    (hidle : c0.idle = true) (hcoh : c0.coherent H = true) (hal : c0.aligned)
    (hrej : parseTextN H c0 R = .reject c')
    (hT : T.all (NEv.avoids (leftOver c0 c')) = true) :
    (parseTextN H c' T).ok = (parseTextN H c0 T).ok ∧
    (parseTextN H c' T).ctx.names.take c0.names.length = (parseTextN H c0 T).ctx.names.take c0.names.length ∧
    (parseTextN H c' T).ctx.tds.take c0.names.length = (parseTextN H c0 T).ctx.tds.take c0.names.length ∧
    (parseTextN H c' T).ctx.fls.take c0.names.length = (parseTextN H c0 T).ctx.fls.take c0.names.length ∧
    (parseTextN H c' T).ctx.fns.take c0.fns.length = (parseTextN H c0 T).ctx.fns.take c0.fns.length ∧
    (parseTextN H c' T).ctx.exec = (parseTextN H c0 T).ctx.exec ∧
    (parseTextN H c' T).ctx.idle = (parseTextN H c0 T).ctx.idle := by
  obtain ⟨g, h⟩ := later_parse_independent_of_rejected H c0 c' R T hidle hcoh hal hrej hT
  have hfit : Fits (leftOver c0 c') c0 := ⟨Nat.le_refl _, hal, Nat.le_refl _⟩
  have hx : (leftOver c0 c').wf := by
    have hal' : c'.aligned := by
      have := aligned_parseTextN (H := H) hal R
      rw [hrej] at this; exact this
    constructor
    · simp only [leftOver, List.length_drop, hal'.1]
    · simp only [leftOver, List.length_drop, hal'.2]
  obtain ⟨_, _, hf2⟩ := parseTextN_lift (H := H) hx hfit T hT none
  rw [h]
  generalize parseTextN H c0 T = o at hf2
  have key : ∀ c1 : Ctx, Fits (leftOver c0 c') c1 →
      (lift (leftOver c0 c') g c1).names.take c0.names.length = c1.names.take c0.names.length ∧
      (lift (leftOver c0 c') g c1).tds.take c0.names.length = c1.tds.take c0.names.length ∧
      (lift (leftOver c0 c') g c1).fls.take c0.names.length = c1.fls.take c0.names.length ∧
      (lift (leftOver c0 c') g c1).fns.take c0.fns.length = c1.fns.take c0.fns.length ∧
      (lift (leftOver c0 c') g c1).exec = c1.exec ∧ (lift (leftOver c0 c') g c1).idle = c1.idle := by
    intro c1 hf1
    refine ⟨take_ins _ _ _ hf1.n, take_ins _ _ _ hf1.t, take_ins _ _ _ hf1.f, take_ins _ _ _ hf1.m, rfl, ?_⟩
    simp only [Ctx.idle, lift]
    cases c1.backed <;> rfl
  cases o with
  | accept c1 => exact ⟨rfl, key c1 hf2⟩
  | reject c1 => exact ⟨rfl, key c1 hf2⟩

/-- satisfiable, non-trivially: `R` registers a new `Z`, upgrades `X` inside a FOR body, starts redefining `F`, fails;
`T` upgrades `X`, loops over a new `J`, declares a new function -/
def exLaterCtx : Ctx :=
  ⟨["I", "X"], [(⟨2, 0, 0⟩, []), (⟨2, 0, 0⟩, [])], [(false, false), (false, false)], [], 0, false,
   [⟨"F", 1, 100, true⟩, ⟨"G", 1, 101, true⟩], none⟩
def exLaterR : Text := [.reg "Z" (.plain ⟨4, 0, 0⟩), .forLoop "I", .reg "X" (.plain ⟨4, 0, 0⟩), .leave, .fnBegin "F" 1 200, .fail]
def exLaterT : Text := [.reg "X" (.plain ⟨3, 0, 0⟩), .forLoop "J", .leave, .fnBegin "K" 0 300, .leave]

example : exLaterCtx.idle = true ∧ exLaterCtx.coherent (fun _ => 0) = true ∧ exLaterCtx.aligned ∧
    redefinitionCompleted (fun _ => 0) exLaterCtx (St.init exLaterCtx) (compile (fun _ => 0) (St.init exLaterCtx) exLaterR) = false ∧
    (parseTextN (fun _ => 0) exLaterCtx exLaterR).ok = false ∧
    (parseTextN (fun _ => 0) exLaterCtx exLaterR).ctx.names = ["I", "X", "Z"] ∧
    exLaterT.all (NEv.avoids (leftOver exLaterCtx (parseTextN (fun _ => 0) exLaterCtx exLaterR).ctx)) = true ∧
    (parseTextN (fun _ => 0) (parseTextN (fun _ => 0) exLaterCtx exLaterR).ctx exLaterT).ctx.names = ["I", "X", "Z", "J"] ∧
    (parseTextN (fun _ => 0) exLaterCtx exLaterT).ctx.names = ["I", "X", "J"] := by decide

/-- **reject_restores_functions_statement_level.** The same for a text given by its statement heads (names, raw clause
entries), for EVERY aligned context: a rejected text leaves the function table exactly as it found it. -/
theorem reject_restores_functions_statement_level (H : Decl → Nat) (c0 c' : Ctx) (R : Text) (hal : c0.aligned)
    (hrej : parseTextN H c0 R = .reject c') : c'.fns = c0.fns := by
  rw [parseTextN_eq hal] at hrej
  exact reject_restores_functions H c0 c' _ hrej

/-- a rejected text leaves no function among its left-overs -/
theorem leftOver_no_function (H : Decl → Nat) (c0 c' : Ctx) (R : Text) (hal : c0.aligned)
    (hrej : parseTextN H c0 R = .reject c') : (leftOver c0 c').fns = [] := by
  simp only [leftOver, reject_restores_functions_statement_level H c0 c' R hal hrej, List.drop_length]

/-- **later_parse_same_function_table.** After a rejected text `R` (ANY: new declarations, complete redefinitions, failed
ones) a later text `T` that avoids the names `R` left behind ends with the SAME function table — all of it, not only the
pre-existing prefix — as without `R`. -/
theorem later_parse_same_function_table (H : Decl → Nat) (c0 c' : Ctx) (R T : Text)
    (hidle : c0.idle = true) (hcoh : c0.coherent H = true) (hal : c0.aligned)
    (hrej : parseTextN H c0 R = .reject c')
    (hT : T.all (NEv.avoids (leftOver c0 c')) = true) :
    (parseTextN H c' T).ok = (parseTextN H c0 T).ok ∧ (parseTextN H c' T).ctx.fns = (parseTextN H c0 T).ctx.fns := by
  obtain ⟨g, h⟩ := later_parse_independent_of_rejected H c0 c' R T hidle hcoh hal hrej hT
  have hnf := leftOver_no_function H c0 c' R hal hrej
  rw [h]
  cases parseTextN H c0 T with
  | accept c1 => exact ⟨rfl, by simp only [Outcome.map, Outcome.ctx, lift, hnf, ins_nil]⟩
  | reject c1 => exact ⟨rfl, by simp only [Outcome.map, Outcome.ctx, lift, hnf, ins_nil]⟩

/-- satisfiable, non-trivially: `R` redefines `F` COMPLETELY, declares a new `K`, then fails; `T` declares its own `K` and
redefines `G`: with and without `R` the table after `T` is `F`(old), `G`(new), `K`(T's) -/
def exRedefR : Text := [.fnBegin "F" 1 200, .leave, .fnBegin "K" 0 201, .leave, .reg "Z" (.plain ⟨4, 0, 0⟩), .fail]
def exRedefT : Text := [.fnBegin "K" 0 300, .leave, .fnBegin "G" 1 301, .leave]

example : (parseTextN (fun _ => 0) exLaterCtx exRedefR).ok = false ∧
    (parseTextN (fun _ => 0) exLaterCtx exRedefR).ctx.fns = exLaterCtx.fns ∧
    exRedefT.all (NEv.avoids (leftOver exLaterCtx (parseTextN (fun _ => 0) exLaterCtx exRedefR).ctx)) = true ∧
    (parseTextN (fun _ => 0) (parseTextN (fun _ => 0) exLaterCtx exRedefR).ctx exRedefT).ctx.fns =
      [⟨"F", 1, 100, true⟩, ⟨"G", 1, 301, true⟩, ⟨"K", 0, 300, true⟩] ∧
    (parseTextN (fun _ => 0) exLaterCtx exRedefT).ctx.fns =
      [⟨"F", 1, 100, true⟩, ⟨"G", 1, 301, true⟩, ⟨"K", 0, 300, true⟩] := by decide

/-- The hypothesis "T does not mention what only R introduced" is needed — this is the property's "(Names that only the
rejected text introduced are outside the guarantee.)": `$z = 1; y = ;` is rejected and leaves the type-safe `$Z` integer;
`$z = "a";`, valid before, is then refused with TYPE_MISMATCH. -/
theorem later_parse_depends_on_leftover_names :
    let c0 : Ctx := ⟨[], [], [], [], 0, false, [], none⟩
    let R : Text := [.reg "$Z" (.plain ⟨2, 0, 0⟩), .fail]
    let T : Text := [.reg "$Z" (.plain ⟨4, 0, 0⟩)]
    (parseTextN (fun _ => 0) c0 R).ok = false ∧ (parseTextN (fun _ => 0) c0 T).ok = true ∧
    (parseTextN (fun _ => 0) (parseTextN (fun _ => 0) c0 R).ctx T).ok = false := by decide

/-- **history_independent_of_leftovers.** For EVERY sequence of later texts (each accepted or rejected, each leaving its own
names behind) that do not mention the left-overs `x`: the verdicts are the same with and without the left-overs, and the
final context is the undisturbed final context with the left-overs inserted. -/
theorem history_independent_of_leftovers (H : Decl → Nat) (x : Extra) (hx : x.wf) (ts : List Text) (c : Ctx) (hf : Fits x c)
    (g : Option Fn) (hts : ts.all (fun t => t.all (NEv.avoids x)) = true) :
    (runHistory H (lift x g c) ts).1 = (runHistory H c ts).1 ∧
    ∃ g', (runHistory H (lift x g c) ts).2 = lift x g' (runHistory H c ts).2 := by
  induction ts generalizing c g with
  | nil => exact ⟨rfl, g, rfl⟩
  | cons t ts ih =>
    simp only [List.all_cons, Bool.and_eq_true] at hts
    obtain ⟨g1, h1, hf1⟩ := parseTextN_lift (H := H) hx hf t hts.1 g
    simp only [runHistory]
    rw [h1]
    have e1 : ((parseTextN H c t).map (lift x g1)).ctx = lift x g1 (parseTextN H c t).ctx := by
      cases parseTextN H c t <;> rfl
    have e2 : ((parseTextN H c t).map (lift x g1)).ok = (parseTextN H c t).ok := by
      cases parseTextN H c t <;> rfl
    rw [e1, e2]
    obtain ⟨ihv, g2, ihc⟩ := ih _ hf1 g1 hts.2
    exact ⟨by rw [ihv], g2, ihc⟩

example : (leftOver exLaterCtx (parseTextN (fun _ => 0) exLaterCtx exLaterR).ctx).names = ["Z"] ∧
    (leftOver exLaterCtx (parseTextN (fun _ => 0) exLaterCtx exLaterR).ctx).tds.length = 1 ∧
    (leftOver exLaterCtx (parseTextN (fun _ => 0) exLaterCtx exLaterR).ctx).n0 ≤ exLaterCtx.names.length := by decide

/-- **history_without_rejected.** For EVERY history `R :: post` submitted to an idle, coherent, aligned context, `R` rejected,
`post` ANY sequence of texts — valid ones, rejected ones, declarations, calls — that do not
mention what only `R` introduced: every text of `post` gets the verdict it gets without `R`, and the final context is the
final context without `R` plus `R`'s left-over slots. -/
theorem history_without_rejected (H : Decl → Nat) (c0 c' : Ctx) (R : Text) (post : List Text)
    (hidle : c0.idle = true) (hcoh : c0.coherent H = true) (hal : c0.aligned)
    (hrej : parseTextN H c0 R = .reject c')
    (hpost : post.all (fun t => t.all (NEv.avoids (leftOver c0 c'))) = true) :
    (runHistory H c0 (R :: post)).1 = false :: (runHistory H c0 post).1 ∧
    ∃ g, (runHistory H c0 (R :: post)).2 = lift (leftOver c0 c') g (runHistory H c0 post).2 := by
  have hal' : c'.aligned := by
    have := aligned_parseTextN (H := H) hal R
    rw [hrej] at this; exact this
  have hrej' := hrej
  rw [parseTextN_eq hal] at hrej'
  have hs := reject_restores_symbols H c0 c' _ hidle hcoh hrej'
  have hfn := reject_restores_functions_spec H c0 c' _ hrej'
  have hc' := leftOver_lift hidle hs hfn hal
  have hx : (leftOver c0 c').wf := by
    constructor
    · simp only [leftOver, List.length_drop, hal'.1]
    · simp only [leftOver, List.length_drop, hal'.2]
  have hfit : Fits (leftOver c0 c') c0 := ⟨Nat.le_refl _, hal, Nat.le_refl _⟩
  obtain ⟨hv, g, hc⟩ := history_independent_of_leftovers H _ hx post c0 hfit c'.fbacked hpost
  rw [← hc'] at hv hc
  simp only [runHistory, hrej, Outcome.ok, Outcome.ctx]
  exact ⟨by rw [hv], g, hc⟩

example : (runHistory (fun _ => 0) exLaterCtx [exLaterR, exLaterT, exLaterR, exLaterT]).1 = [false, true, false, true] ∧
    (runHistory (fun _ => 0) exLaterCtx [exLaterT, exLaterR, exLaterT]).1 = [true, false, true] := by decide

/-- an idle, coherent, aligned context stays so through any text: the hypotheses of the theorems above hold at every point
of every history -/
theorem history_keeps_invariants (H : Decl → Nat) (c : Ctx) (t : Text)
    (hidle : c.idle = true) (hcoh : c.coherent H = true) (hal : c.aligned) :
    (parseTextN H c t).ctx.idle = true ∧ (parseTextN H c t).ctx.coherent H = true ∧ (parseTextN H c t).ctx.aligned := by
  refine ⟨?_, ?_, aligned_parseTextN hal t⟩
  · rw [parseTextN_eq hal]
    cases h : parseText H c (compile H (St.init c) t) with
    | accept c' =>
      have := accept_keeps_flags H c c' _ hidle hcoh h
      simp [Outcome.ctx, Ctx.idle, this.2.2.1, this.2.2.2]
    | reject c' =>
      have hs := reject_restores_symbols H c c' _ hidle hcoh h
      have hp : c.parsing = false := by
        simp only [Ctx.idle, Bool.and_eq_true, Bool.not_eq_true'] at hidle; exact hidle.1
      simp [Outcome.ctx, Ctx.idle, hs.backed, hs.parsing, hp]
  · rw [parseTextN_eq hal]; exact coherent_parseText hidle hcoh _

example : exLaterCtx.idle = true ∧ (parseTextN (fun _ => 0) exLaterCtx exLaterR).ctx.idle = true := by decide

/-! ## behaviour after a reject (Model/Session.lean: parse-time tables + the interpreter model's state) -/

/-- **reject_then_run_eq_run.** For EVERY session (parse-time tables idle, coherent, aligned; ANY variables, output,
declarations), EVERY rejected text `R` and EVERY later text `T` (context effects `T.eff`,
program `T.prog`) that does not mention what only `R` introduced: submitting `T` after `R` gives the same verdict and,
when accepted, the SAME `Interp` run (outcome, returned value, every variable, the whole output) as submitting `T`
without `R`; the declarations are the same and the parse-time tables differ by `R`'s left-over slots only. -/
theorem reject_then_run_eq_run (H : Decl → Nat) (fuel : Nat) (s : Session.Sess) (R T : Session.Sub) (c' : Ctx)
    (hidle : s.pc.idle = true) (hcoh : s.pc.coherent H = true) (hal : s.pc.aligned)
    (hrej : parseTextN H s.pc R.eff = .reject c')
    (hT : T.eff.all (NEv.avoids (leftOver s.pc c')) = true) :
    (Session.submit H fuel s R).2 = none ∧
    (Session.submit H fuel s R).1.rt = s.rt ∧ (Session.submit H fuel s R).1.decls = s.decls ∧
    (Session.submit H fuel (Session.submit H fuel s R).1 T).2 = (Session.submit H fuel s T).2 ∧
    (Session.submit H fuel (Session.submit H fuel s R).1 T).1.rt = (Session.submit H fuel s T).1.rt ∧
    (Session.submit H fuel (Session.submit H fuel s R).1 T).1.decls = (Session.submit H fuel s T).1.decls ∧
    ∃ g, (Session.submit H fuel (Session.submit H fuel s R).1 T).1.pc
      = lift (leftOver s.pc c') g (Session.submit H fuel s T).1.pc := by
  obtain ⟨g, h⟩ := later_parse_independent_of_rejected H s.pc c' R.eff T.eff hidle hcoh hal hrej hT
  have hs1 : Session.submit H fuel s R = ({ s with pc := c' }, none) := by
    simp only [Session.submit, hrej]
  rw [hs1]
  refine ⟨rfl, rfl, rfl, ?_⟩
  simp only [Session.submit, h]
  cases parseTextN H s.pc T.eff with
  | accept c1 => exact ⟨rfl, rfl, rfl, g, rfl⟩
  | reject c1 => exact ⟨rfl, rfl, rfl, g, rfl⟩

/-- satisfiable, non-trivially: the session of `exLaterCtx` with a variable holding 5; `R` = `exLaterR`; `T` assigns and prints -/
def exSess : Session.Sess := ⟨exLaterCtx, ({ vars := [("X", .int 5)] } : BlocV.St), []⟩
def exSubR : Session.Sub := ⟨exLaterR, []⟩
def exSubT : Session.Sub := ⟨[.reg "X" (.plain ⟨2, 0, 0⟩)], [.letS "X" (.bin .add (.var "X") (.lit (.int 1))), .printS [.var "X"]]⟩

example : (Session.submit (fun _ => 0) 1000 exSess exSubR).2.isNone = true ∧
    ((Session.submit (fun _ => 0) 1000 (Session.submit (fun _ => 0) 1000 exSess exSubR).1 exSubT).2.map (·.st.output))
      = ((Session.submit (fun _ => 0) 1000 exSess exSubT).2.map (·.st.output)) := by
  constructor
  · decide
  · rfl

/-- **session_reject_leaves_no_declaration.** In a session, a rejected text changes neither the function table of the
context, nor the declarations behind it, nor any value or output: accepted texts keep their declarations, rejected ones
leave none. -/
theorem session_reject_leaves_no_declaration (H : Decl → Nat) (fuel : Nat) (s : Session.Sess) (R : Session.Sub) (c' : Ctx)
    (hal : s.pc.aligned) (hrej : parseTextN H s.pc R.eff = .reject c') :
    (Session.submit H fuel s R).2 = none ∧ (Session.submit H fuel s R).1.pc.fns = s.pc.fns ∧
    (Session.submit H fuel s R).1.decls = s.decls ∧ (Session.submit H fuel s R).1.rt = s.rt := by
  have hs1 : Session.submit H fuel s R = ({ s with pc := c' }, none) := by
    simp only [Session.submit, hrej]
  rw [hs1]
  exact ⟨rfl, reject_restores_functions_statement_level H s.pc c' R.eff hal hrej, rfl, rfl⟩

/-- … and an accepted one keeps them: table and declarations grow together -/
example : (Session.submit (fun _ => 0) 1000 exSess ⟨exRedefR, []⟩).1.pc.fns = exLaterCtx.fns ∧
    (Session.submit (fun _ => 0) 1000 exSess ⟨exRedefT, []⟩).1.pc.fns =
      [⟨"F", 1, 100, true⟩, ⟨"G", 1, 301, true⟩, ⟨"K", 0, 300, true⟩] := by
  constructor
  · decide
  · decide

/-! ## seeded/C09-m3 seen by the flag model

The mutation `vt.locked(locked_ex_bak)` → `vt.locked(locked_vt_bak)` at the clause ENTRY gives the iterator its own saved
lock instead of the target's. Restoration is untouched (both catch block and normal exit still write the saved values), so
the C11 Spec cannot see it; the flags DURING the body differ exactly when the target is already locked — a forall nested in
a forall over the same table — and that is what the trace correspondence compares at every reader call. -/

/-- the mutated entry, as a definition -/
def enterForallRawM3 (c : Ctx) (v : Nat) (tgt : Option Nat) : Option (Ctx × Frame) :=
  match c.fls[v]? with
  | some fv =>
    let fls1 := modAt (setSafe true) v c.fls
    match tgt with
    | none => some ({ c with exec := c.exec + 1, fls := fls1 }, .forallC v fv.safety fv.locked none)
    | some t =>
      match fls1[t]? with
      | some ft =>
        let fls2 := modAt (setLock true) t fls1
        let fls3 := modAt (setLock fv.locked) v fls2
        some ({ c with exec := c.exec + 1, fls := fls3 }, .forallC v fv.safety fv.locked (some (t, ft.locked)))
      | none => none
  | none => none

/-- `forall e in t loop forall f in t loop …`: (T, E, F) — inside the inner body the real entry leaves `F` read-only, the
mutated one does not; unwinding both frames gives the original flags in both cases -/
example :
    let c : Ctx := ⟨["T", "E", "F"], [(⟨2, 0, 1⟩, []), (⟨2, 0, 0⟩, []), (⟨2, 0, 0⟩, [])], [(false, false), (false, false), (false, false)],
      [], 0, true, [], none⟩
    ((enterForallRaw c 1 (some 0)).bind fun p => (enterForallRaw p.1 2 (some 0)).map fun q => q.1.fls)
      = some [(false, true), (true, false), (true, true)] ∧
    ((enterForallRawM3 c 1 (some 0)).bind fun p => (enterForallRawM3 p.1 2 (some 0)).map fun q => q.1.fls)
      = some [(false, true), (true, false), (true, false)] ∧
    ((enterForallRawM3 c 1 (some 0)).bind fun p => (enterForallRawM3 p.1 2 (some 0)).map fun q =>
      (p.2.exitCatch (q.2.exitCatch q.1)).fls) = some c.fls ∧
    ((enterForallRaw c 1 (some 0)).bind fun p => (enterForallRaw p.1 2 (some 0)).map fun q =>
      (p.2.exitCatch (q.2.exitCatch q.1)).fls) = some c.fls := by decide

/-- the hypotheses of the theorems hold after ANY history -/
theorem runHistory_invariants (H : Decl → Nat) (c : Ctx) (ts : List Text)
    (hidle : c.idle = true) (hcoh : c.coherent H = true) (hal : c.aligned) :
    (runHistory H c ts).2.idle = true ∧ (runHistory H c ts).2.coherent H = true ∧ (runHistory H c ts).2.aligned := by
  induction ts generalizing c with
  | nil => exact ⟨hidle, hcoh, hal⟩
  | cons t ts ih =>
    obtain ⟨h1, h2, h3⟩ := history_keeps_invariants H c t hidle hcoh hal
    simp only [runHistory]
    exact ih _ h1 h2 h3

example : exLaterCtx.idle = true ∧ exLaterCtx.coherent (fun _ => 0) = true ∧ exLaterCtx.aligned ∧
    (runHistory (fun _ => 0) exLaterCtx [exLaterR, exLaterT]).2.idle = true := by decide

/-- **history_without_rejected_anywhere.** For EVERY history `pre ++ R :: post` submitted to an idle, coherent, aligned
context — `pre` ANY texts (accepted, rejected, declarations, redefinitions), `R` rejected in the context `pre` leads to,
`post` ANY texts not mentioning what only `R` introduced —: every other text gets the
verdict it gets in the history without `R`, and the final context is the one without `R` plus `R`'s left-over slots. -/
theorem history_without_rejected_anywhere (H : Decl → Nat) (c c' : Ctx) (pre post : List Text) (R : Text)
    (hidle : c.idle = true) (hcoh : c.coherent H = true) (hal : c.aligned)
    (hrej : parseTextN H (runHistory H c pre).2 R = .reject c')
    (hpost : post.all (fun t => t.all (NEv.avoids (leftOver (runHistory H c pre).2 c'))) = true) :
    (runHistory H c (pre ++ R :: post)).1 = (runHistory H c pre).1 ++ false :: (runHistory H (runHistory H c pre).2 post).1 ∧
    (runHistory H c (pre ++ post)).1 = (runHistory H c pre).1 ++ (runHistory H (runHistory H c pre).2 post).1 ∧
    ∃ g, (runHistory H c (pre ++ R :: post)).2 = lift (leftOver (runHistory H c pre).2 c') g (runHistory H c (pre ++ post)).2 := by
  obtain ⟨i1, i2, i3⟩ := runHistory_invariants H c pre hidle hcoh hal
  obtain ⟨hv, g, hc⟩ := history_without_rejected H (runHistory H c pre).2 c' R post i1 i2 i3 hrej hpost
  rw [runHistory_append, runHistory_append]
  simp only
  rw [hv, hc]
  refine ⟨rfl, ?_, g, rfl⟩
  first | rfl | trivial

example : (runHistory (fun _ => 0) exLaterCtx ([exLaterT] ++ exLaterR :: [exLaterT])).1 = [true, false, true] ∧
    (runHistory (fun _ => 0) exLaterCtx ([exLaterT] ++ [exLaterT])).1 = [true, true] := by decide



/-! ## whole histories, run time included -/

/-- **session_history_without_rejected.** For EVERY session and EVERY history `R :: post` of submitted texts, `R` rejected,
`post` ANY texts that do not mention what only `R` introduced: every text of `post` has the
verdict and — when accepted — exactly the `Interp` run (outcome, returned value, variables, output so far) it has in the
history without `R`; the final variables, output and declarations are the same; the parse-time tables differ by `R`'s
left-over slots. -/
theorem session_history_without_rejected (H : Decl → Nat) (fuel : Nat) (s : Session.Sess) (R : Session.Sub)
    (post : List Session.Sub) (c' : Ctx)
    (hidle : s.pc.idle = true) (hcoh : s.pc.coherent H = true) (hal : s.pc.aligned)
    (hrej : parseTextN H s.pc R.eff = .reject c')
    (hpost : post.all (fun t => t.eff.all (NEv.avoids (leftOver s.pc c'))) = true) :
    (Session.submitAll H fuel s (R :: post)).1 = none :: (Session.submitAll H fuel s post).1 ∧
    (Session.submitAll H fuel s (R :: post)).2.rt = (Session.submitAll H fuel s post).2.rt ∧
    (Session.submitAll H fuel s (R :: post)).2.decls = (Session.submitAll H fuel s post).2.decls ∧
    ∃ g, (Session.submitAll H fuel s (R :: post)).2.pc = lift (leftOver s.pc c') g (Session.submitAll H fuel s post).2.pc := by
  have hal' : c'.aligned := by
    have := aligned_parseTextN (H := H) hal R.eff
    rw [hrej] at this; exact this
  have hrej' := hrej
  rw [parseTextN_eq hal] at hrej'
  have hs := reject_restores_symbols H s.pc c' _ hidle hcoh hrej'
  have hfn := reject_restores_functions_spec H s.pc c' _ hrej'
  have hc' := leftOver_lift hidle hs hfn hal
  have hx : (leftOver s.pc c').wf := by
    constructor
    · simp only [leftOver, List.length_drop, hal'.1]
    · simp only [leftOver, List.length_drop, hal'.2]
  have hfit : Fits (leftOver s.pc c') s.pc := ⟨Nat.le_refl _, hal, Nat.le_refl _⟩
  obtain ⟨hv, g, hc⟩ := submitAll_lift H fuel hx post s hfit c'.fbacked hpost
  rw [← hc'] at hv hc
  have hsub : Session.submit H fuel s R = ({ s with pc := c' }, none) := by
    simp only [Session.submit, hrej]
  simp only [Session.submitAll, hsub]
  rw [hv, hc]
  exact ⟨rfl, rfl, rfl, g, rfl⟩

example : ((Session.submitAll (fun _ => 0) 1000 exSess [exSubR, exSubT, exSubR, exSubT]).1.map (·.isSome)) = [false, true, false, true] := by
  decide


end BlocV.ParseCtx
