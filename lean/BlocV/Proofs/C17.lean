/-
  C17 — every module object is destroyed exactly once, after its last reference is gone.
  Property theorems about the handle reference counter of blocc/complex.cpp (Model/Plugin.lean, parts H and S).
  Helper lemmas: Proofs/Lemmas/Handle.lean (invariant `Inv` of the counter, ownership invariant `Owned` of the contexts).
-/
import BlocV.Model.Plugin
import BlocV.Proofs.Lemmas.Handle

set_option linter.unusedSimpArgs false
set_option linter.unusedVariables false

namespace BlocV.Proofs.C17
open BlocV.Plugin BlocV.Plugin.H BlocV.Proofs.Handle

/-- **refs_eq_live_handles.** After ANY sequence of handle operations that the class survives (no null dereference),
for every object created so far that the module has not been asked to destroy, the shared counter equals the number of
live handles referring to it, and that number is positive. -/
theorem refs_eq_live_handles (ops : List HOp) (s : HState) (h : run HState.init ops = .ok s) (o : Nat)
    (ho : o < s.nobj) (hf : s.freed o = false) : s.cnt o = (refs s o : Int) ∧ 0 < refs s o :=
  let hi := run_inv init_inv h
  ⟨(hi.live o ho hf).1, (hi.live o ho hf).2.1⟩

example : ∃ s, run HState.init [.new, .copy 0, .new, .assign 2 0, .dtor 1] = .ok s ∧ s.nobj = 2 ∧ s.freed 0 = false ∧ refs s 0 = 2 := by
  refine ⟨_, rfl, ?_⟩; decide

/-- **destroy_at_most_once** (with the exact count): the module's destructor has been called once for an object whose
counter was deleted, never for the others; so never twice. -/
theorem destroy_at_most_once (ops : List HOp) (s : HState) (h : run HState.init ops = .ok s) (o : Nat) (ho : o < s.nobj) :
    s.destroyed o ≤ 1 ∧ (s.destroyed o = 1 ↔ s.freed o = true) ∧ (s.destroyed o = 1 ↔ refs s o = 0) := by
  have hi := run_inv init_inv h
  cases hf : s.freed o with
  | false =>
    obtain ⟨_, h2, h3⟩ := hi.live o ho hf
    refine ⟨by omega, ?_, ?_⟩
    · constructor <;> intro h' <;> first | omega | cases h'
    · constructor <;> intro h' <;> omega
  | true =>
    obtain ⟨h2, h3⟩ := hi.dead o ho hf
    refine ⟨by omega, ?_, ?_⟩
    · constructor <;> intro _ <;> first | rfl | exact h3
    · constructor <;> intro _ <;> first | exact h2 | exact h3

example : ∃ s, run HState.init [.new, .copy 0, .dtor 0, .dtor 1] = .ok s ∧ s.destroyed 0 = 1 := ⟨_, rfl, by decide⟩

/-- **destroy_at_zero_only.** An operation makes the module destroy an object only if, before it, exactly one live
handle referred to the object (counter = 1), and afterwards none does. -/
theorem destroy_at_zero_only (ops : List HOp) (s s' : HState) (op : HOp) (h : run HState.init ops = .ok s)
    (hs : step s op = .ok s') (o : Nat) (ho : o < s.nobj) (hd : s'.destroyed o ≠ s.destroyed o) :
    s.cnt o = 1 ∧ refs s o = 1 ∧ refs s' o = 0 ∧ s'.destroyed o = s.destroyed o + 1 := by
  have hi := run_inv init_inv h
  obtain ⟨hi', hn, hdes⟩ := step_spec hi op hs
  rcases hdes o ho with ⟨h1, _⟩ | ⟨h1, h2, h3, h4⟩
  · exact absurd h1 hd
  · exact ⟨h2, h3, (hi'.dead o (by omega) h4).1, h1⟩

example : ∃ s s', run HState.init [.new, .copy 0, .dtor 0] = .ok s ∧ step s (.dtor 1) = .ok s' ∧ s'.destroyed 0 ≠ s.destroyed 0 :=
  ⟨_, _, rfl, rfl, by decide⟩

/-- **no_leak_at_quiescence** (handle level): once every handle that was ever constructed has been destructed, every
object the factory created has been handed back to its module exactly once. -/
theorem no_leak_at_quiescence (ops : List HOp) (s : HState) (h : run HState.init ops = .ok s)
    (hq : quiescent s = true) (o : Nat) (ho : o < s.nobj) : s.destroyed o = 1 := by
  have hi := run_inv init_inv h
  cases hf : s.freed o with
  | true => exact (hi.dead o ho hf).2
  | false =>
    have hpos := (hi.live o ho hf).2.1
    have hm : Slot.ref o ∈ s.slots := List.count_pos_iff.mp hpos
    simp only [quiescent, List.all_eq_true] at hq
    have := hq _ hm
    simp at this

example : ∃ s, run HState.init [.new, .new, .copy 0, .assign 0 1, .dtor 0, .dtor 1, .dtor 2] = .ok s ∧ quiescent s = true ∧ s.nobj = 2 :=
  ⟨_, rfl, by decide⟩

/-- The class never touches a deleted counter: the only C-level hazard of any operation sequence is the null
dereference (a malformed sequence naming a destructed handle aside). -/
theorem no_dangling_counter (ops : List HOp) (s : HState) (op : HOp) (h : run HState.init ops = .ok s) :
    step s op ≠ .error .dangling := by
  have hi := run_inv init_inv h
  have hnf : ∀ (i o : Nat), s.slots[i]? = some (Slot.ref o) → s.freed o = false := by
    intro i o hs
    have hmem : Slot.ref o ∈ s.slots := by rw [← getElem_of_some hs]; exact List.getElem_mem _
    cases hf : s.freed o with
    | false => rfl
    | true =>
      have := (hi.dead o (hi.bound o hmem) hf).1
      have h1 : 0 < refs s o := List.count_pos_iff.mpr hmem
      omega
  have hdrop : ∀ i, drop s i ≠ .error .dangling := by
    intro i hc
    unfold drop at hc
    split at hc
    · rename_i o hs
      rw [hnf i o hs] at hc
      simp only [Bool.false_eq_true, ↓reduceIte] at hc
      split at hc <;> cases hc
    · cases hc
    · cases hc
  intro hc
  cases op with
  | new => simp [step] at hc
  | move i => simp only [step] at hc; split at hc <;> cases hc
  | swap i j => simp only [step] at hc; split at hc <;> cases hc
  | copy i =>
    simp only [step] at hc
    split at hc
    · rename_i o hl
      have hs := (liveSlot_some hl).1
      unfold acquire at hc
      simp only [hnf i o hs, Bool.false_eq_true, ↓reduceIte] at hc
      cases hc
    · cases hc
    · cases hc
  | dtor i =>
    simp only [step] at hc
    split at hc
    · cases hc
    · rename_i e hd
      injection hc with hc; subst hc
      exact hdrop i hd
  | assign i j =>
    simp only [step] at hc
    split at hc
    · split at hc
      · cases hc
      · split at hc
        · rename_i e hd
          injection hc with hc; subst hc
          exact hdrop i hd
        · rename_i s1 hd
          have hsl : ∃ o, s.slots[i]? = some (.ref o) := by
            unfold drop at hd
            split at hd
            · rename_i o hs; exact ⟨o, hs⟩
            · cases hd
            · cases hd
          obtain ⟨o, hs⟩ := hsl
          obtain ⟨s2, h2, hi2, hsl2, _⟩ := drop_spec hi hs
          rw [h2] at hd; injection hd with hd; subst hd
          split at hc
          · rename_i o' hj'
            have hnull : s2.slots[i]? = some .null := by rw [hsl2]; simp [getElem?_lt hs]
            have hmem : Slot.ref o' ∈ s2.slots := by
              rw [← getElem_of_some hj']; exact List.getElem_mem _
            obtain ⟨s3, h3, _⟩ := acquire_spec hi2 hnull hmem
            rw [h3] at hc
            simp only at hc
            split at hc <;> cases hc
          · cases hc
    · cases hc
  | swapMove i j =>
    simp only [step] at hc
    split at hc
    · split at hc
      · rename_i e hd
        injection hc with hc; subst hc
        exact hdrop i hd
      · split at hc <;> cases hc
    · cases hc


/-! ### store level: every history of context operations is a history of handle operations -/

theorem destructWhere_inv (p : Nat → Bool) (owner : List Nat) :
    ∀ (n : Nat) (h h' : HState), Inv h → S.destructWhere p owner n h = .ok h' → Inv h' := by
  intro n
  induction n with
  | zero => intro h h' hi he; simp only [S.destructWhere] at he; injection he with he; subst he; exact hi
  | succ k ih =>
    intro h h' hi he
    simp only [S.destructWhere] at he
    split at he
    · cases he
    · rename_i h1 h1eq
      have hi1 := ih h h1 hi h1eq
      split at he
      · split at he
        · exact (step_spec hi1 _ he).1
        · injection he with he; subst he; exact hi1
      · injection he with he; subst he; exact hi1

theorem sstep_inv {s s' : S.SState} (hi : Inv s.h) (op : S.SOp) (h : S.sstep s op = .ok s') : Inv s'.h := by
  cases op with
  | newCtx => simp only [S.sstep] at h; injection h with h; subst h; exact hi
  | childCtx k => simp only [S.sstep] at h; split at h <;> first | (injection h with h; subst h; exact hi) | cases h
  | construct k =>
    simp only [S.sstep] at h
    split at h
    · split at h
      · rename_i h1 he; injection h with h; subst h; exact (step_spec hi _ he).1
      · cases h
    · cases h
  | clone i k =>
    simp only [S.sstep] at h
    split at h
    · split at h
      · rename_i h1 he; injection h with h; subst h; exact (step_spec hi _ he).1
      · cases h
    · cases h
  | clear i =>
    simp only [S.sstep] at h
    split at h
    · rename_i h1 he; injection h with h; subst h; exact (step_spec hi _ he).1
    · cases h
  | give i k => simp only [S.sstep] at h; split at h <;> first | (injection h with h; subst h; exact hi) | cases h
  | release k =>
    simp only [S.sstep] at h
    split at h
    · split at h
      · rename_i h1 he; injection h with h; subst h; exact destructWhere_inv _ _ _ _ _ hi he
      · cases h
    · cases h

theorem srun_inv {ops : List S.SOp} {s s' : S.SState} (hi : Inv s.h) (h : S.srun s ops = .ok s') : Inv s'.h := by
  induction ops generalizing s with
  | nil => simp only [S.srun] at h; injection h with h; subst h; exact hi
  | cons op rest ih =>
    simp only [S.srun] at h
    split at h
    · rename_i s1 h1; exact ih (sstep_inv hi op h1) h
    · cases h

/-- **Store level.** Whatever contexts do with values holding objects (construct, `Value::clone`, `Value::_clear`,
move to another owner, runtime contexts of calls, release of a root context with everything cached under it): no object is ever destroyed twice, an object is destroyed iff no live handle shares
it, and if no handle is left every object was destroyed exactly once. -/
theorem store_destroy_exactly (ops : List S.SOp) (s : S.SState) (h : S.srun S.SState.init ops = .ok s) (o : Nat)
    (ho : o < s.h.nobj) :
    s.h.destroyed o ≤ 1 ∧ (s.h.destroyed o = 1 ↔ refs s.h o = 0) ∧ (quiescent s.h = true → s.h.destroyed o = 1) := by
  have hi : Inv s.h := srun_inv (s := S.SState.init) init_inv h
  cases hf : s.h.freed o with
  | false =>
    obtain ⟨_, h2, h3⟩ := hi.live o ho hf
    refine ⟨by omega, by constructor <;> intro h' <;> omega, ?_⟩
    intro hq
    have hm : Slot.ref o ∈ s.h.slots := List.count_pos_iff.mp h2
    simp only [quiescent, List.all_eq_true] at hq
    have := hq _ hm
    simp at this
  | true =>
    obtain ⟨h2, h3⟩ := hi.dead o ho hf
    exact ⟨by omega, by constructor <;> intro _ <;> first | exact h2 | exact h3, fun _ => h3⟩

/-- **no_leak_at_quiescence** (context level), the full statement: for EVERY history of store-level operations, once
every context has been released no handle is left, and every object the factory created has been handed back to its
module exactly once. (Until `FunctorManager::createEnv` was repaired — finding C17.createEnv_arg_throw_leaks_context,
fixed — a call whose argument raised lost its runtime context together with the parameter values already bound; the
model had an `orphan` operation for it and this statement was false: the witness `leakOps` ended with every context
released and `destroyed 0 = 0`. The context now goes back to the function's cache, no operation loses a context, and
the ownership invariant `Owned` — every handle not yet destructed belongs to a live context — holds without exception.) -/
theorem no_leak_at_quiescence_ctx (ops : List S.SOp) (s : S.SState) (h : S.srun S.SState.init ops = .ok s)
    (hr : S.allReleased s = true) : quiescent s.h = true ∧ ∀ o, o < s.h.nobj → s.h.destroyed o = 1 := by
  have hq := owned_allReleased_quiescent (srun_owned owned_init h) hr
  exact ⟨hq, fun o ho => (store_destroy_exactly ops s h o ho).2.2 hq⟩

/-- The former negation witness without its `orphan` step (the runtime context of the failing call — context 1, holding
a copy of the object in a parameter slot — stays cached under root 0), and the history in which the caller drops its
reference first: the object is destroyed by the release of the root, exactly once. -/
def failedCallOps : List S.SOp := [.newCtx, .construct 0, .childCtx 0, .clone 0 1, .clear 0, .release 0]
def twoRootsOps : List S.SOp :=
  [.newCtx, .construct 0, .newCtx, .clone 0 1, .childCtx 1, .clone 1 2, .release 0, .give 2 1, .construct 2, .release 1]

def endsWith (ops : List S.SOp) (released : Bool) (nobj : Nat) (destroyed : List Nat) : Bool :=
  match S.srun S.SState.init ops with
  | .ok s => S.allReleased s == released && s.h.nobj == nobj && (List.range nobj).map s.h.destroyed == destroyed
  | .error _ => false

example : endsWith failedCallOps true 1 [1] = true := by decide
example : endsWith twoRootsOps true 2 [1, 1] = true := by decide
/-- not vacuous the other way either: while the root is live the object held by the cached runtime context is not destroyed -/
example : endsWith (failedCallOps.take 5) false 1 [0] = true := by decide

/-! ### the hazard of the class: a moved-from handle cannot be destructed

The full statement "every well-formed sequence of the seven operations is survived" is FALSE for the code as it is:
the move constructor and `swap(Complex&&)` leave a handle with `_refcount == nullptr`, and the destructor, the copy
constructor, `operator=` and `swap(Complex&&)` dereference `_refcount` unconditionally. Witnesses (known finding
C17.moved_from_handle_null_deref; unreachable from scripts: libblocc itself only uses the copy constructor and the
destructor): -/
example : runErr [.new, .move 0, .dtor 0] = some .nullDeref := by decide
example : runErr [.new, .new, .swapMove 0 1, .dtor 1] = some .nullDeref := by decide
example : runErr [.new, .move 0, .copy 0] = some .nullDeref := by decide
example : runErr [.new, .new, .move 0, .assign 1 0] = some .nullDeref := by decide

end BlocV.Proofs.C17
