/-
  C17 — every module object is destroyed exactly once, after its last reference is gone.
  Property theorems about the handle reference counter of blocc/complex.cpp (Model/Plugin.lean, parts H and S).
  Helper lemmas: Proofs/Lemmas/Handle.lean (invariant `Inv` of the counter, ownership invariant `Owned` of the contexts).
-/
import BlocV.Model.Plugin
import BlocV.Proofs.Lemmas.Handle
import BlocV.Proofs.Lemmas.Method
import BlocV.Proofs.Lemmas.Refine
import BlocV.Model.ObjProg

set_option linter.unusedSimpArgs false
set_option linter.unusedVariables false

namespace BlocV.Proofs.C17
open BlocV.Plugin BlocV.Plugin.H BlocV.Proofs.Handle

/-- **refs_eq_live_handles.** After ANY sequence of handle operations that the class survives (no null dereference),
for every object created so far that the module has not been asked to destroy, the shared counter equals the number of
live handles referring to it, and that number is positive. -/
theorem refs_eq_live_handles (ops : List HOp) (s : HState) (h : run HState.init ops = .ok s) (o : Nat)
    (ho : o < s.nobj) (hf : s.freed o = false) : s.cnt o = (refs s o : Int) ∧ 0 < refs s o :=
  let hi := run_inv init_inv h
  ⟨(hi.live o ho hf).1, (hi.live o ho hf).2.1⟩

example : ∃ s, run HState.init [.new, .copy 0, .new, .assign 2 0, .dtor 1] = .ok s ∧ s.nobj = 2 ∧ s.freed 0 = false ∧ refs s 0 = 2 := by
  refine ⟨_, rfl, ?_⟩; decide

/-- **destroy_at_most_once** (with the exact count): the module's destructor has been called once for an object whose
counter was deleted, never for the others; so never twice. -/
theorem destroy_at_most_once (ops : List HOp) (s : HState) (h : run HState.init ops = .ok s) (o : Nat) (ho : o < s.nobj) :
    s.destroyed o ≤ 1 ∧ (s.destroyed o = 1 ↔ s.freed o = true) ∧ (s.destroyed o = 1 ↔ refs s o = 0) := by
  have hi := run_inv init_inv h
  cases hf : s.freed o with
  | false =>
    obtain ⟨_, h2, h3⟩ := hi.live o ho hf
    refine ⟨by omega, ?_, ?_⟩
    · constructor <;> intro h' <;> first | omega | cases h'
    · constructor <;> intro h' <;> omega
  | true =>
    obtain ⟨h2, h3⟩ := hi.dead o ho hf
    refine ⟨by omega, ?_, ?_⟩
    · constructor <;> intro _ <;> first | rfl | exact h3
    · constructor <;> intro _ <;> first | exact h2 | exact h3

example : ∃ s, run HState.init [.new, .copy 0, .dtor 0, .dtor 1] = .ok s ∧ s.destroyed 0 = 1 := ⟨_, rfl, by decide⟩

/-- **destroy_at_zero_only.** An operation makes the module destroy an object only if, before it, exactly one live
handle referred to the object (counter = 1), and afterwards none does. -/
theorem destroy_at_zero_only (ops : List HOp) (s s' : HState) (op : HOp) (h : run HState.init ops = .ok s)
    (hs : step s op = .ok s') (o : Nat) (ho : o < s.nobj) (hd : s'.destroyed o ≠ s.destroyed o) :
    s.cnt o = 1 ∧ refs s o = 1 ∧ refs s' o = 0 ∧ s'.destroyed o = s.destroyed o + 1 := by
  have hi := run_inv init_inv h
  obtain ⟨hi', hn, hdes⟩ := step_spec hi op hs
  rcases hdes o ho with ⟨h1, _⟩ | ⟨h1, h2, h3, h4⟩
  · exact absurd h1 hd
  · exact ⟨h2, h3, (hi'.dead o (by omega) h4).1, h1⟩

example : ∃ s s', run HState.init [.new, .copy 0, .dtor 0] = .ok s ∧ step s (.dtor 1) = .ok s' ∧ s'.destroyed 0 ≠ s.destroyed 0 :=
  ⟨_, _, rfl, rfl, by decide⟩

/-- **no_leak_at_quiescence** (handle level): once every handle that was ever constructed has been destructed, every
object the factory created has been handed back to its module exactly once. -/
theorem no_leak_at_quiescence (ops : List HOp) (s : HState) (h : run HState.init ops = .ok s)
    (hq : quiescent s = true) (o : Nat) (ho : o < s.nobj) : s.destroyed o = 1 := by
  have hi := run_inv init_inv h
  cases hf : s.freed o with
  | true => exact (hi.dead o ho hf).2
  | false =>
    have hpos := (hi.live o ho hf).2.1
    have hm : Slot.ref o ∈ s.slots := List.count_pos_iff.mp hpos
    simp only [quiescent, List.all_eq_true] at hq
    have := hq _ hm
    simp at this

example : ∃ s, run HState.init [.new, .new, .copy 0, .assign 0 1, .dtor 0, .dtor 1, .dtor 2] = .ok s ∧ quiescent s = true ∧ s.nobj = 2 :=
  ⟨_, rfl, by decide⟩

/-- The class never touches a deleted counter: the only C-level hazard of any operation sequence is the null
dereference (a malformed sequence naming a destructed handle aside). -/
theorem no_dangling_counter (ops : List HOp) (s : HState) (op : HOp) (h : run HState.init ops = .ok s) :
    step s op ≠ .error .dangling := by
  have hi := run_inv init_inv h
  have hnf : ∀ (i o : Nat), s.slots[i]? = some (Slot.ref o) → s.freed o = false := by
    intro i o hs
    have hmem : Slot.ref o ∈ s.slots := by rw [← getElem_of_some hs]; exact List.getElem_mem _
    cases hf : s.freed o with
    | false => rfl
    | true =>
      have := (hi.dead o (hi.bound o hmem) hf).1
      have h1 : 0 < refs s o := List.count_pos_iff.mpr hmem
      omega
  have hdrop : ∀ i, drop s i ≠ .error .dangling := by
    intro i hc
    unfold drop at hc
    split at hc
    · rename_i o hs
      rw [hnf i o hs] at hc
      simp only [Bool.false_eq_true, ↓reduceIte] at hc
      split at hc <;> cases hc
    · cases hc
    · cases hc
  intro hc
  cases op with
  | new => simp [step] at hc
  | move i => simp only [step] at hc; split at hc <;> cases hc
  | swap i j => simp only [step] at hc; split at hc <;> cases hc
  | copy i =>
    simp only [step] at hc
    split at hc
    · rename_i o hl
      have hs := (liveSlot_some hl).1
      unfold acquire at hc
      simp only [hnf i o hs, Bool.false_eq_true, ↓reduceIte] at hc
      cases hc
    · cases hc
    · cases hc
  | dtor i =>
    simp only [step] at hc
    split at hc
    · cases hc
    · rename_i e hd
      injection hc with hc; subst hc
      exact hdrop i hd
  | assign i j =>
    simp only [step] at hc
    split at hc
    · split at hc
      · cases hc
      · split at hc
        · rename_i e hd
          injection hc with hc; subst hc
          exact hdrop i hd
        · rename_i s1 hd
          have hsl : ∃ o, s.slots[i]? = some (.ref o) := by
            unfold drop at hd
            split at hd
            · rename_i o hs; exact ⟨o, hs⟩
            · cases hd
            · cases hd
          obtain ⟨o, hs⟩ := hsl
          obtain ⟨s2, h2, hi2, hsl2, _⟩ := drop_spec hi hs
          rw [h2] at hd; injection hd with hd; subst hd
          split at hc
          · rename_i o' hj'
            have hnull : s2.slots[i]? = some .null := by rw [hsl2]; simp [getElem?_lt hs]
            have hmem : Slot.ref o' ∈ s2.slots := by
              rw [← getElem_of_some hj']; exact List.getElem_mem _
            obtain ⟨s3, h3, _⟩ := acquire_spec hi2 hnull hmem
            rw [h3] at hc
            simp only at hc
            split at hc <;> cases hc
          · cases hc
    · cases hc
  | swapMove i j =>
    simp only [step] at hc
    split at hc
    · split at hc
      · rename_i e hd
        injection hc with hc; subst hc
        exact hdrop i hd
      · split at hc <;> cases hc
    · cases hc


/-! ### store level: every history of context operations is a history of handle operations -/

theorem destructWhere_inv (p : Nat → Bool) (owner : List Nat) :
    ∀ (n : Nat) (h h' : HState), Inv h → S.destructWhere p owner n h = .ok h' → Inv h' := by
  intro n
  induction n with
  | zero => intro h h' hi he; simp only [S.destructWhere] at he; injection he with he; subst he; exact hi
  | succ k ih =>
    intro h h' hi he
    simp only [S.destructWhere] at he
    split at he
    · cases he
    · rename_i h1 h1eq
      have hi1 := ih h h1 hi h1eq
      split at he
      · split at he
        · exact (step_spec hi1 _ he).1
        · injection he with he; subst he; exact hi1
      · injection he with he; subst he; exact hi1

theorem sstep_inv {s s' : S.SState} (hi : Inv s.h) (op : S.SOp) (h : S.sstep s op = .ok s') : Inv s'.h := by
  cases op with
  | newCtx => simp only [S.sstep] at h; injection h with h; subst h; exact hi
  | childCtx k => simp only [S.sstep] at h; split at h <;> first | (injection h with h; subst h; exact hi) | cases h
  | construct k =>
    simp only [S.sstep] at h
    split at h
    · split at h
      · rename_i h1 he; injection h with h; subst h; exact (step_spec hi _ he).1
      · cases h
    · cases h
  | clone i k =>
    simp only [S.sstep] at h
    split at h
    · split at h
      · rename_i h1 he; injection h with h; subst h; exact (step_spec hi _ he).1
      · cases h
    · cases h
  | clear i =>
    simp only [S.sstep] at h
    split at h
    · rename_i h1 he; injection h with h; subst h; exact (step_spec hi _ he).1
    · cases h
  | give i k => simp only [S.sstep] at h; split at h <;> first | (injection h with h; subst h; exact hi) | cases h
  | release k =>
    simp only [S.sstep] at h
    split at h
    · split at h
      · rename_i h1 he; injection h with h; subst h; exact destructWhere_inv _ _ _ _ _ hi he
      · cases h
    · cases h

theorem srun_inv {ops : List S.SOp} {s s' : S.SState} (hi : Inv s.h) (h : S.srun s ops = .ok s') : Inv s'.h := by
  induction ops generalizing s with
  | nil => simp only [S.srun] at h; injection h with h; subst h; exact hi
  | cons op rest ih =>
    simp only [S.srun] at h
    split at h
    · rename_i s1 h1; exact ih (sstep_inv hi op h1) h
    · cases h

/-- **Store level.** Whatever contexts do with values holding objects (construct, `Value::clone`, `Value::_clear`,
move to another owner, runtime contexts of calls, release of a root context with everything cached under it): no object is ever destroyed twice, an object is destroyed iff no live handle shares
it, and if no handle is left every object was destroyed exactly once. -/
theorem store_destroy_exactly (ops : List S.SOp) (s : S.SState) (h : S.srun S.SState.init ops = .ok s) (o : Nat)
    (ho : o < s.h.nobj) :
    s.h.destroyed o ≤ 1 ∧ (s.h.destroyed o = 1 ↔ refs s.h o = 0) ∧ (quiescent s.h = true → s.h.destroyed o = 1) := by
  have hi : Inv s.h := srun_inv (s := S.SState.init) init_inv h
  cases hf : s.h.freed o with
  | false =>
    obtain ⟨_, h2, h3⟩ := hi.live o ho hf
    refine ⟨by omega, by constructor <;> intro h' <;> omega, ?_⟩
    intro hq
    have hm : Slot.ref o ∈ s.h.slots := List.count_pos_iff.mp h2
    simp only [quiescent, List.all_eq_true] at hq
    have := hq _ hm
    simp at this
  | true =>
    obtain ⟨h2, h3⟩ := hi.dead o ho hf
    exact ⟨by omega, by constructor <;> intro _ <;> first | exact h2 | exact h3, fun _ => h3⟩

/-- **no_leak_at_quiescence** (context level), the full statement: for EVERY history of store-level operations, once
every context has been released no handle is left, and every object the factory created has been handed back to its
module exactly once. (Until `FunctorManager::createEnv` was repaired — finding C17.createEnv_arg_throw_leaks_context,
fixed — a call whose argument raised lost its runtime context together with the parameter values already bound; the
model had an `orphan` operation for it and this statement was false: the witness `leakOps` ended with every context
released and `destroyed 0 = 0`. The context now goes back to the function's cache, no operation loses a context, and
the ownership invariant `Owned` — every handle not yet destructed belongs to a live context — holds without exception.) -/
theorem no_leak_at_quiescence_ctx (ops : List S.SOp) (s : S.SState) (h : S.srun S.SState.init ops = .ok s)
    (hr : S.allReleased s = true) : quiescent s.h = true ∧ ∀ o, o < s.h.nobj → s.h.destroyed o = 1 := by
  have hq := owned_allReleased_quiescent (srun_owned owned_init h) hr
  exact ⟨hq, fun o ho => (store_destroy_exactly ops s h o ho).2.2 hq⟩

/-- The former negation witness without its `orphan` step (the runtime context of the failing call — context 1, holding
a copy of the object in a parameter slot — stays cached under root 0), and the history in which the caller drops its
reference first: the object is destroyed by the release of the root, exactly once. -/
def failedCallOps : List S.SOp := [.newCtx, .construct 0, .childCtx 0, .clone 0 1, .clear 0, .release 0]
def twoRootsOps : List S.SOp :=
  [.newCtx, .construct 0, .newCtx, .clone 0 1, .childCtx 1, .clone 1 2, .release 0, .give 2 1, .construct 2, .release 1]

def endsWith (ops : List S.SOp) (released : Bool) (nobj : Nat) (destroyed : List Nat) : Bool :=
  match S.srun S.SState.init ops with
  | .ok s => S.allReleased s == released && s.h.nobj == nobj && (List.range nobj).map s.h.destroyed == destroyed
  | .error _ => false

example : endsWith failedCallOps true 1 [1] = true := by decide
example : endsWith twoRootsOps true 2 [1, 1] = true := by decide
/-- not vacuous the other way either: while the root is live the object held by the cached runtime context is not destroyed -/
example : endsWith (failedCallOps.take 5) false 1 [0] = true := by decide


/-! ### modules, receiver check, arguments, constructor failures (part M of the model) -/
section PartM
open BlocV.Plugin.M BlocV.Proofs.Method

/-- **method_on_live_matching_object.** After ANY history of module-level operations (constructions of objects of any
modules, failing constructors, every store-level operation — copies, clears, moves, calls' runtime contexts, release of
contexts —, method calls compiled for any module on any value), every execution of a method the modules have seen was
on an object that had been created and not yet destroyed at that moment (the `pos` events before it contain its
`create` and no `destroy`), and the object belongs to the module whose method it is. The receiver check of
`MemberMETHODExpression::value` is `mstep … (.method …)`: `receiver_check` below says what it does. -/
theorem method_on_live_matching_object (ops : List MOp) (s : MState) (h : mrun MState.init ops = .ok s)
    (c : Call) (hc : c ∈ s.calls) :
    c.pos ≤ s.s.h.log.length ∧ Ev.create c.o ∈ s.s.h.log.take c.pos ∧ Ev.destroy c.o ∉ s.s.h.log.take c.pos ∧
    s.modOf[c.o]? = some c.m :=
  (mrun_inv minv_init h).calls c hc

/-- a history in which a method of module 1 is tried on an object of module 0 (refused), a method of module 0 runs on
it, the object is destroyed and a later object of module 1 gets its call -/
def methOps : List MOp :=
  [.store .newCtx, .construct 0 0, .method 0 1 "id" [], .method 0 0 "id" [], .store (.clone 0 0), .store (.clear 0),
   .method 1 0 "peer" ["O:vmod#1"], .store (.clear 1), .constructFail 0 1, .construct 0 1, .method 2 1 "id" [], .store (.release 0)]

example : ∃ s, mrun MState.init methOps = .ok s ∧
    s.calls = [⟨0, 0, 1, "id", []⟩, ⟨0, 0, 1, "peer", ["O:vmod#1"]⟩, ⟨1, 1, 3, "id", []⟩] ∧ s.refused = 1 ∧ s.failed = 1 ∧
    s.modOf = [0, 1] := ⟨_, rfl, by decide⟩

/-- **The receiver check** (member_complex.cpp:56-60): on a value holding a live handle of object `o`, a method compiled
for module `m` is executed iff `o` was created by module `m`; otherwise the module is not called at all (the script gets
the run-time error `EXC_RT_BAD_COMPLEX_S`). In both cases no handle, counter or context changes. -/
theorem receiver_check (s : MState) (i m : Nat) (name : String) (args : List String) (o : Nat)
    (hu : s.unloaded = false) (hl : liveSlot s.s.h i = some (.ref o)) :
    (s.modOf[o]? = some m → mstep s (.method i m name args) = .ok { s with calls := s.calls ++ [⟨o, m, s.s.h.log.length, name, args⟩] }) ∧
    (s.modOf[o]? ≠ some m → mstep s (.method i m name args) = .ok { s with refused := s.refused + 1 }) := by
  constructor
  · intro hm; simp [mstep, mstepLoaded, hu, hl, hm]
  · intro hm; simp [mstep, mstepLoaded, hu, hl, hm]

example : ∃ s, mrun MState.init (methOps.take 2) = .ok s ∧ s.unloaded = false ∧ liveSlot s.s.h 0 = some (.ref 0) ∧ s.modOf[0]? ≠ some 1 :=
  ⟨_, rfl, by decide⟩

/-- **args_passed_verbatim.** One method-call expression of the script makes the module see at most one call, and that
call carries exactly the method name and the argument list of the expression, on exactly the object the receiver value
holds; nothing else changes (a method call by itself creates and destroys nothing). -/
theorem args_passed_verbatim (s s' : MState) (i m : Nat) (name : String) (args : List String)
    (hu : s.unloaded = false) (h : mstep s (.method i m name args) = .ok s') :
    s'.s = s.s ∧ s'.modOf = s.modOf ∧
    ((s'.calls = s.calls ∧ s'.refused = s.refused + 1) ∨
     (∃ o, liveSlot s.s.h i = some (.ref o) ∧ s'.calls = s.calls ++ [⟨o, m, s.s.h.log.length, name, args⟩] ∧ s'.refused = s.refused)) := by
  unfold mstep at h
  rw [hu] at h
  simp only [Bool.false_eq_true, ↓reduceIte, mstepLoaded] at h
  split at h
  · rename_i o hl
    split at h
    · injection h with h; subst h
      exact ⟨rfl, rfl, Or.inr ⟨o, hl, rfl, rfl⟩⟩
    · injection h with h; subst h
      exact ⟨rfl, rfl, Or.inl ⟨rfl, rfl⟩⟩
  · cases h
  · cases h

example : ∃ s s', mrun MState.init (methOps.take 6) = .ok s ∧ s.unloaded = false ∧ mstep s (.method 1 0 "peer" ["O:vmod#1"]) = .ok s' ∧
    s'.calls = s.calls ++ [⟨0, 0, 1, "peer", ["O:vmod#1"]⟩] := ⟨_, _, rfl, rfl, rfl, by decide⟩

/-- the constructor calls of a history that produced an object / that failed -/
def ctorOk : MOp → Bool
  | .construct _ _ => true
  | _ => false
def ctorFailed : MOp → Bool
  | .constructFail _ _ => true
  | _ => false

def isDeinit : MOp → Bool
  | .deinit => true
  | _ => false

/-- while the modules stay loaded (no `deinit` in the history) the objects are exactly the successful constructor calls -/
theorem mrun_counts {ops : List MOp} {s s' : MState} (hm : MInv s) (hu : s.unloaded = false)
    (hnd : ∀ op ∈ ops, isDeinit op = false) (h : mrun s ops = .ok s') :
    s'.s.h.nobj = s.s.h.nobj + (ops.filter ctorOk).length ∧ s'.failed = s.failed + (ops.filter ctorFailed).length ∧
    s'.unloaded = false := by
  induction ops generalizing s with
  | nil => simp only [mrun] at h; injection h with h; subst h; simp [hu]
  | cons op rest ih =>
    simp only [mrun] at h
    split at h
    · rename_i s1 h1
      have hm1 := mstep_inv hm op h1
      unfold mstep at h1
      rw [hu] at h1
      simp only [Bool.false_eq_true, ↓reduceIte] at h1
      have hstep : s1.s.h.nobj = s.s.h.nobj + (if ctorOk op then 1 else 0) ∧ s1.failed = s.failed + (if ctorFailed op then 1 else 0) ∧
          s1.unloaded = false := by
        cases op with
        | deinit => have := hnd .deinit (List.mem_cons_self ..); simp [isDeinit] at this
        | store op =>
          simp only [mstepLoaded] at h1
          split at h1
          · cases h1
          · rename_i hnc
            split at h1
            · rename_i s2 hs; injection h1 with h1; subst h1
              have := (sstep_log hm.inv hm.log op (by simpa using hnc) hs).2.2.nobj
              simp [ctorOk, ctorFailed, this, hu]
            · cases h1
        | construct k m =>
          simp only [mstepLoaded] at h1
          split at h1
          · rename_i s2 hs; injection h1 with h1; subst h1
            have := (construct_log hm.inv hm.log hs).2.2.2
            simp [ctorOk, ctorFailed, this, hu]
          · cases h1
        | constructFail k m =>
          simp only [mstepLoaded] at h1
          split at h1
          · injection h1 with h1; subst h1; simp [ctorOk, ctorFailed, hu]
          · cases h1
        | method i m name args =>
          simp only [mstepLoaded] at h1
          split at h1
          · split at h1 <;> (injection h1 with h1; subst h1; simp [ctorOk, ctorFailed, hu])
          · cases h1
          · cases h1
      obtain ⟨a, b, c⟩ := ih hm1 hstep.2.2 (fun o ho => hnd o (List.mem_cons_of_mem _ ho)) h
      simp only [List.filter_cons]
      refine ⟨?_, ?_, c⟩
      · rw [a, hstep.1]; split <;> simp <;> omega
      · rw [b, hstep.2.1]; split <;> simp <;> omega
    · cases h

/-- **destroy_iff_created.** For every history: an object exists exactly for every constructor call that SUCCEEDED — a
constructor that returns nothing or raises creates no object, has no handle and will never meet the destructor
(`failed` only counts it; exact while the modules stay loaded: after `bloc_deinit_plugins` EVERY constructor call fails); the
module's destructor is called only for objects that were created, at most once each;
and once every context is released, exactly once for each: the `create` and `destroy` events of the log pair up. -/
theorem destroy_iff_created (ops : List MOp) (s : MState) (h : mrun MState.init ops = .ok s) :
    ((∀ op ∈ ops, isDeinit op = false) → s.s.h.nobj = (ops.filter ctorOk).length ∧ s.failed = (ops.filter ctorFailed).length) ∧
    (∀ o, Ev.create o ∈ s.s.h.log ↔ o < s.s.h.nobj) ∧
    (∀ o, Ev.destroy o ∈ s.s.h.log → Ev.create o ∈ s.s.h.log) ∧
    (∀ o, s.s.h.log.count (Ev.destroy o) ≤ 1) ∧
    (S.allReleased s.s = true → ∀ o, Ev.create o ∈ s.s.h.log → s.s.h.log.count (Ev.destroy o) = 1) := by
  have hm := mrun_inv minv_init h
  obtain ⟨sops, hs⟩ : ∃ sops, S.srun S.SState.init sops = .ok s.s := mrun_srun h
  refine ⟨fun hnd => by
            have hc := mrun_counts minv_init rfl hnd h
            exact ⟨by simpa [MState.init, S.SState.init, HState.init] using hc.1, by simpa [MState.init] using hc.2.1⟩,
          fun o => ⟨hm.log.createdOnly o, hm.log.created o⟩,
          fun o hd => hm.log.created o (hm.log.destroyed o hd).2, ?_, ?_⟩
  · intro o
    by_cases ho : o < s.s.h.nobj
    · rw [hm.log.destroyCount o ho]; exact (store_destroy_exactly _ _ hs o ho).1
    · have : s.s.h.log.count (Ev.destroy o) = 0 := by
        apply List.count_eq_zero.mpr
        intro hd; exact ho (hm.log.destroyed o hd).2
      omega
  · intro hr o hcre
    have ho := hm.log.createdOnly o hcre
    rw [hm.log.destroyCount o ho]
    exact (no_leak_at_quiescence_ctx _ _ hs hr).2 o ho

example : ∃ s, mrun MState.init methOps = .ok s ∧ S.allReleased s.s = true ∧ s.s.h.nobj = 2 ∧ s.failed = 1 ∧
    s.s.h.log = [.create 0, .destroy 0, .create 1, .destroy 1] := ⟨_, rfl, by decide⟩

/-! #### `bloc_deinit_plugins` -/

/-- **deinit_after_release_safe.** Once no handle is left (every context that held objects was released — the use the
header documents: "call it on program exit"), unloading the modules is harmless: whatever the host and old executables
do afterwards, no operation calls through the deleted module instance, and no handle ever appears again (every
constructor call fails). -/
theorem deinit_after_release_safe (s : MState) (hq : quiescent s.s.h = true) (hu : s.unloaded = true) (ops : List MOp) :
    mrun s ops ≠ .error .nullDeref ∧ ∀ s', mrun s ops = .ok s' → quiescent s'.s.h = true ∧ s'.unloaded = true :=
  mrun_unloaded_quiescent hq hu ops

/-- … and the full statement "unloading is always harmless" is FALSE for the code: with an object still referenced,
the release that follows calls `destroyObject` through a null module instance (finding
C17.deinit_with_live_objects_null_call; the same four steps crash the library: probe case `dq3`, UBSan member call on
null pointer). The documented order is fine. -/
def mrunErr (ops : List MOp) : Option HErr :=
  match mrun MState.init ops with
  | .error e => some e
  | .ok _ => none

example : mrunErr [.store .newCtx, .construct 0 0, .deinit, .store (.release 0)] = some .nullDeref := by decide
example : mrunErr [.store .newCtx, .construct 0 0, .deinit, .method 0 0 "id" []] = some .nullDeref := by decide
example : mrunErr [.store .newCtx, .construct 0 0, .store (.release 0), .deinit] = none := by decide
example : ∃ s, mrun MState.init [.store .newCtx, .construct 0 0, .store (.release 0), .deinit, .store .newCtx, .construct 1 0] = .ok s ∧
    quiescent s.s.h = true ∧ s.unloaded = true ∧ s.failed = 1 ∧ s.s.h.log = [.create 0, .destroy 0] := ⟨_, rfl, by decide⟩

end PartM


/-! ### the program level refines the store level -/
section Refinement
open BlocV.ObjProg BlocV.Proofs.Refine

/-- **objprog_refines_store.** Whatever one instruction of the object language (Model/ObjProg.lean: constructor, copy,
typed null, `self`, `spawn`, `id`, `peer`, table construction / `put` / `at`, temporary, call, call whose argument
raises, return, raise, begin…exception, loop — with every nesting and every call depth `fuel` allows), a block, a loop
or a call does to the store, it does through a SEQUENCE OF STORE-LEVEL OPERATIONS: there is a list of `SOp`s that takes
the store before to the store after. Also on every error exit (run-time error, uncaught exception, argument that
raises, model hazard). So every theorem about ALL `SOp` histories is a theorem about all programs. (Before: "by
construction".) -/
theorem objprog_refines_store (funcs : List Func) (root fuel : Nat) :
    (∀ ins st fr, ∃ ops, S.srun st.s ops = .ok (exec funcs root fuel ins st fr).1.s) ∧
    (∀ is st fr, ∃ ops, S.srun st.s ops = .ok (execList funcs root fuel is st fr).1.s) ∧
    (∀ n body st fr, ∃ ops, S.srun st.s ops = .ok (execLoop funcs root fuel n body st fr).1.s) ∧
    (∀ x f args thr st fr, ∃ ops, S.srun st.s ops = .ok (doCall funcs root fuel x f args thr st fr).1.s) :=
  exec_refines funcs root fuel

/-- a program on which the statement is not trivial: an object, a copy, a call that returns its parameter, a temporary —
the store after it is reached by store-level operations and holds 2 objects -/
def demoFuncs : List Func := [⟨"H", 1, [.ret "P1"]⟩]
def demoProg : List Instr := [.new "A" 1, .cp "B" "A", .call "C" "H" ["A"], .tmp 3]
def demoSt : St := { s := { S.SState.init with ctxs := [.live], root := [0] }, evs := [], cache := [] }

/- (Concrete runs of `exec` are not evaluated here by `decide`: the event strings make kernel evaluation of a whole
program very slow. The compiled model runs 500+ generated programs per check run against the library: driver command `obj`.) -/
example : ∃ ops, S.srun demoSt.s ops = .ok (execList demoFuncs 0 8 demoProg demoSt ⟨0, []⟩).1.s :=
  (objprog_refines_store demoFuncs 0 8).2.1 demoProg demoSt ⟨0, []⟩

/-- **Program-level lifetime theorem** (corollary of the refinement and of `store_destroy_exactly` /
`no_leak_at_quiescence_ctx`): start from any store the host can have produced, run ANY program, then let the host do
anything (run more programs, clone, purge, free: any `SOp`s). No object is ever destroyed twice, an object is destroyed
iff no live handle shares it, and once every context is released every object ever created — by this program, before
it or after it — has been handed to its module's destructor exactly once. -/
theorem objprog_lifetime (funcs : List Func) (root fuel : Nat) (prog : List Instr) (st : St) (fr : Frame)
    (pre post : List S.SOp) (hpre : S.srun S.SState.init pre = .ok st.s) (s : S.SState)
    (hpost : S.srun (execList funcs root fuel prog st fr).1.s post = .ok s) (o : Nat) (ho : o < s.h.nobj) :
    s.h.destroyed o ≤ 1 ∧ (s.h.destroyed o = 1 ↔ refs s.h o = 0) ∧ (S.allReleased s = true → s.h.destroyed o = 1) := by
  obtain ⟨mid, hmid⟩ := (exec_refines funcs root fuel).2.1 prog st fr
  have hall : S.srun S.SState.init (pre ++ (mid ++ post)) = .ok s :=
    BlocV.Proofs.Method.srun_append hpre (BlocV.Proofs.Method.srun_append hmid hpost)
  have h1 := store_destroy_exactly _ s hall o ho
  exact ⟨h1.1, h1.2.1, fun hr => (no_leak_at_quiescence_ctx _ s hall hr).2 o ho⟩

/-- the hypotheses are satisfiable: `demoSt` is what `newCtx` makes of the empty store; any program; no further host step -/
example : ∃ s, S.srun (execList demoFuncs 0 8 demoProg demoSt ⟨0, []⟩).1.s [] = .ok s := ⟨_, rfl⟩
example : S.srun S.SState.init [.newCtx] = .ok demoSt.s := rfl

/-- **Method events of the object language are on live objects.** Every instruction of Model/ObjProg.lean that emits a
method event (`id`, `peer`, `self`, `spawn`, `fall`, `tmp`, `mthrow`, the failing argument of `callThrow`) does so under
the guard `objOf st h = some o` on the handle `h` the receiver value holds. In any store a host and programs can have
produced (`pre` is any `SOp` history; by `objprog_refines_store` every state inside a program is such a store) the guard
means: `o` was created, its counter has not been deleted, the module has not been asked to destroy it, and at least the
receiver's own handle shares it. (All objects of the object language belong to the one module `vmod`; the two-module
receiver check is `method_on_live_matching_object` / `receiver_check` on part M.) -/
theorem objprog_method_receiver_live (pre : List S.SOp) (st : St) (hpre : S.srun S.SState.init pre = .ok st.s)
    (h o : Nat) (hg : objOf st h = some o) :
    o < st.s.h.nobj ∧ st.s.h.freed o = false ∧ st.s.h.destroyed o = 0 ∧ 0 < refs st.s.h o := by
  have hi : Inv st.s.h := srun_inv (s := S.SState.init) init_inv hpre
  unfold objOf at hg
  split at hg
  · rename_i o' hs
    injection hg with hg; subst hg
    have hmem : Slot.ref o' ∈ st.s.h.slots := by rw [← getElem_of_some hs]; exact List.getElem_mem _
    have hb := hi.bound o' hmem
    have hpos : 0 < refs st.s.h o' := List.count_pos_iff.mpr hmem
    cases hf : st.s.h.freed o' with
    | false => exact ⟨hb, rfl, (hi.live o' hb hf).2.2, hpos⟩
    | true => have := (hi.dead o' hb hf).1; omega
  · cases hg

example : ∃ st : St, S.srun S.SState.init [.newCtx, .construct 0] = .ok st.s ∧ objOf st 0 = some 0 :=
  ⟨{ s := _, evs := [], cache := [] }, rfl, by decide⟩

/-- the returned-value slot of a context (`Context::saveReturned` / `dropReturned`, a host that runs `return X` programs
again and again without taking the value): replacing or dropping the kept value is a sequence of store operations too,
so `objprog_lifetime` covers hosts that never call `bloc_drop_returned` -/
theorem returned_slot_refines_store (st st' : St) (old r : Option V) (v : V) :
    (saveReturned st old v = .ok (st', r) → ∃ ops, S.srun st.s ops = .ok st'.s) ∧
    (dropReturned st old = .ok (st', r) → ∃ ops, S.srun st.s ops = .ok st'.s) :=
  ⟨saveReturned_reach, dropReturned_reach⟩

example : saveReturned demoSt none .null = .ok (demoSt, some .null) := rfl

end Refinement

/-! ### the hazard of the class: a moved-from handle cannot be destructed

The full statement "every well-formed sequence of the seven operations is survived" is FALSE for the code as it is:
the move constructor and `swap(Complex&&)` leave a handle with `_refcount == nullptr`, and the destructor, the copy
constructor, `operator=` and `swap(Complex&&)` dereference `_refcount` unconditionally. Witnesses (known finding
C17.moved_from_handle_null_deref; unreachable from scripts: libblocc itself only uses the copy constructor and the
destructor): -/
example : runErr [.new, .move 0, .dtor 0] = some .nullDeref := by decide
example : runErr [.new, .new, .swapMove 0 1, .dtor 1] = some .nullDeref := by decide
example : runErr [.new, .move 0, .copy 0] = some .nullDeref := by decide
example : runErr [.new, .new, .move 0, .assign 1 0] = some .nullDeref := by decide

end BlocV.Proofs.C17
