/-
  C04 — null obeys three-valued logic regardless of how the null was produced.

  Property theorems only. Model: `opBand/opBior/opBxor/evalUn .bnot` and the six relational
  operators of BlocV/Model/Ops.lean (transcriptions of op_band/bior/bxor/bnot/eq/ne/lt/le/gt/ge.cpp).
  Spec: Kleene's tables (BlocV/Spec/Kleene.lean).

  "How the null was produced" is, at the level of values, the *type carried by the null*: the
  untyped constant `null` has major NO_TYPE; `bool()`, a null boolean variable, a null returned by a
  function declared boolean and a null table element are nulls of type boolean. The theorems
  quantify over both (and over the unused `minor` field). That the storage cell holding the operand
  (constant node, variable slot, temporary, table element) does not matter either is C05's frame
  theorem; the statement-level clause (null condition takes the false branch) is `cond_null_false`.
-/
import BlocV.Model.Ops
import BlocV.Spec.Kleene
import BlocV.Proofs.Lemmas.Interp

namespace BlocV.C04
open BlocV BlocV.Spec

/-- Abstraction of a model value to a truth value: defined on booleans and on nulls of any type. -/
def absK : Val → Option K
  | .bool true => some .t
  | .bool false => some .f
  | .null _ => some .n
  | _ => none

/-- The operand classes the parser lets through to a logical operator (`assertType(…, BOOLEAN)`):
level 0, boolean or untyped, null or not. -/
def LogicOperand (v : Val) : Prop :=
  v.type.level = 0 ∧ (v.type.major = .bool ∨ v.type.major = .none) ∧ (absK v).isSome

def resK : Res Val → Option K
  | .ok v => absK v
  | _ => none

/-- Every logic operand is an untyped null, a boolean-typed null, true or false. -/
theorem logicOperand_cases (v : Val) (h : LogicOperand v) :
    (∃ mi, v = .null { major := .none, minor := mi, level := 0 }) ∨
    (∃ mi, v = .null { major := .bool, minor := mi, level := 0 }) ∨ v = .bool true ∨ v = .bool false := by
  obtain ⟨h1, h2, h3⟩ := h
  cases v with
  | null t =>
    obtain ⟨m, mi, lv⟩ := t
    simp [Val.type] at h1 h2
    subst h1
    rcases h2 with rfl | rfl
    · right; left; exact ⟨mi, rfl⟩
    · left; exact ⟨mi, rfl⟩
  | bool b => cases b <;> simp
  | _ => simp [absK] at h3

/-! ### AND, OR, XOR, NOT follow Kleene's tables for every operand, typed or untyped null alike -/

theorem and_kleene (a b : Val) (ha : LogicOperand a) (hb : LogicOperand b) :
    resK (evalBin .band a b) = (do let x ← absK a; let y ← absK b; pure (K.and x y)) := by
  rcases logicOperand_cases a ha with ⟨m, rfl⟩ | ⟨m, rfl⟩ | rfl | rfl <;>
  rcases logicOperand_cases b hb with ⟨n, rfl⟩ | ⟨n, rfl⟩ | rfl | rfl <;> rfl

theorem or_kleene (a b : Val) (ha : LogicOperand a) (hb : LogicOperand b) :
    resK (evalBin .bior a b) = (do let x ← absK a; let y ← absK b; pure (K.or x y)) := by
  rcases logicOperand_cases a ha with ⟨m, rfl⟩ | ⟨m, rfl⟩ | rfl | rfl <;>
  rcases logicOperand_cases b hb with ⟨n, rfl⟩ | ⟨n, rfl⟩ | rfl | rfl <;> rfl

theorem xor_kleene (a b : Val) (ha : LogicOperand a) (hb : LogicOperand b) :
    resK (evalBin .bxor a b) = (do let x ← absK a; let y ← absK b; pure (K.xor x y)) := by
  rcases logicOperand_cases a ha with ⟨m, rfl⟩ | ⟨m, rfl⟩ | rfl | rfl <;>
  rcases logicOperand_cases b hb with ⟨n, rfl⟩ | ⟨n, rfl⟩ | rfl | rfl <;> rfl

theorem not_kleene (a : Val) (ha : LogicOperand a) :
    resK (evalUn .bnot a) = (absK a).map K.not := by
  rcases logicOperand_cases a ha with ⟨m, rfl⟩ | ⟨m, rfl⟩ | rfl | rfl <;> rfl

/-- The logical operators are symmetric in their operands (as truth values). -/
theorem logic_symmetric (a b : Val) (ha : LogicOperand a) (hb : LogicOperand b) :
    resK (evalBin .band a b) = resK (evalBin .band b a) ∧
    resK (evalBin .bior a b) = resK (evalBin .bior b a) ∧
    resK (evalBin .bxor a b) = resK (evalBin .bxor b a) := by
  rcases logicOperand_cases a ha with ⟨m, rfl⟩ | ⟨m, rfl⟩ | rfl | rfl <;>
  rcases logicOperand_cases b hb with ⟨n, rfl⟩ | ⟨n, rfl⟩ | rfl | rfl <;> exact ⟨rfl, rfl, rfl⟩

/-- Provenance independence: the truth value of the result depends only on the truth values of the
operands, not on the type carried by a null. -/
theorem logic_provenance_independent (op : BinOp) (hop : op = .band ∨ op = .bior ∨ op = .bxor)
    (a a' b b' : Val) (ha : LogicOperand a) (ha' : LogicOperand a') (hb : LogicOperand b) (hb' : LogicOperand b')
    (ea : absK a = absK a') (eb : absK b = absK b') :
    resK (evalBin op a b) = resK (evalBin op a' b') := by
  rcases hop with rfl | rfl | rfl
  · rw [and_kleene a b ha hb, and_kleene a' b' ha' hb', ea, eb]
  · rw [or_kleene a b ha hb, or_kleene a' b' ha' hb', ea, eb]
  · rw [xor_kleene a b ha hb, xor_kleene a' b' ha' hb', ea, eb]

example : LogicOperand (.null Ty.bool) ∧ LogicOperand (.null Ty.none) ∧ LogicOperand (.bool false) := by
  refine ⟨⟨rfl, Or.inl rfl, rfl⟩, ⟨rfl, Or.inr rfl, rfl⟩, ⟨rfl, Or.inl rfl, rfl⟩⟩
example : resK (evalBin .bior (.null Ty.bool) (.bool false)) = some .n := rfl
example : resK (evalBin .bior (.null Ty.none) (.bool true)) = some .t := rfl

/-- Short circuit: `false and X`, `true or X` do not evaluate `X` (whatever it would do). -/
theorem short_circuit (x : Unit → Res Val) :
    opBand (.bool false) x = .ok (.bool false) ∧ opBior (.bool true) x = .ok (.bool true) := ⟨rfl, rfl⟩

/-! ### every relational operator returns null when either operand is null — for ALL values -/

theorem rel_null_strict (op : BinOp) (hop : op = .eq ∨ op = .ne ∨ op = .lt ∨ op = .le ∨ op = .gt ∨ op = .ge)
    (a b : Val) (same : Bool) (hn : a.isNull = true ∨ b.isNull = true) :
    evalBin op a b same = .ok (.null Ty.bool) := by
  have h : (a.isNull || b.isNull) = true := by
    rcases hn with h | h <;> simp [h]
  rcases hop with rfl | rfl | rfl | rfl | rfl | rfl <;>
    simp [evalBin, opEq, opNe, opLt, opLe, opGt, opGe, ordered, h]

example : evalBin .lt (.null Ty.none) (.int 3) = .ok (.null Ty.bool) := rfl
example : evalBin .eq (.str [0x61]) (.null Ty.str) = .ok (.null Ty.bool) := rfl

/-! ### a null or false condition takes the false branch of if / while -/

theorem cond_null_false (v : Val) (h : LogicOperand v) :
    condTaken v = .ok ((absK v).elim false K.cond) := by
  rcases logicOperand_cases v h with ⟨m, rfl⟩ | ⟨m, rfl⟩ | rfl | rfl <;> rfl


/-! ### statement level (Model/Interp.lean: `execIf`, `whileLoop`, `eval` of a literal) -/

/-- **A null condition takes the false branch of `if` / `elsif`** — for EVERY null value, whatever its type (untyped constant, `bool()`,
`num()`, a null table, …) and wherever the condition expression got it from: the guarded statements do not run and the next rule is
tried, from the state the evaluation of the condition left (IFStatement::doit). -/
theorem if_null_condition_takes_false_branch (funcs : List Func) (depth fuel : Nat) (c : Expr) (body : List Stmt)
    (rest : List (Option Expr × List Stmt)) (s s1 : St) (v : Val)
    (hc : eval funcs depth fuel c s = (.ok v, s1)) (hn : v.isNull = true) :
    execIf funcs depth (fuel + 1) ((some c, body) :: rest) s = execIf funcs depth fuel rest s1 := by
  have ht : condTaken v = .ok false := by unfold condTaken; simp [hn]
  simp only [execIf, Lemmas.bind_app, hc, Lemmas.liftM_app, ht, Bool.false_eq_true, if_false, Lemmas.evalM_ite_app]

/-- A `false` condition likewise; a `true` one runs the guarded statements and no later rule. -/
theorem if_bool_condition (funcs : List Func) (depth fuel : Nat) (c : Expr) (body : List Stmt)
    (rest : List (Option Expr × List Stmt)) (s s1 : St) (b : Bool)
    (hc : eval funcs depth fuel c s = (.ok (.bool b), s1)) :
    execIf funcs depth (fuel + 1) ((some c, body) :: rest) s =
      if b then execList funcs depth fuel body s1 else execIf funcs depth fuel rest s1 := by
  have ht : condTaken (.bool b) = .ok b := by cases b <;> rfl
  simp only [execIf, Lemmas.bind_app, hc, Lemmas.liftM_app, ht, Lemmas.evalM_ite_app]

/-- **A null condition ends a `while` loop** (the body does not run), for every null value of any type (WHILEStatement::doit). -/
theorem while_null_condition_ends (cond : EvalM Val) (body : EvalM Flow) (k : Nat) (s s1 : St) (v : Val)
    (hc : cond s = (.ok v, s1)) (hn : v.isNull = true) :
    whileLoop cond body (k + 1) s = (.ok .norm, s1) := by
  unfold whileLoop
  simp only [Lemmas.bind_app, hc, Lemmas.liftM_app, hn, if_true, Lemmas.pure_app, Bool.not_false, Lemmas.evalM_ite_app]

/-- **Evaluating an expression never changes what the literal `null` means** (model level): a literal evaluates to its own value in
every state — in particular `null` is the untyped null before and after any other evaluation `e` — and leaves the state alone. (That the
C++ constant cell is not overwritten is the flag discipline of C05; the pinned build's witness `x = null or (i==1)` in a loop is recorded there.) -/
theorem null_literal_stable (funcs : List Func) (depth fuel : Nat) (e : Expr) (s : St) :
    eval funcs depth (fuel + 1) (.lit (.null Ty.none)) s = (.ok (.null Ty.none), s) ∧
    eval funcs depth (fuel + 1) (.lit (.null Ty.none)) (eval funcs depth fuel e s).2 =
      (.ok (.null Ty.none), (eval funcs depth fuel e s).2) :=
  ⟨Lemmas.eval_lit .., Lemmas.eval_lit ..⟩

/-- `if num() then print "T"; elsif null then print "N"; else print "E"; end if;` prints E; `while int() loop … end loop` runs zero times -/
example : (execList [] 0 10 [.ifS [(some (.lit (.null Ty.num)), [.printS [.lit (.str [84])]]), (some (.lit (.null Ty.none)), [.printS [.lit (.str [78])]]),
      (none, [.printS [.lit (.str [69])]])], .whileS (.lit (.null Ty.int)) [.printS [.lit (.str [87])]]] {}).2.out = [[10], [69]] := by decide +kernel

end BlocV.C04
