/-
  C04 — null obeys three-valued logic regardless of how the null was produced.

  Property theorems only. Model: `opBand/opBior/opBxor/evalUn .bnot` and the six relational
  operators of BlocV/Model/Ops.lean (transcriptions of op_band/bior/bxor/bnot/eq/ne/lt/le/gt/ge.cpp).
  Spec: Kleene's tables (BlocV/Spec/Kleene.lean).

  "How the null was produced" is, at the level of values, the *type carried by the null*: the
  untyped constant `null` has major NO_TYPE; `bool()`, a null boolean variable, a null returned by a
  function declared boolean and a null table element are nulls of type boolean. The theorems
  quantify over both (and over the unused `minor` field). That the storage cell holding the operand
  (constant node, variable slot, temporary, table element) does not matter either is C05's frame
  theorem; the statement-level clause (null condition takes the false branch) is `cond_null_false`.
-/
import BlocV.Model.Ops
import BlocV.Spec.Kleene

namespace BlocV.C04
open BlocV BlocV.Spec

/-- Abstraction of a model value to a truth value: defined on booleans and on nulls of any type. -/
def absK : Val → Option K
  | .bool true => some .t
  | .bool false => some .f
  | .null _ => some .n
  | _ => none

/-- The operand classes the parser lets through to a logical operator (`assertType(…, BOOLEAN)`):
level 0, boolean or untyped, null or not. -/
def LogicOperand (v : Val) : Prop :=
  v.type.level = 0 ∧ (v.type.major = .bool ∨ v.type.major = .none) ∧ (absK v).isSome

def resK : Res Val → Option K
  | .ok v => absK v
  | _ => none

/-- Every logic operand is an untyped null, a boolean-typed null, true or false. -/
theorem logicOperand_cases (v : Val) (h : LogicOperand v) :
    (∃ mi, v = .null { major := .none, minor := mi, level := 0 }) ∨
    (∃ mi, v = .null { major := .bool, minor := mi, level := 0 }) ∨ v = .bool true ∨ v = .bool false := by
  obtain ⟨h1, h2, h3⟩ := h
  cases v with
  | null t =>
    obtain ⟨m, mi, lv⟩ := t
    simp [Val.type] at h1 h2
    subst h1
    rcases h2 with rfl | rfl
    · right; left; exact ⟨mi, rfl⟩
    · left; exact ⟨mi, rfl⟩
  | bool b => cases b <;> simp
  | _ => simp [absK] at h3

/-! ### AND, OR, XOR, NOT follow Kleene's tables for every operand, typed or untyped null alike -/

theorem and_kleene (a b : Val) (ha : LogicOperand a) (hb : LogicOperand b) :
    resK (evalBin .band a b) = (do let x ← absK a; let y ← absK b; pure (K.and x y)) := by
  rcases logicOperand_cases a ha with ⟨m, rfl⟩ | ⟨m, rfl⟩ | rfl | rfl <;>
  rcases logicOperand_cases b hb with ⟨n, rfl⟩ | ⟨n, rfl⟩ | rfl | rfl <;> rfl

theorem or_kleene (a b : Val) (ha : LogicOperand a) (hb : LogicOperand b) :
    resK (evalBin .bior a b) = (do let x ← absK a; let y ← absK b; pure (K.or x y)) := by
  rcases logicOperand_cases a ha with ⟨m, rfl⟩ | ⟨m, rfl⟩ | rfl | rfl <;>
  rcases logicOperand_cases b hb with ⟨n, rfl⟩ | ⟨n, rfl⟩ | rfl | rfl <;> rfl

theorem xor_kleene (a b : Val) (ha : LogicOperand a) (hb : LogicOperand b) :
    resK (evalBin .bxor a b) = (do let x ← absK a; let y ← absK b; pure (K.xor x y)) := by
  rcases logicOperand_cases a ha with ⟨m, rfl⟩ | ⟨m, rfl⟩ | rfl | rfl <;>
  rcases logicOperand_cases b hb with ⟨n, rfl⟩ | ⟨n, rfl⟩ | rfl | rfl <;> rfl

theorem not_kleene (a : Val) (ha : LogicOperand a) :
    resK (evalUn .bnot a) = (absK a).map K.not := by
  rcases logicOperand_cases a ha with ⟨m, rfl⟩ | ⟨m, rfl⟩ | rfl | rfl <;> rfl

/-- The logical operators are symmetric in their operands (as truth values). -/
theorem logic_symmetric (a b : Val) (ha : LogicOperand a) (hb : LogicOperand b) :
    resK (evalBin .band a b) = resK (evalBin .band b a) ∧
    resK (evalBin .bior a b) = resK (evalBin .bior b a) ∧
    resK (evalBin .bxor a b) = resK (evalBin .bxor b a) := by
  rcases logicOperand_cases a ha with ⟨m, rfl⟩ | ⟨m, rfl⟩ | rfl | rfl <;>
  rcases logicOperand_cases b hb with ⟨n, rfl⟩ | ⟨n, rfl⟩ | rfl | rfl <;> exact ⟨rfl, rfl, rfl⟩

/-- Provenance independence: the truth value of the result depends only on the truth values of the
operands, not on the type carried by a null. -/
theorem logic_provenance_independent (op : BinOp) (hop : op = .band ∨ op = .bior ∨ op = .bxor)
    (a a' b b' : Val) (ha : LogicOperand a) (ha' : LogicOperand a') (hb : LogicOperand b) (hb' : LogicOperand b')
    (ea : absK a = absK a') (eb : absK b = absK b') :
    resK (evalBin op a b) = resK (evalBin op a' b') := by
  rcases hop with rfl | rfl | rfl
  · rw [and_kleene a b ha hb, and_kleene a' b' ha' hb', ea, eb]
  · rw [or_kleene a b ha hb, or_kleene a' b' ha' hb', ea, eb]
  · rw [xor_kleene a b ha hb, xor_kleene a' b' ha' hb', ea, eb]

example : LogicOperand (.null Ty.bool) ∧ LogicOperand (.null Ty.none) ∧ LogicOperand (.bool false) := by
  refine ⟨⟨rfl, Or.inl rfl, rfl⟩, ⟨rfl, Or.inr rfl, rfl⟩, ⟨rfl, Or.inl rfl, rfl⟩⟩
example : resK (evalBin .bior (.null Ty.bool) (.bool false)) = some .n := rfl
example : resK (evalBin .bior (.null Ty.none) (.bool true)) = some .t := rfl

/-- Short circuit: `false and X`, `true or X` do not evaluate `X` (whatever it would do). -/
theorem short_circuit (x : Unit → Res Val) :
    opBand (.bool false) x = .ok (.bool false) ∧ opBior (.bool true) x = .ok (.bool true) := ⟨rfl, rfl⟩

/-! ### every relational operator returns null when either operand is null — for ALL values -/

theorem rel_null_strict (op : BinOp) (hop : op = .eq ∨ op = .ne ∨ op = .lt ∨ op = .le ∨ op = .gt ∨ op = .ge)
    (a b : Val) (same : Bool) (hn : a.isNull = true ∨ b.isNull = true) :
    evalBin op a b same = .ok (.null Ty.bool) := by
  have h : (a.isNull || b.isNull) = true := by
    rcases hn with h | h <;> simp [h]
  rcases hop with rfl | rfl | rfl | rfl | rfl | rfl <;>
    simp [evalBin, opEq, opNe, opLt, opLe, opGt, opGe, ordered, h]

example : evalBin .lt (.null Ty.none) (.int 3) = .ok (.null Ty.bool) := rfl
example : evalBin .eq (.str [0x61]) (.null Ty.str) = .ok (.null Ty.bool) := rfl

/-! ### a null or false condition takes the false branch of if / while -/

theorem cond_null_false (v : Val) (h : LogicOperand v) :
    condTaken v = .ok ((absK v).elim false K.cond) := by
  rcases logicOperand_cases v h with ⟨m, rfl⟩ | ⟨m, rfl⟩ | rfl | rfl <;> rfl

end BlocV.C04
