/-
  C02G — translator tie for the operators (task GENOPS): the hand-written static rules of Model/Typing.lean and the
  operand cells of Model/Ops.lean are PROVED equal to the interpretation (Model/GenEval.lean) of the tables that
  extract/optypes.py regenerates from blocc/operator/op_*.{h,cpp} and blocc/parse_expression.cpp on every run
  (lean/BlocV/Gen/OpTypes.lean).  A change of one `type()` if-chain, of one `case Type::X:` label of a `value()`, or of
  one assertType call of a production changes the generated file and makes the theorem named in the comment stop checking.

  Property theorems and their examples only; helper lemmas in Proofs/Lemmas/GenOps.lean.
  All theorems are for ALL types (major, minor, level) and all values; the finite part (majors × majors) is discharged by
  case analysis inside the proof, never by sampling.
-/
import BlocV.Proofs.Lemmas.GenOps

namespace BlocV.C02G
open Gen GenOps GenEval

/-! ## 1. `type()` -/

/-- The hand-written static type of a binary operator node is what `OpXXXExpression::type` says today.
BREAKS when: a result of a `type()` chain is changed (`return Value::type_integer` → `type_numeric`), a condition is
changed, two steps whose order matters are swapped (op_add: the LITERAL test before the IMAGINARY test), a step is added
or removed, or a header's inline `type()` returns another constant. -/
theorem typeBin_eq_source (op : BinOp) (t1 t2 : Ty) : BlocV.typeBin op t1 t2 = GenEval.typeBin op t1 t2 := by
  cases op <;>
    simp [BlocV.typeBin, GenEval.typeBin, binRule, evalRule, evalChain, evalCond, evalRes,
      Op.add_type, Op.sub_type, Op.mul_type, Op.div_type, Op.exp_type, Op.mod_type, Op.and_type, Op.ior_type, Op.xor_type,
      Op.pop_type, Op.pus_type, Op.eq_type, Op.ne_type, Op.lt_type, Op.le_type, Op.gt_type, Op.ge_type, Op.band_type,
      Op.bior_type, Op.bxor_type, Ty.str, Ty.imag, Ty.int, Ty.num, Ty.none, Ty.bool]

-- a non-trivial row: a table of strings plus anything is typed `string` (level 0!) by op_add's first step — the row
-- behind the recorded C02 gap; the generated chain evaluates to the same
example : GenEval.typeBin .add { major := .str, level := 1 } Ty.int = Ty.str ∧
    GenEval.typeBin .add Ty.num { major := .imag } = Ty.imag ∧ GenEval.typeBin .mod Ty.int Ty.num = Ty.num := ⟨rfl, rfl, rfl⟩

/-- Same for the unary operators (`return arg1->type(ctx)` for `-`/`+`, a constant for `~`/`!`).
BREAKS when: op_neg/op_pos stop returning the operand's type, or op_not/op_bnot's inline constant changes. -/
theorem typeUn_eq_source (op : UnOp) (t1 : Ty) : BlocV.typeUn op t1 = GenEval.typeUn op t1 := by
  cases op <;> rfl

example : GenEval.typeUn .neg { major := .tup, minor := 77, level := 2 } = { major := .tup, minor := 77, level := 2 } ∧
    GenEval.typeUn .not Ty.num = Ty.int := ⟨rfl, rfl⟩

/-! ## 2. the operand checks of parse_expression.cpp -/

/-- The parser's acceptance of `e1 op e2` as transcribed by hand is the conjunction of the two checks the production
wraps around its operands today.
BREAKS when: an `assertType` becomes `assertTypeUniform` (or the reverse), the type checked against changes
(`Type::NUMERIC` → `Type::INTEGER`, `result->type(ctx)` → a constant), a check is dropped or added, or two productions of
the same operator (keyword and symbol spelling) stop agreeing (the extractor refuses that). -/
theorem acceptBin_eq_source (op : BinOp) (t1 t2 : Ty) : BlocV.acceptBin op t1 t2 = GenEval.acceptBin op t1 t2 := by
  cases op <;> simp [BlocV.acceptBin, GenEval.acceptBin, binChecks, evalCheck, evalPType,
    Op.add_check1, Op.add_check2, Op.sub_check1, Op.sub_check2, Op.mul_check1, Op.mul_check2, Op.div_check1, Op.div_check2,
    Op.exp_check1, Op.exp_check2, Op.mod_check1, Op.mod_check2, Op.and_check1, Op.and_check2, Op.ior_check1, Op.ior_check2,
    Op.xor_check1, Op.xor_check2, Op.pop_check1, Op.pop_check2, Op.pus_check1, Op.pus_check2, Op.eq_check1, Op.eq_check2,
    Op.ne_check1, Op.ne_check2, Op.lt_check1, Op.lt_check2, Op.le_check1, Op.le_check2, Op.gt_check1, Op.gt_check2,
    Op.ge_check1, Op.ge_check2, Op.band_check1, Op.band_check2, Op.bior_check1, Op.bior_check2, Op.bxor_check1, Op.bxor_check2,
    Ty.num, Ty.int, Ty.bool]

-- `+` checks only its second operand, against the type of the first; `<<` is uniform (a decimal is refused where `*`
-- takes it); `==` checks nothing
example : GenEval.acceptBin .add Ty.str Ty.int = false ∧ GenEval.acceptBin .add Ty.int Ty.num = true ∧
    GenEval.acceptBin .pop Ty.int Ty.num = false ∧ GenEval.acceptBin .mul Ty.int Ty.num = true ∧
    GenEval.acceptBin .eq Ty.str { major := .tup, minor := 3 } = true := ⟨rfl, rfl, rfl, rfl, rfl⟩

/-- BREAKS when: the check of a unary production changes (`~` is checked against NUMERIC, not INTEGER, today). -/
theorem acceptUn_eq_source (op : UnOp) (t1 : Ty) : BlocV.acceptUn op t1 = GenEval.acceptUn op t1 := by
  cases op <;> rfl

example : GenEval.acceptUn .not Ty.num = true ∧ GenEval.acceptUn .bnot Ty.int = false := ⟨rfl, rfl⟩

/-! ## 3. `value()`: the case labels -/

/-- The case labels of the nested switches of every switch-form `value()` (eager and lazy) and the `t2 == Type::X` tests of
the `==`/`!=` chains (imaginary cells aside, which Model/Ops.lean leaves unmodelled) are exactly the operand cells the
hand-written model has.
BREAKS when: a `case Type::X:` label is added to or dropped from any of the 14 switch-form operators, a `t2 == Type::X`
test is added to or dropped from op_eq/op_ne. -/
theorem value_case_labels_eq_model_cells (op : BinOp) (m1 m2 : Major)
    (hop : eagerSwitch op = true ∨ op = .band ∨ op = .bior ∨ ((op = .eq ∨ op = .ne) ∧ m1 ≠ .imag ∧ m2 ≠ .imag)) :
    (pairsOf (binShape op)).contains (m1, m2) = handCell op m1 m2 := by
  rcases hop with h | h | h | ⟨h | h, h1, h2⟩
  · cases op <;> simp only [eagerSwitch, Bool.false_eq_true] at h <;> cases m1 <;> cases m2 <;> rfl
  · subst h; cases m1 <;> cases m2 <;> rfl
  · subst h; cases m1 <;> cases m2 <;> rfl
  · subst h; cases m1 <;> cases m2 <;> first | rfl | exact absurd rfl h1 | exact absurd rfl h2
  · subst h; cases m1 <;> cases m2 <;> first | rfl | exact absurd rfl h1 | exact absurd rfl h2

example : (pairsOf (binShape .add)).contains (.none, .str) = true ∧ (pairsOf (binShape .mod)).contains (.none, .imag) = false ∧
    (pairsOf (binShape .sub)).contains (.none, .imag) = true := ⟨rfl, rfl, rfl⟩

/-- For the twelve eager switch-form operators (`+ - * / ** % & | ^ << >> xor`) and ALL operand values — null or not: the
switch looks at the types only — the result is the operator's type-mismatch error EXC_RT_INV_EXPRESSION IF AND ONLY IF the
operands are not both of level 0 with (major, major) among the case labels extracted from that operator's `value()`.
BREAKS when: see `value_case_labels_eq_model_cells`; also when the level guard in front of the switch changes (the
extractor asserts its exact text). -/
theorem evalBin_typeerror_iff_not_in_source_table (op : BinOp) (hop : eagerSwitch op = true) (a b : Val) (same : Bool) :
    evalBin op a b same = inv ↔ inTable (binShape op) a.type b.type = false := by
  have hcell := value_case_labels_eq_model_cells op a.type.major b.type.major (Or.inl hop)
  constructor
  · intro he
    cases hin : inTable (binShape op) a.type b.type with
    | false => rfl
    | true =>
      exfalso
      unfold inTable at hin
      rw [hcell] at hin
      simp only [Bool.and_eq_true, beq_iff_eq] at hin
      exact ne_inv_of (evalBin_notInv op hop a b same hin.1.1 hin.1.2 hin.2) he
  · intro hin
    apply evalBin_inv op hop
    rintro ⟨h1, h2, hc⟩
    unfold inTable at hin
    rw [hcell, hc, h1, h2] at hin
    exact absurd hin (by decide)

-- non-trivial rows: a string times an integer, a table plus a table, null % complex are type errors; null + string, 1 / 0
-- are not (the latter is DIVIDE_BY_ZERO)
example : evalBin .mul (.str [97]) (.int 2) = inv ∧ inTable (binShape .mul) Ty.str Ty.int = false := ⟨rfl, rfl⟩
example : evalBin .add (.tab { major := .int, level := 1 } [] [.int 1]) (.tab { major := .int, level := 1 } [] []) = inv ∧
    inTable (binShape .add) { major := .int, level := 1 } { major := .int, level := 1 } = false := ⟨rfl, rfl⟩
example : evalBin .mod (.null Ty.none) (.null Ty.imag) = inv ∧ evalBin .add (.null Ty.none) (.str [97]) = .ok (.str [97]) ∧
    evalBin .div (.int 1) (.int 0) = .err Gen.EXC_RT_DIVIDE_BY_ZERO ∧ inTable (binShape .div) Ty.int Ty.int = true :=
  ⟨rfl, rfl, rfl, rfl⟩

/-- `and` / `or` (lazy): the first operand alone decides when it is `false` (resp. `true`); otherwise the rule of the eager
operators holds with the labels of the inner switches.
BREAKS when: a label of an outer or inner switch of op_band/op_bior is added or dropped. -/
theorem evalBin_lazy_typeerror_iff (op : BinOp) (hop : op = .band ∨ op = .bior) (a b : Val) (same : Bool) :
    evalBin op a b same = inv ↔ ¬(a = .bool (op == .bior) ∨ inTable (binShape op) a.type b.type = true) := by
  have hcell := value_case_labels_eq_model_cells op a.type.major b.type.major (Or.inr (hop.elim Or.inl (fun h => Or.inr (Or.inl h))))
  have key : inTable (binShape op) a.type b.type = true ↔
      (a.type.level = 0 ∧ b.type.level = 0 ∧ boolCell a.type.major b.type.major = true) := by
    unfold inTable
    rw [hcell]
    rcases hop with h | h <;> subst h <;> simp [handCell, and_assoc]
  rw [key]
  rcases hop with h | h <;> subst h
  · constructor
    · intro he hh; exact ne_inv_of (opBand_notInv a b hh) he
    · intro hh; exact opBand_inv a b hh
  · constructor
    · intro he hh; exact ne_inv_of (opBior_notInv a b hh) he
    · intro hh; exact opBior_inv a b hh

example : evalBin .band (.bool false) (.int 3) = .ok (.bool false) ∧ evalBin .band (.bool true) (.int 3) = inv ∧
    inTable (binShape .band) Ty.bool Ty.int = false ∧ evalBin .bior (.null Ty.none) (.null Ty.bool) = .ok (.null Ty.bool) :=
  ⟨rfl, rfl, rfl, rfl⟩

/-- The case labels of the unary `value()`s are the cells of the model's `evalUn`.
BREAKS when: a label of op_neg/op_pos/op_not/op_bnot is added or dropped (e.g. `~` accepting NUMERIC). -/
theorem unary_case_labels_eq_model_cells (op : UnOp) (m : Major) : (rowsOf (unShape op)).contains m = GenOps.unCell op m := by
  cases op <;> cases m <;> rfl

/-- Unary operators, all operand values: EXC_RT_INV_EXPRESSION iff the operand is not of level 0 with its major among the
case labels of the operator's `value()`. -/
theorem evalUn_typeerror_iff_not_in_source_table (op : UnOp) (a : Val) :
    evalUn op a = inv ↔ inTableUn (unShape op) a.type = false := by
  have hcell := unary_case_labels_eq_model_cells op a.type.major
  constructor
  · intro he
    cases hin : inTableUn (unShape op) a.type with
    | false => rfl
    | true =>
      exfalso
      unfold inTableUn at hin
      rw [hcell] at hin
      simp only [Bool.and_eq_true, beq_iff_eq] at hin
      exact ne_inv_of (evalUn_notInv op a hin.2 hin.1) he
  · intro hin
    apply evalUn_inv
    rintro ⟨h1, hc⟩
    unfold inTableUn at hin
    rw [hcell, hc, h1] at hin
    exact absurd hin (by decide)

-- `~` is accepted by the parser on a decimal (acceptUn_eq_source) and is a type error at run time: the generated tables say so
example : evalUn .not (.num 0x4004000000000000) = inv ∧ inTableUn (unShape .not) Ty.num = false ∧
    GenEval.acceptUn .not Ty.num = true ∧ evalUn .neg (.null Ty.none) = .ok (.null Ty.none) := ⟨rfl, rfl, rfl, rfl⟩

/-! ## 4. the null rule of the relational operators, as the code has it -/

/-- `== != < <= > >=` test `a1.isNull() || a2.isNull()` BEFORE looking at any type (the extractor asserts that statement at
the head of every `eqchain` / `ord` shaped `value()`): the result is the boolean null, whatever the types.
BREAKS when: one of the six files loses that first statement or gains a switch form (the shape recorded in
`Gen.Op.*_value` changes and `binShape op` no longer matches). -/
theorem relational_null_first (op : BinOp) (a b : Val) (same : Bool)
    (hsh : (∃ ps, binShape op = .eqchain ps) ∨ (∃ cs, binShape op = .ord cs)) (hn : a.isNull = true ∨ b.isNull = true) :
    evalBin op a b same = .ok (.null Ty.bool) := by
  have hn' : (a.isNull || b.isNull) = true := by simpa using hn
  cases op <;>
    first
      | (exfalso; rcases hsh with ⟨ps, h⟩ | ⟨cs, h⟩ <;>
          simp [binShape, Op.add_value, Op.sub_value, Op.mul_value, Op.div_value, Op.exp_value, Op.mod_value, Op.and_value,
            Op.ior_value, Op.xor_value, Op.pop_value, Op.pus_value, Op.band_value, Op.bior_value, Op.bxor_value] at h; done)
      | simp [evalBin, opEq, opNe, opLt, opLe, opGt, opGe, ordered, hn']

example : evalBin .lt (.null Ty.str) (.int 1) = .ok (.null Ty.bool) ∧ (∃ cs, binShape .lt = .ord cs) := ⟨rfl, ⟨_, rfl⟩⟩

/-- `==` / `!=` on two non-null level-0 operands whose majors are NOT among the extracted `t1`-case × `t2 == Type::X`
tests: the constant the chain ends with (`false`, resp. `true`) — never an error. (Imaginary operands aside: unmodelled.)
BREAKS when: a test is added to or dropped from a case of op_eq/op_ne. -/
theorem equality_outside_source_tests (a b : Val) (same : Bool) (hn1 : a.isNull = false) (hn2 : b.isNull = false)
    (h1 : a.type.level = 0) (h2 : b.type.level = 0) (hi1 : a.type.major ≠ .imag) (hi2 : b.type.major ≠ .imag)
    (hout : (pairsOf (binShape .eq)).contains (a.type.major, b.type.major) = false ∧
            (pairsOf (binShape .ne)).contains (a.type.major, b.type.major) = false) :
    evalBin .eq a b same = .ok (.bool false) ∧ evalBin .ne a b same = .ok (.bool true) := by
  have hc : eqCell a.type.major b.type.major = false := by
    have := value_case_labels_eq_model_cells .eq a.type.major b.type.major (Or.inr (Or.inr (Or.inr ⟨Or.inl rfl, hi1, hi2⟩)))
    rw [hout.1] at this; exact this.symm
  have := eqCore_const same a b hn1 hn2 h1 h2 hi1 hi2 hc
  simp [evalBin, opEq, opNe, hn1, hn2, this.1, this.2, boolRes]

example : evalBin .eq (.str [49]) (.int 1) = .ok (.bool false) ∧ evalBin .ne (.bool true) (.raw [1]) = .ok (.bool true) ∧
    (pairsOf (binShape .eq)).contains (.str, .int) = false := ⟨rfl, rfl, rfl⟩

/-! ## 5. the ordering operators -/

/-- The case labels of the single switch of op_lt/le/gt/ge, the `a2.type() == Type::X` tests inside each case and the typed
accessor the fall-through reads the second operand with are the rows / cells of the model's `ordCore`.
BREAKS when: a case is added to or dropped from one of the four switches, a test on a2 is added or dropped, or the
fall-through reads a2 through another accessor. -/
theorem ordering_case_labels_eq_model_cells (op : BinOp) (hop : op = .lt ∨ op = .le ∨ op = .gt ∨ op = .ge) (m1 m2 : Major) :
    (rowsOf (binShape op)).contains m1 = ordRow m1 ∧ (pairsOf (binShape op)).contains (m1, m2) = GenOps.ordCell m1 m2 := by
  rcases hop with h | h | h | h <;> subst h <;> cases m1 <;> cases m2 <;> exact ⟨by decide, by decide⟩

/-- `< <= > >=` on two non-null (well-formed) operands: a typed accessor throws (EXC_RT_NOT_INTEGER / NOT_NUMERIC /
NOT_LITERAL — the type-mismatch error of these four operators) IF AND ONLY IF the first operand's major is one of the case
labels and the pair is not, at level 0, among the tests / accessor types extracted from that case. Outside the case
labels the answer is `false` (no error); the null rule is `relational_null_first`. -/
theorem ordering_typeerror_iff_not_in_source_table (op : BinOp) (hop : op = .lt ∨ op = .le ∨ op = .gt ∨ op = .ge)
    (a b : Val) (same : Bool) (hw1 : a.tabOk = true) (hw2 : b.tabOk = true) (hn1 : a.isNull = false) (hn2 : b.isNull = false) :
    IsAccErr (evalBin op a b same) ↔
      ((rowsOf (binShape op)).contains a.type.major = true ∧ inTable (binShape op) a.type b.type = false) := by
  have hc := ordering_case_labels_eq_model_cells op hop a.type.major b.type.major
  unfold inTable
  rw [hc.1, hc.2]
  have key : ∀ ci cf cs, IsAccErr (ordered ci cf cs a b) ↔
      (ordRow a.type.major = true ∧ (a.type.level == 0 && b.type.level == 0 && GenOps.ordCell a.type.major b.type.major) = false) := by
    intro ci cf cs
    rw [ordered_accErr_iff ci cf cs a b hw1 hw2 hn1 hn2]
    simp [and_assoc]
  rcases hop with h | h | h | h <;> subst h <;> exact key _ _ _

-- a string compared with an integer: accepted by no parser check when the string is opaque, NOT_LITERAL... here: the
-- integer row reads a2 through integer(): NOT_INTEGER; a boolean first operand is outside the labels: `false`
example : evalBin .lt (.int 1) (.str [97]) = .err Gen.EXC_RT_NOT_INTEGER ∧ inTable (binShape .lt) Ty.int Ty.str = false ∧
    (rowsOf (binShape .lt)).contains .int = true ∧ evalBin .lt (.bool true) (.int 1) = .ok (.bool false) ∧
    (rowsOf (binShape .ge)).contains .bool = false ∧ (pairsOf (binShape .ge)).contains (.int, .num) = true :=
  ⟨rfl, rfl, rfl, rfl, rfl, by decide⟩

/-! ## 6. member methods (receiver side of `MemberXXXExpression::parse`; the argument side is still hand-transcribed) -/

/-- For the six built-in member methods: the model's `acceptMember` answers EXC_PARSE_MEMB_NOT_IMPL_S IF AND ONLY IF the
receiver is of level 0 with a major outside the case labels of the method's first `switch (exp_type.major())`
(`Gen.Memb.*_recv.receivers`); hypotheses: the receiver reaches the method (`memberDispatch`), it is not locked, and — for
the one method (`at`) whose source checks its argument first (`argFirst`, extracted) — that argument is there and passes.
BREAKS when: a receiver label is added to or dropped from one of the six switches (e.g. `count` losing ROWTYPE), or a
method starts / stops checking its first argument before the receiver. -/
theorem memberReceiver_eq_source (m : Member) (exp : Ty) (args : List Ty)
    (hd : memberDispatch exp = none)
    (harg : (recvOf m).argFirst = true → ∃ a0 rest, args = a0 :: rest ∧ typeChecking a0 Ty.int = true) :
    acceptMember m exp args false = some Gen.EXC_PARSE_MEMB_NOT_IMPL_S ↔ recvOk m exp = false := by
  rw [recvOk_eq]
  have codes : Gen.EXC_PARSE_MEMB_NOT_IMPL_S = 17 ∧ Gen.EXC_PARSE_MEMB_ARG_TYPE_S = 18 ∧ Gen.EXC_PARSE_TYPE_MISMATCH_S = 11 := ⟨rfl, rfl, rfl⟩
  cases m
  case' «at» =>
    obtain ⟨a0, rest, rfl, ha⟩ := harg rfl
    simp only [acceptMember, hd, ha, Bool.not_true, Bool.false_eq_true, ↓reduceIte, reduceCtorEq]
    cases level0Seq exp <;> simp [EXC_PARSE_MEMB_ARG_NUM_S, EXC_PARSE_MEMB_NOT_IMPL_S]
  all_goals
    simp only [acceptMember, hd, reduceCtorEq, ↓reduceIte, Bool.false_eq_true]
    cases hl : level0Seq exp <;> simp
    all_goals (repeat' split)
    all_goals try (simp_all [EXC_PARSE_MEMB_ARG_NUM_S, EXC_PARSE_MEMB_NOT_IMPL_S, EXC_PARSE_MEMB_ARG_TYPE_S,
         EXC_PARSE_INV_EXPRESSION, EXC_PARSE_TYPE_MISMATCH_S]; done)
    all_goals
      rename_i heq
      intro hc; injection hc with hc; subst hc; revert heq
      (repeat' split) <;> simp [EXC_PARSE_MEMB_NOT_IMPL_S, EXC_PARSE_MEMB_ARG_TYPE_S, EXC_PARSE_TYPE_MISMATCH_S]

example : recvOk .count { major := .tup, minor := 9 } = true ∧ recvOk .at { major := .tup, minor := 9 } = false ∧
    acceptMember .at { major := .tup, minor := 9 } [Ty.int] false = some Gen.EXC_PARSE_MEMB_NOT_IMPL_S ∧
    recvOk .put { major := .int, level := 1 } = true := ⟨rfl, rfl, rfl, rfl⟩

/-- The lock test: the methods whose source tests `s.locked()` refuse a locked receiver with EXC_PARSE_CONST_VIOLATION_S; the
others (`at`, `count`: they do not modify the receiver) ignore the lock.
BREAKS when: the lock test is added to or removed from a member's `parse()`. -/
theorem memberLock_eq_source (m : Member) (exp : Ty) (args : List Ty) (hd : memberDispatch exp = none) :
    ((recvOf m).lockChecked = true → acceptMember m exp args true = some Gen.EXC_PARSE_CONST_VIOLATION_S) ∧
    ((recvOf m).lockChecked = false → acceptMember m exp args true = acceptMember m exp args false) := by
  cases m <;> simp [acceptMember, hd, recvOf, Memb.concat_recv, Memb.at_recv, Memb.put_recv, Memb.count_recv,
    Memb.delete_recv, Memb.insert_recv]

example : acceptMember .delete Ty.str [Ty.int] true = some Gen.EXC_PARSE_CONST_VIOLATION_S ∧
    acceptMember .count Ty.str [] true = none ∧ (recvOf .count).lockChecked = false := ⟨rfl, rfl, rfl⟩

/-- put / insert / concat on a LEVEL-0 receiver that passes the receiver test, position argument (if any) type-checking as
integer, exactly the right number of arguments: the model accepts IF AND ONLY IF the value argument passes the test
extracted from the receiver's case of the method's second `switch (exp_type.major())`; otherwise EXC_PARSE_MEMB_ARG_TYPE_S.
(The collection branch — receivers of level ≥ 1 — is still hand-transcribed.)
BREAKS when: a conjunct `args.back()->type(ctx) != Type::X` or the `typeChecking(…, Type::INTEGER)` is added to or dropped
from a case, a case moves between `break;` and a test, or a receiver label of that switch changes. -/
theorem memberArgs_eq_source (m : Member) (hm : m = .put ∨ m = .insert ∨ m = .concat) (exp arg pos : Ty)
    (hl : exp.level = 0) (hd : memberDispatch exp = none) (hr : level0Seq exp = true) (hp : typeChecking pos Ty.int = true) :
    acceptMember m exp ((lead m).map (fun _ => pos) ++ [arg]) false =
      (if arg0Ok (arg0Of m) exp arg = some true then none else some Gen.EXC_PARSE_MEMB_ARG_TYPE_S) := by
  rcases exp with ⟨mj, mn, lv⟩
  simp only at hl; subst hl
  rcases hm with h | h | h <;> subst h <;> cases mj <;>
    simp_all [acceptMember, memberDispatch, level0Seq, lead, arg0Of, arg0Ok, Memb.put_arg0, Memb.insert_arg0, Memb.concat_arg0, evalArgRule]
  all_goals (repeat' split)
  all_goals simp_all
  all_goals omega

example : arg0Ok (arg0Of .insert) Ty.raw Ty.str = some true ∧ arg0Ok (arg0Of .insert) Ty.str Ty.raw = some false ∧
    arg0Ok (arg0Of .put) Ty.str Ty.str = some false ∧ arg0Ok (arg0Of .concat) Ty.none Ty.bool = some true ∧
    acceptMember .insert Ty.str [Ty.int, Ty.raw] false = some Gen.EXC_PARSE_MEMB_ARG_TYPE_S := ⟨rfl, rfl, rfl, rfl, rfl⟩

end BlocV.C02G
