/-
  C18, file and sqlite3 halves — property theorems about lean/BlocV/Model/Mod/File.lean and Sqlite.lean.
  (see notes/NOTES-C18F.md for what each says and what is not proved)
-/
import BlocV.Proofs.Lemmas.FileMod
import BlocV.Model.Mod.Sqlite

namespace BlocV.Proofs.C18F
open BlocV.Mod BlocV.Mod.File
open BlocV.Spec.File (readAt writeAt)

def modeW : Bytes := [chW]
def modeR : Bytes := [chR]

/-- the handle right after `open(p, "w")` / while writing: write-only stream on `cstr p` at the end of content `C` -/
def WState (w : World) (p : Path) (C : Bytes) : Prop :=
  ∃ l, w.h.file = some { path := cstr p, pos := C.length, rd := false, wr := true, app := false, last := l }
    ∧ w.h.w = true ∧ w.fs.get (cstr p) = some C

/-- the handle after `open(p, "r")`: read-only stream on `cstr p` at offset `k` of content `D` -/
def RState (w : World) (p : Path) (D : Bytes) (k : Nat) : Prop :=
  ∃ l, w.h.file = some { path := cstr p, pos := k, rd := true, wr := false, app := false, last := l }
    ∧ w.h.r = true ∧ w.fs.get (cstr p) = some D

theorem openH_w (w : World) (p : Path) :
    openH w p modeW = ({ fs := w.fs.put (cstr p) [],
                         h := { file := some { path := cstr p, pos := 0, rd := false, wr := true, app := false },
                                path := p, mode := modeW, w := true, r := false } }, 0) := by
  have hm : parseMode modeW = some ⟨false, true, false, true, true, false⟩ := by decide
  have hW : chW ∈ modeW := by decide
  have hP : chPlus ∉ modeW := by decide
  have hR : chR ∉ modeW := by decide
  unfold openH
  rw [hm]
  cases hg : w.fs.get (cstr p) <;> simp [Spec.File.sopen, hW, hP, hR, hg]

theorem openH_r (w : World) (p : Path) (D : Bytes) (hg : w.fs.get (cstr p) = some D) :
    openH w p modeR = ({ fs := w.fs.put (cstr p) D,
                         h := { file := some { path := cstr p, pos := 0, rd := true, wr := false, app := false },
                                path := p, mode := modeR, w := false, r := true } }, 0) := by
  have hm : parseMode modeR = some ⟨true, false, false, false, false, false⟩ := by decide
  have hW : chW ∉ modeR := by decide
  have hP : chPlus ∉ modeR := by decide
  have hA : chA ∉ modeR := by decide
  have hR : chR ∈ modeR := by decide
  unfold openH
  rw [hm]
  simp [Spec.File.sopen, hg, hW, hP, hA, hR]

theorem step_open_w (w : World) (p : Path) :
    (step w (.open (some p) (some modeW))).2 = .int 0 ∧ WState (step w (.open (some p) (some modeW))).1 p []
    ∧ (step w (.open (some p) (some modeW))).1.fs.memLimit = w.fs.memLimit := by
  have hc : hasComma modeW = false := by decide
  simp only [step, hc, openH_w]
  simp [WState, FS.put]

theorem step_open_r (w : World) (p : Path) (D : Bytes) (hg : w.fs.get (cstr p) = some D) :
    (step w (.open (some p) (some modeR))).2 = .int 0 ∧ RState (step w (.open (some p) (some modeR))).1 p D 0
    ∧ (step w (.open (some p) (some modeR))).1.fs.memLimit = w.fs.memLimit
    ∧ (step w (.open (some p) (some modeR))).1.fs.get (cstr p) = some D := by
  have hc : hasComma modeR = false := by decide
  simp only [step, hc, openH_r w p D hg]
  simp [RState, FS.put]

theorem step_write (w : World) (p : Path) (C d : Bytes) (hs : WState w p C) (hd : d.length < 4294967296) :
    (step w (.writeS (some d))).2 = .int d.length ∧ WState (step w (.writeS (some d))).1 p (C ++ d)
    ∧ (step w (.writeS (some d))).1.fs.memLimit = w.fs.memLimit := by
  obtain ⟨l, hf, hw, hg⟩ := hs
  have hl : writeLen d = d.length := by unfold writeLen; omega
  by_cases hd0 : d = []
  · subst hd0
    simp [step, hw, hf, writeH, WState, hg, badOutput]
  · have hne : d.isEmpty = false := by cases d <;> simp_all
    simp [step, hw, hf, writeH, hl, hne, hg, badOutput, WState, FS.put, fwriteBytes_eq_writeAt, File.writeAt_end, hd0]

theorem step_close (w : World) : (step w .close).2 = .bool true ∧ (step w .close).1.fs = w.fs ∧ (step w .close).1.h = {} := by
  simp [step, Handle.close]

theorem step_read (w : World) (p : Path) (D : Bytes) (k : Nat) (n : Int64) (hs : RState w p D k)
    (hn : 0 < n.toInt) (hm : n.toInt.toNat ≤ w.fs.memLimit) :
    (step w (.readB (some n))).2 = .rd (readAt D k n.toInt.toNat).length (readAt D k n.toInt.toNat)
    ∧ RState (step w (.readB (some n))).1 p D (k + (readAt D k n.toInt.toNat).length)
    ∧ (step w (.readB (some n))).1.fs = w.fs := by
  obtain ⟨l, hf, hr, hg⟩ := hs
  have hloop := readLoop_eq D (readFuel n.toInt) k n.toInt [] (readFuel_ok _)
  simp only [step, hr, hf, readH, badInput]
  generalize n.toInt = N at *
  have hres : reserveOk w.fs false N.toNat = true := by simp [reserveOk, hm]
  simp [hn, hres, hg, hloop, readAt, RState]

/-- the answers of consecutive reads with counts `ns` over what is left (`D`) of the file -/
def slices : Bytes → List Int64 → List Res
  | _, [] => []
  | D, n :: ns => .rd (D.take n.toInt.toNat).length (D.take n.toInt.toNat) :: slices (D.drop n.toInt.toNat) ns

def writeOps (ds : List Bytes) : List Op := ds.map fun d => .writeS (some d)
def readOps (ns : List Int64) : List Op := ns.map fun n => .readB (some n)

theorem run_writes (p : Path) : ∀ (ds : List Bytes) (w : World) (C : Bytes), WState w p C →
    (∀ d ∈ ds, d.length < 4294967296) →
    (run w (writeOps ds)).2 = ds.map (fun d => .int d.length) ∧ WState (run w (writeOps ds)).1 p (C ++ ds.flatten)
    ∧ (run w (writeOps ds)).1.fs.memLimit = w.fs.memLimit := by
  intro ds
  induction ds with
  | nil => intro w C hs _; simpa [writeOps, run] using hs
  | cons d ds ih =>
    intro w C hs hl
    have h1 := step_write w p C d hs (hl d (by simp))
    have h2 := ih (step w (.writeS (some d))).1 (C ++ d) h1.2.1 (fun x hx => hl x (by simp [hx]))
    simp only [writeOps, List.map_cons, run_cons] at h2 ⊢
    refine ⟨by rw [h1.1, h2.1], ?_, by rw [h2.2.2, h1.2.2]⟩
    simpa [List.append_assoc] using h2.2.1

theorem run_reads (p : Path) (D : Bytes) (M : Nat) : ∀ (ns : List Int64) (w : World) (k : Nat), RState w p D k → w.fs.memLimit = M →
    (∀ n ∈ ns, 0 < n.toInt ∧ n.toInt.toNat ≤ M) →
    (run w (readOps ns)).2 = slices (D.drop k) ns ∧ (run w (readOps ns)).1.fs = w.fs := by
  intro ns
  induction ns with
  | nil => intro w k _ _ _; simp [readOps, run, slices]
  | cons n ns ih =>
    intro w k hs hM hn
    have hn1 := hn n (by simp)
    have h1 := step_read w p D k n hs hn1.1 (by rw [hM]; exact hn1.2)
    have h2 := ih (step w (.readB (some n))).1 _ h1.2.1 (by rw [h1.2.2]; exact hM) (fun x hx => hn x (by simp [hx]))
    simp only [readOps, List.map_cons, run_cons] at h2 ⊢
    refine ⟨?_, by rw [h2.2, h1.2.2]⟩
    rw [h1.1, h2.1]
    simp only [slices, readAt]
    generalize n.toInt.toNat = N
    have hdd : List.drop (k + (List.take N (List.drop k D)).length) D = List.drop N (List.drop k D) := by
      rw [List.length_take, List.length_drop]
      by_cases h : N ≤ D.length - k
      · rw [Nat.min_eq_left h, List.drop_drop]
      · rw [Nat.min_eq_right (by omega), List.drop_of_length_le (by omega),
            List.drop_of_length_le (by rw [List.length_drop]; omega)]
    rw [hdd]

/-- **file_write_read_roundtrip.** For ALL byte lists, all chunkings `ds` of the writes and all positive read counts
    `ns` (any value: below, equal to or above 4096, multiple of it or not) that the allocator can serve:
    `open(p,"w")`, the writes, `close`, `open(p,"r")`, the reads answer exactly: 0, the chunk lengths, TRUE, 0, and the
    consecutive slices `take n` of the concatenated data — every `read(n)` returns `min(n, remaining)` bytes —
    and an independent reader finds exactly the concatenated data in the file afterwards. -/
theorem file_write_read_roundtrip (w : World) (p : Path) (ds : List Bytes) (ns : List Int64)
    (hl : ∀ d ∈ ds, d.length < 4294967296) (hn : ∀ n ∈ ns, 0 < n.toInt ∧ n.toInt.toNat ≤ w.fs.memLimit) :
    let ops := [Op.open (some p) (some modeW)] ++ writeOps ds ++ [.close, .open (some p) (some modeR)] ++ readOps ns
    (run w ops).2 = [.int 0] ++ ds.map (fun d => .int d.length) ++ [.bool true, .int 0] ++ slices ds.flatten ns
    ∧ (run w ops).1.content p = some ds.flatten := by
  intro ops
  have ho := step_open_w w p
  have hw := run_writes p ds _ [] ho.2.1 hl
  obtain ⟨_, _, _, hg⟩ := hw.2.1
  have hc := step_close (run (step w (.open (some p) (some modeW))).1 (writeOps ds)).1
  have hg' : (step (run (step w (.open (some p) (some modeW))).1 (writeOps ds)).1 .close).1.fs.get (cstr p)
      = some ([] ++ ds.flatten) := by
    rw [hc.2.1]; exact hg
  have hr := step_open_r _ p _ hg'
  have hM : (step (step (run (step w (.open (some p) (some modeW))).1 (writeOps ds)).1 .close).1
      (.open (some p) (some modeR))).1.fs.memLimit = w.fs.memLimit := by
    rw [hr.2.2.1, hc.2.1, hw.2.2, ho.2.2]
  have hrd := run_reads p ([] ++ ds.flatten) w.fs.memLimit ns _ 0 hr.2.1 hM hn
  simp only [ops, List.append_assoc, List.cons_append, List.nil_append, run_cons, run_append]
  refine ⟨?_, ?_⟩
  · rw [ho.1, hw.1, hc.1, hr.1, hrd.1]
    simp
  · simp only [World.content]
    rw [hrd.2, hr.2.2.2]
    simp

/-- Non-vacuity of the round trip: the hypotheses hold in a concrete world for 3 bytes incl. NUL written as
    "a\\0" + "b" and read back with counts 2 and 5 (the second read gets the 1 byte that is left). -/
def w0 : World := { fs := { get := fun _ => none, maxOff := 1000, memLimit := 1000 }, h := {} }

example :
    (run w0 ([Op.open (some [120]) (some modeW)] ++ writeOps [[97, 0], [98]] ++ [.close, .open (some [120]) (some modeR)]
        ++ readOps [2, 5])).2
      = [.int 0, .int 2, .int 1, .bool true, .int 0] ++ slices [97, 0, 98] [2, 5]
    ∧ slices [97, 0, 98] [2, 5] = [.rd 2 [97, 0], .rd 1 [98]] :=
  ⟨(file_write_read_roundtrip w0 [120] [[97, 0], [98]] [2, 5] (by decide) (by decide)).1, by decide⟩

/-- **read count.** On a readable stream, `read(var, n)` with `0 < n` returns exactly `min(n, remaining)` bytes — the
    next ones — and advances the position by that number: for n ≤ 4096, n > 4096, multiples of 4096 or not. -/
theorem file_read_count (w : World) (p : Path) (D : Bytes) (k : Nat) (n : Int64) (hs : RState w p D k)
    (hn : 0 < n.toInt) (hm : n.toInt.toNat ≤ w.fs.memLimit) :
    ∃ data, (step w (.readB (some n))).2 = .rd data.length data ∧ data = (D.drop k).take n.toInt.toNat
      ∧ data.length = min n.toInt.toNat (D.length - k)
      ∧ RState (step w (.readB (some n))).1 p D (k + data.length) := by
  have h := step_read w p D k n hs hn hm
  refine ⟨readAt D k n.toInt.toNat, h.1, rfl, ?_, h.2.1⟩
  simp [readAt, List.length_take]

/-! ### refinement of the POSIX specification -/

/-- the open file description a stream stands for -/
def absF (w : World) (f : OFile) : Spec.File.SFile := ⟨(w.fs.get f.path).getD [], f.pos, f.app⟩

/-- **file_refines_spec (write).** `fwrite` on a writable stream = `Spec.swrite` (pwrite at the offset, or at the end
    with O_APPEND; zero-filled gap after a seek beyond the end), for every content, position and data. -/
theorem file_refines_spec_write (w : World) (f : OFile) (d : Bytes) (hf : w.h.file = some f) (hw : f.wr = true)
    (hd : d.length < 4294967296) :
    (writeH w f d).2 = d.length ∧
    ∃ f', (writeH w f d).1.h.file = some f' ∧ f'.path = f.path ∧ absF (writeH w f d).1 f' = Spec.File.swrite (absF w f) d := by
  have hl : writeLen d = d.length := by unfold writeLen; omega
  by_cases hd0 : d = []
  · subst hd0
    simp [writeH, hw, hf, absF, Spec.File.swrite]
  · have hne : d.isEmpty = false := by cases d <;> simp_all
    cases ha : f.app <;>
      simp [writeH, hw, hl, hne, absF, Spec.File.swrite, hd0, FS.put, fwriteBytes_eq_writeAt, ha]

/-- **file_refines_spec (read).** The chunk loop on a readable stream = `Spec.sread`. -/
theorem file_refines_spec_read (w : World) (f : OFile) (n : Int64) (str : Bool) (hr : f.rd = true) (hn : 0 < n.toInt)
    (hm : reserveOk w.fs str n.toInt.toNat = true) :
    ∃ f', (readH w f str n).1.h.file = some f' ∧ f'.path = f.path
      ∧ (readH w f str n).2 = .rd (Spec.File.sread (absF w f) n.toInt.toNat).1.length (Spec.File.sread (absF w f) n.toInt.toNat).1
      ∧ absF (readH w f str n).1 f' = (Spec.File.sread (absF w f) n.toInt.toNat).2 := by
  have hloop := readLoop_eq ((w.fs.get f.path).getD []) (readFuel n.toInt) f.pos n.toInt [] (readFuel_ok _)
  simp only [readH]
  generalize n.toInt = N at *
  simp [hn, hm, hr, hloop, absF, Spec.File.sread, readAt]

/-- **file_refines_spec (seek).** `seekset/seekcur/seekend` = `Spec.sseek`: errno 22 and no movement exactly when the
    target is negative or beyond what the file system accepts. -/
theorem file_refines_spec_seek (w : World) (f : OFile) (wh : Spec.File.Whence) (off : Int64) :
    match Spec.File.sseek w.fs.maxOff (absF w f) wh off.toInt with
    | none => seekH w f wh off = (w, .int 22)
    | some s => (seekH w f wh off).2 = .int 0 ∧ (seekH w f wh off).1.h.file = some { f with pos := s.pos, last := .none }
                ∧ (seekH w f wh off).1.fs = w.fs := by
  unfold seekH absF
  cases h : Spec.File.sseek w.fs.maxOff ⟨(w.fs.get f.path).getD [], f.pos, f.app⟩ wh off.toInt <;> simp [EINVAL, h]

/-! ### arguments -/

/-- the calls that leave defined behaviour: a `read` whose preallocation `reserve(n)` cannot be served, and
    `write(bytes)` of an empty value without buffer (`fwrite(nullptr, ..)`) -/
def HazardRegion (w : World) : Op → Prop
  | .readS (some n) => ∃ f, w.h.file = some f ∧ w.h.r = true ∧ ¬ (badInput f = true) ∧ 0 < n.toInt
                        ∧ reserveOk w.fs true n.toInt.toNat = false
  | .readB (some n) => ∃ f, w.h.file = some f ∧ w.h.r = true ∧ ¬ (badInput f = true) ∧ 0 < n.toInt
                        ∧ reserveOk w.fs false n.toInt.toNat = false
  | .writeB (some d) => ∃ f, w.h.file = some f ∧ w.h.w = true ∧ d = [] ∧ w.fs.emptyBuf = false
  | _ => False

theorem readH_hazard (w : World) (f : OFile) (str : Bool) (n : Int64) :
    (∃ z, (readH w f str n).2 = .hazard z) ↔ (0 < n.toInt ∧ reserveOk w.fs str n.toInt.toNat = false) := by
  unfold readH
  generalize n.toInt = N
  by_cases h1 : N > 0
  · by_cases h2 : reserveOk w.fs str N.toNat = true
    · simp [h1, h2]
    · simp [h1, h2]
  · simp [h1]

theorem seekH_no_hazard (w : World) (f : OFile) (wh : Spec.File.Whence) (o : Int64) : ∀ z, (seekH w f wh o).2 ≠ .hazard z := by
  intro z; unfold seekH; simp only []; split <;> simp

theorem readlnH_no_hazard (w : World) (f : OFile) : ∀ z, (readlnH w f).2 ≠ .hazard z := by
  intro z; unfold readlnH; simp only []
  repeat' split
  all_goals simp

/-- **file_args_total.** For EVERY state of the object and EVERY argument (null, negative, INT64 extremes, any mode
    string, any path) a call yields a defined result or a BLOC error — except exactly in `HazardRegion`. -/
theorem file_args_total (w : World) (op : Op) : (∃ z, (step w op).2 = .hazard z) ↔ HazardRegion w op := by
  cases op with
  | readS n =>
    cases n with
    | none => simp [step, HazardRegion]; try (split <;> simp)
    | some n =>
      simp only [step, HazardRegion]
      by_cases hr : w.h.r = true
      · cases hf : w.h.file with
        | none => simp [hr]
        | some f =>
          by_cases hb : badInput f = true ∧ n.toInt > 0
          · simp [hr, hb]
          · have := readH_hazard w f true n
            by_cases hb1 : badInput f = true
            · have : ¬ n.toInt > 0 := fun h => hb ⟨hb1, h⟩
              simp [hr, hb, hb1, readH, this]
            · simp only [hr, hb, if_false, Bool.not_true, Bool.false_eq_true]
              simp [hb1, this]
      · simp [hr]
  | readB n =>
    cases n with
    | none => simp [step, HazardRegion]; try (split <;> simp)
    | some n =>
      simp only [step, HazardRegion]
      by_cases hr : w.h.r = true
      · cases hf : w.h.file with
        | none => simp [hr]
        | some f =>
          by_cases hb : badInput f = true ∧ n.toInt > 0
          · simp [hr, hb]
          · have := readH_hazard w f false n
            by_cases hb1 : badInput f = true
            · have : ¬ n.toInt > 0 := fun h => hb ⟨hb1, h⟩
              simp [hr, hb, hb1, readH, this]
            · simp only [hr, hb, if_false, Bool.not_true, Bool.false_eq_true]
              simp [hb1, this]
      · simp [hr]
  | writeB d =>
    cases d with
    | none => simp [step, HazardRegion]; split <;> simp <;> split <;> simp
    | some d =>
      simp only [step, HazardRegion]
      by_cases hw : w.h.w = true
      · cases hf : w.h.file with
        | none => simp [hw]
        | some f =>
          by_cases hd : d = [] ∧ w.fs.emptyBuf = false
          · simp [hw, hd]
          · simp only [hw, hd, if_false, Bool.not_true, Bool.false_eq_true]
            have : ¬ (d = [] ∧ w.fs.emptyBuf = false) := hd
            split <;> simp_all
      · simp [hw]
  | writeS d =>
    simp only [step, HazardRegion, iff_false, not_exists]
    intro z
    split
    · simp
    · split
      · split <;> simp
      · simp
  | readln =>
    simp only [step, HazardRegion, iff_false, not_exists]
    intro z
    split
    · simp
    · split
      · split
        · simp
        · exact readlnH_no_hazard _ _ z
      · simp
  | seekSet n => simp only [step, HazardRegion, iff_false, not_exists]; intro z; split <;> first | exact seekH_no_hazard _ _ _ _ z | simp
  | seekCur n => simp only [step, HazardRegion, iff_false, not_exists]; intro z; split <;> first | exact seekH_no_hazard _ _ _ _ z | simp
  | seekEnd n => simp only [step, HazardRegion, iff_false, not_exists]; intro z; split <;> first | exact seekH_no_hazard _ _ _ _ z | simp
  | ctor p m =>
    simp only [step, HazardRegion, iff_false, not_exists]; intro z
    split
    · split
      · simp
      · split <;> simp
    · simp
  | «open» p m =>
    simp only [step, HazardRegion, iff_false, not_exists]; intro z
    split
    · split <;> simp
    · simp
  | ctor0 => simp only [step, HazardRegion, iff_false, not_exists]; intro z; split <;> simp
  | close => simp [step, HazardRegion]
  | flush => simp only [step, HazardRegion, iff_false, not_exists]; intro z; split <;> simp
  | position => simp only [step, HazardRegion, iff_false, not_exists]; intro z; split <;> simp
  | isOpen => simp [step, HazardRegion]
  | mode => simp [step, HazardRegion]
  | filename => simp only [step, HazardRegion, iff_false, not_exists]; intro z; split <;> simp
  | fdirname => simp only [step, HazardRegion, iff_false, not_exists]; intro z; split <;> simp
  | fbasename => simp only [step, HazardRegion, iff_false, not_exists]; intro z; split <;> simp
  | fstat => simp only [step, HazardRegion, iff_false, not_exists]; intro z; split <;> simp
  | stat p => simp only [step, HazardRegion, iff_false, not_exists]; intro z; split <;> simp
  | dir p => simp only [step, HazardRegion, iff_false, not_exists]; intro z; split <;> simp
  | separator => simp [step, HazardRegion]
  | dirname p => simp only [step, HazardRegion, iff_false, not_exists]; intro z; split <;> simp
  | basename p => simp only [step, HazardRegion, iff_false, not_exists]; intro z; split <;> simp

/-- the region is inhabited: a stream open for reading, `read(S, 2^62)` (std::length_error), and an updatable
    stream with `write` of an empty buffer-less bytes value -/
def wR : World :=
  { fs := { get := fun _ => some [97], maxOff := 1000, memLimit := 70368744177664 },
    h := { file := some { path := [120], pos := 0, rd := true, wr := true, app := false }, r := true, w := true } }

example : (step wR (.readS (some 4611686018427387904))).2 = .hazard .foreignException := by decide +kernel
example : (step wR (.readB (some 9223372036854775807))).2 = .hazard .foreignException := by decide +kernel
example : (step wR (.writeB (some []))).2 = .hazard .nullArg := by decide +kernel
example : HazardRegion wR (.readS (some 4611686018427387904)) :=
  (file_args_total wR _).mp ⟨.foreignException, by decide +kernel⟩
/-- … and null / negative / zero arguments are outside of it: BLOC error or defined result -/
example : (step wR (.readS none)).2 = .err ∧ (step wR (.readS (some (-5)))).2 = .rd 0 []
    ∧ (step wR (.seekSet (some (-1)))).2 = .int 22 ∧ (step wR (.seekSet none)).2 = .err
    ∧ (step wR (.writeS none)).2 = .int 0 ∧ (step wR (.open none (some [114]))).2 = .err := by decide +kernel

/-! ### sqlite3 -/

section Sqlite
open BlocV.Mod.Sqlite

theorem cstr_of_no_nul : ∀ (s : Sqlite.Bytes), (0 : UInt8) ∉ s → Sqlite.cstr s = s := by
  intro s
  induction s with
  | nil => intro _; rfl
  | cons b rest ih =>
    intro h
    have hb : b ≠ 0 := by intro hb; apply h; simp [hb]
    have hr : (0 : UInt8) ∉ rest := by intro hr; apply h; simp [hr]
    simp [Sqlite.cstr, hb, ih hr]

/-- **sqlite_value_roundtrip.** Every storable value — any integer, any decimal that is not a NaN, any string
    without NUL byte, any non-empty bytes value — is bound to a storage class from which `fetch` / `query` rebuild
    the identical value with the identical type, whatever the buffer state of empty vectors. -/
theorem sqlite_value_roundtrip (eb : Bool) (v : BVal) (h : Storable v) :
    ∃ s, bindOf eb v = some s ∧ fetchOf s = v ∧ (fetchOf s).ty = v.ty := by
  cases v with
  | int i => exact ⟨_, rfl, rfl, rfl⟩
  | dec d =>
    have hd : isNaN d = false := h
    exact ⟨.real d, by simp [bindOf, hd], rfl, rfl⟩
  | str s =>
    have hs : (0 : UInt8) ∉ s := h
    exact ⟨.text s, rfl, by simp [fetchOf, cstr_of_no_nul s hs], by simp [fetchOf, BVal.ty]⟩
  | bytes b =>
    have hb : b ≠ [] := h
    exact ⟨.blob b, by simp [bindOf, hb], rfl, rfl⟩
  | null t => exact absurd h (by simp [Storable])
  | bool b => exact absurd h (by simp [Storable])
  | obj => exact absurd h (by simp [Storable])

example : Storable (.int (-9223372036854775808)) ∧ Storable (.dec 0x8000000000000000) ∧ Storable (.dec 0x7ff0000000000000)
    ∧ Storable (.str [0xc3, 0xa9, 0xff]) ∧ Storable (.str []) ∧ Storable (.bytes [0, 255]) := by decide

/-- What is NOT preserved (each a proved negation at a witness): boolean → integer, NaN → untyped null, a string
    with NUL → cut, empty bytes without buffer → untyped null, a typed null → untyped null. -/
theorem sqlite_not_preserved :
    (bindOf false (.bool true)).map fetchOf = some (.int 1)
    ∧ (bindOf false (.dec 0x7ff8000000000000)).map fetchOf = some (.null .noType)
    ∧ (bindOf false (.str [97, 0, 98])).map fetchOf = some (.str [97])
    ∧ (bindOf false (.bytes [])).map fetchOf = some (.null .noType)
    ∧ (bindOf true (.bytes [])).map fetchOf = some (.bytes [])
    ∧ (bindOf false (.null .integer)).map fetchOf = some (.null .noType)
    ∧ bindOf false .obj = none := by decide

/-- the full path through the state machine: `exec("INSERT …", tup(v))` then `query("SELECT a, typeof(a) FROM t")`,
    and `prepare / bind / execute`, then `prepare / execute / fetch`: the storable value comes back -/
theorem sqlite_insert_query_roundtrip (eb : Bool) (v : BVal) (s : SVal) (hb : bindOf eb v = some s) (hf : fetchOf s = v)
    (hs : s ≠ .null) :
    (Sqlite.run { emptyBuf := eb } [.open, .create, .insert (some [v]), .queryAll]).2
      = [.bool true, .bool true, .bool true, .table [(v, typeofS s)] v.ty]
    ∧ (Sqlite.run { emptyBuf := eb } [.open, .create, .prepare (some .insert), .bind (some [v]) false, .execute, .finalize,
          .prepare (some .select), .execute, .fetch, .fetch]).2
      = [.bool true, .bool true, .bool true, .bool true, .bool true, .bool true, .bool true, .bool true, .row (v, typeofS s), .bool false] := by
  constructor
  · simp [Sqlite.run, Sqlite.step, stepCore, touchTemp, Handle.blurTemp, Handle.releaseTemp, Handle.cursorActive, bindArgs, hb, rowOf, hf,
          declOf]
  · cases s with
    | null => exact absurd rfl hs
    | integer i => simp [Sqlite.run, Sqlite.step, stepCore, touchTemp, Handle.blurTemp, bindArgs, bindMem, hb, rowOf, hf, keepsPointer]
    | real d => simp [Sqlite.run, Sqlite.step, stepCore, touchTemp, Handle.blurTemp, bindArgs, bindMem, hb, rowOf, hf, keepsPointer]
    | text t =>
      by_cases ht : t = [] <;> (try subst ht) <;>
        simp [Sqlite.run, Sqlite.step, stepCore, touchTemp, Handle.blurTemp, bindArgs, bindMem, hb, rowOf, hf, keepsPointer, *]
    | blob t =>
      by_cases ht : t = [] <;> (try subst ht) <;>
        simp [Sqlite.run, Sqlite.step, stepCore, touchTemp, Handle.blurTemp, bindArgs, bindMem, hb, rowOf, hf, keepsPointer, *]

/-- the two memory hazards of the handle, at concrete histories: the statement left dangling by `close()` is
    finalized again by the destructor; a temporary tuple bound with SQLITE_STATIC is read by `execute()` after the
    next statement released it. With a `finalize` before `close`, resp. a tuple held by a variable, there is none. -/
example : (Sqlite.run {} [.open, .create, .prepare (some .select), .close, .destroy]).2.getLast? = some (.hazard .useAfterFree) := by
  decide +kernel
example : (Sqlite.run {} [.open, .create, .prepare (some .select), .finalize, .close, .destroy]).2.getLast? = some (.bool true) := by
  decide +kernel
example : (Sqlite.run {} [.open, .create, .prepare (some .insert), .bind (some [.str [97]]) true, .insert (some [.int 1]), .execute]).2.getLast?
    = some (.hazard .useAfterFree) := by decide +kernel
example : (Sqlite.run {} [.open, .create, .prepare (some .insert), .bind (some [.str [97]]) false, .insert (some [.int 1]), .execute]).2.getLast?
    = some (.bool true) := by decide +kernel

end Sqlite

end BlocV.Proofs.C18F
