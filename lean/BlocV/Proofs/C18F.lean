/-
  C18, file and sqlite3 halves — property theorems about lean/BlocV/Model/Mod/File.lean and Sqlite.lean.
  (see notes/NOTES-C18F.md for what each says and what is not proved)
-/
import BlocV.Proofs.Lemmas.FileMod
import BlocV.Proofs.Lemmas.FileSeq
import BlocV.Proofs.Lemmas.FileDir
import BlocV.Model.Mod.Sqlite
import BlocV.Proofs.Lemmas.SqliteSeq

namespace BlocV.Proofs.C18F
open BlocV.Mod BlocV.Mod.File
open BlocV.Spec.File (readAt writeAt)

def modeW : Bytes := [chW]
def modeR : Bytes := [chR]

/-- the handle right after `open(p, "w")` / while writing: write-only stream on `cstr p` at the end of content `C` -/
def WState (w : World) (p : Path) (C : Bytes) : Prop :=
  ∃ l, w.h.file = some { path := cstr p, pos := C.length, rd := false, wr := true, app := false, last := l }
    ∧ w.h.w = true ∧ w.fs.get (cstr p) = some C

/-- the handle after `open(p, "r")`: read-only stream on `cstr p` at offset `k` of content `D` -/
def RState (w : World) (p : Path) (D : Bytes) (k : Nat) : Prop :=
  ∃ l, w.h.file = some { path := cstr p, pos := k, rd := true, wr := false, app := false, last := l }
    ∧ w.h.r = true ∧ w.fs.get (cstr p) = some D

theorem openH_w (w : World) (p : Path) :
    openH w p modeW = ({ fs := w.fs.put (cstr p) [],
                         h := { file := some { path := cstr p, pos := 0, rd := false, wr := true, app := false },
                                path := p, mode := modeW, w := true, r := false } }, 0) := by
  have hm : parseMode modeW = some ⟨false, true, false, true, true, false⟩ := by decide
  have hW : chW ∈ modeW := by decide
  have hP : chPlus ∉ modeW := by decide
  have hR : chR ∉ modeW := by decide
  unfold openH
  rw [hm]
  cases hg : w.fs.get (cstr p) <;> simp [Spec.File.sopen, hW, hP, hR, hg]

theorem openH_r (w : World) (p : Path) (D : Bytes) (hg : w.fs.get (cstr p) = some D) :
    openH w p modeR = ({ fs := w.fs.put (cstr p) D,
                         h := { file := some { path := cstr p, pos := 0, rd := true, wr := false, app := false },
                                path := p, mode := modeR, w := false, r := true } }, 0) := by
  have hm : parseMode modeR = some ⟨true, false, false, false, false, false⟩ := by decide
  have hW : chW ∉ modeR := by decide
  have hP : chPlus ∉ modeR := by decide
  have hA : chA ∉ modeR := by decide
  have hR : chR ∈ modeR := by decide
  unfold openH
  rw [hm]
  simp [Spec.File.sopen, hg, hW, hP, hA, hR]

theorem step_open_w (w : World) (p : Path) :
    (step w (.open (some p) (some modeW))).2 = .int 0 ∧ WState (step w (.open (some p) (some modeW))).1 p [] := by
  have hc : hasComma modeW = false := by decide
  simp only [step, hc, openH_w]
  simp [WState, FS.put]

theorem step_open_r (w : World) (p : Path) (D : Bytes) (hg : w.fs.get (cstr p) = some D) :
    (step w (.open (some p) (some modeR))).2 = .int 0 ∧ RState (step w (.open (some p) (some modeR))).1 p D 0
    ∧ (step w (.open (some p) (some modeR))).1.fs.get (cstr p) = some D := by
  have hc : hasComma modeR = false := by decide
  simp only [step, hc, openH_r w p D hg]
  simp [RState, FS.put]

theorem step_write (w : World) (p : Path) (C d : Bytes) (hs : WState w p C) (hd : d.length < 4294967296) :
    (step w (.writeS (some d))).2 = .int d.length ∧ WState (step w (.writeS (some d))).1 p (C ++ d) := by
  obtain ⟨l, hf, hw, hg⟩ := hs
  have hl : writeLen d = d.length := by unfold writeLen; omega
  by_cases hd0 : d = []
  · subst hd0
    simp [step, hw, hf, writeH, WState, hg, badOutput]
  · have hne : d.isEmpty = false := by cases d <;> simp_all
    simp [step, hw, hf, writeH, hl, hne, hg, badOutput, WState, FS.put, fwriteBytes_eq_writeAt, File.writeAt_end, hd0]

theorem step_close (w : World) : (step w .close).2 = .bool true ∧ (step w .close).1.fs = w.fs ∧ (step w .close).1.h = {} := by
  simp [step, Handle.close]

theorem step_read (w : World) (p : Path) (D : Bytes) (k : Nat) (n : Int64) (hs : RState w p D k)
    (hn : 0 < n.toInt) :
    (step w (.readB (some n))).2 = .rd (readAt D k n.toInt.toNat).length (readAt D k n.toInt.toNat)
    ∧ RState (step w (.readB (some n))).1 p D (k + (readAt D k n.toInt.toNat).length)
    ∧ (step w (.readB (some n))).1.fs = w.fs := by
  obtain ⟨l, hf, hr, hg⟩ := hs
  have hloop := readLoop_eq D (readFuel n.toInt) k n.toInt [] (readFuel_ok _)
  simp only [step, hr, hf, readH, badInput]
  generalize n.toInt = N at *
  simp [hn, hg, hloop, readAt, RState]

/-- the answers of consecutive reads with counts `ns` over what is left (`D`) of the file -/
def slices : Bytes → List Int64 → List Res
  | _, [] => []
  | D, n :: ns => .rd (D.take n.toInt.toNat).length (D.take n.toInt.toNat) :: slices (D.drop n.toInt.toNat) ns

def writeOps (ds : List Bytes) : List Op := ds.map fun d => .writeS (some d)
def readOps (ns : List Int64) : List Op := ns.map fun n => .readB (some n)

theorem run_writes (p : Path) : ∀ (ds : List Bytes) (w : World) (C : Bytes), WState w p C →
    (∀ d ∈ ds, d.length < 4294967296) →
    (run w (writeOps ds)).2 = ds.map (fun d => .int d.length) ∧ WState (run w (writeOps ds)).1 p (C ++ ds.flatten) := by
  intro ds
  induction ds with
  | nil => intro w C hs _; simpa [writeOps, run] using hs
  | cons d ds ih =>
    intro w C hs hl
    have h1 := step_write w p C d hs (hl d (by simp))
    have h2 := ih (step w (.writeS (some d))).1 (C ++ d) h1.2 (fun x hx => hl x (by simp [hx]))
    simp only [writeOps, List.map_cons, run_cons] at h2 ⊢
    refine ⟨by rw [h1.1, h2.1], ?_⟩
    simpa [List.append_assoc] using h2.2

theorem run_reads (p : Path) (D : Bytes) : ∀ (ns : List Int64) (w : World) (k : Nat), RState w p D k →
    (∀ n ∈ ns, 0 < n.toInt) →
    (run w (readOps ns)).2 = slices (D.drop k) ns ∧ (run w (readOps ns)).1.fs = w.fs := by
  intro ns
  induction ns with
  | nil => intro w k _ _; simp [readOps, run, slices]
  | cons n ns ih =>
    intro w k hs hn
    have hn1 := hn n (by simp)
    have h1 := step_read w p D k n hs hn1
    have h2 := ih (step w (.readB (some n))).1 _ h1.2.1 (fun x hx => hn x (by simp [hx]))
    simp only [readOps, List.map_cons, run_cons] at h2 ⊢
    refine ⟨?_, by rw [h2.2, h1.2.2]⟩
    rw [h1.1, h2.1]
    simp only [slices, readAt]
    generalize n.toInt.toNat = N
    have hdd : List.drop (k + (List.take N (List.drop k D)).length) D = List.drop N (List.drop k D) := by
      rw [List.length_take, List.length_drop]
      by_cases h : N ≤ D.length - k
      · rw [Nat.min_eq_left h, List.drop_drop]
      · rw [Nat.min_eq_right (by omega), List.drop_of_length_le (by omega),
            List.drop_of_length_le (by rw [List.length_drop]; omega)]
    rw [hdd]

/-- **file_write_read_roundtrip.** For ALL byte lists, all chunkings `ds` of the writes and all positive read counts
    `ns` (ANY value up to INT64_MAX: below, equal to or above 4096, multiple of it or not — the request is no allocation):
    `open(p,"w")`, the writes, `close`, `open(p,"r")`, the reads answer exactly: 0, the chunk lengths, TRUE, 0, and the
    consecutive slices `take n` of the concatenated data — every `read(n)` returns `min(n, remaining)` bytes —
    and an independent reader finds exactly the concatenated data in the file afterwards. -/
theorem file_write_read_roundtrip (w : World) (p : Path) (ds : List Bytes) (ns : List Int64)
    (hl : ∀ d ∈ ds, d.length < 4294967296) (hn : ∀ n ∈ ns, 0 < n.toInt) :
    let ops := [Op.open (some p) (some modeW)] ++ writeOps ds ++ [.close, .open (some p) (some modeR)] ++ readOps ns
    (run w ops).2 = [.int 0] ++ ds.map (fun d => .int d.length) ++ [.bool true, .int 0] ++ slices ds.flatten ns
    ∧ (run w ops).1.content p = some ds.flatten := by
  intro ops
  have ho := step_open_w w p
  have hw := run_writes p ds _ [] ho.2 hl
  obtain ⟨_, _, _, hg⟩ := hw.2
  have hc := step_close (run (step w (.open (some p) (some modeW))).1 (writeOps ds)).1
  have hg' : (step (run (step w (.open (some p) (some modeW))).1 (writeOps ds)).1 .close).1.fs.get (cstr p)
      = some ([] ++ ds.flatten) := by
    rw [hc.2.1]; exact hg
  have hr := step_open_r _ p _ hg'
  have hrd := run_reads p ([] ++ ds.flatten) ns _ 0 hr.2.1 hn
  simp only [ops, List.append_assoc, List.cons_append, List.nil_append, run_cons, run_append]
  refine ⟨?_, ?_⟩
  · rw [ho.1, hw.1, hc.1, hr.1, hrd.1]
    simp
  · simp only [World.content]
    rw [hrd.2, hr.2.2]
    simp

/-- what a client has read -/
def dataOf : Res → Bytes
  | .rd _ d => d
  | _ => []

theorem slices_concat : ∀ (ns : List Int64) (D : Bytes),
    ((slices D ns).map dataOf).flatten = D.take (ns.map (·.toInt.toNat)).sum := by
  intro ns
  induction ns with
  | nil => intro D; simp [slices]
  | cons n ns ih =>
    intro D
    simp only [slices, List.map_cons, List.flatten_cons, dataOf, List.sum_cons, ih]
    rw [List.take_add]

/-- **file_write_read_concat.** … in particular: whatever the chunking of the writes and whatever the chunking of the reads
    (any positive counts), the concatenation of everything read is a prefix of the concatenation of everything written, and
    it is ALL of it as soon as the counts add up to the size. -/
theorem file_write_read_concat (w : World) (p : Path) (ds : List Bytes) (ns : List Int64)
    (hl : ∀ d ∈ ds, d.length < 4294967296) (hn : ∀ n ∈ ns, 0 < n.toInt) (hsum : ds.flatten.length ≤ (ns.map (·.toInt.toNat)).sum) :
    let ops := [Op.open (some p) (some modeW)] ++ writeOps ds ++ [.close, .open (some p) (some modeR)] ++ readOps ns
    (((run w ops).2.drop (ds.length + 3)).map dataOf).flatten = ds.flatten := by
  intro ops
  have h := (file_write_read_roundtrip w p ds ns hl hn).1
  simp only [ops] at h ⊢
  rw [h]
  have e : ([Res.int 0] ++ ds.map (fun (d : Bytes) => Res.int d.length) ++ [Res.bool true, Res.int 0] ++ slices ds.flatten ns).drop (ds.length + 3)
      = slices ds.flatten ns := List.drop_left' (by simp)
  rw [e, slices_concat, List.take_of_length_le hsum]

example : (∀ d ∈ [[(97 : UInt8), 0], [98]], d.length < 4294967296) ∧ (∀ n ∈ [(2 : Int64), 9223372036854775807], 0 < n.toInt)
    ∧ [[(97 : UInt8), 0], [98]].flatten.length ≤ ([(2 : Int64), 9223372036854775807].map (·.toInt.toNat)).sum := by decide

/-- Non-vacuity of the round trip: the hypotheses hold in a concrete world for 3 bytes incl. NUL written as
    "a\\0" + "b" and read back with counts 2 and INT64_MAX (the second read gets the 1 byte that is left). -/
def w0 : World := { fs := { get := fun _ => none, maxOff := 1000 }, h := {} }

example :
    (run w0 ([Op.open (some [120]) (some modeW)] ++ writeOps [[97, 0], [98]] ++ [.close, .open (some [120]) (some modeR)]
        ++ readOps [2, 9223372036854775807])).2
      = [.int 0, .int 2, .int 1, .bool true, .int 0] ++ slices [97, 0, 98] [2, 9223372036854775807]
    ∧ slices [97, 0, 98] [2, 9223372036854775807] = [.rd 2 [97, 0], .rd 1 [98]] :=
  ⟨(file_write_read_roundtrip w0 [120] [[97, 0], [98]] [2, 9223372036854775807] (by decide) (by decide)).1, by decide⟩

/-- **read count.** On a readable stream, `read(var, n)` with `0 < n` returns exactly `min(n, remaining)` bytes — the
    next ones — and advances the position by that number: for n ≤ 4096, n > 4096, multiples of 4096 or not. -/
theorem file_read_count (w : World) (p : Path) (D : Bytes) (k : Nat) (n : Int64) (hs : RState w p D k)
    (hn : 0 < n.toInt) :
    ∃ data, (step w (.readB (some n))).2 = .rd data.length data ∧ data = (D.drop k).take n.toInt.toNat
      ∧ data.length = min n.toInt.toNat (D.length - k)
      ∧ RState (step w (.readB (some n))).1 p D (k + data.length) := by
  have h := step_read w p D k n hs hn
  refine ⟨readAt D k n.toInt.toNat, h.1, rfl, ?_, h.2.1⟩
  simp [readAt, List.length_take]

/-! ### refinement of the POSIX specification -/

/-- **file_refines_spec (write).** `fwrite` on a writable stream = `Spec.swrite` (pwrite at the offset, or at the end
    with O_APPEND; zero-filled gap after a seek beyond the end), for every content, position and data. -/
theorem file_refines_spec_write (w : World) (f : OFile) (d : Bytes) (hf : w.h.file = some f) (hw : f.wr = true)
    (hd : d.length < 4294967296) :
    (writeH w f d).2 = d.length ∧
    ∃ f', (writeH w f d).1.h.file = some f' ∧ f'.path = f.path ∧ absF (writeH w f d).1 f' = Spec.File.swrite (absF w f) d := by
  have hl : writeLen d = d.length := by unfold writeLen; omega
  by_cases hd0 : d = []
  · subst hd0
    simp [writeH, hw, hf, absF, Spec.File.swrite]
  · have hne : d.isEmpty = false := by cases d <;> simp_all
    cases ha : f.app <;>
      simp [writeH, hw, hl, hne, absF, Spec.File.swrite, hd0, FS.put, fwriteBytes_eq_writeAt, ha]

/-- **file_refines_spec (read).** The chunk loop on a readable stream = `Spec.sread`. -/
theorem file_refines_spec_read (w : World) (f : OFile) (n : Int64) (str : Bool) (hr : f.rd = true) (hn : 0 < n.toInt) :
    ∃ f', (readH w f str n).1.h.file = some f' ∧ f'.path = f.path
      ∧ (readH w f str n).2 = .rd (Spec.File.sread (absF w f) n.toInt.toNat).1.length (Spec.File.sread (absF w f) n.toInt.toNat).1
      ∧ absF (readH w f str n).1 f' = (Spec.File.sread (absF w f) n.toInt.toNat).2 := by
  have hloop := readLoop_eq ((w.fs.get f.path).getD []) (readFuel n.toInt) f.pos n.toInt [] (readFuel_ok _)
  simp only [readH]
  generalize n.toInt = N at *
  simp [hn, hr, hloop, absF, Spec.File.sread, readAt]

/-- **file_refines_spec (seek).** `seekset/seekcur/seekend` = `Spec.sseek`: errno 22 and no movement exactly when the
    target is negative or beyond what the file system accepts. -/
theorem file_refines_spec_seek (w : World) (f : OFile) (wh : Spec.File.Whence) (off : Int64) :
    match Spec.File.sseek w.fs.maxOff (absF w f) wh off.toInt with
    | none => seekH w f wh off = (w, .int 22)
    | some s => (seekH w f wh off).2 = .int 0 ∧ (seekH w f wh off).1.h.file = some { f with pos := s.pos, last := .none }
                ∧ (seekH w f wh off).1.fs = w.fs := by
  unfold seekH absF
  cases h : Spec.File.sseek w.fs.maxOff ⟨(w.fs.get f.path).getD [], f.pos, f.app⟩ wh off.toInt <;> simp [EINVAL, h]

/-! ### refinement at the level of whole call sequences -/

section Seq
open BlocV.Spec.File (SStream SOp SRes sstep srun sline uptoLF)

/-- **file_refines_spec.** For EVERY open handle (any mode, any content, any position) and EVERY list of stream calls —
    `read` (string or bytes variant, any count: negative, zero, below / equal to / above the 4096-byte buffer), `readln`,
    `write` (string or bytes), `seekset` / `seekcur` / `seekend` (any offset), `position`, `flush`, mixed in any order —
    the answers of the module are the answers of the POSIX-level specification run on the abstraction of the handle
    (`srun`), call by call, and the handle ends as the abstraction of the specification's final state: same content of
    the file, same offset. Side condition: no call of the run answers `undefinedSeq`, i.e. the history stays outside
    the recorded region `C18.file_update_without_reposition` (C11 7.21.5.3 p7). -/
theorem file_refines_spec : ∀ (ops : List Op) (w : World) (f : OFile), w.h.file = some f →
    (∀ op ∈ ops, StreamOp op) → (∀ r ∈ (run w ops).2, r ≠ .undefinedSeq) →
    (run w ops).2 = (srun w.fs.maxOff (absS w f) (ops.map toS)).2.map resOf
    ∧ ∃ f', (run w ops).1.h.file = some f' ∧ absS (run w ops).1 f' = (srun w.fs.maxOff (absS w f) (ops.map toS)).1 := by
  intro ops
  induction ops with
  | nil => intro w f hf _ _; exact ⟨by simp [run, srun], f, by simpa [run] using hf, by simp [run, srun]⟩
  | cons op ops ih =>
    intro w f hf hops hu
    rw [run_cons] at hu ⊢
    have hu1 : (step w op).2 ≠ .undefinedSeq := hu _ (by simp)
    obtain ⟨f1, h1, h2, h3, h4⟩ := step_refines w f hf op (hops op (by simp)) hu1
    have := ih (step w op).1 f1 h1 (fun o ho => hops o (by simp [ho])) (fun r hr => hu r (by simp [hr]))
    rw [h2, h3] at this
    obtain ⟨ha, f', hb, hc⟩ := this
    refine ⟨?_, f', hb, ?_⟩
    · simp only [List.map_cons, srun, List.map_cons]
      rw [ha, h4]
    · simp only [List.map_cons, srun]
      exact hc

/-- **file_refines_spec for one-way streams**: on a handle opened without `+` (read-only or write-only stream) whose `_r` flag
    is not set when the stream cannot read, the side condition of `file_refines_spec` holds by itself: EVERY list of stream
    calls refines the specification. (The proviso excludes the mode strings `"wr"`, `"w\0r"`, `"ar"`: BLOC computes `_r` with
    `find('r')` over the whole string, so `read()` reaches `fread` on a write-only stream with output pending — part of the
    recorded region `C18.file_update_without_reposition`.) -/
theorem file_refines_spec_oneway : ∀ (ops : List Op) (w : World) (f : OFile), w.h.file = some f → (f.wr && f.rd) = false →
    (f.rd = false → w.h.r = false) →
    (∀ op ∈ ops, StreamOp op) → ∀ r ∈ (run w ops).2, r ≠ .undefinedSeq := by
  intro ops
  induction ops with
  | nil => intro w f _ _ _ _ r hr; simp [run] at hr
  | cons op ops ih =>
    intro w f hf h1 h2 hops r hr
    rw [run_cons] at hr
    have hu := step_oneway w f hf h1 h2 op
    obtain ⟨f1, g1, _, g3, _⟩ := step_refines w f hf op (hops op (by simp)) hu
    have hfl := sstep_flags w.fs.maxOff (absS w f) (toS op)
    have hmy := sstep_may w.fs.maxOff (absS w f) (toS op)
    rw [← g3] at hfl hmy
    have e1 : f1.rd = f.rd := hfl.1
    have e2 : f1.wr = f.wr := hfl.2
    have e3 : (step w op).1.h.r = w.h.r := hmy.1
    have h1' : (f1.wr && f1.rd) = false := by rw [e1, e2]; exact h1
    have h2' : f1.rd = false → (step w op).1.h.r = false := by rw [e1, e3]; exact h2
    simp only [List.mem_cons] at hr
    rcases hr with rfl | hr
    · exact hu
    · exact ih (step w op).1 f1 g1 h1' h2' (fun o ho => hops o (by simp [ho])) r hr

/-- the hypotheses of `file_refines_spec` are satisfiable on a non-trivial history: a stream opened "r" on the file
    `61 0a 62 63`: `readln`, `read(S, 1)`, `seekset(1)`, `write("XY")` (refused), `position()`, `flush()`, `seekend(-1)`,
    `read(X, 5000)`, `read(S, -3)` — every call is a stream call and none answers `undefinedSeq`. -/
def wSeq : World :=
  { fs := { get := fun q => if q = [120] then some [97, 10, 98, 99] else none, maxOff := 1000 },
    h := { file := some { path := [120], pos := 0, rd := true, wr := false, app := false }, path := [120], mode := [114], r := true, w := false } }

def opsSeq : List Op :=
  [.readln, .readS (some 1), .seekSet (some 1), .writeS (some [88, 89]), .position, .flush, .seekEnd (some (-1)), .readB (some 5000),
   .readS (some (-3))]

example : wSeq.h.file = some { path := [120], pos := 0, rd := true, wr := false, app := false } ∧ (∀ op ∈ opsSeq, StreamOp op)
    ∧ (∀ r ∈ (run wSeq opsSeq).2, r ≠ .undefinedSeq) :=
  ⟨rfl, by simp [opsSeq, StreamOp], file_refines_spec_oneway opsSeq wSeq _ rfl rfl (by simp) (by simp [opsSeq, StreamOp])⟩

/-- the specification side of that history, evaluated: line `61 0a`, then `62`, seek, refused write, offset 1, …, the last
    byte, nothing for a negative count -/
example : (srun 1000 ⟨⟨[97, 10, 98, 99], 0, false⟩, true, false, true, false⟩
      [.readLine, .read 1, .seek .set 1, .write [88, 89], .tell, .sync, .seek .end_ (-1), .read 5000, .read (-3)]).2
    = [.line (some [97, 10]), .data [98], .errno 0, .denied, .offset 1, .done, .errno 0, .data [99], .data []] := by
  decide +kernel

end Seq

/-! ### update streams: histories in which every switch of direction goes through a seek -/

section Repositioned
open BlocV.Proofs.FileDir
open BlocV.Spec.File (SStream SOp SRes sstep srun)

/-- **file_disciplined_defined.** A history of stream calls in which no call switches the direction of transfer while one is
    "open" — a read after a write only behind an in-range `seekset` or a `flush`, a write after a read only behind an
    in-range `seekset` (`Disciplined`, a condition on the CALLS alone, no state consulted) — never reaches the region C11
    7.21.5.3 p7 leaves undefined (recorded finding `C18.file_update_without_reposition` is its complement): no call answers
    `undefinedSeq`, on ANY handle (any mode incl. r+ / w+ / a+, any content, any position) whose stream is not in the
    middle of a transfer. -/
theorem file_disciplined_defined : ∀ (ops : List Op) (w : World) (f : OFile) (p : Pend), w.h.file = some f →
    (∀ op ∈ ops, StreamOp op) → Approx p f.last → Disciplined w.fs.maxOff p ops →
    ∀ r ∈ (run w ops).2, r ≠ .undefinedSeq := by
  intro ops
  induction ops with
  | nil => intro w f p _ _ _ _ r hr; simp [run] at hr
  | cons op ops ih =>
    intro w f p hf hops ha hd r hr
    rw [run_cons] at hr
    obtain ⟨hal, hd'⟩ := hd
    obtain ⟨hu, hn⟩ := step_disciplined w f op p hf (hops op (by simp)) ha hal
    obtain ⟨f1, g1, g2, _, _⟩ := step_refines w f hf op (hops op (by simp)) hu
    simp only [List.mem_cons] at hr
    rcases hr with rfl | hr
    · exact hu
    · have hd'' : Disciplined (step w op).1.fs.maxOff (p.next w.fs.maxOff op) ops := by rw [g2]; exact hd'
      exact ih (step w op).1 f1 _ g1 (fun o ho => hops o (by simp [ho])) (hn f1 g1) hd'' r hr

/-- **file_refines_spec_repositioned.** On EVERY open handle — update streams `r+`, `w+`, `a+` and their `b` variants
    included — whose stream is not in the middle of a transfer (as after `open`), EVERY history of stream calls in which the
    switches of direction go through a seek (`Disciplined`) is the POSIX-level specification run: same answers call by call,
    same content and offset at the end. In particular what is read after a write is what the specification reads: the bytes
    written (`srun_update_roundtrip`, `file_update_roundtrip`). This is `file_refines_spec` with its side condition
    discharged from the shape of the history. -/
theorem file_refines_spec_repositioned (ops : List Op) (w : World) (f : OFile) (hf : w.h.file = some f)
    (hops : ∀ op ∈ ops, StreamOp op) (hfresh : f.last ≠ .output ∧ f.last ≠ .input) (hd : Disciplined w.fs.maxOff .none ops) :
    (run w ops).2 = (srun w.fs.maxOff (absS w f) (ops.map toS)).2.map resOf
    ∧ ∃ f', (run w ops).1.h.file = some f' ∧ absS (run w ops).1 f' = (srun w.fs.maxOff (absS w f) (ops.map toS)).1 :=
  file_refines_spec ops w f hf hops
    (file_disciplined_defined ops w f .none hf hops ⟨fun h => absurd h hfresh.1, fun h => absurd h hfresh.2⟩ hd)

/-- **file_update_roundtrip.** Read-after-write on an update stream: on any handle opened for reading AND writing without
    append (`r+`, `w+`), whatever the file holds and wherever the stream stands, `seekset(o); write(d); seekset(o); read(v, |d|)`
    with any offset `0 ≤ o ≤ maxOff` and any non-empty data below 2^32 bytes answers `0, |d|, 0` and then delivers exactly `d`. -/
theorem file_update_roundtrip (w : World) (f : OFile) (o n : Int64) (d : Bytes) (hf : w.h.file = some f)
    (hrd : f.rd = true) (hwr : f.wr = true) (happ : f.app = false) (hr : w.h.r = true) (hw : w.h.w = true)
    (hfresh : f.last ≠ .output ∧ f.last ≠ .input) (ho : inRange w.fs.maxOff o = true)
    (hd : d ≠ []) (hlen : d.length < 4294967296) (hn : n.toInt = d.length) :
    (run w [.seekSet (some o), .writeS (some d), .seekSet (some o), .readS (some n)]).2
      = [.int 0, .int d.length, .int 0, .rd d.length d] := by
  have hdis : Disciplined w.fs.maxOff .none [.seekSet (some o), .writeS (some d), .seekSet (some o), .readS (some n)] := by
    simp [Disciplined, Pend.allows, Pend.next, ho]
  have hops : ∀ op ∈ [Op.seekSet (some o), .writeS (some d), .seekSet (some o), .readS (some n)], StreamOp op := by
    intro op hop
    simp only [List.mem_cons, List.not_mem_nil, or_false] at hop
    rcases hop with rfl | rfl | rfl | rfl <;> simp [StreamOp, hlen]
  have h := (file_refines_spec_repositioned _ w f hf hops hfresh hdis).1
  simp only [inRange, Bool.and_eq_true, decide_eq_true_eq] at ho
  have ek : o.toInt = ((o.toInt.toNat : Nat) : Int) := (Int.toNat_of_nonneg ho.1).symm
  have hs := srun_update_roundtrip w.fs.maxOff (absS w f) o.toInt.toNat d ho.2 hd (by simp [absS, hrd]) (by simp [absS, hwr])
    (by simp [absS, hr]) (by simp [absS, hw]) (by simp [absS, absF, happ])
  rw [h]
  simp only [List.map_cons, List.map_nil, toS, hn]
  rw [ek, hs]
  simp [resOf]

/-- hypotheses satisfiable (a handle opened "w+" on the file `abcdef`, standing at offset 6 after a read that met the end
    of the file): `seekset(2); write("XY"); seekset(2); read(v, 2)` — and the same history WITHOUT the second seek is the
    recorded finding's region (the read directly after the write answers `undefinedSeq`). -/
def wUpd : World :=
  { fs := { get := fun q => if q = [120] then some [97, 98, 99, 100, 101, 102] else none, maxOff := 1000 },
    h := { file := some { path := [120], pos := 6, rd := true, wr := true, app := false, last := .inputEof }, path := [120],
           mode := [119, 43], r := true, w := true } }

example : wUpd.h.file = some { path := [120], pos := 6, rd := true, wr := true, app := false, last := .inputEof }
    ∧ inRange wUpd.fs.maxOff 2 = true ∧ ((2 : Int64).toInt = ([88, 89] : Bytes).length)
    ∧ Disciplined wUpd.fs.maxOff .none [.seekSet (some 2), .writeS (some [88, 89]), .seekSet (some 2), .readS (some 2)]
    ∧ ¬ Disciplined wUpd.fs.maxOff .none [.seekSet (some 2), .writeS (some [88, 89]), .readS (some 2)]
    ∧ (step (step (step wUpd (.seekSet (some 2))).1 (.writeS (some [88, 89]))).1 (.readS (some 2))).2 = .undefinedSeq := by
  refine ⟨rfl, by decide, by decide, by decide, by decide, by decide +kernel⟩

/-- the region also holds the write-only streams on which BLOC sets `_r` (mode string `"wr"`: `find('r')` succeeds, `fopen`
    opens for writing only): `write(1 byte); read(X, 4097)` calls `fread` with output pending — the model answers
    `undefinedSeq` (glibc throws the unflushed byte away); with a `flush()` in between the read is defined and delivers nothing -/
def wWr : World :=
  { fs := { get := fun q => if q = [120] then some [] else none, maxOff := 1000 },
    h := { file := some { path := [120], pos := 0, rd := false, wr := true, app := false }, path := [120], mode := [119, 114],
           r := true, w := true } }

example : (step (step wWr (.writeB (some [20]))).1 (.readB (some 4097))).2 = .undefinedSeq
    ∧ (step (step (step wWr (.writeB (some [20]))).1 .flush).1 (.readB (some 4097))).2 = .rd 0 []
    ∧ Disciplined wWr.fs.maxOff .none [.writeB (some [20]), .flush, .readB (some 4097)]
    ∧ ¬ Disciplined wWr.fs.maxOff .none [.writeB (some [20]), .readB (some 4097)] := by
  refine ⟨by decide +kernel, by decide +kernel, by decide, by decide⟩

end Repositioned

/-! ### readln -/

theorem readlnScan_line (l rest : Bytes) (hl : LF ∉ l) : ∀ (r : Nat) (acc : Bytes) (k : Nat), r + l.length < 4096 →
    readlnScan (l ++ LF :: rest) r acc k = (acc ++ l ++ [LF], k + l.length + 1, .lf) := by
  induction l with
  | nil => intro r acc k h; simp [readlnScan, show ¬ r ≥ 4096 by simp at h; omega]
  | cons b l ih =>
    intro r acc k h
    have hb : b ≠ LF := by intro hb; apply hl; simp [hb]
    have hl' : LF ∉ l := by intro h'; apply hl; simp [h']
    simp only [List.length_cons] at h
    have hr : ¬ r ≥ 4096 := by omega
    simp only [List.cons_append, readlnScan, hr, if_false, hb]
    rw [ih hl' (r + 1) (acc ++ [b]) (k + 1) (by omega)]
    simp [Nat.add_assoc, Nat.add_comm 1]

theorem readlnScan_eof (l : Bytes) (hl : LF ∉ l) : ∀ (r : Nat) (acc : Bytes) (k : Nat), r + l.length ≤ 4096 →
    readlnScan l r acc k = (acc ++ l, k + l.length, .eof) := by
  induction l with
  | nil => intro r acc k _; simp [readlnScan]
  | cons b l ih =>
    intro r acc k h
    have hb : b ≠ LF := by intro hb; apply hl; simp [hb]
    have hl' : LF ∉ l := by intro h'; apply hl; simp [h']
    simp only [List.length_cons] at h
    have hr : ¬ r ≥ 4096 := by omega
    simp only [readlnScan, hr, if_false, hb]
    rw [ih hl' (r + 1) (acc ++ [b]) (k + 1) (by omega)]
    simp [Nat.add_assoc, Nat.add_comm 1]

/-- **file_readln_line.** On a readable stream whose unread part is `l ++ LF :: rest` with `l` shorter than the buffer
    and free of LF — and otherwise ARBITRARY bytes, NUL included — `readln` answers TRUE, stores exactly `l ++ [LF]`
    and leaves the position behind the LF: nothing is dropped. -/
theorem file_readln_line (w : World) (p : Path) (D : Bytes) (k : Nat) (l rest : Bytes) (hs : RState w p D k)
    (hD : D.drop k = l ++ LF :: rest) (hl : LF ∉ l) (hlen : l.length < 4096) :
    (step w .readln).2 = .ln true (some (l ++ [LF])) ∧ RState (step w .readln).1 p D (k + l.length + 1) := by
  obtain ⟨lst, hf, hr, hg⟩ := hs
  have hscan := readlnScan_line l rest hl 0 [] 0 (by omega)
  simp [step, hr, hf, badInput, readlnH, hg, hD, hscan, RState, Nat.add_assoc]

/-- … and the last line of a file without final LF comes back whole as well, NUL bytes included. -/
theorem file_readln_last (w : World) (p : Path) (D : Bytes) (k : Nat) (hs : RState w p D k)
    (hl : LF ∉ D.drop k) (hne : D.drop k ≠ []) (hlen : (D.drop k).length ≤ 4096) :
    (step w .readln).2 = .ln true (some (D.drop k)) := by
  obtain ⟨lst, hf, hr, hg⟩ := hs
  have hscan := readlnScan_eof (D.drop k) hl 0 [] 0 (by omega)
  have hpos : 0 < (D.drop k).length := List.length_pos_iff.mpr hne
  simp only [step, hr, hf, badInput, readlnH, hg]
  simp only [Option.getD_some, hscan]
  have hpos' : 0 < D.length - k := by simpa using hpos
  simp [hpos']

/-- **file_readln_spec.** On a readable stream at ANY position of ANY content `readln` is the specification's line read:
    FALSE (nothing stored) exactly at the end of the file, otherwise TRUE with `Spec.File.sline` of the unread part —
    the bytes up to and including the first LF, but at most 4096 per call (NOT 4095: the buffer is not NUL-terminated) —
    and the position moves by exactly that many bytes. (`sline_line`: a line shorter than 4096 ends with its LF;
    `sline_full`: 4096 bytes without LF come back as one piece of exactly 4096; `sline_length_le`, `sline_prefix`.) -/
theorem file_readln_spec (w : World) (p : Path) (D : Bytes) (k : Nat) (hs : RState w p D k) :
    (step w .readln).2 = (if D.drop k = [] then .ln false none else .ln true (some (Spec.File.sline (D.drop k))))
    ∧ RState (step w .readln).1 p D (k + (if D.drop k = [] then 0 else (Spec.File.sline (D.drop k)).length)) := by
  obtain ⟨lst, hf, hr, hg⟩ := hs
  obtain ⟨l, e⟩ := readlnH_shape w { path := cstr p, pos := k, rd := true, wr := false, app := false, last := lst }
  simp only [step, hr, hf, badInput, Bool.not_true, Bool.false_eq_true, if_false, Bool.false_and]
  rw [e]
  by_cases hrest : D.drop k = []
  · simp [lineD, hg, hrest, moved, RState, hr]
  · simp [lineD, hg, hrest, moved, RState, hr]

/-- the lines a client gets from repeated `readln` calls -/
def linesOf : List Res → List Bytes
  | [] => []
  | .ln _ (some l) :: rs => l :: linesOf rs
  | _ :: rs => linesOf rs

/-- **file_readln_all.** Reading a file line by line loses nothing and invents nothing: for every content (NUL bytes,
    CR, lines longer than the 4096-byte buffer, no final LF) and every start position, the lines stored by `n` consecutive
    `readln` calls, concatenated, are exactly the unread part of the file, as soon as `n` is at least its length. -/
theorem file_readln_all (p : Path) (D : Bytes) : ∀ (n : Nat) (w : World) (k : Nat), RState w p D k → (D.drop k).length ≤ n →
    (linesOf (run w (List.replicate n .readln)).2).flatten = D.drop k := by
  intro n
  induction n with
  | zero =>
    intro w k _ hl
    have : D.drop k = [] := List.eq_nil_of_length_eq_zero (by omega)
    simp [run, linesOf, this]
  | succ n ih =>
    intro w k hs hl
    have h := file_readln_spec w p D k hs
    rw [List.replicate_succ, run_cons]
    by_cases hrest : D.drop k = []
    · simp only [hrest, if_true, Nat.add_zero] at h
      have := ih (step w .readln).1 k h.2 (by simp [hrest])
      simp only [h.1, linesOf, this]
    · simp only [hrest, if_false] at h
      have hpos := sline_length_pos (D.drop k) hrest
      have hpre := sline_prefix (D.drop k)
      have hd : D.drop (k + (Spec.File.sline (D.drop k)).length) = (D.drop k).drop (Spec.File.sline (D.drop k)).length := by
        rw [List.drop_drop]
      have hlen : (D.drop (k + (Spec.File.sline (D.drop k)).length)).length ≤ n := by
        rw [hd, List.length_drop]; omega
      have := ih (step w .readln).1 _ h.2 hlen
      simp only [h.1, linesOf, List.flatten_cons, this, hd]
      exact hpre.symm

/-- the hypotheses of `file_readln_spec` / `file_readln_all` hold after `open(p, "r")` of an existing file -/
def wL : World := { fs := { get := fun q => if q = [120] then some [97, 10, 98] else none, maxOff := 1000 }, h := {} }

example : RState (step wL (.open (some [120]) (some modeR))).1 [120] [97, 10, 98] 0 ∧ (([97, 10, 98] : Bytes).drop 0).length ≤ 5 :=
  ⟨(step_open_r wL [120] [97, 10, 98] (by simp [wL, cstr])).2.1, by decide⟩

example : Spec.File.sline [97, 0, 98, 10, 99] = [97, 0, 98, 10] ∧ Spec.File.sline [97, 98] = [97, 98]
    ∧ (Spec.File.sline (List.replicate 5000 120)).length = 4096 ∧ (Spec.File.sline (List.replicate 4095 120 ++ [10, 121])).length = 4096
    ∧ (Spec.File.sline (List.replicate 4096 120 ++ [10, 121])).length = 4096 := by decide +kernel

/-- a NUL byte is data: the bytes 61 00 62 0a 63 read as the line 61 00 62 0a (was: "a", then "b\n") -/
example : readlnScan [97, 0, 98, 10, 99] 0 [] 0 = ([97, 0, 98, 10], 4, .lf)
    ∧ readlnScan [0, 0] 0 [] 0 = ([0, 0], 2, .eof) ∧ LF ∉ [(97 : UInt8), 0, 98] := by decide

/-! ### arguments -/

theorem readH_no_hazard (w : World) (f : OFile) (str : Bool) (n : Int64) : ∀ z, (readH w f str n).2 ≠ .hazard z := by
  intro z; unfold readH; split <;> simp

theorem seekH_no_hazard (w : World) (f : OFile) (wh : Spec.File.Whence) (o : Int64) : ∀ z, (seekH w f wh o).2 ≠ .hazard z := by
  intro z; unfold seekH; simp only []; split <;> simp

theorem readlnH_no_hazard (w : World) (f : OFile) : ∀ z, (readlnH w f).2 ≠ .hazard z := by
  intro z; unfold readlnH; simp only []
  repeat' split
  all_goals simp

/-- **file_args_total.** For EVERY state of the object, EVERY method and EVERY argument (null, negative, zero, INT64
    extremes as count or offset, any mode string, any path, empty values) a call yields a defined result, a BLOC error,
    or one of the two documented non-answers (`unmodelled`: stat/dir/ccs; `undefinedSeq`: C11 7.21.5.3 p7) — never a
    hazard: the hazard region is empty. -/
theorem file_args_total (w : World) (op : Op) : ∀ z, (step w op).2 ≠ .hazard z := by
  intro z
  cases op with
  | readS n =>
    simp only [step]
    split
    · simp
    · split
      · split
        · simp
        · exact readH_no_hazard _ _ _ _ z
      · simp
  | readB n =>
    simp only [step]
    split
    · simp
    · split
      · split
        · simp
        · exact readH_no_hazard _ _ _ _ z
      · simp
  | writeB d =>
    simp only [step]
    split
    · simp
    · split
      · split <;> simp
      · simp
  | writeS d =>
    simp only [step]
    split
    · simp
    · split
      · split <;> simp
      · simp
  | readln =>
    simp only [step]
    split
    · simp
    · split
      · split
        · simp
        · exact readlnH_no_hazard _ _ z
      · simp
  | seekSet n => simp only [step]; split <;> first | exact seekH_no_hazard _ _ _ _ z | simp
  | seekCur n => simp only [step]; split <;> first | exact seekH_no_hazard _ _ _ _ z | simp
  | seekEnd n => simp only [step]; split <;> first | exact seekH_no_hazard _ _ _ _ z | simp
  | ctor p m =>
    simp only [step]
    split
    · split
      · simp
      · split <;> simp
    · simp
  | «open» p m =>
    simp only [step]
    split
    · split <;> simp
    · simp
  | ctor0 => simp only [step]; split <;> simp
  | close => simp [step]
  | flush => simp only [step]; split <;> simp
  | position => simp only [step]; split <;> simp
  | isOpen => simp [step]
  | mode => simp [step]
  | filename => simp only [step]; split <;> simp
  | fdirname => simp only [step]; split <;> simp
  | fbasename => simp only [step]; split <;> simp
  | fstat => simp only [step]; split <;> simp
  | stat p => simp only [step]; split <;> simp
  | dir p => simp only [step]; split <;> simp
  | separator => simp [step]
  | dirname p => simp only [step]; split <;> simp
  | basename p => simp only [step]; split <;> simp

/-- the former hazard region now has defined answers: on a stream open for update on the 1-byte file "a",
    `read(S, 2^62)` and `read(X, INT64_MAX)` return that byte, `write` of an empty bytes value returns 0; and null /
    negative / zero arguments are a BLOC error or a defined result as before -/
def wR : World :=
  { fs := { get := fun _ => some [97], maxOff := 1000 },
    h := { file := some { path := [120], pos := 0, rd := true, wr := true, app := false }, r := true, w := true } }

example : (readLoop true [97] (readFuel 4611686018427387904) 0 4611686018427387904 []) = ([97], 1)
    ∧ (readLoop true [97] (readFuel 9223372036854775807) 0 9223372036854775807 []) = ([97], 1) :=
  ⟨by rw [readLoop_eq _ _ _ _ _ (readFuel_ok _)]; decide, by rw [readLoop_eq _ _ _ _ _ (readFuel_ok _)]; decide⟩
example : (step wR (.writeB (some []))).2 = .int 0 ∧ (step wR (.writeS (some []))).2 = .int 0 := by decide +kernel
example : (step wR (.readS none)).2 = .err ∧ (step wR (.readS (some (-5)))).2 = .rd 0 []
    ∧ (step wR (.seekSet (some (-1)))).2 = .int 22 ∧ (step wR (.seekSet none)).2 = .err
    ∧ (step wR (.writeS none)).2 = .int 0 ∧ (step wR (.open none (some [114]))).2 = .err := by decide +kernel

/-! ### sqlite3 -/

section Sqlite
open BlocV.Mod.Sqlite

/-- **sqlite_value_roundtrip.** Every storable value — any integer, any decimal that is not a NaN, ANY string
    (empty, invalid UTF-8, NUL bytes anywhere), any non-empty bytes value — is bound to a storage class from which
    `fetch` / `query` rebuild the identical value with the identical type, whatever the buffer state of empty vectors. -/
theorem sqlite_value_roundtrip (eb : Bool) (v : BVal) (h : Storable v) :
    ∃ s, bindOf eb v = some s ∧ fetchOf s = v ∧ (fetchOf s).ty = v.ty := by
  cases v with
  | int i => exact ⟨_, rfl, rfl, rfl⟩
  | dec d =>
    have hd : isNaN d = false := h
    exact ⟨.real d, by simp [bindOf, hd], rfl, rfl⟩
  | str s => exact ⟨.text s, rfl, rfl, rfl⟩
  | bytes b =>
    have hb : b ≠ [] := h
    exact ⟨.blob b, by simp [bindOf, hb], rfl, rfl⟩
  | null t => exact absurd h (by simp [Storable])
  | bool b => exact absurd h (by simp [Storable])
  | obj => exact absurd h (by simp [Storable])

example : Storable (.int (-9223372036854775808)) ∧ Storable (.dec 0x8000000000000000) ∧ Storable (.dec 0x7ff0000000000000)
    ∧ Storable (.str [0xc3, 0xa9, 0xff]) ∧ Storable (.str []) ∧ Storable (.str [97, 0, 98]) ∧ Storable (.str [0])
    ∧ Storable (.bytes [0, 255]) := by decide

/-- a string with NUL bytes makes the round trip (was: cut at the first NUL) -/
example : (bindOf false (.str [97, 0, 98])).map fetchOf = some (.str [97, 0, 98])
    ∧ (bindOf false (.str [0])).map fetchOf = some (.str [0]) := by decide

/-- What is NOT preserved (each a proved negation at a witness; none of these was repaired): boolean → integer,
    NaN → untyped null, empty bytes without buffer → untyped null, a typed null → untyped null, an object is not bound. -/
theorem sqlite_not_preserved :
    (bindOf false (.bool true)).map fetchOf = some (.int 1)
    ∧ (bindOf false (.dec 0x7ff8000000000000)).map fetchOf = some (.null .noType)
    ∧ (bindOf false (.bytes [])).map fetchOf = some (.null .noType)
    ∧ (bindOf true (.bytes [])).map fetchOf = some (.bytes [])
    ∧ (bindOf false (.null .integer)).map fetchOf = some (.null .noType)
    ∧ bindOf false .obj = none := by decide

/-- **sqlite_roundtrip_iff** — the EXACT exception list. For every BLOC value `v` and both buffer states of empty vectors:
    binding `v` and fetching it back yields `v` again (content and type) IF AND ONLY IF `v` is storable (any integer, any
    non-NaN decimal, any string, any non-empty bytes), or the empty bytes value WITH a buffer, or the untyped null. Everything
    else is changed: booleans (→ integer), NaN (→ untyped null), empty buffer-less bytes (→ untyped null), typed nulls
    (→ untyped null), objects (not bound) — the recorded findings `C18.sqlite_bool_as_integer`, `…nan_as_null`,
    `…empty_bytes_as_null`, `…unbound_item_keeps_old_binding`. -/
theorem sqlite_roundtrip_iff (eb : Bool) (v : BVal) :
    (∃ s, bindOf eb v = some s ∧ fetchOf s = v) ↔ (Storable v ∨ (v = .bytes [] ∧ eb = true) ∨ v = .null .noType) := by
  cases v with
  | null t => cases t <;> simp [bindOf, fetchOf, Storable]
  | bool b => simp [bindOf, fetchOf, Storable]
  | int i => simp [bindOf, fetchOf, Storable]
  | dec d =>
    cases hd : isNaN d <;> simp [bindOf, fetchOf, Storable, hd]
  | str s => simp [bindOf, fetchOf, Storable]
  | bytes b =>
    by_cases hb : b = []
    · subst hb; cases eb <;> simp [bindOf, fetchOf, Storable]
    · simp [bindOf, fetchOf, Storable, hb]
  | obj => simp [bindOf, Storable]

/-- the full path through the state machine: `exec("INSERT …", tup(v))` then `query("SELECT a, typeof(a) FROM t")`,
    and `prepare / bind / execute` (argument tuple temporary or not), then `prepare / execute / fetch`: the value comes back -/
theorem sqlite_insert_query_roundtrip (eb temp : Bool) (v : BVal) (s : SVal) (hb : bindOf eb v = some s) (hf : fetchOf s = v)
    (hs : s ≠ .null) :
    (Sqlite.run { emptyBuf := eb } [.open, .create, .insert (some [v]), .queryAll]).2
      = [.bool true, .bool true, .bool true, .table [(v, typeofS s)] v.ty]
    ∧ (Sqlite.run { emptyBuf := eb } [.open, .create, .prepare (some .insert), .bind (some [v]) temp, .execute, .finalize,
          .prepare (some .select), .execute, .fetch, .fetch]).2
      = [.bool true, .bool true, .bool true, .bool true, .bool true, .bool true, .bool true, .bool true, .row (v, typeofS s), .bool false] := by
  constructor
  · simp [Sqlite.run, Sqlite.step, Handle.cursorActive, bindArgs, hb, rowOf, hf, declOf]
  · simp [Sqlite.run, Sqlite.step, bindArgs, hb, rowOf, hf]

example : bindOf false (.str [97, 0, 98]) = some (.text [97, 0, 98]) ∧ fetchOf (.text [97, 0, 98]) = .str [97, 0, 98]
    ∧ SVal.text [97, 0, 98] ≠ .null := by decide

/-- **sqlite_args_total.** For EVERY state of the handle (open or closed, with or without statement, any status), EVERY
    method and EVERY argument tuple, a call yields a defined result, a BLOC error or `unmodelled` (errmsg; an INSERT
    while a SELECT cursor is on a row) — never a use after free. -/
theorem sqlite_args_total (w : Sqlite.World) (op : Sqlite.Op) : ∀ z, (Sqlite.step w op).2 ≠ .hazard z := by
  intro z
  cases op <;> simp only [Sqlite.step, closeH] <;> (repeat' split) <;> simp

/-- **sqlite_stepfail_rebind.** A step-time failure does not poison the prepared statement: in ANY state with an open
    connection, the table `t(a NOT NULL)` and an INSERT statement prepared whose parameter is NULL, `execute()` fails with
    SQLite's error (BLOC error EXC_RT_USER_S) and changes NOTHING — no row, same status; a following `bind(tup(v))`
    (argument tuple temporary or not) with any value `v` that is bound to a non-NULL storage class succeeds, and the next
    `execute()` on the SAME statement stores exactly that value (not the stale NULL); a second failing `execute()` in
    between changes nothing either. -/
theorem sqlite_stepfail_rebind (w : Sqlite.World) (s : Stmt) (rows : List SVal) (v : BVal) (x : SVal) (temp : Bool)
    (ho : w.h.isOpen = true) (hs : w.h.stmt = some s) (hk : s.kind = .insert) (ht : w.table = some rows)
    (hn : w.notNull = true) (hnull : s.binding = .null) (hb : bindOf w.emptyBuf v = some x) (hx : x ≠ .null) :
    Sqlite.step w .execute = (w, .sqlErr)
    ∧ (Sqlite.run w [.execute, .execute, .bind (some [v]) temp, .execute]).2 = [.sqlErr, .sqlErr, .bool true, .bool true]
    ∧ (Sqlite.run w [.execute, .execute, .bind (some [v]) temp, .execute]).1.table = some (rows ++ [x])
    ∧ (Sqlite.run w [.execute, .execute, .bind (some [v]) temp, .execute]).1.h.status = .done := by
  have e1 : Sqlite.step w .execute = (w, .sqlErr) := by
    simp [Sqlite.step, ho, hs, hk, ht, hn, hnull]
  let w2 : Sqlite.World := { w with h := { w.h with stmt := some { s with binding := x, cursor := [] }, status := .new } }
  have e2 : Sqlite.step w (.bind (some [v]) temp) = (w2, .bool true) := by
    simp [Sqlite.step, ho, hs, hk, bindArgs, hb, hnull, w2]
  have e3 : Sqlite.step w2 .execute
      = ({ w2 with table := some (rows ++ [x]), h := { w2.h with status := .done } }, .bool true) := by
    simp [Sqlite.step, ho, hk, ht, hn, hx, w2]
  refine ⟨e1, ?_, ?_, ?_⟩ <;> simp only [Sqlite.run, e1, e2, e3]

/-- … and the one-step form: `exec("INSERT …", tup(v))` of a value stored as NULL into `t(a NOT NULL)` fails and stores
    nothing (no cursor on a row). -/
theorem sqlite_stepfail_exec (w : Sqlite.World) (rows : List SVal) (v : BVal)
    (ho : w.h.isOpen = true) (ht : w.table = some rows) (hn : w.notNull = true) (hc : w.h.cursorActive = false)
    (hb : bindOf w.emptyBuf v = some .null) :
    Sqlite.step w (.insert (some [v])) = (w, .sqlErr) := by
  simp [Sqlite.step, ho, ht, hn, hc, bindArgs, hb]

/-- the hypotheses are satisfiable: `open, CREATE TABLE t(a NOT NULL), prepare(INSERT)` reaches such a state (the
    parameter of a fresh statement is NULL), `"two"` is bound as TEXT; a NaN / typed null is stored as NULL -/
example : let w := (Sqlite.run {} [.open, .createNN, .prepare (some .insert)]).1
    w.h.isOpen = true ∧ w.h.stmt = some { kind := .insert } ∧ w.table = some [] ∧ w.notNull = true
    ∧ bindOf w.emptyBuf (.str [116, 119, 111]) = some (.text [116, 119, 111]) ∧ SVal.text [116, 119, 111] ≠ .null
    ∧ bindOf w.emptyBuf (.dec 0x7ff8000000000000) = some .null ∧ bindOf w.emptyBuf (.null .integer) = some .null
    ∧ w.h.cursorActive = false := by decide +kernel

/-- **close forgets the statement**: after `close()` there is no statement and the status is NEW, whatever was prepared -/
theorem sqlite_close_forgets (w : Sqlite.World) (h : w.h.isOpen = true) :
    (Sqlite.step w .close).2 = .bool true ∧ (Sqlite.step w .close).1.h.stmt = none
    ∧ (Sqlite.step w .close).1.h.status = .new ∧ (Sqlite.step w .close).1.h.isOpen = false := by
  simp [Sqlite.step, closeH, h]

/-- **bind copies**: whether the argument tuple is a temporary makes no difference -/
theorem sqlite_bind_temp_irrelevant (w : Sqlite.World) (a : Option (List BVal)) :
    Sqlite.step w (.bind a true) = Sqlite.step w (.bind a false) := by
  cases a <;> simp [Sqlite.step]

/-- the two former memory hazards, at the same histories: the statement left by `close()` is gone, the destructor has
    nothing to free twice, a re-opened connection has no statement; a temporary tuple bound before another statement
    with a temporary is stored intact by `execute()`. -/
example : (Sqlite.run {} [.open, .create, .prepare (some .select), .close, .destroy]).2.getLast? = some (.bool true) := by
  decide +kernel
example : (Sqlite.run {} [.open, .create, .prepare (some .select), .close, .open, .finalize]).2.getLast? = some (.bool false) := by
  decide +kernel
example : (Sqlite.run {} [.open, .create, .prepare (some .insert), .bind (some [.str [97]]) true, .insert (some [.int 1]), .execute,
      .queryAll]).2.getLast? = some (.table [(.int 1, typeofS (.integer 1)), (.str [97], typeofS (.text [97]))] .string) := by
  decide +kernel

end Sqlite

/-! ## sqlite3: whole histories on a prepared INSERT (bind / execute / exec / fetch / header / queries, failing steps included) -/

section SqliteHistory
open BlocV.Mod.Sqlite BlocV.Mod.SqliteAbs BlocV.Proofs.SqliteSeq
open BlocV.Spec.Sqlite (Call St stored)

/-- **sqlite_history_refines_spec.** From ANY state with an open connection, the table present (with or without NOT
    NULL) and an `INSERT INTO t VALUES(?)` prepared (any status flag, any parameter content), for EVERY list of calls out
    of bind(tuple) / bind(null) / execute() / exec(INSERT, tuple) / fetch / header / isopen / query(SELECT …) /
    query(SELECT ?1, tuple) with ANY arguments — step-time failures (NOT NULL violations of execute and of exec)
    anywhere in it — the module is the specification `Spec.Sqlite.run` ("one parameter slot; execute stores the slot's
    CURRENT content unless the table refuses it"): same parameter content and same stored rows at the end, every
    executing call answers TRUE exactly when the specification stores a row and SQLite's error exactly when it refuses,
    and the state at the end is again such a state (so the theorem composes). The status flag `_stmt_status`, which a
    failed step leaves at NEW on a halted statement, has no influence. -/
theorem sqlite_history_refines_spec : ∀ (cs : List InsCall) (w : Sqlite.World) (cur : SVal) (rows : List SVal), Ready w cur rows →
    Ready (Sqlite.run w (cs.map InsCall.toOp)).1
        (BlocV.Spec.Sqlite.run (okNN w.notNull) ⟨cur, rows⟩ (cs.map (·.toCall w.emptyBuf))).1.slot
        (BlocV.Spec.Sqlite.run (okNN w.notNull) ⟨cur, rows⟩ (cs.map (·.toCall w.emptyBuf))).1.rows
    ∧ List.zipWith InsCall.ans cs (Sqlite.run w (cs.map InsCall.toOp)).2
        = (BlocV.Spec.Sqlite.run (okNN w.notNull) ⟨cur, rows⟩ (cs.map (·.toCall w.emptyBuf))).2
    ∧ (Sqlite.run w (cs.map InsCall.toOp)).1.notNull = w.notNull
    ∧ (Sqlite.run w (cs.map InsCall.toOp)).1.emptyBuf = w.emptyBuf := by
  intro cs
  induction cs with
  | nil => intro w cur rows h; exact ⟨h, rfl, rfl, rfl⟩
  | cons c cs ih =>
    intro w cur rows h
    obtain ⟨h1, hn, he, ha⟩ := ins_step w cur rows c h
    have := ih (Sqlite.step w c.toOp).1 _ _ h1
    rw [hn, he] at this
    simp only [List.map_cons, sqlite_run_cons, BlocV.Spec.Sqlite.run, List.zipWith_cons_cons]
    exact ⟨this.1, by rw [ha, this.2.1], by rw [this.2.2.1], by rw [this.2.2.2]⟩

/-- **sqlite_rows_function_of_binds.** The row set is the function of the values bound at the time of each execute: after
    ANY such history the table holds the earlier rows followed by `Spec.Sqlite.stored` — for every successful `execute()`
    the value of the LAST bind before it (the initial parameter content if there was none; a tuple without bindable item
    keeps the previous value), for every successful one-step `exec` its own argument — and `query("SELECT a, typeof(a)
    FROM t")` then delivers exactly these rows, each as `fetchOf` of the stored value with its `typeof`. -/
theorem sqlite_rows_function_of_binds (cs : List InsCall) (w : Sqlite.World) (cur : SVal) (rows : List SVal) (h : Ready w cur rows) :
    (Sqlite.run w (cs.map InsCall.toOp)).1.table
        = some (rows ++ stored (okNN w.notNull) cur (cs.map (·.toCall w.emptyBuf)))
    ∧ (Sqlite.step (Sqlite.run w (cs.map InsCall.toOp)).1 .queryAll).2
        = (match rows ++ stored (okNN w.notNull) cur (cs.map (·.toCall w.emptyBuf)) with
           | [] => .nullTable
           | r :: rs => .table ((r :: rs).map rowOf) (declOf (r :: rs) .noType)) := by
  obtain ⟨⟨ho, ht, _⟩, _⟩ := sqlite_history_refines_spec cs w cur rows h
  rw [run_rows] at ht
  refine ⟨ht, ?_⟩
  simp only [Sqlite.step, ho, ht]
  cases rows ++ stored (okNN w.notNull) cur (cs.map (·.toCall w.emptyBuf)) <;> simp

/-- **sqlite_bind_after_any_history.** A bind after ANY history — whatever the outcome of the executes before it, failed
    ones included — is what the next execute runs with: `bind(tup(v))` (temporary or not) answers TRUE and the following
    `execute()` stores exactly the storage value of `v` (refused only if the table's own constraint refuses THAT value),
    never a stale parameter. (The seeded change C18-m3 — bind skips `sqlite3_reset` when the status flag is NEW — falsifies
    this on the real module after a failed execute.) -/
theorem sqlite_bind_after_any_history (cs : List InsCall) (w : Sqlite.World) (cur : SVal) (rows : List SVal) (h : Ready w cur rows)
    (v : BVal) (x : SVal) (temp : Bool) (hb : bindOf w.emptyBuf v = some x) (hx : ¬ (w.notNull = true ∧ x = .null)) :
    ∃ rows', (Sqlite.run w (cs.map InsCall.toOp)).1.table = some rows'
      ∧ Sqlite.run (Sqlite.run w (cs.map InsCall.toOp)).1 [.bind (some [v]) temp, .execute]
          = ({ (Sqlite.run w (cs.map InsCall.toOp)).1 with
                table := some (rows' ++ [x]),
                h := { (Sqlite.run w (cs.map InsCall.toOp)).1.h with
                        stmt := some { kind := .insert, binding := x, cursor := [] }, status := .done } },
             [.bool true, .bool true]) := by
  obtain ⟨⟨ho, ht, s, hs, hk, _, hc⟩, _, hn, he⟩ := sqlite_history_refines_spec cs w cur rows h
  generalize (BlocV.Spec.Sqlite.run (okNN w.notNull) ⟨cur, rows⟩ (cs.map (·.toCall w.emptyBuf))).1.rows = R at ht
  generalize (Sqlite.run w (cs.map InsCall.toOp)).1 = w' at *
  refine ⟨R, ht, ?_⟩
  have hb' : bindOf w'.emptyBuf v = some x := by rw [he]; exact hb
  have hx' : ¬ (w'.notNull = true ∧ x = .null) := by rw [hn]; exact hx
  have e2 : Sqlite.step w' (.bind (some [v]) temp)
      = ({ w' with h := { w'.h with stmt := some { s with binding := x, cursor := [] }, status := .new } }, .bool true) := by
    simp [Sqlite.step, ho, hs, hk, bindArgs, hb']
  have e3 : Sqlite.step { w' with h := { w'.h with stmt := some { s with binding := x, cursor := [] }, status := .new } } .execute
      = ({ w' with table := some (R ++ [x]),
                   h := { w'.h with stmt := some { s with binding := x, cursor := [] }, status := .done } }, .bool true) := by
    simp [Sqlite.step, ho, hk, ht, hx']
  have hs' : ({ s with binding := x, cursor := [] } : Stmt) = { kind := .insert, binding := x, cursor := [] } := by
    cases s; simp_all
  rw [sqlite_run_cons, e2, sqlite_run_cons, e3, hs']
  rfl

/-- hypotheses satisfiable and the statement non-trivial: on `t(a NOT NULL)`, statement prepared (parameter NULL):
    execute fails, bind(5), execute, execute, bind(NaN) [stored as NULL], execute fails, bind(object) [keeps NULL], execute
    fails, exec(tup("x")), bind("y"), fetch, header, execute: rows 5, 5, "x", "y" -/
example : let w := (Sqlite.run {} [.open, .createNN, .prepare (some .insert)]).1
    let cs : List InsCall := [.execute, .bind [.int 5] true, .execute, .execute, .bind [.dec 0x7ff8000000000000] false, .execute,
      .bind [.obj] true, .execute, .exec [.str [120]], .bind [.str [121]] true, .fetch, .header, .execute]
    Ready w .null [] ∧ (Sqlite.run w (cs.map InsCall.toOp)).1.table = some [.integer 5, .integer 5, .text [120], .text [121]]
    ∧ stored (okNN w.notNull) .null (cs.map (·.toCall w.emptyBuf)) = [.integer 5, .integer 5, .text [120], .text [121]]
    ∧ List.zipWith InsCall.ans cs (Sqlite.run w (cs.map InsCall.toOp)).2
        = [some false, none, some true, some true, none, some false, none, some false, some true, none, none, none, some true] := by
  refine ⟨⟨by decide +kernel, by decide +kernel, { kind := .insert }, by decide +kernel, rfl, rfl, rfl⟩, by decide +kernel, by decide +kernel,
    by decide +kernel⟩

end SqliteHistory

end BlocV.Proofs.C18F
