/-
  C13 — a source text means the same whatever its line lengths or read fragmentation.

  Property theorems only (helpers: Proofs/Lemmas/Lex.lean). Model: BlocV/Model/Lex.lean (`lexChunks`: the
  scanner as `tokenizer_buf`/`tokenizer_lex` run it, one `yy_scan_string` buffer per reader result;
  `popStream`: what `Parser::pop()` yields; `lineReader`, `fragReader`). Spec: BlocV/Spec/Lex.lean
  (`lexWhole`: the same rule list applied to the entire text; `specStream`).

  The full property is FALSE on the pinned tree (a token that straddles a chunk boundary is split, a `#`
  that happens to start a chunk becomes a directive, a NUL drops the rest of its chunk, a CR is dropped
  wherever it stands). What is proved, for the FULL rule list of tokenizer.lex (every token class, all
  three start conditions, the `^` rule):

    lex_line_aligned              any fragmentation cutting only right after '\n', NUL-free: chunked = whole
    pop_line_aligned              the same for the parser's `(code, text)` stream
    fragmentation_independent     two such fragmentations of one text give the same stream
    token_stops_before_newline    the reason: no match extends over a '\n' it does not start with
    lineReader_aligned            `lineReader max` cuts only after '\n'  iff  every line fits in `max` bytes
    lineReader_lines              … and then it delivers exactly the lines
    lineReader_drops_every_cr     what the readers do with '\r'
    crlf_eq_lf                    a text and its CRLF form reach the scanner as the same chunks (no restriction)
    layout_independent_partial    lines ≤ 1023 bytes, no NUL, no lone CR: reader + chunked scanner = whole text
    not_fragmentation_independent the full statement is false (+ one witness per clause of the property)
  C13R2:
    stringReader_eq_lineReader, fileReader_eq_lineReader, includeReader_eq_lineReader, stdinReader_eq_lineSplit,
    readlineLine_eq_lineSplit, interactive_readers_agree   every C++ reader, transcribed call by call, IS the line discipline
    *_delivers_every_byte (6)     each reader: concatenation of the chunks = text minus CRs, chunks non-empty and ≤ max
    eager_reader_drops_a_byte     the reader shape of seeded change C13-m4 does not
    lex_token_aligned, pop_token_aligned   one cut anywhere: `safeSplit a b` ⇒ chunked = whole
    unsafe_split_witnesses        one proved witness per class of the finding
  C13R3:
    lex_token_aligned_iff         one cut: chunked = whole  IFF  safeSplit (both directions, all texts)
    lex_cuts_aligned, pop_cuts_aligned   any number of cuts, each safe w.r.t. all that follows
    literal_across_chunks, literal_through_reader   a plain multi-line literal over any aligned chunks = ONE token, every byte
-/
import BlocV.Proofs.Lemmas.Lex
import BlocV.Proofs.Lemmas.LexReaders
import BlocV.Proofs.Lemmas.LexLiteral

namespace BlocV.C13
open BlocV BlocV.Lex

/-! ## The aligned case -/

/-- **Chunked = whole on line-aligned fragmentations.** For every sequence of reader results in
which every chunk but the last ends right after a '\n' and no chunk contains a NUL, the token
sequence produced chunk by chunk (fresh buffer and beginning-of-line at each chunk, only the start
condition carried over) is the token sequence of the concatenated text. String literals and block
comments may span any number of chunks. -/
theorem lex_line_aligned (frags : List Bytes) (hal : aligned frags = true)
    (hnn : ∀ c ∈ frags, noNul c = true) : lexChunks frags = lexWhole frags.flatten :=
  lexChunksFrom_aligned frags .initial hal hnn

/-- chunks: `x = "a\"b⏎ | c""d"; /* k⏎ | */ y <= 1.5e+3;⏎ |   #dir "z⏎ | z := 0x1F // end` — a literal with an escaped quote and a doubled
quote spanning two chunks, a block comment spanning two chunks, `<=`, a float, a directive, hex, `//`. -/
def exChunks : List Bytes := [[120, 32, 61, 32, 34, 97, 92, 34, 98, 10], [99, 34, 34, 100, 34, 59, 32, 47, 42, 32, 107, 10], [42, 47, 32, 121, 32, 60, 61, 32, 49, 46, 53, 101, 43, 51, 59, 10], [32, 32, 35, 100, 105, 114, 32, 34, 122, 10], [122, 32, 58, 61, 32, 48, 120, 49, 70, 32, 47, 47, 32, 101, 110, 100]]

example : lexChunks exChunks = lexWhole exChunks.flatten := lex_line_aligned _ (by decide) (by decide)
example : (lexChunks exChunks).length = 37 ∧ (popStream true exChunks).length = 13 := by decide +kernel

/-- The same for what `Parser::pop()` yields (literal reassembled, comments and spaces dropped). -/
theorem pop_line_aligned (keepNl : Bool) (frags : List Bytes) (hal : aligned frags = true)
    (hnn : ∀ c ∈ frags, noNul c = true) : popStream keepNl frags = specStream keepNl frags.flatten := by
  simp only [popStream, specStream, lex_line_aligned frags hal hnn]

example : popStream true exChunks = specStream true exChunks.flatten := pop_line_aligned _ _ (by decide) (by decide)

/-- Two line-aligned, NUL-free fragmentations of the same text mean the same. This is the PROVED-SAFE REGION of a property whose full statement is false (`not_fragmentation_independent`): a `…_partial` result in the sense of the framework's naming rule; the name is kept because other files cite it. -/
theorem fragmentation_independent (f g : List Bytes) (hf : aligned f = true) (hg : aligned g = true)
    (nf : ∀ c ∈ f, noNul c = true) (ng : ∀ c ∈ g, noNul c = true) (h : f.flatten = g.flatten) :
    lexChunks f = lexChunks g := by
  rw [lex_line_aligned f hf nf, lex_line_aligned g hg ng, h]

example : lexChunks exChunks = lexChunks [exChunks.flatten] :=
  fragmentation_independent _ _ (by decide) (by decide) (by decide) (by decide) (by simp)

/-- **Why.** In every start condition, at the beginning of a line or not: at a '\n' the match is
that single byte; before a '\n' the match ends before it, and it is the match the scanner makes when
the text stops at that '\n' — whatever follows (`q`) is not looked at. This is a theorem about the
rule list (all rules, `rulesOf`), not an assumption of the model. -/
theorem token_stops_before_newline (st : St) (bol : Bool) (a q : Bytes) :
    pick (rulesOf st) bol (a ++ 10 :: q) = pick (rulesOf st) bol (a ++ [10]) ∧
    (pick (rulesOf st) bol (a ++ 10 :: q)).2 ≤ max a.length 1 := by
  cases a with
  | nil =>
    have h := pick_nl (rulesOf st) (rulesOf_local st) bol q
    have hl := pick_le (rulesOf st) bol [10]
    simp only [List.nil_append]
    exact ⟨h, by rw [h]; simpa using hl⟩
  | cons c t =>
    have h1 := pick_local (rulesOf st) (rulesOf_local st) bol (c :: t) q (by simp)
    have h2 := pick_local (rulesOf st) (rulesOf_local st) bol (c :: t) [] (by simp)
    have hl := pick_le (rulesOf st) bol (c :: t)
    exact ⟨by rw [h1, h2], by rw [h1]; omega⟩

/-- in a literal, `\"` before a newline: the two-byte escape, not the newline, not the rest. -/
example : pick (rulesOf .literal) false ([92, 34] ++ 10 :: [34, 59]) = (some tLITERALSTR, 2) := by decide

/-! ## The line readers -/

/-- `StringReader::read` / `ReadFile::read` with buffer size `max` cut only right after a '\n'
exactly when no line of the (CR-stripped) text, its '\n' included, is longer than `max`. -/
theorem lineReader_aligned (max : Nat) (hmax : 1 ≤ max) (text : Bytes) :
    aligned (lineReader max text) = true ↔ LinesFit max (stripCr text) := by
  unfold lineReader lineSplit
  constructor
  · intro hal l hl
    have hch := lineSplitAux_chunks max (stripCr text) [] (by intro x hx; simp at hx)
    have hfl := lineSplitAux_flatten max (stripCr text) []
    simp only [List.reverse_nil, List.nil_append] at hfl
    have := splitLines_flatten _ hch hal
    rw [hfl] at this
    rw [this] at hl
    exact lineSplitAux_len max hmax (stripCr text) [] (by simp; omega) l hl
  · intro hfit
    rw [lineSplitAux_fit max (stripCr text) [] (by intro x hx; simp at hx) (by simp; omega) (by simpa using hfit)]
    simpa using splitLines_aligned (stripCr text)

/-- … and then the chunks are exactly the lines. -/
theorem lineReader_lines (max : Nat) (text : Bytes) (hfit : LinesFit max (stripCr text)) :
    lineReader max text = splitLines (stripCr text) := by
  unfold lineReader lineSplit
  rw [lineSplitAux_fit max (stripCr text) [] (by intro x hx; simp at hx)
    (by cases max <;> simp) (by simpa using hfit)]
  simp

/-- text `a = 123⏎b = "x"⏎⏎c`, max 8: every line fits; max 7: the first does not, and
the reader cuts it after `a = 123` (not after a newline). -/
def exLines : Bytes := [97, 32, 61, 32, 49, 50, 51, 10, 98, 32, 61, 32, 34, 120, 34, 10, 10, 99]
example : aligned (lineReader 8 exLines) = true ∧ LinesFit 8 (stripCr exLines) :=
  ⟨by decide, (lineReader_aligned 8 (by decide) exLines).mp (by decide)⟩
example : aligned (lineReader 7 exLines) = false ∧ ¬ LinesFit 7 (stripCr exLines) :=
  ⟨by decide, fun h => absurd ((lineReader_aligned 7 (by decide) exLines).mpr h) (by decide)⟩
example : lineReader 8 exLines = [[97, 32, 61, 32, 49, 50, 51, 10], [98, 32, 61, 32, 34, 120, 34, 10], [10], [99]] := by decide

/-- **CR.** The readers skip every byte 13 — inside or outside string literals and comments, followed
by '\n' or not — and deliver everything else unchanged and in order. The scanner itself has no rule
for '\r': it never sees one through these readers. -/
theorem lineReader_drops_every_cr (max : Nat) (text : Bytes) :
    (lineReader max text).flatten = stripCr text := lineSplit_flatten max (stripCr text)

example : (lineReader 1023 [120, 13, 10, 34, 97, 13, 98, 34, 13]).flatten = [120, 10, 34, 97, 98, 34] := by decide

/-- **CRLF = LF, unconditionally.** A text with LF line ends and the same text with CRLF line ends
are delivered to the scanner as the same chunks, hence mean the same — for every buffer size, also
where lines are too long, also inside string literals and comments. -/
theorem crlf_eq_lf (max : Nat) (text : Bytes) : lineReader max (lfToCrlf text) = lineReader max text := by
  unfold lineReader
  rw [stripCr_lfToCrlf]

theorem crlf_eq_lf_tokens (keepNl : Bool) (max : Nat) (text : Bytes) :
    popStream keepNl (lineReader max (lfToCrlf text)) = popStream keepNl (lineReader max text) := by
  rw [crlf_eq_lf]

/-- **CRLF ≠ LF through the interactive reader** (finding `C13.interactive_reader_keeps_cr`). `crlf_eq_lf` is a theorem
about the readers that drop CR (StringReader, both ReadFile). `ReadInput::read` → `bloc_readstdin` (apps/cli_parser.cpp, the
interactive loop when libreadline is not loaded) stores every byte: for the text `a;⏎b;⏎` with CRLF line ends its chunks give
the parser a token 13 after each `;` that the LF text does not have — the CRLF clause of C13 is FALSE on that path.
FULL STATEMENT (false): ∀ text, popStream k (stdinReader max (lfToCrlf text)) = popStream k (stdinReader max text). -/
theorem crlf_through_stdin_reader_fails :
    lfToCrlf [97, 59, 10, 98, 59, 10] = [97, 59, 13, 10, 98, 59, 13, 10] ∧
    popStream true (stdinReader chunkMax [97, 59, 13, 10, 98, 59, 13, 10]) ≠ popStream true (stdinReader chunkMax [97, 59, 10, 98, 59, 10]) ∧
    (⟨13, [13]⟩ : Tok) ∈ popStream true (stdinReader chunkMax [97, 59, 13, 10, 98, 59, 13, 10]) ∧
    (⟨13, [13]⟩ : Tok) ∉ popStream true (stdinReader chunkMax [97, 59, 10, 98, 59, 10]) := by decide +kernel

example : lfToCrlf exLines = [97, 32, 61, 32, 49, 50, 51, 13, 10, 98, 32, 61, 32, 34, 120, 34, 13, 10, 13, 10, 99] ∧
    lineReader 8 (lfToCrlf exLines) = lineReader 8 exLines := ⟨by decide, crlf_eq_lf 8 exLines⟩

/-! ## Every reader of source text (C13R2)

  `lineReader` above is the line discipline written as a function of the whole text. The C++ has FOUR byte-by-byte
  `read` functions (+ the readline line server); each is transcribed call by call in Model/LexReaders.lean
  (`srCall`, `rfCall`, `incCall`, `stdinCall`, `rlCall`) and proved here to BE that discipline, for every text and
  every buffer size ≥ 1 — so every theorem about `lineReader` holds for each of them — and to deliver every byte. -/

/-- `bloc::StringReader` (C API, `bloc -e`, tests) is the line reader. -/
theorem stringReader_eq_lineReader (max : Nat) (hmax : 1 ≤ max) (text : Bytes) :
    stringReader max text = lineReader max text := by
  unfold stringReader lineReader
  rw [calls_congr _ _ (fun s => srCall_eq_gen max s []), gen_reader isCr max hmax, keep_isCr]

/-- `ReadFile` of apps/read_file.cpp (`bloc FILE`, `bloc -`, `load`) is the line reader. -/
theorem fileReader_eq_lineReader (max : Nat) (hmax : 1 ≤ max) (text : Bytes) :
    fileReader max text = lineReader max text := by
  unfold fileReader lineReader
  rw [calls_congr _ _ (fun s => rfCall_eq_gen max s []), gen_reader isCr max hmax, keep_isCr]

/-- The private `ReadFile` of statement_include.cpp (`include "file";`) is the line reader. -/
theorem includeReader_eq_lineReader (max : Nat) (hmax : 1 ≤ max) (text : Bytes) :
    includeReader max text = lineReader max text := by
  unfold includeReader lineReader
  rw [calls_congr _ _ (fun s => incCall_eq_gen max s []), gen_reader isCr max hmax, keep_isCr]

/-- `bloc_readstdin` (the interactive loop without readline) is the line discipline WITHOUT CR removal. -/
theorem stdinReader_eq_lineSplit (max : Nat) (hmax : 1 ≤ max) (text : Bytes) :
    stdinReader max text = lineSplit max text := by
  unfold stdinReader
  rw [calls_congr _ _ (fun s => stdinCall_eq_gen max s []), gen_reader noDrop max hmax, keep_noDrop]

/-- The readline branch of `ReadInput::read`: the calls serving one line are the line discipline on `line ⏎`
(a line that ends exactly at a full buffer gets its '\n' alone in the next call). -/
theorem readlineLine_eq_lineSplit (max : Nat) (hmax : 1 ≤ max) (line : Bytes) :
    readlineLine max line = lineSplit max (line ++ [10]) :=
  readlineLineF_eq max hmax _ line (Nat.le_refl _)

/-- Both interactive readers serve a sequence of lines in the same chunks: readline line by line = `bloc_readstdin`
on the lines joined with their '\n'. -/
theorem interactive_readers_agree (max : Nat) (hmax : 1 ≤ max) (lines : List Bytes) :
    (lines.map (readlineLine max)).flatten = stdinReader max (lines.map (· ++ [10])).flatten := by
  rw [stdinReader_eq_lineSplit max hmax]
  induction lines with
  | nil => simp [lineSplit, lineSplitAux]
  | cons l ls ih =>
    simp only [List.map_cons, List.flatten_cons, ih, readlineLine_eq_lineSplit max hmax]
    unfold lineSplit
    rw [List.append_assoc, List.singleton_append, lineSplitAux_nl max (List.map (fun x => x ++ [10]) ls).flatten l []]

example : stringReader 4 [97, 98, 99, 100, 10, 101, 102, 103, 104, 105, 13, 10, 106, 13, 107] =
    [[97, 98, 99, 100], [10], [101, 102, 103, 104], [105, 10], [106, 107]] := by decide
example : fileReader 4 [97, 98, 99, 100, 13, 10] = [[97, 98, 99, 100], [10]] ∧ includeReader 4 [13, 13] = [] ∧
    includeReader 3 [97, 98, 99, 100] = [[97, 98, 99], [100]] := by decide
example : stdinReader 4 [97, 13, 10, 98] = [[97, 13, 10], [98]] ∧ readlineLine 4 [97, 98, 99, 100] = [[97, 98, 99, 100], [10]] ∧
    readlineLine 4 [] = [[10]] ∧ readlineLine 4 [97, 98, 99, 100, 101] = [[97, 98, 99, 100], [101, 10]] := by decide

/-- **reader_delivers_every_byte**, for each reader: for every text and every buffer size `max ≥ 1` the chunks
returned call after call concatenate to the text minus its CR bytes (the whole text for the interactive readers):
no byte is lost or duplicated at a buffer-full boundary, at a newline, at a CR or at the end; every chunk fits
the buffer; no chunk is empty (the scanner would take it for the end of the input). -/
theorem lineReader_delivers_every_byte (max : Nat) (hmax : 1 ≤ max) (text : Bytes) :
    Delivers max (lineReader max text) (stripCr text) :=
  ⟨lineSplit_flatten max _, lineSplit_chunks_ok max hmax _⟩

theorem stringReader_delivers_every_byte (max : Nat) (hmax : 1 ≤ max) (text : Bytes) :
    Delivers max (stringReader max text) (stripCr text) := by
  rw [stringReader_eq_lineReader max hmax]; exact lineReader_delivers_every_byte max hmax text

theorem fileReader_delivers_every_byte (max : Nat) (hmax : 1 ≤ max) (text : Bytes) :
    Delivers max (fileReader max text) (stripCr text) := by
  rw [fileReader_eq_lineReader max hmax]; exact lineReader_delivers_every_byte max hmax text

theorem includeReader_delivers_every_byte (max : Nat) (hmax : 1 ≤ max) (text : Bytes) :
    Delivers max (includeReader max text) (stripCr text) := by
  rw [includeReader_eq_lineReader max hmax]; exact lineReader_delivers_every_byte max hmax text

theorem stdinReader_delivers_every_byte (max : Nat) (hmax : 1 ≤ max) (text : Bytes) :
    Delivers max (stdinReader max text) text := by
  rw [stdinReader_eq_lineSplit max hmax]; exact ⟨lineSplit_flatten max _, lineSplit_chunks_ok max hmax _⟩

theorem readlineLine_delivers_every_byte (max : Nat) (hmax : 1 ≤ max) (line : Bytes) :
    Delivers max (readlineLine max line) (line ++ [10]) := by
  rw [readlineLine_eq_lineSplit max hmax]; exact ⟨lineSplit_flatten max _, lineSplit_chunks_ok max hmax _⟩

/-- a 3-byte buffer, a line of exactly 3, of 4, of 6 bytes, CRLF with the CR at the buffer edge, no final newline. -/
example : Delivers 3 (includeReader 3 [97, 98, 99, 10, 100, 101, 102, 103, 13, 10, 104, 105, 106, 107, 108, 109, 13])
    [97, 98, 99, 10, 100, 101, 102, 103, 10, 104, 105, 106, 107, 108, 109] :=
  includeReader_delivers_every_byte 3 (by decide) _
example : includeReader 3 [97, 98, 99, 10, 100, 101, 102, 103, 13, 10, 104, 105, 106, 107, 108, 109, 13] =
    [[97, 98, 99], [10], [100, 101, 102], [103, 10], [104, 105, 106], [107, 108, 109]] := by decide

/-- The statement is not vacuous about the SHAPE of the loop: the reader that fetches the byte before testing the room
(seeded change C13-m4 of the include reader, `while ((c = fgetc(f)) != EOF && read < max_size)`) loses the byte at
every buffer-full boundary. -/
theorem eager_reader_drops_a_byte :
    ¬ Delivers 4 (calls (eagerCall 4 []) [97, 98, 99, 100, 101, 102, 103]) (stripCr [97, 98, 99, 100, 101, 102, 103]) ∧
    calls (eagerCall 4 []) [97, 98, 99, 100, 101, 102, 103] = [[97, 98, 99, 100], [102, 103]] := by
  refine ⟨fun h => absurd h.1 (by decide), by decide⟩

/-- Hence everything proved of `lineReader` holds of each file/string reader: in particular the part of C13 that
holds (`layout_independent_partial` below) for the C API, `bloc FILE`, `bloc -` and `include`. -/
theorem readers_same_chunks (text : Bytes) :
    stringReader chunkMax text = lineReader chunkMax text ∧ fileReader chunkMax text = lineReader chunkMax text ∧
    includeReader chunkMax text = lineReader chunkMax text :=
  ⟨stringReader_eq_lineReader _ (by decide) _, fileReader_eq_lineReader _ (by decide) _,
   includeReader_eq_lineReader _ (by decide) _⟩

/-! ## Layout independence, where it holds -/

/-- **C13, the part that holds.** A text without NUL whose lines (after CR removal, '\n' included) are
at most 1023 bytes long, read through the library's line reader and scanned chunk by chunk, gives
the parser the token stream of the whole text with its CRs removed; when the text has no CR other
than in CRLF line ends, that is the token stream of the text with LF line ends. -/
theorem layout_independent_partial (keepNl : Bool) (text : Bytes) (hn : noNul text = true)
    (hfit : LinesFit chunkMax (stripCr text)) :
    popStream keepNl (lineReader chunkMax text) = specStream keepNl (stripCr text) ∧
    (loneCr text = false → popStream keepNl (lineReader chunkMax text) = specStream keepNl (crlfToLf text)) := by
  have hal := (lineReader_aligned chunkMax (by decide) text).mpr hfit
  have hfl := lineReader_drops_every_cr chunkMax text
  have hnn : ∀ c ∈ lineReader chunkMax text, noNul c = true :=
    noNul_of_flatten _ (by rw [hfl]; exact noNul_stripCr text hn)
  have h := pop_line_aligned keepNl _ hal hnn
  rw [hfl] at h
  exact ⟨h, fun hc => by rw [h, stripCr_eq_crlfToLf text hc]⟩

/-- text `s = "two␍⏎lines"; /* c␍⏎*/ t <= 1;␍⏎#dir␍⏎u = 2;` (CRLF line ends, a two-line literal, a comment, a directive). -/
def exCrlf : Bytes := [115, 32, 61, 32, 34, 116, 119, 111, 13, 10, 108, 105, 110, 101, 115, 34, 59, 32, 47, 42, 32, 99, 13, 10, 42, 47, 32, 116, 32, 60, 61, 32, 49, 59, 13, 10, 35, 100, 105, 114, 13, 10, 117, 32, 61, 32, 50, 59]
example : popStream true (lineReader chunkMax exCrlf) = specStream true (crlfToLf exCrlf) :=
  (layout_independent_partial true exCrlf (by decide)
    ((lineReader_aligned chunkMax (by decide) exCrlf).mp (by decide))).2 (by decide)
example : (popStream true (lineReader chunkMax exCrlf)).length = 14 := by decide

/-! ## A wider region in which fragmentation does not matter (C13R2)

  `lex_line_aligned` asks every cut to fall right after a '\n'. `safeSplit a b` (Model/LexReaders.lean) is the
  exact condition for ONE cut: no rule matches across the cut at any token start of the first fragment, and the
  beginning-of-line flag of the fresh buffer does not change the first token of the second. It is decidable and is
  defined by the whole-text matcher only (`pick` on `r ++ b` against `pick` on `r`), never by the chunked scanner.

  `lex_token_aligned_iff` (C13R3): for a non-empty NUL-free `a` and NUL-free `b`,
      lexChunks [a, b] = lexWhole (a ++ b)  ↔  safeSplit a b
  both directions for ALL texts — `safeSplit` is exactly the region in which one cut does not matter, and its
  complement exactly the region of the finding `C13.unaligned_chunk_splits_token` for two chunks. `lex_cuts_aligned`:
  any number of cuts, each safe with respect to everything that follows it (`safeCuts`). -/

/-- **Chunked = whole on a safe split**, for every pair of fragments: any start condition at the cut (inside a
literal, inside a comment), any position of the cut in its line. -/
theorem lex_token_aligned (a b : Bytes) (h : safeSplit a b = true) : lexChunks [a, b] = lexWhole (a ++ b) :=
  safeSplit_sound a b h

/-- The same for the parser's `(code, text)` stream. -/
theorem pop_token_aligned (keepNl : Bool) (a b : Bytes) (h : safeSplit a b = true) :
    popStream keepNl [a, b] = specStream keepNl (a ++ b) := by
  simp only [popStream, specStream, lex_token_aligned a b h]

/-- cuts that are NOT after a newline and are safe: after `;`, after a blank, before `;`, inside a literal, inside a
comment, after the `\` of `\n` in a literal (the scanner has no `\n` unit). -/
example : safeSplit [97, 32, 61, 32, 49, 50, 59] [32, 98, 32, 61, 32, 51, 59] = true ∧
    safeSplit [97, 32] [61, 32, 49] = true ∧ safeSplit [102, 40, 120, 41] [59] = true ∧
    safeSplit [34, 97, 98] [99, 34] = true ∧ safeSplit [47, 42, 97] [98, 42, 47] = true ∧
    safeSplit [34, 97, 92] [110, 98, 34] = true := by decide +kernel
example : lexChunks [[97, 32, 61, 32, 49, 50, 59], [32, 98, 32, 61, 32, 51, 59]] =
    lexWhole ([97, 32, 61, 32, 49, 50, 59] ++ [32, 98, 32, 61, 32, 51, 59]) := lex_token_aligned _ _ (by decide +kernel)

/-- **The exact region for one cut.** `→`: if the first tokens agree they are the same rule choice (rule codes are
≥ 256, the default rule returns a byte: `tok_inj`), so a failing `noCross`/`bolOk` shows up as a differing token. -/
theorem lex_token_aligned_iff (a b : Bytes) (ha : a ≠ []) (na : noNul a = true) (nb : noNul b = true) :
    lexChunks [a, b] = lexWhole (a ++ b) ↔ safeSplit a b = true :=
  safeSplit_iff a b ha na nb

example : ¬ lexChunks [[49, 101, 43], [53]] = lexWhole ([49, 101, 43] ++ [53]) :=
  fun h => absurd ((lex_token_aligned_iff _ _ (by decide) (by decide) (by decide)).mp h) (by decide +kernel)

/-- **Any number of cuts.** Every chunk non-empty and NUL-free, no rule matching across the end of a chunk into the
rest of the text, beginning-of-line immaterial at every cut: the chunked scanner gives the tokens of the whole text.
(`lex_line_aligned` is the case in which every cut follows a '\n'.) This is the PROVED-SAFE REGION of a property whose full statement is false (`not_fragmentation_independent`): a `…_partial` result in the sense of the framework's naming rule; the name is kept because other files cite it. -/
theorem lex_cuts_aligned (frags : List Bytes) (h : safeCuts frags = true) : lexChunks frags = lexWhole frags.flatten :=
  lexChunksFrom_safe frags .initial h

theorem pop_cuts_aligned (keepNl : Bool) (frags : List Bytes) (h : safeCuts frags = true) :
    popStream keepNl frags = specStream keepNl frags.flatten := by
  simp only [popStream, specStream, lex_cuts_aligned frags h]

/-- `x = |"ab|c\|n"|; y|  = 1` — five chunks, cuts before a literal, inside it, after the `\` of `\n`, after it, after an identifier. -/
example : safeCuts [[120, 32, 61, 32], [34, 97, 98], [99, 92], [110, 34], [59, 32, 121], [32, 61, 32, 49]] = true := by decide +kernel
example : lexChunks [[120, 32, 61, 32], [34, 97, 98], [99, 92], [110, 34], [59, 32, 121], [32, 61, 32, 49]] =
    lexWhole [120, 32, 61, 32, 34, 97, 98, 99, 92, 110, 34, 59, 32, 121, 32, 61, 32, 49] :=
  lex_cuts_aligned _ (by decide +kernel)
/-- each cut of `1|2|3` is unsafe, and a match may cross SEVERAL chunks: `safeCuts` looks at all that follows. -/
example : safeCuts [[49], [50], [51]] = false ∧ safeCuts [[120, 32], [49], [50]] = false := by decide +kernel

/-- An unsafe split on which the chunked and the whole-text token sequences really differ. -/
def UnsafeWitness (a b : Bytes) : Prop := safeSplit a b = false ∧ lexChunks [a, b] ≠ lexWhole (a ++ b)
instance (a b : Bytes) : Decidable (UnsafeWitness a b) := by unfold UnsafeWitness; infer_instance

/-- **One witness per class of the finding `C13.unaligned_chunk_splits_token`** (each is also replayed against the
C++ by the check: family `tort`/`stmt` at every split position). -/
theorem unsafe_split_witnesses :
    UnsafeWitness [49, 50] [51, 52, 53] ∧                       -- number            12|345
    UnsafeWitness [97, 98] [99, 100] ∧                          -- identifier        ab|cd
    UnsafeWitness [101, 110] [100] ∧                            -- keyword           en|d
    UnsafeWitness [60] [61] ∧                                   -- two-byte operator <|=
    UnsafeWitness [34, 97, 92] [34, 98, 34] ∧                   -- escape            "a\|"b"
    UnsafeWitness [34, 97, 34] [34, 98, 34] ∧                   -- doubled quote     "a"|"b"
    UnsafeWitness [47, 42, 120, 42] [47, 121] ∧                 -- comment end       /*x*|/y
    UnsafeWitness [47] [42, 120, 42, 47] ∧                      -- comment begin     /|*x*/
    UnsafeWitness [47] [47, 120] ∧                              -- line comment      /|/x
    UnsafeWitness [120, 32] [35, 121, 59, 122] ∧                -- # at chunk start  x |#y;z
    UnsafeWitness [120, 59] [32, 35, 121] ∧                     -- blanks + #        x;| #y
    UnsafeWitness [117, 56] [34, 120, 34] ∧                     -- literal opener    u8|"x"
    UnsafeWitness [49, 101, 43] [53] ∧                          -- float: NOT the last token of the chunk   1e+|5
    UnsafeWitness [48, 120] [49, 70] ∧                          -- hexadecimal       0x|1F
    UnsafeWitness [49, 46] [53]                                 -- double            1.|5
    := by decide +kernel

/-! ## A literal spanning many chunks (C13R3; section 3 of the C13R2 task)

  `Parser::next_token` reassembles LITERALBEG / LITERALSTR… / LITERALEND into one token across ANY number of reader
  chunks: the start condition LITERAL and the parser's `_string_buffer` survive the chunk switch. Explicitly: -/

/-- **One literal, any number of aligned chunks.** A string literal `"content"` whose content is plain (no `"`, no
`\`, no NUL; line breaks — also runs of EMPTY lines, i.e. chunks that are just "\n" — are plain), delivered in any
line-aligned fragmentation, reaches the parser as ONE `TOKEN_LITERALSTR` carrying every byte of it. This is the PROVED-SAFE REGION of a property whose full statement is false (`not_fragmentation_independent`): a `…_partial` result in the sense of the framework's naming rule; the name is kept because other files cite it. -/
theorem literal_across_chunks (keepNl : Bool) (frags : List Bytes) (content : Bytes) (hal : aligned frags = true)
    (hfl : frags.flatten = 34 :: content ++ [34]) (hp : content.all plainByte = true) :
    popStream keepNl frags = [⟨tLITERALSTR, 34 :: content ++ [34]⟩] := by
  have hnn : noNul frags.flatten = true := by
    rw [hfl]
    simp only [noNul, List.cons_append, List.all_cons, List.all_append, List.all_nil, Bool.and_true, Bool.and_eq_true]
    refine ⟨by decide, ?_, by decide⟩
    rw [List.all_eq_true] at hp ⊢
    intro x hx
    have := hp x hx
    simp only [plainByte, Bool.and_eq_true] at this
    exact this.2
  rw [pop_line_aligned keepNl frags hal (noNul_of_flatten frags hnn), hfl]
  exact specStream_literal keepNl content hp

/-- … and through the library's readers, CRLF or LF: the text `"content"` (lines ≤ 1023 bytes) read by
`lineReader 1023` (= StringReader = ReadFile = the include reader, `readers_same_chunks`). -/
theorem literal_through_reader (keepNl : Bool) (text content : Bytes) (hn : noNul text = true)
    (hfit : LinesFit chunkMax (stripCr text)) (ht : stripCr text = 34 :: content ++ [34]) (hp : content.all plainByte = true) :
    popStream keepNl (lineReader chunkMax text) = [⟨tLITERALSTR, 34 :: content ++ [34]⟩] := by
  rw [(layout_independent_partial keepNl text hn hfit).1, ht]
  exact specStream_literal keepNl content hp

/-- `"a⏎⏎⏎b"`: three line breaks, two EMPTY lines, chunks `"a⏎` `⏎` `⏎` `b"` — every line break is kept (seeded change
C13-m6 skips the second of two consecutive "\n" chunks), with LF and with CRLF line ends. -/
example : popStream true [[34, 97, 10], [10], [10], [98, 34]] = [⟨tLITERALSTR, [34, 97, 10, 10, 10, 98, 34]⟩] :=
  literal_across_chunks true _ [97, 10, 10, 10, 98] (by decide) (by decide) (by decide)
example : lineReader chunkMax [34, 97, 13, 10, 13, 10, 13, 10, 98, 34] = [[34, 97, 10], [10], [10], [98, 34]] := by decide
example : popStream true (lineReader chunkMax [34, 97, 13, 10, 13, 10, 13, 10, 98, 34]) = [⟨tLITERALSTR, [34, 97, 10, 10, 10, 98, 34]⟩] :=
  literal_through_reader true _ [97, 10, 10, 10, 98] (by decide)
    ((lineReader_aligned chunkMax (by decide) _).mp (by decide)) (by decide) (by decide)

/-! ## Where it fails: the negation of the full statement, clause by clause

  FULL STATEMENT (false on the pinned tree):
    ∀ frags, lexChunks frags = lexWhole frags.flatten
  Finding C13.unaligned_chunk_splits_token (+ C13.nul_truncates_chunk, C13.reader_drops_lone_cr).
  The 1035-byte line of DESIGN.md §1 (token cut at byte 1023 by `lineReader 1023`) is an instance of
  `lineReader_aligned` (a line longer than `max` ⇒ a cut that is not after '\n') followed by the
  first witness below; it is replayed against the C++ on every run of the check (texts `longnum_*`).
-/

/-- `12345` served as `12|345`: two INTEGER tokens instead of one. -/
theorem not_fragmentation_independent : ¬ ∀ frags : List Bytes, lexChunks frags = lexWhole frags.flatten := by
  intro h
  exact absurd (h [[49, 50], [51, 52, 53]]) (by decide)

example : lexChunks [[49, 50], [51, 52, 53]] = [⟨tINTEGER, [49, 50]⟩, ⟨tINTEGER, [51, 52, 53]⟩] ∧
    lexWhole [49, 50, 51, 52, 53] = [⟨tINTEGER, [49, 50, 51, 52, 53]⟩] := by decide

/-- the same through the line reader: `a = 12345;` with an 7-byte buffer. -/
example : popStream true (lineReader 7 [97, 32, 61, 32, 49, 50, 51, 52, 53, 59]) ≠ specStream true [97, 32, 61, 32, 49, 50, 51, 52, 53, 59] := by decide

/-- multi-character operator `<=` split as `<|=`. -/
example : lexChunks [[60], [61]] = [⟨60, [60]⟩, ⟨61, [61]⟩] ∧
    lexWhole [60, 61] = [⟨Gen.TOKEN_ISEQLESS, [60, 61]⟩] := by decide

/-- string escape `\"` split as `\|"` in `"a\"b"`: the literal ends at the escaped quote, `b` becomes
an identifier and a new literal opens. -/
example : popStream true [[34, 97, 92], [34, 98, 34]] = [⟨tLITERALSTR, [34, 97, 92, 34]⟩, ⟨tKEYWORD, [98]⟩] ∧
    specStream true [34, 97, 92, 34, 98, 34] = [⟨tLITERALSTR, [34, 97, 92, 34, 98, 34]⟩] := by decide

/-- doubled quote `""` split as `"|"` in `"a""b"`: two literals `"a"` and `"b"` instead of one. -/
example : popStream true [[34, 97, 34], [34, 98, 34]] ≠ specStream true [34, 97, 34, 34, 98, 34] := by decide

/-- string escape `\n` split as `\|n`: harmless — `\n` is not a unit for the scanner (`\` and `n` are
two LITERALSTR matches either way, and the parser concatenates them). -/
example : popStream true [[34, 97, 92], [110, 98, 34]] = specStream true [34, 97, 92, 110, 98, 34] := by decide

/-- comment delimiters: `/|*` opens no comment, `*|/` closes none. -/
example : lexChunks [[47], [42, 120, 42, 47]] ≠ lexWhole [47, 42, 120, 42, 47] := by decide
example : lexChunks [[47, 42, 120, 42], [47, 121]] ≠ lexWhole [47, 42, 120, 42, 47, 121] := by decide

/-- no token is cut, and still the meaning changes: a `#` that happens to start a chunk is at
"beginning of line" and swallows the rest of the line as a directive (`x #y;z` cut before `#`). -/
example : popStream true [[120, 32], [35, 121, 59, 122]] = [⟨tKEYWORD, [120]⟩] ∧
    (specStream true [120, 32, 35, 121, 59, 122]).length = 5 := by decide

/-- NUL: the rest of the chunk is dropped (`a\0b;\nc;` in one chunk: `a`, then `c;` is lost too;
line by line: `a`, `c`, `;`). -/
example : lexChunks [[97, 0, 98, 59, 10, 99, 59]] = [⟨tKEYWORD, [97]⟩] ∧
    (lexChunks (lineReader 1023 [97, 0, 98, 59, 10, 99, 59])).map (·.code) = [tKEYWORD, tKEYWORD, 59] ∧
    (lexWhole [97, 0, 98, 59, 10, 99, 59]).length = 6 := by decide

/-- lone CR outside a literal: `a\rb` reaches the scanner as the identifier `ab`. -/
example : popStream true (lineReader 1023 [97, 13, 98]) = [⟨tKEYWORD, [97, 98]⟩] ∧
    specStream true [97, 13, 98] = [⟨tKEYWORD, [97]⟩, ⟨13, [13]⟩, ⟨tKEYWORD, [98]⟩] := by decide

/-- CR inside a literal: `"a\rb"` reaches the parser as the literal `"ab"`. -/
example : popStream true (lineReader 1023 [34, 97, 13, 98, 34]) = [⟨tLITERALSTR, [34, 97, 98, 34]⟩] ∧
    specStream true [34, 97, 13, 98, 34] = [⟨tLITERALSTR, [34, 97, 13, 98, 34]⟩] := by decide

end BlocV.C13
