/-
  C06 — loops and conditionals execute exactly the iterations the manual prescribes.
  Property theorems only.
-/
import BlocV.Model.Interp

namespace BlocV.C06
open BlocV

/-- The state in which a loop body runs: one unit of the work budget has been consumed. -/
def ticked (s : St) : St := { s with budget := s.budget - 1 }

/-- `break` ends exactly the innermost loop: a `break` flow from the body makes the loop itself end
normally, with the state the body left. -/
theorem forLoop_break (v : String) (min max step : Int64) (k : Nat) (s s1 : St)
    (body : EvalM Flow) (hbud : s.budget ≠ 0) (hb : body (ticked s) = (.ok .brk, s1)) :
    forLoop body v min max step (k + 1) s = (.ok .norm, s1) := by
  have ht : tick s = (.ok (), ticked s) := by
    unfold tick ticked
    have : (s.budget == 0) = false := by simpa using hbud
    simp [this]
  simp [forLoop, bind, ht, hb, pure]

/-- `return` leaves the loop and stays pending for the enclosing function or program. -/
theorem forLoop_return (v : String) (min max step : Int64) (k : Nat) (s s1 : St)
    (body : EvalM Flow) (hbud : s.budget ≠ 0) (hb : body (ticked s) = (.ok .ret, s1)) :
    forLoop body v min max step (k + 1) s = (.ok .ret, s1) := by
  have ht : tick s = (.ok (), ticked s) := by
    unfold tick ticked
    have : (s.budget == 0) = false := by simpa using hbud
    simp [this]
  simp [forLoop, bind, ht, hb, pure]

end BlocV.C06
