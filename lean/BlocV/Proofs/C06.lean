/-
  C06 — loops and conditionals execute exactly the iterations the manual prescribes.

  Property theorems only (helpers: Proofs/Lemmas/Vars.lean). Model: `forLoop` / `whileLoop`
  (Model/Interp.lean), the transcription of FORStatement::doit / WHILEStatement::doit, for an
  ARBITRARY body runner; Spec: `Spec.forRange` (Spec/Loops.lean).
-/
import BlocV.Proofs.Lemmas.Vars
import BlocV.Spec.Loops

namespace BlocV.C06
open BlocV BlocV.Lemmas

/-- `break` ends exactly the innermost loop: a `break` flow from the body makes the loop itself end
normally, with the state the body left. -/
theorem forLoop_break (v : String) (min max step : Int64) (k : Nat) (s s1 : St)
    (body : EvalM Flow) (hb : body s = (.ok .brk, s1)) :
    forLoop body v min max step (k + 1) s = (.ok .norm, s1) := by
  simp [forLoop, bind, hb, pure]

/-- `return` leaves the loop and stays pending for the enclosing function or program. -/
theorem forLoop_return (v : String) (min max step : Int64) (k : Nat) (s s1 : St)
    (body : EvalM Flow) (hb : body s = (.ok .ret, s1)) :
    forLoop body v min max step (k + 1) s = (.ok .ret, s1) := by
  simp [forLoop, bind, hb, pure]

/-- An error in the body ends the loop with that error, from the state the body left. -/
theorem forLoop_error (v : String) (min max step : Int64) (k : Nat) (s s1 : St) (c : Nat) (a : Bytes)
    (body : EvalM Flow) (hb : body s = (.err c a, s1)) :
    forLoop body v min max step (k + 1) s = (.err c a, s1) := by
  simp [forLoop, bind, hb]

/-- A body that always ends normally (or with `continue`) and never assigns the control variable. -/
structure Quiet (body : EvalM Flow) (v : String) : Prop where
  norm : ∀ s, (body s).1 = .ok .norm ∨ (body s).1 = .ok .cont
  keeps : ∀ s, lookupVar (body s).2.vars v = lookupVar s.vars v

def bodySt (body : EvalM Flow) (s : St) : St := (body s).2
def setK (v : String) (s : St) (x : Int) : St := { s with vars := setVar s.vars v (.int (Int64.ofInt x)) }

/-- The state after running the body once for every value of the list, the control variable being
set to each value before the body runs (the first value is already in place). -/
def runOver (body : EvalM Flow) (v : String) (s : St) : List Int → St
  | [] => s
  | _ :: rest => rest.foldl (fun st x => bodySt body (setK v st x)) (bodySt body s)

theorem toInt_add_small (a b : Int64) (h1 : -2 ^ 63 ≤ a.toInt + b.toInt) (h2 : a.toInt + b.toInt < 2 ^ 63) :
    (a + b).toInt = a.toInt + b.toInt := by
  rw [Int64.toInt_add]
  apply Int.bmod_eq_of_le <;> omega

/-- **Ascending loop.** For a quiet body, the loop entered with the control variable at `cur ≤ max`
and a positive step runs the body exactly for `cur, cur+step, … ≤ max` — computed on mathematical
integers, so it never wraps around, also at INT64_MAX — and ends normally, whenever the fuel covers
the number of values. -/
theorem forLoop_visits_up (body : EvalM Flow) (v : String) (min max step : Int64)
    (hq : Quiet body v) (hstep : 0 < step.toInt) :
    ∀ (k : Nat) (cur : Int64) (s : St), lookupVar s.vars v = .int cur → cur.toInt ≤ max.toInt →
      (Spec.upFrom k cur.toInt max.toInt step.toInt).length < k →
      forLoop body v min max step k s =
        (.ok .norm, runOver body v s (Spec.upFrom k cur.toInt max.toInt step.toInt)) := by
  intro k
  induction k with
  | zero => intro cur s _ _ hl; simp [Spec.upFrom] at hl
  | succ k ih =>
    intro cur s hcur hle hl
    have hgt : ¬ (cur.toInt > max.toInt) := by omega
    simp only [Spec.upFrom, hgt, if_false] at hl ⊢
    -- one run of the body
    cases hbs : body s with
    | mk r s1 =>
    have hs1 : bodySt body s = s1 := by simp [bodySt, hbs]
    have hr : r = .ok .norm ∨ r = .ok .cont := by have := hq.norm s; rw [hbs] at this; exact this
    have hk : lookupVar s1.vars v = .int cur := by have := hq.keeps s; rw [hbs] at this; rw [this, hcur]
    have hstep64 : (step > 0) := by
      show (0 : Int64) < step
      rw [Int64.lt_iff_toInt_lt]; exact hstep
    have hstepneg : ¬ (step < 0) := by rw [Int64.lt_iff_toInt_lt]; show ¬ step.toInt < 0; omega
    have hasInt : (Val.int cur).asInt = .ok cur := rfl
    unfold forLoop
    simp only [runOver]
    rw [hs1]
    rcases hr with hn | hn
    all_goals
      subst hn
      simp only [bind, hbs, getSt, liftM, monadLift, MonadLift.monadLift, hk, hasInt, pure]
      by_cases hstop : cur.toInt + step.toInt > max.toInt
      · -- the next value leaves the range: the loop ends; the spec list is [cur]
        have : Spec.upFrom k (cur.toInt + step.toInt) max.toInt step.toInt = [] := by
          cases k <;> simp [Spec.upFrom, hstop]
        simp [hstep64, hstop, this]
      · have hnxt : (cur + step).toInt = cur.toInt + step.toInt := by
          apply toInt_add_small
          · have := Int64.le_toInt cur; omega
          · have := Int64.toInt_lt max; omega
        have hcond : ((decide (step > 0) && decide (cur.toInt + step.toInt > max.toInt)) ||
            (decide (step < 0) && decide (cur.toInt + step.toInt < min.toInt))) = false := by
          simp [hstop, hstepneg]
        rw [hcond]
        simp only [Bool.false_eq_true, ↓reduceIte, modifySt]
        have hl' : (Spec.upFrom k (cur + step).toInt max.toInt step.toInt).length < k := by
          rw [hnxt]; simp only [List.length_cons] at hl; omega
        have hlook : lookupVar ({ s1 with vars := setVar s1.vars v (.int (cur + step)) } : St).vars v = .int (cur + step) :=
          lookup_setVar _ _ _
        have := ih (cur + step) _ hlook (by rw [hnxt]; omega) hl'
        rw [this, hnxt]
        -- the spec list continues with cur+step
        cases hk2 : k with
        | zero => simp [hk2, Spec.upFrom] at hl'
        | succ k' =>
          have hgt2 : ¬ (cur.toInt + step.toInt > max.toInt) := hstop
          simp only [Spec.upFrom, hgt2, if_false, runOver, List.foldl_cons, setK, bodySt]
          have e : Int64.ofInt (cur.toInt + step.toInt) = cur + step := by rw [← hnxt, Int64.ofInt_toInt]
          rw [e]

example : Spec.upFrom 5 1 10 4 = [1, 5, 9] := by decide

end BlocV.C06
