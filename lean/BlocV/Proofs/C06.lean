/-
  C06 — loops and conditionals execute exactly the iterations the manual prescribes.

  Property theorems only (helpers: Proofs/Lemmas/Vars.lean, Loops.lean, Interp.lean). Model: `forLoop` /
  `whileLoop` / `forallLoop` (Model/Interp.lean), the transcriptions of FORStatement::doit /
  WHILEStatement::doit / FORALLStatement::doit for an ARBITRARY body runner, and the statement level
  `exec … (.forS …)`, `(.forallS …)`, `(.letS …)`; Spec: `Spec.forRange` / `forCount` / `forValues`
  (Spec/Loops.lean), `forallOrder` (Model/Members.lean, characterised in C09).

  Clause table (property text → theorem): see notes/NOTES-p0608.md.
-/
import BlocV.Proofs.Lemmas.Vars
import BlocV.Proofs.Lemmas.Loops
import BlocV.Proofs.Lemmas.Interp
import BlocV.Proofs.Lemmas.Lock
import BlocV.Proofs.Lemmas.Int64
import BlocV.Proofs.C09
import BlocV.Spec.Loops

namespace BlocV.C06
open BlocV BlocV.Lemmas

/-- `break` ends exactly the innermost loop: a `break` flow from the body makes the loop itself end
normally, with the state the body left. -/
theorem forLoop_break (v : String) (min max step : Int64) (k : Nat) (s s1 : St)
    (body : EvalM Flow) (hb : body s = (.ok .brk, s1)) :
    forLoop body v min max step (k + 1) s = (.ok .norm, s1) := by
  simp [forLoop, bind, hb, pure]

/-- `return` leaves the loop and stays pending for the enclosing function or program. -/
theorem forLoop_return (v : String) (min max step : Int64) (k : Nat) (s s1 : St)
    (body : EvalM Flow) (hb : body s = (.ok .ret, s1)) :
    forLoop body v min max step (k + 1) s = (.ok .ret, s1) := by
  simp [forLoop, bind, hb, pure]

/-- An error in the body ends the loop with that error, from the state the body left. -/
theorem forLoop_error (v : String) (min max step : Int64) (k : Nat) (s s1 : St) (c : Nat) (a : Bytes)
    (body : EvalM Flow) (hb : body s = (.err c a, s1)) :
    forLoop body v min max step (k + 1) s = (.err c a, s1) := by
  simp [forLoop, bind, hb]

/-- A body that always ends normally (or with `continue`) and never assigns the control variable. -/
structure Quiet (body : EvalM Flow) (v : String) : Prop where
  norm : ∀ s, (body s).1 = .ok .norm ∨ (body s).1 = .ok .cont
  keeps : ∀ s, lookupVar (body s).2.vars v = lookupVar s.vars v

def bodySt (body : EvalM Flow) (s : St) : St := (body s).2
def setK (v : String) (s : St) (x : Int) : St := { s with vars := setVar s.vars v (.int (Int64.ofInt x)) }

/-- The state after running the body once for every value of the list, the control variable being
set to each value before the body runs (the first value is already in place). -/
def runOver (body : EvalM Flow) (v : String) (s : St) : List Int → St
  | [] => s
  | _ :: rest => rest.foldl (fun st x => bodySt body (setK v st x)) (bodySt body s)

theorem toInt_add_small (a b : Int64) (h1 : -2 ^ 63 ≤ a.toInt + b.toInt) (h2 : a.toInt + b.toInt < 2 ^ 63) :
    (a + b).toInt = a.toInt + b.toInt := by
  rw [Int64.toInt_add]
  apply Int.bmod_eq_of_le <;> omega


/-- **One re-entry of FORStatement::doit, for ANY body** (also one that assigns the control variable): after a body run that
ends normally or with `continue`, with the control variable then holding `cur`, the loop ends iff `cur + step` — computed on
mathematical integers — leaves `[min, max]` in the direction of the step; otherwise the variable becomes `cur + step` (which
then cannot have wrapped) and the loop re-enters. This is the model of the repaired increment (statement_for.cpp). (A null in the
control variable: `forLoop_null_iterator`.) -/
theorem forLoop_iteration (body : EvalM Flow) (v : String) (min max step : Int64) (k : Nat) (s s1 : St) (r : Flow)
    (cur : Int64) (hb : body s = (.ok r, s1)) (hr : r = .norm ∨ r = .cont) (hv : lookupVar s1.vars v = .int cur) :
    forLoop body v min max step (k + 1) s =
      if (step > 0 && cur.toInt + step.toInt > max.toInt) || (step < 0 && cur.toInt + step.toInt < min.toInt)
      then (.ok .norm, s1)
      else forLoop body v min max step k { s1 with vars := setVar s1.vars v (.int (cur + step)) } := by
  have hasInt : (Val.int cur).asInt = .ok cur := rfl
  have hnn : (Val.int cur).isNull = false := rfl
  rcases hr with rfl | rfl
  all_goals
    by_cases hc : ((step > 0 && cur.toInt + step.toInt > max.toInt) || (step < 0 && cur.toInt + step.toInt < min.toInt)) = true
    · rw [if_pos hc]
      unfold forLoop
      simp only [bind, hb, getSt, liftM, monadLift, MonadLift.monadLift, hv, hnn, Bool.false_eq_true, if_false, hasInt, pure, modifySt, hc]
      rfl
    · rw [if_neg hc]
      conv => lhs; unfold forLoop
      simp only [bind, hb, getSt, liftM, monadLift, MonadLift.monadLift, hv, hnn, Bool.false_eq_true, if_false, hasInt, pure, modifySt, hc]
      rfl

/-- **A body that sets the control variable to null** (`for k in 1 to 3 loop k = int(); end loop`): after a body run that ends normally
or with `continue`, if the control variable holds a null — typed or untyped —, the loop ends with the BLOC error NOT_INTEGER, from the
state the body left; nothing is dereferenced and no further iteration runs. (FORStatement::doit, re-entry branch, after the repair
`if (data->iterator->isNull()) throw RuntimeError(EXC_RT_NOT_INTEGER)`; before it: a null-pointer dereference.) -/
theorem forLoop_null_iterator (body : EvalM Flow) (v : String) (min max step : Int64) (k : Nat) (s s1 : St) (r : Flow)
    (hb : body s = (.ok r, s1)) (hr : r = .norm ∨ r = .cont) (hn : (lookupVar s1.vars v).isNull = true) :
    forLoop body v min max step (k + 1) s = (.err Gen.EXC_RT_NOT_INTEGER [], s1) := by
  rcases hr with rfl | rfl
  all_goals
    unfold forLoop
    simp only [bind_app, hb, getSt_app, liftM_app, hn, if_true]

example : forLoop (fun s => (.ok .norm, { s with vars := setVar s.vars "k" (.null Ty.int) })) "k" 1 3 1 5 { vars := [("k", .int 1)] } =
    (.err Gen.EXC_RT_NOT_INTEGER [], { vars := [("k", .null Ty.int)] }) :=
  forLoop_null_iterator _ "k" 1 3 1 4 _ _ .norm rfl (Or.inl rfl) (by decide +kernel)

def QuietAt (body : EvalM Flow) (v : String) (s : St) : Prop :=
  ((body s).1 = .ok .norm ∨ (body s).1 = .ok .cont) ∧ lookupVar (body s).2.vars v = lookupVar s.vars v

def QuietAlong (body : EvalM Flow) (v : String) : St → List Int → Prop
  | _, [] => True
  | s, [_] => QuietAt body v s
  | s, _ :: y :: rest => QuietAt body v s ∧ QuietAlong body v (setK v (bodySt body s) y) (y :: rest)

/-- unfolding of `runOver` by one value -/
theorem runOver_cons_cons (body : EvalM Flow) (v : String) (s : St) (x y : Int) (rest : List Int) :
    runOver body v s (x :: y :: rest) = runOver body v (setK v (bodySt body s) y) (y :: rest) := rfl

/-- a globally quiet body is quiet along every run -/
theorem quietAlong_of_quiet (body : EvalM Flow) (v : String) (hq : Quiet body v) : ∀ (l : List Int) (s : St), QuietAlong body v s l := by
  intro l
  induction l with
  | nil => intro s; trivial
  | cons x rest ih =>
    intro s
    cases rest with
    | nil => exact ⟨hq.norm s, hq.keeps s⟩
    | cons y rest => exact ⟨⟨hq.norm s, hq.keeps s⟩, ih _⟩

/-- **Ascending loop, run-local hypothesis.** Like `forLoop_visits_up`, but the body only has to be quiet along the run that
actually happens (`QuietAlong`: each of the prescribed iterations, when it runs, ends normally/with `continue` and leaves the control
variable alone) — the hypothesis a real statement body can satisfy (a body made of statements is never quiet in EVERY state: with an
exhausted work budget it stops as `oof`). Values are computed in `Int`: no wrap-around at INT64_MAX. -/
theorem forLoop_visits_up_along (body : EvalM Flow) (v : String) (min max step : Int64) (hstep : 0 < step.toInt) :
    ∀ (k : Nat) (cur : Int64) (s : St), lookupVar s.vars v = .int cur → cur.toInt ≤ max.toInt →
      (Spec.upFrom k cur.toInt max.toInt step.toInt).length < k →
      QuietAlong body v s (Spec.upFrom k cur.toInt max.toInt step.toInt) →
      forLoop body v min max step k s =
        (.ok .norm, runOver body v s (Spec.upFrom k cur.toInt max.toInt step.toInt)) := by
  intro k
  induction k with
  | zero => intro cur s _ _ hl; simp [Spec.upFrom] at hl
  | succ k ih =>
    intro cur s hcur hle hl hq
    have hgt : ¬ (cur.toInt > max.toInt) := by omega
    simp only [Spec.upFrom, hgt, if_false] at hl hq ⊢
    have hstep64 : (step > 0) := by
      show (0 : Int64) < step
      rw [Int64.lt_iff_toInt_lt]; exact hstep
    have hstepneg : ¬ (step < 0) := by rw [Int64.lt_iff_toInt_lt]; show ¬ step.toInt < 0; omega
    cases hbs : body s with
    | mk r s1 =>
    have hs1 : bodySt body s = s1 := by simp [bodySt, hbs]
    by_cases hstop : cur.toInt + step.toInt > max.toInt
    · have hnil : Spec.upFrom k (cur.toInt + step.toInt) max.toInt step.toInt = [] := by
        cases k <;> simp [Spec.upFrom, hstop]
      rw [hnil] at hq ⊢
      obtain ⟨hn, hkeep⟩ := hq
      rw [hbs] at hn hkeep
      simp only at hn hkeep
      have hr : ∃ fl, r = .ok fl ∧ (fl = .norm ∨ fl = .cont) := by
        rcases hn with h | h
        · exact ⟨_, h, Or.inl rfl⟩
        · exact ⟨_, h, Or.inr rfl⟩
      obtain ⟨fl, rfl, hfl⟩ := hr
      rw [forLoop_iteration body v min max step k s s1 fl cur hbs hfl (by rw [hkeep, hcur])]
      simp [hstep64, hstop, runOver, hs1]
    · have hnxt : (cur + step).toInt = cur.toInt + step.toInt := by
        apply toInt_add_small
        · have := Int64.le_toInt cur; omega
        · have := Int64.toInt_lt max; omega
      have e : Int64.ofInt (cur.toInt + step.toInt) = cur + step := by rw [← hnxt, Int64.ofInt_toInt]
      cases k with
      | zero => simp [Spec.upFrom] at hl
      | succ k' =>
        have hcons : Spec.upFrom (k' + 1) (cur.toInt + step.toInt) max.toInt step.toInt =
            (cur.toInt + step.toInt) :: Spec.upFrom k' (cur.toInt + step.toInt + step.toInt) max.toInt step.toInt := by
          simp [Spec.upFrom, hstop]
        rw [hcons] at hq
        obtain ⟨⟨hn, hkeep⟩, hrest⟩ := hq
        rw [hbs] at hn hkeep
        simp only at hn hkeep
        have hr : ∃ fl, r = .ok fl ∧ (fl = .norm ∨ fl = .cont) := by
          rcases hn with h | h
          · exact ⟨_, h, Or.inl rfl⟩
          · exact ⟨_, h, Or.inr rfl⟩
        obtain ⟨fl, rfl, hfl⟩ := hr
        rw [forLoop_iteration body v min max step (k' + 1) s s1 fl cur hbs hfl (by rw [hkeep, hcur])]
        have hcond : ((decide (step > 0) && decide (cur.toInt + step.toInt > max.toInt)) ||
            (decide (step < 0) && decide (cur.toInt + step.toInt < min.toInt))) = false := by
          simp [hstop, hstepneg]
        rw [hcond]
        simp only [Bool.false_eq_true, if_false]
        have hlook : lookupVar ({ s1 with vars := setVar s1.vars v (.int (cur + step)) } : St).vars v = .int (cur + step) :=
          lookup_setVar _ _ _
        have hst : setK v (bodySt body s) (cur.toInt + step.toInt) = { s1 with vars := setVar s1.vars v (.int (cur + step)) } := by
          simp [setK, hs1, e]
        rw [hst, ← hcons, ← hnxt] at hrest
        have := ih (cur + step) _ hlook (by rw [hnxt]; omega) (by rw [hnxt, hcons]; simp only [List.length_cons] at hl ⊢; rw [hcons] at hl; simpa using hl) hrest
        rw [this, hnxt, hcons, runOver_cons_cons, hst]
/-- **Descending loop** (`forLoop_visits_down`): the loop entered with the control variable at `cur ≥ min` and a NEGATIVE step runs the
body exactly for `cur, cur−|step|, … ≥ min` (`Spec.downFrom`), computed on mathematical integers — in particular at INT64_MIN the
next value `cur + step < −2^63` is recognised as outside the range instead of wrapping to a large positive number — and ends normally. -/
theorem forLoop_visits_down_along (body : EvalM Flow) (v : String) (min max step : Int64) (hstep : step.toInt < 0) :
    ∀ (k : Nat) (cur : Int64) (s : St), lookupVar s.vars v = .int cur → min.toInt ≤ cur.toInt →
      (Spec.downFrom k cur.toInt min.toInt (-step.toInt)).length < k →
      QuietAlong body v s (Spec.downFrom k cur.toInt min.toInt (-step.toInt)) →
      forLoop body v min max step k s =
        (.ok .norm, runOver body v s (Spec.downFrom k cur.toInt min.toInt (-step.toInt))) := by
  intro k
  induction k with
  | zero => intro cur s _ _ hl; simp [Spec.downFrom] at hl
  | succ k ih =>
    intro cur s hcur hle hl hq
    have hgt : ¬ (cur.toInt < min.toInt) := by omega
    have hsub : cur.toInt - -step.toInt = cur.toInt + step.toInt := by omega
    simp only [Spec.downFrom, hgt, if_false, hsub] at hl hq ⊢
    have hstep64 : (step < 0) := by
      rw [Int64.lt_iff_toInt_lt]; exact hstep
    have hstepneg : ¬ (step > 0) := by
      show ¬ (0 : Int64) < step
      rw [Int64.lt_iff_toInt_lt]; show ¬ 0 < step.toInt; omega
    cases hbs : body s with
    | mk r s1 =>
    have hs1 : bodySt body s = s1 := by simp [bodySt, hbs]
    by_cases hstop : cur.toInt + step.toInt < min.toInt
    · have hnil : Spec.downFrom k (cur.toInt + step.toInt) min.toInt (-step.toInt) = [] := by
        cases k <;> simp [Spec.downFrom, hstop]
      rw [hnil] at hq ⊢
      obtain ⟨hn, hkeep⟩ := hq
      rw [hbs] at hn hkeep
      simp only at hn hkeep
      have hr : ∃ fl, r = .ok fl ∧ (fl = .norm ∨ fl = .cont) := by
        rcases hn with h | h
        · exact ⟨_, h, Or.inl rfl⟩
        · exact ⟨_, h, Or.inr rfl⟩
      obtain ⟨fl, rfl, hfl⟩ := hr
      rw [forLoop_iteration body v min max step k s s1 fl cur hbs hfl (by rw [hkeep, hcur])]
      simp [hstep64, hstop, runOver, hs1]
    · have hnxt : (cur + step).toInt = cur.toInt + step.toInt := by
        apply toInt_add_small
        · have := Int64.le_toInt min; omega
        · have := Int64.toInt_lt cur; omega
      have e : Int64.ofInt (cur.toInt + step.toInt) = cur + step := by rw [← hnxt, Int64.ofInt_toInt]
      cases k with
      | zero => simp [Spec.downFrom] at hl
      | succ k' =>
        have hcons : Spec.downFrom (k' + 1) (cur.toInt + step.toInt) min.toInt (-step.toInt) =
            (cur.toInt + step.toInt) :: Spec.downFrom k' (cur.toInt + step.toInt - -step.toInt) min.toInt (-step.toInt) := by
          simp [Spec.downFrom, hstop]
        rw [hcons] at hq
        obtain ⟨⟨hn, hkeep⟩, hrest⟩ := hq
        rw [hbs] at hn hkeep
        simp only at hn hkeep
        have hr : ∃ fl, r = .ok fl ∧ (fl = .norm ∨ fl = .cont) := by
          rcases hn with h | h
          · exact ⟨_, h, Or.inl rfl⟩
          · exact ⟨_, h, Or.inr rfl⟩
        obtain ⟨fl, rfl, hfl⟩ := hr
        rw [forLoop_iteration body v min max step (k' + 1) s s1 fl cur hbs hfl (by rw [hkeep, hcur])]
        have hcond : ((decide (step > 0) && decide (cur.toInt + step.toInt > max.toInt)) ||
            (decide (step < 0) && decide (cur.toInt + step.toInt < min.toInt))) = false := by
          simp [hstop, hstepneg]
        rw [hcond]
        simp only [Bool.false_eq_true, if_false]
        have hlook : lookupVar ({ s1 with vars := setVar s1.vars v (.int (cur + step)) } : St).vars v = .int (cur + step) :=
          lookup_setVar _ _ _
        have hst : setK v (bodySt body s) (cur.toInt + step.toInt) = { s1 with vars := setVar s1.vars v (.int (cur + step)) } := by
          simp [setK, hs1, e]
        rw [hst, ← hcons, ← hnxt] at hrest
        have := ih (cur + step) _ hlook (by rw [hnxt]; omega) (by rw [hnxt, hcons]; simp only [List.length_cons] at hl ⊢; rw [hcons] at hl; simpa using hl) hrest
        rw [this, hnxt, hcons, runOver_cons_cons, hst]
/-- **Ascending loop.** For a quiet body, the loop entered with the control variable at `cur ≤ max`
and a positive step runs the body exactly for `cur, cur+step, … ≤ max` — computed on mathematical
integers, so it never wraps around, also at INT64_MAX — and ends normally, whenever the fuel covers
the number of values. (Corollary of `forLoop_visits_up_along`.) -/
theorem forLoop_visits_up (body : EvalM Flow) (v : String) (min max step : Int64)
    (hq : Quiet body v) (hstep : 0 < step.toInt) :
    ∀ (k : Nat) (cur : Int64) (s : St), lookupVar s.vars v = .int cur → cur.toInt ≤ max.toInt →
      (Spec.upFrom k cur.toInt max.toInt step.toInt).length < k →
      forLoop body v min max step k s =
        (.ok .norm, runOver body v s (Spec.upFrom k cur.toInt max.toInt step.toInt)) :=
  fun k cur s h1 h2 h3 => forLoop_visits_up_along body v min max step hstep k cur s h1 h2 h3 (quietAlong_of_quiet body v hq _ _)

example : Spec.upFrom 5 1 10 4 = [1, 5, 9] := by decide

/-- **Descending loop, globally quiet body** (`forLoop_visits_down`), incl. at INT64_MIN: no wrap-around. -/
theorem forLoop_visits_down (body : EvalM Flow) (v : String) (min max step : Int64)
    (hq : Quiet body v) (hstep : step.toInt < 0) :
    ∀ (k : Nat) (cur : Int64) (s : St), lookupVar s.vars v = .int cur → min.toInt ≤ cur.toInt →
      (Spec.downFrom k cur.toInt min.toInt (-step.toInt)).length < k →
      forLoop body v min max step k s =
        (.ok .norm, runOver body v s (Spec.downFrom k cur.toInt min.toInt (-step.toInt))) :=
  fun k cur s h1 h2 h3 => forLoop_visits_down_along body v min max step hstep k cur s h1 h2 h3 (quietAlong_of_quiet body v hq _ _)

example : Spec.downFrom 5 (-9223372036854775806) (-9223372036854775808) 2 = [-9223372036854775806, -9223372036854775808] := by decide
/-- at INT64_MIN the model stops instead of wrapping: two iterations, final value of the control variable INT64_MIN -/
example : (match forLoop (pure .norm) "i" (-9223372036854775808) 0 (-2) 5 { vars := [("i", .int (-9223372036854775806))] } with
    | (.ok .norm, s) => lookupVar s.vars "i" == .int (-9223372036854775808)
    | _ => false) = true := by decide +kernel


/-- **`Spec.forRange` in closed form**: for every `step ≥ 1` the recursive specification list is
`first ± i·step` for `i < forCount` — `|limit − first| / step + 1` values when the direction can be met, none otherwise. -/
theorem forRange_closed_form (first limit step : Int) (dir : Spec.Direction) (hs : 1 ≤ step) :
    Spec.forRange first limit step dir = Spec.forValues first limit step dir := by
  unfold Spec.forRange Spec.forValues Spec.forCount
  by_cases h : limit > first
  · simp only [h, if_true]
    by_cases hd : dir = .desc
    · simp [hd]
    · simp only [hd, if_false]
      rw [upFrom_eq_map limit step (by omega)]
      have hc : upCount first limit step = ((limit - first) / step).toNat + 1 := by
        unfold upCount; have : ¬ first > limit := by omega
        simp [this]
      have := upCount_le first limit step (by omega) (by omega)
      rw [Nat.min_eq_right this, hc]
  · simp only [h, if_false]
    by_cases hd : dir = .asc ∧ limit ≠ first
    · simp [hd]
    · simp only [hd, if_false]
      rw [downFrom_eq_map limit step (by omega)]
      have hc : downCount first limit step = ((first - limit) / step).toNat + 1 := by
        unfold downCount; have : ¬ first < limit := by omega
        simp [this]
      have := downCount_le first limit step (by omega) (by omega)
      rw [Nat.min_eq_right this, hc]

/-- The number of iterations is exactly `forCount`: `(|limit − first| / step) + 1`, or 0 when the requested direction cannot be met. -/
theorem forRange_length (first limit step : Int) (dir : Spec.Direction) (hs : 1 ≤ step) :
    (Spec.forRange first limit step dir).length = Spec.forCount first limit step dir := by
  rw [forRange_closed_form first limit step dir hs]; simp [Spec.forValues]

/-- For Int64 bounds and any step a `for` loop makes at most 2^64 iterations. -/
theorem forCount_le_int64 (bi ei st : Int64) (dir : Spec.Direction) :
    Spec.forCount bi.toInt ei.toInt st.toInt dir ≤ 2 ^ 64 := by
  have h1 := Int64.le_toInt bi; have h2 := Int64.toInt_lt bi
  have h3 := Int64.le_toInt ei; have h4 := Int64.toInt_lt ei
  unfold Spec.forCount
  have e1 := Int.ediv_le_self (b := st.toInt) (a := ei.toInt - bi.toInt)
  have e2 := Int.ediv_le_self (b := st.toInt) (a := bi.toInt - ei.toInt)
  split <;> split <;> omega

example : Spec.forRange (-9223372036854775808) 9223372036854775807 9223372036854775807 .auto = [-9223372036854775808, -1, 9223372036854775806] := by decide
example : Spec.forCount 9223372036854775806 9223372036854775807 1 .auto = 2 := by decide

/-- How the optional step expression of a `for` header evaluates: absent = 1. -/
def StepEval (funcs : List Func) (depth fuel : Nat) (step : Option Expr) (s2 : St) (st : Int64) (s3 : St) : Prop :=
  match step with
  | none => st = 1 ∧ s3 = s2
  | some se => eval funcs depth fuel se s2 = (.ok (.int st), s3)

/-- **FORStatement::doit, first entry**: with bounds evaluating to integers `bi`, `ei` and the step to `st ≥ 1` (absent = 1), each
expression evaluated exactly once, in the order first, limit, step, each from the state the previous one left, the statement is:
nothing when the requested direction cannot be met; else the control variable is set to `bi` and the re-entry loop runs ascending
in `[bi, ei]` with step `st`, or descending in `[ei, bi]` with step `0 − st`. -/
theorem exec_for_enter (funcs : List Func) (depth fuel : Nat) (v : String) (b e : Expr) (step : Option Expr) (dir : Dir)
    (body : List Stmt) (s s1 s2 s3 : St) (bi ei st : Int64) (hbud : s.budget ≠ 0)
    (hb : eval funcs depth fuel b (tick s) = (.ok (.int bi), s1))
    (he : eval funcs depth fuel e s1 = (.ok (.int ei), s2))
    (hs : StepEval funcs depth fuel step s2 st s3) (hst : ¬ st < 1) :
    exec funcs depth (fuel + 1) (.forS v b e step dir body) s =
      if ei > bi then
        if dir == .desc then (.ok .norm, s3)
        else forLoop (execList funcs depth fuel body) v bi ei st fuel { s3 with vars := setVar s3.vars v (.int bi) }
      else
        if dir == .asc && ei != bi then (.ok .norm, s3)
        else forLoop (execList funcs depth fuel body) v ei bi (0 - st) fuel { s3 with vars := setVar s3.vars v (.int bi) } := by
  have hbud' : (s.budget == 0) = false := by simpa using hbud
  have h1 : (Val.int bi).isNull = false := rfl
  have h2 : (Val.int ei).isNull = false := rfl
  have h3 : (Val.int bi).asInt = .ok bi := rfl
  have h4 : (Val.int ei).asInt = .ok ei := rfl
  have h5 : (Val.int st).isNull = false := rfl
  have h6 : (Val.int st).asInt = .ok st := rfl
  unfold tick at hb
  cases step with
  | none =>
    obtain ⟨rfl, rfl⟩ := hs
    simp only [exec, hbud', Bool.false_eq_true, if_false, bind_app, pure_app, modifySt_app, liftM_app, evalM_ite_app, hb, he, h1, h2, h3, h4]
  | some se =>
    have hs' : eval funcs depth fuel se s2 = (.ok (.int st), s3) := hs
    simp only [exec, hbud', Bool.false_eq_true, if_false, bind_app, pure_app, modifySt_app, liftM_app, evalM_ite_app, hb, he, hs', h1, h2, h3, h4, h5, h6, hst]

def specDir : Dir → Spec.Direction
  | .auto => .auto
  | .asc => .asc
  | .desc => .desc

/-- The state after the iterations of a `for` over the values `l`: nothing for the empty list (the
control variable is not even assigned), else the variable is set to the first value and the body runs
once per value. -/
def runFor (body : EvalM Flow) (v : String) (s : St) : List Int → St
  | [] => s
  | x :: rest => runOver body v (setK v s x) (x :: rest)

def QuietFor (body : EvalM Flow) (v : String) (s : St) : List Int → Prop
  | [] => True
  | x :: rest => QuietAlong body v (setK v s x) (x :: rest)

/-- **The `for` statement visits exactly `Spec.forRange`** (statement level, all Int64 bounds and steps ≥ 1, all three directions): when the
header expressions evaluate to `bi`, `ei`, `st` and the body (the statement list, run by `execList`) is quiet along the prescribed run,
`exec … (.forS v b e step dir body)` ends normally in the state obtained by running the body once for each value of
`Spec.forRange bi ei st dir`, in order, the control variable set to that value — zero iterations (and the variable untouched) when the
direction cannot be met. The fuel needed is one more than the closed-form iteration count `Spec.forCount` (≤ |ei−bi|/st + 1):
the loop terminates, without the control variable ever wrapping around, for every header. (statement_for.cpp) -/
theorem exec_for_visits (funcs : List Func) (depth fuel : Nat) (v : String) (b e : Expr) (step : Option Expr) (dir : Dir)
    (body : List Stmt) (s s1 s2 s3 : St) (bi ei st : Int64) (hbud : s.budget ≠ 0)
    (hb : eval funcs depth fuel b (tick s) = (.ok (.int bi), s1))
    (he : eval funcs depth fuel e s1 = (.ok (.int ei), s2))
    (hs : StepEval funcs depth fuel step s2 st s3) (hst : 1 ≤ st.toInt)
    (hq : QuietFor (execList funcs depth fuel body) v s3 (Spec.forRange bi.toInt ei.toInt st.toInt (specDir dir)))
    (hfuel : Spec.forCount bi.toInt ei.toInt st.toInt (specDir dir) < fuel) :
    exec funcs depth (fuel + 1) (.forS v b e step dir body) s =
      (.ok .norm, runFor (execList funcs depth fuel body) v s3 (Spec.forRange bi.toInt ei.toInt st.toInt (specDir dir))) := by
  have hst' : ¬ st < 1 := by rw [Int64.lt_iff_toInt_lt]; show ¬ st.toInt < 1; omega
  rw [exec_for_enter funcs depth fuel v b e step dir body s s1 s2 s3 bi ei st hbud hb he hs hst']
  have hgt : (ei > bi) ↔ ei.toInt > bi.toInt := by show bi < ei ↔ _; rw [Int64.lt_iff_toInt_lt]
  have hsetK : setK v s3 bi.toInt = { s3 with vars := setVar s3.vars v (.int bi) } := by simp [setK, Int64.ofInt_toInt]
  have hlook : lookupVar ({ s3 with vars := setVar s3.vars v (.int bi) } : St).vars v = .int bi := lookup_setVar _ _ _
  cases fuel with
  | zero => omega
  | succ k =>
  by_cases h : ei > bi
  · have h' := hgt.mp h
    simp only [h, if_true]
    cases hd : dir with
    | desc => simp [Spec.forRange, h', specDir, runFor]
    | auto | asc =>
      all_goals
        subst hd
        simp only [Spec.forRange, Spec.forCount, h', if_true, specDir, reduceCtorEq, if_false] at hq hfuel ⊢
        have hcnt : upCount bi.toInt ei.toInt st.toInt = ((ei.toInt - bi.toInt) / st.toInt).toNat + 1 := by
          simp [upCount]; omega
        have hfe : Spec.upFrom ((ei.toInt - bi.toInt).toNat + 1) bi.toInt ei.toInt st.toInt = Spec.upFrom (k + 1) bi.toInt ei.toInt st.toInt :=
          upFrom_fuel _ _ (by omega) _ _ _ (upCount_le _ _ _ (by omega) (by omega)) (by omega)
        rw [hfe] at hq ⊢
        have hcons : Spec.upFrom (k + 1) bi.toInt ei.toInt st.toInt = bi.toInt :: Spec.upFrom k (bi.toInt + st.toInt) ei.toInt st.toInt := by
          simp [Spec.upFrom]; omega
        have hlen : (Spec.upFrom (k + 1) bi.toInt ei.toInt st.toInt).length < k + 1 := by
          rw [upFrom_length _ _ (by omega)]; omega
        have hq' : QuietAlong (execList funcs depth (k + 1) body) v { s3 with vars := setVar s3.vars v (.int bi) }
            (Spec.upFrom (k + 1) bi.toInt ei.toInt st.toInt) := by
          rw [hcons] at hq; rw [hcons, ← hsetK]; exact hq
        have := forLoop_visits_up_along (execList funcs depth (k + 1) body) v bi ei st (by omega) (k + 1) bi _ hlook (by omega) hlen hq'
        simp only [if_false, beq_iff_eq, reduceCtorEq]
        rw [this, hcons, runFor, hsetK]
  · have h' : ¬ ei.toInt > bi.toInt := fun hh => h (hgt.mpr hh)
    have hneq : (ei != bi) = true ↔ ei.toInt ≠ bi.toInt := by
      rw [bne_iff_ne, ne_eq, ne_eq, ← Int64.toInt_inj]
    simp only [h, if_false]
    by_cases hd : dir = .asc ∧ ei.toInt ≠ bi.toInt
    · obtain ⟨rfl, hd2⟩ := hd
      have : (ei != bi) = true := hneq.mpr hd2
      simp [Spec.forRange, h', specDir, runFor, this, hd2]
    · have hcond : (dir == Dir.asc && ei != bi) = false := by
        cases hb2 : (dir == Dir.asc && ei != bi)
        · rfl
        · exfalso; apply hd
          simp only [Bool.and_eq_true, beq_iff_eq] at hb2
          exact ⟨hb2.1, hneq.mp hb2.2⟩
      have hsd : ¬ (specDir dir = Spec.Direction.asc ∧ ei.toInt ≠ bi.toInt) := by
        intro ⟨h1, h2⟩; apply hd; refine ⟨?_, h2⟩; cases dir <;> simp_all [specDir]
      simp only [Spec.forRange, Spec.forCount, h', if_false, hsd] at hq hfuel ⊢
      have hcnt : downCount bi.toInt ei.toInt st.toInt = ((bi.toInt - ei.toInt) / st.toInt).toNat + 1 := by
        simp [downCount]; omega
      have hfe : Spec.downFrom ((bi.toInt - ei.toInt).toNat + 1) bi.toInt ei.toInt st.toInt = Spec.downFrom (k + 1) bi.toInt ei.toInt st.toInt :=
        downFrom_fuel _ _ (by omega) _ _ _ (downCount_le _ _ _ (by omega) (by omega)) (by omega)
      rw [hfe] at hq ⊢
      have hcons : Spec.downFrom (k + 1) bi.toInt ei.toInt st.toInt = bi.toInt :: Spec.downFrom k (bi.toInt - st.toInt) ei.toInt st.toInt := by
        simp [Spec.downFrom]; omega
      have hlen : (Spec.downFrom (k + 1) bi.toInt ei.toInt st.toInt).length < k + 1 := by
        rw [downFrom_length _ _ (by omega)]; omega
      have hneg : (0 - st).toInt = -st.toInt := toInt_zero_sub st (by omega)
      have hq' : QuietAlong (execList funcs depth (k + 1) body) v { s3 with vars := setVar s3.vars v (.int bi) }
          (Spec.downFrom (k + 1) bi.toInt ei.toInt (-(0 - st).toInt)) := by
        rw [hneg, Int.neg_neg]; rw [hcons] at hq; rw [hcons, ← hsetK]; exact hq
      have := forLoop_visits_down_along (execList funcs depth (k + 1) body) v ei bi (0 - st) (by omega) (k + 1) bi _ hlook (by omega)
        (by rw [hneg, Int.neg_neg]; exact hlen) hq'
      rw [hcond]
      simp only [Bool.false_eq_true, if_false]
      rw [this, hneg, Int.neg_neg, hcons, runFor, hsetK]

/-- **Termination** (corollary of `exec_for_visits`): with fuel above `Spec.forCount` — at most `|limit − first| / step + 1 ≤ 2^64`
(`forCount_le_int64`) — the `for` statement over a quiet body ends normally; in particular it is not cut off as out-of-fuel and the
control variable never wraps around (also for `for i in 9223372036854775806 to 9223372036854775807`, the pinned build's endless loop). -/
theorem exec_for_terminates (funcs : List Func) (depth fuel : Nat) (v : String) (b e : Expr) (step : Option Expr) (dir : Dir)
    (body : List Stmt) (s s1 s2 s3 : St) (bi ei st : Int64) (hbud : s.budget ≠ 0)
    (hb : eval funcs depth fuel b (tick s) = (.ok (.int bi), s1))
    (he : eval funcs depth fuel e s1 = (.ok (.int ei), s2))
    (hs : StepEval funcs depth fuel step s2 st s3) (hst : 1 ≤ st.toInt)
    (hq : QuietFor (execList funcs depth fuel body) v s3 (Spec.forRange bi.toInt ei.toInt st.toInt (specDir dir)))
    (hfuel : Spec.forCount bi.toInt ei.toInt st.toInt (specDir dir) < fuel) :
    (exec funcs depth (fuel + 1) (.forS v b e step dir body) s).1 = .ok .norm := by
  rw [exec_for_visits funcs depth fuel v b e step dir body s s1 s2 s3 bi ei st hbud hb he hs hst hq hfuel]

/-- the former endless loop: two iterations, ends normally, the control variable ends at INT64_MAX -/
example : (let r := exec [] 0 10 (.forS "i" (.lit (.int 9223372036854775806)) (.lit (.int 9223372036854775807)) none .auto [.printS [.lit (.str [120])]]) {}
    (r.1, r.2.out.length, lookupVar r.2.vars "i" == .int 9223372036854775807)) = (.ok .norm, 4, true) := by decide +kernel

/-- The requested direction can be met: the `for` header prescribes at least one iteration. -/
def forEntered (bi ei : Int64) (dir : Dir) : Bool :=
  if ei > bi then dir != .desc else !(dir == .asc && ei != bi)

/-- **Statement level: a `for` whose body sets the control variable to null raises NOT_INTEGER** (`for k in 1 to 3 loop k = int(); end loop;`):
with the header evaluating to integers `bi`, `ei`, step `st ≥ 1` and the direction met, if the first run of the body (from the state with
the control variable set to `bi`) ends normally or with `continue` and leaves a null in the control variable, the statement fails with
the BLOC error NOT_INTEGER from the state that body run left — an ordinary, catchable-by-nobody runtime error reported to the host, not a
crash (statement_for.cpp after the repair). Later iterations behave the same by `forLoop_null_iterator`. -/
theorem exec_for_null_iterator (funcs : List Func) (depth fuel : Nat) (v : String) (b e : Expr) (step : Option Expr) (dir : Dir)
    (body : List Stmt) (s s1 s2 s3 s4 : St) (bi ei st : Int64) (r : Flow) (hbud : s.budget ≠ 0)
    (hb : eval funcs depth (fuel + 1) b (tick s) = (.ok (.int bi), s1))
    (he : eval funcs depth (fuel + 1) e s1 = (.ok (.int ei), s2))
    (hs : StepEval funcs depth (fuel + 1) step s2 st s3) (hst : ¬ st < 1)
    (hdir : forEntered bi ei dir = true)
    (hbody : execList funcs depth (fuel + 1) body { s3 with vars := setVar s3.vars v (.int bi) } = (.ok r, s4))
    (hr : r = .norm ∨ r = .cont) (hn : (lookupVar s4.vars v).isNull = true) :
    exec funcs depth (fuel + 2) (.forS v b e step dir body) s = (.err Gen.EXC_RT_NOT_INTEGER [], s4) := by
  rw [exec_for_enter funcs depth (fuel + 1) v b e step dir body s s1 s2 s3 bi ei st hbud hb he hs hst]
  unfold forEntered at hdir
  by_cases h : ei > bi
  · simp only [h, if_true, bne_iff_ne, ne_eq] at hdir
    have hd : (dir == Dir.desc) = false := by simpa using hdir
    simp only [h, if_true, hd, Bool.false_eq_true, if_false]
    exact forLoop_null_iterator _ v bi ei st fuel _ s4 r hbody hr hn
  · simp only [h, if_false, Bool.not_eq_true'] at hdir
    simp only [h, if_false, hdir, Bool.false_eq_true]
    exact forLoop_null_iterator _ v ei bi (0 - st) fuel _ s4 r hbody hr hn

/-- `for k in 1 to 3 loop k = int(); end loop; print "after";`: NOT_INTEGER, nothing printed, `k` is the null the body stored -/
example : (let r := execList [] 0 10 [.forS "k" (.lit (.int 1)) (.lit (.int 3)) none .auto [.letS "k" (.null Ty.int |> Expr.lit)], .printS [.lit (.str [97])]] {}
    (r.1, r.2.out, lookupVar r.2.vars "k" == .null Ty.int)) = (.err Gen.EXC_RT_NOT_INTEGER [], [], true) := by decide +kernel

/-- A null first bound (typed or untyped): zero iterations; the limit, the step and the body are not even evaluated; the state is the one
the evaluation of the bound left (for a literal or a variable: unchanged apart from the work budget). -/
theorem exec_for_null_first (funcs : List Func) (depth fuel : Nat) (v : String) (b e : Expr) (step : Option Expr) (dir : Dir)
    (body : List Stmt) (s s1 : St) (vb : Val) (hbud : s.budget ≠ 0)
    (hb : eval funcs depth fuel b (tick s) = (.ok vb, s1)) (hn : vb.isNull = true) :
    exec funcs depth (fuel + 1) (.forS v b e step dir body) s = (.ok .norm, s1) := by
  have hbud' : (s.budget == 0) = false := by simpa using hbud
  unfold tick at hb
  simp only [exec, hbud', Bool.false_eq_true, if_false, bind_app, pure_app, evalM_ite_app, hb, hn, if_true]

/-- A null limit: zero iterations, step and body not evaluated. -/
theorem exec_for_null_limit (funcs : List Func) (depth fuel : Nat) (v : String) (b e : Expr) (step : Option Expr) (dir : Dir)
    (body : List Stmt) (s s1 s2 : St) (vb ve : Val) (hbud : s.budget ≠ 0)
    (hb : eval funcs depth fuel b (tick s) = (.ok vb, s1)) (hnb : vb.isNull = false)
    (he : eval funcs depth fuel e s1 = (.ok ve, s2)) (hn : ve.isNull = true) :
    exec funcs depth (fuel + 1) (.forS v b e step dir body) s = (.ok .norm, s2) := by
  have hbud' : (s.budget == 0) = false := by simpa using hbud
  unfold tick at hb
  simp only [exec, hbud', Bool.false_eq_true, if_false, bind_app, pure_app, evalM_ite_app, hb, he, hnb, hn, if_true]

/-- A null step: zero iterations, the body does not run, the control variable is not assigned. -/
theorem exec_for_null_step (funcs : List Func) (depth fuel : Nat) (v : String) (b e se : Expr) (dir : Dir)
    (body : List Stmt) (s s1 s2 s3 : St) (vb ve vs : Val) (hbud : s.budget ≠ 0)
    (hb : eval funcs depth fuel b (tick s) = (.ok vb, s1)) (hnb : vb.isNull = false)
    (he : eval funcs depth fuel e s1 = (.ok ve, s2)) (hne : ve.isNull = false)
    (hs : eval funcs depth fuel se s2 = (.ok vs, s3)) (hn : vs.isNull = true) :
    exec funcs depth (fuel + 1) (.forS v b e (some se) dir body) s = (.ok .norm, s3) := by
  have hbud' : (s.budget == 0) = false := by simpa using hbud
  unfold tick at hb
  simp only [exec, hbud', Bool.false_eq_true, if_false, bind_app, pure_app, evalM_ite_app, hb, he, hs, hnb, hne, hn, if_true]

/-- A step below 1 (zero, negative — any Int64 `< 1`) raises OUT_OF_RANGE before the control variable is assigned and before anything of the
body runs: the state is the one left by evaluating the three header expressions. -/
theorem exec_for_step_below_one (funcs : List Func) (depth fuel : Nat) (v : String) (b e se : Expr) (dir : Dir)
    (body : List Stmt) (s s1 s2 s3 : St) (vb ve : Val) (st : Int64) (hbud : s.budget ≠ 0)
    (hb : eval funcs depth fuel b (tick s) = (.ok vb, s1)) (hnb : vb.isNull = false)
    (he : eval funcs depth fuel e s1 = (.ok ve, s2)) (hne : ve.isNull = false)
    (hs : eval funcs depth fuel se s2 = (.ok (.int st), s3)) (hlt : st < 1) :
    exec funcs depth (fuel + 1) (.forS v b e (some se) dir body) s = (.err Gen.EXC_RT_OUT_OF_RANGE [], s3) := by
  have hbud' : (s.budget == 0) = false := by simpa using hbud
  have h5 : (Val.int st).isNull = false := rfl
  have h6 : (Val.int st).asInt = .ok st := rfl
  unfold tick at hb
  simp only [exec, hbud', Bool.false_eq_true, if_false, bind_app, pure_app, liftM_app, failE_app, evalM_ite_app, hb, he, hs, hnb, hne, h5, h6, hlt, if_true]

example : (exec [] 0 10 (.forS "i" (.lit (.int 1)) (.lit (.int 9)) (some (.lit (.int 4))) .auto [.printS [.var "i"]]) {}).2.out
    = [[10], [57], [10], [53], [10], [49]] := by decide +kernel


/-- the hypotheses of `exec_for_visits` are satisfiable: `for i in 1 to 10 step 4 loop x = i; end loop` -/
example : exec [] 0 10 (.forS "i" (.lit (.int 1)) (.lit (.int 10)) (some (.lit (.int 4))) .auto [.letS "x" (.var "i")]) {} =
    (.ok .norm, runFor (execList [] 0 9 [.letS "x" (.var "i")]) "i" (tick {}) [1, 5, 9]) := by
  have h := exec_for_visits [] 0 9 "i" (.lit (.int 1)) (.lit (.int 10)) (some (.lit (.int 4))) .auto [.letS "x" (.var "i")]
    {} (tick {}) (tick {}) (tick {}) 1 10 4 (by decide) (eval_lit ..) (eval_lit ..) (eval_lit ..) (by decide)
  have hr : Spec.forRange (1 : Int64).toInt (10 : Int64).toInt (4 : Int64).toInt (specDir .auto) = [1, 5, 9] := by decide
  rw [hr] at h
  exact h ⟨⟨Or.inl (by decide +kernel), by with_unfolding_all rfl⟩, ⟨Or.inl (by decide +kernel), by with_unfolding_all rfl⟩, ⟨Or.inl (by decide +kernel), by with_unfolding_all rfl⟩⟩ (by decide)

/-- `index += step` on the loop's own (top) control entry -/
def stepTo (s : St) (j : Nat) : St :=
  { s with iters := match s.iters with
      | b :: rest => { b with idx := j } :: rest
      | [] => [] }

/-- The state after running the body once for every index of the list (the first index is already in place). -/
def runOverF (body : EvalM Flow) : St → List Nat → St
  | s, [] => s
  | s, [_] => bodySt body s
  | s, _ :: j :: rest => runOverF body (stepTo (bodySt body s) j) (j :: rest)

/-- One body run of a `forall` over a table of `n` elements, at index `i`, is quiet: it ends normally
(or with `continue`), the loop's control entry is still on top with its index, and the traversed
table still has `n` elements. -/
def QuietAtF (body : EvalM Flow) (it : String) (n : Nat) (s : St) (i : Nat) : Prop :=
  ((body s).1 = .ok .norm ∨ (body s).1 = .ok .cont) ∧
  ∃ b rest, (body s).2.iters = b :: rest ∧ b.it = it ∧ b.idx = i ∧ tableSize ((body s).2.iterTable b) = n

def QuietAlongF (body : EvalM Flow) (it : String) (n : Nat) : St → List Nat → Prop
  | _, [] => True
  | s, [i] => QuietAtF body it n s i
  | s, i :: j :: rest => QuietAtF body it n s i ∧ QuietAlongF body it n (stepTo (bodySt body s) j) (j :: rest)

/-- **One re-entry of FORALLStatement::doit, for any body**: after a body run that ends normally or with `continue`, the index moves by one
in the traversal direction and the loop goes on while it stays inside the table *as it is then*. -/
theorem forallLoop_iteration (body : EvalM Flow) (it : String) (desc : Bool) (k : Nat) (s s1 : St) (r : Flow)
    (b : Iter) (rest : List Iter) (hb : body s = (.ok r, s1)) (hr : r = .norm ∨ r = .cont)
    (hi : s1.iters = b :: rest) (hit : b.it = it) :
    forallLoop body it desc (k + 1) s =
      match forallNext desc b.idx (tableSize (s1.iterTable b)) with
      | none => (.ok .norm, s1)
      | some j => forallLoop body it desc k (stepTo s1 j) := by
  have hne : (b.it != it) = false := by simp [hit]
  rcases hr with rfl | rfl
  all_goals
    conv => lhs; unfold forallLoop
    simp only [bind_app, hb, getSt_app, hi, hne, Bool.false_eq_true, if_false]
    cases hn : forallNext desc b.idx (tableSize (s1.iterTable b)) with
    | none => rfl
    | some j => simp only [bind_app, modifySt_app, stepTo, hi]

/-- **forall visits the index trace of the loop header**, each index once, in order: for a body that is quiet along the run (keeps the
loop's control entry on top and the table length `n`), `forallLoop` started at index `i` ends normally after running the body exactly
for the indices `forallTrace desc n k (some i)` (C09's header trace), with the iterator at that index. -/
theorem forallLoop_visits_along (body : EvalM Flow) (it : String) (desc : Bool) (n : Nat) :
    ∀ (k : Nat) (i : Nat) (s : St),
      (forallTrace desc n k (some i)).length < k →
      QuietAlongF body it n s (forallTrace desc n k (some i)) →
      forallLoop body it desc k s = (.ok .norm, runOverF body s (forallTrace desc n k (some i))) := by
  intro k
  induction k with
  | zero => intro i s hl; simp [forallTrace] at hl
  | succ k ih =>
    intro i s hl hq
    simp only [forallTrace] at hl hq ⊢
    cases hbs : body s with
    | mk r s1 =>
    have hs1 : bodySt body s = s1 := by simp [bodySt, hbs]
    cases hnx : forallNext desc i n with
    | none =>
      have hnil : forallTrace desc n k none = [] := by cases k <;> rfl
      rw [hnx] at hq
      rw [hnil] at hq ⊢
      obtain ⟨hn, b, rest, hi, hit, hidx, hsz⟩ := hq
      rw [hbs] at hn hi hsz
      simp only at hn hi hsz
      have hr : ∃ fl, r = .ok fl ∧ (fl = .norm ∨ fl = .cont) := by
        rcases hn with h | h
        · exact ⟨_, h, Or.inl rfl⟩
        · exact ⟨_, h, Or.inr rfl⟩
      obtain ⟨fl, rfl, hfl⟩ := hr
      rw [forallLoop_iteration body it desc k s s1 fl b rest hbs hfl hi hit, hidx, hsz, hnx]
      simp [runOverF, hs1]
    | some j =>
      rw [hnx] at hl hq
      cases k with
      | zero => simp [forallTrace] at hl
      | succ k' =>
        have hcons : forallTrace desc n (k' + 1) (some j) = j :: forallTrace desc n k' (forallNext desc j n) := rfl
        rw [hcons] at hq
        obtain ⟨⟨hn, b, rest, hi, hit, hidx, hsz⟩, hrest⟩ := hq
        rw [hbs] at hn hi hsz
        simp only at hn hi hsz
        have hr : ∃ fl, r = .ok fl ∧ (fl = .norm ∨ fl = .cont) := by
          rcases hn with h | h
          · exact ⟨_, h, Or.inl rfl⟩
          · exact ⟨_, h, Or.inr rfl⟩
        obtain ⟨fl, rfl, hfl⟩ := hr
        rw [forallLoop_iteration body it desc (k' + 1) s s1 fl b rest hbs hfl hi hit, hidx, hsz, hnx]
        simp only []
        rw [hs1, ← hcons] at hrest
        have := ih j (stepTo s1 j) (by simp only [List.length_cons] at hl; omega) hrest
        rw [this, hcons, runOverF, hs1]

/-- **forall visits every element exactly once in the requested order**: started at the first index (`0`, or `n−1` for `desc`) on a table
of `n > 0` elements, with fuel above `n`, the loop runs the body exactly for `forallOrder desc n` = `0,…,n−1` resp. `n−1,…,0`
(C09.forall_visits_once_in_order: no duplicates, every index `< n`). (statement_forall.cpp) -/
theorem forallLoop_visits_order (body : EvalM Flow) (it : String) (desc : Bool) (n k : Nat) (s : St)
    (hn : 0 < n) (hk : n < k)
    (hq : QuietAlongF body it n s (forallOrder desc n)) :
    forallLoop body it desc k s = (.ok .norm, runOverF body s (forallOrder desc n)) := by
  have h9 := (C09.forall_visits_once_in_order desc n).1
  have hfirst : forallFirst desc n = some (if desc then n - 1 else 0) := by
    unfold forallFirst; simp; omega
  rw [hfirst] at h9
  have hlen : (forallTrace desc n (n + 1) (some (if desc then n - 1 else 0))).length < n + 1 := by
    rw [h9]; cases desc <;> simp [forallOrder]
  have hk' : k = (n + 1) + (k - (n + 1)) := by omega
  have htr : forallTrace desc n k (some (if desc then n - 1 else 0)) = forallOrder desc n := by
    rw [hk', forallTrace_fuel desc n (n + 1) _ hlen, h9]
  have := forallLoop_visits_along body it desc n k (if desc then n - 1 else 0) s (by rw [htr]; rw [h9] at hlen; omega) (by rw [htr]; exact hq)
  rw [this, htr]

/-- The control entry a `forall it in t` pushes. -/
def forallEntry (s : St) (it t : String) (desc : Bool) (n : Nat) : Iter :=
  { it := it, src := some t, priv := .null Ty.none, idx := if desc then n - 1 else 0,
    bak := (lookupVar s.vars it).type, locked := s.iters.any (·.src == some t) }

/-- **FORALLStatement::doit, first entry, over a table variable**: the table is read once; a control entry (iterator name, traversed
variable, first index, the iterator variable's former type, the inherited lock) is pushed; the loop runs; `forallExit` pops it. -/
theorem exec_forall_var_enter (funcs : List Func) (depth fuel : Nat) (it t : String) (dir : Dir) (body : List Stmt)
    (s : St) (ty : Ty) (d : List Ty) (es : List Val) (hbud : s.budget ≠ 0)
    (ht : lookupVar s.vars t = .tab ty d es) (hl : (ty.level == 0) = false) (hne : es ≠ [])
    (hit : s.iters.any (·.it == it) = false) (htt : s.iters.any (·.it == t) = false) :
    exec funcs depth (fuel + 2) (.forallS it (.var t) dir body) s =
      forallExit it (forallLoop (execList funcs depth (fuel + 1) body) it (dir == .desc) (fuel + 1)
        { tick s with iters := forallEntry s it t (dir == .desc) es.length :: s.iters }) := by
  have hbud' : (s.budget == 0) = false := by simpa using hbud
  have hrd : readVar (tick s) t = .ok (.tab ty d es) := by
    unfold readVar tick
    simp only [find_none_of_any_false _ _ htt, ht]
  have hnull : (Val.tab ty d es).isNull = false := rfl
  have hlev : ((Val.tab ty d es).type.level == 0) = false := hl
  have hsz : (tableSize (.tab ty d es) == 0) = false := by
    cases es with
    | nil => exact absurd rfl hne
    | cons x xs => simp [tableSize]
  simp only [exec, eval, hbud', Bool.false_eq_true, if_false, bind_app, pure_app, getSt_app, liftM_app, evalM_ite_app]
  unfold tick at hrd
  simp only [hrd, hnull, hlev, hsz, hit, Bool.false_eq_true, if_false]
  generalize (s.iters.any fun x => x.it == t) = c at htt ⊢
  subst htt
  rfl

/-- **The `forall` statement over a table variable** visits `forallOrder` (every element once, in the requested order) and is then left
through `forallExit` (iterator constraint and table lock released: `forallExit_pops`). -/
theorem exec_forall_var_visits (funcs : List Func) (depth fuel : Nat) (it t : String) (dir : Dir) (body : List Stmt)
    (s : St) (ty : Ty) (d : List Ty) (es : List Val) (hbud : s.budget ≠ 0)
    (ht : lookupVar s.vars t = .tab ty d es) (hl : (ty.level == 0) = false) (hne : es ≠ [])
    (hit : s.iters.any (·.it == it) = false) (htt : s.iters.any (·.it == t) = false)
    (hfuel : es.length < fuel + 1)
    (hq : QuietAlongF (execList funcs depth (fuel + 1) body) it es.length
      { tick s with iters := forallEntry s it t (dir == .desc) es.length :: s.iters } (forallOrder (dir == .desc) es.length)) :
    exec funcs depth (fuel + 2) (.forallS it (.var t) dir body) s =
      forallExit it (.ok .norm, runOverF (execList funcs depth (fuel + 1) body)
        { tick s with iters := forallEntry s it t (dir == .desc) es.length :: s.iters } (forallOrder (dir == .desc) es.length)) := by
  rw [exec_forall_var_enter funcs depth fuel it t dir body s ty d es hbud ht hl hne hit htt]
  have hpos : 0 < es.length := by cases es with | nil => exact absurd rfl hne | cons _ _ => simp
  rw [forallLoop_visits_order _ it (dir == .desc) es.length (fuel + 1) _ hpos hfuel hq]

/-- **A write through the iterator lands in the table**: `it = e` while `it` is the iterator of a running forall over table variable `t`
(not read-only) replaces exactly element `idx` of `t` by the value of `e` (same type required) — `getElem?_listPut`: position `idx`
becomes `v`, every other position is unchanged, the length is unchanged (C09.forall_length_fixed) — and assigns no other variable. (statement_let.cpp) -/
theorem exec_let_through_iterator (funcs : List Func) (depth fuel : Nat) (n t : String) (e : Expr) (s s1 : St)
    (b0 b : Iter) (v old : Val) (ty : Ty) (d : List Ty) (es : List Val) (hbud : s.budget ≠ 0)
    (h0 : s.iters.find? (·.it == n) = some b0) (hlock : b0.locked = false)
    (he : eval funcs depth fuel e (tick s) = (.ok v, s1))
    (h1 : s1.iters.find? (·.it == n) = some b) (hsrc : b.src = some t)
    (ht : lookupVar s1.vars t = .tab ty d es) (hold : es[b.idx]? = some old) (hty : v.type = old.type) :
    exec funcs depth (fuel + 1) (.letS n e) s =
      (.ok .norm, { s1 with vars := setVar s1.vars t (.tab ty d (listPut es b.idx v)) }) := by
  have hbud' : (s.budget == 0) = false := by simpa using hbud
  have hit : s1.iterTable b = .tab ty d es := by unfold St.iterTable; rw [hsrc]; exact ht
  have hstep : forallStep (.tab ty d es) b.idx v = .ok (.tab ty d (listPut es b.idx v)) := by
    unfold forallStep; simp [hold, hty]
  unfold tick at he
  simp only [exec, hbud', Bool.false_eq_true, if_false, bind_app, pure_app, getSt_app, modifySt_app, liftM_app, evalM_ite_app,
    h0, hlock, he, h1, hit, hstep, hsrc]

def tI3 : Val := .tab { major := .int, level := 1 } [] [.int 1, .int 2, .int 3]

/-- `forall e in t desc loop print e; end loop` prints 3, 2, 1 and leaves no control entry behind -/
example : (let r := exec [] 0 10 (.forallS "e" (.var "t") .desc [.printS [.var "e"]]) { vars := [("t", tI3)] }
    (r.2.out, r.2.iters.length)) = ([[10], [49], [10], [50], [10], [51]], 0) := by decide +kernel

/-- `forall e in t loop e = e + 10; end loop`: the writes land in the table, element by element -/
example : (let r := exec [] 0 10 (.forallS "e" (.var "t") .auto [.letS "e" (.bin .add (.var "e") (.lit (.int 10)))]) { vars := [("t", tI3)] }
    lookupVar r.2.vars "t" == .tab { major := .int, level := 1 } [] [.int 11, .int 12, .int 13]) = true := by decide +kernel

/-- the hypotheses of `exec_forall_var_visits` are satisfiable (one-element table, empty body) -/
example : exec [] 0 3 (.forallS "e" (.var "t") .auto []) { vars := [("t", .tab { major := .int, level := 1 } [] [.int 7])] } =
    forallExit "e" (.ok .norm, runOverF (execList [] 0 2 [])
      { tick { vars := [("t", .tab { major := .int, level := 1 } [] [.int 7])] } with
        iters := [forallEntry { vars := [("t", .tab { major := .int, level := 1 } [] [.int 7])] } "e" "t" false 1] } [0]) :=
  exec_forall_var_visits [] 0 1 "e" "t" .auto [] _ { major := .int, level := 1 } [] [.int 7] (by decide) (by with_unfolding_all rfl) (by decide) (by simp)
    (by decide) (by decide) (by decide) ⟨Or.inl (by decide +kernel), _, _, by with_unfolding_all rfl, rfl, rfl, by with_unfolding_all rfl⟩

/-- **Leaving a forall by any route** (`FORALLStatement::finalizeControl`, also run by `Context::onRuntimeError`): whatever the outcome `r` of
the loop (normal, return, BLOC error, hazard, out of fuel), exactly the loop's own control entry is popped, the iterator variable becomes
a null of the type it had before the loop, and output, saved return value and budget are untouched. -/
theorem forallExit_pops (it : String) (r : Res Flow) (s : St) (b : Iter) (rest : List Iter) (h : s.iters = b :: rest) :
    forallExit it (r, s) = (r, { s with iters := rest, vars := setVar s.vars it (.null b.bak) }) ∧
    (forallExit it (r, s)).2.iters = rest ∧
    lookupVar (forallExit it (r, s)).2.vars it = .null b.bak ∧
    (forallExit it (r, s)).2.out = s.out ∧ (forallExit it (r, s)).2.returned = s.returned ∧
    (forallExit it (r, s)).2.budget = s.budget := by
  have e : forallExit it (r, s) = (r, { s with iters := rest, vars := setVar s.vars it (.null b.bak) }) := by
    unfold forallExit; simp only [h]
  rw [e]
  exact ⟨rfl, rfl, lookup_setVar _ _ _, rfl, rfl, rfl⟩

/-- **No iterator constraint or table lock survives** (the model's control-stack discipline): for every expression, call, argument list,
block, statement list, statement, print list and if-chain, at every fuel and depth, from every state and WHATEVER THE OUTCOME (value, any
Flow, BLOC error, hazard, unmodelled, out of fuel), the names of the running `forall` loops after are exactly those before. Proved by
mutual induction on the fuel over all eight functions of the interpreter (Lemmas/Interp.lean `sameIters_all`), built-ins included. -/
theorem iters_balanced (funcs : List Func) (fuel depth : Nat) :
    (∀ e s, ((eval funcs depth fuel e s).2.iters.map (·.it)) = s.iters.map (·.it)) ∧
    (∀ name args s, ((callFunc funcs depth fuel name args s).2.iters.map (·.it)) = s.iters.map (·.it)) ∧
    (∀ args s, ((evalArgs funcs depth fuel args s).2.iters.map (·.it)) = s.iters.map (·.it)) ∧
    (∀ body catches s, ((execBlock funcs depth fuel body catches s).2.iters.map (·.it)) = s.iters.map (·.it)) ∧
    (∀ l s, ((execList funcs depth fuel l s).2.iters.map (·.it)) = s.iters.map (·.it)) ∧
    (∀ st s, ((exec funcs depth fuel st s).2.iters.map (·.it)) = s.iters.map (·.it)) ∧
    (∀ es s, ((evalPrint funcs depth fuel es s).2.iters.map (·.it)) = s.iters.map (·.it)) ∧
    (∀ rules s, ((execIf funcs depth fuel rules s).2.iters.map (·.it)) = s.iters.map (·.it)) := by
  have key : ∀ (s s' : St), SameIters s s' → s'.iters.map (·.it) = s.iters.map (·.it) := by
    intro s s' h
    have e : (fun x : Iter => x.it) = (fun k : String × Option String × Nat × Ty × Bool => k.1) ∘ iterKey := rfl
    unfold SameIters at h
    rw [e, ← List.map_map, ← List.map_map, h]
  obtain ⟨h1, h2, h3, h4, h5, h6, h7, h8⟩ := sameIters_all funcs fuel
  exact ⟨fun e s => key _ _ ((h1 depth e).h s), fun n a s => key _ _ ((h2 depth n a).h s), fun a s => key _ _ ((h3 depth a).h s),
    fun b c s => key _ _ ((h4 depth b c).h s), fun l s => key _ _ ((h5 depth l).h s), fun st s => key _ _ ((h6 depth st).h s),
    fun es s => key _ _ ((h7 depth es).h s), fun r s => key _ _ ((h8 depth r).h s)⟩

/-- Stronger form for statements: not only the names — the whole control entries (traversed variable, index, saved type, lock flag) of the
enclosing loops are as before; a statement can only change the private copy of a traversed temporary (by writing through its iterator). -/
theorem exec_iters_frames (funcs : List Func) (fuel depth : Nat) (st : Stmt) (s : St) :
    (exec funcs depth fuel st s).2.iters.map iterKey = s.iters.map iterKey :=
  ((sameIters_all funcs fuel).2.2.2.2.2.1 depth st).h s

/-- The condition test of `WHILEStatement::doit`: null counts as false. -/
def whileTest (v : Val) : Res Bool := if v.isNull then Res.ok false else v.asBool

/-- A null or false condition ends the while loop normally without running the body. -/
theorem whileLoop_false (cond : EvalM Val) (body : EvalM Flow) (k : Nat) (s s1 : St) (v : Val)
    (hc : cond s = (.ok v, s1)) (ht : whileTest v = .ok false) :
    whileLoop cond body (k + 1) s = (.ok .norm, s1) := by
  unfold whileTest at ht
  unfold whileLoop
  simp only [bind_app, hc, liftM_app, ht, pure_app, Bool.not_false, if_true, evalM_ite_app]

/-- `break` ends exactly the innermost (while) loop: the loop itself ends normally. -/
theorem whileLoop_break (cond : EvalM Val) (body : EvalM Flow) (k : Nat) (s s1 s2 : St) (v : Val)
    (hc : cond s = (.ok v, s1)) (ht : whileTest v = .ok true) (hb : body s1 = (.ok .brk, s2)) :
    whileLoop cond body (k + 1) s = (.ok .norm, s2) := by
  unfold whileTest at ht
  unfold whileLoop
  simp only [bind_app, hc, liftM_app, ht, pure_app, Bool.not_true, Bool.false_eq_true, if_false, evalM_ite_app, hb]

/-- `return` leaves the while loop and stays pending for the enclosing function or program. -/
theorem whileLoop_return (cond : EvalM Val) (body : EvalM Flow) (k : Nat) (s s1 s2 : St) (v : Val)
    (hc : cond s = (.ok v, s1)) (ht : whileTest v = .ok true) (hb : body s1 = (.ok .ret, s2)) :
    whileLoop cond body (k + 1) s = (.ok .ret, s2) := by
  unfold whileTest at ht
  unfold whileLoop
  simp only [bind_app, hc, liftM_app, ht, pure_app, Bool.not_true, Bool.false_eq_true, if_false, evalM_ite_app, hb]

/-- `continue` (like a normal end of the body) goes back to the condition of this same loop. -/
theorem whileLoop_continue (cond : EvalM Val) (body : EvalM Flow) (k : Nat) (s s1 s2 : St) (v : Val) (fl : Flow)
    (hc : cond s = (.ok v, s1)) (ht : whileTest v = .ok true) (hb : body s1 = (.ok fl, s2)) (hfl : fl = .norm ∨ fl = .cont) :
    whileLoop cond body (k + 1) s = whileLoop cond body k s2 := by
  unfold whileTest at ht
  conv => lhs; unfold whileLoop
  rcases hfl with rfl | rfl <;>
  simp only [bind_app, hc, liftM_app, ht, pure_app, Bool.not_true, Bool.false_eq_true, if_false, evalM_ite_app, hb]

/-- An error in the body ends the while loop with that error, from the state the body left. -/
theorem whileLoop_error (cond : EvalM Val) (body : EvalM Flow) (k : Nat) (s s1 s2 : St) (v : Val) (c : Nat) (a : Bytes)
    (hc : cond s = (.ok v, s1)) (ht : whileTest v = .ok true) (hb : body s1 = (.err c a, s2)) :
    whileLoop cond body (k + 1) s = (.err c a, s2) := by
  unfold whileTest at ht
  unfold whileLoop
  simp only [bind_app, hc, liftM_app, ht, pure_app, Bool.not_true, Bool.false_eq_true, if_false, evalM_ite_app, hb]

/-- `break` ends exactly the innermost (forall) loop. -/
theorem forallLoop_break (body : EvalM Flow) (it : String) (desc : Bool) (k : Nat) (s s1 : St)
    (hb : body s = (.ok .brk, s1)) : forallLoop body it desc (k + 1) s = (.ok .norm, s1) := by
  unfold forallLoop; simp only [bind_app, hb, pure_app]

/-- `return` leaves the forall loop and stays pending. -/
theorem forallLoop_return (body : EvalM Flow) (it : String) (desc : Bool) (k : Nat) (s s1 : St)
    (hb : body s = (.ok .ret, s1)) : forallLoop body it desc (k + 1) s = (.ok .ret, s1) := by
  unfold forallLoop; simp only [bind_app, hb, pure_app]

/-- An error in the body ends the forall loop with that error (the control entry is then popped by `forallExit`). -/
theorem forallLoop_error (body : EvalM Flow) (it : String) (desc : Bool) (k : Nat) (s s1 : St) (c : Nat) (a : Bytes)
    (hb : body s = (.err c a, s1)) : forallLoop body it desc (k + 1) s = (.err c a, s1) := by
  unfold forallLoop; simp only [bind_app, hb]

/-- `Executable::run` stops at the first statement that ends with a pending break / continue / return: the rest of the list does not run and
the condition is handed to the enclosing construct (the innermost loop for break/continue). -/
theorem execList_stops (funcs : List Func) (depth fuel : Nat) (st : Stmt) (rest : List Stmt) (s s1 : St) (fl : Flow)
    (h : exec funcs depth fuel st s = (.ok fl, s1)) (hfl : fl ≠ .norm) :
    execList funcs depth (fuel + 1) (st :: rest) s = (.ok fl, s1) := by
  have : (fl == Flow.norm) = false := by cases fl <;> simp_all
  simp only [execList, bind_app, h, this, Bool.false_eq_true, if_false, pure_app, evalM_ite_app]

/-- A statement that ends normally is followed by the rest of the list, from the state it left. -/
theorem execList_continues (funcs : List Func) (depth fuel : Nat) (st : Stmt) (rest : List Stmt) (s s1 : St)
    (h : exec funcs depth fuel st s = (.ok .norm, s1)) :
    execList funcs depth (fuel + 1) (st :: rest) s = execList funcs depth fuel rest s1 := by
  simp only [execList, bind_app, h, beq_self_eq_true, if_true, evalM_ite_app]

/-- An error in a statement ends the list with that error. -/
theorem execList_error (funcs : List Func) (depth fuel : Nat) (st : Stmt) (rest : List Stmt) (s s1 : St) (c : Nat) (a : Bytes)
    (h : exec funcs depth fuel st s = (.err c a, s1)) :
    execList funcs depth (fuel + 1) (st :: rest) s = (.err c a, s1) := by
  simp only [execList, bind_app, h]


/-- **A body that assigns the control variable** (manual: allowed — the loop continues from the assigned value): whatever the body did
to the variable, if it ends normally or with `continue` leaving the INTEGER `a` in it, then
(1) when `a + step` — computed in ℤ, no wrap-around — lies beyond the limit in the direction of the step (`> max` ascending, `< min`
descending) the loop ends normally right there, the variable keeping `a`: also when `a` is already beyond the limit, equal to it, or
inside the last partial-step window `(limit − step, limit]`, and at INT64_MAX / INT64_MIN;
(2) otherwise the next iteration runs with the variable `a + step`, which as an Int64 is exactly `a + step` (no wrap) and lies inside
[min, max]. (A null left in the variable: `forLoop_null_variable`, NOT_INTEGER.) Any body, any state, any `a`. -/
theorem for_body_assignment (body : EvalM Flow) (v : String) (min max step : Int64) (k : Nat) (s s1 : St) (r : Flow) (a : Int64)
    (hb : body s = (.ok r, s1)) (hr : r = .norm ∨ r = .cont) (hv : lookupVar s1.vars v = .int a) (hstep : step > 0 ∨ step < 0) :
    (((step > 0 ∧ a.toInt + step.toInt > max.toInt) ∨ (step < 0 ∧ a.toInt + step.toInt < min.toInt)) →
      forLoop body v min max step (k + 1) s = (.ok .norm, s1)) ∧
    (¬ ((step > 0 ∧ a.toInt + step.toInt > max.toInt) ∨ (step < 0 ∧ a.toInt + step.toInt < min.toInt)) →
      forLoop body v min max step (k + 1) s = forLoop body v min max step k { s1 with vars := setVar s1.vars v (.int (a + step)) } ∧
      (a + step).toInt = a.toInt + step.toInt ∧
      ((step > 0 → (a + step).toInt ≤ max.toInt) ∧ (step < 0 → min.toInt ≤ (a + step).toInt))) := by
  have hit := forLoop_iteration body v min max step k s s1 r a hb hr hv
  have h0 : (0 : Int64).toInt = 0 := by decide
  constructor
  · intro hc
    rw [hit, if_pos]
    rcases hc with ⟨h1, h2⟩ | ⟨h1, h2⟩
    · simp [h1, h2]
    · simp [h1, h2]
  · intro hc
    have hneg : ¬ (((step > 0 && a.toInt + step.toInt > max.toInt) || (step < 0 && a.toInt + step.toInt < min.toInt)) = true) := by
      intro h
      apply hc
      simp only [Bool.or_eq_true, Bool.and_eq_true, decide_eq_true_eq] at h
      exact h
    rw [hit, if_neg hneg]
    have hp : step > 0 ↔ 0 < step.toInt := by
      show (0 : Int64) < step ↔ _
      rw [Int64.lt_iff_toInt_lt, h0]
    have hn : step < 0 ↔ step.toInt < 0 := by
      rw [Int64.lt_iff_toInt_lt, h0]
    have ha1 := Int64.le_toInt a; have ha2 := Int64.toInt_lt a
    have hx1 := Int64.le_toInt min; have hx2 := Int64.toInt_lt max
    have hsum : (a + step).toInt = a.toInt + step.toInt := by
      apply toInt_add_small
      · rcases hstep with h | h
        · have := hp.mp h; omega
        · have := hn.mp h
          have : ¬ (a.toInt + step.toInt < min.toInt) := fun h' => hc (Or.inr ⟨h, h'⟩)
          omega
      · rcases hstep with h | h
        · have : ¬ (a.toInt + step.toInt > max.toInt) := fun h' => hc (Or.inl ⟨h, h'⟩)
          omega
        · have := hn.mp h; omega
    refine ⟨rfl, hsum, ?_, ?_⟩
    · intro h
      have : ¬ (a.toInt + step.toInt > max.toInt) := fun h' => hc (Or.inl ⟨h, h'⟩)
      omega
    · intro h
      have : ¬ (a.toInt + step.toInt < min.toInt) := fun h' => hc (Or.inr ⟨h, h'⟩)
      omega

/-- `for k in 0 to 10 step 3 loop print k; if k == 3 then k = 8; end if; end loop`: 8 lies in the last window (7, 10]: 0 3 then the loop ends (8+3 > 10);
with `k = 7` instead the trace is 0 3 10 -/
example : ((execList [] 0 30 [.forS "k" (.lit (.int 0)) (.lit (.int 10)) (some (.lit (.int 3))) .auto
      [.printS [.var "k"], .ifS [(some (.bin .eq (.var "k") (.lit (.int 3))), [.letS "k" (.lit (.int 8))])]]] {}).2.output,
    (execList [] 0 30 [.forS "k" (.lit (.int 0)) (.lit (.int 10)) (some (.lit (.int 3))) .auto
      [.printS [.var "k"], .ifS [(some (.bin .eq (.var "k") (.lit (.int 3))), [.letS "k" (.lit (.int 7))])]]] {}).2.output) =
    ([48, 10, 51, 10], [48, 10, 51, 10, 49, 48, 10]) := by decide +kernel

/-! ## the compile-time lock: `QuietAlongF` is no longer a hypothesis for bodies the parser accepts

`lockL L body` (Model/Interp.lean) = the parser accepts `body` while the names `L` are locked (tied to Parser::parse by the check's
`lock` family). `Lemmas.lock_all`: such code never changes the number of elements of a table in `L`. With `sameIters_all` (the
loop's control entry stays in place) this gives `QuietAlongF` from the one thing that really is run-dependent: that the iterations end
normally or with `continue` (`EndsNormAlong`; a `break`, `return` or error cuts the traversal short by definition). -/

/-- **What the lock buys**: code accepted while `t` is locked leaves the number of elements of `t` alone — every statement list, fuel, depth,
state, outcome (error, break, out of fuel included). -/
theorem locked_code_keeps_table_length (funcs : List Func) (depth fuel : Nat) (t : String) (L : List String) (body : List Stmt) (s : St)
    (ht : t ∈ L) (hl : lockL L body = true) :
    tableSize (lookupVar (execList funcs depth fuel body s).2.vars t) = tableSize (lookupVar s.vars t) :=
  ((lock_all t funcs fuel).2.2.2.2.1 L depth body ht hl).h s

/-- every iteration of the traversal, run from the state the run reaches, ends normally or with `continue` -/
def EndsNormAlong (body : EvalM Flow) : St → List Nat → Prop
  | _, [] => True
  | s, [_] => (body s).1 = .ok .norm ∨ (body s).1 = .ok .cont
  | s, _ :: j :: rest => ((body s).1 = .ok .norm ∨ (body s).1 = .ok .cont) ∧ EndsNormAlong body (stepTo (bodySt body s) j) (j :: rest)

/-- the loop's own control entry is on top, traverses variable `t` at index `i`, and `t` has `n` elements -/
def LoopInv (it t : String) (n : Nat) (s : St) (i : Nat) : Prop :=
  ∃ b rest, s.iters = b :: rest ∧ b.it = it ∧ b.src = some t ∧ b.idx = i ∧ tableSize (lookupVar s.vars t) = n

/-- one run of a lock-respecting body keeps the loop invariant -/
theorem loopInv_body (funcs : List Func) (depth fuel : Nat) (stmts : List Stmt) (L : List String) (it t : String) (n : Nat)
    (ht : t ∈ L) (hl : lockL L stmts = true) (s : St) (i : Nat) (h : LoopInv it t n s i) :
    LoopInv it t n (execList funcs depth fuel stmts s).2 i := by
  obtain ⟨b, rest, hi, hit, hsrc, hidx, hn⟩ := h
  have hk := ((sameIters_all funcs fuel).2.2.2.2.1 depth stmts).h s
  have hlen := locked_code_keeps_table_length funcs depth fuel t L stmts s ht hl
  unfold SameIters at hk
  rw [hi] at hk
  cases hi' : (execList funcs depth fuel stmts s).2.iters with
  | nil => rw [hi'] at hk; simp at hk
  | cons b' rest' =>
    rw [hi'] at hk
    simp only [List.map_cons, List.cons.injEq] at hk
    have hkey := hk.1
    unfold iterKey at hkey
    simp only [Prod.mk.injEq] at hkey
    exact ⟨b', rest', hi', hkey.1.trans hit, hkey.2.1.trans hsrc, hkey.2.2.1.trans hidx, hlen.trans hn⟩

/-- **`QuietAlongF` from the lock**: for a body the parser accepts under the lock of `t`, the run-local quietness of C06's traversal theorems
follows from "every iteration ends normally or with continue". -/
theorem quietAlongF_of_lock (funcs : List Func) (depth fuel : Nat) (stmts : List Stmt) (L : List String) (it t : String) (n : Nat)
    (ht : t ∈ L) (hl : lockL L stmts = true) :
    ∀ (is : List Nat) (i : Nat) (s : St), LoopInv it t n s i →
      EndsNormAlong (execList funcs depth fuel stmts) s (i :: is) → QuietAlongF (execList funcs depth fuel stmts) it n s (i :: is) := by
  have hat : ∀ (s : St) (i : Nat), LoopInv it t n s i →
      ((execList funcs depth fuel stmts s).1 = .ok .norm ∨ (execList funcs depth fuel stmts s).1 = .ok .cont) →
      QuietAtF (execList funcs depth fuel stmts) it n s i := by
    intro s i hinv hfl
    obtain ⟨b', rest', hi', hit', hsrc', hidx', hn'⟩ := loopInv_body funcs depth fuel stmts L it t n ht hl s i hinv
    refine ⟨hfl, b', rest', hi', hit', hidx', ?_⟩
    unfold St.iterTable; rw [hsrc']; exact hn'
  intro is
  induction is with
  | nil => intro i s hinv he; exact hat s i hinv he
  | cons j rest ih =>
    intro i s hinv he
    obtain ⟨he1, he2⟩ := he
    refine ⟨hat s i hinv he1, ih j _ ?_ he2⟩
    obtain ⟨b', rest', hi', hit', hsrc', hidx', hn'⟩ := loopInv_body funcs depth fuel stmts L it t n ht hl s i hinv
    unfold stepTo bodySt
    rw [hi']
    exact ⟨{ b' with idx := j }, rest', rfl, hit', hsrc', rfl, hn'⟩

/-- the traversal order of a non-empty table starts at the first index of the requested direction -/
theorem forallOrder_head (desc : Bool) (n : Nat) (h : 0 < n) : ∃ rest, forallOrder desc n = (if desc then n - 1 else 0) :: rest := by
  obtain ⟨m, rfl⟩ : ∃ m, n = m + 1 := ⟨n - 1, by omega⟩
  unfold forallOrder
  cases desc
  · exact ⟨List.map Nat.succ (List.range m), by simp [List.range_succ_eq_map]⟩
  · exact ⟨(List.range m).reverse, by simp [List.range_succ]⟩

/-- **forall visits every element once, in the requested order — for every body the parser accepts** (statement level, table variable):
`exec_forall_var_visits` with the hypothesis `QuietAlongF` replaced by (1) `lockL L body` for some lock set containing `t` — what
Parser::parse enforces for the body of `forall it in t` — and (2) every iteration ends normally or with `continue`. -/
theorem exec_forall_var_visits_locked (funcs : List Func) (depth fuel : Nat) (it t : String) (dir : Dir) (body : List Stmt)
    (s : St) (ty : Ty) (d : List Ty) (es : List Val) (L : List String) (hbud : s.budget ≠ 0)
    (ht : lookupVar s.vars t = .tab ty d es) (hl : (ty.level == 0) = false) (hne : es ≠ [])
    (hit : s.iters.any (·.it == it) = false) (htt : s.iters.any (·.it == t) = false)
    (hfuel : es.length < fuel + 1)
    (htL : t ∈ L) (hlock : lockL L body = true)
    (hn : EndsNormAlong (execList funcs depth (fuel + 1) body)
      { tick s with iters := forallEntry s it t (dir == .desc) es.length :: s.iters } (forallOrder (dir == .desc) es.length)) :
    exec funcs depth (fuel + 2) (.forallS it (.var t) dir body) s =
      forallExit it (.ok .norm, runOverF (execList funcs depth (fuel + 1) body)
        { tick s with iters := forallEntry s it t (dir == .desc) es.length :: s.iters } (forallOrder (dir == .desc) es.length)) := by
  have hpos : 0 < es.length := by cases es with | nil => exact absurd rfl hne | cons _ _ => simp
  obtain ⟨rest, hord⟩ := forallOrder_head (dir == .desc) es.length hpos
  apply exec_forall_var_visits funcs depth fuel it t dir body s ty d es hbud ht hl hne hit htt hfuel
  rw [hord] at hn ⊢
  apply quietAlongF_of_lock funcs depth (fuel + 1) body L it t es.length htL hlock rest _ _ ?_ hn
  refine ⟨forallEntry s it t (dir == .desc) es.length, s.iters, rfl, rfl, rfl, rfl, ?_⟩
  show tableSize (lookupVar s.vars t) = es.length
  rw [ht]; rfl

/-- hypotheses of `exec_forall_var_visits_locked` at work: `forall e in t loop print e; x = t.count(); end loop` over a 2-element table -/
example : exec [] 0 8 (.forallS "e" (.var "t") .auto [.printS [.var "e"], .letS "x" (.member .count (.var "t") [])])
      { vars := [("t", .tab { major := .int, level := 1 } [] [.int 4, .int 5])] } =
    forallExit "e" (.ok .norm, runOverF (execList [] 0 7 [.printS [.var "e"], .letS "x" (.member .count (.var "t") [])])
      { tick { vars := [("t", .tab { major := .int, level := 1 } [] [.int 4, .int 5])] } with
        iters := [forallEntry { vars := [("t", .tab { major := .int, level := 1 } [] [.int 4, .int 5])] } "e" "t" false 2] } [0, 1]) :=
  exec_forall_var_visits_locked [] 0 6 "e" "t" .auto _ _ { major := .int, level := 1 } [] [.int 4, .int 5] ["t"] (by decide) (by with_unfolding_all rfl) (by decide) (by decide)
    (by decide) (by decide) (by decide) (by decide) (by decide +kernel)
    ⟨Or.inl (by decide +kernel), Or.inl (by decide +kernel)⟩

/-- **A loop never takes back what was printed**: for every statement — `for`, `while`, `forall` with any body, left by any route
(end of range, break, return, error, out of fuel) — the output afterwards is the output before plus what the iterations printed
(`Lemmas.frame_all` for `OutGrows`); the `for`/`while` control entries a run could leave behind are as before. -/
theorem statement_output_only_grows (funcs : List Func) (depth fuel : Nat) (st : Stmt) (s : St) :
    (∃ t : Bytes, (exec funcs depth fuel st s).2.output = s.output ++ t) ∧ (exec funcs depth fuel st s).2.ctl = s.ctl :=
  ⟨output_prefix_of_outGrows _ _ (((frame_all outGrows_frame funcs fuel).2.2.2.2.2.1 depth st).h s),
   ((frame_all sameCtl_frame funcs fuel).2.2.2.2.2.1 depth st).h s⟩

/-- `for i in 1 to 3 loop print i; if i == 2 then raise E; end if; end loop` after `print "x"`: the error leaves `x 1 2` printed -/
example : (execList [] 0 30 [.printS [.lit (.str [120])], .forS "i" (.lit (.int 1)) (.lit (.int 3)) none .auto
      [.printS [.var "i"], .ifS [(some (.bin .eq (.var "i") (.lit (.int 2))), [.raiseS "E"])]]] {}).2.output = [120, 10, 49, 10, 50, 10] := by decide +kernel
end BlocV.C06
