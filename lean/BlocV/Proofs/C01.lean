/-
  C01 — any source text is either executed or rejected with an error; never a crash.

  Property theorems: the operators of the model (Model/Ops.lean: the transcription of the `value()` methods of
  blocc/operator/op_*.cpp) never reach a C-level hazard, for every operator and EVERY operand value — all nulls,
  typed nulls, tables, tuples, objects, every Int64, every byte string —, and neither does any expression tree
  built from them. Helper lemmas: Proofs/Lemmas/OpsCases.lean.

  The only hypothesis is the representation invariant `Val.tabOk` ("a table value carries a table type, level ≥ 1"),
  which every `bloc::Value` has by construction and which `Val` does not enforce; `evalBin_hazard_witness` shows
  that the model does reach a hazard on an ill-formed value, so the hypothesis is exactly what is needed.
-/
import BlocV.Proofs.Lemmas.OpsCases
import BlocV.Proofs.Lemmas.BuiltinCases

namespace BlocV.C01
open BlocV

/-- `+x` never reaches a hazard: it returns the operand or raises INV_EXPRESSION. -/
theorem pos_no_hazard (a : Val) : (evalUn .pos a).isHazard = false := evalUn_no_hazard_all .pos a

/-- Unary operators (`-x`, `+x`, `~x`, `not x`; op_neg/op_pos/op_not/op_bnot.cpp): for EVERY operand value the
outcome is a value, INV_EXPRESSION, or an unmodelled complex cell — never a C-level hazard. No hypothesis at all:
the unary operators test `isNull()` before touching the payload. -/
theorem evalUn_no_hazard (op : UnOp) (a : Val) : (evalUn op a).isHazard = false := evalUn_no_hazard_all op a

example : evalUn .neg (.int (-9223372036854775808)) = .ok (.int (-9223372036854775808)) := by rfl
example : evalUn .not (.null Ty.none) = .ok (.null Ty.int) := rfl
example : evalUn .bnot (.tab { major := .int, level := 1 } [] [.int 1]) = .err Gen.EXC_RT_INV_EXPRESSION := rfl

/-- Binary operators (all 20: `+ - * / ** % & | ^ << >> == != < <= > >= and or xor`; op_*.cpp after the `fix:`
commits for overflow, INT64_MIN / −1, shift range and integer power): for EVERY pair of well-formed operand values
and either value of the aliasing flag, the outcome is a value, a BLOC runtime error or an unmodelled complex cell —
never a C-level hazard (no null-pointer dereference through a typed accessor, no signed overflow, no SIGFPE, no
undefined shift). -/
theorem evalBin_no_hazard (op : BinOp) (a b : Val) (same : Bool) (ha : a.tabOk = true) (hb : b.tabOk = true) :
    (evalBin op a b same).isHazard = false := by
  cases op
  case add => exact opAdd_no_hazard a b ha hb
  case sub => exact arith_no_hazard Ty.num (fun x y => .ok (Num.isub x y)) (fun x y => .ok (Num.fsub x y)) true a b (fun _ _ => rfl) (fun _ _ => rfl) ha hb
  case mul => exact arith_no_hazard Ty.num (fun x y => .ok (Num.imul x y)) (fun x y => .ok (Num.fmul x y)) true a b (fun _ _ => rfl) (fun _ _ => rfl) ha hb
  case div => exact arith_no_hazard Ty.num Num.idiv fdivChecked true a b idiv_no_hazard fdivChecked_no_hazard ha hb
  case exp => exact arith_no_hazard Ty.num Num.ipow (fun x y => .ok (Num.fpow x y)) true a b ipow_no_hazard (fun _ _ => rfl) ha hb
  case mod => exact arith_no_hazard Ty.none Num.imod fmodChecked false a b imod_no_hazard fmodChecked_no_hazard ha hb
  case and => exact bitwise_no_hazard _ a b ha hb
  case ior => exact bitwise_no_hazard _ a b ha hb
  case xor => exact bitwise_no_hazard _ a b ha hb
  case pop => exact bitwise_no_hazard _ a b ha hb
  case pus => exact bitwise_no_hazard _ a b ha hb
  case eq => rcases opEq_total same a b with ⟨v, h, _⟩ | h <;> simp only [evalBin, h] <;> rfl
  case ne => rcases opNe_total same a b with ⟨v, h, _⟩ | h <;> simp only [evalBin, h] <;> rfl
  case lt => exact ordered_no_hazard _ _ _ a b ha hb
  case le => exact ordered_no_hazard _ _ _ a b ha hb
  case gt => exact ordered_no_hazard _ _ _ a b ha hb
  case ge => exact ordered_no_hazard _ _ _ a b ha hb
  case band => exact opBand_no_hazard a (fun _ => .ok b) rfl
  case bior => exact opBior_no_hazard a (fun _ => .ok b) rfl
  case bxor => exact opBxor_no_hazard a b

example : evalBin .add (.int 9223372036854775807) (.int 1) = .ok (.int (-9223372036854775808)) := by rfl
example : evalBin .div (.int (-9223372036854775808)) (.int (-1)) = .ok (.int (-9223372036854775808)) := by rfl
example : evalBin .pop (.int 1) (.int 64) = .ok (.int 0) := by rfl
example : evalBin .mod (.int 1) (.int 0) = .err Gen.EXC_RT_DIVIDE_BY_ZERO := by rfl
example : evalBin .lt (.null Ty.int) (.str [97]) = .ok (.null Ty.bool) := rfl
example : (Val.null Ty.int).tabOk = true ∧ (Val.tab { major := .int, level := 1 } [] [.int 1]).tabOk = true := ⟨rfl, rfl⟩

/-- The hypothesis of `evalBin_no_hazard` cannot be dropped: on an ill-formed "table of level 0" — a value no
`bloc::Value` can be — the model's typed accessor falls through to its null-pointer branch. (A fact about the
model's value type, not about the C++: see NOTES-p0102.) -/
theorem evalBin_hazard_witness :
    (Val.tab Ty.int [] []).tabOk = false ∧ evalBin .lt (.tab Ty.int [] []) (.int 0) = .haz .nullDeref ∧
    evalBin .add (.tab Ty.int [] []) (.int 0) = .haz .nullDeref := ⟨rfl, rfl, rfl⟩

/-- `== != and or xor` do not use a typed accessor: no hazard for ANY operands, ill-formed ones included. -/
theorem evalBin_no_hazard_unconditional (op : BinOp) (hop : op = .eq ∨ op = .ne ∨ op = .band ∨ op = .bior ∨ op = .bxor)
    (a b : Val) (same : Bool) : (evalBin op a b same).isHazard = false := by
  rcases hop with rfl | rfl | rfl | rfl | rfl
  · rcases opEq_total same a b with ⟨v, h, _⟩ | h <;> simp only [evalBin, h] <;> rfl
  · rcases opNe_total same a b with ⟨v, h, _⟩ | h <;> simp only [evalBin, h] <;> rfl
  · exact opBand_no_hazard a (fun _ => .ok b) rfl
  · exact opBior_no_hazard a (fun _ => .ok b) rfl
  · exact opBxor_no_hazard a b

example : evalBin .eq (.tab Ty.int [] []) (.int 0) = .ok (.bool false) := rfl

/-- Laziness does not matter: `and` / `or` with an arbitrary computation as second operand reach a hazard only if
that computation does. -/
theorem logic_lazy_no_hazard (a : Val) (t : Unit → Res Val) (h : (t ()).isHazard = false) :
    (opBand a t).isHazard = false ∧ (opBior a t).isHazard = false :=
  ⟨opBand_no_hazard a t h, opBior_no_hazard a t h⟩

/-- Results stay well-formed: whatever a binary / unary operator returns is again a value satisfying the
representation invariant (it is one of the operands, a null of the second operand's type, or a fresh scalar). -/
theorem evalBin_ok_tabOk (op : BinOp) (a b v : Val) (same : Bool) (ha : a.tabOk = true) (hb : b.tabOk = true)
    (h : evalBin op a b same = .ok v) : v.tabOk = true :=
  (evalBin_prov op a b same v h).tabOk ha hb

theorem evalUn_ok_tabOk (op : UnOp) (a v : Val) (ha : a.tabOk = true) (h : evalUn op a = .ok v) : v.tabOk = true := by
  rcases evalUn_prov op a v h with rfl | h
  · exact ha
  · exact Val.tabOk_of_wf (fresh_wf h)

example : evalBin .add (.null Ty.none) (.str [97]) = .ok (.str [97]) := rfl

/-- **Lifting to expression trees.** An expression built from constants, variables and the unary / binary operators
(`LExpr`, evaluated by the value-level evaluator `LExpr.pure` of Model/Store.lean, `and`/`or` short-circuiting as in
op_band.cpp / op_bior.cpp), over variable and constant cells holding well-formed values, never reaches a hazard —
and its value, when there is one, is well-formed again. For ALL expression trees and ALL such environments. -/
theorem pure_no_hazard (vars csts : List Val) (hv : ∀ v ∈ vars, v.tabOk = true) (hc : ∀ v ∈ csts, v.tabOk = true)
    (e : LExpr) :
    (LExpr.pure vars csts e).isHazard = false ∧ ∀ v, LExpr.pure vars csts e = .ok v → v.tabOk = true := by
  induction e with
  | cst i =>
    refine ⟨rfl, fun v h => ?_⟩
    simp only [LExpr.pure, Res.ok.injEq] at h
    subst h
    exact getD_tabOk csts i hc
  | var i =>
    refine ⟨rfl, fun v h => ?_⟩
    simp only [LExpr.pure, Res.ok.injEq] at h
    subst h
    exact getD_tabOk vars i hv
  | un op e ih =>
    simp only [LExpr.pure]
    cases he : LExpr.pure vars csts e with
    | ok v1 =>
      have h1 := ih.2 v1 he
      exact ⟨evalUn_no_hazard op v1, fun v h => evalUn_ok_tabOk op v1 v h1 h⟩
    | err c x => exact ⟨rfl, fun v h => by cases h⟩
    | haz h => rw [he] at ih; exact absurd ih.1 (by simp [Res.isHazard])
    | unmodelled => exact ⟨rfl, fun v h => by cases h⟩
  | bin op a b iha ihb =>
    simp only [LExpr.pure]
    cases hea : LExpr.pure vars csts a with
    | ok v1 =>
      have h1 := iha.2 v1 hea
      simp only []
      split
      · exact ⟨evalBin_no_hazard op v1 _ false h1 rfl, fun v h => evalBin_ok_tabOk op v1 _ v false h1 rfl h⟩
      · cases heb : LExpr.pure vars csts b with
        | ok v2 =>
          have h2 := ihb.2 v2 heb
          exact ⟨evalBin_no_hazard op v1 v2 false h1 h2, fun v h => evalBin_ok_tabOk op v1 v2 v false h1 h2 h⟩
        | err c x => exact ⟨rfl, fun v h => by cases h⟩
        | haz h => rw [heb] at ihb; exact absurd ihb.1 (by simp [Res.isHazard])
        | unmodelled => exact ⟨rfl, fun v h => by cases h⟩
    | err c x => exact ⟨rfl, fun v h => by cases h⟩
    | haz h => rw [hea] at iha; exact absurd iha.1 (by simp [Res.isHazard])
    | unmodelled => exact ⟨rfl, fun v h => by cases h⟩

example : LExpr.pure [.int 5] [.null Ty.none, .int 1] (.bin .add (.cst 1) (.un .neg (.var 0))) = .ok (.int (-4)) := by rfl


/-! ### built-in functions (Model/Builtins.lean, run in the `Res` monad) -/

/-- **Built-ins never reach a hazard** — EVERY modelled built-in: `substr subraw lsubstr rsubstr strpos replace trim ltrim
rtrim upper lower strlen tokenize hex hash chr raw int b64enc b64dec str abs pow`. For ANY number of arguments, each an
arbitrary computation that does not itself reach a hazard and whose value is well-formed (`ArgsOk`), the outcome is a
value, a BLOC runtime error or an unmodelled cell, never a hazard: no typed accessor is applied to a null
(fix "null_number_builtins"), every decimal→integer conversion is range-checked (`castToInt`; `int(decimal)`:
`intOfDecimal_no_hazard`, fix "int_of_decimal_range"), and the signed index arithmetic of `substr`/`subraw` (`a + c`,
`c - a`) and of `hex` (`n += 1`) cannot overflow (fixes e2c4824: a position still negative after adding the length
selects nothing; cbe22cc: pad count clamped to 16), `abs` negates in `uint64_t` (fde74fa) and `pow(integer, integer)`
is the exact `Num.ipow` of the `**` operator (eec6e8e). No built-in is excluded any more (this was
`evalBuiltin_no_hazard_partial`, which left out `substr`, `subraw`, `hex`; `abs` and `pow` were not modelled). The only
additional hypothesis, needed by `substr`/`subraw` alone, is that the length of a string / byte array fits the `int64_t`
it is stored into (`ArgsLen`), as every `size()` does. -/
theorem evalBuiltin_no_hazard (fmt : Num.F64 → Bytes) (name : String) (args : List (Res Val)) (r : Res Val)
    (h : ArgsOk args) (hl : name = "substr" ∨ name = "subraw" → ArgsLen args)
    (hr : evalBuiltin (m := Res) fmt name args = some r) : r.isHazard = false :=
  evalBuiltin_no_hazard_of fmt name args r h hl hr

example : evalBuiltin (m := Res) (fun _ => []) "chr" [.ok (.num 0x7ff8000000000000)] = some (.err Gen.EXC_RT_OUT_OF_RANGE) := rfl
example : ArgsOk [.ok (.null Ty.num), .err 5 []] := by
  intro t ht
  simp only [List.mem_cons, List.mem_nil_iff, or_false] at ht
  rcases ht with rfl | rfl
  · exact ⟨rfl, fun v hv => by cases hv; rfl⟩
  · exact ⟨rfl, fun v hv => by cases hv⟩
example : ArgsOk [.ok (.str [97, 98]), .ok (.int (-9223372036854775808))] ∧
    ArgsLen [.ok (.str [97, 98]), .ok (.int (-9223372036854775808))] := by
  constructor
  · intro t ht
    simp only [List.mem_cons, List.mem_nil_iff, or_false] at ht
    rcases ht with rfl | rfl <;> exact ⟨rfl, fun v hv => by cases hv; rfl⟩
  · intro t ht v hv
    simp only [List.mem_cons, List.mem_nil_iff, or_false] at ht
    rcases ht with rfl | rfl <;> (cases hv; rfl)

/-- The former witnesses of the three overflow findings (C01.bi.substr.overflow, C01.bi.subraw.overflow,
C01.bi.hex.overflow) and of C01.bi.abs.overflow / C01.bi.pow.floatcast now return values — in the model exactly as
in the repaired build: a begin position of INT64_MIN selects nothing, a pad count of INT64_MAX pads to 16 digits,
abs(INT64_MIN) wraps to INT64_MIN, pow(INT64_MAX, 5) is (2^63 − 1)^5 mod 2^64. (This was `evalBuiltin_hazard_witness`,
which showed `.haz .signedOverflow` for the first three.) -/
theorem evalBuiltin_repaired_witnesses :
    biSubstr (m := Res) [.ok (.str [97, 98]), .ok (.int (-9223372036854775808))] = .ok (.str []) ∧
    biSubraw (m := Res) [.ok (.raw [97, 98]), .ok (.int (-9223372036854775808))] = .ok (.raw []) ∧
    biHex (m := Res) [.ok (.int 0), .ok (.int 9223372036854775807)] = .ok (.str (List.replicate 16 48)) ∧
    biAbs (m := Res) [.ok (.int (-9223372036854775808))] = .ok (.int (-9223372036854775808)) ∧
    biPow (m := Res) [.ok (.int 9223372036854775807), .ok (.int 5)] = .ok (.int 9223372036854775807) :=
  ⟨rfl, rfl, rfl, rfl, rfl⟩

example : (biSubstr (m := Res) [.ok (.str [97, 98]), .ok (.int (-9223372036854775808))]).isHazard = false := by
  rw [evalBuiltin_repaired_witnesses.1]; rfl

/-- `int(decimal)` (builtin_int.cpp after the repair of the range test): the hazard branch of the model — the C cast
of a non-finite double — is unreachable, for every bit pattern. -/
theorem int_of_decimal_no_hazard (b : Num.F64) : (Num.intOfDecimal b).isHazard = false := intOfDecimal_no_hazard b

example : Num.intOfDecimal 0x7ff0000000000000 = .err Gen.EXC_RT_OUT_OF_RANGE := by decide
example : Num.intOfDecimal 0xc3e0000000000000 = .ok (-9223372036854775808) := by decide

end BlocV.C01
