/-
  C01 — any source text is either executed or rejected with an error; never a crash.
  Property theorems: the operators of the model never reach a C-level hazard (first installment).
-/
import BlocV.Model.Ops

namespace BlocV.C01
open BlocV

/-- `+x` never reaches a hazard: it returns the operand or raises INV_EXPRESSION. -/
theorem pos_no_hazard (a : Val) : (evalUn .pos a).isHazard = false := by
  unfold evalUn
  split
  · rfl
  · split <;> first | rfl | (rename_i heq _; exact absurd heq (by decide)) | (rename_i heq; exact absurd heq (by decide))

end BlocV.C01
