/-
  C01 — any source text is either executed or rejected with an error; never a crash.

  Property theorems: the operators of the model (Model/Ops.lean: the transcription of the `value()` methods of
  blocc/operator/op_*.cpp) never reach a C-level hazard, for every operator and EVERY operand value — all nulls,
  typed nulls, tables, tuples, objects, every Int64, every byte string —, and neither does any expression tree
  built from them. Helper lemmas: Proofs/Lemmas/OpsCases.lean.

  The only hypothesis is the representation invariant `Val.tabOk` ("a table value carries a table type, level ≥ 1"),
  which every `bloc::Value` has by construction and which `Val` does not enforce; `evalBin_hazard_witness` shows
  that the model does reach a hazard on an ill-formed value, so the hypothesis is exactly what is needed.
-/
import BlocV.Proofs.Lemmas.OpsCases
import BlocV.Proofs.Lemmas.BuiltinCases
import BlocV.Proofs.Lemmas.NoHazardProgram
import BlocV.Proofs.Lemmas.NoHazardElab

namespace BlocV.C01
open BlocV

/-- `+x` never reaches a hazard: it returns the operand or raises INV_EXPRESSION. -/
theorem pos_no_hazard (a : Val) : (evalUn .pos a).isHazard = false := evalUn_no_hazard_all .pos a

/-- Unary operators (`-x`, `+x`, `~x`, `not x`; op_neg/op_pos/op_not/op_bnot.cpp): for EVERY operand value the
outcome is a value, INV_EXPRESSION, or an unmodelled complex cell — never a C-level hazard. No hypothesis at all:
the unary operators test `isNull()` before touching the payload. -/
theorem evalUn_no_hazard (op : UnOp) (a : Val) : (evalUn op a).isHazard = false := evalUn_no_hazard_all op a

example : evalUn .neg (.int (-9223372036854775808)) = .ok (.int (-9223372036854775808)) := by rfl
example : evalUn .not (.null Ty.none) = .ok (.null Ty.int) := rfl
example : evalUn .bnot (.tab { major := .int, level := 1 } [] [.int 1]) = .err Gen.EXC_RT_INV_EXPRESSION := rfl

/-- Binary operators (all 20: `+ - * / ** % & | ^ << >> == != < <= > >= and or xor`; op_*.cpp after the `fix:`
commits for overflow, INT64_MIN / −1, shift range and integer power): for EVERY pair of well-formed operand values
and either value of the aliasing flag, the outcome is a value, a BLOC runtime error or an unmodelled complex cell —
never a C-level hazard (no null-pointer dereference through a typed accessor, no signed overflow, no SIGFPE, no
undefined shift). -/
theorem evalBin_no_hazard (op : BinOp) (a b : Val) (same : Bool) (ha : a.tabOk = true) (hb : b.tabOk = true) :
    (evalBin op a b same).isHazard = false := by
  cases op
  case add => exact opAdd_no_hazard a b ha hb
  case sub => exact arith_no_hazard Ty.num (fun x y => .ok (Num.isub x y)) (fun x y => .ok (Num.fsub x y)) true a b (fun _ _ => rfl) (fun _ _ => rfl) ha hb
  case mul => exact arith_no_hazard Ty.num (fun x y => .ok (Num.imul x y)) (fun x y => .ok (Num.fmul x y)) true a b (fun _ _ => rfl) (fun _ _ => rfl) ha hb
  case div => exact arith_no_hazard Ty.num Num.idiv fdivChecked true a b idiv_no_hazard fdivChecked_no_hazard ha hb
  case exp => exact arith_no_hazard Ty.num Num.ipow (fun x y => .ok (Num.fpow x y)) true a b ipow_no_hazard (fun _ _ => rfl) ha hb
  case mod => exact arith_no_hazard Ty.none Num.imod fmodChecked false a b imod_no_hazard fmodChecked_no_hazard ha hb
  case and => exact bitwise_no_hazard _ a b ha hb
  case ior => exact bitwise_no_hazard _ a b ha hb
  case xor => exact bitwise_no_hazard _ a b ha hb
  case pop => exact bitwise_no_hazard _ a b ha hb
  case pus => exact bitwise_no_hazard _ a b ha hb
  case eq => rcases opEq_total same a b with ⟨v, h, _⟩ | h <;> simp only [evalBin, h] <;> rfl
  case ne => rcases opNe_total same a b with ⟨v, h, _⟩ | h <;> simp only [evalBin, h] <;> rfl
  case lt => exact ordered_no_hazard _ _ _ a b ha hb
  case le => exact ordered_no_hazard _ _ _ a b ha hb
  case gt => exact ordered_no_hazard _ _ _ a b ha hb
  case ge => exact ordered_no_hazard _ _ _ a b ha hb
  case band => exact opBand_no_hazard a (fun _ => .ok b) rfl
  case bior => exact opBior_no_hazard a (fun _ => .ok b) rfl
  case bxor => exact opBxor_no_hazard a b

example : evalBin .add (.int 9223372036854775807) (.int 1) = .ok (.int (-9223372036854775808)) := by rfl
example : evalBin .div (.int (-9223372036854775808)) (.int (-1)) = .ok (.int (-9223372036854775808)) := by rfl
example : evalBin .pop (.int 1) (.int 64) = .ok (.int 0) := by rfl
example : evalBin .mod (.int 1) (.int 0) = .err Gen.EXC_RT_DIVIDE_BY_ZERO := by rfl
example : evalBin .lt (.null Ty.int) (.str [97]) = .ok (.null Ty.bool) := rfl
example : (Val.null Ty.int).tabOk = true ∧ (Val.tab { major := .int, level := 1 } [] [.int 1]).tabOk = true := ⟨rfl, rfl⟩

/-- The hypothesis of `evalBin_no_hazard` cannot be dropped: on an ill-formed "table of level 0" — a value no
`bloc::Value` can be — the model's typed accessor falls through to its null-pointer branch. (A fact about the
model's value type, not about the C++: see NOTES-p0102.) -/
theorem evalBin_hazard_witness :
    (Val.tab Ty.int [] []).tabOk = false ∧ evalBin .lt (.tab Ty.int [] []) (.int 0) = .haz .nullDeref ∧
    evalBin .add (.tab Ty.int [] []) (.int 0) = .haz .nullDeref := ⟨rfl, rfl, rfl⟩

/-- `== != and or xor` do not use a typed accessor: no hazard for ANY operands, ill-formed ones included. -/
theorem evalBin_no_hazard_unconditional (op : BinOp) (hop : op = .eq ∨ op = .ne ∨ op = .band ∨ op = .bior ∨ op = .bxor)
    (a b : Val) (same : Bool) : (evalBin op a b same).isHazard = false := by
  rcases hop with rfl | rfl | rfl | rfl | rfl
  · rcases opEq_total same a b with ⟨v, h, _⟩ | h <;> simp only [evalBin, h] <;> rfl
  · rcases opNe_total same a b with ⟨v, h, _⟩ | h <;> simp only [evalBin, h] <;> rfl
  · exact opBand_no_hazard a (fun _ => .ok b) rfl
  · exact opBior_no_hazard a (fun _ => .ok b) rfl
  · exact opBxor_no_hazard a b

example : evalBin .eq (.tab Ty.int [] []) (.int 0) = .ok (.bool false) := rfl

/-- Laziness does not matter: `and` / `or` with an arbitrary computation as second operand reach a hazard only if
that computation does. -/
theorem logic_lazy_no_hazard (a : Val) (t : Unit → Res Val) (h : (t ()).isHazard = false) :
    (opBand a t).isHazard = false ∧ (opBior a t).isHazard = false :=
  ⟨opBand_no_hazard a t h, opBior_no_hazard a t h⟩

/-- Results stay well-formed: whatever a binary / unary operator returns is again a value satisfying the
representation invariant (it is one of the operands, a null of the second operand's type, or a fresh scalar). -/
theorem evalBin_ok_tabOk (op : BinOp) (a b v : Val) (same : Bool) (ha : a.tabOk = true) (hb : b.tabOk = true)
    (h : evalBin op a b same = .ok v) : v.tabOk = true :=
  (evalBin_prov op a b same v h).tabOk ha hb

theorem evalUn_ok_tabOk (op : UnOp) (a v : Val) (ha : a.tabOk = true) (h : evalUn op a = .ok v) : v.tabOk = true := by
  rcases evalUn_prov op a v h with rfl | h
  · exact ha
  · exact Val.tabOk_of_wf (fresh_wf h)

example : evalBin .add (.null Ty.none) (.str [97]) = .ok (.str [97]) := rfl

/-- **Lifting to expression trees.** An expression built from constants, variables and the unary / binary operators
(`LExpr`, evaluated by the value-level evaluator `LExpr.pure` of Model/Store.lean, `and`/`or` short-circuiting as in
op_band.cpp / op_bior.cpp), over variable and constant cells holding well-formed values, never reaches a hazard —
and its value, when there is one, is well-formed again. For ALL expression trees and ALL such environments. -/
theorem pure_no_hazard (vars csts : List Val) (hv : ∀ v ∈ vars, v.tabOk = true) (hc : ∀ v ∈ csts, v.tabOk = true)
    (e : LExpr) :
    (LExpr.pure vars csts e).isHazard = false ∧ ∀ v, LExpr.pure vars csts e = .ok v → v.tabOk = true := by
  induction e with
  | cst i =>
    refine ⟨rfl, fun v h => ?_⟩
    simp only [LExpr.pure, Res.ok.injEq] at h
    subst h
    exact getD_tabOk csts i hc
  | var i =>
    refine ⟨rfl, fun v h => ?_⟩
    simp only [LExpr.pure, Res.ok.injEq] at h
    subst h
    exact getD_tabOk vars i hv
  | un op e ih =>
    simp only [LExpr.pure]
    cases he : LExpr.pure vars csts e with
    | ok v1 =>
      have h1 := ih.2 v1 he
      exact ⟨evalUn_no_hazard op v1, fun v h => evalUn_ok_tabOk op v1 v h1 h⟩
    | err c x => exact ⟨rfl, fun v h => by cases h⟩
    | haz h => rw [he] at ih; exact absurd ih.1 (by simp [Res.isHazard])
    | unmodelled => exact ⟨rfl, fun v h => by cases h⟩
  | bin op a b iha ihb =>
    simp only [LExpr.pure]
    cases hea : LExpr.pure vars csts a with
    | ok v1 =>
      have h1 := iha.2 v1 hea
      simp only []
      split
      · exact ⟨evalBin_no_hazard op v1 _ false h1 rfl, fun v h => evalBin_ok_tabOk op v1 _ v false h1 rfl h⟩
      · cases heb : LExpr.pure vars csts b with
        | ok v2 =>
          have h2 := ihb.2 v2 heb
          exact ⟨evalBin_no_hazard op v1 v2 false h1 h2, fun v h => evalBin_ok_tabOk op v1 v2 v false h1 h2 h⟩
        | err c x => exact ⟨rfl, fun v h => by cases h⟩
        | haz h => rw [heb] at ihb; exact absurd ihb.1 (by simp [Res.isHazard])
        | unmodelled => exact ⟨rfl, fun v h => by cases h⟩
    | err c x => exact ⟨rfl, fun v h => by cases h⟩
    | haz h => rw [hea] at iha; exact absurd iha.1 (by simp [Res.isHazard])
    | unmodelled => exact ⟨rfl, fun v h => by cases h⟩

example : LExpr.pure [.int 5] [.null Ty.none, .int 1] (.bin .add (.cst 1) (.un .neg (.var 0))) = .ok (.int (-4)) := by rfl


/-! ### built-in functions (Model/Builtins.lean, run in the `Res` monad) -/

/-- **Built-ins never reach a hazard** — EVERY modelled built-in: `substr subraw lsubstr rsubstr strpos replace trim ltrim
rtrim upper lower strlen tokenize hex hash chr raw int b64enc b64dec str abs pow`. For ANY number of arguments, each an
arbitrary computation that does not itself reach a hazard and whose value is well-formed (`ArgsOk`), the outcome is a
value, a BLOC runtime error or an unmodelled cell, never a hazard: no typed accessor is applied to a null
(fix "null_number_builtins"), every decimal→integer conversion is range-checked (`castToInt`; `int(decimal)`:
`intOfDecimal_no_hazard`, fix "int_of_decimal_range"), and the signed index arithmetic of `substr`/`subraw` (`a + c`,
`c - a`) and of `hex` (`n += 1`) cannot overflow (fixes e2c4824: a position still negative after adding the length
selects nothing; cbe22cc: pad count clamped to 16), `abs` negates in `uint64_t` (fde74fa) and `pow(integer, integer)`
is the exact `Num.ipow` of the `**` operator (eec6e8e). No built-in is excluded any more (this was
`evalBuiltin_no_hazard_partial`, which left out `substr`, `subraw`, `hex`; `abs` and `pow` were not modelled). The only
additional hypothesis, needed by `substr`/`subraw` alone, is that the length of a string / byte array fits the `int64_t`
it is stored into (`ArgsLen`), as every `size()` does. -/
theorem evalBuiltin_no_hazard (fmt : Num.F64 → Bytes) (name : String) (args : List (Res Val)) (r : Res Val)
    (h : ArgsOk args) (hl : name = "substr" ∨ name = "subraw" → ArgsLen args)
    (hr : evalBuiltin (m := Res) fmt name args = some r) : r.isHazard = false :=
  evalBuiltin_no_hazard_of fmt name args r h hl hr

example : evalBuiltin (m := Res) (fun _ => []) "chr" [.ok (.num 0x7ff8000000000000)] = some (.err Gen.EXC_RT_OUT_OF_RANGE) := rfl
example : ArgsOk [.ok (.null Ty.num), .err 5 []] := by
  intro t ht
  simp only [List.mem_cons, List.mem_nil_iff, or_false] at ht
  rcases ht with rfl | rfl
  · exact ⟨rfl, fun v hv => by cases hv; rfl⟩
  · exact ⟨rfl, fun v hv => by cases hv⟩
example : ArgsOk [.ok (.str [97, 98]), .ok (.int (-9223372036854775808))] ∧
    ArgsLen [.ok (.str [97, 98]), .ok (.int (-9223372036854775808))] := by
  constructor
  · intro t ht
    simp only [List.mem_cons, List.mem_nil_iff, or_false] at ht
    rcases ht with rfl | rfl <;> exact ⟨rfl, fun v hv => by cases hv; rfl⟩
  · intro t ht v hv
    simp only [List.mem_cons, List.mem_nil_iff, or_false] at ht
    rcases ht with rfl | rfl <;> (cases hv; rfl)

/-- The former witnesses of the three overflow findings (C01.bi.substr.overflow, C01.bi.subraw.overflow,
C01.bi.hex.overflow) and of C01.bi.abs.overflow / C01.bi.pow.floatcast now return values — in the model exactly as
in the repaired build: a begin position of INT64_MIN selects nothing, a pad count of INT64_MAX pads to 16 digits,
abs(INT64_MIN) wraps to INT64_MIN, pow(INT64_MAX, 5) is (2^63 − 1)^5 mod 2^64. (This was `evalBuiltin_hazard_witness`,
which showed `.haz .signedOverflow` for the first three.) -/
theorem evalBuiltin_repaired_witnesses :
    biSubstr (m := Res) [.ok (.str [97, 98]), .ok (.int (-9223372036854775808))] = .ok (.str []) ∧
    biSubraw (m := Res) [.ok (.raw [97, 98]), .ok (.int (-9223372036854775808))] = .ok (.raw []) ∧
    biHex (m := Res) [.ok (.int 0), .ok (.int 9223372036854775807)] = .ok (.str (List.replicate 16 48)) ∧
    biAbs (m := Res) [.ok (.int (-9223372036854775808))] = .ok (.int (-9223372036854775808)) ∧
    biPow (m := Res) [.ok (.int 9223372036854775807), .ok (.int 5)] = .ok (.int 9223372036854775807) :=
  ⟨rfl, rfl, rfl, rfl, rfl⟩

example : (biSubstr (m := Res) [.ok (.str [97, 98]), .ok (.int (-9223372036854775808))]).isHazard = false := by
  rw [evalBuiltin_repaired_witnesses.1]; rfl

/-- `int(decimal)` (builtin_int.cpp after the repair of the range test): the hazard branch of the model — the C cast
of a non-finite double — is unreachable, for every bit pattern. -/
theorem int_of_decimal_no_hazard (b : Num.F64) : (Num.intOfDecimal b).isHazard = false := intOfDecimal_no_hazard b

example : Num.intOfDecimal 0x7ff0000000000000 = .err Gen.EXC_RT_OUT_OF_RANGE := by decide
example : Num.intOfDecimal 0xc3e0000000000000 = .ok (-9223372036854775808) := by decide


/-! ### whole programs (Model/Interp.lean): statements, loops, blocks, calls, tables, members, `forall`, the error record

The theorems below are about the value-level interpreter as a whole — `execList` = `Executable::run`, and every function it is
mutually recursive with — not about single nodes. Helper lemmas: Proofs/Lemmas/NoHazardInterp.lean (the Hoare-style predicate
`NH`, every built-in run IN the interpreter's monad), NoHazardMembers.lean, NoHazardCalls.lean, NoHazardState.lean (the invariant
`WfSt`), NoHazardLoops.lean, NoHazardExec.lean (the mutual induction `nh_all`), NoHazardProgram.lean.

Hypotheses, all of them facts the C++ guarantees by construction and that the model's types do not enforce:
  * `WfSt s` — every value held by a variable / saved by `return` / kept as the private copy of a traversed temporary is
    deep-well-formed (`okVal`: every table anywhere inside carries a table type, every tuple has as many items as its declaration),
    every running `forall` points inside its table, iterator names on the control stack are distinct. True of the initial state
    (`wf_init`) and PRESERVED (second conjunct of the theorems = `wf_preserved`).
  * `lockL L prog` — the parser accepted the text while the names `L` were locked (`Parser::parse` refuses with CONST_VIOLATION
    otherwise; `lockProgram` for a whole program), `SrcIn L s` — the table variables being traversed are among them.
  * `litL prog` / `litProgram prog` — the literals of the program are well-formed values; `FuncsOk funcs` — the same two facts for
    every function of the table (derived for `collectFuncs prog` in `run_no_hazard_partial`).
What is NOT excluded: no construct of `Expr` / `Stmt` is — operators, all 53 built-in names of `evalBuiltin` plus `tab` / `tup`,
members on tables / strings / bytes / tuples / nulls, `@N`, `error`, user functions with the recursion limit, `begin … when`,
`raise`, `for` (the re-entry `cur + step` is computed without wrap-around), `while`, `forall` over a variable and over a temporary
with write-through, `print`, `if`, `return` / `break` / `continue`; every fuel, every depth, every budget. -/

/-- the hazards that count in the `_partial` theorems: every one except `signedOverflow` -/
def notOverflow (h : Hazard) : Bool := h != .signedOverflow

/-- the initial state of a run is well-formed -/
theorem wf_init : NHI.WfSt {} := NHI.wfSt_init

/-- **Built-ins inside the interpreter**: EVERY name `evalBuiltin` dispatches (the 23 of `evalBuiltin_no_hazard` and the 30 of the
second table: num isnum bool isnull typeof sign floor ceil sqrt exp log log10 sin cos tan asin acos atan sinh cosh tanh round max min
mod atan2 clamp pi ee phi), run in the interpreter's monad with ARBITRARY computations as argument thunks (each keeping an
invariant `I` of the state, reaching no hazard that counts and returning deep-well-formed values): no hazard that counts, `I` kept,
a deep-well-formed result. For `substr` / `subraw` the hazards that count must leave out `signedOverflow`. -/
theorem builtins_in_interp_no_hazard (bad : Hazard → Bool) (I : St → Prop) (fmt : Num.F64 → Bytes) (name : String)
    (hb : bad .signedOverflow = false ∨ (name ≠ "substr" ∧ name ≠ "subraw"))
    (args : List (EvalM Val)) (h : NHI.NArgs bad I args) (r : EvalM Val)
    (hr : evalBuiltin (m := EvalM) fmt name args = some r) : NHI.NH bad I NHI.okV r :=
  NHI.evalBuiltin_nh hb fmt args h r hr

/-- **`exec_no_hazard_partial`** — never a crash, for whole statement lists. For EVERY function table, lock set, depth, fuel,
statement list and state satisfying the hypotheses above: the run does not end in a hazard other than `signedOverflow`, and the final
state is well-formed again (`wf_preserved`). By mutual induction over eval / callFunc / evalArgs / execBlock / execList / exec /
evalPrint / execIf and the three loop runners (`NHI.nh_all`).

`_partial` because of ONE residual hazard, kept in the conclusion rather than excluded by a syntactic side condition: the signed index
arithmetic of `substr` / `subraw` (`a + c`, `c - a` on `int64_t c = size()`), which the model reaches on a string / byte array of
2^63 bytes or more. The full statement

    theorem exec_no_hazard … : (execList funcs depth fuel prog s).1.isHazard = false ∧ WfSt (execList funcs depth fuel prog s).2

is FALSE of the model: `Val.str` is an unbounded list, 63 doublings `s = s + s` build such a string within any budget ≥ 64, and then
`substr(s, -1)` computes `sadd (-1) (Int64.ofNat (2^63))` = `.haz .signedOverflow`. It is not a defect of the library (no process
holds 2^63 bytes: the doublings end in `std::bad_alloc` / `length_error` long before), and the witness cannot be evaluated
(`decide +kernel` on a list of 2^63 elements) nor run. The invariant that would exclude it ("every string is shorter than 2^63") is
not preserved by the model's `+`, `replace`, `concat`, `b64enc`, which is why it is not part of `WfSt`. -/
theorem exec_no_hazard_partial (funcs : List Func) (hF : NHI.FuncsOk true funcs) (L : List String) (depth fuel : Nat) (prog : List Stmt) (s : St)
    (hl : lockL L prog = true) (hv : NHI.litL true prog = true) (hs : NHI.WfSt s) (hsrc : NHI.SrcIn L s) :
    (∀ h, (execList funcs depth fuel prog s).1 = .haz h → h = .signedOverflow) ∧
    NHI.WfSt (execList funcs depth fuel prog s).2 := by
  have h := (NHI.nh_all (bad := notOverflow) (sub := true) (.inl rfl) funcs hF fuel).2.2.2.2.1 L depth prog hl hv s ⟨hs, hsrc⟩
  refine ⟨fun x e => ?_, h.2.1.1⟩
  have := h.1 x e
  simpa [notOverflow] using this

/-- the same for one expression: its value, when there is one, is deep-well-formed -/
theorem eval_no_hazard_partial (funcs : List Func) (hF : NHI.FuncsOk true funcs) (L : List String) (depth fuel : Nat) (e : Expr) (s : St)
    (hl : lockE L e = true) (hv : NHI.litE true e = true) (hs : NHI.WfSt s) (hsrc : NHI.SrcIn L s) :
    (∀ h, (eval funcs depth fuel e s).1 = .haz h → h = .signedOverflow) ∧
    NHI.WfSt (eval funcs depth fuel e s).2 ∧ ∀ v, (eval funcs depth fuel e s).1 = .ok v → NHI.okVal v = true := by
  have h := (NHI.nh_all (bad := notOverflow) (sub := true) (.inl rfl) funcs hF fuel).1 L depth e hl hv s ⟨hs, hsrc⟩
  refine ⟨fun x e => ?_, h.2.1.1, h.2.2⟩
  have := h.1 x e
  simpa [notOverflow] using this

-- the hypotheses are satisfiable by a program that fills a table, traverses it writing through the iterator, calls members:
example : lockL [] [.letS "t" (.call "tab" [.lit (.int 2), .lit (.int 7)]),
    .forallS "e" (.var "t") .auto [.letS "e" (.bin .add (.var "e") (.lit (.int 1)))],
    .doS (.member .concat (.var "t") [.lit (.int 9)])] = true := by decide
example : NHI.litL true [.letS "t" (.call "tab" [.lit (.int 2), .lit (.int 7)]),
    .forallS "e" (.var "t") .auto [.letS "e" (.bin .add (.var "e") (.lit (.int 1)))],
    .doS (.member .concat (.var "t") [.lit (.int 9)])] = true := by
  simp [NHI.litL, NHI.litS, NHI.litE, NHI.litEs]
example : NHI.FuncsOk true [] ∧ NHI.SrcIn [] {} := ⟨fun _ h => (by cases h), fun _ h => (by cases h)⟩
/-- The lock hypothesis cannot be dropped: a body that deletes from the table it traverses — which `Parser::parse` refuses with
CONST_VIOLATION (`lockProgram = false`) — leaves the iterator pointing past the end, and reading it is the model's hazard `oob`.
Literals are fine and the state is the initial one, so `lockProgram` is the only hypothesis of `run_no_hazard_partial` that fails.
(A test on one program, by kernel evaluation.) -/
theorem lock_hypothesis_needed :
    let prog : List Stmt := [.letS "t" (.call "tab" [.lit (.int 2), .lit (.int 7)]),
      .forallS "e" (.var "t") .auto [.doS (.member .delete (.var "t") [.lit (.int 0)]),
        .doS (.member .delete (.var "t") [.lit (.int 0)]), .doS (.var "e")]]
    lockProgram prog = false ∧ NHI.litProgram true prog = true ∧
    (match (runProgram 20 prog).outcome with | .haz .oob => true | _ => false) = true := by decide +kernel

/-- **`run_no_hazard_partial`** — the same for `runProgram` = `Parser::parse` + `Executable::run` of a WHOLE program: function
table collected from the program, symbols registered as typed nulls, top-level statement list run at depth 0. The only hypotheses
left are that the parser accepted the program under the lock discipline (`lockProgram`), that its literals are well-formed
(`litProgram`) and that the state the run starts from is well-formed with no `forall` running. -/
theorem run_no_hazard_partial (fuel : Nat) (prog : List Stmt) (init : St)
    (hl : lockProgram prog = true) (hv : NHI.litProgram true prog = true) (hs : NHI.WfSt init) (hi : init.iters = []) :
    (∀ h, (runProgram fuel prog init).outcome = .haz h → h = .signedOverflow) ∧ NHI.WfSt (runProgram fuel prog init).st := by
  have h := NHI.run_nb (bad := notOverflow) (sub := true) (.inl rfl) fuel prog init hl hv hs hi
  exact ⟨fun x e => by simpa [notOverflow] using h.1 x e, h.2⟩

example : lockProgram [.funcS "f" [("x", Ty.int)] Ty.int [.returnS (some (.bin .mul (.var "x") (.lit (.int 2))))] [],
    .printS [.fcall "f" [.lit (.int 21)]]] = true ∧
    NHI.litProgram true [.funcS "f" [("x", Ty.int)] Ty.int [.returnS (some (.bin .mul (.var "x") (.lit (.int 2))))] [],
    .printS [.fcall "f" [.lit (.int 21)]]] = true := ⟨by decide, by simp [NHI.litProgram, NHI.litL, NHI.litS, NHI.litE, NHI.litEs, NHI.litCatches]⟩


/-! ### full strength for programs that never call `substr` / `subraw`; whole source texts

`NHI.litL false prog` (`NHI.litProgram false prog`) is `NHI.litL true prog` plus: no node `call "substr" …` / `call "subraw" …` anywhere
in the program, function bodies included. For such programs the `signedOverflow` escape is gone. -/

/-- **`exec_no_hazard`** — the full statement, for every statement list that never calls `substr` / `subraw`: no hazard at all. -/
theorem exec_no_hazard (funcs : List Func) (hF : NHI.FuncsOk false funcs) (L : List String) (depth fuel : Nat) (prog : List Stmt) (s : St)
    (hl : lockL L prog = true) (hv : NHI.litL false prog = true) (hs : NHI.WfSt s) (hsrc : NHI.SrcIn L s) :
    (execList funcs depth fuel prog s).1.isHazard = false ∧ NHI.WfSt (execList funcs depth fuel prog s).2 := by
  have h := (NHI.nh_all (bad := fun _ => true) (sub := false) (.inr rfl) funcs hF fuel).2.2.2.2.1 L depth prog hl hv s ⟨hs, hsrc⟩
  exact ⟨NHI.nb_all h.1, h.2.1.1⟩

/-- **`run_no_hazard`** — the same for `runProgram` of a whole program. -/
theorem run_no_hazard (fuel : Nat) (prog : List Stmt) (init : St)
    (hl : lockProgram prog = true) (hv : NHI.litProgram false prog = true) (hs : NHI.WfSt init) (hi : init.iters = []) :
    (runProgram fuel prog init).outcome.isHazard = false ∧ NHI.WfSt (runProgram fuel prog init).st := by
  have h := NHI.run_nb (bad := fun _ => true) (sub := false) (.inr rfl) fuel prog init hl hv hs hi
  refine ⟨?_, h.2⟩
  cases ho : (runProgram fuel prog init).outcome with
  | haz x => exact absurd (h.1 x ho) (by simp)
  | _ => rfl

example : lockL [] [.letS "t" (.call "tab" [.lit (.int 2), .lit (.int 7)]), .doS (.call "strlen" [.lit (.str [97])])] = true ∧
    NHI.litL false [.letS "t" (.call "tab" [.lit (.int 2), .lit (.int 7)]), .doS (.call "strlen" [.lit (.str [97])])] = true ∧
    NHI.litL false [.doS (.call "substr" [.lit (.str [97]), .lit (.int 0)])] = false ∧
    NHI.litL true [.doS (.call "substr" [.lit (.str [97]), .lit (.int 0)])] = true := by
  refine ⟨by decide, ?_, ?_, ?_⟩ <;> simp [NHI.litL, NHI.litS, NHI.litE, NHI.litEs]

/-- **`elab_wf`** — the elaborator only produces programs whose literals satisfy the invariant: every `Expr.lit` it emits is an
integer, a decimal, a string, `true` / `false`, `null` or the typed null of `int()` `num()` `bool()` `str()` `raw()`. For EVERY parse
tree (`Parse.PStmt` list) it accepts. -/
theorem elab_wf (p : List Parse.PStmt) (prog : List Stmt) (h : Elab.elabProgram p = .ok prog) : NHI.litProgram true prog = true :=
  NHI.litProgram_of_litL prog (NHI.elabBlock_lit p prog h)

/-- **`text_no_hazard_partial`** — never a crash, for whole SOURCE TEXTS. The theorem is about `Stepwise.runText fuel src`
(Model/Stepwise.lean; what the driver's `src` command answers): the bytes through the reader + scanner + parser models
(`Parse.parseText`), the elaborator (`Elab.elabProgram`), the compile pass of `Stepwise.runBatch` (expression acceptance, `$` /
iterator constraints, FOR bounds), the parse-time lock (`lockProgram`), then `runProgram` from the initial state. For EVERY byte
list and every fuel the answer is one of
  * `rejected code` — a parse error of the scanner / parser (or a pseudo code of Model/Parse.lean: out of fuel, import / include,
    foreign exception in the parser — the last one is the model's way of saying "`std::stoul` threw": it is an outcome here, not a
    hazard, and no current text reaches it since 7b31e38),
  * `unsupported what` — the text parses but holds a construct the interpreter model has no node for (`matches`, `set@`, `trace`,
    `put`, typed declarations, unknown built-ins / members / constants / declared types): the explicit fourth outcome,
  * `ran r` with `r.outcome = perr code` (refused by the compile pass or the lock) or `r.outcome = ran o` with `o` a value, a runtime
    error (out of fuel included), `unmodelled`, or — the only hazard left — `haz signedOverflow` (see `exec_no_hazard_partial`).
No hypothesis: well-formedness of the literals is `elab_wf`, the lock is tested by `runBatch`, the initial state is `wf_init`. -/
theorem text_no_hazard_partial (fuel : Nat) (src : Bytes) (r : Stepwise.Result) (hr : Stepwise.runText fuel src = .ran r)
    (h : Hazard) (hh : r.outcome = .ran (.haz h)) : h = .signedOverflow := by
  have := NHI.runText_nb (bad := notOverflow) (sub := true) (.inl rfl) fuel src (fun prog hp => NHI.frontEnd_lit src prog hp) r hr h hh
  simpa [notOverflow] using this

/-- **`text_no_hazard`** — the full statement for texts whose elaborated program never calls `substr` / `subraw`: no hazard. -/
theorem text_no_hazard (fuel : Nat) (src : Bytes)
    (hsub : ∀ prog, Elab.frontEnd src = .ok (.ok prog) → NHI.litProgram false prog = true)
    (r : Stepwise.Result) (hr : Stepwise.runText fuel src = .ran r) (h : Hazard) : r.outcome ≠ .ran (.haz h) := by
  intro hh
  have := NHI.runText_nb (bad := fun _ => true) (sub := false) (.inr rfl) fuel src hsub r hr h hh
  simp at this

/-- The three kinds of answer of `runText` that reach the compile pass are inhabited (tests by kernel evaluation of the whole
pipeline on the bytes of three texts): a text with a `forall` writing through its iterator runs to completion; the text that deletes
from the table it traverses is REFUSED with CONST_VIOLATION (before the repair of the front end it was run and ended in the hazard
`oob`: the witness of `lock_hypothesis_needed`); a text calling `substr` is outside the hypothesis of `text_no_hazard` and inside that
of `text_no_hazard_partial`. -/
theorem text_examples :
    (match Stepwise.runText 200 [116, 32, 61, 32, 116, 97, 98, 40, 50, 44, 32, 55, 41, 59, 10, 102, 111, 114, 97, 108, 108, 32, 101, 32, 105, 110, 32, 116, 32, 108, 111, 111, 112, 10, 32, 101, 32, 61, 32, 101, 32, 43, 32, 49, 59, 10, 101, 110, 100, 32, 108, 111, 111, 112, 59, 10, 112, 114, 105, 110, 116, 32, 116, 46, 97, 116, 40, 48, 41, 59, 10] with | .ran r => r.outcome.ranOk | _ => false) = true ∧
    (match Stepwise.runText 200 [116, 32, 61, 32, 116, 97, 98, 40, 50, 44, 32, 55, 41, 59, 10, 102, 111, 114, 97, 108, 108, 32, 101, 32, 105, 110, 32, 116, 32, 108, 111, 111, 112, 10, 32, 116, 46, 100, 101, 108, 101, 116, 101, 40, 48, 41, 59, 10, 32, 112, 114, 105, 110, 116, 32, 101, 59, 10, 101, 110, 100, 32, 108, 111, 111, 112, 59, 10] with | .ran r => r.outcome.perrCode | _ => none) = some Gen.EXC_PARSE_CONST_VIOLATION_S ∧
    (match Elab.frontEnd [112, 114, 105, 110, 116, 32, 115, 117, 98, 115, 116, 114, 40, 34, 104, 101, 108, 108, 111, 34, 44, 32, 49, 44, 32, 51, 41, 59, 10] with | .ok (.ok prog) => (NHI.litProgram false prog, NHI.litProgram true prog) | _ => (true, false)) = (false, true) ∧
    (match Elab.frontEnd [116, 32, 61, 32, 116, 97, 98, 40, 50, 44, 32, 55, 41, 59, 10, 102, 111, 114, 97, 108, 108, 32, 101, 32, 105, 110, 32, 116, 32, 108, 111, 111, 112, 10, 32, 101, 32, 61, 32, 101, 32, 43, 32, 49, 59, 10, 101, 110, 100, 32, 108, 111, 111, 112, 59, 10, 112, 114, 105, 110, 116, 32, 116, 46, 97, 116, 40, 48, 41, 59, 10] with | .ok (.ok prog) => NHI.litProgram false prog | _ => false) = true := by
  decide +kernel

end BlocV.C01
