/-
  Line protocol of the correspondence check (DESIGN.md Appendix A): canonical text of types,
  values and outcomes, shared with harness/blocprobe.cpp. Driver glue — not part of the model and
  not used by any theorem (`partial` is allowed here and in Main.lean only).
-/
import BlocV.Model.Ops

namespace BlocV.Proto
open BlocV

def hexDigit (n : Nat) : Char := if n < 10 then Char.ofNat (48 + n) else Char.ofNat (87 + n)

def hexOfBytes (b : Bytes) : String :=
  String.ofList (b.foldr (fun c acc => hexDigit (c.toNat / 16) :: hexDigit (c.toNat % 16) :: acc) [])

def hexVal (c : Char) : Nat :=
  if c.isDigit then c.toNat - 48 else if 'a' ≤ c ∧ c ≤ 'f' then c.toNat - 87
  else if 'A' ≤ c ∧ c ≤ 'F' then c.toNat - 55 else 0

def bytesOfHexChars : List Char → Bytes
  | a :: b :: r => UInt8.ofNat (hexVal a * 16 + hexVal b) :: bytesOfHexChars r
  | _ => []

def bytesOfHex (s : String) : Bytes := bytesOfHexChars s.toList

def hex16 (u : UInt64) : String :=
  String.ofList ((List.range 16).map fun i => hexDigit ((u.toNat >>> (4 * (15 - i))) % 16))

def u64OfHexChars (cs : List Char) : UInt64 :=
  UInt64.ofNat (cs.foldl (fun a c => a * 16 + hexVal c) 0)

def majorLetter : Major → Char
  | .none => '?' | .bool => 'b' | .int => 'i' | .num => 'd' | .str => 's' | .obj => 'o'
  | .raw => 'r' | .tup => 'u' | .ptr => 'p' | .imag => 'c'

def majorOfLetter : Char → Option Major
  | '?' => some .none | 'b' => some .bool | 'i' => some .int | 'd' => some .num | 's' => some .str
  | 'o' => some .obj | 'r' => some .raw | 'u' => some .tup | 'p' => some .ptr | 'c' => some .imag
  | _ => none

def tyStrSimple (t : Ty) : String :=
  let base := String.singleton (majorLetter t.major) ++ toString t.level
  match t.major with
  | .tup => base ++ "#" ++ toString t.minor
  | .obj => base ++ ":" ++ toString t.minor
  | _ => base

/-- A type with its tuple declaration when the C++ object carries one. -/
def tyStr (t : Ty) (decl : List Ty) : String :=
  if t.major == .tup && !decl.isEmpty then
    String.singleton 'u' ++ toString t.level ++ "{" ++ ",".intercalate (decl.map tyStrSimple) ++ "}"
  else tyStrSimple t

partial def valStr : Val → String
  | .null t => "N:" ++ tyStrSimple t
  | .bool b => if b then "B:1" else "B:0"
  | .int i => "I:" ++ toString i.toInt
  | .num d => "D:" ++ hex16 (if Num.isNaN d then Num.canonNaN else d)
  | .imag a b => "C:" ++ hex16 a ++ "," ++ hex16 b
  | .str s => "S:" ++ hexOfBytes s
  | .raw s => "R:" ++ hexOfBytes s
  | .tup decl items => "U" ++ tyStr (makeTupleTy decl 0) decl ++ "(" ++ ",".intercalate (items.map valStr) ++ ")"
  | .tab t decl elems => "T" ++ tyStr t decl ++ "[" ++ ",".intercalate (elems.map valStr) ++ "]"
  | .obj tid id => "O:" ++ toString tid ++ "#" ++ toString id

def resStr : Res Val → String
  | .ok v => "ok " ++ valStr v
  | .err c a => if c == Gen.EXC_RT_USER_S then "rerr " ++ toString c ++ " " ++ hexOfBytes a else "rerr " ++ toString c
  | .haz h => "hazard " ++ (match h with
      | .nullDeref => "nullDeref" | .signedOverflow => "signedOverflow" | .divOverflow => "divOverflow"
      | .shiftRange => "shiftRange" | .floatToInt => "floatToInt" | .foreignException => "foreignException"
      | .diverges => "diverges" | .oob => "oob")
  | .unmodelled => "unmodelled"

/-! ### parsing -/

abbrev P (α : Type) := List Char → Option (α × List Char)

def takeWhileP (p : Char → Bool) : List Char → List Char × List Char
  | [] => ([], [])
  | c :: r => if p c then let (a, b) := takeWhileP p r; (c :: a, b) else ([], c :: r)

def natOfChars (cs : List Char) : Nat := cs.foldl (fun a c => a * 10 + (c.toNat - 48)) 0

def pNat : P Nat := fun cs =>
  let (d, r) := takeWhileP Char.isDigit cs
  if d.isEmpty then none else some (natOfChars d, r)

def pInt : P Int := fun cs =>
  match cs with
  | '-' :: r => (pNat r).map fun (n, r') => (-(n : Int), r')
  | _ => (pNat cs).map fun (n, r') => ((n : Int), r')

/-- `<letter><level>[#minor|:minor]` (no braces). -/
def pTySimple : P Ty := fun cs =>
  match cs with
  | c :: r =>
    match majorOfLetter c with
    | none => none
    | some m =>
      match pNat r with
      | none => none
      | some (lv, r1) =>
        match r1 with
        | '#' :: r2 => (pNat r2).map fun (mi, r3) => ({ major := m, minor := mi, level := lv }, r3)
        | ':' :: r2 => if m == .obj then (pNat r2).map fun (mi, r3) => ({ major := m, minor := mi, level := lv }, r3)
                       else some ({ major := m, level := lv }, r1)
        | _ => some ({ major := m, level := lv }, r1)
  | [] => none

partial def pTyList : P (List Ty) := fun cs =>
  match pTySimple cs with
  | none => some ([], cs)
  | some (t, r) =>
    match r with
    | ',' :: r' => (pTyList r').map fun (ts, r'') => (t :: ts, r'')
    | _ => some ([t], r)

/-- A type possibly followed by a `{decl}`; returns the type (minor recomputed from the decl) and the decl. -/
def pTy : P (Ty × List Ty) := fun cs =>
  match cs with
  | 'u' :: r =>
    match pNat r with
    | none => none
    | some (lv, r1) =>
      match r1 with
      | '{' :: r2 =>
        match pTyList r2 with
        | some (decl, '}' :: r3) => some ((makeTupleTy decl lv, decl), r3)
        | _ => none
      | '#' :: r2 => (pNat r2).map fun (mi, r3) => (({ major := .tup, minor := mi, level := lv }, []), r3)
      | _ => some (({ major := .tup, level := lv }, []), r1)
  | _ => (pTySimple cs).map fun (t, r) => ((t, []), r)

def isHex (c : Char) : Bool := c.isDigit || ('a' ≤ c && c ≤ 'f') || ('A' ≤ c && c ≤ 'F')

mutual
  partial def pVal : P Val := fun cs =>
    match cs with
    | 'N' :: ':' :: r => (pTy r).map fun ((t, _), r') => (Val.null t, r')
    | 'B' :: ':' :: '1' :: r => some (.bool true, r)
    | 'B' :: ':' :: '0' :: r => some (.bool false, r)
    | 'I' :: ':' :: r => (pInt r).map fun (i, r') => (.int (Int64.ofInt i), r')
    | 'D' :: ':' :: r => let (h, r') := takeWhileP isHex r; some (.num (u64OfHexChars h), r')
    | 'C' :: ':' :: r =>
      let (h, r') := takeWhileP isHex r
      match r' with
      | ',' :: r'' => let (h2, r3) := takeWhileP isHex r''; some (.imag (u64OfHexChars h) (u64OfHexChars h2), r3)
      | _ => none
    | 'S' :: ':' :: r => let (h, r') := takeWhileP isHex r; some (.str (bytesOfHexChars h), r')
    | 'R' :: ':' :: r => let (h, r') := takeWhileP isHex r; some (.raw (bytesOfHexChars h), r')
    | 'O' :: ':' :: r =>
      match pNat r with
      | some (tid, '#' :: r') => (pNat r').map fun (id, r'') => (.obj tid id, r'')
      | _ => none
    | 'U' :: r =>
      match pTy r with
      | some ((_, decl), '(' :: r') =>
        match pVals r' with
        | some (vs, ')' :: r'') => some (.tup (if decl.isEmpty then vs.map Val.type else decl) vs, r'')
        | _ => none
      | _ => none
    | 'T' :: r =>
      match pTy r with
      | some ((t, decl), '[' :: r') =>
        match pVals r' with
        | some (vs, ']' :: r'') => some (.tab t decl vs, r'')
        | _ => none
      | _ => none
    | _ => none
  partial def pVals : P (List Val) := fun cs =>
    match pVal cs with
    | none => some ([], cs)
    | some (v, ',' :: r) => (pVals r).map fun (vs, r') => (v :: vs, r')
    | some (v, r) => some ([v], r)
end

def parseVal (s : String) : Option Val :=
  match pVal s.toList with
  | some (v, []) => some v
  | _ => none

def binOpOfName : String → Option BinOp
  | "ADD" => some .add | "SUB" => some .sub | "MUL" => some .mul | "DIV" => some .div
  | "EXP" => some .exp | "MOD" => some .mod | "AND" => some .and | "IOR" => some .ior
  | "XOR" => some .xor | "POP" => some .pop | "PUS" => some .pus | "EQ" => some .eq
  | "NE" => some .ne | "LT" => some .lt | "LE" => some .le | "GT" => some .gt | "GE" => some .ge
  | "BAND" => some .band | "BIOR" => some .bior | "BXOR" => some .bxor
  | _ => none

def unOpOfName : String → Option UnOp
  | "NEG" => some .neg | "POS" => some .pos | "NOT" => some .not | "BNOT" => some .bnot
  | _ => none

end BlocV.Proto
