/-
  Known-finding region of property C02 as a decidable predicate, shared by the driver (which names the region a case lies
  in: word `opk`) and by Proofs/C02.lean (`kf_op_region_eq_gap`: it IS the `binTypeGap` of the `_partial` / exact-gap
  theorems there).

  C02.static_vs_runtime.op.{SUB,MUL,DIV,EXP,MOD}: "arithmetic on an opaque or untyped-null operand is typed decimal statically
  but yields an integer (null)" — op_sub/mul/div/exp/mod `type()` announces decimal unless BOTH static operand types are
  integer (or one is complex), `value()` returns by the run-time majors. As a function of (operator, static operand types,
  run-time operand types):
    * the value is an integer (run-time majors int×int, int×untyped-null, untyped-null×int) while the static types were not
      both integer;
    * `null % null` (both run-time majors untyped): an untyped null under static type decimal;
    * the value is a complex null (untyped null with a complex) while no operand is statically complex.
  Every other static ≠ run-time disagreement of these operators — and any disagreement of any other operator — is outside
  the region.
-/
import BlocV.Model.Ops

namespace BlocV.KF
open BlocV

/-- major of the value `- * / ** %` return (`nn` = the (null, null) cell: decimal, untyped for `%`) -/
def c02ArithMajor (nn : Major) : Major → Major → Major
  | .none, .none => nn
  | .none, m => m
  | .int, .none | .int, .int => .int
  | _, _ => .num

def c02OpGap (op : BinOp) (s1 s2 t1 t2 : Ty) : Bool :=
  match op with
  | .sub | .mul | .div | .exp | .mod =>
    let r := c02ArithMajor (if op == .mod then .none else .num) t1.major t2.major
    (r == .int && !(s1.major == .int && s2.major == .int)) || r == .none ||
      (r == .imag && !(s1.major == .imag || s2.major == .imag))
  | _ => false

/-! ### C02.static_vs_runtime.bity.<built-in> (task C02R4)

  "math built-ins return their null / ill-typed argument unchanged": the region of each of the 15 recorded built-ins as a function of
  (name, static argument types, run-time argument classes = type and nullness), read off the `value()` / `type()` of
  blocc/builtin/builtin_<name>.{h,cpp}:
  * `ceil floor exp log sin sqrt` (header: decimal): a NULL argument of major integer / decimal / complex is returned as it is
    (`case Type::INTEGER: if (val.isNull()) return val;`): region = null ∧ that major ∧ its type is not plain decimal;
  * `max min mod` (`type()`: integer iff both static types integer, else decimal; `value()`: integer iff both run-time majors
    integer, or integer × untyped null; both of level 0) and `pow` (same, no level test, also untyped null × integer): region =
    static result decimal ∧ run-time result integer;
  * `b64dec` (header: bytes): a null argument gives a null STRING: region = null argument;
  * `str`, `substr lsubstr rsubstr` (header: string): a non-null TABLE of strings that reaches the call through an opaque
    expression is handed back as it is: region = first argument non-null, major string, level ≠ 0.
  Everything else — any other built-in, any other argument classes — is outside every region. -/

/-- run-time class of an argument: its type and whether it is null -/
abbrev ArgCls := Ty × Bool

def c02MathUnary : List String := ["ceil", "floor", "exp", "log", "sin", "sqrt"]
def c02StrTable : List String := ["str", "substr", "lsubstr", "rsubstr"]

def gapMathUnary : List ArgCls → Bool
  | [(t, null)] => null && (t.major == .int || t.major == .num || t.major == .imag) && t != Ty.num
  | _ => false

def gapNullArg : List ArgCls → Bool
  | [(_, null)] => null
  | _ => false

def gapStrTable : List ArgCls → Bool
  | (t, null) :: _ => !null && t.major == .str && t.level != 0
  | _ => false

def gapMathBinary (isPow : Bool) : List Ty → List ArgCls → Bool
  | [s0, s1], [(t0, _), (t1, _)] =>
    let staticInt := s0.major == .int && s1.major == .int
    let staticImag := isPow && (s0.major == .imag || s1.major == .imag)
    let lvl := isPow || (t0.level == 0 && t1.level == 0)
    let rtInt := (t0.major == .int && t1.major == .int) || (t0.major == .int && t1.major == .none) ||
      (isPow && t0.major == .none && t1.major == .int)
    !staticInt && !staticImag && lvl && rtInt
  | _, _ => false

def c02BuiltinGap (name : String) (sts : List Ty) (cls : List ArgCls) : Bool :=
  if c02MathUnary.contains name then gapMathUnary cls
  else if name == "b64dec" then gapNullArg cls
  else if c02StrTable.contains name then gapStrTable cls
  else if name == "max" || name == "min" || name == "mod" then gapMathBinary false sts cls
  else if name == "pow" then gapMathBinary true sts cls
  else false

end BlocV.KF
