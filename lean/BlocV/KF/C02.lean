/-
  Known-finding region of property C02 as a decidable predicate, shared by the driver (which names the region a case lies
  in: word `opk`) and by Proofs/C02.lean (`kf_op_region_eq_gap`: it IS the `binTypeGap` of the `_partial` / exact-gap
  theorems there).

  C02.static_vs_runtime.op.{SUB,MUL,DIV,EXP,MOD}: "arithmetic on an opaque or untyped-null operand is typed decimal statically
  but yields an integer (null)" — op_sub/mul/div/exp/mod `type()` announces decimal unless BOTH static operand types are
  integer (or one is complex), `value()` returns by the run-time majors. As a function of (operator, static operand types,
  run-time operand types):
    * the value is an integer (run-time majors int×int, int×untyped-null, untyped-null×int) while the static types were not
      both integer;
    * `null % null` (both run-time majors untyped): an untyped null under static type decimal;
    * the value is a complex null (untyped null with a complex) while no operand is statically complex.
  Every other static ≠ run-time disagreement of these operators — and any disagreement of any other operator — is outside
  the region.
-/
import BlocV.Model.Ops

namespace BlocV.KF
open BlocV

/-- major of the value `- * / ** %` return (`nn` = the (null, null) cell: decimal, untyped for `%`) -/
def c02ArithMajor (nn : Major) : Major → Major → Major
  | .none, .none => nn
  | .none, m => m
  | .int, .none | .int, .int => .int
  | _, _ => .num

def c02OpGap (op : BinOp) (s1 s2 t1 t2 : Ty) : Bool :=
  match op with
  | .sub | .mul | .div | .exp | .mod =>
    let r := c02ArithMajor (if op == .mod then .none else .num) t1.major t2.major
    (r == .int && !(s1.major == .int && s2.major == .int)) || r == .none ||
      (r == .imag && !(s1.major == .imag || s2.major == .imag))
  | _ => false

end BlocV.KF
