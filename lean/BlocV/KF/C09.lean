/-
  Known-finding regions of property C09 as decidable predicates, shared by the driver (which names
  the region a case lies in) and by Proofs/C09.lean (whose `_partial` theorems exclude exactly these
  regions), plus the dispatch of the specification by method.
  Regions left: C09.mix.level, C09.tuple.hashCollision, C09.tuple.hashZero (C09.tab.levelWrap and C09.tup.nested, found and recorded
  in the deepening round, are repaired: 2c67aef, 4db32b5 — no region). The former hazard regions
  C09.{put,insert,concat,set}.nullDeref (named by the driver from a `hazard` outcome of the model) are
  repaired (9e8652f): the model has no hazard outcome there any more, so no region exists for them.
-/
import BlocV.Model.Members
import BlocV.Spec.Containers

namespace BlocV.Spec
open BlocV

def specMember (m : Member) (recv : Val) (args : List Val) : Option SOut :=
  match m, args with
  | .at, [p] => specAt recv p
  | .put, [p, x] => specPut recv p x
  | .insert, [p, x] => specInsert recv p x
  | .delete, [p] => specDelete recv p
  | .concat, [x] => specConcat recv x
  | .count, [] => specCount recv
  | _, _ => none

end BlocV.Spec

namespace BlocV.KF
open BlocV

/-- C09.mix.level — the "type mixing" branch of put/insert/concat does not look at the level of the
table: an integer/decimal table of two or more dimensions accepts a scalar of the other numeric type
(a typed NULL of it included: since the repair 9e8652f that cell stores a level-0 null integer / decimal
instead of dereferencing a null pointer, e.g. `Ti2[].insert(0, num())` = `Ti2[N:i0]`) or an untyped null
and stores a level-0 element. -/
def levelBug (t : Ty) (a : Val) : Bool :=
  t.level ≥ 2 && a.type.level == 0 &&
    ((t.major == .int && (a.type.major == .num || a.type.major == .none)) ||
     (t.major == .num && (a.type.major == .int || a.type.major == .none)))

/-- C09.tuple.hashCollision — a tuple (or table of tuples) whose declaration differs from the table's
but whose 16-bit structure hash makes the types compare equal. -/
def hashClash (t : Ty) (d : List Ty) (a : Val) : Bool :=
  t.major == .tup &&
  match a with
  | .tup ad _ => a.type == t.levelDown && ad != d
  | .tab at_ ad _ => (at_ == t || at_ == t.levelDown) && ad != d
  | _ => false

/-- C09.tuple.hashZero — a non-empty declaration whose hash is 0 is taken for "opaque". -/
def hashZero (a : Val) : Bool :=
  match a with
  | .tup d _ => !d.isEmpty && (makeTupleTy d 0).minor == 0
  | _ => false

/-- the element argument of a call on a table -/
def elemArg (m : Member) (args : List Val) : Option Val :=
  match m, args with
  | .put, [_, x] => some x
  | .insert, [_, x] => some x
  | .concat, [x] => some x
  | _, _ => none

def memberRegion (m : Member) (recv : Val) (args : List Val) : Option String :=
  match recv, elemArg m args with
  | .tab t d _, some a =>
    if levelBug t a then some "C09.mix.level"
    else if hashClash t d a then some "C09.tuple.hashCollision"
    else none
  | _, _ => none

def tabRegion (args : List Val) : Option String :=
  match args with
  | [_, x] => if hashZero x then some "C09.tuple.hashZero" else none
  | _ => none

end BlocV.KF
