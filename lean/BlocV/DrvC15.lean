/-
  Driver glue for C15 (`seq` lines): reads the op words the harness `capiprobe` reads, runs
  `CApi.runSeq`, prints the same tokens. Not part of the model, used by no theorem (`partial`
  allowed here).
-/
import BlocV.Model.CApi
import BlocV.SExp
import BlocV.Proto

namespace BlocV.DrvC15
open BlocV BlocV.Proto BlocV.CApi

partial def dumpVal : Val → String
  | .null t => "N" ++ toString t.major.code ++ "." ++ toString t.level
  | .bool b => if b then "B1" else "B0"
  | .int i => "I" ++ toString i.toInt
  | .num d => "D" ++ hex16 (if Num.isNaN d then Num.canonNaN else d)
  | .imag a b => "C" ++ hex16 a ++ "," ++ hex16 b
  | .str s => "S" ++ hexOfBytes (cstr s)
  | .raw s => "R" ++ hexOfBytes s
  | .tup _ items => "U(" ++ ",".intercalate (items.map dumpVal) ++ ")"
  | .tab t _ es => "T" ++ toString t.major.code ++ "." ++ toString t.level ++ "[" ++ ",".intercalate (es.map dumpVal) ++ "]"
  | .obj _ _ => "O"

def accData (v : Val) : String :=
  match v with
  | .tab _ _ es => "sz" ++ toString es.length
  | .tup _ is => "sz" ++ toString is.length
  | x => dumpVal x

def hazName : Hazard → String
  | .nullDeref => "nullDeref" | .signedOverflow => "signedOverflow" | .divOverflow => "divOverflow"
  | .shiftRange => "shiftRange" | .floatToInt => "floatToInt" | .foreignException => "foreignException"
  | .diverges => "diverges" | .oob => "oob"

def resTok : Res1 → String
  | .pre => "pre"
  | .unit => "ok"
  | .sym k => "ok=" ++ toString k
  | .null => "null"
  | .nullAt l c => "null@" ++ toString l ++ ":" ++ toString c
  | .truth b => if b then "1" else "0"
  | .val v => dumpVal v
  | .assigned b v => (if b then "1:" else "0:") ++ dumpVal v
  | .acc dn v => if dn then "1:null" else "1:" ++ accData v
  | .dataNull => "n"
  | .item n none => "sz" ++ toString n ++ ":0"
  | .item n (some v) => "sz" ++ toString n ++ ":" ++ dumpVal v
  | .ty t => toString t.major.code ++ "." ++ toString t.level
  | .out b => "out=" ++ hexOfBytes b
  | .hazard h => "hazard:" ++ hazName h
  | .unmodelled => "unmodelled"

def outTok (o : Out) (e : ErrRec) : String :=
  let rr := String.join (o.reread.map fun (i, v) => "~" ++ toString i ++ "=" ++ dumpVal v)
  (if rr.isEmpty then "" else rr ++ "!") ++ resTok o.res ++ "/" ++ toString e.code ++ (if e.msg then "+" else "-")

def majorOfCode : Nat → Major
  | 1 => .bool | 2 => .int | 3 => .num | 4 => .str | 5 => .obj | 6 => .raw | 7 => .tup | 8 => .ptr | 9 => .imag
  | _ => .none

def accOf : String → Option Acc
  | "b" => some .b | "i" => some .i | "n" => some .n | "l" => some .l | "x" => some .x
  | "t" => some .t | "u" => some .u | "c" => some .c | _ => none

def strOfHex (h : String) : String := String.fromUTF8! (ByteArray.mk (bytesOfHex h).toArray)

def optBytes (w : String) : Option Bytes := if w == "-" then none else some (bytesOfHex w)

/-- Tuple literals carry parentheses in their canonical text; inside an S-expression they travel as `<` `>`. -/
partial def fixS : SExp.S → SExp.S
  | .atom a => .atom (a.map fun ch => if ch == '<' then '(' else if ch == '>' then ')' else ch)
  | .list xs => .list (xs.map fixS)

def progText (m : String) : Option ProgText :=
  if m.startsWith "@" then (m.drop 1).toString.toNat?.bind opProgText
  else if m.startsWith "!" then (m.drop 1).toString.toNat?.map ProgText.bad
  else match SExp.readAll (strOfHex m) with
    | some xs => (SExp.toStmts (xs.map fixS)).map ProgText.good
    | none => none

def exprText (m : String) : Option ExprText :=
  if m.startsWith "@" then (m.drop 1).toString.toNat?.bind opExprText
  else if m.startsWith "!" then (m.drop 1).toString.toNat?.map ExprText.bad
  else match SExp.readAll (strOfHex m) with
    | some [x] => (SExp.toExpr (fixS x)).map ExprText.good
    | _ => none

def int64OfDec (w : String) : Option Int64 :=
  (if w.startsWith "-" then (w.drop 1).toString.toNat?.map fun n => -(n : Int) else w.toNat?.map fun n => (n : Int)).map Int64.ofInt

def parseOp (w : String) : Option Op :=
  let a := w.splitOn ","
  let n := fun (i : Nat) => (a[i]?).bind String.toNat?
  match a.head? with
  | some "cnew" => do pure (.cnew (← n 1))
  | some "cclone" => do pure (.cclone (← n 1) (← n 2) (← n 3))
  | some "cfree" => do pure (.cfree (← n 1))
  | some "cpurge" => do pure (.cpurge (← n 1))
  | some "cpwm" => do pure (.cpwm (← n 1))
  | some "reg" => do pure (.reg (← n 1) (← n 2) (strOfHex (← a[3]?)) (majorOfCode (← n 4)) (← n 5))
  | some "find" => do pure (.find (← n 1) (← n 2) (strOfHex (← a[3]?)))
  | some "store" => do pure (.store (← n 1) (← n 2) (← n 3) true)
  | some "storeu" => do pure (.store (← n 1) (← n 2) (← n 3) false)
  | some "load" => do pure (.load (← n 1) (← n 2) (← n 3))
  | some "vnull" => do pure (.vnull (← n 1) (majorOfCode (← n 2)))
  | some "vbool" => do pure (.vbool (← n 1) ((← n 2) != 0))
  | some "vint" => do pure (.vint (← n 1) (← int64OfDec (← a[2]?)))
  | some "vnum" => do pure (.vnum (← n 1) (u64OfHexChars (← a[2]?).toList))
  | some "vlit" => do pure (.vlit (← n 1) (optBytes (← a[2]?)))
  | some "vraw" => do pure (.vraw (← n 1) (optBytes (← a[2]?)))
  | some "vimag" => do pure (.vimag (← n 1) (u64OfHexChars (← a[2]?).toList) (u64OfHexChars (← a[3]?).toList))
  | some "vfree" => do pure (.vfree (← n 1))
  | some "alit" => do pure (.alit (← n 1) (optBytes (← a[2]?)))
  | some "araw" => do pure (.araw (← n 1) (optBytes (← a[2]?)))
  | some "anull" => do pure (.anull (← n 1))
  | some "vdump" => do pure (.vdump (← n 1))
  -- `accu` (once "the accessor without the probe's null guard") is kept as a synonym: there is no guard any more
  | some "acc" | some "accu" => do pure (.acc (← n 1) (← accOf (← a[2]?)))
  | some "tabitem" => do pure (.tabitem (← n 1) (← n 2) (← n 3))
  | some "tupitem" => do pure (.tupitem (← n 1) (← n 2) (← n 3))
  | some "eparse" => do pure (.eparse (← n 1) (← n 2) (← exprText (← a[4]?)))
  | some "efree" => do pure (.efree (← n 1))
  | some "etype" => do pure (.etype (← n 1) (← n 2))
  | some "eval" => do pure (.eval (← n 1) (← n 2) (← n 3))
  | some "xparse" => do pure (.xparse (← n 1) (← n 2) (← progText (← a[4]?)) ((← n 5) != 0))
  | some "xfree" => do pure (.xfree (← n 1))
  | some "exec" => do pure (.exec (← n 1))
  | some "exec2" => do pure (.exec2 (← n 1) (← n 2))
  | some "drop" => do pure (.drop (← n 1) (← n 2))
  | some "brk" => do pure (.brk (← n 1))
  | some "rst" => do pure (.rst (← n 1))
  | some "out" => do pure (.out (← n 1))
  | _ => none

def parseXOp (w : String) : Option XOp :=
  let a := w.splitOn ","
  let n := fun (i : Nat) => (a[i]?).bind String.toNat?
  match a.head? with
  | some "rstore" => do pure (.rstore (← n 1) (← n 2) (← n 3))
  | _ => (parseOp w).map XOp.base

/-- Run the ops one by one, printing each call's token with the error record as it stands after the call. -/
def runWords (ws : List String) : String :=
  let rec go (s : State) (ws : List String) (acc : List String) : List String :=
    match ws with
    | [] => acc.reverse
    | w :: rest =>
      match parseXOp w with
      | none => (("badop:" ++ w) :: acc).reverse
      | some op =>
        let (s1, o) := stepX s op
        go s1 rest (outTok o s1.err :: acc)
  "model=" ++ " ".intercalate (go State.init ws [])

def hexOfString (s : String) : String := hexOfBytes s.toUTF8.toList

def formName : OForm → String
  | .lit => "lit" | .var => "var" | .paren => "paren" | .call => "call" | .memb => "memb"

/-- One operator case for the check: spelling, operand form, verdict of the typing model (`A` accepted with an AST,
`M` accepted without one — `matches` —, `J` rejected), which side is ill-typed on its own (`L`, `R`, `LR`, `-`),
the two sources. The op word `@i` (i = position in this list) stands for the model's text of case i. -/
def opCaseWord (oc : OpCase) : String :=
  hexOfString oc.spell ++ ":" ++ formName oc.form ++ ":" ++
  (if oc.rejected then "J" else if oc.ast.isSome then "A" else "M") ++ ":" ++
  (let f := (if oc.leftBad then "L" else "") ++ (if oc.rightBad then "R" else ""); if f.isEmpty then "-" else f) ++ ":" ++
  hexOfString oc.exprSrc ++ ":" ++ hexOfString oc.progSrc ++ ":" ++ (if oc.unary then "u" else "b")

def handle (words : List String) : Option String :=
  match words with
  | "seq" :: ops => some (runWords ops)
  | ["c15bad"] => some ("progs=" ++ ",".intercalate (badProgs.map fun b => hexOfString b.src) ++
                        " exprs=" ++ ",".intercalate (badExprs.map fun b => hexOfString b.src) ++
                        " hand=" ++ toString handBadProgs.length ++ "," ++ toString handBadExprs.length)
  | ["c15ops"] => some ("ops=" ++ ",".intercalate (opCases.map opCaseWord))
  | _ => none

end BlocV.DrvC15
