/-
  Driver glue for C19 (`cli …` lines of the correspondence check). Not part of the model: it only
  builds an `Env` from tables sent by the check (what the parser makes of each text, which files
  exist) and prints the model's `Proc`.

  cli <word>*          words, in any order:
    A:<hex>            one argv word (after argv[0]), in order
    S:<hex>            stdin
    F:<hexpath>=<hex>  a readable file
    W:<hexpath>        a path that cannot be opened for writing
    C:<hextext>=ok:<hex sexp of the program> | perr:<l>:<c> | perr:-     Parser::parse of that text
    E:<hextext>=ok:<hex sexp of the expression> | perr                   parseExpression of that text
    I:<item>,<item>…   the interactive parser on stdin; item ::= s<lines>:<hex sexp of ONE statement>
                       | b<lines>:<l>:<c> | b<lines>:- | x
    U:<fuel>
    X:1                compile with the model's own front end (Elab.frontEnd) instead of the C: table
  answer: model=<exit> out=<hex> err=<hex> file=<-|hexpath:hexcontent> arg=<V|-> tr=<-|segs>

  reader <max> <hex>   the reader model alone: `chunks=<hex>,<hex>… spec=eq|ne`
-/
import BlocV.Model.Cli
import BlocV.Spec.Cli
import BlocV.SExp
import BlocV.Proto

namespace BlocV.DrvC19
open BlocV BlocV.Cli BlocV.Proto

def textOfHex (h : String) : String := String.fromUTF8! (ByteArray.mk (bytesOfHex h).toArray)

def splitEq (w : String) : String × String :=
  match w.splitOn "=" with
  | [a, b] => (a, b)
  | a :: _ => (a, "")
  | [] => ("", "")

def parsePos (ws : List String) : Option (Nat × Nat) :=
  match ws with
  | [l, c] => match l.toNat?, c.toNat? with
    | some a, some b => some (a, b)
    | _, _ => none
  | _ => none

/-- The S-expression reader cannot carry a tuple literal (its text has parentheses): the check writes
`(call $tup <lit>…)` for a tuple of literals where an expression is returned, rewritten here. -/
def litOf : Expr → Option Val
  | .lit v => some v
  | _ => none

def fixTup (e : Expr) : Expr :=
  match e with
  | .call "$tup" args =>
    match args.mapM litOf with
    | some vs => .lit (.tup (vs.map Val.type) vs)
    | none => e
  | _ => e

def fixStmt : Stmt → Stmt
  | .returnS (some e) => .returnS (some (fixTup e))
  | s => s

def compileOf (v : String) : CompileRes :=
  if v.startsWith "ok:" then
    match SExp.readProgram (textOfHex (v.drop 3).toString) with
    | some p => .ok (p.map fixStmt)
    | none => .perr none (str "driver: unreadable program")
  else
    .perr (parsePos ((v.splitOn ":").drop 1)) (str "compile error")

def exprOf (v : String) : ExprRes :=
  if v.startsWith "ok:" then
    match SExp.readAll (textOfHex (v.drop 3).toString) with
    | some [x] => match SExp.toExpr x with
      | some e => .ok (fixTup e)
      | none => .perr (str "driver: unreadable expression")
    | _ => .perr (str "driver: unreadable expression")
  else .perr (str "parse error")

def itemOf (w : String) : Option IItem :=
  if w == "x" then some .exit
  else
    let ps := w.splitOn ":"
    match ps with
    | hd :: rest =>
      let n := (hd.drop 1).toString.toNat?.getD 1
      if hd.startsWith "s" then
        match rest with
        | [h] => match SExp.readProgram (textOfHex h) with
          | some [st] => some (.stmt (fixStmt st) n)
          | _ => none
        | _ => none
      else if hd.startsWith "b" then some (.bad (parsePos rest) (str "parse error") n)
      else none
    | [] => none

def exitStr : Exit → String
  | .code n => "exit:" ++ toString n
  | .hazard h => resStr (.haz h : Res Val)
  | .unmodelled => "unmodelled"
  | .oof => "oof"

def segStr : Seg → String
  | .prompt false => "P0"
  | .prompt true => "P1"
  | .text b => "T" ++ hexOfBytes b
  | .out b => "O" ++ hexOfBytes b
  | .elapsed => "E"

def whatOf (c : Nat) (_ : Bytes) : Bytes := str ("rt" ++ toString c)

def flowStr : Option (Res Flow) → String
  | some (.ok .norm) => "norm"
  | some (.ok .ret) => "ret"
  | some (.ok _) => "loopflow"
  | some (.err _ _) => "err"
  | some _ => "stop"
  | none => "perr"

/-- The specification's answer: program mode — the selected output of a successful run; interactive
mode — whether the printed results equal those of the batch run of the same statements. -/
def specStr (env : Env) (argv : List Bytes) (stdin : Bytes) : String :=
  match modeOf argv with
  | .program _ file args =>
    let src : Option Bytes := if file == [45] then some stdin else env.readFile file
    match src with
    | none => " spec=-"
    | some text =>
      match library env (readText text) args with
      | .ran r =>
        match r.outcome with
        | .ok ret => match Spec.Cli.selectedOutput Fmt.fmt16g r.st.output ret with
          | some b => " spec=" ++ (if b.isEmpty then "" else hexOfBytes b)
          | none => " spec=none"
        | _ => " spec=-"
      | _ => " spec=-"
  | .interactive _ args =>
    let items := env.parseInteractive stdin
    let prog := stmtsOf items
    if prog.length != items.length then " spec=-" else
    let r := interLoop env.fuel items [] (interInit prog args)
    let b := runProgram env.fuel prog (initState args)
    " spec=" ++ (if r.2.2.output == b.st.output then "eq" else "ne") ++ " flows=" ++ ",".intercalate (r.1.map fun x => flowStr x.res)
  | _ => " spec=-"

def handle (words : List String) : Option String :=
  match words with
  | "reader" :: mx :: rest =>
    -- `reader <max> <hex file>`: the chunks `ReadFile::read` returns call after call (Model/Cli.lean `readChunks`),
    -- and whether their concatenation is the Spec's "file minus CRs"
    match mx.toNat? with
    | none => some "bad-reader-max"
    | some m =>
      if m == 0 then some "bad-reader-max" else
      let file := bytesOfHex (rest.headD "")
      let cs := readChunks m file
      some ("chunks=" ++ ",".intercalate (cs.map hexOfBytes) ++ " spec=" ++ (if cs.flatten == Spec.Cli.withoutCr file then "eq" else "ne"))
  | "cli" :: ws =>
    let pick (p : String) : List String := (ws.filter (·.startsWith p)).map fun w => (w.drop p.length).toString
    let argv := (pick "A:").map bytesOfHex
    let stdin := ((pick "S:").map bytesOfHex).flatten
    let files := (pick "F:").map fun w => let (a, b) := splitEq w; (bytesOfHex a, bytesOfHex b)
    let nowrite := (pick "W:").map bytesOfHex
    let ctab := (pick "C:").map fun w => let (a, b) := splitEq w; (bytesOfHex a, b)
    let etab := (pick "E:").map fun w => let (a, b) := splitEq w; (bytesOfHex a, b)
    let items : Option (List IItem) := match pick "I:" with
      | [] => some []
      | l :: _ => ((l.splitOn ",").filter (· ≠ "")).mapM itemOf
    let fuel := match pick "U:" with
      | f :: _ => f.toNat?.getD 100000
      | [] => 100000
    match items with
    | none => some "bad-cli-items"
    | some its =>
      let env : Env := {
        fuel := fuel
        compile := fun t => match ctab.find? (·.1 == t) with
          | some (_, v) => compileOf v
          | none => .perr none (str "driver: text not in the table")
        parseExpr := fun t => match etab.find? (·.1 == t) with
          | some (_, v) => exprOf v
          | none => .perr (str "driver: text not in the table")
        parseInteractive := fun _ => its
        readFile := fun p => (files.find? (·.1 == p)).map (·.2)
        canWrite := fun p => !nowrite.contains p
        what := whatOf
        usage := str "USAGE"
        header := str "HEADER" }
      -- `X:1`: no parser table — `Env.compile` is the model's own front end (reader chunks → scanner → parser → elaboration)
      let useFe := !(pick "X:").isEmpty
      let env := if useFe then feEnv env else env
      let p := run env argv stdin
      if useFe && p.stderr == errLine feUnsupported then some "model=unsupported out= err= file=- arg=- tr=-" else
      let arg := match modeOf argv with
        | .program _ _ args => valStr (argTable args)
        | .interactive _ args => valStr (argTable args)
        | _ => "-"
      some ("model=" ++ exitStr p.exit ++ " out=" ++ hexOfBytes p.stdout ++ " err=" ++ hexOfBytes p.stderr ++ " file=" ++
        (match p.outFile with
         | some (pa, c) => hexOfBytes pa ++ ":" ++ hexOfBytes c
         | none => "-") ++ " arg=" ++ arg ++ " tr=" ++
        (if p.transcript.isEmpty then "-" else ",".intercalate (p.transcript.map segStr)) ++ specStr env argv stdin)
  | _ => none

end BlocV.DrvC19
